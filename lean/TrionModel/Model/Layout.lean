import TrionModel.Model.Syntax
/-!
# C05 — the layout core of the assembler (Layer B) and the two-pass reference layout (Layer A)

The statement loop of `Context::do_assemble`, the region switching of `change_segment` / `close_segment`,
the first-write / placeholder / deferred-rewrite mechanics of `ArmInstr::write_instr` and
`DataExpr::write_data`, and the local task queue run at the end of `Context::assemble`, for ONE file,
at the abstraction level at which C05 is stated:

* what a statement's bytes ARE is not this model's business (that is C01/C04 for instructions, C07/C08
  for expression values, C11 for literals): a value-dependent statement is `emit len deps final` — it
  occupies `len` bytes, needs the symbols `deps`, and its bytes in the final symbol table are `final`;
* the output is a byte image `Img` (address ↦ byte association list, newest first); that the real
  `MemoryMap` behaves as such a dictionary is C15, that regions never overlap is C13.

Symbols are numbers (the harness numbers the names of a program). Addresses are `Nat` below 2^32.
Import-free apart from the shared syntax module.
-/
namespace Trion.Layout

abbrev Img := List (Nat × UInt8)

def Img.get (m : Img) (a : Nat) : Option UInt8 :=
  match m with
  | [] => none
  | (k, v) :: r => if k = a then some v else Img.get r a

def Img.has (m : Img) (a : Nat) : Bool := (m.get a).isSome

/-- entries `(a + i, bs[i])`, in order -/
def entries (a : Nat) : Bytes → Img
  | [] => []
  | b :: bs => (a, b) :: entries (a + 1) bs

/-- write `bs` at `a`, overriding what is there -/
def Img.put (m : Img) (a : Nat) (bs : Bytes) : Img := entries a bs ++ m

/-- every address of `[a, a+n)` is present -/
def Img.hasRange (m : Img) (a : Nat) : Nat → Bool
  | 0 => true
  | n+1 => m.has a && Img.hasRange m (a + 1) n

/-- no address of `[a, a+n)` is present -/
def Img.freeRange (m : Img) (a : Nat) : Nat → Bool
  | 0 => true
  | n+1 => !m.has a && Img.freeRange m (a + 1) n

/-- least occupied address `≥ a`, if any (`MemoryMap::find(a, Above)` then `get_first`, clipped to `a`
when `a` itself is occupied) -/
def Img.nextAbove (m : Img) (a : Nat) : Option Nat :=
  m.foldl (fun acc (k, _) => if a ≤ k then (match acc with | none => some k | some x => some (min x k)) else acc) none

abbrev Env := List (Nat × Int)

def Env.get (e : Env) (n : Nat) : Option Int :=
  match e with
  | [] => none
  | (k, v) :: r => if k = n then some v else Env.get r n

def Env.hasAll (e : Env) (deps : List Nat) : Bool := deps.all fun d => (e.get d).isSome

inductive Stmt where
  /-- `.addr a` with the evaluated target -/
  | addr (a : Nat)
  /-- `.align n` with the evaluated alignment -/
  | align (n : Nat)
  /-- `name:` -/
  | label (n : Nat)
  /-- `.const n, e` where `e` needs `deps` and evaluates to `v` -/
  | const (n : Nat) (deps : List Nat) (v : Int)
  /-- value-independent bytes: `.dstr`, `.dhex`, `.dfile`, an instruction without symbol operands -/
  | raw (bs : Bytes)
  /-- value-dependent statement (`.du8/16/32 e`, an instruction with symbol operands): `len` bytes,
  needs `deps`, bytes `final` in the final symbol table -/
  | emit (len : Nat) (deps : List Nat) (final : Bytes)
deriving Repr, DecidableEq, Inhabited

structure Active where
  base : Nat
  buf : Bytes
  maxLen : Nat
deriving Repr, DecidableEq, Inhabited

structure Task where
  addr : Nat
  len : Nat
  deps : List Nat
  final : Bytes
deriving Repr, DecidableEq, Inhabited

structure State where
  closed : Img := []
  active : Option Active := none
  env : Env := []
  tasks : List Task := []
deriving Repr, Inhabited

/-- why a run did not succeed; `panic` = one of the `assert!`s of the real code would fire -/
inductive Fail where
  | inactive | occupied | range | overflow | duplicate | undefined | panic
deriving Repr, DecidableEq, Inhabited

def top : Nat := 4294967296

/-- `ActiveSegment::curr_addr` (saturating) -/
def Active.curr (s : Active) : Nat := min (s.base + s.buf.length) (top - 1)
/-- `ActiveSegment::remaining`; `max_len ≥ len` is an invariant — its violation is an arithmetic panic -/
def Active.remaining (s : Active) : Nat := s.maxLen - s.buf.length

/-- `Context::close_segment`: the buffer must land on free addresses only (`assert_eq!(n, len)`) -/
def closeSeg (st : State) : Except Fail State :=
  match st.active with
  | none => .ok st
  | some s =>
    if st.closed.freeRange s.base s.buf.length then
      .ok { st with closed := st.closed.put s.base s.buf, active := none }
    else .error .panic

/-- `Context::change_segment` -/
def changeSeg (st : State) (a : Nat) : Except Fail State :=
  if top ≤ a then .error .range else
  match st.active with
  | some s =>
    if a = s.base ∧ s.buf = [] then .ok st else
    match closeSeg st with
    | .error e => .error e
    | .ok st' => openAt st' a
  | none => openAt st a
where
  openAt (st : State) (a : Nat) : Except Fail State :=
    match st.closed.nextAbove a with
    | some n => if n ≤ a then .error .occupied else .ok { st with active := some { base := a, buf := [], maxLen := n - a } }
    | none => .ok { st with active := some { base := a, buf := [], maxLen := top - a } }

/-- `ActiveSegment::write` (append with capacity check) -/
def append (st : State) (bs : Bytes) : Except Fail State :=
  match st.active with
  | none => .error .inactive
  | some s =>
    if s.maxLen < s.buf.length then .error .panic
    else if bs.length ≤ s.remaining then .ok { st with active := some { s with buf := s.buf ++ bs } }
    else .error .overflow

/-- replace `bs.length` bytes of `buf` from `start` -/
def overwrite (buf : Bytes) (start : Nat) (bs : Bytes) : Bytes :=
  buf.take start ++ bs ++ buf.drop (start + bs.length)

/-- the rewrite of a placed statement (`write_instr` / `write_data` with `placed = true`) -/
def rewrite (st : State) (addr : Nat) (bs : Bytes) : Except Fail State :=
  if st.closed.has addr then
    -- `output.put` must not add a byte (`assert_eq!(n, 0)`)
    if st.closed.hasRange addr bs.length then .ok { st with closed := st.closed.put addr bs } else .error .panic
  else match st.active with
    | some s =>
      if s.base ≤ addr ∧ addr ≤ s.curr then
        -- `write_at`
        let start := addr - s.base
        if s.buf.length < start then .error .panic
        else if s.buf.length - start < bs.length then
          let overwriteN := s.buf.length - start
          if s.maxLen < s.buf.length then .error .panic
          else if bs.length - overwriteN ≤ s.remaining then
            .ok { st with active := some { s with buf := s.buf.take start ++ bs } }
          else .error .overflow
        else .ok { st with active := some { s with buf := overwrite s.buf start bs } }
      else if bs.length = 0 then .ok st else .error .panic
    | none => if bs.length = 0 then .ok st else .error .panic

def insertConst (st : State) (n : Nat) (v : Int) : Except Fail State :=
  match st.env.get n with
  | some _ => .error .duplicate
  | none => .ok { st with env := (n, v) :: st.env }

def placeholder (len : Nat) : Bytes := List.replicate len 0xBE

/-- one statement of `do_assemble` -/
def step (st : State) : Stmt → Except Fail State
  | .addr a => changeSeg st a
  | .align n =>
    match st.active with
    | none => .error .inactive
    | some s =>
      if n = 0 ∨ top ≤ n then .error .range else
      let off := (s.base + s.buf.length) % n   -- the true cursor (fix F26): not the saturated `curr_addr`
      if off = 0 then .ok st
      -- `has_remaining(n - off)` decided from the NUMBER before any padding exists (exactly what `append` decides)
      else if s.maxLen < s.buf.length then .error .panic
      else if n - off ≤ s.remaining then append st (placeholder (n - off))
      else .error .overflow
  | .label n =>
    match st.active with
    | none => .error .inactive
    | some s => insertConst st n s.curr
  | .const n deps v => if st.env.hasAll deps then insertConst st n v else .error .undefined
  | .raw bs => append st bs
  | .emit len deps final =>
    match st.active with
    | none => .error .inactive
    | some s =>
      if st.env.hasAll deps then append st final
      else match append st (placeholder len) with
        | .error e => .error e
        | .ok st' => .ok { st' with tasks := st'.tasks ++ [{ addr := s.curr, len := len, deps := deps, final := final }] }

def steps (st : State) : List Stmt → Except Fail State
  | [] => .ok st
  | s :: r => match step st s with
    | .error e => .error e
    | .ok st' => steps st' r

/-- the local task queue at the end of `Context::assemble` -/
def runTasks (st : State) : List Task → Except Fail State
  | [] => .ok st
  | t :: r =>
    if st.env.hasAll t.deps then
      match rewrite st t.addr t.final with
      | .error e => .error e
      | .ok st' => runTasks st' r
    else .error .undefined

/-- `assemble` + `close_segment` (+ `finalize`, which has nothing to do for one file without `.global`) -/
def run (p : List Stmt) : Except Fail Img :=
  match steps {} p with
  | .error e => .error e
  | .ok st =>
    match runTasks { st with tasks := [] } st.tasks with
    | .error e => .error e
    | .ok st' => match closeSeg st' with
      | .error e => .error e
      | .ok st'' => .ok st''.closed

/-! ## Layer A: the two-pass reference layout -/
namespace Ref

/-- size of a statement at cursor `c` (value independent) -/
def size (c : Nat) : Stmt → Nat
  | .align n => if n = 0 then 0 else if c % n = 0 then 0 else n - c % n
  | .raw bs => bs.length
  | .emit len _ _ => len
  | _ => 0

/-- pass 1: the symbol table (labels = address of the next byte; constants = their value).
`none` = the program is outside the specification (label before any `.addr`, a label where no byte can
follow (cursor 2^32), a symbol defined twice). -/
def pass1 (cursor : Option Nat) (env : Env) : List Stmt → Option Env
  | [] => some env
  | .addr a :: r => pass1 (some a) env r
  | .label n :: r =>
    match cursor, env.get n with
    | some c, none => if c < top then pass1 cursor ((n, (c : Int)) :: env) r else none
    | _, _ => none
  | .const n _ v :: r =>
    match env.get n with
    | none => pass1 cursor ((n, v) :: env) r
    | some _ => none
  | s :: r =>
    match cursor with
    | some c => pass1 (some (c + size c s)) env r
    | none => none

/-- pass 2: every statement's bytes at its address, in source order; nothing else -/
def pass2 (cursor : Option Nat) (img : Img) : List Stmt → Option Img
  | [] => some img
  | .addr a :: r => pass2 (some a) img r
  | .label _ :: r | .const _ _ _ :: r => pass2 cursor img r
  | s :: r =>
    match cursor with
    | none => none
    | some c =>
      let bytes : Bytes := match s with
        | .raw bs => bs
        | .emit _ _ final => final
        | _ => placeholder (size c s)
      pass2 (some (c + bytes.length)) (img.put c bytes) r

def layout (p : List Stmt) : Option Img :=
  match pass1 none [] p with
  | none => none
  | some _ => pass2 none [] p

end Ref

/-- well-formedness of the abstract program: `emit`'s final bytes have the declared length -/
def Stmt.wf : Stmt → Bool
  | .emit len _ final => final.length == len
  | _ => true

end Trion.Layout
