import TrionModel.Model.Map
/-!
# Model of the output-region machine (Layer B)

Mirrors, as the code is now (after the fixes F10, F11, F12, F22):
* `Context::change_segment`, `Context::close_segment`, `Segment::make_active/make_inactive`,
  `ActiveSegment::{curr_addr, remaining, has_remaining, write, write_at}` in `src/asm/mod.rs`;
* the target choice of `ArmInstr::write_instr` (`src/arm6m/mod.rs`) and `DataExpr::write_data`
  (`src/asm/directive/data.rs`): a statement that has not been placed appends with `write`; a placed
  statement is rewritten in the output map if the map holds its address, else with `write_at` in the active
  region if its address lies in `[base, cursor]`, else in the map;
* `.addr` (`addr.rs`: `change_segment`) and `.align` (`align.rs`: padding through `has_remaining` + `write`, computed
  from the unsaturated cursor `base_addr + len()`).

Every `assert!`/`assert_eq!`, the `usize` subtraction of `remaining()` and the index expressions of the
underlying map are explicit `.panic` outcomes. Only the core library and `Model/Map.lean` are used.
-/
namespace Trion.Seg
open Trion.Map

/-- `ActiveSegment` -/
structure Active where
  base : Nat
  buf : List UInt8
  maxLen : Nat
deriving DecidableEq, Repr, Inhabited

/-- `Context::{output, active}` plus the ghost list of placed statements `(address, length)` -/
structure State where
  map : Segs
  active : Option Active
  pending : List (Nat × Nat)
deriving Repr, Inhabited

def init : State := ⟨[], none, []⟩

/-- diagnostic kinds (`SegmentError` and the "no active segment" errors of the statement kinds) -/
inductive Diag where
  | occupied (addr : Nat)
  | overflow (need have_ : Nat)
  | write (e : PutErr)
  | inactive
deriving DecidableEq, Repr, Inhabited

/-- outcome of one operation -/
inductive Out where
  | ok
  | placed (addr : Nat)
  | diag (d : Diag)
  | panic
deriving DecidableEq, Repr, Inhabited

inductive Op where
  /-- `.addr a` -/
  | select (a : Nat)
  /-- immediate statement (`.dstr`, `.dhex`, `.dfile`): `ActiveSegment::write` -/
  | append (bytes : List UInt8)
  /-- `.align n` (`n > 0`): pad with 0xBE up to the next multiple of `n` -/
  | align (n : Nat)
  /-- first write of an instruction / `.du*` statement; yields the statement address (the cursor) -/
  | place (bytes : List UInt8)
  /-- later write of a placed statement (deferred value resolved) -/
  | rewrite (addr : Nat) (bytes : List UInt8)
  /-- `close_segment` -/
  | close
deriving DecidableEq, Repr, Inhabited

/-- `ActiveSegment::curr_addr`: `base_addr.saturating_add(u32::try_from(buffer.len()).unwrap_or(u32::MAX))`
(/repo 46d02de: the length saturates instead of being truncated by `as u32`) -/
def Active.cur (s : Active) : Nat := min (s.base + min s.buf.length u32Max) u32Max

/-- `ActiveSegment::remaining`: `max_len - buffer.len()`; `none` = `usize` underflow panic -/
def Active.remaining (s : Active) : Option Nat :=
  if s.buf.length ≤ s.maxLen then some (s.maxLen - s.buf.length) else none

/-- `ActiveSegment::write` -/
def Active.write (s : Active) (d : List UInt8) : Active × Out :=
  match s.remaining with
  | none => (s, .panic)
  | some rem =>
    if d.length ≤ rem then ({ s with buf := s.buf ++ d }, .ok)
    else (s, .diag (.overflow d.length rem))

/-- `ActiveSegment::write_at` -/
def Active.writeAt (s : Active) (addr : Nat) (d : List UInt8) : Active × Out :=
  if ¬ (addr ≥ s.base ∧ addr ≤ s.cur) then (s, .panic) else
  let start := addr - s.base
  if s.buf.length < start then (s, .panic) else
  if s.buf.length - start < d.length then
    let overwrite := s.buf.length - start
    match s.remaining with
    | none => (s, .panic)
    | some rem =>
      if d.length - overwrite ≤ rem then ({ s with buf := s.buf.take start ++ d }, .ok)
      else (s, .diag (.overflow (d.length - overwrite) rem))
  else if start < s.buf.length then
    ({ s with buf := s.buf.take start ++ d ++ s.buf.drop (start + d.length) }, .ok)
  else ({ s with buf := s.buf ++ d }, .ok)

/-- `Context::close_segment` -/
def closeSegment (s : State) : State × Out :=
  match s.active with
  | none => (s, .ok)
  | some seg =>
    match Map.put s.map seg.base seg.buf with
    | (.ok n, m') =>
      if n = seg.buf.length then ({ s with map := m', active := none }, .ok)
      else ({ s with map := m' }, .panic)
    | (.error e, _) => (s, .diag (.write e))

/-- `Segment::make_active`: `max_len` from the next occupied address -/
def maxLenFor (addr : Nat) (next : Option Nat) : Nat :=
  match next with
  | none => u32Max - addr + 1
  | some n => n - addr

/-- second half of `Context::change_segment`: with the previous region closed, test whether `addr` is
occupied (`output.find(addr, Above)`), else `make_active(addr, next)` -/
def openSegment (s : State) (addr : Nat) : State × Out :=
  match Map.find s.map addr .above with
  | .panic => (s, .panic)
  | .ok next =>
    match next with
    | some (n, _) =>
      if n ≤ addr then (s, .diag (.occupied addr))
      else ({ s with active := some ⟨addr, [], maxLenFor addr (some n)⟩ }, .ok)
    | none => ({ s with active := some ⟨addr, [], maxLenFor addr none⟩ }, .ok)

/-- `Context::change_segment` -/
def changeSegment (s : State) (addr : Nat) : State × Out :=
  match s.active with
  | some seg =>
    if addr = seg.base ∧ seg.buf.isEmpty then (s, .ok)
    else match closeSegment s with
      | (s', .ok) => openSegment s' addr
      | r => r
  | none => openSegment s addr

/-- the target choice of `write_instr` / `write_data` for a statement with `placed = true` -/
def rewrite (s : State) (addr : Nat) (d : List UInt8) : State × Out :=
  match Map.find s.map addr .exact with
  | .panic => (s, .panic)
  | .ok hit =>
    let viaMap : State × Out :=
      match Map.put s.map addr d with
      | (.ok n, m') => if n = 0 then ({ s with map := m' }, .ok) else ({ s with map := m' }, .panic)
      | (.error e, _) => (s, .diag (.write e))
    match s.active with
    | some seg =>
      if hit.isNone ∧ addr ≥ seg.base ∧ addr ≤ seg.cur then
        match seg.writeAt addr d with
        | (seg', out) => ({ s with active := some seg' }, out)
      else viaMap
    | none => viaMap

/-- one operation of the region machine -/
def step (s : State) : Op → State × Out
  | .select a => changeSegment s a
  | .close => closeSegment s
  | .append d =>
    match s.active with
    | none => (s, .diag .inactive)
    | some seg => match seg.write d with
      | (seg', out) => ({ s with active := some seg' }, out)
  | .align n =>
    match s.active with
    | none => (s, .diag .inactive)
    | some seg =>
      -- the true cursor as a 64-bit value: `(u64::from(base_addr) + len() as u64) % u64::from(n)` (/repo 9bfedb8: `curr_addr`
      -- saturates once the region reaches the end of the address space)
      let off := (seg.base + seg.buf.length) % n
      if off = 0 then (s, .ok) else
      match seg.remaining with
      | none => (s, .panic)
      | some rem =>
        if n - off ≤ rem then
          match seg.write (List.replicate (n - off) 0xBE) with
          | (seg', out) => ({ s with active := some seg' }, out)
        else (s, .diag (.overflow (n - off) rem))
  | .place d =>
    match s.active with
    | none => (s, .diag .inactive)
    | some seg =>
      let addr := seg.cur
      match seg.write d with
      | (seg', .ok) => ({ s with active := some seg', pending := (addr, d.length) :: s.pending }, .placed addr)
      | (seg', out) => ({ s with active := some seg' }, out)
  | .rewrite addr d => rewrite s addr d

end Trion.Seg
