import TrionModel.Model.Instr
/-!
# Thumb instruction codec (import-free model of `Instruction::encode` / `Instruction::decode`,
`src/arm6m/asm.rs`, together with `reg.rs`, `cond.rs`, `sysreg.rs`, `regset.rs`)

* Halfwords, bytes and bit-fields are `Nat`, combined with `+ * / %` only (DESIGN §4): disjoint
  bit-fields make `|` equal `+`, `x >> k` is `x / 2^k`, `x & (2^k-1)` is `x % 2^k`.  That the `Nat`
  formulation equals the Rust bit operations is what the exhaustive correspondence run checks.
* `encode` mirrors the 58-constructor `match` arm by arm, guards first.  The result is the list of
  halfwords (1 or 2); `toBytes` is the little-endian serialisation at the end of the Rust function and
  `encodeInto cap` adds the `Overflow` check against the output buffer length.
* `decode` works on a byte list (every element `< 256`).  Every `Register::try_from(..).unwrap()`,
  `Condition::try_from(..).unwrap()` and `unreachable!` of the Rust code is an explicit `.panic` outcome
  (`withReg`, `withCond`, the `_ =>` arms), so that "never panics" is a theorem (`Props/C03.lean`).
-/
namespace Trion.Codec
open Trion

inductive EncErr where
  | unrepresentable
  | overflow (need have_ : Nat)
deriving DecidableEq, Repr, Inhabited

inductive DecErr where
  | underflow (need have_ : Nat)
  | undefined (h0 : Nat) (h1 : Option Nat)
  | unpredictable (h0 : Nat) (h1 : Option Nat)
  | reserved (h0 : Nat) (h1 : Option Nat)
  | panic
deriving DecidableEq, Repr, Inhabited

abbrev EncRes := Except EncErr (List Nat)
abbrev DecRes := Except DecErr (Nat × Instr)

def unrep : EncRes := .error .unrepresentable

/-- three-register / two-register low forms: `base | r2 << 6 | r1 << 3 | r0` -/
def lo3 (base : Nat) (r2 r1 r0 : Reg) : EncRes :=
  if r0.val ≥ 8 ∨ r1.val ≥ 8 ∨ r2.val ≥ 8 then unrep else .ok [base + r2.val * 64 + r1.val * 8 + r0.val]

def lo2 (base : Nat) (r1 r0 : Reg) : EncRes :=
  if r0.val ≥ 8 ∨ r1.val ≥ 8 then unrep else .ok [base + r1.val * 8 + r0.val]

/-- `Instruction::encode` up to the serialisation: the halfwords -/
def encode : Instr → EncRes
  | .adc dst rhs => lo2 0x4140 rhs dst
  | .add flags dst lhs (.imm rhs) =>
    if lhs.val = 13 then
      if dst.val = 13 then
        if flags = true ∨ rhs < 0 ∨ rhs > 508 ∨ rhs % 4 ≠ 0 then unrep
        else .ok [0xB000 + (rhs / 4).toNat]
      else
        if flags = true ∨ dst.val ≥ 8 ∨ rhs < 0 ∨ rhs > 1020 ∨ rhs % 4 ≠ 0 then unrep
        else .ok [0xA800 + dst.val * 256 + (rhs / 4).toNat]
    else if dst.val ≠ lhs.val then
      if flags = false ∨ dst.val ≥ 8 ∨ lhs.val ≥ 8 ∨ rhs < 0 ∨ rhs > 7 then unrep
      else .ok [0x1C00 + rhs.toNat * 64 + lhs.val * 8 + dst.val]
    else
      if flags = false ∨ dst.val ≥ 8 ∨ rhs < 0 ∨ rhs > 255 then unrep
      else .ok [0x3000 + dst.val * 256 + rhs.toNat]
  | .add flags dst lhs (.reg rhs) =>
    if flags = false ∨ dst.val ≥ 8 ∨ rhs.val ≥ 8 then
      if flags = true ∨ lhs.val ≠ dst.val ∨ (lhs.val = 15 ∧ rhs.val = 15) then unrep
      else .ok [0x4400 + dst.val / 8 * 128 + rhs.val * 8 + dst.val % 8]
    else
      if flags = false ∨ dst.val ≥ 8 ∨ lhs.val ≥ 8 ∨ rhs.val ≥ 8 then unrep
      else .ok [0x1800 + rhs.val * 64 + lhs.val * 8 + dst.val]
  | .adr dst off =>
    if dst.val ≥ 8 ∨ off > 1020 ∨ off % 4 ≠ 0 then unrep
    else .ok [0xA000 + dst.val * 256 + (off / 4).toNat]
  | .and dst rhs => lo2 0x4000 rhs dst
  | .asr dst value (.imm shift) =>
    if dst.val ≥ 8 ∨ value.val ≥ 8 ∨ shift ≤ 0 ∨ shift > 32 then unrep
    else .ok [0x1000 + (shift % 32).toNat * 64 + value.val * 8 + dst.val]
  | .asr dst value (.reg shift) =>
    if dst.val ≥ 8 ∨ value.val ≠ dst.val ∨ shift.val ≥ 8 then unrep
    else .ok [0x4100 + shift.val * 8 + dst.val]
  | .b cond off =>
    if cond.val = 14 then
      if off < -2048 ∨ off ≥ 2048 ∨ off % 2 ≠ 0 then unrep
      else .ok [0xE000 + (off / 2 % 2048).toNat]
    else
      if cond.val = 14 ∨ off < -256 ∨ off ≥ 256 ∨ off % 2 ≠ 0 then unrep
      else .ok [0xD000 + cond.val * 256 + (off / 2 % 256).toNat]
  | .bic dst rhs => lo2 0x4380 rhs dst
  | .bkpt info => .ok [0xBE00 + info.toNat]
  | .bl off =>
    if off < -16777216 ∨ off ≥ 16777216 ∨ off % 2 ≠ 0 then unrep
    else
      -- sii = ((off >> 22) & 3) ^ ((off >> 31) & 7) ^ 3  =  S : J1 : J2,  Jx = NOT (Ix XOR S)
      let s : Nat := if off < 0 then 1 else 0
      let i1 := (off / 8388608 % 2).toNat
      let i2 := (off / 4194304 % 2).toNat
      let j1 : Nat := if i1 = s then 1 else 0
      let j2 : Nat := if i2 = s then 1 else 0
      .ok [0xF000 + s * 1024 + (off / 4096 % 1024).toNat,
           0xD000 + j1 * 8192 + j2 * 2048 + (off / 2 % 2048).toNat]
  | .blx off => if off.val = 15 then unrep else .ok [0x4780 + off.val * 8]
  | .bx off => if off.val = 15 then unrep else .ok [0x4700 + off.val * 8]
  | .cmn lhs rhs => lo2 0x42C0 rhs lhs
  | .cmp lhs (.imm rhs) =>
    if lhs.val ≥ 8 ∨ rhs < 0 ∨ rhs > 255 then unrep
    else .ok [0x2800 + lhs.val * 256 + rhs.toNat]
  | .cmp lhs (.reg rhs) =>
    if lhs.val ≥ 8 ∨ rhs.val ≥ 8 then
      if lhs.val = 15 ∨ rhs.val = 15 then unrep
      else .ok [0x4500 + lhs.val / 8 * 128 + rhs.val * 8 + lhs.val % 8]
    else .ok [0x4280 + rhs.val * 8 + lhs.val]
  | .cps enable => .ok [0xB662 + (if enable then 0 else 1) * 16]   -- `(!enable as u16) << 4`: im = 1 disables
  | .dmb => .ok [0xF3BF, 0x8F5F]
  | .dsb => .ok [0xF3BF, 0x8F4F]
  | .eor dst rhs => lo2 0x4040 rhs dst
  | .isb => .ok [0xF3BF, 0x8F6F]
  | .ldm addr registers =>
    if addr.val ≥ 8 ∨ registers.val > 255 then unrep
    else .ok [0xC800 + addr.val * 256 + registers.val]
  | .ldr dst addr (.imm off) =>
    if addr.val = 15 then
      if dst.val ≥ 8 ∨ off < 0 ∨ off > 1020 ∨ off % 4 ≠ 0 then unrep
      else .ok [0x4800 + dst.val * 256 + (off / 4).toNat]
    else if addr.val = 13 then
      if dst.val ≥ 8 ∨ off < 0 ∨ off > 1020 ∨ off % 4 ≠ 0 then unrep
      else .ok [0x9800 + dst.val * 256 + (off / 4).toNat]
    else
      if dst.val ≥ 8 ∨ addr.val ≥ 8 ∨ off < 0 ∨ off > 124 ∨ off % 4 ≠ 0 then unrep
      else .ok [0x6800 + (off / 4).toNat * 64 + addr.val * 8 + dst.val]
  | .ldr dst addr (.reg off) => lo3 0x5800 off addr dst
  | .ldrb dst addr (.imm off) =>
    if dst.val ≥ 8 ∨ addr.val ≥ 8 ∨ off < 0 ∨ off > 31 then unrep
    else .ok [0x7800 + off.toNat * 64 + addr.val * 8 + dst.val]
  | .ldrb dst addr (.reg off) => lo3 0x5C00 off addr dst
  | .ldrh dst addr (.imm off) =>
    if dst.val ≥ 8 ∨ addr.val ≥ 8 ∨ off < 0 ∨ off > 62 ∨ off % 2 ≠ 0 then unrep
    else .ok [0x8800 + (off / 2).toNat * 64 + addr.val * 8 + dst.val]
  | .ldrh dst addr (.reg off) => lo3 0x5A00 off addr dst
  | .ldrsb dst addr off => lo3 0x5600 off addr dst
  | .ldrsh dst addr off => lo3 0x5E00 off addr dst
  | .lsl dst value (.imm shift) =>
    if dst.val ≥ 8 ∨ value.val ≥ 8 ∨ shift ≤ 0 ∨ shift > 31 then unrep
    else .ok [0x0000 + shift.toNat * 64 + value.val * 8 + dst.val]
  | .lsl dst value (.reg shift) =>
    if dst.val ≥ 8 ∨ value.val ≠ dst.val ∨ shift.val ≥ 8 then unrep
    else .ok [0x4080 + shift.val * 8 + dst.val]
  | .lsr dst value (.imm shift) =>
    if dst.val ≥ 8 ∨ value.val ≥ 8 ∨ shift ≤ 0 ∨ shift > 32 then unrep
    else .ok [0x0800 + (shift % 32).toNat * 64 + value.val * 8 + dst.val]
  | .lsr dst value (.reg shift) =>
    if dst.val ≥ 8 ∨ value.val ≠ dst.val ∨ shift.val ≥ 8 then unrep
    else .ok [0x40C0 + shift.val * 8 + dst.val]
  | .mov flags dst (.imm src) =>
    if flags = false ∨ dst.val ≥ 8 ∨ src < 0 ∨ src > 255 then unrep
    else .ok [0x2000 + dst.val * 256 + src.toNat]
  | .mov flags dst (.reg src) =>
    if flags = false ∨ dst.val ≥ 8 ∨ src.val ≥ 8 then
      if flags = true then unrep
      else .ok [0x4600 + dst.val / 8 * 128 + src.val * 8 + dst.val % 8]
    else .ok [0x0000 + src.val * 8 + dst.val]
  | .mrs dst src =>
    if dst.val = 13 ∨ dst.val = 15 then unrep
    else .ok [0xF3EF, 0x8000 + dst.val * 256 + src.toNat]
  | .msr dst src =>
    if src.val = 13 ∨ src.val = 15 then unrep
    else .ok [0xF380 + src.val, 0x8800 + dst.toNat]
  | .mul dst rhs => lo2 0x4340 rhs dst
  | .mvn dst value => lo2 0x43C0 value dst
  | .nop => .ok [0xBF00]
  | .orr dst rhs => lo2 0x4300 rhs dst
  | .pop registers =>
    -- is_empty() || (bits & 0b01111111_00000000) != 0
    if registers.val = 0 ∨ registers.val / 256 % 128 ≠ 0 then unrep
    else .ok [0xBC00 + registers.val / 32768 * 256 + registers.val % 256]
  | .push registers =>
    -- is_empty() || (bits & 0b10111111_00000000) != 0
    if registers.val = 0 ∨ registers.val / 256 % 64 ≠ 0 ∨ registers.val / 32768 ≠ 0 then unrep
    else .ok [0xB400 + registers.val / 16384 % 2 * 256 + registers.val % 256]
  | .rev dst value => lo2 0xBA00 value dst
  | .rev16 dst value => lo2 0xBA40 value dst
  | .revsh dst value => lo2 0xBAC0 value dst
  | .ror dst rhs => lo2 0x41C0 rhs dst
  | .rsb dst lhs => lo2 0x4240 lhs dst
  | .sbc dst rhs => lo2 0x4180 rhs dst
  | .sev => .ok [0xBF40]
  | .stm addr registers =>
    if addr.val ≥ 8 ∨ registers.val > 255 then unrep
    else .ok [0xC000 + addr.val * 256 + registers.val]
  | .str src addr (.imm off) =>
    if addr.val = 13 then
      if src.val ≥ 8 ∨ off < 0 ∨ off > 1020 ∨ off % 4 ≠ 0 then unrep
      else .ok [0x9000 + src.val * 256 + (off / 4).toNat]
    else
      if src.val ≥ 8 ∨ addr.val ≥ 8 ∨ off < 0 ∨ off > 124 ∨ off % 4 ≠ 0 then unrep
      else .ok [0x6000 + (off / 4).toNat * 64 + addr.val * 8 + src.val]
  | .str src addr (.reg off) => lo3 0x5000 off addr src
  | .strb src addr (.imm off) =>
    if src.val ≥ 8 ∨ addr.val ≥ 8 ∨ off < 0 ∨ off > 31 then unrep
    else .ok [0x7000 + off.toNat * 64 + addr.val * 8 + src.val]
  | .strb src addr (.reg off) => lo3 0x5400 off addr src
  | .strh src addr (.imm off) =>
    if src.val ≥ 8 ∨ addr.val ≥ 8 ∨ off < 0 ∨ off > 62 ∨ off % 2 ≠ 0 then unrep
    else .ok [0x8000 + (off / 2).toNat * 64 + addr.val * 8 + src.val]
  | .strh src addr (.reg off) => lo3 0x5200 off addr src
  | .sub flags dst lhs (.imm rhs) =>
    if lhs.val = 13 then
      if flags = true ∨ dst.val ≠ 13 ∨ rhs < 0 ∨ rhs > 508 ∨ rhs % 4 ≠ 0 then unrep
      else .ok [0xB080 + (rhs / 4).toNat]
    else if dst.val ≠ lhs.val then
      if flags = false ∨ dst.val ≥ 8 ∨ lhs.val ≥ 8 ∨ rhs < 0 ∨ rhs > 7 then unrep
      else .ok [0x1E00 + rhs.toNat * 64 + lhs.val * 8 + dst.val]
    else
      if flags = false ∨ dst.val ≥ 8 ∨ rhs < 0 ∨ rhs > 255 then unrep
      else .ok [0x3800 + dst.val * 256 + rhs.toNat]
  | .sub flags dst lhs (.reg rhs) =>
    if flags = false ∨ dst.val ≥ 8 ∨ lhs.val ≥ 8 ∨ rhs.val ≥ 8 then unrep
    else .ok [0x1A00 + rhs.val * 64 + lhs.val * 8 + dst.val]
  | .svc info => .ok [0xDF00 + info.toNat]
  | .sxtb dst value => lo2 0xB240 value dst
  | .sxth dst value => lo2 0xB200 value dst
  | .tst lhs rhs => lo2 0x4200 rhs lhs
  | .udf info => .ok [0xDE00 + info.toNat]
  | .udfw info => .ok [0xF7F0 + info.toNat / 4096, 0xA000 + info.toNat % 4096]
  | .uxtb dst value => lo2 0xB2C0 value dst
  | .uxth dst value => lo2 0xB280 value dst
  | .wfe => .ok [0xBF20]
  | .wfi => .ok [0xBF30]
  | .yield => .ok [0xBF10]

/-- `u16::to_le_bytes` of each halfword, first halfword first -/
def toBytes : List Nat → List Nat
  | [] => []
  | h :: t => h % 256 :: h / 256 :: toBytes t

/-- the whole of `Instruction::encode(&self, out)` for an output buffer of `cap` bytes -/
def encodeInto (cap : Nat) (i : Instr) : Except EncErr (List Nat) :=
  match encode i with
  | .error e => .error e
  | .ok hws => if cap < 2 * hws.length then .error (.overflow (2 * hws.length) cap) else .ok (toBytes hws)

/-! ## decoder -/

/-- `Register::try_from(n as u8).unwrap()` followed by the continuation -/
def withReg (n : Nat) (k : Reg → DecRes) : DecRes :=
  if n < 16 then k (Fin.ofNat 16 n) else .error .panic

/-- `Condition::try_from(n as u8).unwrap()` -/
def withCond (n : Nat) (k : Cond → DecRes) : DecRes :=
  if n < 15 then k (Fin.ofNat 15 n) else .error .panic

/-- `RegisterSet::of(bits)` (total) -/
def mkSet (n : Nat) : RegSet := Fin.ofNat 65536 n

def imm (n : Nat) : ImmReg := .imm (n : Int)

/-! The Rust `match`es on bit-field values are written as `if … else if …` chains over the same values
in the same order (the final `else .error .panic` is the `_ => unreachable!()` arm), which lets the
proofs resolve every branch by linear arithmetic. -/

/-- `0b01000`, bit 10 clear : data processing, `match (instr0 >> 6) & 0b1111` -/
def decDataProc (op : Nat) (r0 r1 : Reg) : DecRes :=
  if op = 0 then .ok (2, .and r0 r1)
  else if op = 1 then .ok (2, .eor r0 r1)
  else if op = 2 then .ok (2, .lsl r0 r0 (.reg r1))
  else if op = 3 then .ok (2, .lsr r0 r0 (.reg r1))
  else if op = 4 then .ok (2, .asr r0 r0 (.reg r1))
  else if op = 5 then .ok (2, .adc r0 r1)
  else if op = 6 then .ok (2, .sbc r0 r1)
  else if op = 7 then .ok (2, .ror r0 r1)
  else if op = 8 then .ok (2, .tst r0 r1)
  else if op = 9 then .ok (2, .rsb r0 r1)
  else if op = 10 then .ok (2, .cmp r0 (.reg r1))
  else if op = 11 then .ok (2, .cmn r0 r1)
  else if op = 12 then .ok (2, .orr r0 r1)
  else if op = 13 then .ok (2, .mul r0 r1)
  else if op = 14 then .ok (2, .bic r0 r1)
  else if op = 15 then .ok (2, .mvn r0 r1)
  else .error .panic

/-- `0b01000` : data processing and special data / branch-exchange -/
def dec01000 (h0 : Nat) : DecRes :=
  if h0 / 1024 % 2 = 0 then
    withReg (h0 % 8) fun r0 => withReg (h0 / 8 % 8) fun r1 => decDataProc (h0 / 64 % 16) r0 r1
  else if h0 / 256 % 4 = 0 then
    withReg (h0 % 8 + h0 / 128 % 2 * 8) fun dst => withReg (h0 / 8 % 16) fun rhs =>
    if dst.val = 15 ∧ rhs.val = 15 then .error (.unpredictable h0 none)
    else .ok (2, .add false dst dst (.reg rhs))
  else if h0 / 256 % 4 = 1 then
    withReg (h0 % 8 + h0 / 128 % 2 * 8) fun lhs => withReg (h0 / 8 % 16) fun rhs =>
    if lhs.val < 8 ∧ rhs.val < 8 then .error (.unpredictable h0 none)
    else if lhs.val = 15 ∨ rhs.val = 15 then .error (.unpredictable h0 none)
    else .ok (2, .cmp lhs (.reg rhs))
  else if h0 / 256 % 4 = 2 then
    withReg (h0 % 8 + h0 / 128 % 2 * 8) fun dst => withReg (h0 / 8 % 16) fun src =>
    .ok (2, .mov false dst (.reg src))
  else if h0 / 256 % 4 = 3 then
    if h0 % 8 ≠ 0 then .error (.unpredictable h0 none)
    else withReg (h0 / 8 % 16) fun off =>
      if off.val = 15 then .error (.unpredictable h0 none)
      else if h0 / 128 % 2 = 0 then .ok (2, .bx off) else .ok (2, .blx off)
  else .error .panic

/-- `0b01010..=0b01011` : load/store register offset, `match (instr0 >> 9) & 0b111` -/
def dec0101 (h0 : Nat) : DecRes :=
  withReg (h0 % 8) fun reg => withReg (h0 / 8 % 8) fun addr => withReg (h0 / 64 % 8) fun off =>
  if h0 / 512 % 8 = 0 then .ok (2, .str reg addr (.reg off))
  else if h0 / 512 % 8 = 1 then .ok (2, .strh reg addr (.reg off))
  else if h0 / 512 % 8 = 2 then .ok (2, .strb reg addr (.reg off))
  else if h0 / 512 % 8 = 3 then .ok (2, .ldrsb reg addr off)
  else if h0 / 512 % 8 = 4 then .ok (2, .ldr reg addr (.reg off))
  else if h0 / 512 % 8 = 5 then .ok (2, .ldrh reg addr (.reg off))
  else if h0 / 512 % 8 = 6 then .ok (2, .ldrb reg addr (.reg off))
  else if h0 / 512 % 8 = 7 then .ok (2, .ldrsh reg addr off)
  else .error .panic

/-- `0b10110` : miscellaneous, first half, `match (instr0 >> 8) & 0b111` -/
def dec10110 (h0 : Nat) : DecRes :=
  if h0 / 256 % 8 = 0 then
    if h0 / 128 % 2 = 0 then .ok (2, .add false Reg.sp Reg.sp (imm (h0 % 128 * 4)))
    else .ok (2, .sub false Reg.sp Reg.sp (imm (h0 % 128 * 4)))
  else if h0 / 256 % 8 = 1 then .error (.undefined h0 none)
  else if h0 / 256 % 8 = 2 then
    withReg (h0 % 8) fun dst => withReg (h0 / 8 % 8) fun value =>
    if h0 / 128 % 2 = 0 then
      if h0 / 64 % 2 = 0 then .ok (2, .sxth dst value) else .ok (2, .sxtb dst value)
    else
      if h0 / 64 % 2 = 0 then .ok (2, .uxth dst value) else .ok (2, .uxtb dst value)
  else if h0 / 256 % 8 = 3 then .error (.undefined h0 none)
  else if h0 / 256 % 8 = 4 ∨ h0 / 256 % 8 = 5 then
    -- RegisterSet::of(low 8 bits), plus LR (bit 14) when bit 8 is set
    if h0 % 256 + h0 / 256 % 2 * 16384 = 0 then .error (.unpredictable h0 none)
    else .ok (2, .push (mkSet (h0 % 256 + h0 / 256 % 2 * 16384)))
  else if h0 / 256 % 8 = 6 then
    if h0 / 32 % 8 = 3 then
      if h0 % 16 ≠ 2 then .error (.unpredictable h0 none)
      else .ok (2, .cps (h0 / 16 % 2 = 0))
    else .error (.undefined h0 none)
  else if h0 / 256 % 8 = 7 then .error (.undefined h0 none)
  else .error .panic

/-- `0b10111`, `0b111` : hints, `match (instr0 >> 4) & 0b1111` -/
def decHint (h0 op : Nat) : DecRes :=
  if op = 0 then .ok (2, .nop)
  else if op = 1 then .ok (2, .yield)
  else if op = 2 then .ok (2, .wfe)
  else if op = 3 then .ok (2, .wfi)
  else if op = 4 then .ok (2, .sev)
  else if 5 ≤ op ∧ op ≤ 15 then .error (.reserved h0 none)
  else .error .panic

/-- `0b10111` : miscellaneous, second half -/
def dec10111 (h0 : Nat) : DecRes :=
  if h0 / 256 % 8 = 0 ∨ h0 / 256 % 8 = 1 then .error (.undefined h0 none)
  else if h0 / 256 % 8 = 2 then
    withReg (h0 % 8) fun dst => withReg (h0 / 8 % 8) fun value =>
    if h0 / 64 % 4 = 0 then .ok (2, .rev dst value)
    else if h0 / 64 % 4 = 1 then .ok (2, .rev16 dst value)
    else if h0 / 64 % 4 = 2 then .error (.undefined h0 none)
    else if h0 / 64 % 4 = 3 then .ok (2, .revsh dst value)
    else .error .panic
  else if h0 / 256 % 8 = 3 then .error (.undefined h0 none)
  else if h0 / 256 % 8 = 4 ∨ h0 / 256 % 8 = 5 then
    if h0 % 256 + h0 / 256 % 2 * 32768 = 0 then .error (.unpredictable h0 none)
    else .ok (2, .pop (mkSet (h0 % 256 + h0 / 256 % 2 * 32768)))
  else if h0 / 256 % 8 = 6 then .ok (2, .bkpt ((h0 % 256 : Nat) : Int))
  else if h0 / 256 % 8 = 7 then
    if h0 % 16 = 0 then decHint h0 (h0 / 16 % 16) else .error (.undefined h0 none)
  else .error .panic

/-- `(off << (32 - bits)) >> (32 - bits - 1)` on an `i32` holding a `bits`-wide field: sign-extend, times two -/
def sext2 (bits : Nat) (v : Nat) : Int :=
  if v ≥ 2 ^ (bits - 1) then (v : Int) * 2 - (2 ^ (bits + 1) : Nat) else (v : Int) * 2

/-- `0b11010..=0b11011` : conditional branch, UDF, SVC, `match (instr0 >> 8) & 0b1111` -/
def dec1101 (h0 : Nat) : DecRes :=
  if h0 / 256 % 16 ≤ 13 then withCond (h0 / 256 % 16) fun cond => .ok (2, .b cond (sext2 8 (h0 % 256)))
  else if h0 / 256 % 16 = 14 then .ok (2, .udf ((h0 % 256 : Nat) : Int))
  else if h0 / 256 % 16 = 15 then .ok (2, .svc ((h0 % 256 : Nat) : Int))
  else .error .panic

/-- `0b00000` : MOVS (register) / LSLS (immediate) -/
def dec00000 (h0 : Nat) : DecRes :=
  if h0 / 64 % 32 = 0 then
    withReg (h0 % 8) fun dst => withReg (h0 / 8 % 8) fun src => .ok (2, .mov true dst (.reg src))
  else
    withReg (h0 % 8) fun dst => withReg (h0 / 8 % 8) fun value =>
    .ok (2, .lsl dst value (imm (h0 / 64 % 32)))

/-- `0b00001`, `0b00010` : LSRS / ASRS (immediate); a shift field of 0 means 32 -/
def decShift (h0 : Nat) (mk : Reg → Reg → ImmReg → Instr) : DecRes :=
  withReg (h0 % 8) fun dst => withReg (h0 / 8 % 8) fun value =>
  .ok (2, mk dst value (imm (if h0 / 64 % 32 = 0 then 32 else h0 / 64 % 32)))

/-- `0b00011` : ADDS / SUBS three-operand forms -/
def dec00011 (h0 : Nat) : DecRes :=
  withReg (h0 % 8) fun dst => withReg (h0 / 8 % 8) fun lhs =>
  if h0 / 1024 % 2 = 0 then
    withReg (h0 / 64 % 8) fun rhs =>
    if h0 / 512 % 2 = 0 then .ok (2, .add true dst lhs (.reg rhs)) else .ok (2, .sub true dst lhs (.reg rhs))
  else
    if h0 / 512 % 2 = 0 then .ok (2, .add true dst lhs (imm (h0 / 64 % 8)))
    else .ok (2, .sub true dst lhs (imm (h0 / 64 % 8)))

/-- load/store with a 5-bit immediate scaled by `scale` (`0b01100 ..= 0b10001`) -/
def decLdStImm (h0 scale : Nat) (st ld : Reg → Reg → ImmReg → Instr) : DecRes :=
  withReg (h0 % 8) fun reg => withReg (h0 / 8 % 8) fun addr =>
  if h0 / 2048 % 2 = 0 then .ok (2, st reg addr (imm (h0 / 64 % 32 * scale)))
  else .ok (2, ld reg addr (imm (h0 / 64 % 32 * scale)))

/-- all 16-bit encodings: the arms `0b00000 ..= 0b11100` of `match instr0 >> 11` -/
def decode16 (h0 : Nat) : DecRes :=
  if h0 / 2048 = 0 then dec00000 h0
  else if h0 / 2048 = 1 then decShift h0 .lsr
  else if h0 / 2048 = 2 then decShift h0 .asr
  else if h0 / 2048 = 3 then dec00011 h0
  else if h0 / 2048 = 4 then withReg (h0 / 256 % 8) fun dst => .ok (2, .mov true dst (imm (h0 % 256)))
  else if h0 / 2048 = 5 then withReg (h0 / 256 % 8) fun lhs => .ok (2, .cmp lhs (imm (h0 % 256)))
  else if h0 / 2048 = 6 then withReg (h0 / 256 % 8) fun dst => .ok (2, .add true dst dst (imm (h0 % 256)))
  else if h0 / 2048 = 7 then withReg (h0 / 256 % 8) fun dst => .ok (2, .sub true dst dst (imm (h0 % 256)))
  else if h0 / 2048 = 8 then dec01000 h0
  else if h0 / 2048 = 9 then withReg (h0 / 256 % 8) fun dst => .ok (2, .ldr dst Reg.pc (imm (h0 % 256 * 4)))
  else if h0 / 2048 = 10 ∨ h0 / 2048 = 11 then dec0101 h0
  else if h0 / 2048 = 12 ∨ h0 / 2048 = 13 then decLdStImm h0 4 .str .ldr
  else if h0 / 2048 = 14 ∨ h0 / 2048 = 15 then decLdStImm h0 1 .strb .ldrb
  else if h0 / 2048 = 16 ∨ h0 / 2048 = 17 then decLdStImm h0 2 .strh .ldrh
  else if h0 / 2048 = 18 ∨ h0 / 2048 = 19 then
    withReg (h0 / 256 % 8) fun reg =>
    if h0 / 2048 % 2 = 0 then .ok (2, .str reg Reg.sp (imm (h0 % 256 * 4)))
    else .ok (2, .ldr reg Reg.sp (imm (h0 % 256 * 4)))
  else if h0 / 2048 = 20 then withReg (h0 / 256 % 8) fun dst => .ok (2, .adr dst ((h0 % 256 * 4 : Nat) : Int))
  else if h0 / 2048 = 21 then withReg (h0 / 256 % 8) fun dst => .ok (2, .add false dst Reg.sp (imm (h0 % 256 * 4)))
  else if h0 / 2048 = 22 then dec10110 h0
  else if h0 / 2048 = 23 then dec10111 h0
  else if h0 / 2048 = 24 ∨ h0 / 2048 = 25 then
    withReg (h0 / 256 % 8) fun addr =>
    if h0 / 2048 % 2 = 0 then .ok (2, .stm addr (mkSet (h0 % 256))) else .ok (2, .ldm addr (mkSet (h0 % 256)))
  else if h0 / 2048 = 26 ∨ h0 / 2048 = 27 then dec1101 h0
  else if h0 / 2048 = 28 then .ok (2, .b Cond.always (sext2 11 (h0 % 2048)))
  else .error .panic

/-- the three barrier arms share their checks -/
def decBarrier (h0 h1 : Nat) (i : Instr) : DecRes :=
  -- (instr0 & 0b1111) != 0b1111 || ((instr1 >> 8) & 0b101111) != 0b001111
  if h0 % 16 ≠ 15 ∨ ¬ (h1 / 256 % 16 = 15 ∧ h1 / 8192 % 2 = 0) then .error (.unpredictable h0 (some h1))
  else if h1 % 16 ≠ 15 then .error (.reserved h0 (some h1))
  else .ok (4, i)

/-- the arm `0b11101..=0b11111` after both halfwords are read -/
def decode32 (h0 h1 : Nat) : DecRes :=
  if h0 / 2048 % 4 = 2 ∧ h1 / 32768 % 2 = 1 then
    -- `((instr1 >> 12) & 0b101) == 0`
    if h0 / 32 % 64 = 28 ∧ (h1 / 4096 % 2 = 0 ∧ h1 / 16384 % 2 = 0) then
      -- MSR: `((instr0 >> 4) & 1) != 0 || ((instr1 >> 8) & 0b101111) != 0b001000`
      if h0 / 16 % 2 ≠ 0 ∨ ¬ (h1 / 256 % 16 = 8 ∧ h1 / 8192 % 2 = 0) then .error (.unpredictable h0 (some h1))
      else withReg (h0 % 16) fun reg =>
        if reg.val = 13 ∨ reg.val = 15 then .error (.unpredictable h0 (some h1))
        else match SysReg.ofNat? (h1 % 256) with
          | some sys => .ok (4, .msr sys reg)
          | none => .error (.unpredictable h0 (some h1))
    else if h0 / 16 % 128 = 59 ∧ (h1 / 4096 % 2 = 0 ∧ h1 / 16384 % 2 = 0) then
      -- `match (instr1 >> 4) & 0b1111`
      if h1 / 16 % 16 ≤ 3 then .error (.undefined h0 (some h1))
      else if h1 / 16 % 16 = 4 then decBarrier h0 h1 .dsb
      else if h1 / 16 % 16 = 5 then decBarrier h0 h1 .dmb
      else if h1 / 16 % 16 = 6 then decBarrier h0 h1 .isb
      else if 7 ≤ h1 / 16 % 16 ∧ h1 / 16 % 16 ≤ 15 then .error (.undefined h0 (some h1))
      else .error .panic
    else if h0 / 32 % 64 = 31 ∧ (h1 / 4096 % 2 = 0 ∧ h1 / 16384 % 2 = 0) then
      -- MRS
      if h0 % 32 ≠ 15 ∨ h1 / 8192 % 2 ≠ 0 then .error (.unpredictable h0 (some h1))
      else withReg (h1 / 256 % 16) fun reg =>
        if reg.val = 13 ∨ reg.val = 15 then .error (.unpredictable h0 (some h1))
        else match SysReg.ofNat? (h1 % 256) with
          | some sys => .ok (4, .mrs reg sys)
          | none => .error (.unpredictable h0 (some h1))
    else if h0 / 16 % 128 = 127 ∧ h1 / 4096 % 8 = 2 then
      .ok (4, .udfw ((h0 % 16 * 4096 + h1 % 4096 : Nat) : Int))
    else if h1 / 4096 % 2 = 1 ∧ h1 / 16384 % 2 = 1 then
      -- BL: I1 = NOT (J1 XOR S), I2 = NOT (J2 XOR S), sign-extended from bit 24
      let s := h0 / 1024 % 2
      let i1 : Nat := if h1 / 8192 % 2 = s then 1 else 0
      let i2 : Nat := if h1 / 2048 % 2 = s then 1 else 0
      .ok (4, .bl ((i1 * 8388608 + i2 * 4194304 + h0 % 1024 * 4096 + h1 % 2048 * 2 : Nat) - (s * 16777216 : Nat)))
    else .error (.undefined h0 (some h1))
  else .error (.undefined h0 (some h1))

/-- `Instruction::decode(src)`; `src` is a list of bytes -/
def decode : List Nat → DecRes
  | [] => .error (.underflow 2 0)
  | [_] => .error (.underflow 2 1)
  | b0 :: b1 :: rest =>
    let h0 := b0 + 256 * b1
    if h0 / 2048 < 29 then decode16 h0
    else if h0 / 2048 < 32 then
      match rest with
      | b2 :: b3 :: _ => decode32 h0 (b2 + 256 * b3)
      | _ => .error (.underflow 4 (rest.length + 2))
    else .error .panic

end Trion.Codec
