import TrionModel.Model.Parse
/-!
# `next()`-level model of `Parser` (`impl Iterator for Parser`) with the tokenizer's look-ahead

`Model/Parse.lean` describes a parser run as a batch function on the token list. This file models the
iterator **as the code has it**: `Parser` is a newtype over `Tokenizer`, whose state — as far as the
parser can observe it — is

* `queue`    : `tokens: VecDeque<Token>` — tokens already lexed by `peek()` but not yet taken;
* `tokenErr` : `token_err: Option<TokenError>` — an error met by `peek()` and not yet taken;
* `src`, `srcErr` : what `next_token()` will still produce from `data`/`utf_err`: these ok tokens, then
  (once) this error, then `None` for ever (that this is how `next_token` behaves is `Lex.lex_shape`);
* `endLine`, `endCol` : the tokenizer position once `next_token()` has nothing left — the only moment at
  which the parser reads `get_line()/get_column()` (`eof(..)`, the `expr_start` fallback).

`Tokenizer::{next, peek, clear}` are transcribed on that state, and `parse_unary / parse_binary /
parse_args / do_next / Iterator::next` are transcribed call by call on top of them (`…S`), including
the `self.0.next().unwrap().unwrap_err()` sites (explicit `.panic` when the popped item is not the
peeked error) and, after an error, `self.0.clear()` followed by the drain loop
`while self.0.next().is_some() {}` of fix F23. There is no finished/poisoned flag in the code: the
iterator is finished because the tokenizer is empty.

`Lemmas/ParseIter*.lean` prove that these functions compute what the batch model computes on
`queue ++ src`, whatever part of the stream is sitting in the look-ahead.
-/
namespace Trion.Parse

/-- the parser-visible state of the `Tokenizer` inside a `Parser` -/
structure TState where
  queue : List Token
  tokenErr : Option LexErr
  src : List Token
  srcErr : Option LexErr
  endLine : Nat
  endCol : Nat
deriving Repr, DecidableEq

/-- `Parser::new(bytes)`, given what the tokenizer yields on `bytes` -/
def TState.init (lo : LexOut) : TState := ⟨[], none, lo.toks, lo.err, lo.endLine, lo.endCol⟩

/-- `Tokenizer::next_token()` -/
def TState.nextToken (s : TState) : Option (Except LexErr Token) × TState :=
  match s.src with
  | t :: r => (some (.ok t), { s with src := r })
  | [] =>
    match s.srcErr with
    | some e => (some (.error e), { s with srcErr := none })
    | none => (none, s)

/-- `Iterator::next` of the tokenizer: `tokens.pop_front()`, else `token_err.take()`, else `next_token()` -/
def TState.pop (s : TState) : Option (Except LexErr Token) × TState :=
  match s.queue with
  | t :: q => (some (.ok t), { s with queue := q })
  | [] =>
    match s.tokenErr with
    | some e => (some (.error e), { s with tokenErr := none })
    | none => s.nextToken

/-- `Tokenizer::peek()` -/
def TState.peek (s : TState) : Option (Except LexErr Token) × TState :=
  match s.queue with
  | t :: _ => (some (.ok t), s)
  | [] =>
    match s.tokenErr with
    | some e => (some (.error e), s)
    | none =>
      match s.nextToken with
      | (none, s1) => (none, s1)
      | (some (.ok t), s1) => (some (.ok t), { s1 with queue := s1.queue ++ [t] })
      | (some (.error e), s1) => (some (.error e), { s1 with tokenErr := some e })

/-- `Tokenizer::clear()`: `data = ""; utf_err = false` — the look-ahead queue and `token_err` stay -/
def TState.clear (s : TState) : TState := { s with src := [], srcErr := none }

/-- the tokenizer has nothing left at all -/
def TState.finished (s : TState) : Prop := s.queue = [] ∧ s.tokenErr = none ∧ s.src = [] ∧ s.srcErr = none

/-- number of items the tokenizer can still yield -/
def TState.size (s : TState) : Nat :=
  s.queue.length + (if s.tokenErr.isSome then 1 else 0) + s.src.length + (if s.srcErr.isSome then 1 else 0)

/-- `while self.0.next().is_some() {}` (fuel; `none` = out of fuel, proved impossible with `size + 1`) -/
def drainF : Nat → TState → Option TState
  | 0, _ => none
  | n+1, s =>
    match s.pop with
    | (none, s1) => some s1
    | (some _, s1) => drainF n s1

/-- outcome of a parsing function on the tokenizer state -/
inductive SRes (α : Type) where
  | ok (a : α) (s : TState)
  | err (e : ParseErr) (s : TState)
  | panic
  | fuel
deriving Repr

@[inline] def SRes.bind {α β : Type} : SRes α → (α → TState → SRes β) → SRes β
  | .ok a s, f => f a s
  | .err e s, _ => .err e s
  | .panic, _ => .panic
  | .fuel, _ => .fuel

/-- `Parser::eof(expect)` -/
def eofErrS (s : TState) (expect : String) : ParseErr := ⟨s.endLine, s.endCol, .expected expect "<eof>"⟩

/-- `next_inner(expect)` -/
def nextInnerS (expect : String) (s : TState) : SRes Token :=
  match s.pop with
  | (some (.ok t), s1) => .ok t s1
  | (some (.error e), s1) => .err (tokErr e) s1
  | (none, s1) => .err (eofErrS s1 expect) s1

/-- `let end = self.next_inner(expect)?; if !matches!(end.value, want) {return Err(..)}` -/
def closeS (expect : String) (want : Tok) (s : TState) : SRes Unit :=
  (nextInnerS expect s).bind fun e s1 => if e.val = want then .ok () s1 else .err (expectErr expect e) s1

/-- `let expr_start = match self.0.peek() {Some(Ok(t)) => t.convert(()), _ => tokenizer position}` -/
def exprStartS (s : TState) : (Nat × Nat) × TState :=
  match s.peek with
  | (some (.ok t), s1) => ((t.line, t.col), s1)
  | (_, s1) => ((s1.endLine, s1.endCol), s1)

/-- `self.0.next().unwrap().unwrap_err()` after `peek()` returned `Some(Err(..))`: the popped item must
be an error, anything else is a panic of `unwrap` / `unwrap_err` -/
def takeErrS {α : Type} (s : TState) (k : LexErr → ParseErr) : SRes α :=
  match s.pop with
  | (some (.error e), s1) => .err (k e) s1
  | _ => .panic

mutual

/-- `parse_unary` -/
def unaryS : Nat → TState → SRes Arg
  | 0, _ => .fuel
  | n+1, s =>
    (nextInnerS "<unary>" s).bind fun token s1 =>
      match token.val with
      | .minus => (unaryS n s1).bind fun a s2 => .ok (.neg a) s2
      | .not => (unaryS n s1).bind fun a s2 => .ok (.not a) s2
      | .num v => .ok (.const v) s1
      | .ident name =>
        match s1.peek with
        | (some (.ok ⟨_, _, .lparen⟩), s2) =>
          -- `drop(self.0.next())`
          (argsS n s2.pop.2).bind fun as s4 => (closeS "')'" .rparen s4).bind fun _ s5 => .ok (.func name as) s5
        | (_, s2) => .ok (.ident name) s2
      | .str v => .ok (.str v) s1
      | .lparen =>
        (binaryS n .bitOr (exprStartS s1).1 (exprStartS s1).2).bind fun inner s3 =>
          (closeS "')'" .rparen s3).bind fun _ s4 => .ok inner s4
      | .lbrack =>
        (binaryS n .bitOr (exprStartS s1).1 (exprStartS s1).2).bind fun inner s3 =>
          (closeS "']'" .rbrack s3).bind fun _ s4 => .ok (.addr inner) s4
      | .lbrace =>
        (argsS n s1).bind fun as s3 => (closeS "'}'" .rbrace s3).bind fun _ s4 => .ok (.seq as) s4
      | _ => .err (expectErr "<unary>" token) s1

/-- `parse_binary(group, expr_start)` -/
def binaryS : Nat → BinOpGroup → Nat × Nat → TState → SRes Arg
  | 0, _, _, _ => .fuel
  | n+1, g, st, s =>
    (match g.higher with
      | none => unaryS n s
      | some h => binaryS n h st s).bind fun lhs s1 => binLoopS n g st lhs s1

/-- the `loop` of `parse_binary` -/
def binLoopS : Nat → BinOpGroup → Nat × Nat → Arg → TState → SRes Arg
  | 0, _, _, _, _ => .fuel
  | n+1, g, st, lhs, s =>
    match s.peek with
    | (none, s1) => .ok lhs s1
    | (some (.ok t), s1) =>
      if t.val.isStop then .ok lhs s1
      else match t.val.binOp with
        | none => .err (expectErr "<operator>" t) s1
        | some op =>
          if op.group.toNat < g.toNat then .ok lhs s1
          else if g.toNat < op.group.toNat then .panic
          else
            -- `self.0.next();`
            (match g.higher with
              | none => unaryS n s1.pop.2
              | some h => binaryS n h st s1.pop.2).bind fun rhs s3 => binLoopS n g st (.bin op lhs rhs) s3
    | (some (.error _), s1) => takeErrS s1 fun e => ⟨st.1, st.2, .token e⟩

/-- `parse_args`: the look-ahead that decides whether the list is empty -/
def argsS : Nat → TState → SRes Args
  | 0, _ => .fuel
  | n+1, s =>
    match s.peek with
    | (none, s1) => .ok .nil s1
    | (some (.ok t), s1) => if t.val.isArgsEnd then .ok .nil s1 else argsLoopS n s1
    | (some (.error _), s1) => takeErrS s1 tokErr

/-- the `loop` of `parse_args` -/
def argsLoopS : Nat → TState → SRes Args
  | 0, _ => .fuel
  | n+1, s =>
    (binaryS n .bitOr (exprStartS s).1 (exprStartS s).2).bind fun a s2 =>
      match s2.peek with
      | (none, s3) => .err (eofErrS s3 "<separator>") s3
      | (some (.ok t), s3) =>
        if t.val = .sep then (argsLoopS n s3.pop.2).bind fun as s5 => .ok (.cons a as) s5
        else if t.val.isArgsEnd then .ok (.cons a .nil) s3
        else .err (expectErr "<separator>" t) s3
      | (some (.error _), s3) => takeErrS s3 tokErr

end

/-- the tokens the tokenizer can still yield (look-ahead first) -/
def TState.stream (s : TState) : List Token := s.queue ++ s.src

/-- `parse_args()?; next_inner("';'")?; Ok(Element{..})` -/
def stmtTailS (s : TState) (mk : Args → Element) : SRes Element :=
  (argsS (fuelFor s.stream) s).bind fun as s2 => (nextInnerS "';'" s2).bind fun _ s3 => .ok (mk as) s3

/-- `do_next(first)` -/
def doNextS (first : Except LexErr Token) (s : TState) : SRes Element :=
  match first with
  | .error e => .err (tokErr e) s
  | .ok t =>
    match t.val with
    | .dirMark =>
      match s.pop with
      | (some (.ok t1), s1) =>
        match t1.val with
        | .ident name => stmtTailS s1 fun as => ⟨t.line, t.col, .directive name as⟩
        | _ => .err (expectErr "identifier" t1) s1
      | (some (.error e), s1) => .err (tokErr e) s1
      | (none, s1) => .err (eofErrS s1 "';'") s1
    | .ident name =>
      match s.peek with
      | (some (.ok t1), s1) =>
        if t1.val = .labelMark then .ok ⟨t.line, t.col, .label name⟩ s1.pop.2
        else stmtTailS s1 fun as => ⟨t.line, t.col, .instruction name as⟩
      | (some (.error _), s1) => takeErrS s1 fun e => ⟨t.line, t.col, .token e⟩
      | (none, s1) => .err (eofErrS s1 "<argument-list>") s1
    | _ => .err (expectErr "<instruction>" t) s

/-- what one call of `Parser::next` does -/
inductive Step where
  | item (x : Except ParseErr Element) (s : TState)   -- `Some(Ok(e))` / `Some(Err(e))`
  | done (s : TState)                                  -- `None`
  | panic
  | fuel
deriving Repr

/-- `impl Iterator for Parser { fn next }` -/
def next (s : TState) : Step :=
  match s.pop with
  | (none, s1) => .done s1
  | (some first, s1) =>
    match doNextS first s1 with
    | .ok el s2 => .item (.ok el) s2
    | .err e s2 =>
      -- `self.0.clear(); while self.0.next().is_some() {}`
      match drainF (s2.clear.size + 1) s2.clear with
      | some s3 => .item (.error e) s3
      | none => .fuel
    | .panic => .panic
    | .fuel => .fuel

/-- the results of `k` successive calls of `Parser::next` (`none` = `None`) and the state afterwards;
`none` overall if one of the calls panics (or the model runs out of fuel) -/
def calls : Nat → TState → Option (List (Option (Except ParseErr Element)) × TState)
  | 0, s => some ([], s)
  | k+1, s =>
    match next s with
    | .item x s1 => (calls k s1).map fun p => (some x :: p.1, p.2)
    | .done s1 => (calls k s1).map fun p => (none :: p.1, p.2)
    | .panic => none
    | .fuel => none

end Trion.Parse
