import TrionModel.Model.Syntax
/-!
# Model of constant scoping (Layer B, import-free apart from the shared syntax types)

Mirrors, branch by branch,

* `Context::{assemble, get_constant, insert_constant, defer_constant, add_task, finalize}` and
  `PathFrame::into_inner` of `src/asm/mod.rs` — the `mem::replace` swaps of `locals`/`globals` and of
  `local_tasks`/`global_tasks` on entering and leaving a file, the end-of-file task loop;
* `.global` / `.import` / `.export` of `src/asm/directive/global.rs` (including the closure that `.global`
  schedules), `.const` of `constant.rs` (with a literal value), a label of `do_assemble`;
* `.du32 <name>` of `data.rs` (`DataExpr::apply` / `schedule`: immediate evaluation, local retry at the end of
  the file, one more retry in the includer / `finalize`) with the realm choice of `simplify/eval.rs`
  (`Local` while a file is current);
* `.include` of `include.rs` (any error of the child is `AssemblyFailed`, fatal in the includer).

The Rust state is modelled literally: `globals`, `locals : Option`, `global_tasks`, `local_tasks : Option`
and the stack of `PathFrame`s (`frames`).  That the literal swaps implement a *stack of tables* is a theorem
(`Props/C14.lean`, `swap_balanced`), not a modelling decision.

Conventions
* a project is flattened into an op sequence `enter … exit … finalize`; after a statement of a file failed,
  `do_assemble` has returned and the remaining ops of that file (including nested `enter … exit` pairs) are
  skipped: `Mode.stopped lvl nest`;
* every statement carries a `tag` (the harness maps tags to file + line); closures are data (`Task`);
* `HashMap` = association list; the log (`errors` of the context and the values written by `.du32`) is part
  of the state, newest first;
* the output segment is not modelled (C13): a `.du32` statement always has an active region with room.
-/
namespace Trion.Scope

/-- logic-level panic sites -/
inductive Panic where
  | noLocalScope      -- `panic!("no local scope")`
  | unwrapNone        -- `Option::unwrap` / `Result::unwrap`
  | assertFailed      -- `assert!` / `assert_eq!`
  | unreachable       -- `unreachable!`
  | fuel              -- the model's loop bound was too small (never: theorem)
deriving DecidableEq, Repr, Inhabited

/-- `ErrorLevel` -/
inductive Level where
  | trivial | fatal
deriving DecidableEq, Repr, Inhabited

def Level.shouldAbort : Level → Bool
  | .fatal => true
  | .trivial => false

/-- `Ord::max` on `ErrorLevel` -/
def Level.max : Level → Level → Level
  | .fatal, _ => .fatal
  | _, .fatal => .fatal
  | _, _ => .trivial

/-- `Realm` -/
inductive Realm where
  | global | loc
deriving DecidableEq, Repr, Inhabited

/-- diagnostics by message class -/
inductive Kind where
  | reserved      -- "reserved name"
  | dupGlobal     -- "duplicate global constant"
  | dupLocal      -- "duplicate local constant"
  | dupConst      -- "duplicate constant"            (`ConstError::Duplicate`)
  | nfGlobal      -- "no such global constant"
  | nfLocal       -- "no such local constant"
  | defGlobal     -- "declared global constant … is deferred"
  | defLocal      -- "declared local constant … is deferred"
  | range         -- "constant out of range"
  | argType       -- "invalid argument #1"
  | asmFailed     -- "assembly of … failed"
deriving DecidableEq, Repr, Inhabited

/-- what the run leaves behind: diagnostics (`Context::errors`), values written by `.du32`
(`stage` 0 = immediately, 1 = local task, 2 = global task), and the result of `finalize` -/
inductive Ev where
  | value (tag : Nat) (v : Int) (stage : Nat)
  | diag (tag : Nat) (k : Kind)
  | done (ok : Bool)
deriving DecidableEq, Repr, Inhabited

def Ev.isDiag : Ev → Bool
  | .diag _ _ => true
  | _ => false

/-- `HashMap<String, Option<i64>>` -/
abbrev Table := List (Bytes × Option Int)

/-- `HashMap::get` -/
def Table.find : Table → Bytes → Option (Option Int)
  | [], _ => none
  | (k, v) :: t, n => if k = n then some v else Table.find t n

/-- `HashMap::insert` (also the in-place `*dst = …`) -/
def Table.set : Table → Bytes → Option Int → Table
  | [], n, v => [(n, v)]
  | (k, w) :: t, n, v => if k = n then (k, v) :: t else (k, w) :: Table.set t n v

/-- `Lookup` -/
inductive Lookup where
  | notFound | deferred | found (v : Int)
deriving DecidableEq, Repr, Inhabited

def Table.get (t : Table) (n : Bytes) : Lookup :=
  match t.find n with
  | none => .notFound
  | some none => .deferred
  | some (some v) => .found v

/-- ASCII upper-casing of one byte (`make_ascii_uppercase`) -/
def upper (b : UInt8) : UInt8 := if 97 ≤ b.toNat ∧ b.toNat ≤ 122 then (b.toNat - 32).toUInt8 else b

def regNames : List Bytes :=
  ["R0", "R1", "R2", "R3", "R4", "R5", "R6", "R7", "R8", "R9", "R10", "R11", "R12", "R13", "SP", "R14", "LR",
   "R15", "PC", "APSR", "IAPSR", "EAPSR", "XPSR", "IPSR", "EPSR", "IEPSR", "MSP", "PSP", "PRIMASK",
   "CONTROL"].map bytesOf

/-- `Arm6M::is_register` -/
def isReg (n : Bytes) : Bool := decide (n.length ≤ 8) && regNames.contains (n.map upper)

/-- the closures handed to `add_task` -/
inductive Task where
  /-- the closure scheduled by `.global` -/
  | globalCopy (n : Bytes) (tag : Nat)
  /-- `DataExpr::schedule(global)`; `cached` = the argument was already replaced by its value -/
  | use (n : Bytes) (cached : Option Int) (tag : Nat) (global : Bool)
deriving DecidableEq, Repr, Inhabited

/-- `PathFrame` (+ the tag of the `.include` statement that opened the file) -/
structure Saved where
  count : Nat
  constants : Option Table
  tasks : Option (List Task)
  tag : Nat
deriving Repr, Inhabited

/-- `running`: `do_assemble` of the current file is consuming statements;
`stopped lvl nest`: it has returned `Err(lvl)`; `nest` counts skipped `enter`s -/
inductive Mode where
  | running
  | stopped (lvl : Level) (nest : Nat)
deriving DecidableEq, Repr, Inhabited

structure State where
  depth : Nat                          -- `path_stack.len()`
  globals : Table
  locals : Option Table
  globalTasks : List Task
  localTasks : Option (List Task)
  frames : List Saved                  -- live `PathFrame`s, innermost first
  mode : Mode
  log : List Ev                        -- newest first
deriving Repr, Inhabited

/-- `Context::new` -/
def init : State :=
  { depth := 0, globals := [], locals := none, globalTasks := [], localTasks := none, frames := [],
    mode := .running, log := [] }

/-- `push_error` -/
def State.err (s : State) (tag : Nat) (k : Kind) : State := { s with log := .diag tag k :: s.log }

/-- `has_errored` -/
def State.hasErrored (s : State) : Bool := s.log.any Ev.isDiag

/-- `has_curr_file` -/
def State.hasCurrFile (s : State) : Bool := decide (s.depth ≠ 0)

/-- `Context::get_constant` -/
def getConstant (s : State) (n : Bytes) : Realm → Except Panic Lookup
  | .global => .ok (s.globals.get n)
  | .loc =>
    match s.locals with
    | none => .error .noLocalScope
    | some l => .ok (l.get n)

/-- `ConstantError` as far as the table functions produce it -/
inductive CErr where
  | reserved
  | duplicate (r : Realm)
deriving DecidableEq, Repr, Inhabited

/-- `Context::insert_constant` -/
def insertConstant (s : State) (n : Bytes) (v : Int) (r : Realm) : Except Panic (State × Except CErr Bool) :=
  if isReg n then .ok (s, .error .reserved) else
  match r with
  | .global =>
    match s.globals.find n with
    | none => .ok ({ s with globals := s.globals.set n (some v) }, .ok true)
    | some none => .ok ({ s with globals := s.globals.set n (some v) }, .ok false)
    | some (some _) => .ok (s, .error (.duplicate .global))
  | .loc =>
    match s.locals with
    | none => .error .noLocalScope
    | some l =>
      match l.find n with
      | none => .ok ({ s with locals := some (l.set n (some v)) }, .ok true)
      | some none => .ok ({ s with locals := some (l.set n (some v)) }, .ok false)
      | some (some _) => .ok (s, .error (.duplicate .loc))

/-- `Context::defer_constant` -/
def deferConstant (s : State) (n : Bytes) (r : Realm) : Except Panic (State × Except CErr Unit) :=
  if isReg n then .ok (s, .error .reserved) else
  match r with
  | .global =>
    match s.globals.find n with
    | some _ => .ok (s, .error (.duplicate .global))
    | none => .ok ({ s with globals := s.globals.set n none }, .ok ())
  | .loc =>
    match s.locals with
    | none => .error .noLocalScope
    | some l =>
      match l.find n with
      | some _ => .ok (s, .error (.duplicate .loc))
      | none => .ok ({ s with locals := some (l.set n none) }, .ok ())

/-- `Context::add_task` -/
def addTask (s : State) (t : Task) : Realm → Except Panic State
  | .global => .ok { s with globalTasks := s.globalTasks ++ [t] }
  | .loc =>
    match s.localTasks with
    | none => .error .noLocalScope
    | some l => .ok { s with localTasks := some (l ++ [t]) }

def dupKind : Realm → Kind
  | .global => .dupGlobal
  | .loc => .dupLocal

def nfKind : Realm → Kind
  | .global => .nfGlobal
  | .loc => .nfLocal

def defKind : Realm → Kind
  | .global => .defGlobal
  | .loc => .defLocal

/-- `Result<(), ErrorLevel>` of a statement or task together with the new state -/
abbrev Res := Except Panic (State × Option Level)

/-- a label (`do_assemble`, `ElementValue::Label`) -/
def doLabel (s : State) (n : Bytes) (v : Int) (tag : Nat) : Res :=
  match insertConstant s n v .loc with
  | .error p => .error p
  | .ok (s, .ok _) => .ok (s, none)
  | .ok (s, .error .reserved) => .ok (s.err tag .reserved, some .fatal)
  | .ok (s, .error (.duplicate r)) => .ok (s.err tag (dupKind r), some .fatal)

/-- `.const n, <literal>` -/
def doConst (s : State) (n : Bytes) (v : Int) (tag : Nat) : Res :=
  match insertConstant s n v .loc with
  | .error p => .error p
  | .ok (s, .ok _) => .ok (s, none)
  | .ok (s, .error (.duplicate _)) => .ok (s.err tag .dupConst, some .fatal)
  | .ok (s, .error .reserved) => .ok (s.err tag .reserved, some .fatal)

/-- the closure scheduled by `.global` -/
def runGlobalCopy (s : State) (n : Bytes) (tag : Nat) : Res :=
  match getConstant s n .loc with
  | .error p => .error p
  | .ok .notFound => .ok (s.err tag .nfLocal, some .trivial)
  | .ok .deferred => .ok (s.err tag .defLocal, some .trivial)
  | .ok (.found v) =>
    match insertConstant s n v .global with
    | .error p => .error p
    | .ok (s, .ok _) => .ok (s, none)
    | .ok (s, .error (.duplicate r)) => .ok (s.err tag (dupKind r), some .trivial)
    | .ok (_, .error .reserved) => .error .unreachable

/-- `.global n` -/
def doGlobal (s : State) (n : Bytes) (tag : Nat) : Res :=
  match deferConstant s n .global with
  | .error p => .error p
  | .ok (s, .error (.duplicate r)) => .ok (s.err tag (dupKind r), some .fatal)
  | .ok (s, .error .reserved) => .ok (s.err tag .reserved, some .fatal)
  | .ok (s, .ok ()) =>
    match getConstant s n .loc with
    | .error p => .error p
    | .ok (.found v) =>
      -- `assert!(!ctx.insert_constant(name, v, Realm::Global).unwrap())`
      match insertConstant s n v .global with
      | .error p => .error p
      | .ok (_, .error _) => .error .unwrapNone
      | .ok (_, .ok true) => .error .assertFailed
      | .ok (s, .ok false) => .ok (s, none)
    | .ok .notFound =>
      -- `ctx.defer_constant(name, Realm::Local).unwrap()`
      match deferConstant s n .loc with
      | .error p => .error p
      | .ok (_, .error _) => .error .unwrapNone
      | .ok (s, .ok ()) =>
        match addTask s (.globalCopy n tag) .loc with
        | .error p => .error p
        | .ok s => .ok (s, none)
    | .ok .deferred =>
      match addTask s (.globalCopy n tag) .loc with
      | .error p => .error p
      | .ok s => .ok (s, none)

/-- `.import n` -/
def doImport (s : State) (n : Bytes) (tag : Nat) : Res :=
  match getConstant s n .global with
  | .error p => .error p
  | .ok .notFound => .ok (s.err tag .nfGlobal, some .fatal)
  | .ok .deferred =>
    match deferConstant s n .loc with
    | .error p => .error p
    | .ok (s, .ok ()) => .ok (s, none)
    | .ok (s, .error (.duplicate r)) => .ok (s.err tag (dupKind r), some .fatal)
    | .ok (_, .error .reserved) => .error .unreachable
  | .ok (.found v) =>
    match insertConstant s n v .loc with
    | .error p => .error p
    | .ok (s, .ok _) => .ok (s, none)
    | .ok (s, .error (.duplicate r)) => .ok (s.err tag (dupKind r), some .fatal)
    | .ok (_, .error .reserved) => .error .unreachable

/-- `.export n` -/
def doExport (s : State) (n : Bytes) (tag : Nat) : Res :=
  match getConstant s n .loc with
  | .error p => .error p
  | .ok .notFound => .ok (s.err tag .nfLocal, some .fatal)
  | .ok .deferred => .ok (s.err tag .defLocal, some .fatal)
  | .ok (.found v) =>
    match insertConstant s n v .global with
    | .error p => .error p
    | .ok (s, .ok _) => .ok (s, none)
    | .ok (s, .error (.duplicate r)) => .ok (s.err tag (dupKind r), some .fatal)
    | .ok (_, .error .reserved) => .error .unreachable

/-- the writer closure of `.du32` on a constant argument: `u32::try_from(val)` then `write_data` -/
def writeVal (s : State) (tag : Nat) (v : Int) (stage : Nat) : State × Option Level :=
  if 0 ≤ v ∧ v < 4294967296 then ({ s with log := .value tag v stage :: s.log }, none)
  else (s.err tag .range, some .trivial)

/-- `DataOp` -/
inductive DataOp where
  | completed | deferred
deriving DecidableEq, Repr, Inhabited

/-- `DataExpr::apply(ctx, local)` for the argument `Identifier(n)` (or `Constant(v)` once `cached = some v`);
returns the state, the result, and the new `cached` -/
def applyUse (s : State) (n : Bytes) (cached : Option Int) (tag stage : Nat) (isLocal : Bool) :
    Except Panic (State × Except Level DataOp × Option Int) :=
  match cached with
  | some v =>
    -- `Argument::Constant` evaluates to `Complete`
    match writeVal s tag v stage with
    | (s, none) => .ok (s, .ok .completed, cached)
    | (s, some l) => .ok (s, .error l, cached)
  | none =>
    if isReg n then
      -- `Complete{changed: false}`, the writer sees an identifier: `ArgumentType` diagnostic
      .ok (s.err tag .argType, .error .trivial, none)
    else
      match getConstant s n (if s.hasCurrFile then .loc else .global) with
      | .error p => .error p
      | .ok .notFound =>
        if isLocal then .ok (s, .ok .deferred, none)
        else .ok (s.err tag .nfLocal, .error .trivial, none)
      | .ok .deferred => .ok (s, .ok .deferred, none)
      | .ok (.found v) =>
        match writeVal s tag v stage with
        | (s, none) => .ok (s, .ok .completed, some v)
        | (s, some l) => .ok (s, .error l, some v)

/-- the task created by `DataExpr::schedule(global)` -/
def runUse (s : State) (n : Bytes) (cached : Option Int) (tag : Nat) (global : Bool) : Res :=
  match applyUse s n cached tag (if global then 2 else 1) false with
  | .error p => .error p
  | .ok (s, .ok .completed, _) => .ok (s, none)
  | .ok (s, .ok .deferred, c) =>
    if global then .ok (s.err tag .nfGlobal, some .trivial)
    else
      match addTask s (.use n c tag true) .global with
      | .error p => .error p
      | .ok s => .ok (s, none)
  | .ok (s, .error l, _) => .ok (s, some l)

/-- `.du32 n;` -/
def doUse (s : State) (n : Bytes) (tag : Nat) : Res :=
  match applyUse s n none tag 0 true with
  | .error p => .error p
  | .ok (s, .ok .completed, _) => .ok (s, none)
  | .ok (s, _, c) =>
    -- padding is written, the statement is scheduled as a local task
    match addTask s (.use n c tag false) .loc with
    | .error p => .error p
    | .ok s => .ok (s, none)

def runTask (s : State) : Task → Res
  | .globalCopy n tag => runGlobalCopy s n tag
  | .use n c tag g => runUse s n c tag g

/-- `result = match result {Ok(()) => Err(lvl), Err(old) => Err(old.max(lvl))}` -/
def combine : Option Level → Level → Option Level
  | none, l => some l
  | some o, l => some (o.max l)

/-- `for task in tasks.drain(..)` of `assemble`: stops at the first aborting task (the rest is dropped) -/
def drain (s : State) (result : Option Level) : List Task → Except Panic (State × Option Level)
  | [] => .ok (s, result)
  | t :: ts =>
    match runTask s t with
    | .error p => .error p
    | .ok (s, none) => drain s result ts
    | .ok (s, some lvl) =>
      if lvl.shouldAbort then .ok (s, combine result lvl) else drain s (combine result lvl) ts

/-- `while !tasks.is_empty() {…}` of `assemble` -/
def localLoop : Nat → State → Option Level → List Task → Except Panic (State × Option Level)
  | _, s, r, [] => .ok (s, r)
  | 0, _, _, _ :: _ => .error .fuel
  | fuel + 1, s, r, t :: ts =>
    match drain s r (t :: ts) with
    | .error p => .error p
    | .ok (s, r) =>
      -- `mem::swap(local_tasks.as_mut().unwrap(), &mut tasks)`
      match s.localTasks with
      | none => .error .unwrapNone
      | some next =>
        let s := { s with localTasks := some [] }
        if r = some .fatal then .ok (s, r) else localLoop fuel s r next

/-- `Context::assemble`, entry part -/
def enterFile (s : State) (tag : Nat) : State :=
  let depth := s.depth + 1
  -- `mem::replace(&mut self.locals, Some(new)).map(|c| mem::replace(&mut self.globals, c))`
  let (globals, constants) :=
    match s.locals with
    | none => (s.globals, none)
    | some c => (c, some s.globals)
  let (globalTasks, tasks) :=
    match s.localTasks with
    | none => (s.globalTasks, none)
    | some t => (t, some s.globalTasks)
  { s with depth := depth, globals := globals, locals := some [], globalTasks := globalTasks,
           localTasks := some [], frames := { count := depth, constants, tasks, tag } :: s.frames }

/-- `PathFrame::into_inner` -/
def intoInner (s : State) (f : Saved) (fs : List Saved) : Except Panic State :=
  if s.depth ≠ f.count then .error .assertFailed else
  match s.depth with
  | 0 => .error .unwrapNone
  | d + 1 =>
    let (globals, locals) :=
      match f.constants with
      | none => (s.globals, none)
      | some c => (c, some s.globals)
    let (globalTasks, localTasks) :=
      match f.tasks with
      | none => (s.globalTasks, none)
      | some t => (t, some s.globalTasks)
    .ok { s with depth := d, globals := globals, locals := locals, globalTasks := globalTasks,
                 localTasks := localTasks, frames := fs }

/-- `Context::assemble` after `do_assemble` returned `result`, followed by the `.include` statement of the
includer looking at the result -/
def exitFile (s : State) (result : Option Level) : Except Panic State :=
  match s.frames with
  | [] => .ok s      -- not a state of the Rust program (no `assemble` call is active)
  | f :: fs =>
    let looped : Except Panic (State × Option Level) :=
      if result = some .fatal then .ok (s, result)
      else
        -- `frame.ctx.local_tasks.replace(Vec::new()).unwrap()`
        match s.localTasks with
        | none => .error .unwrapNone
        | some tasks => localLoop 2 { s with localTasks := some [] } result tasks
    match looped with
    | .error p => .error p
    | .ok (s, result) =>
      match intoInner s f fs with
      | .error p => .error p
      | .ok s =>
        match result, fs with
        | some _, _ :: _ => .ok { (s.err f.tag .asmFailed) with mode := .stopped .fatal 0 }
        | _, _ => .ok { s with mode := .running }

/-- `for task in tasks.drain(..)` of `finalize` -/
def drainFinal (s : State) : List Task → Except Panic (State × Bool)
  | [] => .ok (s, false)
  | t :: ts =>
    match runTask s t with
    | .error p => .error p
    | .ok (s, some .fatal) => .ok (s, true)
    | .ok (s, _) => drainFinal s ts

/-- `while !tasks.is_empty() {…}` of `finalize` -/
def finalLoop : Nat → State → List Task → Except Panic (State × Bool)
  | _, s, [] => .ok (s, false)
  | 0, _, _ :: _ => .error .fuel
  | fuel + 1, s, t :: ts =>
    match drainFinal s (t :: ts) with
    | .error p => .error p
    | .ok (s, abort) =>
      let next := s.globalTasks
      let s := { s with globalTasks := [] }
      if abort then .ok (s, true) else finalLoop fuel s next

/-- `Context::finalize` -/
def finalize (s : State) : Except Panic State :=
  match finalLoop 3 { s with globalTasks := [] } s.globalTasks with
  | .error p => .error p
  | .ok (s, abort) => .ok { s with log := .done (!(abort || s.hasErrored)) :: s.log }

inductive Op where
  | enter (tag : Nat)
  | exit
  | label (n : Bytes) (v : Int) (tag : Nat)
  | const (n : Bytes) (v : Int) (tag : Nat)
  | global (n : Bytes) (tag : Nat)
  | import (n : Bytes) (tag : Nat)
  | export (n : Bytes) (tag : Nat)
  | use (n : Bytes) (tag : Nat)
  | finalize
deriving DecidableEq, Repr, Inhabited

/-- a statement of the current file -/
def stmt (s : State) : Op → Res
  | .label n v tag => doLabel s n v tag
  | .const n v tag => doConst s n v tag
  | .global n tag => doGlobal s n tag
  | .import n tag => doImport s n tag
  | .export n tag => doExport s n tag
  | .use n tag => doUse s n tag
  | _ => .ok (s, none)

def step (s : State) (op : Op) : Except Panic State :=
  match s.mode, op with
  | .stopped l k, .enter _ => .ok { s with mode := .stopped l (k + 1) }
  | .stopped l (k + 1), .exit => .ok { s with mode := .stopped l k }
  | .stopped l 0, .exit => exitFile s (some l)
  | .stopped _ _, _ => .ok s
  | .running, .enter tag => .ok (enterFile s tag)
  | .running, .exit => exitFile s none
  | .running, .finalize => finalize s
  | .running, op =>
    match s.frames with
    | [] => .ok s    -- statements exist only inside `assemble`
    | _ :: _ =>
      match stmt s op with
      | .error p => .error p
      | .ok (s, none) => .ok s
      | .ok (s, some l) => .ok { s with mode := .stopped l 0 }

def run (s : State) : List Op → Except Panic State
  | [] => .ok s
  | op :: ops =>
    match step s op with
    | .error p => .error p
    | .ok s => run s ops

end Trion.Scope
