import TrionModel.Model.Syntax
/-!
# Model of `src/asm/simplify/mod.rs` and `src/asm/simplify/eval.rs` (Layer B)

Imports only the shared syntax types, so the driver executable links.

* checked `i64` arithmetic on `Int` (`checkedAdd … checkedShr`, `band/bor/bxor/bnot`) following the Rust
  `checked_*` contracts: truncating `/ %`, `MIN / -1` and `MIN % -1` are `None`, shifts go through
  `u32::try_from(rhs)` and `checked_shl/shr`, which reject only counts ≥ 64 and otherwise WRAP
  (`1 << 63 = MIN`), `>>` is arithmetic, bitwise operators act on the two's-complement pattern.
* `neutralizeRaw`, `neutralize`, `simplifyRaw`, `simplify` mirror the functions of the same names.
  The result is `Res (Bool × Arg)` = changed flag and new tree (the Rust code mutates in place and
  returns the flag), `Res.err` for `SimplifyError`, and `Res.panic` for the two
  `assert!(!lhs_const || !rhs_const, "missed simplification …")` sites of the inner `search`.
* `search` returns `&mut` to the node that holds a mergeable constant plus its inversion flag; here it
  is the triple `findC` (which constant, with which sign — or `panic`), `setC` (overwrite that constant,
  the `*lhs_val = …` assignment) and `dropC` (splice that constant out, the `*rhs_arg = …`
  assignments), all three walking the tree in the order of `search`.

The remaining `unreachable!()` arms of `simplify_raw`/`neutralize_raw` are *statically* dead (each is
the fall-through of a `match` on a value that was matched by the same pattern a few lines earlier, or
on the node kind that `search` returns, which by its three `return Some(..)` sites is always a binary
node of the seven mergeable kinds with a constant child): they have no counterpart here because the
functional form has no second match.  The correspondence run compares trees node for node and would
show a `PANIC` from any of them.
* `evaluate` mirrors `eval.rs`; the `Context` is abstracted to `lookup : Bytes → Lookup` (the constant
  table of the realm in use) and `isReg : Bytes → Bool` (`InstructionSet::is_register`).
-/
namespace Trion.Simp
open Trion

/-! ## checked signed 64-bit arithmetic -/

def two63 : Int := 9223372036854775808
def two64 : Int := 18446744073709551616

/-- `Some(v)` iff `v` fits `i64` -/
def checked (v : Int) : Option Int := if inI64 v then some v else none

def checkedAdd (a b : Int) : Option Int := checked (a + b)
def checkedSub (a b : Int) : Option Int := checked (a - b)
def checkedMul (a b : Int) : Option Int := checked (a * b)
def checkedNeg (a : Int) : Option Int := checked (-a)
/-- `i64::checked_div`: `None` for a zero divisor and for `MIN / -1` (the only quotient out of range) -/
def checkedDiv (a b : Int) : Option Int := if b = 0 then none else checked (Int.tdiv a b)
/-- `i64::checked_rem`: `None` for a zero divisor and for `MIN % -1` -/
def checkedRem (a b : Int) : Option Int :=
  if b = 0 then none else if a = i64Min ∧ b = -1 then none else some (Int.tmod a b)

/-- reduce to the `i64` with the same low 64 bits -/
def wrap (v : Int) : Int := (v + two63) % two64 - two63

/-- `u32::try_from(k).ok().and_then(|s| a.checked_shl(s))`: only `0 ≤ k < 64` passes, the result wraps -/
def checkedShl (a k : Int) : Option Int :=
  if 0 ≤ k ∧ k < 64 then some (wrap (a * 2 ^ k.toNat)) else none
/-- arithmetic shift right = floor division by `2^k` -/
def checkedShr (a k : Int) : Option Int :=
  if 0 ≤ k ∧ k < 64 then some (a / 2 ^ k.toNat) else none

/-- the 64-bit pattern of an `i64` as a natural number -/
def toU (v : Int) : Nat := (v % two64).toNat
/-- the `i64` with the given 64-bit pattern -/
def ofU (n : Nat) : Int := if n < 9223372036854775808 then (n : Int) else (n : Int) - two64

def band (a b : Int) : Int := ofU (toU a &&& toU b)
def bor (a b : Int) : Int := ofU (toU a ||| toU b)
def bxor (a b : Int) : Int := ofU (toU a ^^^ toU b)
/-- `!v` on `i64` -/
def bnot (a : Int) : Int := -a - 1

/-! ## results -/

/-- the variants of `OverflowError` (operands dropped). A failing `>>` is reported by the Rust code as
`OverflowError::LeftShift` as well (both arms of the `if` construct `LeftShift`), so `shr` never occurs. -/
inductive OvKind where
  | add | negate | sub | mul | divZero | div | modZero | mod | shl | shr
deriving DecidableEq, Repr, Inhabited

/-- `SimplifyError` -/
inductive SimpErr where
  | badType (kind op : ArgTy)
  | overflow (k : OvKind)
deriving DecidableEq, Repr, Inhabited

/-- outcome of a simplifier function: value, `Err(SimplifyError)`, or a Rust panic -/
inductive Res (α : Type) where
  | ok (a : α)
  | err (e : SimpErr)
  | panic
deriving Repr, Inhabited

/-- the constant payload of a node, if it is `Argument::Constant` -/
def cval : Arg → Option Int
  | .const c => some c
  | _ => none

/-- `matches!(x, Argument::String(..) | Argument::Address(..) | Argument::Sequence(..))` -/
def isBad : Arg → Bool
  | .str _ | .addr _ | .seq _ => true
  | _ => false

/-! ## `neutralize_raw` -/

/-- the `while` loop: `l + (-n) ↦ l - n`, `l - (-n) ↦ l + n`, until the rhs is no `Negate`.
Arguments: is the operator `Subtract`, the rhs. Result: is it `Subtract` now, new rhs, changed. -/
def stripNeg : Bool → Arg → Bool × Arg × Bool
  | isSub, .neg n => let r := stripNeg (!isSub) n; (r.1, r.2.1, true)
  | isSub, r => (isSub, r, false)

/-- `(neutral, neut_rhs)` table -/
def neutralL : BinOp → Option Int
  | .add => some 0 | .mul => some 1 | .band => some (-1) | .bor => some 0 | .bxor => some 0
  | _ => none
def neutralR : BinOp → Option Int
  | .add | .sub => some 0
  | .mul | .div => some 1
  | .mod => none
  | .band => some (-1)
  | .bor | .bxor => some 0
  | .shl | .shr => some 0

/-- the "main neutralization operation" on a binary node whose operand types were accepted -/
def neutralMain (op : BinOp) (l r : Arg) : Arg :=
  match cval l with
  | some v =>
    if some v = neutralL op then r
    else if op = .sub ∧ v = 0 then .neg r
    else .bin op l r
  | none =>
    match cval r with
    | some v => if some v = neutralR op then l else .bin op l r
    | none => .bin op l r

/-- the two add/sub normalisation passes; result: changed, operator is `Subtract`, new rhs -/
def normAddSub (isSub : Bool) (r : Arg) : Res (Bool × Bool × Arg) :=
  let s := stripNeg isSub r
  match cval s.2.1 with
  | some v =>
    if v < 0 then
      match checkedNeg v with
      | none => .err (.overflow .negate)
      | some nv => .ok (true, !s.1, .const nv)
    else .ok (s.2.2, s.1, s.2.1)
  | none => .ok (s.2.2, s.1, s.2.1)

/-- operand type check + neutral elements (the part after `let arg_ty = arg.get_type()`) -/
def neutralTail (ch : Bool) (op : BinOp) (l r : Arg) : Res (Bool × Arg) :=
  if isBad l then .err (.badType l.ty op.argTy)
  else if isBad r then .err (.badType r.ty op.argTy)
  else .ok (ch, neutralMain op l r)

/-- the passes of `neutralize_raw` on a binary node (strip loop, sign normalisation, neutral elements); the returned
flag only reports the add/sub normalisation -/
def neutralizeBin (op : BinOp) (l r : Arg) : Res (Bool × Arg) :=
  if op = .add ∨ op = .sub then
    match normAddSub (op = .sub) r with
    | .ok (ch, isSub, r') => neutralTail ch (if isSub then .sub else .add) l r'
    | .err e => .err e
    | .panic => .panic
  else neutralTail false op l r

/-- `changed = true` (set by the swap at the top of `neutralize_raw`) -/
def swapped : Res (Bool × Arg) → Res (Bool × Arg)
  | .ok (_, a) => .ok (true, a)
  | r => r

/-- `neutralize_raw`: first the swap `-(l - r) ↦ r - l`, `0 - (l - r) ↦ r - l` (repair of K5: the negation of a difference
is never kept, so that `evaluate` is idempotent; repair of K6: nor is a double negation), then the passes on the binary node -/
def neutralizeRaw : Arg → Res (Bool × Arg)
  | .neg (.neg v) => swapped (neutralizeRaw v)        -- the `while` loop: a double negation is its operand (repair of K6)
  | .neg (.bin .sub l r) => swapped (neutralizeBin .sub r l)
  | .bin .sub (.const c) (.bin .sub l r) =>
    if c = 0 then swapped (neutralizeBin .sub r l) else neutralizeBin .sub (.const c) (.bin .sub l r)
  | .bin op l r => neutralizeBin op l r
  | a => .ok (false, a)

/-! ## `neutralize` -/

mutual
def neutralize : Arg → Res (Bool × Arg)
  | .bin op l r =>
    match neutralize l with
    | .ok (c1, l') =>
      match neutralize r with
      | .ok (c2, r') =>
        match neutralizeRaw (.bin op l' r') with
        | .ok (c3, a) => .ok (c1 || c2 || c3, a)
        | .err e => .err e
        | .panic => .panic
      | .err e => .err e
      | .panic => .panic
    | .err e => .err e
    | .panic => .panic
  | .neg v =>
    match neutralize v with
    | .ok (c, v') =>
      match neutralizeRaw (.neg v') with     -- swaps `-(l - r)`
      | .ok (c3, a) => .ok (c || c3, a)
      | .err e => .err e
      | .panic => .panic
    | .err e => .err e
    | .panic => .panic
  | .not v =>
    match neutralize v with
    | .ok (c, v') => .ok (c, .not v')
    | .err e => .err e
    | .panic => .panic
  | .addr v =>
    match neutralize v with
    | .ok (c, v') => .ok (c, .addr v')
    | .err e => .err e
    | .panic => .panic
  | .seq as =>
    match neutralizeArgs as with
    | .ok (c, as') => .ok (c, .seq as')
    | .err e => .err e
    | .panic => .panic
  | .func n as =>
    match neutralizeArgs as with
    | .ok (c, as') => .ok (c, .func n as')
    | .err e => .err e
    | .panic => .panic
  | .const v => .ok (false, .const v)
  | .ident s => .ok (false, .ident s)
  | .str s => .ok (false, .str s)
def neutralizeArgs : Args → Res (Bool × Args)
  | .nil => .ok (false, .nil)
  | .cons a as =>
    match neutralize a with
    | .ok (c1, a') =>
      match neutralizeArgs as with
      | .ok (c2, as') => .ok (c1 || c2, .cons a' as')
      | .err e => .err e
      | .panic => .panic
    | .err e => .err e
    | .panic => .panic
end

/-! ## `search` as `findC` / `setC` / `dropC` -/

/-- the first `match` arm of `search`: Add, Subtract, Multiply, BitAnd, BitOr, BitXor -/
def chainOp : BinOp → Bool
  | .add | .sub | .mul | .band | .bor | .bxor => true
  | _ => false

def isAddSub : BinOp → Bool
  | .add | .sub => true
  | _ => false

/-- `arg_ty == curr_ty || (arg_ty ∈ {Add, Subtract} && curr_ty ∈ {Add, Subtract})` -/
def sameFam (ty cur : BinOp) : Bool := ty == cur || (isAddSub ty && isAddSub cur)

/-- result of `search` reduced to what the caller reads: nothing, the constant with its inversion flag,
or the `assert!` failure -/
inductive Find where
  | none
  | found (c : Int) (inv : Bool)
  | panic
deriving Repr, Inhabited, DecidableEq

/-- `search(arg_ty, curr, invert)` -/
def findC (ty : BinOp) : Arg → Bool → Find
  | .bin op l r, inv =>
    if chainOp op then
      if sameFam ty op then
        match cval l, cval r with
        | some _, some _ => .panic                      -- assert!(!lhs_const || !rhs_const)
        | some c, none => .found c inv
        | none, some c => .found c (inv ^^ (op == .sub))
        | none, none =>
          match findC ty l inv with
          | .found c s => .found c s
          | .panic => .panic
          | .none => findC ty r (inv ^^ (op == .sub))
      else .none
    else if op == .div then
      if ty == .div then
        match cval l, cval r with
        | some _, some _ => .panic
        | some c, none => .found c inv
        | none, some c => .found c (!inv)
        | none, none => findC ty l inv
      else .none
    else .none
  | .neg v, inv => if isAddSub ty then findC ty v (!inv) else .none
  | _, _ => .none

def Find.isFound : Find → Bool
  | .found _ _ => true
  | _ => false

/-- overwrite the constant that `findC` finds (`*lhs_val = …`) -/
def setC (ty : BinOp) (n : Int) : Arg → Arg
  | .bin op l r =>
    if chainOp op then
      if sameFam ty op then
        match cval l, cval r with
        | some _, _ => .bin op (.const n) r
        | none, some _ => .bin op l (.const n)
        | none, none =>
          if (findC ty l false).isFound then .bin op (setC ty n l) r else .bin op l (setC ty n r)
      else .bin op l r
    else if op == .div then
      if ty == .div then
        match cval l, cval r with
        | some _, _ => .bin op (.const n) r
        | none, some _ => .bin op l (.const n)
        | none, none => .bin op (setC ty n l) r
      else .bin op l r
    else .bin op l r
  | .neg v => if isAddSub ty then .neg (setC ty n v) else .neg v
  | a => a

/-- splice out the node that `findC` finds (`*rhs_arg = …`): `c ∘ y ↦ y`, `y ∘ c ↦ y`, `c − y ↦ −y`.
Never used with `ty = div` (the rhs of a division is not searched), so `Divide` nodes are inert. -/
def dropC (ty : BinOp) : Arg → Arg
  | .bin op l r =>
    if chainOp op then
      if sameFam ty op then
        match cval l, cval r with
        | some _, _ => if op == .sub then .neg r else r
        | none, some _ => l
        | none, none =>
          if (findC ty l false).isFound then .bin op (dropC ty l) r else .bin op l (dropC ty r)
      else .bin op l r
    else .bin op l r
  | .neg v => if isAddSub ty then .neg (dropC ty v) else .neg v
  | a => a

/-! ## `simplify_raw` -/

/-- "both sides have known values so we can simply compute the result" -/
def foldBin (op : BinOp) (a b : Int) : Except OvKind Int :=
  match op with
  | .add => match checkedAdd a b with | some v => .ok v | none => .error .add
  | .sub => match checkedSub a b with | some v => .ok v | none => .error .sub
  | .mul => match checkedMul a b with | some v => .ok v | none => .error .mul
  | .div =>
    if b = 0 then .error .divZero
    else match checkedDiv a b with | some v => .ok v | none => .error .div
  | .mod =>
    if b = 0 then .error .modZero
    else match checkedRem a b with | some v => .ok v | none => .error .mod
  | .band => .ok (band a b)
  | .bor => .ok (bor a b)
  | .bxor => .ok (bxor a b)
  | .shl => match checkedShl a b with | some v => .ok v | none => .error .shl
  | .shr => match checkedShr a b with | some v => .ok v | none => .error .shl   -- sic: LeftShift

/-- "apply the rhs value to lhs' operation" -/
def combine (op : BinOp) (li ri : Bool) (a b : Int) : Except OvKind Int :=
  match op with
  | .add | .sub =>
    if li ^^ ri then (match checkedSub a b with | some v => .ok v | none => .error .sub)
    else (match checkedAdd a b with | some v => .ok v | none => .error .add)
  | .mul => match checkedMul a b with | some v => .ok v | none => .error .mul
  | .div =>
    if li then (match checkedMul a b with | some v => .ok v | none => .error .mul)
    else (match checkedDiv a b with | some v => .ok v | none => .error .div)
  | .band => .ok (band a b)
  | .bor => .ok (bor a b)
  | .bxor => .ok (bxor a b)
  | .mod | .shl | .shr => .ok a       -- not reached: these operators never get here

/-- `(x % y) % z` with constant `y`, `z` and `|y| ≤ |z|` -/
def modCollapse (l r : Arg) : Bool :=
  match cval r with
  | some z =>
    match l with
    | .bin .mod _ lr =>
      match cval lr with
      | some y => decide (y.natAbs ≤ z.natAbs)
      | none => false
    | _ => false
  | none => false

/-- `(lhs_const, lhs_inv)`: the lhs itself if it is a constant, else what `search(arg_ty, lhs, false)` finds -/
def mergeL (op : BinOp) (l : Arg) : Find :=
  match cval l with
  | some c => .found c false
  | none => findC op l false

/-- `rhs_pre_inv` -/
def preInv (op : BinOp) : Bool := op == .sub || op == .div

/-- `(rhs_arg, rhs_inv)`: the rhs itself if it is a constant; the rhs of a division is not searched -/
def mergeR (op : BinOp) (r : Arg) : Find :=
  match cval r with
  | some c => .found c (preInv op)
  | none => if op == .div then .none else findC op r (preInv op)

/-- the tree after `*lhs_val = c` and the splice of the rhs constant, before the final `neutralize(arg)` -/
def mergeTree (op : BinOp) (l r : Arg) (c : Int) : Arg :=
  let l' := match cval l with
    | some _ => Arg.const c
    | none => setC op c l
  match cval r with
  | some _ => l'
  | none => Arg.bin op l' (dropC op r)

/-- the last `else` branch of the binary arm of `simplify_raw` -/
def merge (op : BinOp) (l r : Arg) : Res (Bool × Arg) :=
  match mergeL op l, mergeR op r with
  | .panic, _ => .panic
  | _, .panic => .panic
  | .found c1 s1, .found c2 s2 =>
    match combine op s1 s2 c1 c2 with
    | .error k => .err (.overflow k)
    | .ok c =>
      match neutralize (mergeTree op l r c) with
      | .ok (_, a) => .ok (true, a)
      | .err e => .err e
      | .panic => .panic
  | _, _ => neutralizeRaw (.bin op l r)

def simplifyRaw : Arg → Res (Bool × Arg)
  | .bin op l r =>
    if isBad l then .err (.badType l.ty op.argTy)
    else if isBad r then .err (.badType r.ty op.argTy)
    else
      match cval l, cval r with
      | some a, some b =>
        match foldBin op a b with
        | .ok v => .ok (true, .const v)
        | .error k => .err (.overflow k)
      | _, _ =>
        match op with
        | .mod => if modCollapse l r then .ok (true, l) else neutralizeRaw (.bin op l r)
        | .shl | .shr => neutralizeRaw (.bin op l r)
        | _ => merge op l r
  | .neg v =>
    match v with
    | .bin .sub l r =>
      -- `*arg = Subtract{lhs: rhs, rhs: lhs}; neutralize_raw(arg)?; true`
      match neutralizeRaw (.bin .sub r l) with
      | .ok (_, a) => .ok (true, a)
      | .err e => .err e
      | .panic => .panic
    | .neg w =>
      -- `neutralize_raw(arg)?; true` (removes the double negation)
      match neutralizeRaw (.neg (.neg w)) with
      | .ok (_, a) => .ok (true, a)
      | .err e => .err e
      | .panic => .panic
    | .const c => if c = i64Min then .err (.overflow .negate) else .ok (true, .const (-c))
    | .str _ | .addr _ | .seq _ => .err (.badType v.ty .neg)
    | _ => .ok (false, .neg v)
  | .not v =>
    match v with
    | .const c => .ok (true, .const (bnot c))
    | .str _ | .addr _ | .seq _ => .err (.badType v.ty .not)
    | _ => .ok (false, .not v)
  | .addr v => if isBad v then .err (.badType v.ty .addr) else .ok (false, .addr v)
  | a => .ok (false, a)

/-! ## `simplify` -/

mutual
def simplify : Arg → Res (Bool × Arg)
  | .bin op l r =>
    match simplify l with
    | .ok (c1, l') =>
      match simplify r with
      | .ok (c2, r') =>
        match simplifyRaw (.bin op l' r') with
        | .ok (c3, a) => .ok (c1 || c2 || c3, a)
        | .err e => .err e
        | .panic => .panic
      | .err e => .err e
      | .panic => .panic
    | .err e => .err e
    | .panic => .panic
  | .neg v =>
    match simplify v with
    | .ok (c, v') =>
      match simplifyRaw (.neg v') with
      | .ok (c3, a) => .ok (c || c3, a)
      | .err e => .err e
      | .panic => .panic
    | .err e => .err e
    | .panic => .panic
  | .not v =>
    match simplify v with
    | .ok (c, v') =>
      match simplifyRaw (.not v') with
      | .ok (c3, a) => .ok (c || c3, a)
      | .err e => .err e
      | .panic => .panic
    | .err e => .err e
    | .panic => .panic
  | .addr v =>
    match simplify v with
    | .ok (c, v') =>
      match simplifyRaw (.addr v') with
      | .ok (c3, a) => .ok (c || c3, a)
      | .err e => .err e
      | .panic => .panic
    | .err e => .err e
    | .panic => .panic
  | .seq as =>
    match simplifyArgs as with
    | .ok (c, as') => .ok (c, .seq as')
    | .err e => .err e
    | .panic => .panic
  | .func n as =>
    match simplifyArgs as with
    | .ok (c, as') => .ok (c, .func n as')
    | .err e => .err e
    | .panic => .panic
  | .const v => .ok (false, .const v)
  | .ident s => .ok (false, .ident s)
  | .str s => .ok (false, .str s)
def simplifyArgs : Args → Res (Bool × Args)
  | .nil => .ok (false, .nil)
  | .cons a as =>
    match simplify a with
    | .ok (c1, a') =>
      match simplifyArgs as with
      | .ok (c2, as') => .ok (c1 || c2, .cons a' as')
      | .err e => .err e
      | .panic => .panic
    | .err e => .err e
    | .panic => .panic
end

/-! ## `evaluate` (eval.rs) -/

/-- `constant::Lookup` -/
inductive Lookup where
  | notFound | deferred | found (v : Int)
deriving Repr, Inhabited, DecidableEq

/-- `EvalError` -/
inductive EvalErr where
  | noSuchVar (name : Bytes)
  | simp (e : SimpErr)
deriving Repr, Inhabited, DecidableEq

/-- `Evaluation`: `Complete{changed}` is `cause = none`, `Deferred{changed, cause}` is `cause = some _` -/
structure Ev where
  changed : Bool
  cause : Option Bytes
deriving Repr, Inhabited, DecidableEq

/-- `impl BitOr for Evaluation` -/
def Ev.or (a b : Ev) : Ev := ⟨a.changed || b.changed, a.cause.or b.cause⟩

inductive ERes (α : Type) where
  | ok (a : α)
  | err (e : EvalErr)
  | panic
deriving Repr, Inhabited

/-- `Ok(eval | Evaluation::Complete{changed: simplify_raw(arg)?})` -/
def afterRaw (ev : Ev) (a : Arg) : ERes (Ev × Arg) :=
  match simplifyRaw a with
  | .ok (c, a') => .ok (ev.or ⟨c, none⟩, a')
  | .err e => .err (.simp e)
  | .panic => .panic

mutual
def evaluate (lookup : Bytes → Lookup) (isReg : Bytes → Bool) : Arg → ERes (Ev × Arg)
  | .const v => .ok (⟨false, none⟩, .const v)
  | .ident s =>
    if isReg s then .ok (⟨false, none⟩, .ident s)
    else match lookup s with
      | .notFound => .err (.noSuchVar s)
      | .deferred => .ok (⟨false, some s⟩, .ident s)
      | .found v => .ok (⟨true, none⟩, .const v)
  | .str s => .ok (⟨false, none⟩, .str s)
  | .seq as =>
    match evaluateArgs lookup isReg as with
    | .ok (ev, as') => .ok (ev, .seq as')
    | .err e => .err e
    | .panic => .panic
  | .func n as =>
    match evaluateArgs lookup isReg as with
    | .ok (ev, as') => .ok (ev, .func n as')
    | .err e => .err e
    | .panic => .panic
  | .bin op l r =>
    match evaluate lookup isReg l with
    | .ok (e1, l') =>
      match evaluate lookup isReg r with
      | .ok (e2, r') => afterRaw (e1.or e2) (.bin op l' r')
      | .err e => .err e
      | .panic => .panic
    | .err e => .err e
    | .panic => .panic
  | .neg v =>
    match evaluate lookup isReg v with
    | .ok (e1, v') => afterRaw e1 (.neg v')
    | .err e => .err e
    | .panic => .panic
  | .not v =>
    match evaluate lookup isReg v with
    | .ok (e1, v') => afterRaw e1 (.not v')
    | .err e => .err e
    | .panic => .panic
  | .addr v =>
    match evaluate lookup isReg v with
    | .ok (e1, v') => afterRaw e1 (.addr v')
    | .err e => .err e
    | .panic => .panic
def evaluateArgs (lookup : Bytes → Lookup) (isReg : Bytes → Bool) : Args → ERes (Ev × Args)
  | .nil => .ok (⟨false, none⟩, .nil)
  | .cons a as =>
    match evaluate lookup isReg a with
    | .ok (e1, a') =>
      match evaluateArgs lookup isReg as with
      | .ok (e2, as') => .ok (e1.or e2, .cons a' as')
      | .err e => .err e
      | .panic => .panic
    | .err e => .err e
    | .panic => .panic
end

/-! ## `evaluate` with the tree it leaves behind on `NoSuchVariable`

`evaluate` works on `&mut Argument`. When it returns `Err(NoSuchVariable)` inside a file, `.du*` and
instruction statements keep the (partly evaluated) tree and run `evaluate` on it again once the file
has been read completely (`DataExpr::apply` / `schedule`), so for that error the tree state matters:
everything left of the unknown identifier has been evaluated and simplified, the rest is untouched.
After the other errors the statement is dropped, so their tree state is not modelled. -/

inductive EvT (α : Type) where
  | ok (ev : Ev) (a : α)
  | nosuch (name : Bytes) (a : α)
  | err (e : SimpErr)
  | panic
deriving Repr, Inhabited

def afterRawT (ev : Ev) (a : Arg) : EvT Arg :=
  match simplifyRaw a with
  | .ok (c, a') => .ok (ev.or ⟨c, none⟩) a'
  | .err e => .err e
  | .panic => .panic

mutual
def evaluateT (lookup : Bytes → Lookup) (isReg : Bytes → Bool) : Arg → EvT Arg
  | .const v => .ok ⟨false, none⟩ (.const v)
  | .ident s =>
    if isReg s then .ok ⟨false, none⟩ (.ident s)
    else match lookup s with
      | .notFound => .nosuch s (.ident s)
      | .deferred => .ok ⟨false, some s⟩ (.ident s)
      | .found v => .ok ⟨true, none⟩ (.const v)
  | .str s => .ok ⟨false, none⟩ (.str s)
  | .seq as =>
    match evaluateArgsT lookup isReg as with
    | .ok ev as' => .ok ev (.seq as')
    | .nosuch n as' => .nosuch n (.seq as')
    | .err e => .err e
    | .panic => .panic
  | .func f as =>
    match evaluateArgsT lookup isReg as with
    | .ok ev as' => .ok ev (.func f as')
    | .nosuch n as' => .nosuch n (.func f as')
    | .err e => .err e
    | .panic => .panic
  | .bin op l r =>
    match evaluateT lookup isReg l with
    | .ok e1 l' =>
      match evaluateT lookup isReg r with
      | .ok e2 r' => afterRawT (e1.or e2) (.bin op l' r')
      | .nosuch n r' => .nosuch n (.bin op l' r')
      | .err e => .err e
      | .panic => .panic
    | .nosuch n l' => .nosuch n (.bin op l' r)
    | .err e => .err e
    | .panic => .panic
  | .neg v =>
    match evaluateT lookup isReg v with
    | .ok e1 v' => afterRawT e1 (.neg v')
    | .nosuch n v' => .nosuch n (.neg v')
    | .err e => .err e
    | .panic => .panic
  | .not v =>
    match evaluateT lookup isReg v with
    | .ok e1 v' => afterRawT e1 (.not v')
    | .nosuch n v' => .nosuch n (.not v')
    | .err e => .err e
    | .panic => .panic
  | .addr v =>
    match evaluateT lookup isReg v with
    | .ok e1 v' => afterRawT e1 (.addr v')
    | .nosuch n v' => .nosuch n (.addr v')
    | .err e => .err e
    | .panic => .panic
def evaluateArgsT (lookup : Bytes → Lookup) (isReg : Bytes → Bool) : Args → EvT Args
  | .nil => .ok ⟨false, none⟩ .nil
  | .cons a as =>
    match evaluateT lookup isReg a with
    | .ok e1 a' =>
      match evaluateArgsT lookup isReg as with
      | .ok e2 as' => .ok (e1.or e2) (.cons a' as')
      | .nosuch n as' => .nosuch n (.cons a' as')
      | .err e => .err e
      | .panic => .panic
    | .nosuch n a' => .nosuch n (.cons a' as)
    | .err e => .err e
    | .panic => .panic
end

/-! ## semantics of expressions -/

/-- environment: the eventual value of every (non-register) identifier -/
abbrev Env := Bytes → Option Int

def liftBin (f : Int → Int → Option Int) : Option Int → Option Int → Option Int
  | some a, some b => f a b
  | _, _ => none

/-- ideal-integer meaning of an operator: exact `+ − *`, truncating `/ %` (zero divisor: none); the
bit-pattern operators are only given a meaning on `i64` operands, where they are the machine ones -/
def opZ (op : BinOp) (a b : Int) : Option Int :=
  match op with
  | .add => some (a + b)
  | .sub => some (a - b)
  | .mul => some (a * b)
  | .div => if b = 0 then none else some (Int.tdiv a b)
  | .mod => if b = 0 then none else some (Int.tmod a b)
  | .band => if inI64 a ∧ inI64 b then some (band a b) else none
  | .bor => if inI64 a ∧ inI64 b then some (bor a b) else none
  | .bxor => if inI64 a ∧ inI64 b then some (bxor a b) else none
  | .shl => if inI64 a then checkedShl a b else none
  | .shr => if inI64 a then checkedShr a b else none

/-- value over the ideal integers -/
def valZ (ρ : Env) : Arg → Option Int
  | .const v => some v
  | .ident s => ρ s
  | .bin op l r => liftBin (opZ op) (valZ ρ l) (valZ ρ r)
  | .neg a => (valZ ρ a).map (fun v => -v)
  | .not a => (valZ ρ a).map bnot
  | _ => none

/-- machine meaning of an operator on two `i64`: exactly what `simplify_raw` computes for two constants -/
def opC (op : BinOp) (a b : Int) : Option Int :=
  match foldBin op a b with
  | .ok v => some v
  | .error _ => none

/-- checked value: every leaf and every intermediate result is an `i64`, computed as the code does -/
def valC (ρ : Env) : Arg → Option Int
  | .const v => checked v
  | .ident s => (ρ s).bind checked
  | .bin op l r => liftBin (opC op) (valC ρ l) (valC ρ r)
  | .neg a => (valC ρ a).bind checkedNeg
  | .not a => (valC ρ a).map bnot
  | _ => none

end Trion.Simp
