/-!
# Model of `src/asm/memory/map/mod.rs` (`MemoryMap`) and `src/asm/memory/mod.rs` (`MemoryRange`) — Layer B

Import-free so that the driver executable links.

State: `Segs = List (first address × data)`, sorted by address; the Rust `MemorySegment` also stores
`range.last`, which is always `first + data.len() − 1` (`segLast`).

* `locate` is the binary search of the Rust code itself (loop with fuel, all three `Search` modes);
  `find`, `get`, `remove`, `countRange`, `iterRange` go through it exactly as the Rust methods do.
  Every index expression `self.parts[i]` / slice expression is an explicit `.panic` outcome.
* `put` and `removeRange` are written in the proof-friendly recursive form over the sorted list
  (DESIGN §2.1). The `Vec` splice/drain index arithmetic of the Rust code is mirrored statement by
  statement, with every panic site explicit, in `Model/MapOps.lean` (`putOps`, `removeRangeOps`), and
  `Lemmas/MapOps*.lean` prove that on every well-formed map the operational forms return `.ok` of exactly
  what the recursive forms compute. The observable behaviour of BOTH forms (return value, resulting
  segments) is compared with the real code after every operation of every enumerated history.
-/
namespace Trion.Map

/-- one `MemorySegment`: first address and data (`range.last = first + data.len() - 1`) -/
abbrev Seg := Nat × List UInt8
/-- `MemoryMap::parts` -/
abbrev Segs := List Seg

/-- `seg.range.last` -/
def segLast (s : Seg) : Nat := s.1 + s.2.length - 1

/-- `u32::MAX` -/
def u32Max : Nat := 4294967295

/-- `Search` -/
inductive Search where
  | exact | below | above
deriving DecidableEq, Repr, Inhabited

/-- result of `locate`: `Some(idx)`, `None`, or a panic of the loop (index out of bounds / `last - first`
underflow / no progress) -/
inductive Loc where
  | idx (i : Nat) | none | panic
deriving DecidableEq, Repr, Inhabited

/-- a value or a Rust panic -/
inductive Res (α : Type) where
  | ok (a : α) | panic
deriving DecidableEq, Repr, Inhabited

/-- `MemoryRange::new`: panics when `first > last` -/
def rangeNew (first last : Nat) : Res (Nat × Nat) :=
  if first > last then .panic else .ok (first, last)

/-- the `loop` of `MemoryMap::locate`; `fuel` bounds the number of iterations (`parts.len()` suffices) -/
def locateLoop (ps : Segs) (addr : Nat) (mode : Search) : Nat → Nat → Nat → Loc
  | 0, _, _ => .panic
  | fuel + 1, first, last =>
    if last < first then .panic else
    let mid := first + (last - first) / 2
    match ps[mid]? with
    | none => .panic
    | some seg =>
      if addr < seg.1 then
        if mid = first then
          match mode with
          | .exact => .none
          | .below => if first > 0 then .idx (first - 1) else .none
          | .above => .idx first
        else locateLoop ps addr mode fuel first (mid - 1)
      else if addr > segLast seg then
        if mid = last then
          match mode with
          | .exact => .none
          | .below => .idx last
          | .above => if last < ps.length - 1 then .idx (last + 1) else .none
        else locateLoop ps addr mode fuel (mid + 1) last
      else .idx mid

/-- `MemoryMap::locate` -/
def locate (ps : Segs) (addr : Nat) (mode : Search) : Loc :=
  if ps.isEmpty then .none else locateLoop ps addr mode ps.length 0 (ps.length - 1)

/-- `MemoryMap::find`: the range `(first, last)` of the located segment -/
def find (ps : Segs) (addr : Nat) (mode : Search) : Res (Option (Nat × Nat)) :=
  match locate ps addr mode with
  | .panic => .panic
  | .none => .ok none
  | .idx i => match ps[i]? with
    | none => .panic
    | some seg => .ok (some (seg.1, segLast seg))

/-- `MemoryMap::get`: range and `&data[(addr - first) as usize..]`; the subtraction and the slice can panic
(they do for `Below`/`Above` on gap addresses) -/
def get (ps : Segs) (addr : Nat) (mode : Search) : Res (Option ((Nat × Nat) × List UInt8)) :=
  match locate ps addr mode with
  | .panic => .panic
  | .none => .ok none
  | .idx i => match ps[i]? with
    | none => .panic
    | some seg =>
      if addr < seg.1 then .panic
      else if addr - seg.1 > seg.2.length then .panic
      else .ok (some ((seg.1, segLast seg), seg.2.drop (addr - seg.1)))

/-- `PutError` -/
inductive PutErr where
  | overflow (need have_ : Nat)
deriving DecidableEq, Repr, Inhabited

/-- The merge of `put`, recursive over the sorted segments. Pending write `[a, a+|d|)`, `d ≠ []`.
Segments strictly below and not touching are kept; the first segment strictly above and not touching ends
the walk; every segment that overlaps or touches the pending write is merged into it (its bytes outside
the pending range survive, its bytes inside are overwritten). Returns the number of overwritten
(previously occupied) addresses and the new segment list. -/
def putGo : Segs → Nat → List UInt8 → Nat × Segs
  | [], a, d => (0, [(a, d)])
  | (f, x) :: r, a, d =>
    if f + x.length < a then
      let (ov, r') := putGo r a d
      (ov, (f, x) :: r')
    else if a + d.length < f then
      (0, (a, d) :: (f, x) :: r)
    else
      let pre := x.take (a - f)
      let post := x.drop (a + d.length - f)
      let (ov, r') := putGo r (min a f) (pre ++ d ++ post)
      (x.length - pre.length - post.length + ov, r')

/-- `MemoryMap::put` (precondition `addr ≤ u32::MAX`): empty data is a no-op returning 0; data running past
0xFFFFFFFF is rejected (`data.len() - 1 > u32::MAX - addr`); otherwise the number of previously
unoccupied addresses that were filled. -/
def put (ps : Segs) (addr : Nat) (d : List UInt8) : Except PutErr Nat × Segs :=
  if d.isEmpty then (.ok 0, ps)
  else if d.length - 1 > u32Max - addr then (.error (.overflow d.length (u32Max - addr + 1)), ps)
  else
    let (ov, ps') := putGo ps addr d
    (.ok (d.length - ov), ps')

/-- `MemoryMap::remove`: removes the WHOLE segment containing `addr` and returns it -/
def remove (ps : Segs) (addr : Nat) : Res (Option ((Nat × Nat) × List UInt8)) × Segs :=
  match locate ps addr .exact with
  | .panic => (.panic, ps)
  | .none => (.ok none, ps)
  | .idx i => match ps[i]? with
    | none => (.panic, ps)
    | some seg => (.ok (some ((seg.1, segLast seg), seg.2)), ps.eraseIdx i)

/-- `MemoryMap::remove_range` for the inclusive range `lo..=hi` (`lo ≤ hi`), recursive form: of every
segment the part below `lo` and the part above `hi` survive. -/
def removeRange : Segs → Nat → Nat → Segs
  | [], _, _ => []
  | (f, x) :: r, lo, hi =>
    let pre := x.take (lo - f)
    let post := x.drop (hi + 1 - f)
    (if pre.isEmpty then [] else [(f, pre)]) ++
    (if post.isEmpty then [] else [(max f (hi + 1), post)]) ++ removeRange r lo hi

/-- `MemoryMap::clear` -/
def clear (_ : Segs) : Segs := []

/-- `MemoryMap::len` -/
def len (ps : Segs) : Nat := ps.length

/-- the summation loop of `count`: `addrs += seg.range.last - seg.range.first` on a `u32` (overflow panics
under overflow-checks) -/
def countGo : Segs → Nat → Res Nat
  | [], acc => .ok acc
  | s :: r, acc =>
    let acc' := acc + (segLast s - s.1)
    if acc' > u32Max then .panic else countGo r acc'

/-- `MemoryMap::count`: `(addrs.saturating_add(parts.len() as u32), parts.len())` -/
def count (ps : Segs) : Res (Nat × Nat) :=
  match countGo ps 0 with
  | .panic => .panic
  | .ok s => .ok (min (s + ps.length % 4294967296) u32Max, ps.length)

/-- index of the first segment touched by a range starting at `lo`: `locate(lo, Above)` or `parts.len()` -/
def firstIdx (ps : Segs) (lo : Nat) : Res Nat :=
  match locate ps lo .above with
  | .panic => .panic
  | .none => .ok ps.length
  | .idx i => .ok i

/-- loop body of `count_range` over `parts[first..].filter(|seg| seg.first <= range.last)`;
`debug_assert!(seg.range.last >= range.first)` and the `u32` arithmetic are panic sites -/
def countRangeGo (lo hi : Nat) : Segs → Nat → Nat → Res (Nat × Nat)
  | [], addrs, cnt => .ok (addrs, cnt)
  | s :: r, addrs, cnt =>
    if s.1 ≤ hi then
      if segLast s < lo then .panic else
      let minA := max s.1 lo
      let maxA := min (segLast s) hi
      if maxA < minA then .panic else
      let addrs' := addrs + (maxA - minA)
      if addrs' > u32Max then .panic else countRangeGo lo hi r addrs' (cnt + 1)
    else countRangeGo lo hi r addrs cnt

/-- `MemoryMap::count_range` for `lo..=hi` -/
def countRange (ps : Segs) (lo hi : Nat) : Res (Nat × Nat) :=
  match firstIdx ps lo with
  | .panic => .panic
  | .ok i =>
    if i > ps.length then .panic else
    match countRangeGo lo hi (ps.drop i) 0 0 with
    | .panic => .panic
    | .ok (addrs, cnt) => .ok (min (addrs + cnt % 4294967296) u32Max, cnt)

/-- `RangeIter::next` repeated until it returns `None`: stops at the first segment starting above `hi`;
the slice `&seg.data[start_off..seg.data.len() - end_off]` is a panic site -/
def iterRangeGo (lo hi : Nat) : Segs → Res (List ((Nat × Nat) × List UInt8))
  | [] => .ok []
  | s :: r =>
    if s.1 ≤ hi then
      let startOff := if lo ≤ s.1 then 0 else lo - s.1
      let firstA := if lo ≤ s.1 then s.1 else lo
      let endOff := if hi ≥ segLast s then 0 else segLast s - hi
      let lastA := if hi ≥ segLast s then segLast s else hi
      if endOff > s.2.length then .panic
      else if startOff > s.2.length - endOff then .panic
      else match iterRangeGo lo hi r with
        | .panic => .panic
        | .ok rest => .ok (((firstA, lastA), (s.2.take (s.2.length - endOff)).drop startOff) :: rest)
    else .ok []

/-- `MemoryMap::iter_range(lo..=hi)` collected -/
def iterRange (ps : Segs) (lo hi : Nat) : Res (List ((Nat × Nat) × List UInt8)) :=
  match firstIdx ps lo with
  | .panic => .panic
  | .ok i => iterRangeGo lo hi (ps.drop i)

/-- `MemoryMap::iter()` collected: every segment with its range -/
def iter (ps : Segs) : List ((Nat × Nat) × List UInt8) := ps.map fun s => ((s.1, segLast s), s.2)

/-! ## Operation histories -/

/-- the state-changing operations of `MemoryMap` -/
inductive Op where
  | put (addr : Nat) (d : List UInt8)
  | remove (addr : Nat)
  | removeRange (lo hi : Nat)
  | clear
deriving DecidableEq, Repr, Inhabited

/-- arguments are `u32` values, ranges are valid `MemoryRange`s -/
def Op.wf : Op → Prop
  | .put a _ => a ≤ u32Max
  | .remove a => a ≤ u32Max
  | .removeRange lo hi => lo ≤ hi ∧ hi ≤ u32Max
  | .clear => True

/-- state after one operation -/
def step (ps : Segs) : Op → Segs
  | .put a d => (put ps a d).2
  | .remove a => (remove ps a).2
  | .removeRange lo hi => removeRange ps lo hi
  | .clear => clear ps

/-- `MemoryMap::new()` followed by the operations -/
def run (ops : List Op) : Segs := ops.foldl step []

end Trion.Map
