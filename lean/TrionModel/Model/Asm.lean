import TrionModel.Model.Lex
import TrionModel.Model.Parse
import TrionModel.Model.Simp
import TrionModel.Model.SimpE
import TrionModel.Model.Front
import TrionModel.Model.Seg
import TrionModel.Model.Codec
/-!
# The whole `Context` pipeline of a project (Layer B, imports only the other models)

Mirrors, branch by branch,

* `src/asm/mod.rs`: `Context::{assemble, do_assemble, finalize, change_segment, close_segment, get_constant,
  insert_constant, defer_constant, add_task, push_error, push_error_in}`, the `PathFrame` swaps of
  `locals`/`globals` and `local_tasks`/`global_tasks`, `ErrorLevel::{should_abort, max}`, the local task loop
  of `assemble` and the global task loop of `finalize`;
* `src/asm/directive/mod.rs` (`DirectiveList::process`), `addr.rs`, `align.rs`, `constant.rs`, `data.rs`
  (`DataExpr::{apply, write_data, schedule}`, the writers of `.du8/.du16/.du32`, `.dhex`, `.dstr`, `.dfile`),
  `global.rs` (`.global/.import/.export` and the closure `.global` schedules), `include.rs`;
* `src/arm6m/mod.rs`: `Arm6M::assemble`, `ArmInstr::{write_instr, schedule}`;
* `src/bin/assembler.rs` as far as it drives the context: `assemble`, `close_segment`, `finalize`.

Composition. Text → tokens is `Lex.tokens`, tokens → statements `Parse.all`, expression evaluation
`Simp.evaluateE` (= `evaluate` plus the tree it leaves behind on every outcome), operand conversion `Front.assemble`, bytes of an
instruction `Codec.encodeInto 4` (through the parameter `enc`, see `encoder`), the output regions `Seg`
(`Seg.State`, `Seg.closeSegment`, `Seg.step` with `select/append/place/rewrite`; `.align` is an `append` of the
padding computed from the unsaturated cursor, as the code is after fix 9bfedb8) on top of `Map`.
The constant tables are association lists (`Table`).

Abstractions (each is the removal of something no code path can observe):
* `path_stack` and `curr_name` are *private* fields of `Context` that only `assemble` / `PathFrame` change; they
  are the reader parameter `Env`, so the `assert_eq!(path_stack.len(), count)` of `into_inner` compares two
  syntactically equal numbers (still written out in `assembleFile`).
* closures handed to `add_task` are data (`Task`); `Arcob`/`Arc`/`into_owned` are identity.
* the file system is `fs : path → Option bytes`; a path is its byte string, `PathBuf::{pop, push}` are modelled
  for paths without `.` components; `.dfile`'s 1024-byte chunk loop after the `has_remaining(len)` check is one
  append; `metadata`/`read` failures of an opened file are outside the model (`IncludeError::FileRead`).
* `evaluate` works on `&mut Argument`; after `Err(BadType | Overflow)` a `.du*` / instruction statement keeps the
  partly evaluated tree and re-evaluates it in its task: `Simp.evaluateE` (Model/SimpE.lean) returns the tree as
  every outcome leaves it, following the order of the in-place mutations.
* include depth is bounded by `fuel` (cyclic includes, known finding K2, end in `Result.fuel`); the two task
  loops carry a round counter whose exhaustion is the separate outcome `.loop` (never produced: after one
  round no local task is left).

Every logic-level panic site is an explicit `.panic`:
 `get_constant/insert_constant/defer_constant/add_task` "no local scope"; `local_tasks.replace(..).unwrap()`,
 `local_tasks.as_mut().unwrap()`; `NonZeroUsize::try_from(len).unwrap()`; `into_inner`'s `count.unwrap()`,
 `assert_eq!`, `pop().unwrap()`, `name.take().unwrap()`; `ctx.active().unwrap()` (`Arm6M::assemble`, `.align`,
 `.dfile`); `curr_file_path().unwrap()` (`.dfile`); `args.value.pop().unwrap()` (`.du*`);
 `defer_constant(..).unwrap()`, `assert!(!insert_constant(..).unwrap())` and the three `unreachable!("{e:?}")`
 of `global.rs`; the `assert_eq!(n, ..)` on put counts, `remaining()` underflow, `write_at`'s assert and the
 map's index panics (inside `Seg`); the evaluator's and front end's panics (inside `Simp`, `Front`); the
 tokenizer's and parser's (inside `Lex`, `Parse`).
-/
namespace Trion.Asm
open Trion

/-! ## small types -/

/-- `ErrorLevel` -/
inductive Level where
  | trivial | fatal
deriving DecidableEq, Repr, Inhabited

/-- `ErrorLevel::should_abort` -/
def Level.shouldAbort : Level → Bool
  | .fatal => true
  | .trivial => false

/-- `Ord::max` -/
def Level.max : Level → Level → Level
  | .fatal, _ => .fatal
  | _, .fatal => .fatal
  | _, _ => .trivial

/-- `Result<(), ErrorLevel>` -/
inductive Res where
  | ok
  | err (l : Level)
deriving DecidableEq, Repr, Inhabited

/-- `result = match result {Ok(()) => Err(lvl), Err(old) => Err(old.max(lvl))}` -/
def Res.join : Res → Level → Res
  | .ok, l => .err l
  | .err o, l => .err (o.max l)

/-- `result.is_err_and(ErrorLevel::should_abort)` -/
def Res.aborts : Res → Bool
  | .err l => l.shouldAbort
  | .ok => false

/-- `Realm` -/
inductive Realm where
  | global | loc
deriving DecidableEq, Repr, Inhabited

/-- why a model function did not return: a Rust panic; include fuel exhausted (K2); task-loop rounds exhausted
(never) -/
inductive Stop where
  | panic | fuel | loop
deriving DecidableEq, Repr, Inhabited

/-- outcome of a model function -/
inductive Out (α : Type) where
  | ok (a : α)
  | stop (s : Stop)
deriving Repr, Inhabited

/-! ## diagnostics -/

/-- `EncodeError` -/
inductive EncFail where
  | unrepresentable | overflow
deriving DecidableEq, Repr, Inhabited

/-- `Instruction::encode(&mut [0u8; 4])`: the bytes -/
abbrev Encoder := Instr → Except EncFail Bytes

/-- `EvalError` -/
inductive EvalE where
  | noSuch (name : Bytes)
  | badType (kind op : ArgTy)
  | overflow (k : Simp.OvKind)
deriving DecidableEq, Repr, Inhabited

/-- the boxed `source` of `DirectiveErrorKind::Apply` / `InstrErrorKind::Assemble`, and `ConstantError` -/
inductive Inner where
  | constReserved (name : Bytes)
  | constNotFound (name : Bytes) (r : Realm)
  | constDuplicate (name : Bytes) (r : Realm)
  | constRange (min max have_ : Int)
  | constAlignment (align : Nat) (have_ : Int)
  | eval (e : EvalE)
  | addrRange (v : Int)
  | addrSegment (e : Seg.Diag)
  | alignInactive
  | alignRange (v : Int)
  | alignWrite (e : Seg.Diag)
  | constDirDuplicate (name : Bytes)
  | dataInactive
  | dataRange (min max have_ : Int)
  | dataHexChar (pos : Nat) (c : Nat)
  | dataHexEof
  | dataFile
  | dataWrite (e : Seg.Diag)
  | globalNotFound (name : Bytes) (r : Realm)
  | globalDeferred (name : Bytes) (r : Realm)
  | globalDuplicate (name : Bytes) (r : Realm)
  | includeNoSuchFile (path : Bytes)
  | includeFailed (path : Bytes)
  | asmValueRange (idx : Nat)
  | asmNoSuchRegister (idx : Nat) (what : Bytes)
  | asmEncode (e : EncFail)
  | asmWrite (e : Seg.Diag)
deriving Repr, Inhabited

/-- `AsmErrorKind`, `ConstantError` (label), `DirectiveErrorKind`, `InstrErrorKind` -/
inductive Kind where
  | parse (e : ParseErrKind)
  | inactive
  | label (e : Inner)
  | dirNotFound (name : Bytes)
  | dirTooMany (dir : String) (max have_ : Nat)
  | dirNotEnough (dir : String) (need have_ : Nat)
  | dirArgType (dir : String) (idx : Nat) (expect : ArgTy) (have_ : ArgTy)
  | dirApply (dir : String) (src : Inner)
  | instrNotFound (name : Bytes)
  | instrTooMany (max have_ : Nat)
  | instrNotEnough (need have_ : Nat)
  | instrArgType (idx : Nat) (expect : List ArgTy) (have_ : ArgTy)
  | instrAssemble (src : Inner)
deriving Repr, Inhabited

/-- `PosNamed<dyn Error>` -/
structure Diag where
  file : Bytes
  line : Nat
  col : Nat
  kind : Kind
deriving Repr, Inhabited

/-! ## constant tables -/

/-- `HashMap<String, Option<i64>>` -/
abbrev Table := List (Bytes × Option Int)

/-- `HashMap::get` -/
def Table.find : Table → Bytes → Option (Option Int)
  | [], _ => none
  | (k, v) :: t, n => if k = n then some v else Table.find t n

/-- `HashMap::insert` (also the in-place `*dst = …`) -/
def Table.set : Table → Bytes → Option Int → Table
  | [], n, v => [(n, v)]
  | (k, w) :: t, n, v => if k = n then (k, v) :: t else (k, w) :: Table.set t n v

/-- the `Lookup` of `get_constant` -/
def Table.get (t : Table) (n : Bytes) : Simp.Lookup :=
  match t.find n with
  | none => .notFound
  | some none => .deferred
  | some (some v) => .found v

/-! ## statements that may be retried, tasks, context -/

/-- `.du8` / `.du16` / `.du32` -/
inductive DU where
  | u8 | u16 | u32
deriving DecidableEq, Repr, Inhabited

def DU.name : DU → String
  | .u8 => "du8" | .u16 => "du16" | .u32 => "du32"

def DU.size : DU → Nat
  | .u8 => 1 | .u16 => 2 | .u32 => 4

/-- `<$type>::MAX` -/
def DU.max : DU → Int
  | .u8 => 255 | .u16 => 65535 | .u32 => 4294967295

/-- `DataExpr` (`dir_name`/`writer` are determined by `du`) -/
structure DataExpr where
  du : DU
  file : Bytes
  line : Nat
  col : Nat
  addr : Nat
  arg : Arg
  placed : Bool
deriving Repr, Inhabited

/-- `ArmInstr` (`addr`, `instr`, `args_done`, `args` are `Front.St`) -/
structure ArmInstr where
  file : Bytes
  line : Nat
  col : Nat
  st : Front.St
  placed : Bool
deriving Repr, Inhabited

/-- the closures handed to `add_task` -/
inductive Task where
  /-- `DataExpr::schedule(global)` -/
  | data (d : DataExpr) (global : Bool)
  /-- `ArmInstr::schedule(global)` -/
  | instr (i : ArmInstr) (global : Bool)
  /-- the closure of `.global` -/
  | globalCopy (name : Bytes) (line col : Nat)
deriving Repr, Inhabited

/-- the private fields `path_stack` (innermost first) and `curr_name`, changed only by `assemble`/`PathFrame` -/
structure Env where
  paths : List Bytes
  curName : Bytes
deriving Repr, Inhabited

/-- the other fields of `Context` (`errors` newest first) -/
structure St where
  seg : Seg.State
  globals : Table
  locals : Option Table
  globalTasks : List Task
  localTasks : Option (List Task)
  errors : List Diag
deriving Repr, Inhabited

/-- `Context::new` -/
def St.init : St :=
  { seg := Seg.init, globals := [], locals := none, globalTasks := [], localTasks := none, errors := [] }

def Env.init : Env := { paths := [], curName := bytesOf "<unknown>" }

/-- `push_error_in` -/
def St.pushIn (st : St) (file : Bytes) (line col : Nat) (k : Kind) : St :=
  { st with errors := ⟨file, line, col, k⟩ :: st.errors }

/-- `push_error`: named after the current file -/
def St.push (st : St) (env : Env) (line col : Nat) (k : Kind) : St := st.pushIn env.curName line col k

/-- `has_errored` -/
def St.hasErrored (st : St) : Bool := !st.errors.isEmpty

/-- `Context::get_constant` -/
def getConstant (st : St) (n : Bytes) : Realm → Out Simp.Lookup
  | .global => .ok (st.globals.get n)
  | .loc =>
    match st.locals with
    | none => .stop .panic
    | some l => .ok (l.get n)

/-- `ConstantError` as far as the table functions produce it -/
inductive CErr where
  | reserved
  | duplicate (r : Realm)
deriving DecidableEq, Repr, Inhabited

def CErr.inner (n : Bytes) : CErr → Inner
  | .reserved => .constReserved n
  | .duplicate r => .constDuplicate n r

/-- `Context::insert_constant` -/
def insertConstant (st : St) (n : Bytes) (v : Int) (r : Realm) : Out (St × Except CErr Bool) :=
  if Front.isRegister n then .ok (st, .error .reserved) else
  match r with
  | .global =>
    match st.globals.find n with
    | none => .ok ({ st with globals := st.globals.set n (some v) }, .ok true)
    | some none => .ok ({ st with globals := st.globals.set n (some v) }, .ok false)
    | some (some _) => .ok (st, .error (.duplicate .global))
  | .loc =>
    match st.locals with
    | none => .stop .panic
    | some l =>
      match l.find n with
      | none => .ok ({ st with locals := some (l.set n (some v)) }, .ok true)
      | some none => .ok ({ st with locals := some (l.set n (some v)) }, .ok false)
      | some (some _) => .ok (st, .error (.duplicate .loc))

/-- `Context::defer_constant` -/
def deferConstant (st : St) (n : Bytes) (r : Realm) : Out (St × Except CErr Unit) :=
  if Front.isRegister n then .ok (st, .error .reserved) else
  match r with
  | .global =>
    match st.globals.find n with
    | some _ => .ok (st, .error (.duplicate .global))
    | none => .ok ({ st with globals := st.globals.set n none }, .ok ())
  | .loc =>
    match st.locals with
    | none => .stop .panic
    | some l =>
      match l.find n with
      | some _ => .ok (st, .error (.duplicate .loc))
      | none => .ok ({ st with locals := some (l.set n none) }, .ok ())

/-- `Context::add_task` -/
def addTask (st : St) (t : Task) : Realm → Out St
  | .global => .ok { st with globalTasks := st.globalTasks ++ [t] }
  | .loc =>
    match st.localTasks with
    | none => .stop .panic
    | some l => .ok { st with localTasks := some (l ++ [t]) }

/-! ## evaluation -/

/-- what `evaluate(&mut arg, ctx)` did, with the tree it left -/
inductive Ev where
  | complete (a : Arg)
  | deferred (cause : Bytes) (a : Arg)
  | noSuch (name : Bytes) (a : Arg)
  | err (e : EvalE) (a : Arg)
deriving Repr, Inhabited

def evalE : Simp.SimpErr → EvalE
  | .badType k o => .badType k o
  | .overflow k => .overflow k

/-- the table `evaluate` reads: `realm = if ctx.has_curr_file() {Local} else {Global}`. (The model asks
for the table before walking the tree; the code asks at each identifier.) -/
def evalTable (env : Env) (st : St) : Out Table :=
  if env.paths.isEmpty then .ok st.globals
  else match st.locals with
    | none => .stop .panic
    | some l => .ok l

/-- `evaluate(&mut a, ctx)` -/
def evalIn (t : Table) (a : Arg) : Out Ev :=
  match Simp.evaluateE (fun n => t.get n) Front.isRegister a with
  | .ok ev a' =>
    match ev.cause with
    | none => .ok (.complete a')
    | some c => .ok (.deferred c a')
  | .nosuch n a' => .ok (.noSuch n a')
  | .err e a' => .ok (.err (evalE e) a')
  | .panic => .stop .panic

def evalArg (env : Env) (st : St) (a : Arg) : Out Ev :=
  match evalTable env st with
  | .ok t => evalIn t a
  | .stop r => .stop r

def ovName : Simp.OvKind → String
  | .add => "add" | .negate => "negate" | .sub => "sub" | .mul => "mul" | .divZero => "divZero" | .div => "div"
  | .modZero => "modZero" | .mod => "mod" | .shl => "shl" | .shr => "shr"

def ovOfName : String → Simp.OvKind
  | "add" => .add | "negate" => .negate | "sub" => .sub | "mul" => .mul | "divZero" => .divZero | "div" => .div
  | "modZero" => .modZero | "mod" => .mod | "shl" => .shl | _ => .shr

/-- the evaluator handed to `Front.assemble` (its `EvalErr.overflow` carries the rendered error; we pass the
name of the overflow kind); a panic of the evaluator is tested separately (`evalPanics`) -/
def frontEval (t : Table) (a : Arg) : Front.EvalOut :=
  match evalIn t a with
  | .ok (.complete a') => .complete a'
  | .ok (.deferred c a') => .deferred c a'
  | .ok (.noSuch n a') => .noSuchVariable n a'
  | .ok (.err (.badType k o) a') => .error (.badType k o) a'
  | .ok (.err (.overflow k) a') => .error (.overflow (ovName k)) a'
  | .ok (.err (.noSuch n) a') => .noSuchVariable n a'
  | _ => .error (.overflow "panic") a

def evalPanics (t : Table) (as : List Arg) : Bool :=
  as.any fun a => match evalIn t a with | .ok _ => false | _ => true

/-! ## regions -/

/-- `ActiveSegment::curr_addr` of the active region -/
def currAddr (st : St) : Option Nat := st.seg.active.map Seg.Active.cur

/-- one operation of the region machine; a panic of `Seg.step` is a panic of the pipeline -/
def segStep (s : Seg.State) (op : Seg.Op) : Out (Seg.State × Seg.Out) :=
  match Seg.step s op with
  | (_, .panic) => .stop .panic
  | (s', o) => .ok (s', o)

/-- the target choice shared by `write_data` and `write_instr` for a statement at `addr`:
not placed and a region is active → `write` (append at the cursor); otherwise the choice between `write_at`
and the output map (`Seg.rewrite`). Returns the new regions, `placed`, and the `SegmentError` if any. -/
def writeStmt (s : Seg.State) (placed : Bool) (addr : Nat) (d : Bytes) : Out (Seg.State × Bool × Option Seg.Diag) :=
  if !placed && s.active.isSome then
    match segStep s (.place d) with
    | .ok (s', .diag e) => .ok (s', false, some e)
    | .ok (s', _) => .ok (s', true, none)
    | .stop r => .stop r
  else
    match segStep s (.rewrite addr d) with
    | .ok (s', .diag e) => .ok (s', placed, some e)
    | .ok (s', _) => .ok (s', placed, none)
    | .stop r => .stop r

/-! ## `.du8` / `.du16` / `.du32` -/

def leBytes : Nat → Nat → Bytes
  | 0, _ => []
  | n+1, v => (v % 256).toUInt8 :: leBytes n (v / 256)

def DataExpr.kindApply (d : DataExpr) (src : Inner) : Kind := .dirApply d.du.name src

/-- `DataExpr::write_data` -/
def DataExpr.writeData (d : DataExpr) (st : St) (bytes : Bytes) : Out (DataExpr × St × Res) :=
  match writeStmt st.seg d.placed d.addr bytes with
  | .ok (s', placed', none) => .ok ({ d with placed := placed' }, { st with seg := s' }, .ok)
  | .ok (s', placed', some e) =>
    .ok ({ d with placed := placed' }, ({ st with seg := s' }).pushIn d.file d.line d.col (d.kindApply (.dataWrite e)), .err .fatal)
  | .stop r => .stop r

/-- the `writer` closure of `generate_expr!` -/
def DataExpr.writer (d : DataExpr) (st : St) : Out (DataExpr × St × Res) :=
  match d.arg with
  | .const v =>
    if 0 ≤ v ∧ v ≤ d.du.max then d.writeData st (leBytes d.du.size v.toNat)
    else .ok (d, st.pushIn d.file d.line d.col (d.kindApply (.dataRange 0 d.du.max v)), .err .trivial)
  | a => .ok (d, st.pushIn d.file d.line d.col (.dirArgType d.du.name 0 .const a.ty), .err .trivial)

/-- `DataOp` / the result of `DataExpr::apply` -/
inductive Op where
  | completed
  | deferred (cause : Bytes)
  | err (l : Level)
deriving Repr, Inhabited

/-- `DataExpr::apply(ctx, local)` -/
def DataExpr.apply (d : DataExpr) (env : Env) (st : St) (loc : Bool) : Out (DataExpr × St × Op) :=
  match evalArg env st d.arg with
  | .ok (.complete a) =>
    match ({ d with arg := a } : DataExpr).writer st with
    | .ok (d', st', .ok) => .ok (d', st', .completed)
    | .ok (d', st', .err l) => .ok (d', st', .err l)
    | .stop r => .stop r
  | .ok (.deferred c a) => .ok ({ d with arg := a }, st, .deferred c)
  | .ok (.noSuch n a) =>
    if loc then .ok ({ d with arg := a }, st, .deferred n)
    else .ok ({ d with arg := a }, st.pushIn d.file d.line d.col (d.kindApply (.eval (.noSuch n))), .err .trivial)
  | .ok (.err e a) => .ok ({ d with arg := a }, st.pushIn d.file d.line d.col (d.kindApply (.eval e)), .err .trivial)
  | .stop r => .stop r

/-- `DataExpr::schedule(global)` -/
def DataExpr.schedule (d : DataExpr) (st : St) (global : Bool) : Out St :=
  addTask st (.data d global) (if global then .global else .loc)

/-- the arity check every directive starts with -/
def arity (dir : String) (need n : Nat) : Option Kind :=
  if n = need then none
  else if n < need then some (.dirNotEnough dir need n)
  else some (.dirTooMany dir need n)

/-- `apply` of `generate_expr!` -/
def duDirective (du : DU) (env : Env) (st : St) (line col : Nat) (args : List Arg) : Out (St × Res) :=
  match currAddr st with
  | none => .ok (st.push env line col (.dirApply du.name .dataInactive), .err .fatal)
  | some addr =>
    match arity du.name 1 args.length with
    | some k => .ok (st.push env line col k, .err .trivial)
    | none =>
      match args with
      | [a] =>
        let d : DataExpr := ⟨du, env.curName, line, col, addr, a, false⟩
        match d.apply env st true with
        | .ok (_, st', .completed) => .ok (st', .ok)
        | .ok (d', st', _) =>
          match d'.writeData st' (List.replicate du.size 0xBE) with
          | .ok (d'', st'', .ok) =>
            match d''.schedule st'' false with
            | .ok st3 => .ok (st3, .ok)
            | .stop r => .stop r
          | .ok (_, st'', .err l) => .ok (st'', .err l)
          | .stop r => .stop r
        | .stop r => .stop r
      | _ => .stop .panic          -- `args.value.pop().unwrap()`

/-- the closure of `DataExpr::schedule` -/
def runDataTask (d : DataExpr) (global : Bool) (env : Env) (st : St) : Out (St × Res) :=
  match d.apply env st false with
  | .ok (_, st', .completed) => .ok (st', .ok)
  | .ok (d', st', .deferred cause) =>
    if global then
      .ok (st'.pushIn d'.file d'.line d'.col (d'.kindApply (.constNotFound cause .global)), .err .trivial)
    else
      match d'.schedule st' true with
      | .ok st'' => .ok (st'', .ok)
      | .stop r => .stop r
  | .ok (_, st', .err l) => .ok (st', .err l)
  | .stop r => .stop r

/-! ## instructions -/

def frontKind : Front.Diag → Kind
  | .tooMany m h => .instrTooMany m h
  | .notEnough n h => .instrNotEnough n h
  | .argType i e h => .instrArgType i e h
  | .valueRange i => .instrAssemble (.asmValueRange i)
  | .noSuchRegister i w => .instrAssemble (.asmNoSuchRegister i w)
  | .range mi ma h => .instrAssemble (.constRange mi ma h)
  | .alignment a h => .instrAssemble (.constAlignment a h)
  | .noSuchVariable n => .instrAssemble (.eval (.noSuch n))
  | .evalErr (.badType k o) => .instrAssemble (.eval (.badType k o))
  | .evalErr (.overflow w) => .instrAssemble (.eval (.overflow (ovOfName w)))

/-- `ArmInstr::assemble(ctx, local)`: the diagnostic is pushed inside -/
def ArmInstr.assemble (i : ArmInstr) (env : Env) (st : St) (loc : Bool) : Out (ArmInstr × St × Op) :=
  match evalTable env st with
  | .ok t =>
    if evalPanics t i.st.args then .stop .panic else
    match Front.assemble i.st (frontEval t) loc with
    | (fs, .completed) => .ok ({ i with st := fs }, st, .completed)
    | (fs, .deferred c) => .ok ({ i with st := fs }, st, .deferred c)
    | (fs, .error d) =>
      let k := frontKind d
      .ok ({ i with st := fs }, st.pushIn i.file i.line i.col k, .err .trivial)
    | (_, .panic) => .stop .panic
  | .stop r => .stop r

/-- `ArmInstr::write_instr(ctx, deferred)` -/
def ArmInstr.writeInstr (enc : Encoder) (i : ArmInstr) (st : St) (deferred : Bool) : Out (ArmInstr × St × Res) :=
  match enc i.st.instr with
  | .error e => .ok (i, st.pushIn i.file i.line i.col (.instrAssemble (.asmEncode e)), .err .fatal)
  | .ok bytes =>
    let bytes := if deferred then List.replicate bytes.length 0xBE else bytes
    match writeStmt st.seg i.placed i.st.addr bytes with
    | .ok (s', placed', none) => .ok ({ i with placed := placed' }, { st with seg := s' }, .ok)
    | .ok (s', placed', some e) =>
      .ok ({ i with placed := placed' }, ({ st with seg := s' }).pushIn i.file i.line i.col (.instrAssemble (.asmWrite e)), .err .fatal)
    | .stop r => .stop r

/-- `ArmInstr::schedule(global)` -/
def ArmInstr.schedule (i : ArmInstr) (st : St) (global : Bool) : Out St :=
  addTask st (.instr i global) (if global then .global else .loc)

/-- `Arm6M::assemble` -/
def instruction (enc : Encoder) (env : Env) (st : St) (line col : Nat) (name : Bytes) (args : List Arg) : Out (St × Res) :=
  match currAddr st with
  | none => .stop .panic                      -- `ctx.active().unwrap()`
  | some addr =>
    match Front.mnemonic name with
    | none => .ok (st.push env line col (.instrNotFound (Front.foldName name)), .err .fatal)
    | some t =>
      let i : ArmInstr := ⟨env.curName, line, col, ⟨addr, t, 0, args⟩, false⟩
      match i.assemble env st true with
      | .ok (i', st', .completed) =>
        match i'.writeInstr enc st' false with
        | .ok (_, st'', r) => .ok (st'', r)
        | .stop r => .stop r
      | .ok (i', st', _) =>
        match i'.writeInstr enc st' true with
        | .ok (i'', st'', .ok) =>
          match i''.schedule st'' false with
          | .ok st3 => .ok (st3, .ok)
          | .stop r => .stop r
        | .ok (_, st'', .err l) => .ok (st'', .err l)
        | .stop r => .stop r
      | .stop r => .stop r

/-- the closure of `ArmInstr::schedule` -/
def runInstrTask (enc : Encoder) (i : ArmInstr) (global : Bool) (env : Env) (st : St) : Out (St × Res) :=
  match i.assemble env st false with
  | .ok (i', st', .completed) =>
    match i'.writeInstr enc st' false with
    | .ok (_, st'', r) => .ok (st'', r)
    | .stop r => .stop r
  | .ok (i', st', .deferred cause) =>
    if global then
      .ok (st'.pushIn i'.file i'.line i'.col (.instrAssemble (.constNotFound cause .global)), .err .trivial)
    else
      match i'.schedule st' true with
      | .ok st'' => .ok (st'', .ok)
      | .stop r => .stop r
  | .ok (_, st', .err l) => .ok (st', .err l)
  | .stop r => .stop r

/-! ## `.global` / `.import` / `.export` -/

/-- the closure scheduled by `.global` -/
def runGlobalCopy (name : Bytes) (line col : Nat) (env : Env) (st : St) : Out (St × Res) :=
  match getConstant st name .loc with
  | .ok .notFound => .ok (st.push env line col (.dirApply "global" (.globalNotFound name .loc)), .err .trivial)
  | .ok .deferred => .ok (st.push env line col (.dirApply "global" (.globalDeferred name .loc)), .err .trivial)
  | .ok (.found v) =>
    match insertConstant st name v .global with
    | .ok (st', .ok _) => .ok (st', .ok)
    | .ok (st', .error (.duplicate r)) =>
      .ok (st'.push env line col (.dirApply "global" (.globalDuplicate name r)), .err .trivial)
    | .ok (_, .error .reserved) => .stop .panic            -- `unreachable!("{e:?}")`
    | .stop r => .stop r
  | .stop r => .stop r

inductive GDir where
  | global | import_ | export_
deriving DecidableEq, Repr, Inhabited

def GDir.name : GDir → String
  | .global => "global" | .import_ => "import" | .export_ => "export"

/-- `Global::apply` -/
def globalDirective (g : GDir) (env : Env) (st : St) (line col : Nat) (args : List Arg) : Out (St × Res) :=
  match arity g.name 1 args.length with
  | some k => .ok (st.push env line col k, .err .trivial)
  | none =>
    match args with
    | [.ident name] =>
      match g with
      | .global =>
        match deferConstant st name .global with
        | .ok (st1, .ok ()) =>
          match getConstant st1 name .loc with
          | .ok (.found v) =>
            match insertConstant st1 name v .global with
            | .ok (st2, .ok false) => .ok (st2, .ok)
            | .ok (_, _) => .stop .panic                   -- `assert!(!ctx.insert_constant(..).unwrap())`
            | .stop r => .stop r
          | .ok lk =>
            let deferred : Out St :=
              match lk with
              | .notFound =>
                match deferConstant st1 name .loc with
                | .ok (st2, .ok ()) => .ok st2
                | .ok (_, .error _) => .stop .panic        -- `.unwrap()`
                | .stop r => .stop r
              | _ => .ok st1
            match deferred with
            | .ok st2 =>
              match addTask st2 (.globalCopy name line col) .loc with
              | .ok st3 => .ok (st3, .ok)
              | .stop r => .stop r
            | .stop r => .stop r
          | .stop r => .stop r
        | .ok (st1, .error (.duplicate r)) =>
          .ok (st1.push env line col (.dirApply g.name (.globalDuplicate name r)), .err .fatal)
        | .ok (st1, .error .reserved) =>
          .ok (st1.push env line col (.dirApply g.name (.constReserved name)), .err .fatal)
        | .stop r => .stop r
      | _ =>
        let src : Realm := if g = .export_ then .loc else .global
        let dst : Realm := if g = .export_ then .global else .loc
        match getConstant st name src with
        | .ok .notFound => .ok (st.push env line col (.dirApply g.name (.globalNotFound name src)), .err .fatal)
        | .ok .deferred =>
          if g = .import_ then
            match deferConstant st name dst with
            | .ok (st1, .ok ()) => .ok (st1, .ok)
            | .ok (st1, .error (.duplicate r)) =>
              .ok (st1.push env line col (.dirApply g.name (.globalDuplicate name r)), .err .fatal)
            | .ok (_, .error .reserved) => .stop .panic    -- `unreachable!("{e:?}")`
            | .stop r => .stop r
          else .ok (st.push env line col (.dirApply g.name (.globalDeferred name src)), .err .fatal)
        | .ok (.found v) =>
          match insertConstant st name v dst with
          | .ok (st1, .ok _) => .ok (st1, .ok)
          | .ok (st1, .error (.duplicate r)) =>
            .ok (st1.push env line col (.dirApply g.name (.globalDuplicate name r)), .err .fatal)
          | .ok (_, .error .reserved) => .stop .panic      -- `unreachable!("{e:?}")`
          | .stop r => .stop r
        | .stop r => .stop r
    | [a] => .ok (st.push env line col (.dirArgType g.name 0 .str a.ty), .err .trivial)
    | _ => .stop .panic                                     -- `args.value[0]` after the arity check

/-! ## `.addr`, `.align`, `.const` -/

/-- the `match evaluate(..)` prologue of `.addr/.align/.const`: `Ok(Complete)` continues with the tree -/
def evalStrict (dir : String) (env : Env) (st : St) (line col : Nat) (a : Arg) : Out (Except (St × Res) Arg) :=
  match evalArg env st a with
  | .ok (.complete a') => .ok (.ok a')
  | .ok (.deferred c _) =>
    .ok (.error (st.push env line col (.dirApply dir (.constNotFound c .loc)), .err .fatal))
  | .ok (.noSuch n _) => .ok (.error (st.push env line col (.dirApply dir (.eval (.noSuch n))), .err .fatal))
  | .ok (.err e _) => .ok (.error (st.push env line col (.dirApply dir (.eval e)), .err .fatal))
  | .stop r => .stop r

/-- `Addr::apply` -/
def addrDirective (env : Env) (st : St) (line col : Nat) (args : List Arg) : Out (St × Res) :=
  match arity "addr" 1 args.length with
  | some k => .ok (st.push env line col k, .err .trivial)
  | none =>
    match args with
    | [a] =>
      match evalStrict "addr" env st line col a with
      | .ok (.error r) => .ok r
      | .ok (.ok (.const v)) =>
        if 0 ≤ v ∧ v ≤ 4294967295 then
          match segStep st.seg (.select v.toNat) with       -- `change_segment`
          | .ok (s', .diag e) => .ok (({ st with seg := s' }).push env line col (.dirApply "addr" (.addrSegment e)), .err .fatal)
          | .ok (s', _) => .ok ({ st with seg := s' }, .ok)
          | .stop r => .stop r
        else .ok (st.push env line col (.dirApply "addr" (.addrRange v)), .err .fatal)
      | .ok (.ok a') => .ok (st.push env line col (.dirArgType "addr" 0 .const a'.ty), .err .trivial)
      | .stop r => .stop r
    | _ => .stop .panic

/-- `Align::apply` -/
def alignDirective (env : Env) (st : St) (line col : Nat) (args : List Arg) : Out (St × Res) :=
  if st.seg.active.isNone then .ok (st.push env line col (.dirApply "align" .alignInactive), .err .fatal) else
  match arity "align" 1 args.length with
  | some k => .ok (st.push env line col k, .err .trivial)
  | none =>
    match args with
    | [a] =>
      match evalStrict "align" env st line col a with
      | .ok (.error r) => .ok r
      | .ok (.ok a') =>
        match st.seg.active with
        | none => .stop .panic                              -- `ctx.active_mut().unwrap()`
        | some seg =>
          match a' with
          | .const v =>
            if 0 < v ∧ v ≤ 4294967295 then
              -- the cursor as a 64-bit value (`base_addr + len()`, not the saturating `curr_addr`)
              let off := (seg.base + seg.buf.length) % v.toNat
              if off = 0 then .ok (st, .ok)
              else
                -- `has_remaining(new_len)` is decided from the NUMBER `len - off` before any padding exists (the code
                -- checks first and writes 256-byte chunks afterwards; `remaining()` may underflow = panic) …
                match seg.remaining with
                | none => .stop .panic
                | some rem =>
                  if v.toNat - off ≤ rem then
                    -- … then the 256-byte chunk loop: one append of the padding
                    match segStep st.seg (.append (List.replicate (v.toNat - off) 0xBE)) with
                    | .ok (s', .diag e) => .ok (({ st with seg := s' }).push env line col (.dirApply "align" (.alignWrite e)), .err .fatal)
                    | .ok (s', _) => .ok ({ st with seg := s' }, .ok)
                    | .stop r => .stop r
                  else
                    .ok (st.push env line col (.dirApply "align" (.alignWrite (.overflow (v.toNat - off) rem))), .err .fatal)
            else .ok (st.push env line col (.dirApply "align" (.alignRange v)), .err .fatal)
          | _ => .ok (st.push env line col (.dirArgType "align" 0 .const a'.ty), .err .trivial)
      | .stop r => .stop r
    | _ => .stop .panic

/-- `Const::apply` -/
def constDirective (env : Env) (st : St) (line col : Nat) (args : List Arg) : Out (St × Res) :=
  match arity "const" 2 args.length with
  | some k => .ok (st.push env line col k, .err .trivial)
  | none =>
    match args with
    | [.ident name, b] =>
      match evalStrict "const" env st line col b with
      | .ok (.error r) => .ok r
      | .ok (.ok (.const v)) =>
        match insertConstant st name v .loc with
        | .ok (st', .ok _) => .ok (st', .ok)
        | .ok (st', .error (.duplicate _)) =>
          .ok (st'.push env line col (.dirApply "const" (.constDirDuplicate name)), .err .fatal)
        | .ok (st', .error .reserved) =>
          .ok (st'.push env line col (.dirApply "const" (.constReserved name)), .err .fatal)
        | .stop r => .stop r
      | .ok (.ok b') => .ok (st.push env line col (.dirArgType "const" 1 .const b'.ty), .err .trivial)
      | .stop r => .stop r
    | [a, _] => .ok (st.push env line col (.dirArgType "const" 0 .ident a.ty), .err .trivial)
    | _ => .stop .panic

/-! ## `.dhex`, `.dstr`, `.dfile` -/

/-- `char::is_ascii_whitespace` -/
def isAsciiWs (b : UInt8) : Bool :=
  b.toNat == 32 || b.toNat == 9 || b.toNat == 10 || b.toNat == 12 || b.toNat == 13

/-- `char::to_digit(16)` on an ASCII byte -/
def hexVal (b : UInt8) : Option Nat := Lex.digitVal 16 b

/-- the decoding loop of `.dhex`; `pos` = index of the character (all earlier ones were ASCII).
`.error (pos, scalar)` = `HexChar`, `.ok (bytes, carry)` -/
def dhexLoop : Bytes → Nat → Option Nat → Bytes → Except (Nat × Nat) (Bytes × Option Nat)
  | [], _, carry, acc => .ok (acc.reverse, carry)
  | b :: r, pos, carry, acc =>
    if isAsciiWs b then dhexLoop r (pos + 1) carry acc
    else
      match (if b.toNat < 128 then hexVal b else none) with
      | none =>
        let c := match Lex.decodeChar (b :: r) with | some (ch, _) => ch | none => b.toNat
        .error (pos, c)
      | some v =>
        match carry with
        | none => dhexLoop r (pos + 1) (some (v * 16)) acc
        | some c => dhexLoop r (pos + 1) none ((v + c).toUInt8 :: acc)

/-- `ActiveSegment::write` of an immediate statement and its error wrapping -/
def appendData (dir : String) (env : Env) (st : St) (line col : Nat) (d : Bytes) : Out (St × Res) :=
  match segStep st.seg (.append d) with
  | .ok (s', .diag e) => .ok (({ st with seg := s' }).push env line col (.dirApply dir (.dataWrite e)), .err .fatal)
  | .ok (s', _) => .ok ({ st with seg := s' }, .ok)
  | .stop r => .stop r

/-- `PathBuf::pop` (`none` = returned false) -/
def pathPop (p : Bytes) : Option Bytes :=
  let r := p.reverse.dropWhile (· == 47)
  if r.isEmpty then none
  else
    let rest := r.dropWhile (· != 47)
    let rest' := rest.dropWhile (· == 47)
    if rest'.isEmpty && !rest.isEmpty then some [47] else some rest'.reverse

/-- `PathBuf::push` -/
def pathPush (p q : Bytes) : Bytes :=
  if q.head? == some 47 then q
  else if p.isEmpty then q
  else if p.getLast? == some 47 then p ++ q
  else p ++ [47] ++ q

/-- `let mut p = curr; if !p.pop() {p.push("..")}; p.push(name)` -/
def sibling (curr name : Bytes) : Bytes :=
  match pathPop curr with
  | some d => pathPush d name
  | none => pathPush (pathPush curr (bytesOf "..")) name

/-- `generate!(… String …)`: `.dhex`, `.dstr`, `.dfile` -/
def stringDirective (fs : Bytes → Option Bytes) (dir : String) (env : Env) (st : St) (line col : Nat) (args : List Arg) :
    Out (St × Res) :=
  if st.seg.active.isNone then .ok (st.push env line col (.dirApply dir .dataInactive), .err .fatal) else
  match arity dir 1 args.length with
  | some k => .ok (st.push env line col k, .err .trivial)
  | none =>
    match args with
    | [.str s] =>
      if dir = "dhex" then
        match dhexLoop s 0 none [] with
        | .error (pos, c) => .ok (st.push env line col (.dirApply dir (.dataHexChar pos c)), .err .fatal)
        | .ok (_, some _) => .ok (st.push env line col (.dirApply dir .dataHexEof), .err .fatal)
        | .ok (bytes, none) => appendData dir env st line col bytes
      else if dir = "dstr" then appendData dir env st line col s
      else
        match env.paths with
        | [] => .stop .panic                                 -- `ctx.curr_file_path().unwrap()`
        | curr :: _ =>
          if st.seg.active.isNone then .stop .panic else     -- `ctx.active_mut().unwrap()`
          match fs (sibling curr s) with
          | none => .ok (st.push env line col (.dirApply dir .dataFile), .err .fatal)
          | some bytes => appendData dir env st line col bytes
    | [a] => .ok (st.push env line col (.dirArgType dir 0 .str a.ty), .err .trivial)
    | _ => .stop .panic

/-! ## tasks -/

def runTask (enc : Encoder) (env : Env) (st : St) : Task → Out (St × Res)
  | .data d g => runDataTask d g env st
  | .instr i g => runInstrTask enc i g env st
  | .globalCopy n l c => runGlobalCopy n l c env st

/-- `for task in tasks.drain(..)` of `assemble`: returns the state, the joined result -/
def localRound (enc : Encoder) (env : Env) : List Task → St → Res → Out (St × Res)
  | [], st, res => .ok (st, res)
  | t :: ts, st, res =>
    match runTask enc env st t with
    | .ok (st', .ok) => localRound enc env ts st' res
    | .ok (st', .err l) =>
      if l.shouldAbort then .ok (st', res.join l) else localRound enc env ts st' (res.join l)
    | .stop r => .stop r

/-- the `while !tasks.is_empty()` loop of `assemble` -/
def localLoop (enc : Encoder) (env : Env) : Nat → List Task → St → Res → Out (St × Res)
  | 0, _, _, _ => .stop .loop
  | n+1, tasks, st, res =>
    if tasks.isEmpty then .ok (st, res) else
    match localRound enc env tasks st res with
    | .ok (st', res') =>
      match st'.localTasks with
      | none => .stop .panic                               -- `local_tasks.as_mut().unwrap()`
      | some new =>
        let st'' := { st' with localTasks := some [] }
        if res'.aborts then .ok (st'', res') else localLoop enc env n new st'' res'
    | .stop r => .stop r

/-- `for task in tasks.drain(..)` of `finalize`: `true` = abort -/
def globalRound (enc : Encoder) (env : Env) : List Task → St → Out (St × Bool)
  | [], st => .ok (st, false)
  | t :: ts, st =>
    match runTask enc env st t with
    | .ok (st', r) => if r.aborts then .ok (st', true) else globalRound enc env ts st'
    | .stop r => .stop r

def globalLoop (enc : Encoder) (env : Env) : Nat → List Task → St → Out (St × Bool)
  | 0, _, _ => .stop .loop
  | n+1, tasks, st =>
    if tasks.isEmpty then .ok (st, false) else
    match globalRound enc env tasks st with
    | .ok (st', abort) =>
      let new := st'.globalTasks
      let st'' := { st' with globalTasks := [] }
      if abort then .ok (st'', true) else globalLoop enc env n new st''
    | .stop r => .stop r

/-- rounds allowed to the task loops (two are ever needed) -/
def rounds : Nat := 8

/-- `Context::finalize` -/
def finalize (enc : Encoder) (env : Env) (st : St) : Out (St × Bool) :=
  match globalLoop enc env rounds st.globalTasks { st with globalTasks := [] } with
  | .ok (st', abort) => .ok (st', !(abort || st'.hasErrored))
  | .stop r => .stop r

/-! ## statements, files -/

/-- the recursive call of `.include` -/
abbrev Inc := Env → St → Bytes → Bytes → Out (St × Res)

/-- `Include::apply` -/
def includeDirective (fs : Bytes → Option Bytes) (inc : Inc) (env : Env) (st : St) (line col : Nat) (args : List Arg) :
    Out (St × Res) :=
  match arity "include" 1 args.length with
  | some k => .ok (st.push env line col k, .err .trivial)
  | none =>
    match args with
    | [.str p] =>
      let path := match env.paths with
        | [] => sibling [] p
        | curr :: _ => sibling curr p
      match fs path with
      | none => .ok (st.push env line col (.dirApply "include" (.includeNoSuchFile path)), .err .fatal)
      | some data =>
        match inc env st data path with
        | .ok (st', .ok) => .ok (st', .ok)
        | .ok (st', .err _) => .ok (st'.push env line col (.dirApply "include" (.includeFailed path)), .err .fatal)
        | .stop r => .stop r
    | [a] => .ok (st.push env line col (.dirArgType "include" 0 .str a.ty), .err .trivial)
    | _ => .stop .panic

/-- `DirectiveList::process` -/
def directive (fs : Bytes → Option Bytes) (inc : Inc) (env : Env) (st : St) (line col : Nat)
    (name : Bytes) (args : List Arg) : Out (St × Res) :=
  if name = bytesOf "addr" then addrDirective env st line col args
  else if name = bytesOf "align" then alignDirective env st line col args
  else if name = bytesOf "const" then constDirective env st line col args
  else if name = bytesOf "du8" then duDirective .u8 env st line col args
  else if name = bytesOf "du16" then duDirective .u16 env st line col args
  else if name = bytesOf "du32" then duDirective .u32 env st line col args
  else if name = bytesOf "dhex" then stringDirective fs "dhex" env st line col args
  else if name = bytesOf "dstr" then stringDirective fs "dstr" env st line col args
  else if name = bytesOf "dfile" then stringDirective fs "dfile" env st line col args
  else if name = bytesOf "global" then globalDirective .global env st line col args
  else if name = bytesOf "import" then globalDirective .import_ env st line col args
  else if name = bytesOf "export" then globalDirective .export_ env st line col args
  else if name = bytesOf "include" then includeDirective fs inc env st line col args
  else .ok (st.push env line col (.dirNotFound name), .err .fatal)

/-- one iteration of the `for element in Parser::new(data)` loop of `do_assemble` -/
def statement (fs : Bytes → Option Bytes) (enc : Encoder) (inc : Inc) (env : Env) (st : St) (el : Element) : Out (St × Res) :=
  match el.val with
  | .directive name args => directive fs inc env st el.line el.col name args.toList
  | .label name =>
    match currAddr st with
    | none => .ok (st.push env el.line el.col .inactive, .err .fatal)
    | some a =>
      match insertConstant st name (a : Int) .loc with
      | .ok (st', .ok _) => .ok (st', .ok)
      | .ok (st', .error e) => .ok (st'.push env el.line el.col (.label (e.inner name)), .err .fatal)
      | .stop r => .stop r
  | .instruction name args =>
    if st.seg.active.isNone then .ok (st.push env el.line el.col .inactive, .err .fatal)
    else instruction enc env st el.line el.col name args.toList

/-- `Context::do_assemble` on what the parser yields: the elements in order, then the error that ended the stream -/
def doAssemble (fs : Bytes → Option Bytes) (enc : Encoder) (inc : Inc) (env : Env) :
    List Element → Option ParseErr → St → Out (St × Res)
  | [], none, st => .ok (st, .ok)
  | [], some e, st => .ok (st.push env e.line e.col (.parse e.kind), .err .fatal)
  | el :: els, err, st =>
    match statement fs enc inc env st el with
    | .ok (st', .ok) => doAssemble fs enc inc env els err st'
    | .ok (st', .err l) => .ok (st', .err l)
    | .stop r => .stop r

/-- `Parser::new(data)` iterated: tokenizer then parser -/
def parseFile (data : Bytes) : Out (List Element × Option ParseErr) :=
  match Lex.tokens data with
  | .ok lo =>
    match Parse.all lo with
    | .done els err => .ok (els, err)
    | .panic => .stop .panic
    | .fuel => .stop .panic       -- the parser model's own fuel (never: `Parse.parse_total`)
  | .panic => .stop .panic
  | .fuel => .stop .panic         -- the tokenizer model's own fuel (never: `Lex.lex_fuel_sufficient`)

/-- entry of `Context::assemble`: fresh `locals` / `local_tasks`; if there were some, they become the new
`globals` / `global_tasks` and the old globals are kept in the `PathFrame` (first two components) -/
def enterFile (st : St) : Option Table × Option (List Task) × St :=
  let (savedC, st1) : Option Table × St :=
    match st.locals with
    | none => (none, { st with locals := some [] })
    | some c => (some st.globals, { st with locals := some [], globals := c })
  match st1.localTasks with
  | none => (savedC, none, { st1 with localTasks := some [] })
  | some t => (savedC, some st1.globalTasks, { st1 with localTasks := some [], globalTasks := t })

/-- the swaps of `PathFrame::into_inner` -/
def leaveFile (savedC : Option Table) (savedT : Option (List Task)) (st4 : St) : St :=
  let st5 : St :=
    match savedC with
    | none => { st4 with locals := none }
    | some g => { st4 with locals := some st4.globals, globals := g }
  match savedT with
  | none => { st5 with localTasks := none }
  | some g => { st5 with localTasks := some st5.globalTasks, globalTasks := g }

/-- `do_assemble` followed by the local task loop of `assemble` -/
def fileBody (fs : Bytes → Option Bytes) (enc : Encoder) (inc : Inc) (env1 : Env) (data : Bytes) (st2 : St) : Out (St × Res) :=
  match parseFile data with
  | .ok (els, perr) =>
    match doAssemble fs enc inc env1 els perr st2 with
    | .ok (st3, res) =>
      if res = .err .fatal then .ok (st3, res)
      else
        match st3.localTasks with
        | none => .stop .panic                            -- `local_tasks.replace(Vec::new()).unwrap()`
        | some tasks => localLoop enc env1 rounds tasks { st3 with localTasks := some [] } res
    | .stop r => .stop r
  | .stop r => .stop r

/-- `Context::assemble(data, path)` with `PathFrame::into_inner`; `fuel` bounds the include depth -/
def assembleFile (fs : Bytes → Option Bytes) (enc : Encoder) : Nat → Inc
  | 0, _, _, _, _ => .stop .fuel
  | fuel+1, env, st, data, path =>
    -- push the path
    let env1 : Env := { paths := path :: env.paths, curName := path }
    let count := env1.paths.length
    if count = 0 then .stop .panic else                   -- `NonZeroUsize::try_from(..).unwrap()`
    match enterFile st with
    | (savedC, savedT, st2) =>
      match fileBody fs enc (assembleFile fs enc fuel) env1 data st2 with
      | .ok (st4, res') =>
        -- `into_inner`
        if env1.paths.length ≠ count then .stop .panic     -- `assert_eq!(path_stack.len(), count)`
        else .ok (leaveFile savedC savedT st4, res')
      | .stop r => .stop r

/-! ## a whole project -/

/-- what `trias` observes -/
structure Outcome where
  assembleOk : Bool
  closeErr : Option Seg.Diag
  finalize : Bool
  diags : List Diag
  image : Map.Segs
deriving Repr, Inhabited

/-- success as `src/bin/assembler.rs` defines it -/
def Outcome.success (o : Outcome) : Bool := o.closeErr.isNone && o.finalize

inductive Result where
  | done (o : Outcome)
  | noMain
  | panic
  | fuel
  | loop
deriving Repr, Inhabited

/-- include depth allowed before the model gives up (`Result.fuel`, cf. K2) -/
def maxDepth : Nat := 64

/-- `assemble` of the main file, `close_segment`, `finalize` (only after a successful close) -/
def runWith (enc : Encoder) (fs : Bytes → Option Bytes) (main : Bytes) : Result :=
  match fs main with
  | none => .noMain
  | some data =>
    match assembleFile fs enc maxDepth Env.init St.init data main with
    | .ok (st, res) =>
      match Seg.closeSegment st.seg with
      | (s', .diag e) =>
        .done ⟨res = .ok, some e, false, st.errors.reverse, s'.map⟩
      | (_, .panic) => .panic
      | (s', _) =>
        match finalize enc Env.init { st with seg := s' } with
        | .ok (st', fin) => .done ⟨res = .ok, none, fin, st'.errors.reverse, st'.seg.map⟩
        | .stop .panic => .panic
        | .stop .fuel => .fuel
        | .stop .loop => .loop
    | .stop .panic => .panic
    | .stop .fuel => .fuel
    | .stop .loop => .loop

/-- `Instruction::encode` into the 4-byte buffer of `write_instr` -/
def encoder : Encoder := fun i =>
  match Codec.encodeInto 4 i with
  | .ok bs => .ok (bs.map (·.toUInt8))
  | .error .unrepresentable => .error .unrepresentable
  | .error (.overflow _ _) => .error .overflow

/-- the pipeline on a project: `fs` maps a path to the file's bytes, `main` is the path of the main file -/
def run (fs : Bytes → Option Bytes) (main : Bytes) : Result := runWith encoder fs main

end Trion.Asm
