import TrionModel.Model.Crc
import TrionModel.Model.Uf2
/-!
# Model of the post-processing in `src/bin/assembler.rs` (`assemble()`, after `finalize`)

Imports only other model files (core Lean), so the driver executable links.

Input: what `ctx.output().iter()` yields — the *normalised* segment list of the memory map:
ascending, every segment non-empty, at least one free address between consecutive segments, everything
below 2^32 (`Trias.Norm`). `MemoryMap` itself is modelled elsewhere (C15); the three map operations
the post-processing uses are expressed here directly on the sorted list:

* `find(a, Exact).is_some()` / `iter_range`  → the dictionary view `lookup`;
* `put(addr, bytes)` into a **free** range      → `insertMerge` (insert and merge with touching neighbours);
* `find(prev + 1, Above)` in the padding loop  → "the next segment of the list".

The page-padding loop visits the segments in ascending order; iteration `k` looks only at the first
address of segment `k` and the last address of segment `k-1` (neither is changed by earlier
iterations, which only prepend zeros to, or fill the gap before, earlier segments), so the loop is the
left-to-right recursion `padGo` that carries the current (possibly merged) segment. The three
`assert_eq!(put(..), Ok(n))` of the loop hold because each filled range lies inside a gap of the
normalised map; a failure would abort the process and be seen by the correspondence run.

Steps (in the order of the Rust code):
1. empty output → `false` without message (`Msg.empty`);
2. boot2 checksum when address 0x10000000 is occupied: refuse if any of 0x100000FC..0x100000FF is occupied,
   else CRC-32/MPEG-2 over the 252 bytes 0x10000000..0x100000FB (absent = 0), stored little-endian at 0x100000FC;
3. page padding;
4. `Uf2Write::new_vec(Some(0xE48BFF56), 256, 256, buff)` on the cleared buffer, `write_all` per segment, drop.
-/
namespace Trion.Trias
open Trion.Uf2

abbrev Seg := Nat × List UInt8

/-- outcome of the post-processing other than a UF2 file -/
inductive Msg where
  /-- `ctx.output().len() == 0`: returns `false` silently -/
  | empty
  /-- "Checksum would overwrite existing data" -/
  | crcOverwrite
  /-- "UF2 write failed" -/
  | uf2 (e : WriteErr)
  /-- a Rust panic (`unwrap` of `new_vec`, the writer's panic sites) -/
  | panic (site : String)
deriving Repr

/-- dictionary view of a segment list -/
def lookup : List Seg → Nat → Option UInt8
  | [], _ => none
  | (f, d) :: r, a => if f ≤ a ∧ a < f + d.length then d[a - f]? else lookup r a

/-- `put(a, d)` where `[a, a + d.length)` is free: insert, merging with a segment that ends at `a`
and/or one that starts at `a + d.length` -/
def insertMerge (a : Nat) (d : List UInt8) : List Seg → List Seg
  | [] => [(a, d)]
  | (f, e) :: r =>
    if f + e.length < a then (f, e) :: insertMerge a d r
    else if f + e.length = a then insertMerge f (e ++ d) r
    else if a + d.length = f then (a, d ++ e) :: r
    else (a, d) :: (f, e) :: r

/-- the 252 bytes `temp[..0xFC]` collected from `iter_range(0x10000000 ..= 0x100000FF)` -/
def bootBytes (m : List Seg) : List UInt8 :=
  (List.range 252).map fun i => (lookup m (0x10000000 + i)).getD 0

/-- CRC-32/MPEG-2 as computed by `Crc::new().update_slice(..).get_value()` -/
def crc32 (bs : List UInt8) : Nat := (Trion.Crc.crc (bs.map UInt8.toBitVec)).toNat

/-- step 2 -/
def bootCrc (m : List Seg) : Except Msg (List Seg) :=
  if (lookup m 0x10000000).isSome then
    if (List.range 4).any (fun i => (lookup m (0x100000FC + i)).isSome) then .error .crcOverwrite
    else .ok (insertMerge 0x100000FC (le32 (crc32 (bootBytes m))) m)
  else .ok m

/-- the `while prev < u32::MAX` loop; `cur` is the segment that ends at `prev` -/
def padGo (cur : Seg) : List Seg → List Seg
  | [] => [cur]
  | (f, d) :: r =>
    let off := f % 256
    if off = 0 then cur :: padGo (f, d) r
    else
      let base := f - off
      let prev := cur.1 + cur.2.length - 1
      if prev ≥ base then
        -- previous segment ends in the same page: fill the gap
        padGo (cur.1, cur.2 ++ zeros (f - prev - 1) ++ d) r
      else if base = prev + 1 then
        -- the page's leading zeros touch the previous segment as well: `put` merges all three
        padGo (cur.1, cur.2 ++ zeros off ++ d) r
      else cur :: padGo (base, zeros off ++ d) r

/-- step 3 -/
def padAll : List Seg → List Seg
  | [] => []
  | (f, d) :: r => padGo (f - f % 256, zeros (f % 256) ++ d) r

/-- step 4: one `write_all(range.get_first(), seg, false)` per segment -/
def writeSegs (st : St) : List Seg → Except Msg St
  | [] => .ok st
  | (f, d) :: r => match writeAll st f d false with
    | (st', .ok _) => writeSegs st' r
    | (_, .err e) => .error (.uf2 e)
    | (_, .panic s) => .error (.panic s)

/-- the bytes `assemble()` leaves in `buff` when it returns `true` -/
def post (m : List Seg) : Except Msg (List UInt8) :=
  if m.isEmpty then .error .empty
  else match bootCrc m with
    | .error e => .error e
    | .ok m1 =>
      match newVec (some 0xE48BFF56) 256 256 0 with
      | .error _ => .error (.panic "new_vec(..).unwrap()")
      | .ok st => match writeSegs st (padAll m1) with
        | .error e => .error e
        | .ok st' => match finish st' with
          | .ok out => .ok out
          | .err e => .error (.uf2 e)
          | .panic s => .error (.panic s)

/-- what `MemoryMap::iter()` can return: ascending, non-empty segments, separated by at least one free
address, inside the 32-bit address space -/
def Norm : List Seg → Prop
  | [] => True
  | [(f, d)] => d ≠ [] ∧ f + d.length ≤ 4294967296
  | (f, d) :: (g, e) :: r => d ≠ [] ∧ f + d.length < g ∧ Norm ((g, e) :: r)

end Trion.Trias
