import TrionModel.Model.Tridas
import TrionModel.Model.Codec
/-!
# `tridas` with the real decoder model

`Model/Tridas.lean` is parametric in the decoder.  Here the parameter is instantiated with the codec model of C01–C03:
`codecDecoder bs` is `Instruction::decode(&buff[pos..])` (`Codec.decode` on the byte values), `Err` ↦ `none` — the
outcome the traversal `unwrap()`s.
-/
namespace Trion.Tridas

/-- `Instruction::decode` as the traversal sees it -/
def codecDecoder : Decoder := fun bs =>
  match Codec.decode (bs.map (·.toNat)) with
  | .ok r => some r
  | .error _ => none

/-- `tridas` on the bytes of a file, decoder included -/
def listingCodec (b : List UInt8) : Except Panic (List Line) := listing codecDecoder b

end Trion.Tridas
