import TrionModel.Model.Simp
/-!
# `evaluate` with the tree it leaves behind on EVERY outcome (import-free apart from `Simp`)

`evaluate`, `simplify_raw`, `neutralize_raw`, `neutralize` work on `&mut Argument`.  A `.du*` / instruction
statement whose first `evaluate` fails with `BadType`/`Overflow` keeps the tree as the failed call left it and
evaluates it again in its task.  `Simp.evaluateT` returns that tree for `Ok` and `NoSuchVariable`; this file adds
it for the errors, following the order of the in-place mutations:

* `evaluate`: children left to right with `?` (an error in the rhs leaves the evaluated lhs), then `simplify_raw`;
* `simplify_raw`: the `BadType` checks, the constant fold, the `Negate`/`Not` arms and the merge's `checked_*`
  fail before anything is written; after a successful merge the tree is `mergeTree` and the final deep
  `neutralize(arg)?` may fail half way;
* `neutralize`: children left to right with `?`, then `neutralize_raw`;
* `neutralize_raw`: the `while` loop has already flipped `l + (-n)` / `l - (-n)` when `checked_neg` fails, and the
  negative-constant normalisation has been written when the operand-type check fails.

`*_proj`: forgetting the error tree gives back the functions of `Simp` (Lemmas/SimpE.lean), so every theorem
about `Simp.evaluate` / `evaluateT` applies to the non-error outcomes of `evaluateE`.
-/
namespace Trion.Simp
open Trion

/-- outcome with the tree left behind on an error -/
inductive ResE (α τ : Type) where
  | ok (a : α)
  | err (e : SimpErr) (left : τ)
  | panic
deriving Repr, Inhabited

def ResE.toRes {α τ : Type} : ResE α τ → Res α
  | .ok a => .ok a
  | .err e _ => .err e
  | .panic => .panic

def opOf (isSub : Bool) : BinOp := if isSub then .sub else .add

/-- the passes of `neutralize_raw` on a binary node -/
def neutralizeBinE (op : BinOp) (l r : Arg) : ResE (Bool × Arg) Arg :=
    if op = .add ∨ op = .sub then
      -- the `while` loop has run: operator `opOf s.1`, rhs `s.2.1`
      let s := stripNeg (op = .sub) r
      let norm : ResE (Bool × Bool × Arg) Arg :=
        match cval s.2.1 with
        | some v =>
          if v < 0 then
            match checkedNeg v with
            | none => .err (.overflow .negate) (.bin (opOf s.1) l s.2.1)
            | some nv => .ok (true, !s.1, .const nv)
          else .ok (s.2.2, s.1, s.2.1)
        | none => .ok (s.2.2, s.1, s.2.1)
      match norm with
      | .ok (ch, isSub, r') =>
        let op' := opOf isSub
        if isBad l then .err (.badType l.ty op'.argTy) (.bin op' l r')
        else if isBad r' then .err (.badType r'.ty op'.argTy) (.bin op' l r')
        else .ok (ch, neutralMain op' l r')
      | .err e t => .err e t
      | .panic => .panic
    else
      if isBad l then .err (.badType l.ty op.argTy) (.bin op l r)
      else if isBad r then .err (.badType r.ty op.argTy) (.bin op l r)
      else .ok (false, neutralMain op l r)

def swappedE : ResE (Bool × Arg) Arg → ResE (Bool × Arg) Arg
  | .ok (_, a) => .ok (true, a)
  | r => r

/-- `neutralize_raw` (the swap has been written into the tree before anything can fail) -/
def neutralizeRawE : Arg → ResE (Bool × Arg) Arg
  | .neg (.neg v) => swappedE (neutralizeRawE v)
  | .neg (.bin .sub l r) => swappedE (neutralizeBinE .sub r l)
  | .bin .sub (.const c) (.bin .sub l r) =>
    if c = 0 then swappedE (neutralizeBinE .sub r l) else neutralizeBinE .sub (.const c) (.bin .sub l r)
  | .bin op l r => neutralizeBinE op l r
  | a => .ok (false, a)

mutual
/-- `neutralize` -/
def neutralizeE : Arg → ResE (Bool × Arg) Arg
  | .bin op l r =>
    match neutralizeE l with
    | .ok (c1, l') =>
      match neutralizeE r with
      | .ok (c2, r') =>
        match neutralizeRawE (.bin op l' r') with
        | .ok (c3, a) => .ok (c1 || c2 || c3, a)
        | .err e t => .err e t
        | .panic => .panic
      | .err e r' => .err e (.bin op l' r')
      | .panic => .panic
    | .err e l' => .err e (.bin op l' r)
    | .panic => .panic
  | .neg v =>
    match neutralizeE v with
    | .ok (c, v') =>
      match neutralizeRawE (.neg v') with
      | .ok (c3, a) => .ok (c || c3, a)
      | .err e t => .err e t
      | .panic => .panic
    | .err e v' => .err e (.neg v')
    | .panic => .panic
  | .not v =>
    match neutralizeE v with
    | .ok (c, v') => .ok (c, .not v')
    | .err e v' => .err e (.not v')
    | .panic => .panic
  | .addr v =>
    match neutralizeE v with
    | .ok (c, v') => .ok (c, .addr v')
    | .err e v' => .err e (.addr v')
    | .panic => .panic
  | .seq as =>
    match neutralizeArgsE as with
    | .ok (c, as') => .ok (c, .seq as')
    | .err e as' => .err e (.seq as')
    | .panic => .panic
  | .func n as =>
    match neutralizeArgsE as with
    | .ok (c, as') => .ok (c, .func n as')
    | .err e as' => .err e (.func n as')
    | .panic => .panic
  | .const v => .ok (false, .const v)
  | .ident s => .ok (false, .ident s)
  | .str s => .ok (false, .str s)
def neutralizeArgsE : Args → ResE (Bool × Args) Args
  | .nil => .ok (false, .nil)
  | .cons a as =>
    match neutralizeE a with
    | .ok (c1, a') =>
      match neutralizeArgsE as with
      | .ok (c2, as') => .ok (c1 || c2, .cons a' as')
      | .err e as' => .err e (.cons a' as')
      | .panic => .panic
    | .err e a' => .err e (.cons a' as)
    | .panic => .panic
end

/-- the last `else` branch of the binary arm of `simplify_raw` -/
def mergeE (op : BinOp) (l r : Arg) : ResE (Bool × Arg) Arg :=
  match mergeL op l, mergeR op r with
  | .panic, _ => .panic
  | _, .panic => .panic
  | .found c1 s1, .found c2 s2 =>
    match combine op s1 s2 c1 c2 with
    | .error k => .err (.overflow k) (.bin op l r)        -- `checked_*` fails before `*lhs_val` is written
    | .ok c =>
      match neutralizeE (mergeTree op l r c) with
      | .ok (_, a) => .ok (true, a)
      | .err e t => .err e t
      | .panic => .panic
  | _, _ => neutralizeRawE (.bin op l r)

/-- `simplify_raw` -/
def simplifyRawE : Arg → ResE (Bool × Arg) Arg
  | .bin op l r =>
    if isBad l then .err (.badType l.ty op.argTy) (.bin op l r)
    else if isBad r then .err (.badType r.ty op.argTy) (.bin op l r)
    else
      match cval l, cval r with
      | some a, some b =>
        match foldBin op a b with
        | .ok v => .ok (true, .const v)
        | .error k => .err (.overflow k) (.bin op l r)
      | _, _ =>
        match op with
        | .mod => if modCollapse l r then .ok (true, l) else neutralizeRawE (.bin op l r)
        | .shl | .shr => neutralizeRawE (.bin op l r)
        | _ => mergeE op l r
  | .neg v =>
    match v with
    | .bin .sub l r =>
      match neutralizeRawE (.bin .sub r l) with
      | .ok (_, a) => .ok (true, a)
      | .err e t => .err e t
      | .panic => .panic
    | .neg w =>
      match neutralizeRawE (.neg (.neg w)) with
      | .ok (_, a) => .ok (true, a)
      | .err e t => .err e t
      | .panic => .panic
    | .const c => if c = i64Min then .err (.overflow .negate) (.neg v) else .ok (true, .const (-c))
    | .str _ | .addr _ | .seq _ => .err (.badType v.ty .neg) (.neg v)
    | _ => .ok (false, .neg v)
  | .not v =>
    match v with
    | .const c => .ok (true, .const (bnot c))
    | .str _ | .addr _ | .seq _ => .err (.badType v.ty .not) (.not v)
    | _ => .ok (false, .not v)
  | .addr v => if isBad v then .err (.badType v.ty .addr) (.addr v) else .ok (false, .addr v)
  | a => .ok (false, a)

/-- what `evaluate(&mut arg, ctx)` returns, always with the tree it leaves -/
inductive EvE (α : Type) where
  | ok (ev : Ev) (a : α)
  | nosuch (name : Bytes) (a : α)
  | err (e : SimpErr) (a : α)
  | panic
deriving Repr, Inhabited

def EvE.toT {α : Type} : EvE α → EvT α
  | .ok ev a => .ok ev a
  | .nosuch n a => .nosuch n a
  | .err e _ => .err e
  | .panic => .panic

def afterRawE (ev : Ev) (a : Arg) : EvE Arg :=
  match simplifyRawE a with
  | .ok (c, a') => .ok (ev.or ⟨c, none⟩) a'
  | .err e t => .err e t
  | .panic => .panic

mutual
/-- `evaluate` -/
def evaluateE (lookup : Bytes → Lookup) (isReg : Bytes → Bool) : Arg → EvE Arg
  | .const v => .ok ⟨false, none⟩ (.const v)
  | .ident s =>
    if isReg s then .ok ⟨false, none⟩ (.ident s)
    else match lookup s with
      | .notFound => .nosuch s (.ident s)
      | .deferred => .ok ⟨false, some s⟩ (.ident s)
      | .found v => .ok ⟨true, none⟩ (.const v)
  | .str s => .ok ⟨false, none⟩ (.str s)
  | .seq as =>
    match evaluateArgsE lookup isReg as with
    | .ok ev as' => .ok ev (.seq as')
    | .nosuch n as' => .nosuch n (.seq as')
    | .err e as' => .err e (.seq as')
    | .panic => .panic
  | .func f as =>
    match evaluateArgsE lookup isReg as with
    | .ok ev as' => .ok ev (.func f as')
    | .nosuch n as' => .nosuch n (.func f as')
    | .err e as' => .err e (.func f as')
    | .panic => .panic
  | .bin op l r =>
    match evaluateE lookup isReg l with
    | .ok e1 l' =>
      match evaluateE lookup isReg r with
      | .ok e2 r' => afterRawE (e1.or e2) (.bin op l' r')
      | .nosuch n r' => .nosuch n (.bin op l' r')
      | .err e r' => .err e (.bin op l' r')
      | .panic => .panic
    | .nosuch n l' => .nosuch n (.bin op l' r)
    | .err e l' => .err e (.bin op l' r)
    | .panic => .panic
  | .neg v =>
    match evaluateE lookup isReg v with
    | .ok e1 v' => afterRawE e1 (.neg v')
    | .nosuch n v' => .nosuch n (.neg v')
    | .err e v' => .err e (.neg v')
    | .panic => .panic
  | .not v =>
    match evaluateE lookup isReg v with
    | .ok e1 v' => afterRawE e1 (.not v')
    | .nosuch n v' => .nosuch n (.not v')
    | .err e v' => .err e (.not v')
    | .panic => .panic
  | .addr v =>
    match evaluateE lookup isReg v with
    | .ok e1 v' => afterRawE e1 (.addr v')
    | .nosuch n v' => .nosuch n (.addr v')
    | .err e v' => .err e (.addr v')
    | .panic => .panic
def evaluateArgsE (lookup : Bytes → Lookup) (isReg : Bytes → Bool) : Args → EvE Args
  | .nil => .ok ⟨false, none⟩ .nil
  | .cons a as =>
    match evaluateE lookup isReg a with
    | .ok e1 a' =>
      match evaluateArgsE lookup isReg as with
      | .ok e2 as' => .ok (e1.or e2) (.cons a' as')
      | .nosuch n as' => .nosuch n (.cons a' as')
      | .err e as' => .err e (.cons a' as')
      | .panic => .panic
    | .nosuch n a' => .nosuch n (.cons a' as)
    | .err e a' => .err e (.cons a' as)
    | .panic => .panic
end

end Trion.Simp
