import TrionModel.Model.Syntax
/-!
# Model of `src/text/parse/mod.rs` (`Parser`) and `src/text/operator.rs` (Layer B)

Import-free apart from the shared syntax types, so that the driver executable links.

The parser pulls tokens lazily from a `Tokenizer` (`peek()` = one token of look-ahead, `next()`).
The model consumes what that tokenizer yields when iterated to exhaustion — a `LexOut`: the ok tokens
in order, the error (if any) that ended the stream, and the tokenizer's final `(line, col)`.
How the lazy interplay maps onto that view (read off the Rust):

* the parser state is the list of not-yet-consumed ok tokens `ts`; `peek()`/`next()` on `t :: r` give `t`;
  on `[]` they give `Some(Err(e))` if `lo.err = some e` and `None` otherwise. Every path that *consumes*
  a tokenizer error returns a parse error, after which nothing is produced (`clear()` + draining the
  look-ahead, fix F23), so "error already taken" is never an observable state;
* `self.0.get_line()/get_column()` is read only when `peek()`/`next()` returned `None` or `Some(Err)`
  (`eof(..)` and the `expr_start` fallback). At that moment the tokenizer has run to its end (or to its
  error, whose position is the tokenizer's position and never changes afterwards), so the value read is
  `(lo.endLine, lo.endCol)`.

Recursion: the five mutually recursive functions take a fuel argument that decreases on every call;
running out of fuel is the explicit outcome `.fuel` (not a behaviour of the Rust code), and
`Lemmas/ParseFuel.lean` proves that it is never produced with the fuel `fuelFor ts` used by the
fuel-free wrappers `unary / binary / args / element / all`. The `panic!("encountered operator … in
group …")` of `parse_binary` is the explicit outcome `.panic`.
-/
namespace Trion.Parse

/-- outcome of a parsing function: value, parse error, the `panic!` of `parse_binary`, or out of fuel
(model artefact; proved unreachable for the fuel the wrappers supply) -/
inductive Res (α : Type) where
  | ok (a : α)
  | err (e : ParseErr)
  | panic
  | fuel
deriving Repr, Inhabited

/-- the `?` operator -/
@[inline] def Res.bind {α β : Type} : Res α → (α → Res β) → Res β
  | .ok a, f => f a
  | .err e, _ => .err e
  | .panic, _ => .panic
  | .fuel, _ => .fuel

end Trion.Parse

namespace Trion

/-- `TokenValue::desc` -/
def Tok.desc : Tok → String
  | .sep => "','" | .term => "';'" | .labelMark => "':'" | .dirMark => "'.'"
  | .plus => "'+'" | .minus => "'-'" | .mul => "'*'" | .div => "'/'" | .mod => "'%'"
  | .not => "'!'" | .band => "'&'" | .bor => "'|'" | .bxor => "'^'"
  | .shl => "\"<<\"" | .shr => "\">>\""
  | .num _ => "number" | .ident _ => "identifier" | .str _ => "string"
  | .lparen => "'('" | .rparen => "')'" | .lbrack => "'['" | .rbrack => "']'"
  | .lbrace => "'{'" | .rbrace => "'}'"

/-- the tokens at which the operator loop of `parse_binary` breaks:
`Separator | Terminator | EndGroup | EndAddr | EndSeq` -/
def Tok.isStop : Tok → Bool
  | .sep | .term | .rparen | .rbrack | .rbrace => true
  | _ => false

/-- the tokens that end an argument list: `Terminator | EndGroup | EndAddr | EndSeq` -/
def Tok.isArgsEnd : Tok → Bool
  | .term | .rparen | .rbrack | .rbrace => true
  | _ => false

end Trion

namespace Trion.Parse

/-- `Parser::expect(expect, have)` -/
def expectErr (expect : String) (t : Token) : ParseErr :=
  ⟨t.line, t.col, .expected expect t.val.desc⟩

/-- `Parser::eof(expect)`: position = the tokenizer's position when nothing is left -/
def eofErr (lo : LexOut) (expect : String) : ParseErr :=
  ⟨lo.endLine, lo.endCol, .expected expect "<eof>"⟩

/-- `From<TokenError> for ParseError` -/
def tokErr (e : LexErr) : ParseErr := ⟨e.line, e.col, .token e⟩

/-- `self.0.next()` on an exhausted token list, in the places where the code reads
`Some(Err(e)) => Err(e.into())`, `None => Err(self.eof(expect))` -/
def endErr (lo : LexOut) (expect : String) : ParseErr :=
  match lo.err with
  | some e => tokErr e
  | none => eofErr lo expect

/-- `expr_start`: position of the peeked token, else (peek is `None` or an error) the tokenizer position -/
def exprStart (lo : LexOut) : List Token → Nat × Nat
  | t :: _ => (t.line, t.col)
  | [] => (lo.endLine, lo.endCol)

/-- `let end = self.next_inner(expect)?; if !matches!(end.value, want) {return Err(expect(expect, &end))}` -/
def close (lo : LexOut) (expect : String) (want : Tok) : List Token → Res (List Token)
  | [] => .err (endErr lo expect)
  | e :: r => if e.val = want then .ok r else .err (expectErr expect e)

/-- `self.next_inner(expect)?` with the token itself discarded (the statement terminator: any token) -/
def nextInner (lo : LexOut) (expect : String) : List Token → Res (List Token)
  | [] => .err (endErr lo expect)
  | _ :: r => .ok r

mutual

/-- `parse_unary` -/
def unaryF (lo : LexOut) : Nat → List Token → Res (Arg × List Token)
  | 0, _ => .fuel
  | n+1, ts =>
    match ts with
    | [] => .err (endErr lo "<unary>")
    | t :: r =>
      match t.val with
      | .minus => (unaryF lo n r).bind fun p => .ok (.neg p.1, p.2)
      | .not => (unaryF lo n r).bind fun p => .ok (.not p.1, p.2)
      | .num v => .ok (.const v, r)
      | .ident s =>
        -- `if let Some(BeginGroup) = self.0.peek().and_then(Result::ok)`: a peeked error is not consumed
        match r with
        | ⟨_, _, .lparen⟩ :: r1 =>
          (argsF lo n r1).bind fun p => (close lo "')'" .rparen p.2).bind fun r3 => .ok (.func s p.1, r3)
        | _ => .ok (.ident s, r)
      | .str s => .ok (.str s, r)
      | .lparen =>
        (binaryF lo n .bitOr (exprStart lo r) r).bind fun p =>
          (close lo "')'" .rparen p.2).bind fun r3 => .ok (p.1, r3)
      | .lbrack =>
        (binaryF lo n .bitOr (exprStart lo r) r).bind fun p =>
          (close lo "']'" .rbrack p.2).bind fun r3 => .ok (.addr p.1, r3)
      | .lbrace =>
        (argsF lo n r).bind fun p => (close lo "'}'" .rbrace p.2).bind fun r3 => .ok (.seq p.1, r3)
      | _ => .err (expectErr "<unary>" t)

/-- `parse_binary(group, expr_start)`: operand of the next higher group, then the operator loop -/
def binaryF (lo : LexOut) : Nat → BinOpGroup → Nat × Nat → List Token → Res (Arg × List Token)
  | 0, _, _, _ => .fuel
  | n+1, g, st, ts =>
    (match g.higher with
      | none => unaryF lo n ts
      | some h => binaryF lo n h st ts).bind fun p => binLoopF lo n g st p.1 p.2

/-- the `loop` of `parse_binary` with `lhs` accumulated so far -/
def binLoopF (lo : LexOut) : Nat → BinOpGroup → Nat × Nat → Arg → List Token → Res (Arg × List Token)
  | 0, _, _, _, _ => .fuel
  | n+1, g, st, lhs, ts =>
    match ts with
    | [] =>
      match lo.err with
      | none => .ok (lhs, [])                                   -- `None => break`
      | some e => .err ⟨st.1, st.2, .token e⟩                    -- `Some(Err(..))`: error at `expr_start`
    | t :: r =>
      if t.val.isStop then .ok (lhs, ts)
      else match t.val.binOp with
        | none => .err (expectErr "<operator>" t)
        | some op =>
          if op.group.toNat < g.toNat then .ok (lhs, ts)          -- `Ordering::Less => break`
          else if g.toNat < op.group.toNat then .panic            -- `Ordering::Greater => panic!(..)`
          else
            (match g.higher with
              | none => unaryF lo n r
              | some h => binaryF lo n h st r).bind fun p => binLoopF lo n g st (.bin op lhs p.1) p.2

/-- `parse_args`: the look-ahead that decides whether the list is empty -/
def argsF (lo : LexOut) : Nat → List Token → Res (Args × List Token)
  | 0, _ => .fuel
  | n+1, ts =>
    match ts with
    | [] =>
      match lo.err with
      | none => .ok (.nil, [])
      | some e => .err (tokErr e)
    | t :: _ => if t.val.isArgsEnd then .ok (.nil, ts) else argsLoopF lo n ts

/-- the `loop` of `parse_args`: one argument, then `,` (continue) or an end token (stop) -/
def argsLoopF (lo : LexOut) : Nat → List Token → Res (Args × List Token)
  | 0, _ => .fuel
  | n+1, ts =>
    (binaryF lo n .bitOr (exprStart lo ts) ts).bind fun p =>
      match p.2 with
      | [] =>
        match lo.err with
        | none => .err (eofErr lo "<separator>")
        | some e => .err (tokErr e)
      | t :: r1 =>
        if t.val = .sep then (argsLoopF lo n r1).bind fun q => .ok (.cons p.1 q.1, q.2)
        else if t.val.isArgsEnd then .ok (.cons p.1 .nil, p.2)
        else .err (expectErr "<separator>" t)

end

/-- fuel that is always enough for a token list (`Lemmas/ParseFuel.lean`) -/
def fuelFor (ts : List Token) : Nat := 16 * ts.length + 16

/-- `parse_unary` on the remaining tokens `ts` -/
def unary (lo : LexOut) (ts : List Token) : Res (Arg × List Token) := unaryF lo (fuelFor ts) ts
/-- `parse_binary(g, st)` -/
def binary (lo : LexOut) (g : BinOpGroup) (st : Nat × Nat) (ts : List Token) : Res (Arg × List Token) :=
  binaryF lo (fuelFor ts) g st ts
/-- `parse_args` -/
def args (lo : LexOut) (ts : List Token) : Res (Args × List Token) := argsF lo (fuelFor ts) ts

/-- `do_next(Ok(first))` with the remaining tokens `r`: one statement -/
def element (lo : LexOut) (first : Token) (r : List Token) : Res (Element × List Token) :=
  match first.val with
  | .dirMark =>
    match r with
    | [] => .err (endErr lo "';'")
    | t1 :: r1 =>
      match t1.val with
      | .ident name =>
        (args lo r1).bind fun p => (nextInner lo "';'" p.2).bind fun r3 =>
          .ok (⟨first.line, first.col, .directive name p.1⟩, r3)
      | _ => .err (expectErr "identifier" t1)
  | .ident name =>
    match r with
    | [] =>
      match lo.err with
      | some e => .err ⟨first.line, first.col, .token e⟩   -- peeked error reported at the statement
      | none => .err (eofErr lo "<argument-list>")
    | t1 :: r1 =>
      if t1.val = .labelMark then .ok (⟨first.line, first.col, .label name⟩, r1)
      else
        (args lo r).bind fun p => (nextInner lo "';'" p.2).bind fun r3 =>
          .ok (⟨first.line, first.col, .instruction name p.1⟩, r3)
  | _ => .err (expectErr "<instruction>" first)

/-- what iterating a `Parser` to exhaustion yields: the ok elements in order and the error (if any)
after which the iterator is finished; or a panic; `.fuel` is the model artefact (never produced) -/
inductive Outcome where
  | done (els : List Element) (err : Option ParseErr)
  | panic
  | fuel
deriving Repr, Inhabited

/-- repeated `Iterator::next` -/
def allLoop (lo : LexOut) : Nat → List Token → Outcome
  | 0, _ => .fuel
  | n+1, ts =>
    match ts with
    | [] =>
      match lo.err with
      | some e => .done [] (some (tokErr e))     -- `do_next(Err(e)) => Err(e.into())`
      | none => .done [] none
    | t :: r =>
      match element lo t r with
      | .ok (el, r') =>
        match allLoop lo n r' with
        | .done els e => .done (el :: els) e
        | .panic => .panic
        | .fuel => .fuel
      | .err e => .done [] (some e)              -- `clear()`, drain: nothing follows
      | .panic => .panic
      | .fuel => .fuel

/-- `Parser::new(bytes).collect()` given what the tokenizer yields on `bytes` -/
def all (lo : LexOut) : Outcome := allLoop lo (lo.toks.length + 1) lo.toks

end Trion.Parse
