import TrionModel.Model.Map
/-!
# Operational model of `MemoryMap::put` and `MemoryMap::remove_range` — Layer B, statement by statement

`Model/Map.lean` gives `put` / `removeRange` in a recursive, proof-friendly form. This file mirrors the two
Rust functions of `src/asm/memory/map/mod.rs` STATEMENT BY STATEMENT on the same state
(`Segs = List (first × data)`, `range.last = first + data.len() − 1 = segLast`), with an explicit `.panic`
outcome at every site at which the Rust code can panic:

* `self.parts[idx]` (index out of range), `split_at_mut(idx_last)`, `split.1[0]`;
* `Vec::insert(i, …)` with `i > len`, `Vec::remove(i)` with `i ≥ len`, `parts.drain(a..b)` / `drain(a..=b)` with
  `a > b` or `b > len`, `data.drain(..n)` / `data.splice(..n, …)` with `n > len`, slices `data[a..b]`, `data[a..]`;
* `u32` / `usize` additions and subtractions that overflow under overflow-checks (`addr + (len−1) as u32`,
  `range.last + 1`, `range.first − 1`, `added -= …`, `first.data.len() - offset`, …);
* `assert!(!remove_first)`; the panics of `locate` itself (`Loc.panic`).

`usize::try_from(u32).unwrap()` cannot fail on a target whose `usize` has at least 32 bits (the harness runs on
64 bits), `Vec::truncate` never panics.

The model does not store `range.last`. Wherever the Rust code writes a `MemoryRange` next to a data vector
(`first.range.last = …`, `MemorySegment{range, data}`), the model checks that the written `last` equals
`first + data.len() − 1` and otherwise answers `.desync` (the state would not be representable); the
theorems show that `.desync` never happens either, i.e. the stored ranges stay consistent with the data.

Mutations through `let first = &mut self.parts[idx_first]` are collected in local values and written back with
`List.set` at the point where the Rust borrow ends; in between the Rust code reads only other elements
(`parts[idx]` for `idx > idx_first`), so the order is immaterial.

`Lemmas/MapOps*.lean` prove `putOps ps a d = .ok (put ps a d)` and
`removeRangeOps ps lo hi = .ok (removeRange ps lo hi)` for every `MInv` state.
-/
namespace Trion.Map

/-- a value, a Rust panic (with the source site), or a write of a `range.last` inconsistent with the data -/
inductive Out (α : Type) where
  | ok (a : α)
  | panic (site : String)
  | desync (site : String)
deriving DecidableEq, Repr, Inhabited

/-- sequencing: a panic / desync aborts -/
def Out.bind {α β : Type} (x : Out α) (f : α → Out β) : Out β :=
  match x with
  | .ok a => f a
  | .panic s => .panic s
  | .desync s => .desync s

/-! ## `Vec` primitives -/

/-- `Vec::insert(i, s)`: panics when `i > len` -/
def vecInsert (ps : Segs) (i : Nat) (s : Seg) : Out Segs :=
  if i > ps.length then .panic "Vec::insert: index > len" else .ok (ps.take i ++ s :: ps.drop i)

/-- `Vec::remove(i)`: panics when `i ≥ len` -/
def vecRemove (ps : Segs) (i : Nat) : Out Segs :=
  if i ≥ ps.length then .panic "Vec::remove: index >= len" else .ok (ps.eraseIdx i)

/-- the vector after `Vec::drain(a..b)` is dropped: panics when `a > b` or `b > len` -/
def vecDrain (ps : Segs) (a b : Nat) : Out Segs :=
  if a > b then .panic "Vec::drain: start > end"
  else if b > ps.length then .panic "Vec::drain: end > len"
  else .ok (ps.take a ++ ps.drop b)

/-- a `MemorySegment{range: first..=last, data}` as it is written by the Rust code; the model keeps no `last`,
so `last ≠ first + data.len() − 1` is reported -/
def mkSeg (first last : Nat) (data : List UInt8) (site : String) : Out Seg :=
  if last ≠ segLast (first, data) then .desync site else .ok (first, data)

/-! ## `MemoryMap::put` -/

/-- `idx_last`: `locate(addr_last.saturating_add(1), Below)` filtered by
`self.parts[idx].range.last >= addr.saturating_sub(1)` -/
def putIdxLast (ps : Segs) (addr addrLast : Nat) : Out (Option Nat) :=
  match locate ps (min (addrLast + 1) u32Max) .below with
  | .panic => .panic "locate"
  | .none => .ok none
  | .idx idx =>
    match ps[idx]? with
    | none => .panic "put: self.parts[idx] (idx_last)"
    | some s => if segLast s ≥ addr - 1 then .ok (some idx) else .ok none

/-- the block `if addr <= first.range.first {…} else {…}` of the merge arm, on `first = &mut self.parts[idx_first]`:
the new `first.data` and the running `added` (starting at `data.len()`) -/
def putFirst (first : Seg) (addr addrLast : Nat) (data : List UInt8) : Out (List UInt8 × Nat) :=
  let added := data.length
  if addr ≤ first.1 then
    if addrLast ≥ segLast first then
      -- completely replaces existing data: `added -= first.data.len(); clear; extend_from_slice(data)`
      if added < first.2.length then .panic "put: added -= first.data.len()" else
      .ok (data, added - first.2.length)
    else
      -- prepend and overwrite: `num_remove = data.len() - usize::try_from(first.range.first - addr).unwrap()`
      let off := first.1 - addr
      if data.length < off then .panic "put: data.len() - (first.range.first - addr)" else
      let numRemove := data.length - off
      -- `first.data.splice(..num_remove, data.iter().copied())`
      if numRemove > first.2.length then .panic "put: first.data.splice(..num_remove)" else
      if added < numRemove then .panic "put: added -= num_remove" else
      .ok (data ++ first.2.drop numRemove, added - numRemove)
  else
    -- `offset = usize::try_from(addr - first.range.first).unwrap()` (no underflow: `addr > first.range.first`)
    let offset := addr - first.1
    if addrLast > segLast first then
      -- overwrite and append: `num_overwrite = first.data.len() - offset; truncate(offset); extend_from_slice(data)`
      if first.2.length < offset then .panic "put: first.data.len() - offset" else
      let numOverwrite := first.2.length - offset
      if added < numOverwrite then .panic "put: added -= num_overwrite" else
      .ok (first.2.take offset ++ data, added - numOverwrite)
    else
      -- interior overwrite only: `first.data[offset..offset + data.len()].copy_from_slice(data); added = 0`
      if offset + data.length > first.2.length then .panic "put: first.data[offset..offset + data.len()]" else
      .ok (first.2.take offset ++ data ++ first.2.drop (offset + data.length), 0)

/-- `for idx in idx_first + 1..idx_last {added -= self.parts[idx].data.len();}` as `putMid ps (idx_first+1) count added`
with `count = idx_last - (idx_first + 1)` iterations -/
def putMid (ps : Segs) : Nat → Nat → Nat → Out Nat
  | _, 0, added => .ok added
  | idx, n + 1, added =>
    match ps[idx]? with
    | none => .panic "put: self.parts[idx] (middle)"
    | some s =>
      if added < s.2.length then .panic "put: added -= self.parts[idx].data.len()"
      else putMid ps (idx + 1) n (added - s.2.length)

/-- the `if addr_last < last.range.last {…} else {…}` block on `last = &split.1[0]`: new `first.data`,
new `first.range.last`, `added` -/
def putLastSeg (last : Seg) (addrLast : Nat) (fdata : List UInt8) (added : Nat) : Out (List UInt8 × Nat × Nat) :=
  if addrLast < segLast last then
    -- only partially replaces the final segment, copy what remains
    let endOff := segLast last - addrLast
    if last.2.length < endOff then .panic "put: last.data.len() - end_off" else
    let overwritten := last.2.length - endOff
    if added < overwritten then .panic "put: added -= overwritten" else
    .ok (fdata ++ last.2.drop (last.2.length - endOff), segLast last, added - overwritten)
  else
    -- nothing of the final segment remains
    if added < last.2.length then .panic "put: added -= last.data.len()" else
    .ok (fdata, addrLast, added - last.2.length)

/-- the arm `Some(idx_last) => {…}` of `put`: returns `added` and the new `parts` -/
def putMerge (ps : Segs) (addr addrLast : Nat) (data : List UInt8) (idxFirst idxLast : Nat) : Out (Nat × Segs) :=
  match ps[idxFirst]? with
  | none => .panic "put: self.parts[idx_first]"
  | some first =>
    (putFirst first addr addrLast data).bind fun (fdata, added) =>
    if idxLast > idxFirst then
      (putMid ps (idxFirst + 1) (idxLast - (idxFirst + 1)) added).bind fun added =>
      -- `self.parts.split_at_mut(idx_last)`, `&mut split.0[idx_first]` (fine: `idx_first < idx_last`), `&split.1[0]`
      if idxLast > ps.length then .panic "put: split_at_mut(idx_last)" else
      match ps[idxLast]? with
      | none => .panic "put: split.1[0]"
      | some last =>
        (putLastSeg last addrLast fdata added).bind fun (fdata, flast, added) =>
        -- `first.range.first = first.range.first.min(addr)`; end of the borrow of `first`
        (mkSeg (min first.1 addr) flast fdata "put: merged segment (several)").bind fun seg =>
        -- `self.parts.drain(idx_first + 1..=idx_last)`
        (vecDrain (ps.set idxFirst seg) (idxFirst + 1) (idxLast + 1)).bind fun ps' =>
        .ok (added, ps')
    else
      -- `first.range.first = first.range.first.min(addr); first.range.last = first.range.last.max(addr_last)`
      (mkSeg (min first.1 addr) (max (segLast first) addrLast) fdata "put: merged segment (one)").bind fun seg =>
      .ok (added, ps.set idxFirst seg)

/-- `MemoryMap::put` (precondition: `addr` is a `u32`) -/
def putOps (ps : Segs) (addr : Nat) (data : List UInt8) : Out (Except PutErr Nat × Segs) :=
  if data.isEmpty then .ok (.ok 0, ps) else
  -- `have_last = usize::try_from(u32::MAX - addr).unwrap_or(usize::MAX)`
  let haveLast := u32Max - addr
  -- `have_last.saturating_add(1)` cannot saturate on a 64-bit `usize`
  if data.length - 1 > haveLast then .ok (.error (.overflow data.length (haveLast + 1)), ps) else
  -- `addr_last = addr + (data.len() - 1) as u32`
  let addrLast := addr + (data.length - 1) % 4294967296
  if addrLast > u32Max then .panic "put: addr + (data.len() - 1) as u32" else
  -- `idx_first = locate(addr.saturating_sub(1), Above)` or `parts.len()`
  match firstIdx ps (addr - 1) with
  | .panic => .panic "locate"
  | .ok idxFirst =>
    (putIdxLast ps addr addrLast).bind fun idxLast =>
    match idxLast with
    | none =>
      (mkSeg addr addrLast data "put: new segment").bind fun seg =>
      (vecInsert ps idxFirst seg).bind fun ps' =>
      .ok (.ok data.length, ps')
    | some idxLast =>
      (putMerge ps addr addrLast data idxFirst idxLast).bind fun (added, ps') =>
      .ok (.ok added, ps')

/-! ## `MemoryMap::remove_range` -/

/-- "cut from the beginning": `seg.data.drain(..(hi + 1 - seg.range.first) as usize); seg.range.first = hi + 1` -/
def cutFront (s : Seg) (hi : Nat) : Out Seg :=
  if hi + 1 > u32Max then .panic "remove_range: range.last + 1" else
  if hi + 1 < s.1 then .panic "remove_range: range.last + 1 - seg.range.first" else
  let n := hi + 1 - s.1
  if n > s.2.length then .panic "remove_range: seg.data.drain(..n)" else
  mkSeg (hi + 1) (segLast s) (s.2.drop n) "remove_range: cut from the beginning"

/-- the part of `remove_range` after `remove_first` has been computed (on the already modified `parts`):
`match self.locate(range.last, Search::Below) {…}` -/
def removeRangeTail (ps1 : Segs) (hi firstIdx : Nat) (removeFirst : Bool) : Out Segs :=
  match locate ps1 hi .below with
  | .panic => .panic "locate"
  | .none => if removeFirst then .panic "remove_range: assert!(!remove_first)" else .ok ps1
  | .idx lastIdx =>
    if lastIdx > firstIdx then
      match ps1[lastIdx]? with
      | none => .panic "remove_range: self.parts[last_idx]"
      | some last =>
        (if hi < segLast last then (cutFront last hi).bind fun s => .ok (ps1.set lastIdx s, false)
         else .ok (ps1, true)).bind fun (ps2, removeLast) =>
        -- `self.parts.drain(first_idx + (!remove_first) as usize..last_idx + remove_last as usize)`
        vecDrain ps2 (firstIdx + (if removeFirst then 0 else 1)) (lastIdx + (if removeLast then 1 else 0))
    else
      if removeFirst then vecRemove ps1 firstIdx else .ok ps1

/-- `MemoryMap::remove_range(lo..=hi)` (precondition: `lo ≤ hi` are `u32`s) -/
def removeRangeOps (ps : Segs) (lo hi : Nat) : Out Segs :=
  match locate ps lo .above with
  | .panic => .panic "locate"
  | .none => .ok ps
  | .idx firstIdx =>
    -- match guard `range.last >= self.parts[first_idx].range.first`
    match ps[firstIdx]? with
    | none => .panic "remove_range: self.parts[first_idx]"
    | some first =>
      if hi < first.1 then .ok ps else
      if lo > first.1 ∧ hi < segLast first then
        -- only one segment is affected, but we have to split it into 2
        let startOff := lo - first.1
        let endOff := segLast first - hi
        if hi + 1 > u32Max then .panic "remove_range: range.last + 1" else
        if first.2.length < endOff then .panic "remove_range: first.data.len() - end_off" else
        (mkSeg (hi + 1) (segLast first) (first.2.drop (first.2.length - endOff)) "remove_range: split, end segment").bind
          fun endSeg =>
        if lo < 1 then .panic "remove_range: range.first - 1" else
        (mkSeg first.1 (lo - 1) (first.2.take startOff) "remove_range: split, first segment").bind fun firstSeg =>
        vecInsert (ps.set firstIdx firstSeg) (firstIdx + 1) endSeg
      else
        (if lo ≤ first.1 then
          if hi < segLast first then
            (cutFront first hi).bind fun s => .ok (ps.set firstIdx s, false)
          else .ok (ps, true)
        else
          -- `first.data.truncate((lo - first.range.first) as usize); first.range.last = lo - 1`
          if lo < 1 then .panic "remove_range: range.first - 1" else
          (mkSeg first.1 (lo - 1) (first.2.take (lo - first.1)) "remove_range: truncate").bind fun s =>
          .ok (ps.set firstIdx s, false)).bind fun (ps1, removeFirst) =>
        removeRangeTail ps1 hi firstIdx removeFirst

/-! ## Operation histories through the operational functions -/

/-- state after one operation, or the panic -/
def stepOps (ps : Segs) : Op → Out Segs
  | .put a d => (putOps ps a d).bind fun r => .ok r.2
  | .remove a => match remove ps a with
    | (.panic, _) => .panic "remove"
    | (.ok _, ps') => .ok ps'
  | .removeRange lo hi => removeRangeOps ps lo hi
  | .clear => .ok (clear ps)

/-- `MemoryMap::new()` followed by the operations, every one through the operational model -/
def runOps (ops : List Op) : Out Segs := ops.foldl (fun st op => st.bind fun ps => stepOps ps op) (.ok [])

end Trion.Map
