/-!
# Instruction values (import-free): `Register`, `Condition`, `SystemReg`, `RegisterSet`, `ImmReg`,
`Instruction` of `src/arm6m/*.rs`.

* registers are `Fin 16` (R0..R12, SP = 13, LR = 14, PC = 15), conditions `Fin 15` (`Always` = 14);
* `SystemReg` is an inductive with the numeric values of sysreg.rs;
* register sets are `Fin 65536` (the `u16` bit mask);
* immediates are `Int` with the Rust field type's range as an explicit well-formedness predicate
  (`Instr.wf`): `i32` for `ImmReg::Immediate`, `B.off`, `Bl.off`; `u16` for `Adr.off`, `Udfw.info`;
  `u8` for `Bkpt/Svc/Udf.info`.
-/
namespace Trion

abbrev Reg := Fin 16
abbrev Cond := Fin 15

def Reg.sp : Reg := 13
def Reg.lr : Reg := 14
def Reg.pc : Reg := 15
def Cond.always : Cond := 14

inductive SysReg where
  | apsr | iapsr | eapsr | xpsr | ipsr | epsr | iepsr | msp | psp | primask | control
deriving DecidableEq, Repr, Inhabited

def SysReg.toNat : SysReg → Nat
  | .apsr => 0 | .iapsr => 1 | .eapsr => 2 | .xpsr => 3 | .ipsr => 5 | .epsr => 6 | .iepsr => 7
  | .msp => 8 | .psp => 9 | .primask => 16 | .control => 20

/-- `SystemReg::try_from(u8)` -/
def SysReg.ofNat? : Nat → Option SysReg
  | 0 => some .apsr | 1 => some .iapsr | 2 => some .eapsr | 3 => some .xpsr | 5 => some .ipsr
  | 6 => some .epsr | 7 => some .iepsr | 8 => some .msp | 9 => some .psp | 16 => some .primask
  | 20 => some .control | _ => none

def SysReg.all : List SysReg :=
  [.apsr, .iapsr, .eapsr, .xpsr, .ipsr, .epsr, .iepsr, .msp, .psp, .primask, .control]

abbrev RegSet := Fin 65536

inductive ImmReg where
  | imm (v : Int)      -- `Immediate(i32)`
  | reg (r : Reg)      -- `Register(Register)`
deriving DecidableEq, Repr, Inhabited

/-- `Instruction`, constructor for constructor (58 kinds) -/
inductive Instr where
  | adc (dst rhs : Reg)
  | add (flags : Bool) (dst lhs : Reg) (rhs : ImmReg)
  | adr (dst : Reg) (off : Int)
  | and (dst rhs : Reg)
  | asr (dst value : Reg) (shift : ImmReg)
  | b (cond : Cond) (off : Int)
  | bic (dst rhs : Reg)
  | bkpt (info : Int)
  | bl (off : Int)
  | blx (off : Reg)
  | bx (off : Reg)
  | cmn (lhs rhs : Reg)
  | cmp (lhs : Reg) (rhs : ImmReg)
  | cps (enable : Bool)
  | dmb
  | dsb
  | eor (dst rhs : Reg)
  | isb
  | ldm (addr : Reg) (registers : RegSet)
  | ldr (dst addr : Reg) (off : ImmReg)
  | ldrb (dst addr : Reg) (off : ImmReg)
  | ldrh (dst addr : Reg) (off : ImmReg)
  | ldrsb (dst addr off : Reg)
  | ldrsh (dst addr off : Reg)
  | lsl (dst value : Reg) (shift : ImmReg)
  | lsr (dst value : Reg) (shift : ImmReg)
  | mov (flags : Bool) (dst : Reg) (src : ImmReg)
  | mrs (dst : Reg) (src : SysReg)
  | msr (dst : SysReg) (src : Reg)
  | mul (dst rhs : Reg)
  | mvn (dst value : Reg)
  | nop
  | orr (dst rhs : Reg)
  | pop (registers : RegSet)
  | push (registers : RegSet)
  | rev (dst value : Reg)
  | rev16 (dst value : Reg)
  | revsh (dst value : Reg)
  | ror (dst rhs : Reg)
  | rsb (dst lhs : Reg)
  | sbc (dst rhs : Reg)
  | sev
  | stm (addr : Reg) (registers : RegSet)
  | str (src addr : Reg) (off : ImmReg)
  | strb (src addr : Reg) (off : ImmReg)
  | strh (src addr : Reg) (off : ImmReg)
  | sub (flags : Bool) (dst lhs : Reg) (rhs : ImmReg)
  | svc (info : Int)
  | sxtb (dst value : Reg)
  | sxth (dst value : Reg)
  | tst (lhs rhs : Reg)
  | udf (info : Int)
  | udfw (info : Int)
  | uxtb (dst value : Reg)
  | uxth (dst value : Reg)
  | wfe
  | wfi
  | yield
deriving DecidableEq, Repr, Inhabited

def inI32 (v : Int) : Prop := -2147483648 ≤ v ∧ v ≤ 2147483647
instance (v : Int) : Decidable (inI32 v) := by unfold inI32; infer_instance

def ImmReg.wf : ImmReg → Prop
  | .imm v => inI32 v
  | .reg _ => True
instance (x : ImmReg) : Decidable x.wf := by cases x <;> (unfold ImmReg.wf; infer_instance)

/-- the value is representable in the Rust field types -/
def Instr.wf : Instr → Prop
  | .add _ _ _ r | .cmp _ r | .mov _ _ r | .sub _ _ _ r => r.wf
  | .asr _ _ s | .lsl _ _ s | .lsr _ _ s => s.wf
  | .ldr _ _ o | .ldrb _ _ o | .ldrh _ _ o | .str _ _ o | .strb _ _ o | .strh _ _ o => o.wf
  | .adr _ off => 0 ≤ off ∧ off ≤ 65535
  | .udfw info => 0 ≤ info ∧ info ≤ 65535
  | .b _ off | .bl off => inI32 off
  | .bkpt info | .svc info | .udf info => 0 ≤ info ∧ info ≤ 255
  | _ => True

end Trion
