import TrionModel.Lemmas.AsmRetrySim
import TrionModel.Lemmas.SimpStableDec
/-!
# C08 (statement level, BYTES and DIAGNOSED-OR-NOT) — the order of definition does not change what is emitted

Props/C08Asm.lean proves that a deferred statement re-run over the final table `t₂ ⊇ t₁` IS the fresh assembly over `t₂`
— state, trees and all — under the syntactic side condition `plain` on the operand trees.  That condition was needed as
long as `evaluate` was not idempotent (findings K4, K5: `-(−1 − r0) ↦ r0 − (−1)`, `0 − (l − r) ↦ −(l − r)`); after the two
repairs it is (`Props/C08Full.lean`: `evaluate_idempotent`), and Props/C08Full.lean states everything below WITHOUT any
condition on the operand trees.  The theorems of this file are the layer in between and remain as proved: they need no
idempotence where the operand has to become a number, and isolate the exact condition elsewhere.

This file states the property at the level it speaks about — does the statement assemble, and to which bytes — and
removes `plain` wherever the operand has to become a NUMBER:

* `du_bytes_order_independent` (FULL, no side condition on the tree): for `.du8/.du16/.du32`, the task that re-runs the
  left-behind operand over `t₂` completes iff the directive met with `t₂` already known completes, and then with the
  very same resulting data expression and assembler state (hence the same bytes at the same address);
  `du_value_order_independent_full` is the value form.
* `stmt_outcome_order_independent_partial`: for an instruction statement (any mnemonic, any operand trees), first
  attempt over `t₁` deferred: the re-run from the queued state over `t₂` completes iff the fresh assembly over `t₂`
  completes, and with the same instruction (so the same bytes; `placeholder_length` of Props/C08Asm.lean gives the
  length).  Operand positions of kind `Immediate` and `Offset` (branch / `BL` / `ADR` targets, `SVC`, `BKPT`, `UDF`, the
  `#0` of `RSBS`) and the non-evaluated kinds need NO condition.  At the positions of kind `ImmReg / Address /
  AddrOffset` (where a register or `[Rn + …]` shape may result) the operand tree has to satisfy `LeftStableArg t₁ t₂`:
  every value the first attempt completed before it stopped is a fixed point of `evaluate` — the EXACT condition under
  which the tree-level retry holds (Lemmas/SimpStable.lean), implied by `plain` (`leftStable_of_plain`), strictly weaker
  (`[(r1 + 1) + 1 + x]` below) and computable (`leftStable_checked`).
* `stmt_outcome_order_independent_number`: hence no condition at all for every mnemonic without such a position.
* `const_never_from_register` (the reason): an operand whose evaluation ends in a number contains no register, however
  often the evaluation was interrupted.

FULL-STRENGTH STATEMENT (no guard at the `ImmReg / Address / AddrOffset` positions): proved as
`Asm.stmt_outcome_order_independent` in Props/C08Full.lean (the guard holds for every tree: `leftStableArg_all`).
  History.  K4, on the code as it was: `.addr 0x20000000; LDRB r2, [-(-1 - r0) * x]; .const x, 1;` assembled (`42 78` =
  `LDRB r2, [r0, #1]`) while with `.const x, 1;` ABOVE the instruction the statement was refused: the `Negate` arm of
  `simplify_raw` rewrote `-(l - r)` to `r - l` WITHOUT neutralizing the new node, so `r0 - (-1)` survived a step that hands
  its operand back unchanged (`* 1`, `/ 1`, `<< 0`, `| 0`, …) on the fresh path while the retry evaluated it once more to
  `r0 + 1`.  K5, after that repair: `LDR r2, [(0 - ((0 - r0) - r1)) * x]` — `neutralize_raw` turned `0 - (-r0 - r1)` into
  `-(-r0 - r1)`, which the fresh path kept (refused) and the retry re-evaluated to `r1 + r0` (`0a 58`).  The model follows
  both repairs (`neutralize_raw` swaps `-(l - r)` and `0 - (l - r)` to `r - l` before its passes); both witnesses now agree
  in both orders (`order_independent_below/above`, `order_independent_below5/above5`).

`NoDef t₁` (no `.global/.import`-deferred entry in the table of the first attempt) is inherited from Props/C08Asm.lean.
-/
namespace Trion.Asm
open Trion

/-- `plain` implies the exact condition -/
theorem leftStable_of_plain {t₁ : Table} (t₂ : Table) (hn : Table.NoDef t₁) {a : Arg} (hp : plainArg a = true) :
    LeftStableArg t₁ t₂ a :=
  Simp.plain_leftStable _ (Table.nodef_get hn) hp

/-- C08  An operand whose evaluation ends in a NUMBER contains no register (nor string, address, list, call): `evaluate`
only ever removes constants.  Holds for the tree left by an interrupted evaluation as well. -/
theorem const_never_from_register (t : Table) (a : Arg) (v : Int) (h : evalIn t a = .ok (.complete (.const v))) :
    Simp.arith Front.isRegister a = true := by
  obtain ⟨ev, he, _⟩ := (evalIn_complete_const t a v).1 h
  exact Simp.evaluateE_const_arith Front.isRegister he

/-- C08 (data, value form, FULL)  The operand of `.du8/.du16/.du32`, whatever its tree: the tree left by a first
`evaluate` that stopped at an unknown name evaluates over the final table to the number `v` iff the original operand
does. -/
theorem du_value_order_independent_full {t₁ t₂ : Table} (hs : Table.Sub t₁ t₂) (hn : Table.NoDef t₁) (a : Arg)
    (n : Bytes) (a₁ : Arg) (h : evalIn t₁ a = .ok (.noSuch n a₁)) (v : Int) :
    evalIn t₂ a₁ = .ok (.complete (.const v)) ↔ evalIn t₂ a = .ok (.complete (.const v)) :=
  evalIn_const_retry hs hn h v

/-- C08 (data, bytes, FULL)  `.du8/.du16/.du32 <expr>` with a constant of `<expr>` defined BELOW the directive (first
`evaluate` over `t₁` stopped and left `a₁`; the task runs `DataExpr::apply` on `a₁` when the table is `t₂`) and the same
directive with the constant defined ABOVE (`apply` on the original operand `a` over `t₂`): one completes iff the other
does, and then they return the same data expression and the same assembler state — the same bytes written at the
same address.  No condition on the operand tree. -/
theorem du_bytes_order_independent {t₁ t₂ : Table} (hs : Table.Sub t₁ t₂) (hn : Table.NoDef t₁) (a : Arg)
    (n : Bytes) (a₁ : Arg) (h : evalIn t₁ a = .ok (.noSuch n a₁)) (d : DataExpr) (env : Env) (st : St)
    (ht : evalTable env st = .ok t₂) (loc : Bool) (d' : DataExpr) (st' : St) :
    ({ d with arg := a₁ } : DataExpr).apply env st loc = .ok (d', st', .completed) ↔
    ({ d with arg := a } : DataExpr).apply env st loc = .ok (d', st', .completed) := by
  rw [DataExpr.apply_completed_iff, DataExpr.apply_completed_iff]
  simp only [evalArg, ht]
  constructor
  · rintro ⟨x, he, hw⟩
    obtain ⟨v, hv⟩ := DataExpr.writer_ok_const hw
    simp only at hv
    subst hv
    exact ⟨.const v, (evalIn_const_retry hs hn h v).1 he, hw⟩
  · rintro ⟨x, he, hw⟩
    obtain ⟨v, hv⟩ := DataExpr.writer_ok_const hw
    simp only at hv
    subst hv
    exact ⟨.const v, (evalIn_const_retry hs hn h v).2 he, hw⟩

/-- C08 (instructions, outcome and bytes)  First `assemble` over `t₁` deferred and queued `fs1`.  The re-run from `fs1`
over `t₂ ⊇ t₁` completes with the instruction `i` iff the fresh assembly of the same statement over `t₂` completes with
`i`.  Condition only at the `ImmReg / Address / AddrOffset` positions: the exact tree-level retry condition
`LeftStableArg` (implied by `plain`). -/
theorem stmt_outcome_order_independent_partial {t₁ t₂ : Table} (hs : Table.Sub t₁ t₂) (hn : Table.NoDef t₁) (addr : Nat)
    (name : Bytes) (args : List Arg) (c : Bytes) (fs1 : Front.St)
    (h1 : Front.build addr name args (frontEval t₁) true = .deferred c fs1)
    (hp : ∀ t, Front.mnemonic name = some t → ∀ p ∈ List.zip (Front.kinds t) args, p.1.shape = true →
      LeftStableArg t₁ t₂ p.2) (i : Instr) :
    (∃ fs2, Front.assemble fs1 (frontEval t₂) false = (fs2, .completed) ∧ fs2.instr = i) ↔
      Front.build addr name args (frontEval t₂) true = .completed i := by
  unfold Front.build at h1
  cases hm : Front.mnemonic name with
  | none => rw [hm] at h1; cases h1
  | some t =>
    rw [hm] at h1
    simp only at h1
    cases ha : Front.assemble ⟨addr, t, 0, args⟩ (frontEval t₁) true with
    | mk st r =>
      rw [ha] at h1
      cases r with
      | completed => cases h1
      | error d => cases h1
      | panic => cases h1
      | deferred c' =>
        simp only [Front.BuildOut.deferred.injEq] at h1
        obtain ⟨rfl, rfl⟩ := h1
        have sim := Front.assemble_retry_sim (frontEval t₁) (frontEval t₂) addr t args
          (fun p hpz => growsS_any hs hn p.1 p.2 (hp t hm p hpz)) st c' ha false
        cases hf : Front.assemble ⟨addr, t, 0, args⟩ (frontEval t₂) false with
        | mk fsF rF =>
          rw [hf] at sim
          constructor
          · rintro ⟨fs2, h2, rfl⟩
            rw [h2] at sim
            have hr : rF = .completed := sim.1.1 rfl
            subst hr
            have h3 := assemble_completed_loc true hf
            simp only [Front.build, hm, h3]
            rw [sim.2 rfl]
          · intro hb
            simp only [Front.build, hm] at hb
            cases hg : Front.assemble ⟨addr, t, 0, args⟩ (frontEval t₂) true with
            | mk fsT rT =>
              rw [hg] at hb
              cases rT with
              | deferred x => cases hb
              | error x => cases hb
              | panic => cases hb
              | completed =>
                simp only [Front.BuildOut.completed.injEq] at hb
                have h3 := assemble_completed_loc false hg
                rw [hf] at h3
                simp only [Prod.mk.injEq] at h3
                obtain ⟨rfl, rfl⟩ := h3
                cases hr : Front.assemble st (frontEval t₂) false with
                | mk fs2 r2 =>
                  rw [hr] at sim
                  have h4 : r2 = .completed := sim.1.2 rfl
                  subst h4
                  exact ⟨fs2, rfl, (sim.2 rfl).trans hb⟩

/-- C08 (instructions, FULL for number operands)  For every mnemonic whose evaluated operands are all of kind
`Immediate` / `Offset` — `B`, `B<cond>`, `BL`, `ADR`, `BKPT`, `SVC`, `UDF.N`, `UDF.W`, `RSBS` — the statement needs no
condition at all: whatever the operand trees, defined-below and defined-above give the same outcome and instruction. -/
theorem stmt_outcome_order_independent_number {t₁ t₂ : Table} (hs : Table.Sub t₁ t₂) (hn : Table.NoDef t₁) (addr : Nat)
    (name : Bytes) (args : List Arg) (c : Bytes) (fs1 : Front.St)
    (h1 : Front.build addr name args (frontEval t₁) true = .deferred c fs1)
    (hk : ∀ t, Front.mnemonic name = some t → ∀ k ∈ Front.kinds t, k.shape = false) (i : Instr) :
    (∃ fs2, Front.assemble fs1 (frontEval t₂) false = (fs2, .completed) ∧ fs2.instr = i) ↔
      Front.build addr name args (frontEval t₂) true = .completed i := by
  apply stmt_outcome_order_independent_partial hs hn addr name args c fs1 h1
  intro t hm p hpz hsh
  have := hk t hm p.1 (List.of_mem_zip hpz).1
  rw [this] at hsh
  cases hsh

/-- C08 (statement level, STATE form of Props/C08Asm.lean with `plain` replaced by the exact condition)  If every operand
satisfies `LeftStableArg`, the re-run IS the fresh run: same outcome, same instruction, same argument list. -/
theorem stmt_bytes_order_independent_stable {t₁ t₂ : Table} (hs : Table.Sub t₁ t₂) (hn : Table.NoDef t₁) (addr : Nat)
    (name : Bytes) (args : List Arg) (hp : ∀ a ∈ args, LeftStableArg t₁ t₂ a) (c : Bytes) (fs1 : Front.St)
    (h1 : Front.build addr name args (frontEval t₁) true = .deferred c fs1) (loc : Bool) :
    ∃ t, Front.mnemonic name = some t ∧
      Front.assemble fs1 (frontEval t₂) loc = Front.assemble ⟨addr, t, 0, args⟩ (frontEval t₂) loc := by
  unfold Front.build at h1
  cases hm : Front.mnemonic name with
  | none => rw [hm] at h1; cases h1
  | some t =>
    rw [hm] at h1
    simp only at h1
    cases ha : Front.assemble ⟨addr, t, 0, args⟩ (frontEval t₁) true with
    | mk st r =>
      rw [ha] at h1
      cases r with
      | completed => cases h1
      | error d => cases h1
      | panic => cases h1
      | deferred c' =>
        simp only [Front.BuildOut.deferred.injEq] at h1
        obtain ⟨rfl, rfl⟩ := h1
        exact ⟨t, rfl, Front.assemble_retry _ _ addr t args (fun a ha' => grows_stable hs hn (hp a ha')) st c' ha loc⟩

/-- C08 (data, tree form under the exact condition) -/
theorem du_value_order_independent_stable {t₁ t₂ : Table} (hs : Table.Sub t₁ t₂) (hn : Table.NoDef t₁) (a : Arg)
    (hp : LeftStableArg t₁ t₂ a) (n : Bytes) (a₁ : Arg) (h : evalIn t₁ a = .ok (.noSuch n a₁)) :
    evalIn t₂ a₁ = evalIn t₂ a := data_retry_stable hs hn hp h

/-- the emitted bytes: same instruction, same address, same encoder — same bytes -/
theorem stmt_bytes_of_outcome (enc : Encoder) (fs2 : Front.St) (i : Instr) (h : fs2.instr = i) : enc fs2.instr = enc i := by
  rw [h]

/-! ### non-vacuity -/

/-- the tree of the old `Simp.resumes_false`: `(0 - (r1 - r0)) + x` -/
def exNegTree : Arg :=
  .bin .add (.bin .sub (.const 0) (.bin .sub (.ident [114, 49]) (.ident [114, 48]))) (.ident [120])

/-- `.du32 (0 - (r1 - r0)) + x` with `x = 1` defined below: the operand is NOT `plain`; before the repair of K5 the two
paths left DIFFERENT trees (`(r0 - r1) + 1` and `-(r1 - r0) + 1`).  Now `0 - (r1 - r0)` is `r0 - r1` at once, the two
paths end with the same tree — which is not a number, so both are diagnosed (`du_bytes_order_independent`). -/
example :
    plainArg exNegTree = false ∧
    evalIn [] exNegTree =
      .ok (.noSuch [120] (.bin .add (.bin .sub (.ident [114, 48]) (.ident [114, 49])) (.ident [120]))) ∧
    evalIn [([120], some 1)] (.bin .add (.bin .sub (.ident [114, 48]) (.ident [114, 49])) (.ident [120])) =
      .ok (.complete (.bin .add (.bin .sub (.ident [114, 48]) (.ident [114, 49])) (.const 1))) ∧
    evalIn [([120], some 1)] exNegTree =
      .ok (.complete (.bin .add (.bin .sub (.ident [114, 48]) (.ident [114, 49])) (.const 1))) ∧
    Table.Sub [] [([120], some 1)] ∧ Table.NoDef [] :=
  ⟨rfl, rfl, rfl, rfl, fun _ _ h => by simp [Table.find] at h, fun _ h => by simp [Table.find] at h⟩

/-- the same tree as the target of `B`: deferred, then an error on the retry and an error on the fresh assembly
(`stmt_outcome_order_independent_number`: no hypothesis about the tree) -/
example :
    (∃ fs1, Front.build 0 [66] [exNegTree] (frontEval []) true = .deferred [120] fs1 ∧
      (Front.assemble fs1 (frontEval [([120], some 1)]) false).2 = .error (.argType 0 [.const] .add)) ∧
    (∃ st, Front.build 0 [66] [exNegTree] (frontEval [([120], some 1)]) true = .error (.argType 0 [.const] .add) st) ∧
    (∀ t, Front.mnemonic [66] = some t → ∀ k ∈ Front.kinds t, k.shape = false) := by
  refine ⟨⟨_, rfl, rfl⟩, ⟨_, rfl⟩, fun t ht k hk => ?_⟩
  have : t = .b 14 0 := by
    have h : Front.mnemonic [66] = some (.b 14 0) := rfl
    rw [h] at ht; cases ht; rfl
  subst this
  simp only [Front.kinds, List.mem_singleton] at hk
  subst hk
  rfl

/-- a number operand that IS completed on both paths although it is not `plain`: `.du8 ((y * 2) * 3) + x` needs no
hypothesis either (`y = 1` known, `x = 4` defined below; both paths give 10) -/
example :
    evalIn [([121], some 1)] (.bin .add (.bin .mul (.bin .mul (.ident [121]) (.const 2)) (.const 3)) (.ident [120])) =
      .ok (.noSuch [120] (.bin .add (.const 6) (.ident [120]))) ∧
    evalIn [([121], some 1), ([120], some 4)] (.bin .add (.const 6) (.ident [120])) = .ok (.complete (.const 10)) ∧
    evalIn [([121], some 1), ([120], some 4)]
      (.bin .add (.bin .mul (.bin .mul (.ident [121]) (.const 2)) (.const 3)) (.ident [120])) = .ok (.complete (.const 10)) :=
  ⟨rfl, rfl, rfl⟩

/-- the exact condition is strictly weaker than `plain`: `LDRB r2, [((r1 + 1) + 1) + x]` — the completed value
`r1 + 2` is a fixed point of `evaluate` although `(r1 + 1) + 1` is not a `plain` left operand -/
example :
    plainArg (.addr (.bin .add (.bin .add (.bin .add (.ident [114, 49]) (.const 1)) (.const 1)) (.ident [120]))) = false ∧
    LeftStableArg [] [([120], some 2)]
      (.addr (.bin .add (.bin .add (.bin .add (.ident [114, 49]) (.const 1)) (.const 1)) (.ident [120]))) := by
  refine ⟨rfl, ?_⟩
  unfold LeftStableArg
  simp only [Simp.LeftStable]
  refine ⟨⟨⟨trivial, trivial, ?_⟩, trivial, ?_⟩, trivial, ?_⟩
  · intro e l' n r₁ _ h; simp [Simp.evaluateE] at h
  · intro e l' n r₁ _ h; simp [Simp.evaluateE] at h
  · intro e l' n r₁ h _
    have h0 : Simp.evaluateE (fun n => Table.get [] n) Front.isRegister
        (.bin .add (.bin .add (.ident [114, 49]) (.const 1)) (.const 1)) =
        .ok ⟨true, none⟩ (.bin .add (.ident [114, 49]) (.const 2)) := rfl
    rw [h0] at h
    cases h
    exact ⟨⟨false, none⟩, rfl, rfl⟩

/-- … and the statement assembles to `LDRB r2, [r1, #4]` on both paths -/
example :
    (∃ fs1, Front.build 0 [76, 68, 82, 66]
        [.ident [114, 50], .addr (.bin .add (.bin .add (.bin .add (.ident [114, 49]) (.const 1)) (.const 1)) (.ident [120]))]
        (frontEval []) true = .deferred [120] fs1 ∧
      ∃ fs2, Front.assemble fs1 (frontEval [([120], some 2)]) false = (fs2, .completed) ∧ fs2.instr = .ldrb 2 1 (.imm 4)) ∧
    Front.build 0 [76, 68, 82, 66]
        [.ident [114, 50], .addr (.bin .add (.bin .add (.bin .add (.ident [114, 49]) (.const 1)) (.const 1)) (.ident [120]))]
        (frontEval [([120], some 2)]) true = .completed (.ldrb 2 1 (.imm 4)) :=
  ⟨⟨_, rfl, _, rfl, rfl⟩, rfl⟩

end Trion.Asm

namespace Trion.Asm
open Trion

/-- `0 - ((-(r1 + 5) + 7) + x)`, the operand of `MOVS r0, 0 - ((-(r1 + 5) + 7) + x)` -/
def exTower : Arg :=
  .bin .sub (.const 0)
    (.bin .add (.bin .add (.neg (.bin .add (.ident [114, 49]) (.const 5))) (.const 7)) (.ident [120]))

/-- `MOVS r0, 0 - ((-(r1 + 5) + 7) + x)`: the first attempt completes `-(r1 + 5) + 7`.  Before the repair of K5 this gave
`-(r1 - 2)`, not a fixed point of `evaluate`; now the merge's final `neutralize` swaps it to `2 - r1`, the operand
satisfies the exact condition, and with `x = -2` both orders end in the register `r1` (real assembler: `08 00`). -/
example :
    evalIn [] exTower = .ok (.noSuch [120]
      (.bin .sub (.const 0) (.bin .add (.bin .sub (.const 2) (.ident [114, 49])) (.ident [120])))) ∧
    evalIn [([120], some (-2))]
      (.bin .sub (.const 0) (.bin .add (.bin .sub (.const 2) (.ident [114, 49])) (.ident [120]))) =
      .ok (.complete (.ident [114, 49])) ∧
    evalIn [([120], some (-2))] exTower = .ok (.complete (.ident [114, 49])) ∧
    leftStableArgB [] [([120], some (-2))] exTower = true := ⟨rfl, rfl, rfl, rfl⟩


end Trion.Asm

namespace Trion.Asm
open Trion

/-- the exact condition is CHECKABLE: `leftStableArgB t₁ t₂ a` runs `evaluate` over `t₁` along the path to the stop and
once more over `t₂` on every value completed on the way; `true` discharges the hypothesis of
`stmt_outcome_order_independent_partial` for the concrete statement and tables -/
theorem leftStable_checked {t₁ t₂ : Table} {a : Arg} (h : leftStableArgB t₁ t₂ a = true) : LeftStableArg t₁ t₂ a :=
  leftStableArgB_sound h

/-- the checker accepts `[((r1 + 1) + 1) + x]`, `[r1 + r2 + x]`, `[(r1 * 4) + x]`, `(0 - (r1 - r0)) + x` -/
example :
    leftStableArgB [] [([120], some 2)]
      (.addr (.bin .add (.bin .add (.bin .add (.ident [114, 49]) (.const 1)) (.const 1)) (.ident [120]))) = true ∧
    leftStableArgB [] [([120], some 0)]
      (.addr (.bin .add (.bin .add (.ident [114, 49]) (.ident [114, 50])) (.ident [120]))) = true ∧
    leftStableArgB [] [([120], some 0)]
      (.addr (.bin .add (.bin .mul (.ident [114, 49]) (.const 4)) (.ident [120]))) = true ∧
    leftStableArgB [] [([120], some 1)] exNegTree = true := ⟨rfl, rfl, rfl, rfl⟩

end Trion.Asm

namespace Trion.Asm
open Trion

/-! ### K4 (repaired): the statement on which the two orders used to differ -/

/-- the operand of `LDRB r2, [-(-1 - r0) * x]` as the parser delivers it -/
def exOrder : Arg :=
  .addr (.bin .mul (.neg (.bin .sub (.neg (.const 1)) (.ident [114, 48]))) (.ident [120]))

/-- K4, before the repair of the `Negate` arm of `simplify_raw`: `-(−1 − r0)` was rewritten to `r0 − (−1)` and left
un-neutralized, the fresh assembly with `x = 1` known ended with `[r0 − (−1)]` (refused, `ValueRange`) while the retry
re-evaluated the left-behind tree to `[r0 + 1]`.  With `neutralize_raw` after the swap the first attempt already leaves
`[(r0 + 1) * x]`, the operand satisfies the exact condition, and both orders give `LDRB r2, [r0, #1]`. -/
example :
    (∃ fs1, Front.build 0 [76, 68, 82, 66] [.ident [114, 50], exOrder] (frontEval []) true = .deferred [120] fs1 ∧
      fs1.args = [.ident [114, 50],
        .addr (.bin .mul (.bin .add (.ident [114, 48]) (.const 1)) (.ident [120]))] ∧
      ∃ fs2, Front.assemble fs1 (frontEval [([120], some 1)]) false = (fs2, .completed) ∧
        fs2.instr = .ldrb 2 0 (.imm 1)) ∧
    Front.build 0 [76, 68, 82, 66] [.ident [114, 50], exOrder] (frontEval [([120], some 1)]) true =
      .completed (.ldrb 2 0 (.imm 1)) ∧
    leftStableArgB [] [([120], some 1)] exOrder = true :=
  ⟨⟨_, rfl, rfl, _, rfl, rfl⟩, rfl, rfl⟩

end Trion.Asm

namespace Trion.Asm
open Trion

/-! ### K4 on the whole-pipeline model (`Asm.run`: lexer, parser, evaluator, front end, codec, regions, tasks) -/

def exBelow : Bytes := bytesOf ".addr 0x20000000;\nLDRB r2, [-(-1 - r0) * x];\n.const x, 1;\n"
def exAbove : Bytes := bytesOf ".addr 0x20000000;\n.const x, 1;\nLDRB r2, [-(-1 - r0) * x];\n"
def exOrdFs (d : Bytes) : Bytes → Option Bytes := fun p => if p = [109] then some d else none

/-- success, number of diagnostics, image -/
def exSummary (r : Result) : Option (Bool × Nat × List (Nat × Bytes)) :=
  match r with
  | .done o => some (o.success, o.diags.length, o.image)
  | _ => none

/-- `x` defined BELOW the instruction: the project assembles, image `42 78` (`LDRB r2, [r0, #1]`) at 0x20000000 -/
theorem order_independent_below : exSummary (run (exOrdFs exBelow) [109]) = some (true, 0, [(536870912, [66, 120])]) := by
  decide +kernel

/-- `x` defined ABOVE the instruction: the same image (before the repair: two diagnostics and `BE BE`) -/
theorem order_independent_above : exSummary (run (exOrdFs exAbove) [109]) = some (true, 0, [(536870912, [66, 120])]) := by
  decide +kernel

end Trion.Asm

namespace Trion.Asm
open Trion

/-! ### K5 (repaired): after the repair of K4 the two orders still differed on this statement -/

/-- the operand of `LDR r2, [(0 - ((0 - r0) - r1)) * x]` as the parser delivers it -/
def exOrder5 : Arg :=
  .addr (.bin .mul (.bin .sub (.const 0) (.bin .sub (.bin .sub (.const 0) (.ident [114, 48])) (.ident [114, 49])))
    (.ident [120]))

/-- K5, on the code with the K4 repair only: `neutralize_raw` turned `0 - (-r0 - r1)` into `-(-r0 - r1)` (its `0 - rhs ↦ -rhs`
rule did not swap a difference), not a fixed point of `evaluate`; defined ABOVE, the fresh evaluation kept it through
`* 1` and the address reader refused it, defined BELOW the re-run evaluated it once more to `r1 + r0` and completed with
`LDR r2, [r1, r0]` (`0a 58`).  With the swap `-(l - r)`, `0 - (l - r) ↦ r - l` at the top of `neutralize_raw` the first
attempt leaves `[(r1 + r0) * x]` and both orders give `LDR r2, [r1, r0]`. -/
example :
    (∃ fs1, Front.build 0 [76, 68, 82] [.ident [114, 50], exOrder5] (frontEval []) true = .deferred [120] fs1 ∧
      fs1.args = [.ident [114, 50],
        .addr (.bin .mul (.bin .add (.ident [114, 49]) (.ident [114, 48])) (.ident [120]))] ∧
      ∃ fs2, Front.assemble fs1 (frontEval [([120], some 1)]) false = (fs2, .completed) ∧
        fs2.instr = .ldr 2 1 (.reg 0)) ∧
    Front.build 0 [76, 68, 82] [.ident [114, 50], exOrder5] (frontEval [([120], some 1)]) true =
      .completed (.ldr 2 1 (.reg 0)) ∧
    leftStableArgB [] [([120], some 1)] exOrder5 = true :=
  ⟨⟨_, rfl, rfl, _, rfl, rfl⟩, rfl, rfl⟩

def exBelow5 : Bytes := bytesOf ".addr 0x20000000;\nLDR r2, [(0 - ((0 - r0) - r1)) * x];\n.const x, 1;\n"
def exAbove5 : Bytes := bytesOf ".addr 0x20000000;\n.const x, 1;\nLDR r2, [(0 - ((0 - r0) - r1)) * x];\n"

/-- K5 on the whole-pipeline model: `x` defined BELOW — image `0a 58` (`LDR r2, [r1, r0]`) -/
theorem order_independent_below5 : exSummary (run (exOrdFs exBelow5) [109]) = some (true, 0, [(536870912, [10, 88])]) := by
  decide +kernel

/-- K5: `x` defined ABOVE — the same image (before the repair: two diagnostics and `BE BE`) -/
theorem order_independent_above5 : exSummary (run (exOrdFs exAbove5) [109]) = some (true, 0, [(536870912, [10, 88])]) := by
  decide +kernel

end Trion.Asm
