import TrionModel.Lemmas.SimpE
import TrionModel.Lemmas.ShowAsm
import TrionModel.Lemmas.ShowText
import TrionModel.Lemmas.ShowDec
import TrionModel.Model.Asm
/-!
# C19 — the disassembly text of an instruction assembles back to that instruction

Models: `Show.text` (= `impl Display for InstrAt`, byte for byte), `Front.build` (= `ArmInstr::new` +
`ArmInstr::assemble`). `Show.parts i a` is the statement (mnemonic + argument trees) which the text denotes,
`Show.render` its concrete syntax. The step text → tokens → trees (that the parser reads `render p` back as
`p`) is C09–C11's subject; the canonical encoding of the resulting instruction is C01–C03's.

Hypotheses, stated in `Spec/Front.lean`:
* `Printable i a` — every field fits its Rust type, PC-relative offsets are encodable, and the PC-relative
  target lies inside the 32-bit address space (the property's side condition `targetInRange`). All values
  returned by the decoder model satisfy the first two: `decoded_printable`.
* `EvalOK eval i a` — the label the text mentions is defined as the address it names; literals and register
  names evaluate to themselves; `[R + x]` evaluates to an address operand read the same way by `addr_off`.
  Discharged for the concrete evaluator (`Simp.evaluateT` over a table defining the label): `show_assembles_eval`.
* `show_roundtrip` composes decoder → text parts → evaluator → front end → encoder → decoder on the models.
-/
namespace Trion.Show
open Trion.Front

/-- C19.a  The statement printed for `i` at `a` assembles, at `a`, to exactly `i` (hence to its canonical
encoding): mnemonic known, operand count and kinds accepted, operand order as accepted, option names as
accepted, and the label names the address from which the assembler recomputes the same offset. -/
theorem show_assembles (i : Instr) (a : Nat) (eval : Arg → EvalOut) (loc : Bool)
    (hp : Printable i a) (he : EvalOK eval i a) :
    build a (parts i a).1 (parts i a).2 eval loc = .completed i :=
  show_assembles_proof i a eval loc hp he

/-- C19.b  The mnemonic printed is in the assembler's table and selects the right template (flags,
condition, enable bit are carried by the mnemonic). -/
theorem show_mnemonic (i : Instr) (a : Nat) : mnemonic (parts i a).1 = some (template i) :=
  mnemonic_parts i a

/-- C19.c  The text `Display` prints is exactly the concrete syntax (`NAME a, b, c;`, `[R + x]`, `{R0, R1}`,
decimal integers, `l_XXXXXXXX` identifiers) of the statement `parts i a`, byte for byte — so the statement
terminator, separators and operand order printed are those of the assembler's grammar. -/
theorem text_eq_render (i : Instr) (a : Nat) : text i a = render (parts i a) :=
  text_eq_render_proof i a

/-- C19.d  The printed label is the architectural target: the statement address plus 4 (word-aligned first for
ADR and literal LDR) plus the offset, in unbounded arithmetic (`Front.alPc` / `Front.pcOf` do not wrap),
whenever that lies inside the address space -/
theorem label_is_target (i : Instr) (a : Nat) (t : Nat) (h : targetOf i a = some t) (hp : Printable i a) :
    (t : Int) = (match i with
      | .adr _ off => (Front.alPc a : Int) + off
      | .ldr _ _ (.imm off) => (Front.alPc a : Int) + off
      | .b _ off | .bl off => (Front.pcOf a : Int) + off
      | _ => t) := by
  cases i <;> simp only [targetOf] at h <;> try cases h
  case adr d off => obtain ⟨h0, h1, h4, ht⟩ := hp; exact wrapAdd_alPc _ _ (by omega) ht
  case b c off => obtain ⟨_, _, _, h0, ht⟩ := hp; exact wrapAdd_pcOf _ _ h0 ht
  case bl off => obtain ⟨_, _, _, h0, ht⟩ := hp; exact wrapAdd_pcOf _ _ h0 ht
  case ldr d ad o =>
    cases o with
    | reg r => cases h
    | imm off =>
      simp only at h
      split at h
      · rename_i h15
        cases h
        simp only [Printable, h15, if_true] at hp
        obtain ⟨h0, h1, h4, ht⟩ := hp
        exact wrapAdd_alPc _ _ (by omega) ht
      · cases h

/-- C19.e  **Every decoded instruction is printable.** Whatever bytes the decoder accepts, the instruction it
returns satisfies the hypothesis of `show_assembles` at every address at which its PC-relative target lies
inside the address space (`targetInRange`, the property's own side condition; trivially true for the
instructions without a label). -/
theorem decoded_printable (bs : List Nat) (hb : Codec.IsBytes bs) (n : Nat) (i : Instr)
    (h : Codec.decode bs = .ok (n, i)) (a : Nat) (ht : targetInRange i a) : Printable i a := by
  obtain ⟨wf, hws, he⟩ := Codec.decode_wf bs hb n i h
  exact printable_of_encode i a hws he wf ht

/-- C19.f  The disassembly text of every decoded instruction assembles back to it — hypotheses only about the
address/target, as in the property text (and the abstract evaluator assumption, discharged below). -/
theorem show_assembles_decoded (bs : List Nat) (hb : Codec.IsBytes bs) (n : Nat) (i : Instr)
    (h : Codec.decode bs = .ok (n, i)) (a : Nat) (ht : targetInRange i a)
    (eval : Arg → EvalOut) (loc : Bool) (he : EvalOK eval i a) :
    build a (parts i a).1 (parts i a).2 eval loc = .completed i :=
  show_assembles i a eval loc (decoded_printable bs hb n i h a ht) he

/-- C19.g  **With the concrete evaluator.** `eval` is `evaluate` (model `Simp.evaluateT`, registers recognised
by `Arm6M::is_register`) over a symbol table `lk` in which the label the text mentions is defined as the
address it names. Then the printed statement assembles to `i` — no abstract `EvalOK`: literals and register
names evaluate to themselves, the label to its address, `[R + x]` to an address operand `addr_off` reads the
same way (`[R + 0]` becomes `[R]`). `MemNonneg`: the evaluator rewrites `[R + -4]` to `[R - 4]`, which
`addr_off` refuses; no encodable instruction has a negative offset there. -/
theorem show_assembles_eval (i : Instr) (a : Nat) (lk : Bytes → Simp.Lookup) (eval : Arg → EvalOut)
    (hE : EvalIsSimp eval lk) (loc : Bool) (hp : Printable i a) (hm : MemNonneg i)
    (hl : ∀ t, targetOf i a = some t → lk (label t) = .found (t : Int)) :
    build a (parts i a).1 (parts i a).2 eval loc = .completed i :=
  show_assembles i a eval loc hp (evalOK_simp eval lk hE i a hl hm)

/-- the evaluator of the assembler model (`Asm.frontEval`, what `Asm` hands to `Front.assemble`) and the plain
`simpEval` are such evaluators -/
theorem frontEval_isSimp (t : Asm.Table) : EvalIsSimp (Asm.frontEval t) (fun n => t.get n) := by
  intro x ch a' h
  have hE := Simp.evaluateE_is_evaluateT (fun n => t.get n) isRegister x
  rw [h] at hE
  cases hev : Simp.evaluateE (fun n => t.get n) isRegister x with
  | ok ev a'' =>
    rw [hev] at hE
    simp only [Simp.EvE.toT, Simp.EvT.ok.injEq] at hE
    obtain ⟨h1, h2⟩ := hE
    subst h1 h2
    simp [Asm.frontEval, Asm.evalIn, hev]
  | nosuch n a'' => rw [hev] at hE; simp [Simp.EvE.toT] at hE
  | err e a'' => rw [hev] at hE; simp [Simp.EvE.toT] at hE
  | panic => rw [hev] at hE; simp [Simp.EvE.toT] at hE

theorem simpEval_isSimp (lk : Bytes → Simp.Lookup) : EvalIsSimp (simpEval lk) lk := evalIsSimp_simpEval lk

/-- C19.h  **End to end on the models.** Bytes that decode to `i` (consuming `n` of them) → the text printed for
`i` at `a` → the concrete evaluator → `Front.build` gives `i` again → `Codec.encode` accepts it and emits `n`
bytes that decode to `i`: the canonical encoding (equal to the input up to alias encodings, C03 `dec_canon`). -/
theorem show_roundtrip (bs : List Nat) (hb : Codec.IsBytes bs) (n : Nat) (i : Instr)
    (h : Codec.decode bs = .ok (n, i)) (a : Nat) (ht : targetInRange i a)
    (lk : Bytes → Simp.Lookup) (eval : Arg → EvalOut) (hE : EvalIsSimp eval lk) (loc : Bool)
    (hl : ∀ t, targetOf i a = some t → lk (label t) = .found (t : Int)) :
    ∃ i' hws, build a (parts i a).1 (parts i a).2 eval loc = .completed i' ∧ i' = i ∧
      Codec.encode i' = .ok hws ∧ 2 * hws.length = n ∧ Codec.decode (Codec.toBytes hws) = .ok (n, i) := by
  obtain ⟨wf, hws0, he0⟩ := Codec.decode_wf bs hb n i h
  obtain ⟨hws, he, hl2, hd⟩ := Codec.dec_canon bs hb n i h
  exact ⟨i, hws, show_assembles_eval i a lk eval hE loc (printable_of_encode i a hws0 he0 wf ht)
    (memNonneg_of_encode i hws0 he0) hl, rfl, he, hl2, hd⟩

/-- non-vacuity of the decoded / concrete-evaluator forms: `LDR R1, [PC + 8]` at 2 (label l_0000000C), and a
table defining that label -/
example : Codec.decode [0x02, 0x49] = .ok (2, .ldr 1 15 (.imm 8)) ∧ targetInRange (.ldr 1 15 (.imm 8)) 2 ∧
    targetOf (.ldr 1 15 (.imm 8)) 2 = some 12 ∧
    Asm.Table.get [(label 12, some 12)] (label 12) = .found 12 := by
  refine ⟨rfl, ?_, rfl, by decide⟩
  simp [targetInRange, Front.alPc]
example : MemNonneg (.ldrb 0 1 (.imm 5)) ∧ ¬ MemNonneg (.ldrb 0 1 (.imm (-5))) := by
  constructor
  · intro ad v h; simp [memOf] at h; omega
  · intro h; have := h 1 (-5) rfl; omega

/-- non-vacuity: a backward conditional branch at 0x20000000 and a PC-relative load are `Printable` -/
example : Printable (.b 0 (-4)) 0x20000000 ∧ Printable (.ldr 1 15 (.imm 8)) 2 ∧ Printable (.push 0x40F0) 0 ∧
    Printable (.b 14 (-16)) 0xFFFFFFFC := by
  refine ⟨?_, ?_, trivial, ?_⟩ <;> simp [Printable, bLo, bHi, Front.pcOf, Front.alPc] <;> decide

/-- the side condition is needed: at 0 a branch by −8 has no target inside the address space, and the text
(`B l_FFFFFFFC;`) does not assemble back -/
example : ¬ Printable (.b 14 (-8)) 0 := by simp [Printable, Front.pcOf]

end Trion.Show
