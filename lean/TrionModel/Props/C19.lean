import TrionModel.Lemmas.SimpE
import TrionModel.Lemmas.ShowAsm
import TrionModel.Lemmas.ShowText
import TrionModel.Lemmas.ShowDec
import TrionModel.Model.Asm
import TrionModel.Lemmas.ShowParts
import TrionModel.Lemmas.ShowProg
import TrionModel.Props.C09
import TrionModel.Props.C01
/-!
# C19 — the disassembly text of an instruction assembles back to that instruction

Models: `Show.text` (= `impl Display for InstrAt`, byte for byte), `Front.build` (= `ArmInstr::new` +
`ArmInstr::assemble`). `Show.parts i a` is the statement (mnemonic + argument trees) which the text denotes,
`Show.render` its concrete syntax. The step text → tokens → trees (that the parser reads `render p` back as
`p`) is C09–C11's subject; the canonical encoding of the resulting instruction is C01–C03's.

Hypotheses, stated in `Spec/Front.lean`:
* `Printable i a` — every field fits its Rust type, PC-relative offsets are encodable, and the PC-relative
  target lies inside the 32-bit address space (the property's side condition `targetInRange`). All values
  returned by the decoder model satisfy the first two: `decoded_printable`.
* `EvalOK eval i a` — the label the text mentions is defined as the address it names; literals and register
  names evaluate to themselves; `[R + x]` evaluates to an address operand read the same way by `addr_off`.
  Discharged for the concrete evaluator (`Simp.evaluateT` over a table defining the label): `show_assembles_eval`.
* `show_roundtrip` composes decoder → text parts → evaluator → front end → encoder → decoder on the models.
-/
namespace Trion.Show
open Trion.Front

/-- C19.a  The statement printed for `i` at `a` assembles, at `a`, to exactly `i` (hence to its canonical
encoding): mnemonic known, operand count and kinds accepted, operand order as accepted, option names as
accepted, and the label names the address from which the assembler recomputes the same offset. -/
theorem show_assembles (i : Instr) (a : Nat) (eval : Arg → EvalOut) (loc : Bool)
    (hp : Printable i a) (he : EvalOK eval i a) :
    build a (parts i a).1 (parts i a).2 eval loc = .completed i :=
  show_assembles_proof i a eval loc hp he

/-- C19.b  The mnemonic printed is in the assembler's table and selects the right template (flags,
condition, enable bit are carried by the mnemonic). -/
theorem show_mnemonic (i : Instr) (a : Nat) : mnemonic (parts i a).1 = some (template i) :=
  mnemonic_parts i a

/-- C19.c  The text `Display` prints is exactly the concrete syntax (`NAME a, b, c;`, `[R + x]`, `{R0, R1}`,
decimal integers, `l_XXXXXXXX` identifiers) of the statement `parts i a`, byte for byte — so the statement
terminator, separators and operand order printed are those of the assembler's grammar. -/
theorem text_eq_render (i : Instr) (a : Nat) : text i a = render (parts i a) :=
  text_eq_render_proof i a

/-- C19.d  The printed label is the architectural target: the statement address plus 4 (word-aligned first for
ADR and literal LDR) plus the offset, in unbounded arithmetic (`Front.alPc` / `Front.pcOf` do not wrap),
whenever that lies inside the address space -/
theorem label_is_target (i : Instr) (a : Nat) (t : Nat) (h : targetOf i a = some t) (hp : Printable i a) :
    (t : Int) = (match i with
      | .adr _ off => (Front.alPc a : Int) + off
      | .ldr _ _ (.imm off) => (Front.alPc a : Int) + off
      | .b _ off | .bl off => (Front.pcOf a : Int) + off
      | _ => t) := by
  cases i <;> simp only [targetOf] at h <;> try cases h
  case adr d off => obtain ⟨h0, h1, h4, ht⟩ := hp; exact wrapAdd_alPc _ _ (by omega) ht
  case b c off => obtain ⟨_, _, _, h0, ht⟩ := hp; exact wrapAdd_pcOf _ _ h0 ht
  case bl off => obtain ⟨_, _, _, h0, ht⟩ := hp; exact wrapAdd_pcOf _ _ h0 ht
  case ldr d ad o =>
    cases o with
    | reg r => cases h
    | imm off =>
      simp only at h
      split at h
      · rename_i h15
        cases h
        simp only [Printable, h15, if_true] at hp
        obtain ⟨h0, h1, h4, ht⟩ := hp
        exact wrapAdd_alPc _ _ (by omega) ht
      · cases h

/-- C19.e  **Every decoded instruction is printable.** Whatever bytes the decoder accepts, the instruction it
returns satisfies the hypothesis of `show_assembles` at every address at which its PC-relative target lies
inside the address space (`targetInRange`, the property's own side condition; trivially true for the
instructions without a label). -/
theorem decoded_printable (bs : List Nat) (hb : Codec.IsBytes bs) (n : Nat) (i : Instr)
    (h : Codec.decode bs = .ok (n, i)) (a : Nat) (ht : targetInRange i a) : Printable i a := by
  obtain ⟨wf, hws, he⟩ := Codec.decode_wf bs hb n i h
  exact printable_of_encode i a hws he wf ht

/-- C19.f  The disassembly text of every decoded instruction assembles back to it — hypotheses only about the
address/target, as in the property text (and the abstract evaluator assumption, discharged below). -/
theorem show_assembles_decoded (bs : List Nat) (hb : Codec.IsBytes bs) (n : Nat) (i : Instr)
    (h : Codec.decode bs = .ok (n, i)) (a : Nat) (ht : targetInRange i a)
    (eval : Arg → EvalOut) (loc : Bool) (he : EvalOK eval i a) :
    build a (parts i a).1 (parts i a).2 eval loc = .completed i :=
  show_assembles i a eval loc (decoded_printable bs hb n i h a ht) he

/-- C19.g  **With the concrete evaluator.** `eval` is `evaluate` (model `Simp.evaluateT`, registers recognised
by `Arm6M::is_register`) over a symbol table `lk` in which the label the text mentions is defined as the
address it names. Then the printed statement assembles to `i` — no abstract `EvalOK`: literals and register
names evaluate to themselves, the label to its address, `[R + x]` to an address operand `addr_off` reads the
same way (`[R + 0]` becomes `[R]`). `MemNonneg`: the evaluator rewrites `[R + -4]` to `[R - 4]`, which
`addr_off` refuses; no encodable instruction has a negative offset there. -/
theorem show_assembles_eval (i : Instr) (a : Nat) (lk : Bytes → Simp.Lookup) (eval : Arg → EvalOut)
    (hE : EvalIsSimp eval lk) (loc : Bool) (hp : Printable i a) (hm : MemNonneg i)
    (hl : ∀ t, targetOf i a = some t → lk (label t) = .found (t : Int)) :
    build a (parts i a).1 (parts i a).2 eval loc = .completed i :=
  show_assembles i a eval loc hp (evalOK_simp eval lk hE i a hl hm)

/-- the evaluator of the assembler model (`Asm.frontEval`, what `Asm` hands to `Front.assemble`) and the plain
`simpEval` are such evaluators -/
theorem frontEval_isSimp (t : Asm.Table) : EvalIsSimp (Asm.frontEval t) (fun n => t.get n) := by
  intro x ch a' h
  have hE := Simp.evaluateE_is_evaluateT (fun n => t.get n) isRegister x
  rw [h] at hE
  cases hev : Simp.evaluateE (fun n => t.get n) isRegister x with
  | ok ev a'' =>
    rw [hev] at hE
    simp only [Simp.EvE.toT, Simp.EvT.ok.injEq] at hE
    obtain ⟨h1, h2⟩ := hE
    subst h1 h2
    simp [Asm.frontEval, Asm.evalIn, hev]
  | nosuch n a'' => rw [hev] at hE; simp [Simp.EvE.toT] at hE
  | err e a'' => rw [hev] at hE; simp [Simp.EvE.toT] at hE
  | panic => rw [hev] at hE; simp [Simp.EvE.toT] at hE

theorem simpEval_isSimp (lk : Bytes → Simp.Lookup) : EvalIsSimp (simpEval lk) lk := evalIsSimp_simpEval lk

/-- C19.h  **End to end on the models.** Bytes that decode to `i` (consuming `n` of them) → the text printed for
`i` at `a` → the concrete evaluator → `Front.build` gives `i` again → `Codec.encode` accepts it and emits `n`
bytes that decode to `i`: the canonical encoding (equal to the input up to alias encodings, C03 `dec_canon`). -/
theorem show_roundtrip (bs : List Nat) (hb : Codec.IsBytes bs) (n : Nat) (i : Instr)
    (h : Codec.decode bs = .ok (n, i)) (a : Nat) (ht : targetInRange i a)
    (lk : Bytes → Simp.Lookup) (eval : Arg → EvalOut) (hE : EvalIsSimp eval lk) (loc : Bool)
    (hl : ∀ t, targetOf i a = some t → lk (label t) = .found (t : Int)) :
    ∃ i' hws, build a (parts i a).1 (parts i a).2 eval loc = .completed i' ∧ i' = i ∧
      Codec.encode i' = .ok hws ∧ 2 * hws.length = n ∧ Codec.decode (Codec.toBytes hws) = .ok (n, i) := by
  obtain ⟨wf, hws0, he0⟩ := Codec.decode_wf bs hb n i h
  obtain ⟨hws, he, hl2, hd⟩ := Codec.dec_canon bs hb n i h
  exact ⟨i, hws, show_assembles_eval i a lk eval hE loc (printable_of_encode i a hws0 he0 wf ht)
    (memNonneg_of_encode i hws0 he0) hl, rfl, he, hl2, hd⟩


/-! ## text → tokens → trees

`Lex.Piece`, `Lex.Valid`, `Lex.lexed`, `Lex.tokens_pieces` (`Lemmas/LexPieces.lean`): a text cut into white space and
single tokens is read back by the tokenizer as exactly those tokens, each positioned (by `Pos.adv`, the position
specification of C12) at its first byte. `stmtPieces` (`Lemmas/ShowLex.lean`) cuts `render p` that way.
`LitOk i` (`Lemmas/ShowParts.lean`): the integer literals in the text of `i` are not negative (`-5` is read as the
unary minus of the literal 5, the tree `neg (const 5)`, not `const (-5)`) — true of everything the encoder accepts. -/

/-- C19.i  **The tokenizer reads the disassembly text back.** `Tokenizer::new(text i a)` iterated to exhaustion
yields no error and exactly the tokens of the printed statement: the mnemonic as ONE identifier (`UDF.N`, `UDF.W`
included: `.` continues an identifier), register names and `l_XXXXXXXX` labels as identifiers, decimal integers as
numbers with their value, `,` `;` `[` `]` `{` `}` `+`; single blanks are skipped. Each token is positioned at its
first byte (`Lex.lexed (1, 1)`: line 1, column 1 + byte offset), the end position is that of the end of the text,
and the token values are `Render.elemVal` of the instruction statement `parts i a` — the rendering C09 parses back. -/
theorem lex_show (i : Instr) (a : Nat) (hl : LitOk i) :
    Lex.tokens (text i a) =
      .ok ⟨Lex.lexed (1, 1) (stmtPieces (parts i a)), none, (Pos.of (text i a)).1, (Pos.of (text i a)).2⟩ ∧
    (Lex.lexed (1, 1) (stmtPieces (parts i a))).map (·.val) =
      Render.elemVal (.instruction (parts i a).1 (Args.ofList (parts i a).2)) := by
  have hargs := args_ok i a hl
  have hb : Lex.pbytes (stmtPieces (parts i a)) = text i a := by
    rw [pbytes_stmt _ hargs, text_eq_render]
  have hv := valid_stmt (parts i a) (name_ok i a) hargs none
  refine ⟨?_, ?_⟩
  · have := Lex.tokens_pieces _ hv
    rw [hb] at this
    rw [this, Pos.of_eq_adv]
  · rw [Lex.lexed_vals, tokVals_stmt _ hargs]

/-- C19.j  **The parser reads the tokens back** (C09 `stmt_roundtrip` / `program_roundtrip` applied to `lex_show`):
lexing and parsing the disassembly text of `i` at `a` yields exactly one element, at 1:1, no error: the instruction
statement whose name is the printed mnemonic and whose argument trees are `Show.parts i a`. -/
theorem parse_show (i : Instr) (a : Nat) (hl : LitOk i) :
    ∃ lo, Lex.tokens (text i a) = .ok lo ∧ lo.err = none ∧
      Parse.all lo = .done [⟨1, 1, .instruction (parts i a).1 (Args.ofList (parts i a).2)⟩] none := by
  obtain ⟨h1, h2⟩ := lex_show i a hl
  refine ⟨_, h1, rfl, ?_⟩
  have hargs := args_ok i a hl
  -- the first token is the mnemonic at 1:1
  generalize hts : Lex.lexed (1, 1) (stmtPieces (parts i a)) = ts at h2
  have hfirst : ∃ body, ts = ⟨1, 1, .ident (parts i a).1⟩ :: body := by
    rw [← hts]; exact ⟨_, rfl⟩
  obtain ⟨body, rfl⟩ := hfirst
  have := Parse.program_roundtrip
    [(ElemVal.instruction (parts i a).1 (Args.ofList (parts i a).2), (⟨1, 1, .ident (parts i a).1⟩ : Token), body)]
    (by intro x hx; simp at hx; subst hx; exact ⟨stmt_wf _ (name_ok i a) hargs, h2⟩)
    (Pos.of (text i a)).1 (Pos.of (text i a)).2
  simpa [Parse.progToks, Parse.progElems] using this

/-- every instruction the encoder accepts — in particular every decoded one — satisfies `LitOk` -/
theorem decoded_litOk (bs : List Nat) (hb : Codec.IsBytes bs) (n : Nat) (i : Instr)
    (h : Codec.decode bs = .ok (n, i)) : LitOk i := by
  obtain ⟨wf, hws, he⟩ := Codec.decode_wf bs hb n i h
  exact litOk_of_encode i hws he wf

/-- C19.k  **End to end on text.** Bytes that decode to `i` → the text `Display` prints for `i` at `a` → the tokenizer
→ the parser give exactly one instruction statement `name args`; `Front.build` of that statement at `a`, with the
concrete evaluator over any symbol table that defines the label the text mentions as the address it names, gives
`i` again; the encoder accepts it and its bytes are the canonical encoding, which decodes to `i`. -/
theorem show_text_roundtrip (bs : List Nat) (hb : Codec.IsBytes bs) (n : Nat) (i : Instr)
    (h : Codec.decode bs = .ok (n, i)) (a : Nat) (ht : targetInRange i a)
    (lk : Bytes → Simp.Lookup) (eval : Arg → EvalOut) (hE : EvalIsSimp eval lk) (loc : Bool)
    (hl : ∀ t, targetOf i a = some t → lk (label t) = .found (t : Int)) :
    ∃ lo name args hws, Lex.tokens (text i a) = .ok lo ∧ lo.err = none ∧
      Parse.all lo = .done [⟨1, 1, .instruction name args⟩] none ∧
      build a name args.toList eval loc = .completed i ∧
      Codec.encode i = .ok hws ∧ 2 * hws.length = n ∧ Codec.decode (Codec.toBytes hws) = .ok (n, i) ∧
      Arm.decode hws = some i := by
  obtain ⟨lo, h1, h2, h3⟩ := parse_show i a (decoded_litOk bs hb n i h)
  obtain ⟨i', hws, hbld, hi, he, hn, hd⟩ := show_roundtrip bs hb n i h a ht lk eval hE loc hl
  subst hi
  obtain ⟨wf, _, _⟩ := Codec.decode_wf bs hb n i' h
  exact ⟨lo, _, _, hws, h1, h2, h3, by rw [toList_ofList]; exact hbld, he, hn, hd, Codec.enc_sound i' hws he wf⟩


/-- C19.l  **Through the whole pipeline model.** `progText i a` (`Lemmas/ShowProg.lean`) is the program
`.addr <a>;` ⏎ [`.const l_XXXXXXXX, <target>;` ⏎ — only if the text mentions a label] `<Show.text i a>`.
For bytes that decode to `i` (`n` of them), an address `a` at which the PC-relative target lies inside the address
space and `a + n ≤ 2^32`: `Asm.run` — tokenizer, parser, `.addr`, `.const`, the instruction statement with the real
evaluator model over the real constant table, front end, encoder, output regions, local task loop, `close_segment`,
`finalize` — on any file system whose main file is that program SUCCEEDS, records NO diagnostic, and its image is
exactly one region: the canonical encoding of `i` (same length `n`, decodes to `i`, and is the ARMv6-M table's
encoding of `i`) at address `a`. -/
theorem show_run (bs : List Nat) (hb : Codec.IsBytes bs) (n : Nat) (i : Instr)
    (h : Codec.decode bs = .ok (n, i)) (a : Nat) (ht : targetInRange i a) (hfit : a + n ≤ 4294967296)
    (fs : Bytes → Option Bytes) (main : Bytes) (hfs : fs main = some (progText i a)) :
    ∃ hws, Codec.encode i = .ok hws ∧ 2 * hws.length = n ∧ Codec.decode (Codec.toBytes hws) = .ok (n, i) ∧
      Arm.decode hws = some i ∧
      Asm.run fs main = .done ⟨true, none, true, [], [(a, (Codec.toBytes hws).map (·.toUInt8))]⟩ := by
  obtain ⟨i', hws, hbld, hi, he, hn, hd⟩ := show_roundtrip bs hb n i h a ht (fun x => (progTable i a).get x)
    (Asm.frontEval (progTable i a)) (frontEval_isSimp _) true (progTable_get i a)
  subst hi
  obtain ⟨wf, _, _⟩ := Codec.decode_wf bs hb n i' h
  have hlen := (Codec.enc_len i' hws he wf).1
  exact ⟨hws, he, hn, hd, Codec.enc_sound i' hws he wf,
    run_prog i' a (decoded_litOk bs hb n i' h) hws he hlen (by omega) hbld fs main hfs⟩

/-- non-vacuity: the program for `BEQ` back to its own address (`0xFE 0xD0` at 0x20000000) -/
example : progText (.b 0 (-4)) 0x20000000 = bytesOf ".addr 536870912;\n.const l_20000000, 536870912;\nBEQ l_20000000;" ∧
    Codec.decode [0xFE, 0xD0] = .ok (2, .b 0 (-4)) ∧ targetInRange (.b 0 (-4)) 0x20000000 := by
  refine ⟨by decide, rfl, ?_⟩
  simp [targetInRange, Front.pcOf]
example : progText (.nop) 8 = bytesOf ".addr 8;\nNOP;" := by decide

/-- non-vacuity / the columns: `LDR R1, [SP + 8];` -/
example : text (.ldr 1 13 (.imm 8)) 0 = bytesOf "LDR R1, [SP + 8];" ∧
    Lex.lexed (1, 1) (stmtPieces (parts (.ldr 1 13 (.imm 8)) 0)) =
      [⟨1, 1, .ident (bytesOf "LDR")⟩, ⟨1, 5, .ident (bytesOf "R1")⟩, ⟨1, 7, .sep⟩, ⟨1, 9, .lbrack⟩,
       ⟨1, 10, .ident (bytesOf "SP")⟩, ⟨1, 13, .plus⟩, ⟨1, 15, .num 8⟩, ⟨1, 16, .rbrack⟩, ⟨1, 17, .term⟩] ∧
    LitOk (.ldr 1 13 (.imm 8)) := by
  refine ⟨by decide, by decide, ?_⟩
  intro v hv; simp [litOf] at hv; subst hv; decide
example : text (.udfw 300) 0 = bytesOf "UDF.W 300;" ∧
    Lex.lexed (1, 1) (stmtPieces (parts (.udfw 300) 0)) =
      [⟨1, 1, .ident (bytesOf "UDF.W")⟩, ⟨1, 7, .num 300⟩, ⟨1, 10, .term⟩] := by
  refine ⟨by decide, by decide⟩
/-- `LitOk` is needed: `ADDS R0, R0, -1;` lexes to `… , - 1 ;` and parses to `neg (const 1)`, not `const (-1)` -/
example : ¬ LitOk (.add true 0 0 (.imm (-1))) := by
  intro h; have := h (-1) rfl; omega

/-- non-vacuity of the decoded / concrete-evaluator forms: `LDR R1, [PC + 8]` at 2 (label l_0000000C), and a
table defining that label -/
example : Codec.decode [0x02, 0x49] = .ok (2, .ldr 1 15 (.imm 8)) ∧ targetInRange (.ldr 1 15 (.imm 8)) 2 ∧
    targetOf (.ldr 1 15 (.imm 8)) 2 = some 12 ∧
    Asm.Table.get [(label 12, some 12)] (label 12) = .found 12 := by
  refine ⟨rfl, ?_, rfl, by decide⟩
  simp [targetInRange, Front.alPc]
example : MemNonneg (.ldrb 0 1 (.imm 5)) ∧ ¬ MemNonneg (.ldrb 0 1 (.imm (-5))) := by
  constructor
  · intro ad v h; simp [memOf] at h; omega
  · intro h; have := h 1 (-5) rfl; omega

/-- non-vacuity: a backward conditional branch at 0x20000000 and a PC-relative load are `Printable` -/
example : Printable (.b 0 (-4)) 0x20000000 ∧ Printable (.ldr 1 15 (.imm 8)) 2 ∧ Printable (.push 0x40F0) 0 ∧
    Printable (.b 14 (-16)) 0xFFFFFFFC := by
  refine ⟨?_, ?_, trivial, ?_⟩ <;> simp [Printable, bLo, bHi, Front.pcOf, Front.alPc] <;> decide

/-- the side condition is needed: at 0 a branch by −8 has no target inside the address space, and the text
(`B l_FFFFFFFC;`) does not assemble back -/
example : ¬ Printable (.b 14 (-8)) 0 := by simp [Printable, Front.pcOf]

end Trion.Show
