import TrionModel.Model.Front
import TrionModel.Model.Show
/-!
# C19 — the disassembly text of an instruction assembles back to that instruction
(first instalment)
-/
namespace Trion.Show
open Trion.Front
set_option maxRecDepth 4000

/-- every conditional-branch mnemonic the disassembler prints is in the assembler's table -/
theorem show_branch_known : ∀ c : Cond, (mnemonic (bytesOf "B" ++ condName c)).isSome := by decide

end Trion.Show
