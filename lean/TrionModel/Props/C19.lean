import TrionModel.Lemmas.ShowAsm
import TrionModel.Lemmas.ShowText
/-!
# C19 — the disassembly text of an instruction assembles back to that instruction

Models: `Show.text` (= `impl Display for InstrAt`, byte for byte), `Front.build` (= `ArmInstr::new` +
`ArmInstr::assemble`). `Show.parts i a` is the statement (mnemonic + argument trees) which the text denotes,
`Show.render` its concrete syntax. The step text → tokens → trees (that the parser reads `render p` back as
`p`) is C09–C11's subject; the canonical encoding of the resulting instruction is C01–C03's.

Hypotheses, stated in `Spec/Front.lean`:
* `Printable i a` — every field fits its Rust type, PC-relative offsets are encodable, and the PC-relative
  target lies inside the 32-bit address space (the property's side condition). All values returned by
  `Instruction::decode` satisfy the first two (checked on every decoded pattern by the harness).
* `EvalOK eval i a` — the label the text mentions is defined as the address it names; literals and register
  names evaluate to themselves; `[R + x]` evaluates to an address operand read the same way by `addr_off`.
-/
namespace Trion.Show
open Trion.Front

/-- C19.a  The statement printed for `i` at `a` assembles, at `a`, to exactly `i` (hence to its canonical
encoding): mnemonic known, operand count and kinds accepted, operand order as accepted, option names as
accepted, and the label names the address from which the assembler recomputes the same offset. -/
theorem show_assembles (i : Instr) (a : Nat) (eval : Arg → EvalOut) (loc : Bool)
    (hp : Printable i a) (he : EvalOK eval i a) :
    build a (parts i a).1 (parts i a).2 eval loc = .completed i :=
  show_assembles_proof i a eval loc hp he

/-- C19.b  The mnemonic printed is in the assembler's table and selects the right template (flags,
condition, enable bit are carried by the mnemonic). -/
theorem show_mnemonic (i : Instr) (a : Nat) : mnemonic (parts i a).1 = some (template i) :=
  mnemonic_parts i a

/-- C19.c  The text `Display` prints is exactly the concrete syntax (`NAME a, b, c;`, `[R + x]`, `{R0, R1}`,
decimal integers, `l_XXXXXXXX` identifiers) of the statement `parts i a`, byte for byte — so the statement
terminator, separators and operand order printed are those of the assembler's grammar. -/
theorem text_eq_render (i : Instr) (a : Nat) : text i a = render (parts i a) :=
  text_eq_render_proof i a

/-- C19.d  The printed label is the architectural target: the statement address plus 4 (word-aligned first for
ADR and literal LDR) plus the offset, in unbounded arithmetic (`Front.alPc` / `Front.pcOf` do not wrap),
whenever that lies inside the address space -/
theorem label_is_target (i : Instr) (a : Nat) (t : Nat) (h : targetOf i a = some t) (hp : Printable i a) :
    (t : Int) = (match i with
      | .adr _ off => (Front.alPc a : Int) + off
      | .ldr _ _ (.imm off) => (Front.alPc a : Int) + off
      | .b _ off | .bl off => (Front.pcOf a : Int) + off
      | _ => t) := by
  cases i <;> simp only [targetOf] at h <;> try cases h
  case adr d off => obtain ⟨h0, h1, h4, ht⟩ := hp; exact wrapAdd_alPc _ _ (by omega) ht
  case b c off => obtain ⟨_, _, _, h0, ht⟩ := hp; exact wrapAdd_pcOf _ _ h0 ht
  case bl off => obtain ⟨_, _, _, h0, ht⟩ := hp; exact wrapAdd_pcOf _ _ h0 ht
  case ldr d ad o =>
    cases o with
    | reg r => cases h
    | imm off =>
      simp only at h
      split at h
      · rename_i h15
        cases h
        simp only [Printable, h15, if_true] at hp
        obtain ⟨h0, h1, h4, ht⟩ := hp
        exact wrapAdd_alPc _ _ (by omega) ht
      · cases h

/-- non-vacuity: a backward conditional branch at 0x20000000 and a PC-relative load are `Printable` -/
example : Printable (.b 0 (-4)) 0x20000000 ∧ Printable (.ldr 1 15 (.imm 8)) 2 ∧ Printable (.push 0x40F0) 0 ∧
    Printable (.b 14 (-16)) 0xFFFFFFFC := by
  refine ⟨?_, ?_, trivial, ?_⟩ <;> simp [Printable, bLo, bHi, Front.pcOf, Front.alPc] <;> decide

/-- the side condition is needed: at 0 a branch by −8 has no target inside the address space, and the text
(`B l_FFFFFFFC;`) does not assemble back -/
example : ¬ Printable (.b 14 (-8)) 0 := by simp [Printable, Front.pcOf]

end Trion.Show
