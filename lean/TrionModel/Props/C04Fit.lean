import TrionModel.Props.C06Invalid
/-!
# C04 — the near-wrap case: an encodable statement whose bytes do not fit below 2^32

`run_defs_stmt`/`run_text`/`run_any` need `A + 2·hws.length ≤ 2^32`; the `*_diag*` theorems need "no encodable meaning".
Here the third case: the statement has an encodable meaning but the region cannot take its bytes
(e.g. `.addr 0xFFFFFFFE; BL 0xFFFFFFF0;`): `write_instr` reports `SegmentError::Overflow`, `Asm.run` does not succeed, the
only diagnostic is that one, at the statement, and nothing is placed (the image is empty).  With it the dichotomy theorems
become trichotomies without a bare implication (`run_defs_stmt3`, `run_any3`).
-/
namespace Trion.C04
open Trion Trion.Front Trion.Asm

/-- the instruction statement when `build` completes and the encoder accepts but the open region has no room -/
theorem instr_nofit (fs : Bytes → Option Bytes) (inc : Asm.Inc) (env : Asm.Env) (st : Asm.St) (tbl : Asm.Table)
    (henv : env.paths ≠ []) (hl : st.locals = some tbl) (l c : Nat) (name : Bytes) (args : Args)
    (map : Map.Segs) (seg : Seg.Active) (pending : List (Nat × Nat)) (hs : st.seg = ⟨map, some seg, pending⟩)
    (i : Instr) (hb : Front.build seg.cur name args.toList (Asm.frontEval tbl) true = .completed i)
    (hws : List Nat) (he : Codec.encode i = .ok hws) (hle : seg.buf.length ≤ seg.maxLen)
    (hnofit : ¬ (seg.buf.length + 2 * hws.length ≤ seg.maxLen)) :
    Asm.statement fs Asm.encoder inc env st ⟨l, c, .instruction name args⟩ =
      .ok (st.push env l c (.instrAssemble (.asmWrite (.overflow (2 * hws.length) (seg.maxLen - seg.buf.length)))), .err .fatal) := by
  have hwf : i.wf := build_wf_proof _ _ _ _ _ i hb
  have hlen := (Codec.enc_len i hws he hwf).1
  have henc := Asm.encoder_ok i hws he (by omega)
  have hbl : ((Codec.toBytes hws).map (·.toUInt8)).length = 2 * hws.length := by simp [Asm.toBytes_length]
  have hpaths : env.paths.isEmpty = false := by cases h : env.paths with | nil => exact absurd h henv | cons => rfl
  unfold Front.build at hb
  cases hm : Front.mnemonic name with
  | none => simp [hm] at hb
  | some t =>
    simp only [hm] at hb
    cases ha : Front.assemble { addr := seg.cur, instr := t, argsDone := 0, args := args.toList } (Asm.frontEval tbl) true with
    | mk fst out =>
      rw [ha] at hb
      cases out with
      | completed =>
        simp only at hb
        have hi : fst.instr = i := by injection hb
        have hrem : seg.remaining = some (seg.maxLen - seg.buf.length) := by simp [Seg.Active.remaining, hle]
        have hgt : ¬ ((Codec.toBytes hws).map (·.toUInt8)).length ≤ seg.maxLen - seg.buf.length := by rw [hbl]; omega
        have hgt' : ¬ 2 * hws.length ≤ seg.maxLen - seg.buf.length := by omega
        cases st with
        | mk sseg g lo gt lt er =>
          simp only at hs hl
          subst hs hl
          simp only [Asm.statement, Option.isNone_some, Bool.false_eq_true, if_false, Asm.instruction, Asm.currAddr, Option.map_some,
            hm, Asm.ArmInstr.assemble, Asm.evalTable, hpaths, Asm.evalPanics_false, ha, Asm.ArmInstr.writeInstr, hi, henc,
            Asm.writeStmt, Bool.not_false, Option.isSome_some, Bool.and_self, if_true, Asm.segStep, Seg.step, Seg.Active.write,
            hrem, hgt, hgt', hbl, Asm.St.push, Asm.St.pushIn]
      | deferred c => simp at hb
      | error d => simp at hb
      | panic => simp at hb

/-- C04f.a  **Encodable but no room.**  Anywhere in the main file after `.addr A;` and definitions (followed by anything):
an instruction statement that the front end completes to `i` and the encoder accepts (`hws`), with
`A + 2·hws.length > 2^32`: `Asm.run` does not succeed, the ONLY diagnostic is `SegmentError::Overflow` at the statement,
and the image is empty — no byte of the encoding is placed. -/
theorem run_stmt_nofit (fs : Bytes → Option Bytes) (main data : Bytes) (hfs : fs main = some data)
    (els : List Element) (perr : Option ParseErr) (hp : Asm.parseFile data = .ok (els, perr)) (A : Nat) (hA : A < 4294967296)
    (defs : List (Bytes × Arg)) (tbl : Asm.Table) (hdefs : defsTable defs [] = some tbl)
    (pre post : List Element) (l c : Nat) (name : Bytes) (args : Args)
    (hels : els = pre ++ ⟨l, c, .instruction name args⟩ :: post)
    (hpre : pre.map (·.val) = .directive (bytesOf "addr") (Args.ofList [.const A]) :: defs.map constStmt)
    (i : Instr) (hb : build A name args.toList (Asm.frontEval tbl) true = .completed i)
    (hws : List Nat) (he : Codec.encode i = .ok hws) (hnofit : ¬ (A + 2 * hws.length ≤ 4294967296)) :
    ∃ o, Asm.run fs main = .done o ∧ o.success = false ∧
      o.diags = [⟨main, l, c, .instrAssemble (.asmWrite (.overflow (2 * hws.length) (4294967296 - A)))⟩] ∧ o.image = [] := by
  obtain ⟨hpo, hnd, _⟩ := C06.prefixOk_addr_defs fs main A hA defs tbl hdefs hpre
  have hcur : (⟨A, [], Map.u32Max - A + 1⟩ : Seg.Active).cur = A := Show.cur_empty A _ hA
  have hst := instr_nofit fs (C06.incOf fs) (C06.envOf main) (C06.stateAt A tbl) tbl (by simp) rfl l c name args []
    ⟨A, [], Map.u32Max - A + 1⟩ [] rfl i (by rw [hcur]; exact hb) hws he (by simp)
    (by simp only [List.length_nil, Map.u32Max]; omega)
  have hk : (Map.u32Max - A + 1 - ([] : Bytes).length) = 4294967296 - A := by simp [Map.u32Max]; omega
  simp only [hk] at hst
  obtain ⟨o, h1, h2, h3, h4⟩ := run_single_diag_image fs main data hfs els perr hp pre post _ hels (C06.stateAt A tbl) hpo
    ⟨rfl, rfl, rfl⟩ _ _ hst
  refine ⟨o, h1, h2, h3, ?_⟩
  rw [h4]
  simp [C06.stateAt, Seg.closeSegment, Map.put]

end Trion.C04

namespace Trion.C04
open Trion Trion.Front Trion.Asm

theorem progVals_split {els : List Element} {A : Nat} {defs : List (Bytes × Arg)} {name : Bytes} {args : Args}
    (hels : els.map (·.val) = progVals A defs name args) :
    ∃ pre l c, els = pre ++ [⟨l, c, .instruction name args⟩] ∧
      pre.map (·.val) = .directive (bytesOf "addr") (Args.ofList [.const A]) :: defs.map constStmt := by
  simp only [progVals] at hels
  obtain ⟨e1, r1, rfl, h1, hr1⟩ := List.map_eq_cons_iff.mp hels
  obtain ⟨mid, last, rfl, hmid, hlast⟩ := List.map_eq_append_iff.mp hr1
  obtain ⟨e2, r2, rfl, h2, hr2⟩ := List.map_eq_cons_iff.mp hlast
  have : r2 = [] := by simpa using hr2
  subst this
  obtain ⟨l2, c2, v2⟩ := e2
  simp only at h2
  subst h2
  exact ⟨e1 :: mid, l2, c2, by simp, by simp [h1, hmid]⟩

/-- C04f.b  **Trichotomy through the whole pipeline model** (restates `run_defs_stmt2` without the bare implication): the
statement is assembled to its (extended) meaning and the run succeeds with exactly those bytes; OR it has an encodable
meaning but no room below 2^32 — one `Overflow` diagnostic at the statement, empty image; OR it has no encodable meaning —
diagnosed at the statement. -/
theorem run_defs_stmt3 (fs : Bytes → Option Bytes) (main data : Bytes) (hfs : fs main = some data)
    (els : List Element) (hp : Asm.parseFile data = .ok (els, none)) (A : Nat) (hA : A < 4294967296)
    (defs : List (Bytes × Arg)) (name : Bytes) (args : Args) (hels : els.map (·.val) = progVals A defs name args)
    (tbl : Asm.Table) (hdefs : defsTable defs [] = some tbl)
    (t : Instr) (hm : mnemonic name = some t) (hw : wellFormed2 (tabOf tbl) (sig t) args.toList)
    (hq : ∀ vs, denoteAll2 (tabOf tbl) (sig t) args.toList = some vs → ¬ svQuirk t vs) :
    (∃ i hws, means2 (tabOf tbl) A name args.toList = some i ∧ i.wf ∧ Codec.encode i = .ok hws ∧ Arm.decode hws = some i ∧
      A + 2 * hws.length ≤ 4294967296 ∧
      Asm.run fs main = .done ⟨true, none, true, [], [(A, (Codec.toBytes hws).map (·.toUInt8))]⟩) ∨
    (∃ i hws el o, means2 (tabOf tbl) A name args.toList = some i ∧ i.wf ∧ Codec.encode i = .ok hws ∧
      ¬ (A + 2 * hws.length ≤ 4294967296) ∧ el ∈ els ∧ el.val = .instruction name args ∧
      Asm.run fs main = .done o ∧ o.success = false ∧
      o.diags = [⟨main, el.line, el.col, .instrAssemble (.asmWrite (.overflow (2 * hws.length) (4294967296 - A)))⟩] ∧
      o.image = []) ∨
    (∃ el o, el ∈ els ∧ el.val = .instruction name args ∧ Asm.run fs main = .done o ∧ o.success = false ∧ o.diags ≠ [] ∧
      ∀ d ∈ o.diags, d.file = main ∧ d.line = el.line ∧ d.col = el.col) := by
  have hnd : Asm.Table.NoDef tbl := defsTable_nodef defs [] tbl (by intro n; simp [Asm.Table.find]) hdefs
  have hi64 : tblI64 tbl := defsTable_i64 defs [] tbl (by intro n v h; simp [Asm.Table.find] at h) hdefs
  have hn := Asm.Table.nodef_get hnd
  have hTk := tableOk_of_tblI64 hi64
  have hE := evalSimp_frontEval tbl
  have hdiag : ((∃ i, build A name args.toList (Asm.frontEval tbl) true = .completed i) ∨
        (∃ d st, build A name args.toList (Asm.frontEval tbl) true = .error d st)) →
      (∀ i hws, build A name args.toList (Asm.frontEval tbl) true = .completed i → Codec.encode i ≠ .ok hws) →
      ∃ el o, el ∈ els ∧ el.val = .instruction name args ∧ Asm.run fs main = .done o ∧ o.success = false ∧ o.diags ≠ [] ∧
        ∀ d ∈ o.diags, d.file = main ∧ d.line = el.line ∧ d.col = el.col := by
    intro htot henc0
    refine run_defs_stmt_diag_of fs main data hfs els hp A hA defs name args hels tbl hdefs ?_
    intro l c st' r hnd' hi64' hX
    have := instr_diag_of ⟨[main], main⟩ ⟨⟨[], some ⟨A, [], Map.u32Max - A + 1⟩, []⟩, [], some tbl, [], some [], []⟩ tbl hnd' hi64'
      (by simp) rfl [] ⟨A, [], Map.u32Max - A + 1⟩ [] rfl l c name args.toList t hm
      (by rw [Show.cur_empty A _ hA]; exact htot) (by rw [Show.cur_empty A _ hA]; exact henc0) st' r hX
    simpa using this
  rcases build_total2 hn hTk hE true A name args.toList t hm hw with ⟨i, hb⟩ | ⟨d, st, hb⟩
  · cases he : Codec.encode i with
    | ok hws =>
      obtain ⟨h1, h2, h3, _⟩ := stmt_sound2 hn hTk hE true A name args.toList t hm hw hq i hb hws he
      by_cases hfit : A + 2 * hws.length ≤ 4294967296
      · exact .inl ⟨i, hws, h1, h2, he, h3, hfit,
          (run_defs_stmt_of_build fs main data hfs els hp A defs name args hels tbl hdefs i hb hws he hfit).1⟩
      · right; left
        obtain ⟨pre, l, c, hel, hpre⟩ := progVals_split hels
        obtain ⟨o, ho1, ho2, ho3, ho4⟩ := run_stmt_nofit fs main data hfs els none hp A hA defs tbl hdefs pre [] l c name args
          hel hpre i hb hws he hfit
        exact ⟨i, hws, ⟨l, c, .instruction name args⟩, o, h1, h2, he, hfit, by simp [hel], rfl, ho1, ho2, ho3, ho4⟩
    | error e =>
      right; right
      refine hdiag (.inl ⟨i, hb⟩) ?_
      intro i' hws hb' he'
      rw [hb] at hb'
      cases hb'
      rw [he] at he'
      cases he'
  · right; right
    refine hdiag (.inr ⟨d, st, hb⟩) ?_
    intro i' hws hb'
    rw [hb] at hb'
    cases hb'

/-- C04f.c  **Trichotomy on text, any spelling** (`run_any2` without the bare implication). -/
theorem run_any3 (fs : Bytes → Option Bytes) (main : Bytes) (A : Nat) (hA : A < 4294967296) (defs : List (Bytes × Arg))
    (hdefsok : ∀ d ∈ defs, Lex.identOk d.1 = true ∧ Show.Opnd d.2) (ps : List Lex.Piece) (hv : Lex.Valid ps none)
    (name : Bytes) (as : PArgs) (haswf : as.wf)
    (hvals : Lex.tokVals ps = .ident name :: Render.pargs as ++ [.term])
    (hfs : fs main = some (progTextP A defs ps))
    (tbl : Asm.Table) (hdefs : defsTable defs [] = some tbl)
    (t : Instr) (hm : mnemonic name = some t) (hw : wellFormed2 (tabOf tbl) (sig t) as.erase.toList)
    (hq : ∀ vs, denoteAll2 (tabOf tbl) (sig t) as.erase.toList = some vs → ¬ svQuirk t vs) :
    ∃ els, Asm.parseFile (progTextP A defs ps) = .ok (els, none) ∧
    ((∃ i hws, means2 (tabOf tbl) A name as.erase.toList = some i ∧ i.wf ∧ Codec.encode i = .ok hws ∧ Arm.decode hws = some i ∧
      A + 2 * hws.length ≤ 4294967296 ∧
      Asm.run fs main = .done ⟨true, none, true, [], [(A, (Codec.toBytes hws).map (·.toUInt8))]⟩) ∨
    (∃ i hws el o, means2 (tabOf tbl) A name as.erase.toList = some i ∧ i.wf ∧ Codec.encode i = .ok hws ∧
      ¬ (A + 2 * hws.length ≤ 4294967296) ∧ el ∈ els ∧ el.val = .instruction name as.erase ∧
      Asm.run fs main = .done o ∧ o.success = false ∧
      o.diags = [⟨main, el.line, el.col, .instrAssemble (.asmWrite (.overflow (2 * hws.length) (4294967296 - A)))⟩] ∧
      o.image = []) ∨
    (∃ el o, el ∈ els ∧ el.val = .instruction name as.erase ∧ Asm.run fs main = .done o ∧ o.success = false ∧ o.diags ≠ [] ∧
      ∀ d ∈ o.diags, d.file = main ∧ d.line = el.line ∧ d.col = el.col)) := by
  obtain ⟨els, hp, hels⟩ := parseFile_pieces A hA defs hdefsok ps hv name as haswf hvals
  exact ⟨els, hp, run_defs_stmt3 fs main _ hfs els hp A hA defs name as.erase hels tbl hdefs t hm hw hq⟩

/-- non-vacuity: `.addr 0xFFFFFFFE; BL 0xFFFFFFF0;` — `BL` back by 18 is encodable (4 bytes) but only 2 bytes are left -/
example : means (tabOf []) 0xFFFFFFFE (bytesOf "BL") [.const 0xFFFFFFF0] = some (.bl (-18)) ∧
    Codec.encode (.bl (-18)) = .ok [0xF7FF, 0xFFF7] ∧ ¬ (0xFFFFFFFE + 2 * 2 ≤ 4294967296) := by
  refine ⟨by decide, rfl, by decide⟩

end Trion.C04
