import TrionModel.Props.C05Multi3
import TrionModel.Props.C08Deferred
import TrionModel.Lemmas.AsmDefTasks
import TrionModel.Lemmas.AsmDefEval
/-!
# C05 (pipeline clause) with `Deferred` names — what is proved about the two excluded cases, and what is not

The multi-file refinement (`layout_refines_asm_scope_strong`, Props/C05Multi3.lean) excludes
(a) `.global x` ABOVE the definition of `x` (forward declaration) and (b) `.import x` of a name the includer holds UNVALUED.
In both the file's table holds `x` as `Lookup::Deferred` for a while; a statement that mentions `x` in that window is not
left alone by its first attempt but SIMPLIFIED AROUND `x`, queued, and re-run — in case (a) when its own file ends, in
case (b) by the INCLUDER's queue (`global = true`), for the main file by `finalize`.

TARGET (NOT PROVED — see "missing" below): `layout_refines_asm_deferred_partial`: for a project of the stage-3 fragment that
may also contain (a) and (b), if `Asm.run` succeeds, the image is the reference layout of the flattened program in which a
forward `.global x` is a forward declaration (alias `.const (includer's x) [file's x] v` behind the file, as in stage 2) and an
`.import` of an unvalued name is an alias `.const (file's x) [includer's x] v` whose value arrives later, and every
statement's bytes are those of its FRESH assembly over the final table whenever that fresh assembly completes.

PROVED HERE — the per-statement content of that theorem, on top of Props/C08Deferred.lean:
* `deferred_du_task_bytes`: a `.du*` statement whose first attempt over `t₁` (Deferred names allowed) left the tree `a₁`, and
  whose task over the final table `t₂ ⊇ t₁` wrote the value `v` (in range): the FRESH evaluation of the source operand over
  `t₂` gives `v` too — so the reference bytes `duFinal t₂ du a` ARE the bytes written (`DuGen`) — or it overflows (the one
  way the two routes can differ; witness `.global x; .du32 x + MAX - MAX; x:`); `deferred_du_task_bytes_direct`: the
  `DirectOk` form (fresh evaluation delivers a number ⇒ same bytes);
* `deferred_instr_task_bytes_number`: the same for the instructions whose evaluated operands are numbers (`B`, `B<cond>`, `BL`,
  `ADR`, `BKPT`, `SVC`, `UDF`, `RSBS`): the re-run completed with `fs2` and the encoder gave `b` ⇒ the fresh assembly
  completes with the same instruction and `instrFinal … = b`, or it reports an arithmetic overflow;
  `deferred_instr_task_bytes_guarded`: for every instruction whose register/address-shaped operands do not mention a
  Deferred name of `t₁` (`noDeferredIn`): if the fresh assembly completes, `instrFinal … = b`;
* `runTask_sim_data_deferred`, `runTask_sim_instr_deferred` (with Lemmas/AsmDefTasks.lean: `Multi.runTask_sim_data/instr`, the task
  step of the simulation with the provenance of the carried tree as a hypothesis): the SIMULATION STEP of the task queue for
  such a statement — the run of the task is matched by `Layout.rewrite` with the reference bytes, under `DirectOk`;
* `handed_up_data_task`, `handed_up_instr_task`: what a task does when it runs in the INCLUDER's queue or in `finalize`
  (`global = true`), stated on the model: it succeeds without a diagnostic only if the tree it carries evaluates, over the
  table of the file / global realm it now runs in, to a value in range (resp. its `assemble` completes and is encoded),
  and then it writes exactly those bytes at the statement's address through `write_at` / the output map.
* kernel-evaluated examples: `.global x; .addr 16; .du16 x + 1; B x; x:` and the two-file variant in which the included
  file imports the still unvalued `x` and its two statements are resolved by the includer's queue — both give
  `15 00 FF E7`, the reference layout of the flattened program.

MISSING for the target theorem (why it is not stated as proved):
1. the statement simulation (Lemmas/AsmRefineStmt.lean / AsmMultiStmt.lean) carries `Table.NoDef t` for the CURRENT table in
   `Sim.tbl`; every lemma that evaluates (`du_core`, `instr_core`, `addr/align/const_sim`) uses it to exclude the outcome
   `Deferred` and for "a complete evaluation has looked up only valued names".  Generalising needs: `DefOk D t` in place of
   `NoDef t`; ("complete ⇒ no Deferred name was looked up, every identifier valued" is now PROVED:
   `Simp.evaluateE_complete_noDefIn`, Lemmas/SimpCompleteNoDef.lean, `evalIn_complete_valued`, Lemmas/AsmDefEval.lean; with
   `Simp.evaluateE_mono_complete`, `Simp.evaluateE_undefer` of Lemmas/AsmRetryAgree.lean the immediate statements go through); the `Deferred` branch of `du_core` /
   `instr_core` (placeholder + task, as the `noSuch` branch); the `some none` case of `insert_constant` in `label_sim` /
   `const_sim`;
2. `TaskRel` needs the two new provenances — first attempt `Deferred` (`LeftByT t₁ a a₁`; its task step is
   `runTask_sim_*_deferred` below) and `global = true` (Asm side: `handed_up_*`) — and `TasksRel` must skip `.globalCopy` closures, which run
   in the local loop and change the includer's table THERE (so the publication order is no longer the source order);
3. the includer's table holds `x` unvalued while the file runs (`TEq Gt (pub Gt₀ A)` and `NoDef Gt` of Lemmas/AsmXferRun.lean
   fail in the window);
4. for (b): the queue of the includer receives tasks during `.include` (`st'.localTasks = st.localTasks` of `XIncSim`
   fails), and `finalize` is no longer trivial for the main file.
-/
namespace Trion.Asm
open Trion Trion.SegLayout Trion.Asm.Multi Trion.Asm.Glob Trion.Asm.Xfer

/-! ## the task of a statement deferred by a `Deferred` name -/

/-- C05/C08 (`.du*`, first attempt with Deferred names)  The task wrote `v`: the reference bytes over the final table are
the bytes written, or the fresh evaluation overflows. -/
theorem deferred_du_task_bytes {t₁ t₂ : Table} (hs : Table.Sub t₁ t₂) (hT : Table.Ok t₂) (du : DU) (a : Arg)
    (hlit : Simp.litsOk a = true) (a₁ : Arg) (hl : LeftByT t₁ a a₁) (v : Int)
    (h₂ : evalIn t₂ a₁ = .ok (.complete (.const v))) (hv : 0 ≤ v ∧ v ≤ du.max) :
    (DuGen t₂ du a ∧ duFinal t₂ du a = leBytes du.size v.toNat) ∨
      ∃ k y, evalIn t₂ a = .ok (.err (.overflow k) y) := by
  rcases du_fresh_of_retry hs hT a hlit a₁ hl v h₂ with h | h
  · have hc : constVal t₂ a = some v := by simp only [constVal, h]
    refine .inl ⟨⟨v, hc, hv.1, hv.2⟩, ?_⟩
    simp only [duFinal, hc, hv, and_self, if_true]
  · exact .inr h

/-- … `DirectOk` form: if the fresh evaluation over the final table delivers a number, the bytes written are the reference
bytes -/
theorem deferred_du_task_bytes_direct {t₁ t₂ : Table} (hs : Table.Sub t₁ t₂) (hT : Table.Ok t₂) (du : DU) (a : Arg)
    (hlit : Simp.litsOk a = true) (a₁ : Arg) (hl : LeftByT t₁ a a₁) (v : Int)
    (h₂ : evalIn t₂ a₁ = .ok (.complete (.const v))) (hv : 0 ≤ v ∧ v ≤ du.max)
    (hd : ∃ w, evalIn t₂ a = .ok (.complete (.const w))) :
    DuGen t₂ du a ∧ duFinal t₂ du a = leBytes du.size v.toNat := by
  rcases deferred_du_task_bytes hs hT du a hlit a₁ hl v h₂ hv with h | ⟨k, y, h⟩
  · exact h
  · obtain ⟨w, hw⟩ := hd
    rw [hw] at h; cases h

/-- what `Front.build … = .completed i` says about `instrFinal` -/
theorem instrFinal_of_build {enc : Encoder} {t : Table} {addr : Nat} {name : Bytes} {tpl : Instr} {args : List Arg} {i : Instr}
    {b : Bytes} (hm : Front.mnemonic name = some tpl) (h : Front.build addr name args (frontEval t) true = .completed i)
    (he : enc i = .ok b) : InstrGen enc t addr tpl args ∧ instrFinal enc t addr tpl args = b := by
  simp only [Front.build, hm] at h
  cases hg : Front.assemble ⟨addr, tpl, 0, args⟩ (frontEval t) true with
  | mk fs r =>
    rw [hg] at h
    cases r with
    | completed =>
      simp only [Front.BuildOut.completed.injEq] at h
      subst h
      exact ⟨⟨fs, b, hg, he⟩, by simp only [instrFinal, hg, he]⟩
    | deferred c => cases h
    | error d => cases h
    | panic => cases h

/-- C05/C08 (instructions whose evaluated operands are numbers, first attempt with Deferred names)  The task completed with
`fs2`, encoded as `b`: the fresh assembly over the final table completes with the same instruction, so the reference bytes
`instrFinal` are `b` — or the fresh assembly reports an arithmetic overflow. -/
theorem deferred_instr_task_bytes_number {enc : Encoder} {t₁ t₂ : Table} (hs : Table.Sub t₁ t₂) (hT : Table.Ok t₂) (addr : Nat)
    (name : Bytes) (tpl : Instr) (hm : Front.mnemonic name = some tpl) (args : List Arg)
    (hlit : ∀ a ∈ args, Simp.litsOk a = true) (c : Bytes) (fs1 : Front.St)
    (h1 : Front.build addr name args (frontEval t₁) true = .deferred c fs1)
    (hk : ∀ k ∈ Front.kinds tpl, k.shape = false)
    (fs2 : Front.St) (h2 : Front.assemble fs1 (frontEval t₂) false = (fs2, .completed)) (b : Bytes)
    (he : enc fs2.instr = .ok b) :
    (InstrGen enc t₂ addr tpl args ∧ instrFinal enc t₂ addr tpl args = b) ∨
      ∃ st w, Front.build addr name args (frontEval t₂) true = .error (.evalErr (.overflow w)) st := by
  have hk' : ∀ t, Front.mnemonic name = some t → ∀ k ∈ Front.kinds t, k.shape = false := by
    intro t ht; rw [hm] at ht; cases ht; exact hk
  rcases (stmt_number_acceptance_deferred hs hT addr name args hlit c fs1 h1 hk').2 fs2 h2 with h | h
  · exact .inl (instrFinal_of_build hm h he)
  · exact .inr h

/-- C05/C08 (any instruction, register/address-shaped operands free of Deferred names)  If the fresh assembly over the final
table completes (`DirectOk`), it gives the instruction of the re-run: the reference bytes are the bytes written. -/
theorem deferred_instr_task_bytes_guarded {enc : Encoder} {t₁ t₂ : Table} (hs : Table.Sub t₁ t₂) (hT : Table.Ok t₂) (addr : Nat)
    (name : Bytes) (tpl : Instr) (hm : Front.mnemonic name = some tpl) (args : List Arg)
    (hlit : ∀ a ∈ args, Simp.litsOk a = true) (c : Bytes) (fs1 : Front.St)
    (h1 : Front.build addr name args (frontEval t₁) true = .deferred c fs1)
    (hp : ∀ p ∈ List.zip (Front.kinds tpl) args, p.1.shape = true → noDeferredIn t₁ p.2 = true)
    (fs2 : Front.St) (h2 : Front.assemble fs1 (frontEval t₂) false = (fs2, .completed)) (b : Bytes)
    (he : enc fs2.instr = .ok b) (i : Instr) (hd : Front.build addr name args (frontEval t₂) true = .completed i) :
    i = fs2.instr ∧ InstrGen enc t₂ addr tpl args ∧ instrFinal enc t₂ addr tpl args = b := by
  have hp' : ∀ t, Front.mnemonic name = some t → ∀ p ∈ List.zip (Front.kinds t) args, p.1.shape = true →
      noDeferredIn t₁ p.2 = true := by
    intro t ht; rw [hm] at ht; cases ht; exact hp
  have hi := stmt_order_independent_deferred_partial hs hT addr name args hlit c fs1 h1 hp' fs2 i h2 hd
  subst hi
  exact ⟨rfl, instrFinal_of_build hm hd he⟩

/-! ## the task step of the simulation for a statement deferred by a `Deferred` name -/

/-- C05 (simulation step, `.du*`, first attempt with Deferred names, `DirectOk`)  The step `Multi.runTask_sim'` proves for a
statement stopped at an unknown name, for a statement whose first attempt over `t₁` met a Deferred name and left `d.arg`
(`LeftByT`): if the fresh evaluation of the source operand over the file's final table delivers a number (`DirectOk`), the
run of the task is matched by `Layout.rewrite` of the task carrying the REFERENCE bytes `duFinal t₂ du a`, all its
dependencies are defined, and the simulation relation is kept. -/
theorem runTask_sim_data_deferred {num : Bytes → Nat} {enc : Encoder} {t₁ t₂ : Table} {G : List Task} {Gt : Table}
    (henc : EncLen enc) {st st' : St} {l : Layout.State} (ts : Multi.TSim num t₂ G Gt st l) (env : Env)
    (henv : env.paths.isEmpty = false) (d : DataExpr) (lt : Layout.Task) (a : Arg)
    (hpl : d.placed = true) (haddr : lt.addr = d.addr) (hlen : lt.len = d.du.size)
    (hdeps : lt.deps = (idents a).map num) (hfinal : lt.final = duFinal t₂ d.du a)
    (hs : Table.Sub t₁ t₂) (hT : Table.Ok t₂) (hlit : Simp.litsOk a = true) (hl : LeftByT t₁ a d.arg)
    (hdirect : ∃ w, evalIn t₂ a = .ok (.complete (.const w)))
    (hok : TaskOk st.seg.pending (.data d false)) (h : runTask enc env st (.data d false) = .ok (st', .ok)) :
    ∃ l', l.env.hasAll lt.deps = true ∧ Layout.rewrite l lt.addr lt.final = .ok l' ∧ Multi.TSim num t₂ G Gt st' l' ∧
      st'.seg.pending = st.seg.pending ∧ cursor st' = cursor st := by
  refine Multi.runTask_sim_data henc ts env henv d lt a hpl haddr hlen hdeps hfinal (fun v hv => ?_) hok h
  obtain ⟨w, hw⟩ := hdirect
  have := du_number_order_independent hs hT a hlit d.arg hl v w hv hw
  subst this
  exact hw

/-- C05 (simulation step, instruction, first attempt with Deferred names, `DirectOk`)  The same for an instruction whose
first attempt was deferred — by an unknown or by a Deferred name — and whose register/address-shaped operands mention no
Deferred name of `t₁` (no condition at all for `B`, `B<cond>`, `BL`, `ADR`, `BKPT`, `SVC`, `UDF`, `RSBS`, whose `kinds` have
no such position): if the fresh assembly over the final table completes, the run of the task is matched by `Layout.rewrite`
with the reference bytes `instrFinal`. -/
theorem runTask_sim_instr_deferred {num : Bytes → Nat} {enc : Encoder} {t₁ t₂ : Table} {G : List Task} {Gt : Table}
    (henc : EncLen enc) {st st' : St} {l : Layout.State} (ts : Multi.TSim num t₂ G Gt st l) (env : Env)
    (henv : env.paths.isEmpty = false) (i : ArmInstr) (lt : Layout.Task) (name : Bytes) (tpl : Instr) (args : List Arg)
    (hm : Front.mnemonic name = some tpl)
    (hpl : i.placed = true) (haddr : lt.addr = i.st.addr) (hlen : lt.len = ilen i.st.instr)
    (hdeps : lt.deps = (instrDeps (Front.kinds tpl) args).map num)
    (hfinal : lt.final = instrFinal enc t₂ i.st.addr tpl args)
    (hs : Table.Sub t₁ t₂) (hT : Table.Ok t₂) (hlit : ∀ a ∈ args, Simp.litsOk a = true) (c : Bytes)
    (h1 : Front.build i.st.addr name args (frontEval t₁) true = .deferred c i.st)
    (hp : ∀ p ∈ List.zip (Front.kinds tpl) args, p.1.shape = true → noDeferredIn t₁ p.2 = true)
    (hdirect : ∃ j, Front.build i.st.addr name args (frontEval t₂) true = .completed j)
    (hok : TaskOk st.seg.pending (.instr i false)) (h : runTask enc env st (.instr i false) = .ok (st', .ok)) :
    ∃ l', l.env.hasAll lt.deps = true ∧ Layout.rewrite l lt.addr lt.final = .ok l' ∧ Multi.TSim num t₂ G Gt st' l' ∧
      st'.seg.pending = st.seg.pending ∧ cursor st' = cursor st := by
  refine Multi.runTask_sim_instr henc ts env henv i lt tpl args hpl haddr hlen hdeps hfinal (fun fs2 h2 => ?_) hok h
  obtain ⟨j, hj⟩ := hdirect
  have hp' : ∀ t, Front.mnemonic name = some t → ∀ p ∈ List.zip (Front.kinds t) args, p.1.shape = true →
      noDeferredIn t₁ p.2 = true := by
    intro t ht; rw [hm] at ht; cases ht; exact hp
  have hi := stmt_order_independent_deferred_partial hs hT i.st.addr name args hlit c i.st h1 hp' fs2 j h2 hj
  simp only [Front.build, hm] at hj
  cases hg : Front.assemble ⟨i.st.addr, tpl, 0, args⟩ (frontEval t₂) true with
  | mk fs' r =>
    rw [hg] at hj
    cases r with
    | completed =>
      simp only [Front.BuildOut.completed.injEq] at hj
      exact ⟨fs', rfl, by rw [hj, hi]⟩
    | deferred x => cases hj
    | error x => cases hj
    | panic => cases hj

/-! ## a task that runs in the includer's queue or in `finalize` (`global = true`) -/

/-- C05 (handed-up `.du*` task)  A `.du*` task with `global = true` — a statement of an included file that was still waiting
for an imported name when its file ended, now run by the includer's queue (over the includer's table) or by `finalize` (over
the global table): it returns `Ok` only if the tree it carries evaluates over that table `T` to a value `v` in range, and
then it wrote the little-endian bytes of `v` at the statement's address (`write_at` into the active region, or the output
map) — nothing else of the state changes. -/
theorem handed_up_data_task {d : DataExpr} {env : Env} {st st' : St} {T : Table} (ht : evalTable env st = .ok T)
    (h : runDataTask d true env st = .ok (st', .ok)) :
    ∃ v, evalIn T d.arg = .ok (.complete (.const v)) ∧ 0 ≤ v ∧ v ≤ d.du.max ∧
      ∃ s' p, writeStmt st.seg d.placed d.addr (leBytes d.du.size v.toNat) = .ok (s', p, none) ∧
        st' = { st with seg := s' } := by
  unfold runDataTask at h
  cases hap : d.apply env st false with
  | stop r => rw [hap] at h; cases h
  | ok q =>
    obtain ⟨d1, st1, op⟩ := q
    rw [hap] at h
    cases op with
    | err l => simp at h
    | deferred c => simp at h
    | completed =>
      simp only [Out.ok.injEq, Prod.mk.injEq, and_true] at h
      subst h
      unfold DataExpr.apply at hap
      simp only [evalArg, ht] at hap
      obtain ⟨ev, hev⟩ := evalIn_ok T d.arg
      rw [hev] at hap
      cases ev with
      | deferred c x => simp at hap
      | err e x => simp at hap
      | noSuch n x => simp at hap
      | complete x =>
        simp only at hap
        cases hw : ({ d with arg := x } : DataExpr).writer st with
        | stop r => rw [hw] at hap; cases hap
        | ok q2 =>
          obtain ⟨d2, st2, r⟩ := q2
          rw [hw] at hap
          cases r with
          | err lv => simp at hap
          | ok =>
            simp only [Out.ok.injEq, Prod.mk.injEq, and_true] at hap
            obtain ⟨_, hst⟩ := hap
            subst hst
            unfold DataExpr.writer at hw
            cases x with
            | const v =>
              simp only at hw
              by_cases hv : 0 ≤ v ∧ v ≤ d.du.max
              · rw [if_pos hv] at hw
                unfold DataExpr.writeData at hw
                cases hws : writeStmt st.seg d.placed d.addr (leBytes d.du.size v.toNat) with
                | stop r => simp only [hws] at hw; cases hw
                | ok q3 =>
                  obtain ⟨s', p', e⟩ := q3
                  simp only [hws] at hw
                  cases e with
                  | some e' => simp at hw
                  | none =>
                    simp only [Out.ok.injEq, Prod.mk.injEq, and_true] at hw
                    exact ⟨v, hev, hv.1, hv.2, s', p', hws, hw.2.symm⟩
              · rw [if_neg hv] at hw; simp at hw
            | _ => simp at hw

/-- C05 (handed-up instruction task)  The same for an instruction statement: `Ok` only if `assemble` from the queued state
completes over the table `T` it now runs over and the encoder accepts the instruction; the encoding is written at the
statement's address. -/
theorem handed_up_instr_task {enc : Encoder} {i : ArmInstr} {env : Env} {st st' : St} {T : Table}
    (ht : evalTable env st = .ok T) (h : runInstrTask enc i true env st = .ok (st', .ok)) :
    ∃ fs2 b, Front.assemble i.st (frontEval T) false = (fs2, .completed) ∧ enc fs2.instr = .ok b ∧
      ∃ s' p, writeStmt st.seg i.placed fs2.addr b = .ok (s', p, none) ∧ st' = { st with seg := s' } := by
  unfold runInstrTask at h
  cases has : i.assemble env st false with
  | stop r => rw [has] at h; cases h
  | ok q =>
    obtain ⟨i1, st1, op⟩ := q
    rw [has] at h
    simp only [ArmInstr.assemble, ht, evalPanics_false, Bool.false_eq_true, if_false] at has
    cases hfa : Front.assemble i.st (frontEval T) false with
    | mk fs2 r =>
      rw [hfa] at has
      cases r with
      | panic => cases has
      | deferred c =>
        simp only [Out.ok.injEq, Prod.mk.injEq] at has
        obtain ⟨_, _, hop⟩ := has
        subst hop
        simp at h
      | error dg =>
        simp only [Out.ok.injEq, Prod.mk.injEq] at has
        obtain ⟨_, _, hop⟩ := has
        subst hop
        simp at h
      | completed =>
        simp only [Out.ok.injEq, Prod.mk.injEq] at has
        obtain ⟨hi1, hst1, hop⟩ := has
        subst hi1; subst hst1; subst hop
        simp only at h
        cases hw : ArmInstr.writeInstr enc { i with st := fs2 } st false with
        | stop r => rw [hw] at h; cases h
        | ok q2 =>
          obtain ⟨i2, st2, r⟩ := q2
          rw [hw] at h
          simp only [Out.ok.injEq, Prod.mk.injEq] at h
          obtain ⟨h1, h2⟩ := h
          subst h1; subst h2
          unfold ArmInstr.writeInstr at hw
          cases he : enc fs2.instr with
          | error e => simp only [he] at hw; simp at hw
          | ok bytes =>
            simp only [he, Bool.false_eq_true, if_false] at hw
            cases hws : writeStmt st.seg i.placed fs2.addr bytes with
            | stop r => simp only [hws] at hw; cases hw
            | ok q3 =>
              obtain ⟨s', p', e⟩ := q3
              simp only [hws] at hw
              cases e with
              | some e' => simp at hw
              | none =>
                simp only [Out.ok.injEq, Prod.mk.injEq, and_true] at hw
                exact ⟨fs2, bytes, rfl, he, s', p', hws, hw.2.symm⟩

/-! ## non-vacuity: the two programs, evaluated -/

/-- forward declaration, single file: `.global x; .addr 16; .du16 x + 1; B x; x:` — both statements meet `x` as `Deferred` -/
def exFwdText : Bytes := bytesOf ".global x;\n.addr 16;\n.du16 x + 1;\nB x;\nx:\n"
def exFwdFs : Bytes → Option Bytes := fun p => if p = bytesOf "m" then some exFwdText else none

set_option maxRecDepth 100000 in
/-- `Asm.run`: success, no diagnostic; `x + 1` = 21 at 16, `B x` (to 20 from 18: `E7FF`) at 18 -/
theorem exFwd_run : (match run exFwdFs (bytesOf "m") with
    | .done o => o.success && o.diags.isEmpty && o.image == [(16, [0x15, 0x00, 0xFF, 0xE7])]
    | _ => false) = true := by decide +kernel

/-- the two-file variant: the included file imports the still unvalued `x`; its two statements are handed to the includer's
queue and resolved when the main file ends -/
def exFwdMain : Bytes := bytesOf ".global x;\n.addr 16;\n.include \"i\";\nx:\n"
def exFwdInc : Bytes := bytesOf ".import x;\n.du16 x + 1;\nB x;\n"
def exFwd2Fs : Bytes → Option Bytes := fun p =>
  if p = bytesOf "m" then some exFwdMain else if p = bytesOf "i" then some exFwdInc else none

set_option maxRecDepth 100000 in
theorem exFwd2_run : (match run exFwd2Fs (bytesOf "m") with
    | .done o => o.success && o.diags.isEmpty && o.image == [(16, [0x15, 0x00, 0xFF, 0xE7])]
    | _ => false) = true := by decide +kernel

/-- the flattened programs the target theorem would name (single file: `x` = 11, global table `x` = 1; two files: main `x` = 11,
included file `x` = 21 aliased to the includer's), and their reference layout: the image of both runs -/
example :
    Layout.Ref.layout [.addr 16, .emit 2 [11] [0x15, 0x00], .emit 2 [11] [0xFF, 0xE7], .label 11, .const 1 [11] 20] =
      some [(18, 0xFF), (19, 0xE7), (16, 0x15), (17, 0x00)] ∧
    Layout.Ref.layout [.addr 16, .const 21 [11] 20, .emit 2 [21] [0x15, 0x00], .emit 2 [21] [0xFF, 0xE7], .label 11,
        .const 1 [11] 20] = some [(18, 0xFF), (19, 0xE7), (16, 0x15), (17, 0x00)] := ⟨by rfl, by rfl⟩

/-- the statement-level theorem at work on the first example: `.du16 x + 1` met `x` Deferred, the first attempt left the tree
as it was, the task evaluated it over `{x ↦ 20}` to 21: the reference bytes are `15 00` -/
example : DuGen [([120], some 20)] .u16 (.bin .add (.ident [120]) (.const 1)) ∧
    duFinal [([120], some 20)] .u16 (.bin .add (.ident [120]) (.const 1)) = [0x15, 0x00] :=
  ⟨⟨21, by rfl, by decide, by decide⟩, by rfl⟩

end Trion.Asm
