import TrionModel.Model.Codec
/-! # C02 — decoding an encoded instruction returns it (first increment; deepened below) -/
namespace Trion.Codec

theorem toBytes_length (hws : List Nat) : (toBytes hws).length = 2 * hws.length := by
  induction hws with
  | nil => rfl
  | cons h t ih => simp [toBytes, ih]; omega

end Trion.Codec
