import TrionModel.Lemmas.CodecRt
/-!
# C02 — decoding an encoded instruction returns the same instruction

Property theorems only; the per-constructor arithmetic lemmas live in `Lemmas/CodecRt*.lean`.

Model: `Trion.Codec.encode` / `toBytes` / `decode` (`Model/Codec.lean`), mirroring `Instruction::encode`
and `Instruction::decode` of `src/arm6m/asm.rs` arm by arm.  `i.wf` says that the immediate fields are
values of their Rust field types (`u8`, `u16`, `i32`); every `Instruction` value satisfies it.
-/
namespace Trion.Codec
open Trion

/-- C02.a  For **every** instruction the encoder accepts, decoding the produced bytes — followed by
anything — succeeds, consumes exactly the number of bytes produced and yields the original instruction. -/
theorem dec_enc (i : Instr) (hws rest : List Nat) (h : encode i = .ok hws) (wf : i.wf) :
    decode (toBytes hws ++ rest) = .ok (2 * hws.length, i) := by
  rcases rt_all i hws h wf with ⟨w, rfl, _, ht, hd⟩ | ⟨w0, w1, rfl, _, _, ht, ht', hd⟩
  · rw [decode_single w rest ht, hd]; rfl
  · rw [decode_double w0 w1 rest ht ht', hd]; rfl

/-- C02.b  No two distinct instructions share an encoding. -/
theorem enc_inj (i j : Instr) (hws : List Nat) (hi : encode i = .ok hws) (hj : encode j = .ok hws)
    (wi : i.wf) (wj : j.wf) : i = j := by
  have a := dec_enc i hws [] hi wi
  have b := dec_enc j hws [] hj wj
  rw [a] at b
  injection b with b
  injection b

/-- C02.c  The encoder never emits a bit pattern that the decoder classifies as undefined,
unpredictable or reserved (or on which it underflows or panics). -/
theorem enc_never_rejected_by_decoder (i : Instr) (hws : List Nat) (h : encode i = .ok hws) (wf : i.wf) :
    ∀ e, decode (toBytes hws) ≠ .error e := by
  intro e he
  have a := dec_enc i hws [] h wf
  rw [List.append_nil, he] at a
  cases a

/-- C02.d  Every encoding is one or two halfwords, each below 2^16; two exactly when the first lies in
the 32-bit space (top five bits 11101, 11110, 11111). -/
theorem enc_shape (i : Instr) (hws : List Nat) (h : encode i = .ok hws) (wf : i.wf) :
    (∃ w, hws = [w] ∧ w < 65536 ∧ w / 2048 < 29) ∨
    (∃ w0 w1, hws = [w0, w1] ∧ w0 < 65536 ∧ w1 < 65536 ∧ 29 ≤ w0 / 2048) := by
  rcases rt_all i hws h wf with ⟨w, e, a, b, _⟩ | ⟨w0, w1, e, a, b, c, _, _⟩
  · exact .inl ⟨w, e, a, b⟩
  · exact .inr ⟨w0, w1, e, a, b, c⟩

/-! non-vacuity: accepted instructions of every shape exist, and the statement has teeth -/
example : encode (.add false 8 8 (.reg 0)) = .ok [0x4480] := rfl
example : (Instr.add false 8 8 (.reg 0)).wf := by simp [Instr.wf, ImmReg.wf]
example : encode (.bl (-4)) = .ok [0xF7FF, 0xFFFE] := rfl
example : (Instr.bl (-4)).wf := by simp [Instr.wf, inI32]
example : decode (toBytes [0xF7FF, 0xFFFE] ++ [1, 2, 3]) = .ok (4, .bl (-4)) := rfl
example : encode (.cps true) = .ok [0xB662] := rfl
example : encode (.adc 8 0) = .error .unrepresentable := rfl

end Trion.Codec
