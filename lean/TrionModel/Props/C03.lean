import TrionModel.Lemmas.CodecDec
import TrionModel.Props.C02
/-!
# C03 — the decoder is total and canonical over all bit patterns

Property theorems only.  Helper lemmas: `Lemmas/CodecTab*.lean` (the 16-bit half: a Boolean checker
evaluated by the kernel on all 59392 halfwords below the 32-bit space), `Lemmas/CodecDec.lean` (the 32-bit
half, structurally for all 6144 × 65536 patterns), `Lemmas/CodecRt*.lean` (round trip, C02).

`decode` works on a list of bytes; `IsBytes bs` says every element is `< 256`.
-/
namespace Trion.Codec
open Trion

def IsBytes (bs : List Nat) : Prop := ∀ b ∈ bs, b < 256

/-- the four ways `decode` proceeds on a byte string -/
theorem decode_cases (bs : List Nat) (hb : IsBytes bs) :
    (bs.length < 2 ∧ decode bs = .error (.underflow 2 bs.length)) ∨
    (∃ b0 b1 rest, bs = b0 :: b1 :: rest ∧ b0 < 256 ∧ b1 < 256 ∧ (b0 + 256 * b1) / 2048 < 29 ∧
        decode bs = decode16 (b0 + 256 * b1)) ∨
    (∃ b0 b1 rest, bs = b0 :: b1 :: rest ∧ b0 < 256 ∧ b1 < 256 ∧ 29 ≤ (b0 + 256 * b1) / 2048 ∧ rest.length < 2 ∧
        decode bs = .error (.underflow 4 bs.length)) ∨
    (∃ b0 b1 b2 b3 rest, bs = b0 :: b1 :: b2 :: b3 :: rest ∧ b0 < 256 ∧ b1 < 256 ∧ b2 < 256 ∧ b3 < 256 ∧
        29 ≤ (b0 + 256 * b1) / 2048 ∧ decode bs = decode32 (b0 + 256 * b1) (b2 + 256 * b3)) := by
  match bs, hb with
  | [], _ => exact .inl ⟨by simp, rfl⟩
  | [_], _ => exact .inl ⟨by simp, rfl⟩
  | b0 :: b1 :: rest, hb =>
    have h0 : b0 < 256 := hb b0 (by simp)
    have h1 : b1 < 256 := hb b1 (by simp)
    by_cases t : (b0 + 256 * b1) / 2048 < 29
    · exact .inr (.inl ⟨b0, b1, rest, rfl, h0, h1, t, by simp only [decode]; rw [if_pos t]⟩)
    · match rest, hb with
      | [], _ => exact .inr (.inr (.inl ⟨b0, b1, [], rfl, h0, h1, by omega, by simp,
          by simp only [decode]; rw [if_neg t, if_pos (by omega)]; rfl⟩))
      | [b2], _ => exact .inr (.inr (.inl ⟨b0, b1, [b2], rfl, h0, h1, by omega, by simp,
          by simp only [decode]; rw [if_neg t, if_pos (by omega)]; rfl⟩))
      | b2 :: b3 :: rest', hb =>
        have h2 : b2 < 256 := hb b2 (by simp)
        have h3 : b3 < 256 := hb b3 (by simp)
        exact .inr (.inr (.inr ⟨b0, b1, b2, b3, rest', rfl, h0, h1, h2, h3, by omega,
          by simp only [decode]; rw [if_neg t, if_pos (by omega)]⟩))

/-- C03.a  The decoder never panics: none of the `unwrap()` / `unreachable!()` sites is reachable. -/
theorem dec_no_panic (bs : List Nat) (hb : IsBytes bs) : decode bs ≠ .error .panic := by
  rcases decode_cases bs hb with ⟨_, e⟩ | ⟨b0, b1, _, _, _, _, t, e⟩ | ⟨_, _, _, _, _, _, _, _, e⟩ |
      ⟨b0, b1, b2, b3, _, _, _, _, _, _, _, e⟩
  · rw [e]; intro h; cases h
  · rw [e]; have o := decode16_out _ t
    generalize decode16 (b0 + 256 * b1) = r at o
    cases o <;> (intro h; cases h)
  · rw [e]; intro h; cases h
  · rw [e]; have o := decode32_out (b0 + 256 * b1) (b2 + 256 * b3)
    generalize decode32 (b0 + 256 * b1) (b2 + 256 * b3) = r at o
    cases o <;> (intro h; cases h)

/-- C03.b  Length rule: a decoded instruction consumes 4 bytes exactly when the top five bits of the first
halfword (= of its high byte `bs[1]`) are 11101, 11110 or 11111, otherwise 2; and never more than supplied. -/
theorem dec_len (bs : List Nat) (hb : IsBytes bs) (n : Nat) (i : Instr) (h : decode bs = .ok (n, i)) :
    n = (if 29 ≤ bs[1]! / 8 then 4 else 2) ∧ n ≤ bs.length := by
  rcases decode_cases bs hb with ⟨_, e⟩ | ⟨b0, b1, rest, rfl, _, _, t, e⟩ | ⟨_, _, _, _, _, _, _, _, e⟩ |
      ⟨b0, b1, b2, b3, rest, rfl, _, _, _, _, t, e⟩
  · rw [e] at h; cases h
  · rw [e] at h; have o := decode16_out _ t
    rw [h] at o
    have hn : n = 2 := by cases o; rfl
    subst hn
    have : (b0 :: b1 :: rest)[1]! = b1 := rfl
    rw [this, if_neg (by omega)]
    exact ⟨rfl, by simp⟩
  · rw [e] at h; cases h
  · rw [e] at h; have o := decode32_out (b0 + 256 * b1) (b2 + 256 * b3)
    rw [h] at o
    have hn : n = 4 := by cases o; rfl
    subst hn
    have : (b0 :: b1 :: b2 :: b3 :: rest)[1]! = b1 := rfl
    rw [this, if_pos (by omega)]
    exact ⟨rfl, by simp⟩

/-- C03.c  Underflow is reported exactly when fewer bytes than the length rule demands were supplied, and
it names the demanded and the supplied length. -/
theorem dec_underflow (bs : List Nat) (hb : IsBytes bs) (need hv : Nat) :
    decode bs = .error (.underflow need hv) ↔
      hv = bs.length ∧ ((bs.length < 2 ∧ need = 2) ∨ (2 ≤ bs.length ∧ 29 ≤ bs[1]! / 8 ∧ bs.length < 4 ∧ need = 4)) := by
  rcases decode_cases bs hb with ⟨l, e⟩ | ⟨b0, b1, rest, rfl, _, _, t, e⟩ | ⟨b0, b1, rest, rfl, _, _, t, l, e⟩ |
      ⟨b0, b1, b2, b3, rest, rfl, _, _, _, _, t, e⟩
  · rw [e]; constructor
    · intro h; injection h with h; injection h with h1 h2; omega
    · rintro ⟨rfl, ⟨_, rfl⟩ | ⟨_, _⟩⟩
      · rfl
      · omega
  · rw [e]; have o := decode16_out _ t
    have : (b0 :: b1 :: rest)[1]! = b1 := rfl
    rw [this]
    constructor
    · intro h; rw [h] at o; cases o
    · rintro ⟨_, ⟨l, _⟩ | ⟨_, l, _⟩⟩
      · exfalso; simp only [List.length_cons] at l; omega
      · omega
  · rw [e]
    have : (b0 :: b1 :: rest)[1]! = b1 := rfl
    rw [this]
    constructor
    · intro h; injection h with h; injection h with h1 h2
      simp only [List.length_cons] at *
      omega
    · rintro ⟨rfl, ⟨l', _⟩ | ⟨_, _, _, rfl⟩⟩
      · exfalso; simp only [List.length_cons] at l'; omega
      · rfl
  · rw [e]; have o := decode32_out (b0 + 256 * b1) (b2 + 256 * b3)
    constructor
    · intro h; rw [h] at o; cases o
    · rintro ⟨_, ⟨l, _⟩ | ⟨_, _, l, _⟩⟩
      · exfalso; simp only [List.length_cons] at l; omega
      · exfalso; simp only [List.length_cons] at l; omega

/-- C03.d  Canonicity: every instruction the decoder returns can be re-encoded; the re-encoding has the
same length and decodes to the same instruction (it equals the input up to alias encodings). -/
theorem dec_canon (bs : List Nat) (hb : IsBytes bs) (n : Nat) (i : Instr) (h : decode bs = .ok (n, i)) :
    ∃ hws, encode i = .ok hws ∧ 2 * hws.length = n ∧ decode (toBytes hws) = .ok (n, i) := by
  rcases decode_cases bs hb with ⟨_, e⟩ | ⟨b0, b1, rest, rfl, _, _, t, e⟩ | ⟨_, _, _, _, _, _, _, _, e⟩ |
      ⟨b0, b1, b2, b3, rest, rfl, _, _, _, _, t, e⟩
  · rw [e] at h; cases h
  · rw [e] at h; have o := decode16_out _ t
    rw [h] at o
    cases o with
    | ok i h' he t' _ hd =>
      refine ⟨[h'], he, rfl, ?_⟩
      have := decode_single h' [] t'
      rw [List.append_nil] at this
      rw [this, hd]
  · rw [e] at h; cases h
  · rw [e] at h; have o := decode32_out (b0 + 256 * b1) (b2 + 256 * b3)
    rw [h] at o
    cases o with
    | ok i he wf =>
      obtain ⟨w0, w1, he⟩ := he
      refine ⟨[w0, w1], he, rfl, ?_⟩
      have := dec_enc i [w0, w1] [] he wf
      rw [List.append_nil] at this
      exact this

/-- C03.e  The result depends only on the bytes consumed. -/
theorem dec_prefix (bs : List Nat) (hb : IsBytes bs) (n : Nat) (i : Instr) (h : decode bs = .ok (n, i))
    (tail : List Nat) : decode (bs.take n ++ tail) = .ok (n, i) := by
  obtain ⟨hws, he, hl, hd⟩ := dec_canon bs hb n i h
  rcases decode_cases bs hb with ⟨_, e⟩ | ⟨b0, b1, rest, rfl, _, _, t, e⟩ | ⟨_, _, _, _, _, _, _, _, e⟩ |
      ⟨b0, b1, b2, b3, rest, rfl, _, _, _, _, t, e⟩
  · rw [e] at h; cases h
  · have hn := (dec_len _ hb n i h).1
    have : (b0 :: b1 :: rest)[1]! = b1 := rfl
    rw [this, if_neg (by omega)] at hn
    subst hn
    rw [e] at h
    simp only [List.take, List.cons_append, List.nil_append, decode]
    rw [if_pos t]; exact h
  · rw [e] at h; cases h
  · have hn := (dec_len _ hb n i h).1
    have : (b0 :: b1 :: b2 :: b3 :: rest)[1]! = b1 := rfl
    rw [this, if_pos (by omega)] at hn
    subst hn
    rw [e] at h
    simp only [List.take, List.cons_append, List.nil_append, decode]
    rw [if_neg (by omega), if_pos (by omega)]; exact h

/-! non-vacuity -/
example : IsBytes [0x08, 0x44] ∧ decode [0x08, 0x44] = .ok (2, .add false 0 0 (.reg 1)) :=
  ⟨by intro b hb; simp at hb; omega, rfl⟩
example : decode [0xFF, 0xF7, 0xFE, 0xFF, 0x00] = .ok (4, .bl (-4)) := rfl
example : decode [0x00, 0xF0, 0x00] = .error (.underflow 4 3) := rfl
example : decode [0xFF, 0x44] = .error (.unpredictable 0x44FF none) := rfl
-- the alias case of canonicity: ADDS R0,R0,#1 in the three-operand form decodes and re-encodes to the
-- two-operand form
example : decode [0x40, 0x1C] = .ok (2, .add true 0 0 (.imm 1)) ∧ encode (.add true 0 0 (.imm 1)) = .ok [0x3001] :=
  ⟨rfl, rfl⟩

end Trion.Codec
