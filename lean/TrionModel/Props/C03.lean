import TrionModel.Model.Codec
/-! # C03 — decoder total and canonical (first increment; deepened below) -/
namespace Trion.Codec

theorem dec_underflow_short (bs : List Nat) (h : bs.length < 2) : decode bs = .error (.underflow 2 bs.length) := by
  match bs, h with
  | [], _ => rfl
  | [_], _ => rfl

end Trion.Codec
