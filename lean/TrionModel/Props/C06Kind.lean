import TrionModel.Lemmas.C06MemK
import TrionModel.Props.C06Then
import TrionModel.Props.C12Blame
/-!
# C06, third clause — the reported diagnostic WITH ITS KIND (statement anywhere, followed by anything)

`ReportedIn` (Props/C06Then.lean) pins file, line and column of the diagnostic but not its kind (`reportedIn_of_push` took
the kind `k` and dropped it).  `ReportedK fs main el K`: every finished run is not a success and has a diagnostic `d` in
`main` at `el`'s line and column WITH `K d.kind`.  The theorems of C06Then are restated with the kind:

* `reportedK_of_push`: the one-diagnostic classes — `K = (· = k)`, the exact kind;
* `invalid_instruction_of_kind` / `_count_kind` / `invalid_instruction_kind`: `C04.InstrKind b`, with `b` the outcome of the
  statement's first attempt: the encoder's refusal `instrAssemble (asmEncode _)` of the completed instruction, or
  `frontKind fd` of the front end's own diagnostic `fd` (for a wrong operand count exactly `instrTooMany` /
  `instrNotEnough` with the two counts);
* `invalid_du_kind`: exactly `dirApply name (dataRange 0 max v)` for a value outside the type, `dirArgType name 0 const str`
  for a string.

Hypotheses kept from C06Then and NOT discharged in general: `Asm.Table.NoDef tbl` (no pending `.global` / `.import` entry in
the file's table — a leading `.global main;` breaks it) and `tblI64 tbl` (every table value is an i64); both hold after
`.addr A; .const …` prefixes (`prefixOk_addr_defs`).
-/
namespace Trion.C06
open Trion Trion.Asm Trion.Front Trion.C04

def ReportedK (fs : Bytes → Option Bytes) (main : Bytes) (el : Element) (K : Asm.Kind → Prop) : Prop :=
  ∀ o, Asm.run fs main = .done o →
    o.success = false ∧ ∃ d ∈ o.diags, d.file = main ∧ d.line = el.line ∧ d.col = el.col ∧ K d.kind

theorem ReportedK.reportedIn {fs : Bytes → Option Bytes} {main : Bytes} {el : Element} {K : Asm.Kind → Prop}
    (h : ReportedK fs main el K) : ReportedIn fs main el := fun o ho => by
  obtain ⟨h1, d, hd, h2, h3, h4, _⟩ := h o ho
  exact ⟨h1, d, hd, h2, h3, h4⟩

/-- C06k.0  the generic statement -/
theorem reportedK_of {fs : Bytes → Option Bytes} {main : Bytes} {el : Element} {S : Asm.St} (h : AtAny fs main el S)
    {K : Asm.Kind → Prop}
    (hK : ∀ S1 r1, Asm.statement fs Asm.encoder (incOf fs) (envOf main) S el = .ok (S1, r1) →
      ∃ d ∈ S1.errors, d.file = main ∧ d.line = el.line ∧ d.col = el.col ∧ K d.kind) : ReportedK fs main el K := by
  obtain ⟨data, els, perr, pre, post, hfs, hp, hels, hpre⟩ := h
  exact run_stmt_reportedP fs main data hfs els perr hp pre post el hels S hpre
    (fun d => d.file = main ∧ d.line = el.line ∧ d.col = el.col ∧ K d.kind) hK

/-- C06k.1  the one-diagnostic classes: the diagnostic has exactly the kind `k` -/
theorem reportedK_of_push {fs : Bytes → Option Bytes} {main : Bytes} {el : Element} {S : Asm.St} (h : AtAny fs main el S)
    {k : Asm.Kind} {r : Asm.Res}
    (hel : Asm.statement fs Asm.encoder (incOf fs) (envOf main) S el = .ok (S.push (envOf main) el.line el.col k, r)) :
    ReportedK fs main el (· = k) :=
  reportedK_of h (fun S1 r1 hX => by
    rw [hel] at hX
    cases hX
    exact ⟨_, List.mem_cons_self, rfl, rfl, rfl, rfl⟩)

section
variable {fs : Bytes → Option Bytes} {main : Bytes} {S : Asm.St} {l c : Nat}

/-- C06k.2  an instruction statement (known mnemonic) that the front end does not complete to an encodable instruction -/
theorem invalid_instruction_of_kind {tbl : Asm.Table} (hl : S.locals = some tbl) (hnd : Asm.Table.NoDef tbl) (hi64 : tblI64 tbl)
    {map : Map.Segs} {seg : Seg.Active} {pending : List (Nat × Nat)} (hs : S.seg = ⟨map, some seg, pending⟩)
    {name : Bytes} {args : Args} {t : Instr} (hm : mnemonic name = some t)
    (htot : (∃ i, build seg.cur name args.toList (Asm.frontEval tbl) true = .completed i) ∨
      (∃ d st, build seg.cur name args.toList (Asm.frontEval tbl) true = .error d st))
    (henc0 : ∀ i hws, build seg.cur name args.toList (Asm.frontEval tbl) true = .completed i → Codec.encode i ≠ .ok hws)
    (h : AtAny fs main ⟨l, c, .instruction name args⟩ S) :
    ReportedK fs main ⟨l, c, .instruction name args⟩ (InstrKind (build seg.cur name args.toList (Asm.frontEval tbl) true)) := by
  refine reportedK_of h ?_
  intro S1 r1 hX
  have hst : Asm.statement fs Asm.encoder (incOf fs) (envOf main) S ⟨l, c, .instruction name args⟩ =
      Asm.instruction Asm.encoder (envOf main) S l c name args.toList := by simp [Asm.statement, hs]
  rw [hst] at hX
  exact instr_diag_memK (envOf main) S tbl hnd hi64 (by simp) hl map seg pending hs l c name args.toList t hm htot henc0 S1 r1 hX

/-- C06k.3  **wrong operand count, instructions**: exactly `TooManyArguments` / `NotEnoughArguments` with the two counts -/
theorem invalid_instruction_count_kind {tbl : Asm.Table} (hl : S.locals = some tbl) (hnd : Asm.Table.NoDef tbl)
    (hi64 : tblI64 tbl) {map : Map.Segs} {seg : Seg.Active} {pending : List (Nat × Nat)} (hs : S.seg = ⟨map, some seg, pending⟩)
    {name : Bytes} {args : Args} {t : Instr} (hm : mnemonic name = some t) (hn : args.toList.length ≠ (kinds t).length)
    (h : AtAny fs main ⟨l, c, .instruction name args⟩ S) :
    ReportedK fs main ⟨l, c, .instruction name args⟩ (· =
      if args.toList.length > (kinds t).length then .instrTooMany (kinds t).length args.toList.length
      else .instrNotEnough (kinds t).length args.toList.length) := by
  have hb := arity_rejected_proof seg.cur name args.toList (Asm.frontEval tbl) true t hm hn
  intro o ho
  obtain ⟨h1, d, hd, h2, h3, h4, hk⟩ := invalid_instruction_of_kind hl hnd hi64 hs hm (.inr ⟨_, _, hb⟩)
    (fun i hws hc => by rw [hb] at hc; cases hc) h o ho
  refine ⟨h1, d, hd, h2, h3, h4, ?_⟩
  rw [hb] at hk
  rcases hk with ⟨i, e', hc, _⟩ | ⟨fd, st, hc, hk⟩
  · cases hc
  · simp only [BuildOut.error.injEq] at hc
    obtain ⟨rfl, _⟩ := hc
    rw [hk]
    split <;> rfl

/-- C06k.4  **wrong operand kind / out-of-range or misaligned value / overflow, instructions** -/
theorem invalid_instruction_kind {tbl : Asm.Table} (hl : S.locals = some tbl) (hnd : Asm.Table.NoDef tbl) (hi64 : tblI64 tbl)
    {map : Map.Segs} {seg : Seg.Active} {pending : List (Nat × Nat)} (hs : S.seg = ⟨map, some seg, pending⟩)
    {name : Bytes} {args : Args} {t : Instr} (hm : mnemonic name = some t)
    (hw : wellFormed (tabOf tbl) (sig t) args.toList)
    (hq : ∀ vs, denoteAll (tabOf tbl) (sig t) args.toList = some vs → ¬ svQuirk t vs)
    (hno : ∀ i hws, ¬ (means (tabOf tbl) seg.cur name args.toList = some i ∧ i.wf ∧ Codec.encode i = .ok hws))
    (h : AtAny fs main ⟨l, c, .instruction name args⟩ S) :
    ReportedK fs main ⟨l, c, .instruction name args⟩ (InstrKind (build seg.cur name args.toList (Asm.frontEval tbl) true)) := by
  have hn := Asm.Table.nodef_get hnd
  have hTk := tableOk_of_tblI64 hi64
  have hE := evalSimp_frontEval tbl
  exact invalid_instruction_of_kind hl hnd hi64 hs hm (stmt_total hn hTk hE true seg.cur name args.toList t hm hw)
    (fun i hws hb he => hno i hws ((stmt_iff hn hTk hE true seg.cur name args.toList t hm hw hq i hws).1 ⟨hb, he⟩)) h

/-- an `InstrKind` is an instruction kind (`Asm.Kind.isInstr`, Props/C12Blame.lean) -/
theorem InstrKind.isInstr {b : BuildOut} {k : Asm.Kind} (h : InstrKind b k) : k.isInstr = true := by
  rcases h with ⟨_, _, _, rfl⟩ | ⟨fd, _, _, rfl⟩
  · rfl
  · cases fd <;> first | rfl | (rename_i e; cases e <;> first | rfl | (rename_i e2; cases e2 <;> rfl))

/-- C06k.5  **`.du8 / .du16 / .du32` with a value outside the type, or with a string**: the exact kind -/
theorem invalid_du_kind {tbl : Asm.Table} (hl : S.locals = some tbl) (hnd : Asm.Table.NoDef tbl) (hact : S.seg.active.isSome = true)
    (du : Asm.DU) (dn : Bytes) (hdn : dn = bytesOf du.name) {b : Arg}
    (hb : (∃ v, value (tabOf tbl) b = some v ∧ ¬ (0 ≤ v ∧ v ≤ du.max)) ∨ (∃ s, b = .str s))
    (h : AtAny fs main ⟨l, c, .directive dn (Args.ofList [b])⟩ S) :
    ReportedK fs main ⟨l, c, .directive dn (Args.ofList [b])⟩ (fun k =>
      (∃ v, value (tabOf tbl) b = some v ∧ k = .dirApply du.name (.dataRange 0 du.max v)) ∨
      (∃ s, b = .str s ∧ k = .dirArgType du.name 0 .const .str)) := by
  refine reportedK_of h ?_
  intro S1 r1 hX
  have hst : Asm.statement fs Asm.encoder (incOf fs) (envOf main) S ⟨l, c, .directive dn (Args.ofList [b])⟩ =
      Asm.duDirective du (envOf main) S l c [b] := by
    subst hdn
    simp only [Asm.statement, Show.toList_ofList]
    cases du
    · exact C04.directive_du8 ..
    · exact C04.directive_du16 ..
    · exact C04.directive_du32 ..
  rw [hst] at hX
  rcases hb with ⟨v, hv, hr⟩ | ⟨s, rfl⟩
  · obtain ⟨d, hd, h1, h2, h3, hk⟩ := du_diag_memK du (envOf main) S l c b (.const v) hact
      (evalArg_value (envOf main) S tbl (by simp) hl hnd hv) (fun w hw => by cases hw; exact hr) S1 r1 hX
    exact ⟨d, hd, h1, h2, h3, .inl ⟨v, hv, hk⟩⟩
  · obtain ⟨d, hd, h1, h2, h3, hk⟩ := du_diag_memK du (envOf main) S l c (.str s) (.str s) hact
      (evalArg_str (envOf main) S tbl (by simp) hl s) (fun w hw => by cases hw) S1 r1 hX
    exact ⟨d, hd, h1, h2, h3, .inr ⟨s, rfl, hk⟩⟩

end

end Trion.C06
