import TrionModel.Props.C12Asm
/-!
# C12 — single-file projects: every diagnostic is in the main file, at one of its statements

A corollary of `diag_pos_run` for file systems that hold nothing but the main file (`∀ f ≠ main, fs f = none`; an
`.include` can then only fail or name `main` itself): every diagnostic of a finished run names `main`, and its line and
column are those of a statement the main file parses into (or it is the report of the parse error that ended the file).

The provenance statement (each diagnostic is blamed on a statement that can push its KIND, any include tree) is
`run_blames` / `run_blames_single` in Props/C12Blame.lean.
-/
namespace Trion.Asm
open Trion

theorem diag_pos_run_single (fs : Bytes → Option Bytes) (main : Bytes) (hsingle : ∀ f, f ≠ main → fs f = none)
    (o : Outcome) (h : run fs main = .done o) :
    ∀ d ∈ o.diags, d.file = main ∧ ∃ text lo els err, fs main = some text ∧ Lex.tokens text = .ok lo ∧
      Parse.all lo = .done els err ∧
      ((∃ el ∈ els, d.line = el.line ∧ d.col = el.col) ∨
       ∃ e, err = some e ∧ d.line = e.line ∧ d.col = e.col ∧ ∃ k, d.kind = .parse k) := by
  intro d hd
  obtain ⟨text, lo, els, err, h1, h2, h3, h4⟩ := diag_pos_run fs main o h d hd
  have hf : d.file = main := by
    by_cases e : d.file = main
    · exact e
    · rw [hsingle _ e] at h1; cases h1
  rw [hf] at h1
  exact ⟨hf, text, lo, els, err, h1, h2, h3, h4⟩

end Trion.Asm
