import TrionModel.Props.C18
import TrionModel.Props.C13Run
/-!
# C18 composed with the assembler — the Trias post-processing on the image of a finished run

Every theorem of Props/C18.lean quantifies over a normalised segment list (`Trias.Norm m`).  Here the hypothesis is
discharged for the image the whole-pipeline model produces:

* `run_image_norm`: the image of EVERY finished run (`Asm.run fs main = .done o`) is `Trias.Norm`: ascending, non-empty
  segments, at least one free address between two segments (maximally merged), inside the 32-bit space.  (`Seg.Inv` of the
  final regions — `run_ops_legal`, C13 — contains `Map.MInv` of the output map, which is `Norm`: `norm_is_map_inv`, C15.)
* `trias_of_run`: hence, whenever the post-processing `Trias.post` applied to that image produces a file, the conclusions of
  C18 hold of it: every program byte is read back at its address, pages are padded with zeros and untouched pages are
  absent, the blocks are 256-byte pages numbered consecutively with the family id, and the boot-sector checksum is the
  CRC-32/MPEG-2 of the 252 boot bytes when 0x10000000 is occupied; * `trias_of_run_refuses`: a program that occupies
  0x10000000 and the checksum word is refused; an empty image yields no file.

NOT covered here (correspondence only): that `trias` calls the post-processing only after a SUCCESSFUL run and writes no
output file otherwise — `Model/Trias.lean` models `assemble()` from the point where the map is final; the branch
`if !ok {return false}` of `src/bin/assembler.rs` is compared by the C18 harness (exit status and absence of the output
file on failing programs), not stated as a theorem.
-/
namespace Trion.Asm
open Trion Trion.Trias Trion.Uf2

/-- C18/C15/C13  The image of every finished run is a normalised segment list. -/
theorem run_image_norm (fs : Bytes → Option Bytes) (main : Bytes) (o : Outcome) (h : run fs main = .done o) :
    Trias.Norm o.image := by
  obtain ⟨ops, _, _, hinv, hm⟩ := run_ops_legal fs main o h
  rw [← hm]
  exact (Trias.norm_is_map_inv _).mpr hinv.1

/-- C18 composed  **`trias_of_run`**: the file `Trias.post` produces from the image of a finished run reproduces that image. -/
theorem trias_of_run (fs : Bytes → Option Bytes) (main : Bytes) (o : Outcome) (h : run fs main = .done o)
    (f : List UInt8) (hp : Trias.post o.image = .ok f) :
    (∃ bs, read f = some bs ∧ ∀ x v, Trias.lookup o.image x = some v → image bs x = some v) ∧
    (∃ bs, read f = some bs ∧ ∀ x,
      (TouchedF (Trias.lookup o.image) x → image bs x = some ((withCrc o.image x).getD 0)) ∧
      (¬ TouchedF (Trias.lookup o.image) x → image bs x = none)) ∧
    (∃ bs, read f = some bs ∧ f.length = 512 * bs.length ∧
      (∀ k (hk : k < bs.length), bs[k].psize = 256 ∧ bs[k].addr % 256 = 0 ∧ bs[k].blockNo = k ∧
        bs[k].numBlocks = bs.length ∧ bs[k].fam = 0xE48BFF56 ∧ bs[k].flags = 0x2000) ∧
      (∀ j k (hj : j < bs.length) (hk : k < bs.length), j < k → bs[j].addr + 256 ≤ bs[k].addr) ∧
      (∀ j k (hj : j < bs.length) (hk : k < bs.length), j ≠ k → bs[j].addr ≠ bs[k].addr)) ∧
    ((Trias.lookup o.image 0x10000000).isSome →
      ∃ bs b0 b1 b2 b3, read f = some bs ∧
        image bs 0x100000FC = some b0 ∧ image bs 0x100000FD = some b1 ∧
        image bs 0x100000FE = some b2 ∧ image bs 0x100000FF = some b3 ∧
        b0.toNat + 256 * b1.toNat + 65536 * b2.toNat + 16777216 * b3.toNat =
          (Trion.Crc.Spec.crc ((bootBytes o.image).map UInt8.toBitVec)).toNat) := by
  have hn := run_image_norm fs main o h
  refine ⟨pad_pages_bytes _ hn f hp, pad_pages _ hn f hp, blocks_pages _ hn f hp, fun h0 => ?_⟩
  obtain ⟨bs, b0, b1, b2, b3, g1, g2, g3, g4, g5, g6, _⟩ := boot_crc _ hn h0 f hp
  exact ⟨bs, b0, b1, b2, b3, g1, g2, g3, g4, g5, g6⟩

/-- C18 composed  refusals: a boot-sector program that itself occupies the checksum word, and the empty image -/
theorem trias_of_run_refuses (fs : Bytes → Option Bytes) (main : Bytes) (o : Outcome) (_h : run fs main = .done o) :
    ((Trias.lookup o.image 0x10000000).isSome → ∀ i, i < 4 → (Trias.lookup o.image (0x100000FC + i)).isSome →
      Trias.post o.image = .error .crcOverwrite) ∧
    (o.image = [] → Trias.post o.image = .error .empty) :=
  ⟨fun h0 i hi hx => boot_crc_refuses _ h0 i hi hx, fun he => by rw [he]; rfl⟩

end Trion.Asm
