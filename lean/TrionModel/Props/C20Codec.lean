import TrionModel.Props.C20Asm
import TrionModel.Lemmas.TridasCodec
/-!
# C20 with the REAL decoder

`Props/C20.lean` and `Props/C20Asm.lean` state the theorems for an arbitrary `decode : Decoder`.  Here the parameter is
`codecDecoder` (`Model/TridasCodec.lean`): `Codec.decode` — the decoder model of C01–C03 — on the byte values, `Err` ↦
`none`.  `listingCodec b = listing codecDecoder b` is `tridas` on the bytes `b`, decoder included.

What C02/C03 discharge:
* C02 `dec_enc`: for a gap-free chain of canonically encoded entries the decoder clause of `WellFormed` HOLDS
  (`wellFormed_of_entryOk`) — no assumption about the decoder remains in `listing_roundtrip_entries`;
* C03 `dec_canon` / `decode_wf`: whatever the real decoder returned is well-formed and re-encodable in its own length,
  and `targetInRange` follows from the branch being inside the file — so for a file that is `WellFormed` w.r.t. the real
  decoder the `EntryOk` hypothesis shrinks to "the bytes are the canonical encoding" (`listing_roundtrip_codec`), and
  the semantic form needs no encoding hypothesis at all (`listing_roundtrip_semantic_codec`).
-/
namespace Trion.Tridas
open Trion Trion.Show

/-- the bytes of entry `e` in `b` are the canonical encoding of its instruction (K3: alias encodings are not) -/
def CanonicalAt (b : List UInt8) (e : Entry) : Prop :=
  ∀ hws, Codec.encode e.instr = .ok hws → (Codec.toBytes hws).map (·.toUInt8) = slice b e

/-- C20.codec (hypothesis)  With the real decoder the decoder clause of the hypothesis is a THEOREM for canonically
encoded files (C02): a gap-free chain of canonically encoded entries, in-file targets on boundaries, everything
reachable ⇒ `WellFormed codecDecoder b es`. -/
theorem wellFormed_of_entryOk {b : List UInt8} {es : List Entry}
    (small : BASE + b.length < two32) (nonempty : 0 < b.length) (hc : Chain es BASE (BASE + b.length))
    (hok : ∀ e ∈ es, EntryOk b e)
    (targets : ∀ e ∈ es, ∀ d, getBranch e.instr e.addr = some d → inFile b.length d → ∃ e' ∈ es, e'.addr = d)
    (reach : ∀ e ∈ es, Reach es b.length e.addr) : WellFormed codecDecoder b es :=
  wellFormed_codec small nonempty hc hok targets reach

/-- for a file that is well-formed w.r.t. the real decoder, `EntryOk` is exactly canonicity of the bytes (C03) -/
theorem entryOk_of_canonical {b : List UInt8} {es : List Entry} (wf : WellFormed codecDecoder b es)
    (hc : Chain es BASE (BASE + b.length))
    (hpc : ∀ e ∈ es, Show.targetOf e.instr e.addr = getBranch e.instr e.addr)
    (hin : ∀ e ∈ es, ∀ d, getBranch e.instr e.addr = some d → inFile b.length d)
    {e : Entry} (he : e ∈ es) (hcan : CanonicalAt b e) : EntryOk b e := by
  obtain ⟨hws, h1, h2, _⟩ := codec_entry_canon wf he
  obtain ⟨_, hb, _⟩ := chain_facts es _ _ hc
  have hbe := hb e he
  have hsmall := wf.small
  unfold two32 at hsmall
  refine ⟨hws, h1, h2, ?_, hcan hws h1⟩
  exact targetInRange_of_branch e.instr e.addr hws h1 hbe.1 (by omega) (hpc e he)
    (fun d hd => (hin e he d hd).1)

/-- C20.roundtrip with the REAL decoder.  For every binary `b` that is well-formed w.r.t. `Codec.decode` (`es` its
segmentation: the real decoder returns `e.instr` with length `e.after - e.addr` at every entry; in-file targets on
boundaries; everything reachable), gap-free, canonically encoded, without PC-relative data references, every direct
branch inside the file: `tridas` (decoder included) produces a listing, and `Asm.run` on its text succeeds without
diagnostic with image exactly `b` at 0x20000000. -/
theorem listing_roundtrip_codec {b : List UInt8} {es : List Entry}
    (wf : WellFormed codecDecoder b es) (hc : Chain es BASE (BASE + b.length))
    (hcan : ∀ e ∈ es, CanonicalAt b e)
    (hpc : ∀ e ∈ es, Show.targetOf e.instr e.addr = getBranch e.instr e.addr)
    (hin : ∀ e ∈ es, ∀ d, getBranch e.instr e.addr = some d → inFile b.length d) :
    ∃ ls, listingCodec b = .ok ls ∧
      ∀ (fs : Bytes → Option Bytes) (main : Bytes), fs main = some (listingText ls) →
        Asm.run fs main = .done ⟨true, none, true, [], [(BASE, b)]⟩ :=
  listing_roundtrip wf hc (fun e he => entryOk_of_canonical wf hc hpc hin he (hcan e he)) hpc hin

/-- C20.roundtrip with the real decoder, stated on the ENTRIES only — no hypothesis mentions a decoder: a non-empty
file cut into a gap-free chain of canonically encoded instructions (`EntryOk`), in-file targets on boundaries, everything
reachable, no PC-relative data references, every direct branch inside the file. -/
theorem listing_roundtrip_entries {b : List UInt8} {es : List Entry}
    (small : BASE + b.length < two32) (nonempty : 0 < b.length) (hc : Chain es BASE (BASE + b.length))
    (hok : ∀ e ∈ es, EntryOk b e)
    (targets : ∀ e ∈ es, ∀ d, getBranch e.instr e.addr = some d → inFile b.length d → ∃ e' ∈ es, e'.addr = d)
    (reach : ∀ e ∈ es, Reach es b.length e.addr)
    (hpc : ∀ e ∈ es, Show.targetOf e.instr e.addr = getBranch e.instr e.addr)
    (hin : ∀ e ∈ es, ∀ d, getBranch e.instr e.addr = some d → inFile b.length d) :
    ∃ ls, listingCodec b = .ok ls ∧
      ∀ (fs : Bytes → Option Bytes) (main : Bytes), fs main = some (listingText ls) →
        Asm.run fs main = .done ⟨true, none, true, [], [(BASE, b)]⟩ :=
  listing_roundtrip (wellFormed_of_entryOk small nonempty hc hok targets reach) hc hok hpc hin

/-- C20.roundtrip, semantic form, with the real decoder — NO encoding hypothesis (C03 supplies re-encodability in the
same length, well-formedness and the target condition): for every gap-free binary well-formed w.r.t. `Codec.decode`,
without PC-relative data references, direct branches to in-file boundaries at or before themselves, the re-assembled
image is a file of the same length with the same segmentation, every instruction in its canonical encoding. -/
theorem listing_roundtrip_semantic_codec {b : List UInt8} {es : List Entry}
    (wf : WellFormed codecDecoder b es) (hc : Chain es BASE (BASE + b.length))
    (hpc : ∀ e ∈ es, Show.targetOf e.instr e.addr = getBranch e.instr e.addr)
    (hback : ∀ e ∈ es, ∀ d, getBranch e.instr e.addr = some d → d ≤ e.addr ∧ inFile b.length d) :
    ∃ ls b', listingCodec b = .ok ls ∧ b'.length = b.length ∧ (∀ e ∈ es, EntryOk b' e) ∧
      ∀ (fs : Bytes → Option Bytes) (main : Bytes), fs main = some (listingText ls) →
        Asm.run fs main = .done ⟨true, none, true, [], [(BASE, b')]⟩ := by
  refine listing_roundtrip_semantic wf hc ?_ hpc hback
  intro e he
  obtain ⟨hws, h1, h2, h3⟩ := codec_entry_canon wf he
  obtain ⟨_, hb, _⟩ := chain_facts es _ _ hc
  have hbe := hb e he
  have hsmall := wf.small
  unfold two32 at hsmall
  exact ⟨hws, h1, h2, targetInRange_of_branch e.instr e.addr hws h1 hbe.1 (by omega) (hpc e he)
    (fun d hd => (hback e he d hd).2.1), h3⟩

/-- C20.labels / C20.covers with the real decoder: the listing exists, its instruction lines are exactly the file's
instructions, and every in-file direct-branch target has exactly one label line (attached by `labels_attached`). -/
theorem labels_unique_codec {b : List UInt8} {es : List Entry} (wf : WellFormed codecDecoder b es) :
    ∃ ls, listingCodec b = .ok ls ∧ instrLines ls = es.map (fun e => (e.addr, e.instr)) ∧
      labelsAttached ls = true ∧
      ∀ e ∈ es, ∀ d, getBranch e.instr e.addr = some d → inFile b.length d → labelCount d ls = 1 := by
  obtain ⟨ls, hl, hi⟩ := covers_all wf
  exact ⟨ls, hl, hi, labels_attached hl, fun e he d hd hin => labels_unique_wellFormed wf hl he hd hin⟩

/-! ## a real little program, through the real decoder

```
l_20000000:  BNE l_20000008      02 D1          forward conditional branch
             BL  l_2000000A      00 F0 02 F8    forward call
             B   l_20000000      FB E7          backward branch
l_20000008:  NOP                 00 BF
l_2000000A:  POP {PC}            00 BD          terminal
```
-/

def demo : List UInt8 := [0x02, 0xD1, 0x00, 0xF0, 0x02, 0xF8, 0xFB, 0xE7, 0x00, 0xBF, 0x00, 0xBD]

def demoEntries : List Entry :=
  [⟨0x20000000, .b 1 4, 0x20000002⟩, ⟨0x20000002, .bl 4, 0x20000006⟩, ⟨0x20000006, .b 14 (-10), 0x20000008⟩,
   ⟨0x20000008, .nop, 0x2000000A⟩, ⟨0x2000000A, .pop 32768, 0x2000000C⟩]

def demoListing : List Line :=
  [.header, .label 0x20000000, .instr 0x20000000 (.b 1 4), .instr 0x20000002 (.bl 4), .instr 0x20000006 (.b 14 (-10)),
   .blank, .label 0x20000008, .instr 0x20000008 .nop, .label 0x2000000A, .instr 0x2000000A (.pop 32768)]

/-- kernel-checked: `tridas` with the codec model's decoder on the twelve bytes (work-list traversal from 0x20000000,
forward BNE and BL targets queued, backward B, blank line after the non-returning B) -/
theorem demo_listing : (listingCodec demo).toOption = some demoListing := by decide +kernel

/-- kernel-checked: the text `tridas` prints for it -/
example : listingText demoListing = bytesOf
    ".addr 0x20000000;\nl_20000000:\n\tBNE l_20000008;\n\tBL l_2000000A;\n\tB l_20000000;\n\nl_20000008:\n\tNOP;\nl_2000000A:\n\tPOP {PC};\n" := by
  decide +kernel

/-- the hypotheses of `listing_roundtrip_entries` hold for the program (each entry's bytes are the encoder's output) -/
theorem demo_hyps :
    Chain demoEntries BASE (BASE + demo.length) ∧ (∀ e ∈ demoEntries, EntryOk demo e) ∧
    (∀ e ∈ demoEntries, ∀ d, getBranch e.instr e.addr = some d → inFile demo.length d ∧ ∃ e' ∈ demoEntries, e'.addr = d) ∧
    (∀ e ∈ demoEntries, Reach demoEntries demo.length e.addr) ∧
    (∀ e ∈ demoEntries, Show.targetOf e.instr e.addr = getBranch e.instr e.addr) := by
  have g0 : getBranch (.b 1 4) 0x20000000 = some 0x20000008 := by rfl
  have g1 : getBranch (.bl 4) 0x20000002 = some 0x2000000A := by rfl
  have g2 : getBranch (.b 14 (-10)) 0x20000006 = some 0x20000000 := by rfl
  have g3 : getBranch .nop 0x20000008 = none := by rfl
  have g4 : getBranch (.pop 32768) 0x2000000A = none := by rfl
  have m0 : (⟨0x20000000, .b 1 4, 0x20000002⟩ : Entry) ∈ demoEntries := by simp [demoEntries]
  have m1 : (⟨0x20000002, .bl 4, 0x20000006⟩ : Entry) ∈ demoEntries := by simp [demoEntries]
  have m2 : (⟨0x20000006, .b 14 (-10), 0x20000008⟩ : Entry) ∈ demoEntries := by simp [demoEntries]
  have m3 : (⟨0x20000008, .nop, 0x2000000A⟩ : Entry) ∈ demoEntries := by simp [demoEntries]
  have m4 : (⟨0x2000000A, .pop 32768, 0x2000000C⟩ : Entry) ∈ demoEntries := by simp [demoEntries]
  have r0 : Reach demoEntries demo.length 0x20000000 := Reach.base
  have r1 : Reach demoEntries demo.length 0x20000002 := Reach.fall m0 r0 rfl (by simp [BASE, demo])
  have r2 : Reach demoEntries demo.length 0x20000006 := Reach.fall m1 r1 rfl (by simp [BASE, demo])
  have r3 : Reach demoEntries demo.length 0x20000008 := Reach.branch m0 r0 g0 (by simp [inFile, BASE, demo])
  have r4 : Reach demoEntries demo.length 0x2000000A := Reach.fall m3 r3 rfl (by simp [BASE, demo])
  refine ⟨by simp [Chain, demoEntries, BASE, demo], ?_, ?_, ?_, ?_⟩
  · intro e he
    simp [demoEntries] at he
    rcases he with rfl | rfl | rfl | rfl | rfl
    · exact ⟨[0xD102], rfl, by simp [Instr.wf, inI32], by simp [Show.targetInRange, Front.pcOf], by decide⟩
    · exact ⟨[0xF000, 0xF802], rfl, by simp [Instr.wf, inI32], by simp [Show.targetInRange, Front.pcOf], by decide⟩
    · exact ⟨[0xE7FB], rfl, by simp [Instr.wf, inI32], by simp [Show.targetInRange, Front.pcOf], by decide⟩
    · exact ⟨[0xBF00], rfl, trivial, trivial, by decide⟩
    · exact ⟨[0xBD00], rfl, trivial, trivial, by decide⟩
  · intro e he d hd
    simp [demoEntries] at he
    rcases he with rfl | rfl | rfl | rfl | rfl
    · rw [g0] at hd; cases hd; exact ⟨by simp [inFile, BASE, demo], _, m3, rfl⟩
    · rw [g1] at hd; cases hd; exact ⟨by simp [inFile, BASE, demo], _, m4, rfl⟩
    · rw [g2] at hd; cases hd; exact ⟨by simp [inFile, BASE, demo], _, m0, rfl⟩
    · rw [g3] at hd; cases hd
    · rw [g4] at hd; cases hd
  · intro e he
    simp [demoEntries] at he
    rcases he with rfl | rfl | rfl | rfl | rfl
    · exact r0
    · exact r1
    · exact r2
    · exact r3
    · exact r4
  · intro e he
    simp [demoEntries] at he
    rcases he with rfl | rfl | rfl | rfl | rfl
    · rw [g0]; decide
    · rw [g1]; decide
    · rw [g2]; decide
    · rfl
    · rfl

/-- the round trip on the program: the text above, fed to the whole-pipeline assembler model, yields the twelve bytes
at 0x20000000 without diagnostic (an application of `listing_roundtrip_entries`, i.e. of the theorem with the REAL
decoder; forward BNE / BL go through the placeholder + end-of-file task path, the backward B resolves at once) -/
theorem demo_roundtrip (fs : Bytes → Option Bytes) (main : Bytes) (h : fs main = some (listingText demoListing)) :
    Asm.run fs main = .done ⟨true, none, true, [], [(BASE, demo)]⟩ := by
  obtain ⟨hc, hok, ht, hr, hpc⟩ := demo_hyps
  obtain ⟨ls, hl, hrun⟩ := listing_roundtrip_entries (b := demo) (es := demoEntries) (by decide) (by decide) hc hok
    (fun e he d hd _ => (ht e he d hd).2) hr hpc (fun e he d hd => (ht e he d hd).1)
  have hd := demo_listing
  rw [hl] at hd
  have : ls = demoListing := Option.some.inj hd
  subst this
  exact hrun fs main h

/-- … and the program is well-formed w.r.t. the real decoder, so `listing_roundtrip_codec`,
`listing_roundtrip_semantic_codec` (backward part) and `labels_unique_codec` are not vacuous -/
example : WellFormed codecDecoder demo demoEntries ∧ ∀ e ∈ demoEntries, CanonicalAt demo e := by
  obtain ⟨hc, hok, ht, hr, _⟩ := demo_hyps
  refine ⟨wellFormed_of_entryOk (by decide) (by decide) hc hok (fun e he d hd _ => (ht e he d hd).2) hr, ?_⟩
  intro e he hws henc
  obtain ⟨hws', h1, _, _, h4⟩ := hok e he
  rw [h1] at henc; cases henc; exact h4

end Trion.Tridas
