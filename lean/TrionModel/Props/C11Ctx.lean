import TrionModel.Lemmas.LexCtx
import TrionModel.Props.C11
/-!
# C11 — literals denote the written value, whatever text follows

The theorems of `Props/C11.lean` take the literal as the whole input. Here the literal is followed by ANY
well-formed UTF-8 text `rest` (for integers: text that does not directly continue the number, `Follow`).
`Spell` (`Lemmas/LexLayoutDef.lean`) lists every accepted spelling; `Props/C12Layout.lean` does the same with
separator text in front.
-/
namespace Trion.Lex

/-- C11.ctx1  Any spelling of any token, followed by any well-formed text: the first `next()` yields that token
at 1:1 and leaves exactly the rest, at the specified position after the literal; hence the token stream begins
with it. -/
theorem spelling_then (lit rest : Bytes) (t : Tok) (hs : Spell lit t rest.head?) (hur : Utf8 rest) :
    nextToken ⟨lit ++ rest, false, 1, 1⟩ = .tok ⟨1, 1, t⟩ ⟨rest, false, (Pos.of lit).1, (Pos.of lit).2⟩ ∧
    ∃ o more, tokens (lit ++ rest) = .ok o ∧ o.toks = ⟨1, 1, t⟩ :: more :=
  ⟨nextToken_spell lit rest t hs hur, tokens_spell lit rest t hs hur⟩

/-- C11.ctx2 `int_lit_then`  An integer literal below 2^63 in radix 2, 8, 10 or 16 (any digit case, any leading
zeros) followed by any text that does not continue it: the stream begins with the number token carrying the
positional value. -/
theorem int_lit_then (r : Nat) (hr : r = 2 ∨ r = 8 ∨ r = 10 ∨ r = 16) (ds : Bytes) (hne : ds ≠ [])
    (hds : ∀ b ∈ ds, isDigit r b = true) (hv : valueFrom r ds 0 < 2 ^ 63) (rest : Bytes) (hf : Follow rest.head?)
    (hur : Utf8 rest) :
    ∃ o more, tokens (radixPrefix r ++ ds ++ rest) = .ok o ∧
      o.toks = ⟨1, 1, .num (Int.ofNat (valueFrom r ds 0))⟩ :: more := by
  have hval : i64FromStrRadix ds r = some (Int.ofNat (valueFrom r ds 0)) := by
    rw [i64FromStrRadix_eq r (by omega) ds hne hds]; simp [hv]
  exact tokens_spell _ rest _ (Spell.num r ds _ _ hr hne hds hval hf) hur

/-- C11.ctx3 `int_big_then`  A literal of 2^63 or more is rejected with `BadNumber` at 1:1 and no token, also
when text follows (it is not wrapped, and the following text does not rescue it). -/
theorem int_big_then (r : Nat) (hr : r = 2 ∨ r = 8 ∨ r = 10 ∨ r = 16) (ds : Bytes) (hne : ds ≠ [])
    (hds : ∀ b ∈ ds, isDigit r b = true) (hv : 2 ^ 63 ≤ valueFrom r ds 0) (rest : Bytes) (hf : Follow rest.head?)
    (hur : Utf8 rest) :
    tokens (radixPrefix r ++ ds ++ rest) = .ok ⟨[], some ⟨1, 1, .badNumber⟩, 1, 1⟩ := by
  obtain ⟨d0, dtl, hdd, h0⟩ := number_head r ds hr hne hds
  have hnone : i64FromStrRadix ds r = none := by
    rw [i64FromStrRadix_eq r (by omega) ds hne hds]
    have : ¬ valueFrom r ds 0 < 2 ^ 63 := by omega
    simp [this]
  have hnext : nextToken ⟨radixPrefix r ++ ds ++ rest, false, 1, 1⟩ =
      .err ⟨1, 1, .badNumber⟩ ⟨[], false, 1, 1⟩ := by
    rw [nextToken_number _ d0 (dtl ++ rest) (by simp [hdd]) h0, lexNumber_follow r ds rest hr hne hds hf hur, hnone]
    rfl
  exact tokens_error _ (utf8_number r ds hds hur) _ _ hnext

/-- C11.ctx4 `char_lit_then`  A character literal — any scalar value that may be written raw (multi-byte
included), or one of the six escapes — followed by any text. -/
theorem char_lit_then (c : Nat) (hc : RawChar c) (rest : Bytes) (hur : Utf8 rest) :
    ∃ o more, tokens (39 :: encodeChar c ++ [39] ++ rest) = .ok o ∧ o.toks = ⟨1, 1, .num (Int.ofNat c)⟩ :: more :=
  tokens_spell _ rest _ (Spell.chr c _ hc) hur

theorem char_esc_then (e : UInt8) (v : Nat) (he : charEsc e.toNat = some v) (rest : Bytes) (hur : Utf8 rest) :
    ∃ o more, tokens ([39, 92, e, 39] ++ rest) = .ok o ∧ o.toks = ⟨1, 1, .num (Int.ofNat v)⟩ :: more :=
  tokens_spell _ rest _ (Spell.chrEsc e v _ he) hur

/-- C11.ctx5 `str_lit_tokens_then`  A string literal (raw characters, escapes, `\u{…}`) followed by any text:
the stream begins with the string token carrying exactly the characters denoted. (`str_lit_then` of
`Props/C11.lean` is the `next()`-level statement.) -/
theorem str_lit_tokens_then (items : List StrItem) (hok : ∀ it ∈ items, it.Ok) (rest : Bytes) (hur : Utf8 rest) :
    ∃ o more, tokens (34 :: renderAll items ++ [34] ++ rest) = .ok o ∧ o.toks = ⟨1, 1, .str (denoteAll items)⟩ :: more :=
  tokens_spell _ rest _ (Spell.str items _ hok) hur

/-! non-vacuity: a literal in the middle of a statement, followed by a comment with a multi-byte character -/
example : Follow (bytesOf ", R0; // é").head? := by intro b hb; cases hb; decide
example : tokens (bytesOf "0x00fF, R0;") =
    .ok ⟨[⟨1, 1, .num 255⟩, ⟨1, 7, .sep⟩, ⟨1, 9, .ident (bytesOf "R0")⟩, ⟨1, 11, .term⟩], none, 1, 12⟩ := by decide
example : tokens (bytesOf "9223372036854775808;") = .ok ⟨[], some ⟨1, 1, .badNumber⟩, 1, 1⟩ := by decide
example : charEsc 110 = some 10 ∧ charEsc 48 = none := by decide

end Trion.Lex
