import TrionModel.Props.C08Bytes
import TrionModel.Lemmas.SimpStableAll
/-!
# C08 (statement level, FULL) — the order of definition changes neither the outcome nor the bytes, for every operand tree

Models: `Trion.Simp` (`simplify_raw / neutralize_raw / neutralize / evaluate`, with the repairs of K4 and K5: the negation of
a difference is never kept — `-(l - r)` and `0 - (l - r)` become `r - l`, and the swapped node is brought into neutral form),
`Trion.Front.assemble / build`, `Trion.Asm.frontEval / evalIn / DataExpr.apply`.

* `evaluate_idempotent`: a complete result of `evaluate` is a fixed point of `evaluate` (over any table).  This is the
  normal-form theorem of Lemmas/SimpNF.lean: every result is hereditarily a local fixed point of `simplify_raw`, through
  the direct fold, the modulo collapse, `neutralize_raw` and the merge (`setC`/`dropC` followed by the deep `neutralize`).
  It was FALSE before the repairs (K4: `-(−1 − r0) ↦ r0 − (−1)`; K5: `0 − (−r0 − r1) ↦ −(−r0 − r1)`), and these were
  exactly the statements on which defined-below and defined-above differed.
* `retry_is_fresh`: hence the tree an interrupted `evaluate` leaves behind evaluates over a larger table exactly like the
  original operand — the tree-level retry theorem, for EVERY tree (no `plain`, no `LeftStable`).
* `stmt_bytes_order_independent_full`: the statement-level theorem of Props/C08Asm.lean without `plain`: the re-run of a
  deferred instruction statement IS the fresh run (outcome, instruction, argument list, `args_done`).
* `stmt_outcome_order_independent`: the byte/diagnosed-or-not form: the re-run completes with instruction `i` iff the fresh
  assembly completes with `i`.
* `du_value_order_independent_tree`: the operand of `.du8/.du16/.du32`, tree form, without `plain`.

Only `Table.NoDef t₁` remains (no `.global/.import`-deferred entry in the table of the first attempt; with a `Deferred`
name the first attempt does not stop but simplifies AROUND the name, a different mechanism — see props/C08.json).
-/
namespace Trion.Asm
open Trion

/-- C08  `evaluate` is idempotent: a complete result (no `Deferred` cause) is left unchanged by `evaluate` over any table -/
theorem evaluate_idempotent (lk lk' : Bytes → Simp.Lookup) (isReg : Bytes → Bool) (a : Arg) (ev : Simp.Ev) (a' : Arg)
    (h : Simp.evaluateE lk isReg a = .ok ev a') (hc : ev.cause = none) :
    Simp.evaluateE lk' isReg a' = .ok ⟨false, none⟩ a' := Simp.evaluateE_idempotent h hc lk'

/-- C08  The tree-level retry theorem for every operand tree: first `evaluate` over `t₁` stopped at an unknown name and left
`a₁`; over every `t₂ ⊇ t₁`, `evaluate a₁` is `evaluate a` — outcome, tree, everything the callers read. -/
theorem retry_is_fresh {t₁ t₂ : Table} (hs : Table.Sub t₁ t₂) (hn : Table.NoDef t₁) (a : Arg) (n : Bytes) (a₁ : Arg)
    (h : evalIn t₁ a = .ok (.noSuch n a₁)) : evalIn t₂ a₁ = evalIn t₂ a := data_retry_all hs hn h

/-- C08 (data, tree form, FULL) -/
theorem du_value_order_independent_tree {t₁ t₂ : Table} (hs : Table.Sub t₁ t₂) (hn : Table.NoDef t₁) (a : Arg)
    (n : Bytes) (a₁ : Arg) (h : evalIn t₁ a = .ok (.noSuch n a₁)) : evalIn t₂ a₁ = evalIn t₂ a := data_retry_all hs hn h

/-- C08 (statement level, FULL)  An instruction statement whose constants are defined BELOW it (first `assemble` over `t₁`
deferred, re-run from the queued state over the final table `t₂`) and the same statement with the constants defined ABOVE
it (one `assemble` over `t₂`): the re-run IS the fresh run — for every mnemonic and EVERY operand trees. -/
theorem stmt_bytes_order_independent_full {t₁ t₂ : Table} (hs : Table.Sub t₁ t₂) (hn : Table.NoDef t₁) (addr : Nat)
    (name : Bytes) (args : List Arg) (c : Bytes) (fs1 : Front.St)
    (h1 : Front.build addr name args (frontEval t₁) true = .deferred c fs1) :
    (∀ loc, ∃ t, Front.mnemonic name = some t ∧
      Front.assemble fs1 (frontEval t₂) loc = Front.assemble ⟨addr, t, 0, args⟩ (frontEval t₂) loc) ∧
    (∀ fs2, Front.assemble fs1 (frontEval t₂) false = (fs2, .completed) →
      Front.build addr name args (frontEval t₂) true = .completed fs2.instr) := by
  have hst : ∀ a ∈ args, LeftStableArg t₁ t₂ a := fun a _ => leftStableArg_all t₂ hn a
  refine ⟨fun loc => stmt_bytes_order_independent_stable hs hn addr name args hst c fs1 h1 loc, fun fs2 h2 => ?_⟩
  obtain ⟨t, hm, hr⟩ := stmt_bytes_order_independent_stable hs hn addr name args hst c fs1 h1 true
  have h3 := assemble_completed_loc true h2
  rw [hr] at h3
  simp only [Front.build, hm, h3]

/-- C08 (statement level, outcome and bytes, FULL)  The re-run of the deferred statement over `t₂` completes with the
instruction `i` iff the fresh assembly over `t₂` completes with `i` — success vs. diagnostic, and on success the same
instruction (same address, hence the same bytes; `placeholder_length` gives the length).  No condition on the operands. -/
theorem stmt_outcome_order_independent {t₁ t₂ : Table} (hs : Table.Sub t₁ t₂) (hn : Table.NoDef t₁) (addr : Nat)
    (name : Bytes) (args : List Arg) (c : Bytes) (fs1 : Front.St)
    (h1 : Front.build addr name args (frontEval t₁) true = .deferred c fs1) (i : Instr) :
    (∃ fs2, Front.assemble fs1 (frontEval t₂) false = (fs2, .completed) ∧ fs2.instr = i) ↔
      Front.build addr name args (frontEval t₂) true = .completed i :=
  stmt_outcome_order_independent_partial hs hn addr name args c fs1 h1
    (fun _ _ p _ _ => leftStableArg_all t₂ hn p.2) i

/-! ### non-vacuity: the statements of K4 and K5, and a tower of operators -/

/-- `LDR r2, [(0 - ((0 - r0) - r1)) * x]` (K5): deferred over the empty table; over `x = 1` the re-run and the fresh
assembly both complete with `LDR r2, [r1, r0]` -/
example :
    ∃ fs1, Front.build 0 [76, 68, 82] [.ident [114, 50], exOrder5] (frontEval []) true = .deferred [120] fs1 ∧
      (∃ fs2, Front.assemble fs1 (frontEval [([120], some 1)]) false = (fs2, .completed) ∧ fs2.instr = .ldr 2 1 (.reg 0)) ∧
      Front.build 0 [76, 68, 82] [.ident [114, 50], exOrder5] (frontEval [([120], some 1)]) true =
        .completed (.ldr 2 1 (.reg 0)) ∧
      Table.Sub [] [([120], some 1)] ∧ Table.NoDef [] :=
  ⟨_, rfl, ⟨_, rfl, rfl⟩, rfl, fun _ _ h => by simp [Table.find] at h, fun _ h => by simp [Table.find] at h⟩

/-- idempotence on a result that needed a merge through a `Negate`: `-(r1 + 5) + 7` evaluates to `2 - r1`, a fixed point -/
example :
    Simp.evaluateE (fun _ => .notFound) Front.isRegister
      (.bin .add (.neg (.bin .add (.ident [114, 49]) (.const 5))) (.const 7)) =
      .ok ⟨true, none⟩ (.bin .sub (.const 2) (.ident [114, 49])) ∧
    Simp.evaluateE (fun _ => .notFound) Front.isRegister (.bin .sub (.const 2) (.ident [114, 49])) =
      .ok ⟨false, none⟩ (.bin .sub (.const 2) (.ident [114, 49])) := ⟨rfl, rfl⟩

end Trion.Asm
