import TrionModel.Lemmas.AsmBlame2
import TrionModel.Props.C12Asm
/-!
# C12 — provenance: every diagnostic of a finished run is blamed on a statement that can push it

`diag_pos_run` (Props/C12Asm.lean) says every diagnostic sits at the position of SOME statement of the file it names.
Here the statement is tied to the diagnostic by what it is: `run_blames` says every diagnostic `d` of a finished run —
whatever the include tree — names a file of the project, and, with `els`, `err` what the text of THAT file parses into,

* either there is a statement `el ∈ els` with `d.line = el.line`, `d.col = el.col` and `Pushes el d.kind`: the kind of
  `d` is one that processing a statement of `el`'s class (label / directive / instruction) pushes — at statement time,
  or later as the statement's queued task (`.du*` data, instruction retry, `.global` closure) run by the file's own
  loop, the includer's loop or `finalize`;
* or `d` is the report of the error `err = some e` that ended the parse of the file: `d.kind = .parse e.kind` exactly, at
  `(e.line, e.col)`.

The proof is the invariant `PsrcK` of Lemmas/AsmBlame2.lean, threaded through every statement, every include depth,
both task loops and `finalize`; the per-step facts are `statement_effK` / `runTask_effK` (Lemmas/AsmBlame1.lean): what a
statement (a task) adds is at its own position AND of a kind of its class; a queued task remembers the class of the
statement that queued it (`Task.cls`).  A diagnostic inside an included file names that file (`fs d.file`, `el ∈ els` of
that file's text); the `.include` statement's own reports (`includeNoSuchFile`, `includeFailed`, argument errors) are
blamed on a DIRECTIVE statement of the includer (`blame_dir`).

Inversions (`blame_parse`, `blame_instr`, `blame_dir`, `blame_label`): the kind alone determines the class of the blamed
statement — e.g. an `instrNotFound` / `instrAssemble` … diagnostic is always at an instruction statement, a `parse`
diagnostic is never at a statement.
-/
namespace Trion.Asm
open Trion

/-- the diagnostic kinds that processing the statement `el` (or its queued task) pushes: by the statement's class —
label: `inactive`, `label _`; directive NAMED `n`: `dirNotFound n`, and `dirTooMany s`, `dirNotEnough s`, `dirArgType s`,
`dirApply s _` with `bytesOf s = n` (the directive name carried by the kind IS the statement's name);
instruction: `inactive`, `instrNotFound`, `instrTooMany`, `instrNotEnough`, `instrArgType`, `instrAssemble` -/
def Pushes (el : Element) (k : Kind) : Prop := pushesC (Cls.of el.val) k = true

instance (el : Element) (k : Kind) : Decidable (Pushes el k) := by unfold Pushes; infer_instance

/-- `d` is blamed, in the text `els`/`err` of its file, on a statement that pushes its kind, or is the parse error -/
def Blamed (els : List Element) (err : Option ParseErr) (d : Diag) : Prop :=
  (∃ el ∈ els, d.line = el.line ∧ d.col = el.col ∧ Pushes el d.kind) ∨
  ∃ e, err = some e ∧ d.line = e.line ∧ d.col = e.col ∧ d.kind = .parse e.kind

/-- C12.run_blames  Every diagnostic of a finished run (any include tree) names a file of the project and is blamed on
a statement of that file that can push its kind, or is exactly the report of the parse error that ended that file. -/
theorem run_blames (fs : Bytes → Option Bytes) (main : Bytes) (o : Outcome) (h : run fs main = .done o) :
    ∀ d ∈ o.diags, ∃ text lo els err, fs d.file = some text ∧ Lex.tokens text = .ok lo ∧ Parse.all lo = .done els err ∧
      Blamed els err d := by
  have hinit : PsrcK fs none none St.init :=
    ⟨(fun _ hd => by simp [St.init] at hd), (fun _ ht => by simp [St.init] at ht), (fun _ hq => by simp [St.init] at hq)⟩
  unfold run runWith at h
  split at h
  · cases h
  · rename_i data hdata
    split at h
    · rename_i st res ha
      have w : PsrcK fs none none st := assembleFile_blame_main rfl rfl hdata hinit ha
      split at h
      · cases h
        intro d hd
        exact w.errs d (by simpa using hd)
      · cases h
      · split at h
        · rename_i st' fin hf
          cases h
          have key : ∀ (s : St) st' fin, finalize encoder Env.init s = .ok (st', fin) → s.errors = st.errors →
              s.globalTasks = st.globalTasks → s.localTasks = st.localTasks → PsrcK fs none none st' :=
            fun s st' fin hf he hg hl => finalize_blame (fs := fs) ⟨he ▸ w.errs, hg ▸ w.gt, hl ▸ w.lt⟩ hf
          have w2 := key _ _ _ hf rfl rfl rfl
          intro d hd
          exact w2.errs d (by simpa using hd)
        all_goals cases h
    all_goals cases h

/-- C12.run_blames_single  single-file projects: every diagnostic names `main` and is blamed on a statement of `main` -/
theorem run_blames_single (fs : Bytes → Option Bytes) (main : Bytes) (hsingle : ∀ f, f ≠ main → fs f = none)
    (o : Outcome) (h : run fs main = .done o) :
    ∀ d ∈ o.diags, d.file = main ∧ ∃ text lo els err, fs main = some text ∧ Lex.tokens text = .ok lo ∧
      Parse.all lo = .done els err ∧ Blamed els err d := by
  intro d hd
  obtain ⟨text, lo, els, err, h1, h2, h3, h4⟩ := run_blames fs main o h d hd
  have hf : d.file = main := by
    by_cases e : d.file = main
    · exact e
    · rw [hsingle _ e] at h1; cases h1
  rw [hf] at h1
  exact ⟨hf, text, lo, els, err, h1, h2, h3, h4⟩

/-- `run_blames` implies `diag_pos_run` -/
theorem Blamed.pos {els : List Element} {err : Option ParseErr} {d : Diag} (h : Blamed els err d) :
    (∃ el ∈ els, d.line = el.line ∧ d.col = el.col) ∨
    ∃ e, err = some e ∧ d.line = e.line ∧ d.col = e.col ∧ ∃ k, d.kind = .parse k := by
  rcases h with ⟨el, hel, h1, h2, _⟩ | ⟨e, he, h1, h2, h3⟩
  · exact .inl ⟨el, hel, h1, h2⟩
  · exact .inr ⟨e, he, h1, h2, _, h3⟩

/-- C12.blame_parse  a `parse` diagnostic is never blamed on a statement: it is the error that ended its file -/
theorem blame_parse {els : List Element} {err : Option ParseErr} {d : Diag} (h : Blamed els err d) {k : ParseErrKind}
    (hk : d.kind = .parse k) : ∃ e, err = some e ∧ d.line = e.line ∧ d.col = e.col ∧ e.kind = k := by
  rcases h with ⟨el, _, _, _, hp⟩ | ⟨e, he, h1, h2, h3⟩
  · rw [Pushes, hk] at hp; cases hv : Cls.of el.val <;> rw [hv] at hp <;> cases hp
  · rw [hk] at h3; cases h3; exact ⟨e, he, h1, h2, rfl⟩

/-- the kinds only an instruction statement pushes -/
def Kind.isInstr : Kind → Bool
  | .instrNotFound _ | .instrTooMany .. | .instrNotEnough .. | .instrArgType .. | .instrAssemble _ => true
  | _ => false

/-- the kinds only a directive statement pushes -/
def Kind.isDir : Kind → Bool
  | .dirNotFound _ | .dirTooMany .. | .dirNotEnough .. | .dirArgType .. | .dirApply .. => true
  | _ => false

/-- C12.blame_instr  an instruction diagnostic (unknown mnemonic, arity, operand type, `instrAssemble`) is blamed on an
instruction statement -/
theorem blame_instr {els : List Element} {err : Option ParseErr} {d : Diag} (h : Blamed els err d)
    (hk : d.kind.isInstr = true) :
    ∃ el ∈ els, d.line = el.line ∧ d.col = el.col ∧ ∃ name args, el.val = .instruction name args := by
  rcases h with ⟨el, hel, h1, h2, hp⟩ | ⟨e, _, _, _, h3⟩
  · refine ⟨el, hel, h1, h2, ?_⟩
    unfold Pushes at hp
    cases hv : el.val with
    | instruction n a => exact ⟨n, a, rfl⟩
    | label n => rw [hv] at hp; revert hk hp; cases d.kind <;> simp [Kind.isInstr, pushesC, Cls.of]
    | directive n a => rw [hv] at hp; revert hk hp; cases d.kind <;> simp [Kind.isInstr, pushesC, Cls.of]
  · rw [h3] at hk; cases hk

/-- C12.blame_dir  a directive diagnostic — in particular the reports of `.include` itself: `includeNoSuchFile`,
`includeFailed` — is blamed on a directive statement (of the file it names: the includer) -/
theorem blame_dir {els : List Element} {err : Option ParseErr} {d : Diag} (h : Blamed els err d)
    (hk : d.kind.isDir = true) :
    ∃ el ∈ els, d.line = el.line ∧ d.col = el.col ∧ ∃ name args, el.val = .directive name args := by
  rcases h with ⟨el, hel, h1, h2, hp⟩ | ⟨e, _, _, _, h3⟩
  · refine ⟨el, hel, h1, h2, ?_⟩
    unfold Pushes at hp
    cases hv : el.val with
    | directive n a => exact ⟨n, a, rfl⟩
    | label n => rw [hv] at hp; revert hk hp; cases d.kind <;> simp [Kind.isDir, pushesC, Cls.of]
    | instruction n a => rw [hv] at hp; revert hk hp; cases d.kind <;> simp [Kind.isDir, pushesC, Cls.of]
  · rw [h3] at hk; cases hk

/-- the directive name a directive diagnostic carries -/
def Kind.dirName : Kind → Option Bytes
  | .dirNotFound m => some m
  | .dirTooMany s .. | .dirNotEnough s .. | .dirArgType s .. | .dirApply s _ => some (bytesOf s)
  | _ => none

/-- C12.blame_dir_name  **a directive diagnostic is blamed on the directive statement OF THAT NAME**: `dirApply "du8" …`
on a `.du8` statement (also when pushed by its queued data task), `dirApply "global" …` on a `.global` statement (also when
pushed by its closure, in whichever loop runs it), `dirNotFound n` on the statement `.n …` -/
theorem blame_dir_name {els : List Element} {err : Option ParseErr} {d : Diag} (h : Blamed els err d) {n : Bytes}
    (hk : d.kind.dirName = some n) :
    ∃ el ∈ els, d.line = el.line ∧ d.col = el.col ∧ ∃ args, el.val = .directive n args := by
  rcases h with ⟨el, hel, h1, h2, hp⟩ | ⟨e, _, _, _, h3⟩
  · refine ⟨el, hel, h1, h2, ?_⟩
    unfold Pushes at hp
    cases hv : el.val with
    | directive m a =>
      rw [hv] at hp
      refine ⟨a, ?_⟩
      revert hk hp
      cases d.kind <;> simp [Kind.dirName, pushesC, Cls.of] <;> (intro e1 e2; rw [← e1, e2])
    | label m => rw [hv] at hp; revert hk hp; cases d.kind <;> simp [Kind.dirName, pushesC, Cls.of]
    | instruction m a => rw [hv] at hp; revert hk hp; cases d.kind <;> simp [Kind.dirName, pushesC, Cls.of]
  · rw [h3] at hk; cases hk

/-- C12.blame_include  **the reports of `.include` itself** (`IncludeFailed`, `IncludeNoSuchFile`, its argument errors) are
blamed on a statement NAMED `include` of the file the diagnostic names — the includer -/
theorem blame_include {els : List Element} {err : Option ParseErr} {d : Diag} (h : Blamed els err d) {src : Inner}
    (hk : d.kind = .dirApply "include" src) :
    ∃ el ∈ els, d.line = el.line ∧ d.col = el.col ∧ ∃ args, el.val = .directive (bytesOf "include") args :=
  blame_dir_name h (by rw [hk]; rfl)

/-- C12.blame_label  a `label` diagnostic (duplicate / reserved label …) is blamed on a label statement -/
theorem blame_label {els : List Element} {err : Option ParseErr} {d : Diag} (h : Blamed els err d) {i : Inner}
    (hk : d.kind = .label i) : ∃ el ∈ els, d.line = el.line ∧ d.col = el.col ∧ ∃ name, el.val = .label name := by
  rcases h with ⟨el, hel, h1, h2, hp⟩ | ⟨e, _, _, _, h3⟩
  · refine ⟨el, hel, h1, h2, ?_⟩
    unfold Pushes at hp
    rw [hk] at hp
    cases hv : el.val with
    | label n => exact ⟨n, rfl⟩
    | directive n a => rw [hv] at hp; cases hp
    | instruction n a => rw [hv] at hp; cases hp
  · rw [hk] at h3; cases h3

-- non-vacuity: `Pushes` separates the classes
example : Pushes ⟨3, 5, .instruction (bytesOf "FOO") (Args.ofList [])⟩ (.instrNotFound (bytesOf "FOO")) := by decide
example : ¬ Pushes ⟨3, 5, .label (bytesOf "x")⟩ (.instrNotFound (bytesOf "FOO")) := by decide
example : ¬ Pushes ⟨3, 5, .instruction (bytesOf "FOO") (Args.ofList [])⟩ (.dirApply "include" (.includeFailed [])) := by decide
example : Pushes ⟨1, 1, .directive (bytesOf "include") (Args.ofList [.str []])⟩ (.dirApply "include" (.includeFailed [])) := by
  decide
example : ¬ Pushes ⟨1, 1, .directive (bytesOf "du8") (Args.ofList [.str []])⟩ (.dirApply "include" (.includeFailed [])) := by
  decide

end Trion.Asm
