import TrionModel.Lemmas.LexRun
/-!
# C10 — the tokenizer is total on arbitrary bytes (lexer half)

Model: `Trion.Lex` (`Model/Lex.lean`), which mirrors `Tokenizer::{new, next_token, do_next}`. Every `str`
slice, byte index, `usize` subtraction, `unwrap` and `assert_eq!` of the Rust code is an explicit
`.panic` outcome there, and every loop runs on fuel with an explicit `.fuel` outcome.

`Utf8 d` (`Lemmas/LexBasic.lean`): `d` is a sequence of whole, strictly decoded UTF-8 characters.
The invariant behind everything: the tokenizer's remaining text is always `Utf8`, and every slice
offset is the index of a non-continuation byte or the end of the text.
-/
namespace Trion.Lex

/-- C10.a  `Tokenizer::new` keeps well-formed UTF-8, whatever the input bytes. -/
theorem new_utf8 (bs : Bytes) : Utf8 (State.new bs).data := utf8_new bs

/-- C10.b `lex_progress`  One call of `next()` on a state whose text is well-formed never panics and
never runs out of fuel (the internal loops' fuel, the remaining length, suffices). Either it yields a
token and strictly shortens the text, which stays well-formed and keeps the UTF-8 flag; or it yields an
error or the end, and then the text is empty and the flag is clear. -/
theorem lex_progress (s : State) (hu : Utf8 s.data) :
    match nextToken s with
    | .tok _ s' => s'.data.length < s.data.length ∧ Utf8 s'.data ∧ s'.utfErr = s.utfErr
    | .err _ s' => s'.data = [] ∧ s'.utfErr = false
    | .done s' => s'.data = [] ∧ s'.utfErr = false
    | .panic => False
    | .fuel => False := by
  have h := nextToken_spec s hu
  cases hn : nextToken s with
  | tok t s' =>
    rw [hn] at h
    obtain ⟨pre, mid, hd, hu', hue, _, _, b, hb, _⟩ := h
    refine ⟨?_, hu', hue⟩
    have : 0 < mid.length := by
      cases mid with
      | nil => simp at hb
      | cons x y => simp
    rw [hd]; simp; omega
  | err e s' => rw [hn] at h; exact ⟨h.1, h.2.1⟩
  | done s' => rw [hn] at h; exact ⟨h.1, h.2.1⟩
  | panic => rw [hn] at h; exact h
  | fuel => rw [hn] at h; exact h

/-- C10.c  For EVERY byte string, iterating the tokenizer to exhaustion terminates normally within the
fuel `length + 2`: the result is neither the panic outcome nor the fuel-exhausted outcome. -/
theorem lex_total (bs : Bytes) : ∃ o, tokens bs = .ok o := by
  obtain ⟨o, h, _⟩ := run_spec (State.new bs).data (bs.length + 2) (State.new bs) [] (utf8_new bs)
    (by simp) (by simp [State.pos, State.new, Pos.of, Pos.countLF, Pos.scalars, Pos.lastLine])
    (by simp [State.new]; omega)
  exact ⟨o, h⟩

/-- C10.d `lex_no_panic`  The tokenizer never panics, for every byte list. -/
theorem lex_no_panic (bs : Bytes) : tokens bs ≠ .panic := by
  obtain ⟨o, h⟩ := lex_total bs
  rw [h]; simp

/-- C10.e  The fuel of `tokens` is never exhausted (so `tokens` is the complete iteration). -/
theorem lex_fuel_sufficient (bs : Bytes) : tokens bs ≠ .fuel := by
  obtain ⟨o, h⟩ := lex_total bs
  rw [h]; simp

/-- C10.f `lex_shape`  What `LexOut` means in terms of `Iterator::next`: if `tokens bs = ok o`, then for
every `k` the first `|o.toks| + 1 + k` calls of `next()` return exactly: `Some(Ok(t))` for each token of
`o.toks` in order, then `Some(Err(e))` if `o.err = some e` and `None` otherwise, then `None` `k` more
times — and none of these calls panics. So at most the last item is an error and nothing follows an
error or the end. (`calls` is defined in `Lemmas/LexRun.lean`: it iterates `nextToken`.) -/
theorem lex_shape (bs : Bytes) (o : LexOut) (h : tokens bs = .ok o) (k : Nat) :
    calls (o.toks.length + 1 + k) (State.new bs) =
      some (o.toks.map (fun t => some (.ok t)) ++ [o.err.map .error] ++ List.replicate k none) :=
  calls_run _ _ (utf8_new bs) o h k

/-- C10.g  Ill-formed UTF-8 is never accepted silently: a stream without error means the whole input
was well-formed UTF-8. -/
theorem lex_reports_bad_utf8 (bs : Bytes) (o : LexOut) (h : tokens bs = .ok o) (hn : o.err = none) :
    validUpTo bs = bs.length := by
  obtain ⟨o', h', _, hend, _⟩ := run_spec (State.new bs).data (bs.length + 2) (State.new bs) [] (utf8_new bs)
    (by simp) (by simp [State.pos, State.new, Pos.of, Pos.countLF, Pos.scalars, Pos.lastLine])
    (by simp [State.new]; omega)
  have : o' = o := by
    have := h'.symm.trans h
    simpa using this
  subst this
  have := (hend hn).2
  simpa [State.new] using this

/-- C10.h  Once the text is used up and the UTF-8 flag is clear, `next()` yields `None` and leaves
the state unchanged. -/
theorem next_after_end (l c : Nat) : nextToken ⟨[], false, l, c⟩ = .done ⟨[], false, l, c⟩ :=
  nextToken_ended l c

-- non-vacuity: the theorems are about a tokenizer that does produce tokens, errors and the
-- `BadUnicode` tail, and the panic outcome is a real outcome of the slicing primitives
example : tokens (bytesOf "mov r0, 1") =
    .ok ⟨[⟨1, 1, .ident (bytesOf "mov")⟩, ⟨1, 5, .ident (bytesOf "r0")⟩, ⟨1, 7, .sep⟩, ⟨1, 9, .num 1⟩], none, 1, 10⟩ := by
  decide
example : tokens [0x61, 0xFF] = .ok ⟨[], some ⟨1, 2, .badUnicode⟩, 1, 2⟩ := by decide
example : tokens ([0x2F, 0x2A, 0x20, 0x78, 0x20, 0x2A, 0x2F, 0x20, 0xC3, 0xA9]) =
    .ok ⟨[], some ⟨1, 9, .unexpected 233⟩, 1, 9⟩ := by decide
example : sliceFrom [0xC3, 0xA9] 1 = none := by decide
example : Utf8 (bytesOf "a") := Utf8.cons _ 97 1 (by decide) Utf8.nil

end Trion.Lex
