import TrionModel.Lemmas.LexPos
/-!
# C10 — the tokenizer is total on arbitrary bytes (lexer half)
-/
namespace Trion.Lex

/-- C10.a  `Tokenizer::new` keeps a well-formed UTF-8 text, whatever the input bytes. -/
theorem new_utf8 (bs : Bytes) : Utf8 (State.new bs).data := utf8_new bs

/-- C10.b  Once the text is used up and the UTF-8 flag is clear (the state after `clear()`, after the
final `BadUnicode`, and after `None`), `next()` yields `None` and leaves the state unchanged. -/
theorem next_after_end (l c : Nat) : nextToken ⟨[], false, l, c⟩ = .done ⟨[], false, l, c⟩ := by
  simp [nextToken, skipLoop]

end Trion.Lex
