import TrionModel.Model.Layout
/-!
# C05 — first, definitional facts about the layout model and the reference layout

The main theorems (`run_no_panic`, `layout_refines`, …) live in `Props/C05.lean`.
-/
namespace Trion.Layout

/-- A value-dependent statement whose symbols are all known is written at once with its final bytes —
exactly like value-independent bytes (no placeholder, no task). -/
theorem known_emit_is_raw (st : State) (s : Active) (len : Nat) (deps : List Nat) (final : Bytes)
    (ha : st.active = some s) (hk : st.env.hasAll deps = true) :
    step st (.emit len deps final) = step st (.raw final) := by
  simp [step, ha, hk]

/-- A statement that meets an unknown symbol reserves exactly `len` placeholder bytes (0xBE) at the
cursor and queues one task for that address; nothing else changes. -/
theorem unknown_emit_reserves (st st' : State) (s : Active) (len : Nat) (deps : List Nat) (final : Bytes)
    (ha : st.active = some s) (hk : st.env.hasAll deps = false)
    (h : step st (.emit len deps final) = .ok st') :
    ∃ st1, append st (placeholder len) = .ok st1 ∧
      st' = { st1 with tasks := st1.tasks ++ [{ addr := s.curr, len := len, deps := deps, final := final }] } := by
  simp only [step, ha, hk] at h
  cases h1 : append st (placeholder len) with
  | error e => simp [h1] at h
  | ok st1 =>
    simp [h1] at h
    exact ⟨st1, rfl, h.symm⟩

/-- The reference image does not depend on `.const` statements at all (only on where bytes are emitted). -/
theorem ref_pass2_ignores_const (c : Option Nat) (img : Img) (n : Nat) (d : List Nat) (v : Int) (r : List Stmt) :
    Ref.pass2 c img (.const n d v :: r) = Ref.pass2 c img r := rfl

/-- In the reference, a label denotes the address of the byte that follows it: `pass1` records the
cursor at which `pass2` places the next emitted byte. -/
theorem ref_label_is_cursor (c : Nat) (env : Env) (n : Nat) (r : List Stmt) (hc : c < top) (hn : env.get n = none) :
    Ref.pass1 (some c) env (.label n :: r) = Ref.pass1 (some c) ((n, (c : Int)) :: env) r := by
  simp [Ref.pass1, hn, hc]

/-- executable check used by the non-vacuity example -/
def demoOk : Bool :=
  match run [.addr 256, .emit 2 [1] [4, 1], .label 1, .raw [0xAA]] with
  | .ok img => img.get 256 == some 4 && img.get 257 == some 1 && img.get 258 == some 0xAA && img.get 259 == none
  | .error _ => false

example : demoOk = true := by decide

end Trion.Layout
