import TrionModel.Lemmas.C04Layout
import TrionModel.Props.C04Fit
/-!
# C04 closed on text — the statement is ANY layout: arbitrary separators (white space, `//` and `/* */` comments) and any
token spellings the tokenizer knows

`Props/C04Any.lean` took the statement as a list of pieces (white space + punctuation / identifiers / numbers).  With the
lexer's exact layout theorem (C12 `Lex.tokens_layout`, `Lex.lok_append`) the statement is now a LAYOUT `x :: r` with trailing
text `trail` (`Lex.LOk`): every separator may contain line and block comments, every token spelling is what `Lex.Spell`
admits.  Hypothesis on the statement: its token VALUES are `name <operands> ;` with the operands any parenthesisation of
trees (`as : PArgs`).  The program text is `.addr A;⏎`, the `.const` lines (canonical spelling), then the statement's text.

Remaining gap to "whatever `Parse` reads as one instruction statement": the converse of C09 (a parsed statement's token
values are such a rendering) is not proved, and the `.const` lines stay in canonical spelling.
-/
namespace Trion.C04
open Trion Trion.Front

/-- `.addr <A>;⏎.const …;⏎` followed by the text of the statement's layout -/
def progTextL (A : Nat) (defs : List (Bytes × Arg)) (x : Lex.LTok) (r : List Lex.LTok) (trail : Bytes) : Bytes :=
  ((preStmts A defs).map fun p => bytesOf "." ++ Show.render p ++ [10]).flatten ++ Lex.ltext (x :: r) trail

/-- C04l.a  the tokenizer and parser read the program text as the program, for any layout of the statement -/
theorem parseFile_layout (A : Nat) (hA : A < 4294967296) (defs : List (Bytes × Arg))
    (hdefs : ∀ d ∈ defs, Lex.identOk d.1 = true ∧ Show.Opnd d.2) (x : Lex.LTok) (r : List Lex.LTok) (trail : Bytes)
    (hL : Lex.LOk (x :: r) trail) (name : Bytes) (as : PArgs) (haswf : as.wf)
    (hvals : (x :: r).map (·.tok) = .ident name :: Render.pargs as ++ [.term]) :
    ∃ els, Asm.parseFile (progTextL A defs x r trail) = .ok (els, none) ∧
      els.map (·.val) = progVals A defs name as.erase := by
  have hpre : ∀ p ∈ preStmts A defs, Lex.identOk p.1 = true ∧ ∀ x ∈ p.2, Show.Opnd x := by
    intro p hp
    simp only [preStmts, List.mem_cons, List.mem_map] at hp
    rcases hp with rfl | ⟨d, hd, rfl⟩
    · refine ⟨by dsimp only; decide, ?_⟩
      intro x hx; simp at hx; subst hx
      exact Show.opnd_const _ ⟨by omega, by simp [i64Max]; omega⟩
    · refine ⟨by dsimp only; decide, ?_⟩
      intro x hx; simp at hx
      rcases hx with rfl | rfl
      · exact Show.opnd_ident _ (hdefs d hd).1
      · exact (hdefs d hd).2
  let P : List Lex.Piece := ((preStmts A defs).map fun p => Show.dirPieces p ++ [Show.nl]).flatten
  let evs : List ElemVal := (preStmts A defs).map (fun p => ElemVal.directive p.1 (Args.ofList p.2))
  have hvalid : Lex.Valid P (x.sep ++ x.spell ++ Lex.ltext r trail).head? := by
    have := Show.valid_flat _ hpre [] (x.sep ++ x.spell ++ Lex.ltext r trail).head? trivial
    simpa [P] using this
  have hb : Lex.pbytes P = ((preStmts A defs).map fun p => bytesOf "." ++ Show.render p ++ [10]).flatten :=
    Show.pbytes_flat _ (fun p hp => (hpre p hp).2)
  obtain ⟨ts, hlex, hts⟩ := Lex.tokens_pieces_layout P x r trail hvalid hL
  rw [hb] at hlex
  have hlex' : Lex.tokens (progTextL A defs x r trail) =
      .ok ⟨ts, none, (Pos.of (progTextL A defs x r trail)).1, (Pos.of (progTextL A defs x r trail)).2⟩ := hlex
  have hvs : ts.map (·.val) = (evs.map Render.elemVal).flatten ++ (.ident name :: Render.pargs as ++ [.term]) := by
    rw [hts, hvals, Show.tokVals_flat _ (fun p hp => (hpre p hp).2)]
  have hwf : ∀ ev ∈ evs, ev.wf := by
    intro ev hev
    simp only [evs, List.mem_map] at hev
    obtain ⟨p, hp, rfl⟩ := hev
    exact Show.dir_wf p (hpre p hp).1 (hpre p hp).2
  obtain ⟨els, last, hall, hels, hlast⟩ := Parse.all_of_vals_then evs hwf name as haswf ts hvs
    (Pos.of (progTextL A defs x r trail)).1 (Pos.of (progTextL A defs x r trail)).2
  refine ⟨els ++ [last], by simp only [Asm.parseFile, hlex', hall], ?_⟩
  rw [List.map_append, hels]
  simp [evs, progVals, preStmts, constStmt, List.map_map, Function.comp_def, hlast]

/-- C04l.b  **Trichotomy on text, any layout of the statement** (comments, any spacing, any spellings): assembled to the
(extended) meaning with exactly those bytes; OR encodable but no room below 2^32 (one `Overflow` diagnostic at the statement,
empty image); OR diagnosed at the statement. -/
theorem run_layout3 (fs : Bytes → Option Bytes) (main : Bytes) (A : Nat) (hA : A < 4294967296) (defs : List (Bytes × Arg))
    (hdefsok : ∀ d ∈ defs, Lex.identOk d.1 = true ∧ Show.Opnd d.2) (x : Lex.LTok) (r : List Lex.LTok) (trail : Bytes)
    (hL : Lex.LOk (x :: r) trail) (name : Bytes) (as : PArgs) (haswf : as.wf)
    (hvals : (x :: r).map (·.tok) = .ident name :: Render.pargs as ++ [.term])
    (hfs : fs main = some (progTextL A defs x r trail))
    (tbl : Asm.Table) (hdefs : defsTable defs [] = some tbl)
    (t : Instr) (hm : mnemonic name = some t) (hw : wellFormed2 (tabOf tbl) (sig t) as.erase.toList)
    (hq : ∀ vs, denoteAll2 (tabOf tbl) (sig t) as.erase.toList = some vs → ¬ svQuirk t vs) :
    ∃ els, Asm.parseFile (progTextL A defs x r trail) = .ok (els, none) ∧
    ((∃ i hws, means2 (tabOf tbl) A name as.erase.toList = some i ∧ i.wf ∧ Codec.encode i = .ok hws ∧ Arm.decode hws = some i ∧
      A + 2 * hws.length ≤ 4294967296 ∧
      Asm.run fs main = .done ⟨true, none, true, [], [(A, (Codec.toBytes hws).map (·.toUInt8))]⟩) ∨
    (∃ i hws el o, means2 (tabOf tbl) A name as.erase.toList = some i ∧ i.wf ∧ Codec.encode i = .ok hws ∧
      ¬ (A + 2 * hws.length ≤ 4294967296) ∧ el ∈ els ∧ el.val = .instruction name as.erase ∧
      Asm.run fs main = .done o ∧ o.success = false ∧
      o.diags = [⟨main, el.line, el.col, .instrAssemble (.asmWrite (.overflow (2 * hws.length) (4294967296 - A)))⟩] ∧
      o.image = []) ∨
    (∃ el o, el ∈ els ∧ el.val = .instruction name as.erase ∧ Asm.run fs main = .done o ∧ o.success = false ∧ o.diags ≠ [] ∧
      ∀ d ∈ o.diags, d.file = main ∧ d.line = el.line ∧ d.col = el.col)) := by
  obtain ⟨els, hp, hels⟩ := parseFile_layout A hA defs hdefsok x r trail hL name as haswf hvals
  exact ⟨els, hp, run_defs_stmt3 fs main _ hfs els hp A hA defs name as.erase hels tbl hdefs t hm hw hq⟩

/-- C04l.c  unknown mnemonic, any layout -/
theorem run_layout_unknown (fs : Bytes → Option Bytes) (main : Bytes) (A : Nat) (hA : A < 4294967296) (defs : List (Bytes × Arg))
    (hdefsok : ∀ d ∈ defs, Lex.identOk d.1 = true ∧ Show.Opnd d.2) (x : Lex.LTok) (r : List Lex.LTok) (trail : Bytes)
    (hL : Lex.LOk (x :: r) trail) (name : Bytes) (as : PArgs) (haswf : as.wf)
    (hvals : (x :: r).map (·.tok) = .ident name :: Render.pargs as ++ [.term])
    (hfs : fs main = some (progTextL A defs x r trail))
    (tbl : Asm.Table) (hdefs : defsTable defs [] = some tbl) (hm : mnemonic name = none) :
    ∃ els el o, Asm.parseFile (progTextL A defs x r trail) = .ok (els, none) ∧ el ∈ els ∧
      el.val = .instruction name as.erase ∧ Asm.run fs main = .done o ∧ o.success = false ∧ o.diags ≠ [] ∧
      ∀ d ∈ o.diags, d.file = main ∧ d.line = el.line ∧ d.col = el.col := by
  obtain ⟨els, hp, hels⟩ := parseFile_layout A hA defs hdefsok x r trail hL name as haswf hvals
  obtain ⟨el, o, h⟩ := run_defs_stmt_unknown fs main _ hfs els hp A hA defs name as.erase hels tbl hdefs hm
  exact ⟨els, el, o, hp, h⟩

end Trion.C04
