import TrionModel.Lemmas.C06Mem
import TrionModel.Lemmas.C06Inc
import TrionModel.Lemmas.C06Undef
import TrionModel.Props.C06Invalid
/-!
# C06, third clause — the diagnosed statement may be FOLLOWED BY ANYTHING and PRECEDED by any statements that returned `Ok`

`Props/C06Invalid.lean` restricted the placeholder-and-retry classes (instruction statements, `.du8/.du16/.du32`) to the
last statement of the file, and all classes to a quiet prefix.  With `Lemmas/AsmKeeps.lean` (a recorded diagnostic is never
removed — statements, `.include`, tasks, both task loops, `finalize`) both restrictions go:

`AtAny fs main el S`: the main file parses to `pre ++ el :: post`, `pre` ran without an error result to `S` (which may hold
queued tasks and diagnostics of Trivial level … anything).  `ReportedIn fs main el`: every finished run is NOT a success and
has a diagnostic in file `main` at the line and column of `el` (later statements may add their own).
By C06 `run_cases` a run is finished unless the include depth is exceeded (`.fuel`, K2).
-/
namespace Trion.C06
open Trion Trion.Asm Trion.Front Trion.C04

def AtAny (fs : Bytes → Option Bytes) (main : Bytes) (el : Element) (S : Asm.St) : Prop :=
  ∃ data els perr pre post, fs main = some data ∧ Asm.parseFile data = .ok (els, perr) ∧ els = pre ++ el :: post ∧
    PrefixOk fs main pre S

def ReportedIn (fs : Bytes → Option Bytes) (main : Bytes) (el : Element) : Prop :=
  ∀ o, Asm.run fs main = .done o →
    o.success = false ∧ ∃ d ∈ o.diags, d.file = main ∧ d.line = el.line ∧ d.col = el.col

theorem At.any {fs : Bytes → Option Bytes} {main : Bytes} {el : Element} {S : Asm.St} (h : At fs main el S) : AtAny fs main el S := by
  obtain ⟨data, els, perr, pre, post, h1, h2, h3, h4, _⟩ := h
  exact ⟨data, els, perr, pre, post, h1, h2, h3, h4⟩

/-- C06t.0  the generic statement -/
theorem reportedIn_of {fs : Bytes → Option Bytes} {main : Bytes} {el : Element} {S : Asm.St} (h : AtAny fs main el S)
    (hK : ∀ S1 r1, Asm.statement fs Asm.encoder (incOf fs) (envOf main) S el = .ok (S1, r1) →
      ∃ d ∈ S1.errors, d.file = main ∧ d.line = el.line ∧ d.col = el.col) : ReportedIn fs main el := by
  obtain ⟨data, els, perr, pre, post, hfs, hp, hels, hpre⟩ := h
  exact run_stmt_reported fs main data hfs els perr hp pre post el hels S hpre hK

/-- C06t.1  every class of `Props/C06Invalid.lean` whose statement just records one diagnostic: the prefix need not be
quiet -/
theorem reportedIn_of_push {fs : Bytes → Option Bytes} {main : Bytes} {el : Element} {S : Asm.St} (h : AtAny fs main el S)
    {k : Asm.Kind} {r : Asm.Res}
    (hel : Asm.statement fs Asm.encoder (incOf fs) (envOf main) S el = .ok (S.push (envOf main) el.line el.col k, r)) :
    ReportedIn fs main el :=
  reportedIn_of h (fun S1 r1 hX => by
    rw [hel] at hX
    cases hX
    exact ⟨_, List.mem_cons_self, rfl, rfl, rfl⟩)

section
variable {fs : Bytes → Option Bytes} {main : Bytes} {S : Asm.St} {l c : Nat}

/-- C06t.2  an instruction statement (known mnemonic) that the front end does not complete to an encodable instruction —
anywhere in the main file -/
theorem invalid_instruction_of {tbl : Asm.Table} (hl : S.locals = some tbl) (hnd : Asm.Table.NoDef tbl) (hi64 : tblI64 tbl)
    {map : Map.Segs} {seg : Seg.Active} {pending : List (Nat × Nat)} (hs : S.seg = ⟨map, some seg, pending⟩)
    {name : Bytes} {args : Args} {t : Instr} (hm : mnemonic name = some t)
    (htot : (∃ i, build seg.cur name args.toList (Asm.frontEval tbl) true = .completed i) ∨
      (∃ d st, build seg.cur name args.toList (Asm.frontEval tbl) true = .error d st))
    (henc0 : ∀ i hws, build seg.cur name args.toList (Asm.frontEval tbl) true = .completed i → Codec.encode i ≠ .ok hws)
    (h : AtAny fs main ⟨l, c, .instruction name args⟩ S) : ReportedIn fs main ⟨l, c, .instruction name args⟩ := by
  refine reportedIn_of h ?_
  intro S1 r1 hX
  have hst : Asm.statement fs Asm.encoder (incOf fs) (envOf main) S ⟨l, c, .instruction name args⟩ =
      Asm.instruction Asm.encoder (envOf main) S l c name args.toList := by simp [Asm.statement, hs]
  rw [hst] at hX
  exact instr_diag_mem (envOf main) S tbl hnd hi64 (by simp) hl map seg pending hs l c name args.toList t hm htot henc0 S1 r1 hX

/-- C06t.3  **wrong operand count, instructions** — anywhere, followed by anything -/
theorem invalid_instruction_count {tbl : Asm.Table} (hl : S.locals = some tbl) (hnd : Asm.Table.NoDef tbl) (hi64 : tblI64 tbl)
    {map : Map.Segs} {seg : Seg.Active} {pending : List (Nat × Nat)} (hs : S.seg = ⟨map, some seg, pending⟩)
    {name : Bytes} {args : Args} {t : Instr} (hm : mnemonic name = some t) (hn : args.toList.length ≠ (kinds t).length)
    (h : AtAny fs main ⟨l, c, .instruction name args⟩ S) : ReportedIn fs main ⟨l, c, .instruction name args⟩ := by
  have hb := arity_rejected_proof seg.cur name args.toList (Asm.frontEval tbl) true t hm hn
  exact invalid_instruction_of hl hnd hi64 hs hm (.inr ⟨_, _, hb⟩) (fun i hws hc => by rw [hb] at hc; cases hc) h

/-- C06t.4  **wrong operand kind / out-of-range or misaligned value / overflow, instructions** — anywhere, followed by anything -/
theorem invalid_instruction {tbl : Asm.Table} (hl : S.locals = some tbl) (hnd : Asm.Table.NoDef tbl) (hi64 : tblI64 tbl)
    {map : Map.Segs} {seg : Seg.Active} {pending : List (Nat × Nat)} (hs : S.seg = ⟨map, some seg, pending⟩)
    {name : Bytes} {args : Args} {t : Instr} (hm : mnemonic name = some t)
    (hw : wellFormed (tabOf tbl) (sig t) args.toList)
    (hq : ∀ vs, denoteAll (tabOf tbl) (sig t) args.toList = some vs → ¬ svQuirk t vs)
    (hno : ∀ i hws, ¬ (means (tabOf tbl) seg.cur name args.toList = some i ∧ i.wf ∧ Codec.encode i = .ok hws))
    (h : AtAny fs main ⟨l, c, .instruction name args⟩ S) : ReportedIn fs main ⟨l, c, .instruction name args⟩ := by
  have hn := Asm.Table.nodef_get hnd
  have hTk := tableOk_of_tblI64 hi64
  have hE := evalSimp_frontEval tbl
  exact invalid_instruction_of hl hnd hi64 hs hm (stmt_total hn hTk hE true seg.cur name args.toList t hm hw)
    (fun i hws hb he => hno i hws ((stmt_iff hn hTk hE true seg.cur name args.toList t hm hw hq i hws).1 ⟨hb, he⟩)) h

/-- C06t.5  **`.du8 / .du16 / .du32` with a value outside the type, or with a string** — anywhere, followed by anything -/
theorem invalid_du {tbl : Asm.Table} (hl : S.locals = some tbl) (hnd : Asm.Table.NoDef tbl) (hact : S.seg.active.isSome = true)
    (du : Asm.DU) (dn : Bytes) (hdn : dn = bytesOf du.name) {b : Arg}
    (hb : (∃ v, value (tabOf tbl) b = some v ∧ ¬ (0 ≤ v ∧ v ≤ du.max)) ∨ (∃ s, b = .str s))
    (h : AtAny fs main ⟨l, c, .directive dn (Args.ofList [b])⟩ S) :
    ReportedIn fs main ⟨l, c, .directive dn (Args.ofList [b])⟩ := by
  refine reportedIn_of h ?_
  intro S1 r1 hX
  have hst : Asm.statement fs Asm.encoder (incOf fs) (envOf main) S ⟨l, c, .directive dn (Args.ofList [b])⟩ =
      Asm.duDirective du (envOf main) S l c [b] := by
    subst hdn
    simp only [Asm.statement, Show.toList_ofList]
    cases du
    · exact C04.directive_du8 ..
    · exact C04.directive_du16 ..
    · exact C04.directive_du32 ..
  rw [hst] at hX
  obtain ⟨a', hev, hbad⟩ : ∃ a', Asm.evalArg (envOf main) S b = .ok (.complete a') ∧ ∀ v, a' = .const v → ¬ (0 ≤ v ∧ v ≤ du.max) := by
    rcases hb with ⟨v, hv, hr⟩ | ⟨s, rfl⟩
    · exact ⟨.const v, evalArg_value (envOf main) S tbl (by simp) hl hnd hv, fun w hw => by cases hw; exact hr⟩
    · exact ⟨.str s, evalArg_str (envOf main) S tbl (by simp) hl s, fun w hw => by cases hw⟩
  exact du_diag_mem du (envOf main) S l c b a' hact hev hbad S1 r1 hX

end

/-! ## an invalid statement inside an INCLUDED file -/

/-- C06t.6  **Invalid statement in an included file.**  The main file contains `.include "p";` (anywhere, after statements
that returned `Ok`); the included file `sibling main p` parses to `pre2 ++ el2 :: post2`, `pre2` runs there without an error
result (from the state the include enters the file with, `enterFile S`), and `el2` is an invalid statement of one of the
classes whose effect is one recorded diagnostic `k` and an error result (every class of `Props/C06Invalid.lean` §(a)–(g)).
Then every finished run is not a success and reports BOTH: `k` in the INCLUDED file at `el2`'s line and column, and
`IncludeFailed` in the main file at the `.include` statement. -/
theorem invalid_in_included {fs : Bytes → Option Bytes} {main : Bytes} {S : Asm.St} {l c : Nat} {p data2 : Bytes}
    (h : AtAny fs main ⟨l, c, .directive (bytesOf "include") (Args.ofList [.str p])⟩ S)
    (hfs2 : fs (Asm.sibling main p) = some data2) {els2 : List Element} {perr2 : Option ParseErr}
    (hp2 : Asm.parseFile data2 = .ok (els2, perr2)) {pre2 post2 : List Element} {el2 : Element}
    (hels2 : els2 = pre2 ++ el2 :: post2) {S2 : Asm.St}
    (hpre2 : ∀ rest perr', Asm.doAssemble fs Asm.encoder (Asm.assembleFile fs Asm.encoder (Asm.maxDepth - 2))
        ⟨[Asm.sibling main p, main], Asm.sibling main p⟩ (pre2 ++ rest) perr' (Asm.enterFile S).2.2 =
      Asm.doAssemble fs Asm.encoder (Asm.assembleFile fs Asm.encoder (Asm.maxDepth - 2))
        ⟨[Asm.sibling main p, main], Asm.sibling main p⟩ rest perr' S2)
    {k : Asm.Kind} {lv : Asm.Level}
    (hel2 : Asm.statement fs Asm.encoder (Asm.assembleFile fs Asm.encoder (Asm.maxDepth - 2))
        ⟨[Asm.sibling main p, main], Asm.sibling main p⟩ S2 el2 =
      .ok (S2.push ⟨[Asm.sibling main p, main], Asm.sibling main p⟩ el2.line el2.col k, .err lv)) :
    ∀ o, Asm.run fs main = .done o → o.success = false ∧
      (⟨Asm.sibling main p, el2.line, el2.col, k⟩ : Asm.Diag) ∈ o.diags ∧
      (⟨main, l, c, .dirApply "include" (.includeFailed (Asm.sibling main p))⟩ : Asm.Diag) ∈ o.diags := by
  intro o ho
  obtain ⟨data, els, perr, pre, post, hfs, hp, hels, hpre⟩ := h
  have hB : ∀ st4 r4, Asm.fileBody fs Asm.encoder (Asm.assembleFile fs Asm.encoder (Asm.maxDepth - 2))
      ⟨[Asm.sibling main p, main], Asm.sibling main p⟩ data2 (Asm.enterFile S).2.2 = .ok (st4, r4) →
      (∃ d ∈ st4.errors, d = (⟨Asm.sibling main p, el2.line, el2.col, k⟩ : Asm.Diag)) ∧ r4.isErr = true := by
    intro st4 r4 hF
    refine ⟨fileBody_stmt fs Asm.encoder _ _ data2 _ els2 perr2 hp2 pre2 post2 el2 hels2 S2 hpre2
        (Asm.assembleFile_keeps fs Asm.encoder _) _ ?_ st4 r4 hF,
      fileBody_stmt_err fs Asm.encoder _ _ data2 _ els2 perr2 hp2 pre2 post2 el2 hels2 S2 hpre2 ?_ st4 r4 hF⟩
    · intro S1 r1 hX; rw [hel2] at hX; cases hX; exact ⟨_, List.mem_cons_self, rfl⟩
    · intro S1 r1 hX; rw [hel2] at hX; cases hX; rfl
  have hst := include_stmt fs main S l c p data2 hfs2 _ hB
  obtain ⟨hs1, d1, hd1, rfl⟩ := run_stmt_reportedP fs main data hfs els perr hp pre post _ hels S hpre
    (fun d => d = (⟨Asm.sibling main p, el2.line, el2.col, k⟩ : Asm.Diag))
    (fun S1 r1 hX => (hst S1 r1 hX).1) o ho
  obtain ⟨_, d2, hd2, rfl⟩ := run_stmt_reportedP fs main data hfs els perr hp pre post _ hels S hpre
    (fun d => d = (⟨main, l, c, .dirApply "include" (.includeFailed (Asm.sibling main p))⟩ : Asm.Diag))
    (fun S1 r1 hX => ⟨_, (hst S1 r1 hX).2, rfl⟩) o ho
  exact ⟨hs1, hd1, hd2⟩

/-! ## an undefined name in an instruction operand (`…_partial`: last statement of the main file, quiet prefix) -/

/-- C06t.7  **Undefined name used by an instruction.**  The instruction statement is the last statement of the main file; its
first attempt (`local = true`) is DEFERRED at the name `n` — `Front.assemble … = (fs1, Deferred n)`: some operand mentions
`n`, which is not defined (with a table without `.import`-deferred entries `Deferred` can only come from `NoSuchVariable`) —
and the operands are `plain` (C08: the retry of the tree left behind is the fresh evaluation).  Then `Asm.run` is not a
success, and every diagnostic is at the statement: the end-of-file retry (`local = false`) reports `NoSuchVariable n`.
Restriction to the last statement is essential for the position claim: a later statement with a Fatal error skips the
task loop, so the undefined name would not be reported at all (the run fails with that other diagnostic). -/
theorem invalid_instruction_undefined_partial {fs : Bytes → Option Bytes} {main : Bytes} {S : Asm.St} {l c : Nat}
    {tbl : Asm.Table} (hl : S.locals = some tbl) (hnd : Asm.Table.NoDef tbl)
    {map : Map.Segs} {seg : Seg.Active} {pending : List (Nat × Nat)} (hs : S.seg = ⟨map, some seg, pending⟩)
    {name : Bytes} {args : Args} {t : Instr} (hm : mnemonic name = some t)
    (hp : ∀ a ∈ args.toList, Asm.plainArg a = true) {fs1 : Front.St} {n : Bytes}
    (hdef : Front.assemble ⟨seg.cur, t, 0, args.toList⟩ (Asm.frontEval tbl) true = (fs1, .deferred n))
    (h : AtLast fs main ⟨l, c, .instruction name args⟩ S) : ReportedAt fs main ⟨l, c, .instruction name args⟩ := by
  obtain ⟨data, pre, hfs, hpf, hpre, hq⟩ := h
  have hst : Asm.statement fs Asm.encoder (incOf fs) (envOf main) S ⟨l, c, .instruction name args⟩ =
      Asm.instruction Asm.encoder (envOf main) S l c name args.toList := by simp [Asm.statement, hs]
  refine run_last_diag fs main data hfs pre _ hpf S hpre (by rw [hst]; exact Asm.instruction_nf _ _ _ _ _ _ _) ?_
  intro S1 r1 hX
  rw [hst] at hX
  refine ⟨pat_of_eff (pat_quiet hq _ _ _) (Asm.instruction_eff (env := envOf main) _ _ hX) (Asm.instruction_quiet _ _ hX), ?_⟩
  have h0 : S.errors.length = 0 := by rw [hq.1]; rfl
  rcases instr_undef_stmt (envOf main) S tbl (by simp) hl hq.2.2 map seg pending hs l c name args.toList t hm fs1 n hdef S1 r1 hX
    with hE | ⟨rfl, hl1, _, i', hlt1, hi'⟩
  · left; omega
  · right
    refine ⟨rfl, ?_⟩
    intro tasks S2 r2 htk hloop
    rw [hlt1] at htk
    cases htk
    have hrounds : Asm.rounds = 7 + 1 := rfl
    rw [hrounds] at hloop
    refine localLoop_first ?_ 7 .ok S2 r2 hloop
    intro st' r hrt
    have := instr_undef_task (envOf main) { S1 with localTasks := some [] } tbl hnd (by simp) hl1 seg.cur t args.toList hp fs1 n hdef
      i' hi' st' r hrt
    omega

end Trion.C06