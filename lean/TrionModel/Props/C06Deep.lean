import TrionModel.Lemmas.C06Deep
import TrionModel.Props.C06Then
/-!
# C06, third clause — an invalid statement at ANY include depth

`invalid_in_included` (Props/C06Then.lean) handled a file included directly by the main file.  Here the nesting is
arbitrary.  `C04.FailsIn fs fuel env data st D` (Lemmas/C06Deep.lean) describes a chain: the file `data` — read in
environment `env` (path stack, current name), entered with state `st` — parses to `pre ++ el :: post`, `pre` returns no
error result, and `el` is

* (`here`) a statement that records the diagnostics `D` and returns an error result — every invalid-construct class of
  Props/C06Invalid.lean §(a)–(g) has this form with `D = [⟨file, el.line, el.col, k⟩]` —, or
* (`inc`) `.include "p";` of an existing file that itself `FailsIn` one level deeper with `D'`; then
  `D = ⟨file, l, c, IncludeFailed path⟩ :: D'`.

`invalid_at_any_depth`: if the main file `FailsIn … D` then every finished run is not a success and ALL of `D` are among
its diagnostics: the invalid statement's own diagnostic, in the innermost file at its line and column, and one
`IncludeFailed` per level, each in the including file at its `.include` statement.  (By `run_cases` a run is finished unless
the include depth exceeds `maxDepth`, K2; the chain is at most `maxDepth - 1` includes deep by construction.)
`invalid_in_included_twice` spells the chain out for depth 2 (main → b → c).
-/
namespace Trion.C06
open Trion Trion.Asm Trion.Front Trion.C04

/-- C06d.1  **Invalid statement at any include depth** -/
theorem invalid_at_any_depth (fs : Bytes → Option Bytes) (main data : Bytes) (hfs : fs main = some data) (D : List Asm.Diag)
    (hD : D ≠ []) (h : FailsIn fs (Asm.maxDepth - 1) ⟨[main], main⟩ data init2 D) :
    ∀ o, Asm.run fs main = .done o → o.success = false ∧ ∀ d ∈ D, d ∈ o.diags :=
  run_failsIn fs main data hfs D hD h

/-- C06d.2  depth 2: `main` includes `b = sibling main p`, `b` includes `c = sibling b q`, and `c` contains (after statements
that return no error result) a statement `el3` whose effect is one diagnostic `k` and an error result.  Every finished run
reports `k` in `c` at `el3`, `IncludeFailed c` in `b` at its `.include`, and `IncludeFailed b` in `main` at its `.include`. -/
theorem invalid_in_included_twice {fs : Bytes → Option Bytes} {main : Bytes} {S : Asm.St} {l c : Nat} {p : Bytes}
    (h : AtAny fs main ⟨l, c, .directive (bytesOf "include") (Args.ofList [.str p])⟩ S)
    {data2 : Bytes} (hfs2 : fs (Asm.sibling main p) = some data2) {els2 : List Element} {perr2 : Option ParseErr}
    (hp2 : Asm.parseFile data2 = .ok (els2, perr2)) {pre2 post2 : List Element} {l2 c2 : Nat} {q : Bytes}
    (hels2 : els2 = pre2 ++ ⟨l2, c2, .directive (bytesOf "include") (Args.ofList [.str q])⟩ :: post2) {S2 : Asm.St}
    (hpre2 : ∀ rest perr', Asm.doAssemble fs Asm.encoder (Asm.assembleFile fs Asm.encoder (61 + 1))
        ⟨[Asm.sibling main p, main], Asm.sibling main p⟩ (pre2 ++ rest) perr' (Asm.enterFile S).2.2 =
      Asm.doAssemble fs Asm.encoder (Asm.assembleFile fs Asm.encoder (61 + 1))
        ⟨[Asm.sibling main p, main], Asm.sibling main p⟩ rest perr' S2)
    {data3 : Bytes} (hfs3 : fs (Asm.sibling (Asm.sibling main p) q) = some data3) {els3 : List Element}
    {perr3 : Option ParseErr} (hp3 : Asm.parseFile data3 = .ok (els3, perr3)) {pre3 post3 : List Element} {el3 : Element}
    (hels3 : els3 = pre3 ++ el3 :: post3) {S3 : Asm.St}
    (hpre3 : ∀ rest perr', Asm.doAssemble fs Asm.encoder (Asm.assembleFile fs Asm.encoder 61)
        ⟨[Asm.sibling (Asm.sibling main p) q, Asm.sibling main p, main], Asm.sibling (Asm.sibling main p) q⟩
        (pre3 ++ rest) perr' (Asm.enterFile S2).2.2 =
      Asm.doAssemble fs Asm.encoder (Asm.assembleFile fs Asm.encoder 61)
        ⟨[Asm.sibling (Asm.sibling main p) q, Asm.sibling main p, main], Asm.sibling (Asm.sibling main p) q⟩
        rest perr' S3)
    {k : Asm.Kind} {lv : Asm.Level}
    (hel3 : Asm.statement fs Asm.encoder (Asm.assembleFile fs Asm.encoder 61)
        ⟨[Asm.sibling (Asm.sibling main p) q, Asm.sibling main p, main], Asm.sibling (Asm.sibling main p) q⟩ S3 el3 =
      .ok (S3.push ⟨[Asm.sibling (Asm.sibling main p) q, Asm.sibling main p, main], Asm.sibling (Asm.sibling main p) q⟩
        el3.line el3.col k, .err lv)) :
    ∀ o, Asm.run fs main = .done o → o.success = false ∧
      (⟨Asm.sibling (Asm.sibling main p) q, el3.line, el3.col, k⟩ : Asm.Diag) ∈ o.diags ∧
      (⟨Asm.sibling main p, l2, c2, .dirApply "include" (.includeFailed (Asm.sibling (Asm.sibling main p) q))⟩ : Asm.Diag)
        ∈ o.diags ∧
      (⟨main, l, c, .dirApply "include" (.includeFailed (Asm.sibling main p))⟩ : Asm.Diag) ∈ o.diags := by
  intro o ho
  obtain ⟨data, els, perr, pre, post, hfs, hp, hels, hpre⟩ := h
  have f3 : FailsIn fs 61 ⟨[Asm.sibling (Asm.sibling main p) q, Asm.sibling main p, main], Asm.sibling (Asm.sibling main p) q⟩
      data3 (Asm.enterFile S2).2.2 [⟨Asm.sibling (Asm.sibling main p) q, el3.line, el3.col, k⟩] :=
    .here els3 perr3 hp3 pre3 post3 el3 hels3 S3 hpre3 (fun S1 r1 hX => by
      rw [hel3] at hX; cases hX
      exact ⟨fun d hd => by rw [List.mem_singleton.mp hd]; exact List.mem_cons_self, rfl⟩)
  have f2 := FailsIn.inc (fs := fs) (fuel := 61) (env := ⟨[Asm.sibling main p, main], Asm.sibling main p⟩)
    (st := (Asm.enterFile S).2.2) els2 perr2 hp2 pre2 post2 l2 c2 q hels2 S2 hpre2 data3 hfs3 f3
  have f1 := FailsIn.inc (fs := fs) (fuel := 62) (env := ⟨[main], main⟩) (st := init2) els perr hp pre post l c p hels S hpre
    data2 hfs2 f2
  obtain ⟨hs, hall⟩ := run_failsIn fs main data hfs _ (by simp) f1 o ho
  exact ⟨hs, hall _ (by simp [incPath, incEnv]), hall _ (by simp [incPath, incEnv]), hall _ (by simp [incPath, incEnv])⟩

end Trion.C06
