import TrionModel.Lemmas.AsmXferRun
import TrionModel.Props.C05Multi2
import TrionModel.Props.C01
import TrionModel.Props.C04
import TrionModel.Props.C05AsmFull
/-!
# C05 (pipeline clause, projects with `.include`, `.global`, `.export`, `.import`) — stage 3, partial

Models as in Props/C05Multi.lean / C05Multi2.lean.  New here:
* `.export x` — publishes the file's (valued) `x` to its includer's table exactly like `.global x` below the definition
  does (no side condition: an `.export` of an unvalued name is a diagnostic);
* `.import x` of a name the includer holds VALUED where it includes the file — from there on `x` in the file denotes the
  includer's symbol: in the flattened program (`Xfer.XFlat`) the statement `.const (file's x) [includer's x] v` stands at the
  position of the `.import` (constructor `imp`), `.global/.export` statements emit nothing at their place (`pubs`) and
  their aliases `.const (includer's x) [file's x] v` stand behind the included file, as in stage 2.
  Names travel DOWN (`.import`) and UP (`.export/.global`, also re-published up a chain) across any number of levels.

Side condition `Xfer.XferProject fs fuel avail path data` (every file of the include tree; `avail` = the names the includer
holds valued at the `.include` statement, `[]` for the main file — the real global table is empty when the main file
starts): every `.global x` stands below a label / `.const` / `.import` / `.export` / publishing `.include` of `x` in its
file; every `.import x` has `x ∈ avail`; recursively for every `.include`, with `avail` := the names valued in the
includer's table at that statement (`Xfer.xNames`).

Proved: `layout_refines_asm_scope_partial` — success ⇒ the image is the `pass2` image of the reference on the flattened
program (with import and publication aliases); every emitting statement stands with its reference bytes at its reference
address; if no label stands at 2^32, `Ref.pass1` of that program is `E`, which restricts to every file instance's final
table and to the final global table.  `layout_refines_asm_global_of_scope` re-derives the stage-2 conclusion from it.

PARTIAL — excluded, stated as the side condition above:
(a) `.import x` of a name the includer holds UNVALUED (declared by `.global`/`.import` there, defined later): the file's
    `x` stays `Deferred`, its uses are simplified around `x`, the retry is handed to the includer's queue (and, for the
    main file, to `finalize`) — needs the retry theory for `Deferred` lookups (in progress elsewhere: C08Deferred) and a
    `TaskRel` for `global = true` tasks;
(b) `.global x` above the definition of `x` (same reason; witness in Props/C05Multi2.lean);
(c) `.import` in the main file can never succeed in this fragment (nothing is in the global table before the main
    file ends), so the `finalize` queue stays empty.
-/
namespace Trion.Asm
open Trion Trion.SegLayout Trion.Asm.Multi Trion.Asm.Glob Trion.Asm.Xfer
open Trion.Layout (MRun withTasks)

/-- C05 (pipeline, program level, STRONG form, `.include` + `.global` + `.export` + `.import` of valued names).  The
conclusion of `layout_refines_asm_scope_partial` with three additions that make "no placeholder survives" and "the bytes are
the encodings" part of the STATEMENT:
* the flattening is `XFlatS`: every ordinary source statement is GENUINE over its file's final table (`ElGen`): for an
  instruction the fresh assembly `Front.assemble ⟨c, tpl, 0, args⟩ (frontEval t) true` completes and `encoder` accepts the
  instruction (`InstrGen`; then `instrFinal` IS that encoding, `InstrGen.final`, and `encoder_ok_encode` gives
  `Codec.encode i = .ok hws` with bytes `toBytes hws`); for `.du*` the operand evaluates to `v` with `0 ≤ v ≤ max` and the
  bytes are `leBytes size v` (`DuGen.final`); `.dhex/.dstr/.dfile` carry the decoded / literal / file bytes; `.addr/.align/
  .const` operands evaluate (`.align n` with `0 < n < 2^32`, so its reference bytes are 0xBE × (next multiple − cursor));
* `E` is pinned WITHOUT `NoLabelAtTop`: it is the symbol table `la.env` of the layout core's own execution `MRun {} … la` of
  the flattened program; * the main file's final table has no unvalued entry (`Table.NoDef t`). -/
theorem layout_refines_asm_scope_strong {num : Nat → Bytes → Nat} (hinj : NumInj num) (fs : Bytes → Option Bytes)
    (main data : Bytes) (hfs : fs main = some data) (hglob : XferProject fs maxDepth [] main data) (o : Outcome)
    (h : run fs main = .done o) (hs : o.success = true) :
    ∃ (els : List Element) (perr : Option ParseErr) (p : List Layout.Stmt) (E : Layout.Env) (t : Table) (n : Nat)
      (A : List (Bytes × Int)) (im' : Layout.Img) (la : Layout.State),
      parseFile data = .ok (els, perr) ∧
      EnvRel (num 1) t E ∧ Table.NoDef t ∧ XFlatS num fs encoder E 0 1 main t 2 none els p n ∧
      MRun ({} : Layout.State) (p ++ aliases (num 0) (num 1) A) la ∧ la.env = E ∧
      A.map Prod.fst = els.filterMap pubName ∧ (∀ xv ∈ A, t.val xv.1 = some xv.2) ∧
      EnvRel (num 0) (pub [] A) E ∧
      (∀ s ∈ p ++ aliases (num 0) (num 1) A, s.wf = true) ∧
      Layout.Ref.pass2 none [] (p ++ aliases (num 0) (num 1) A) = some im' ∧ (∀ a, Map.abs o.image a = im'.get a) ∧
      (∀ q s r, p ++ aliases (num 0) (num 1) A = q ++ s :: r → s.emits = true →
        ∃ x, Layout.Ref.cursorAfter none q = some x ∧
          ∀ i, i < (Layout.Ref.bytes x s).length → im'.get (x + i) = (Layout.Ref.bytes x s)[i]?) ∧
      (Layout.NoLabelAtTop (p ++ aliases (num 0) (num 1) A) →
        Layout.Ref.pass1 none [] (p ++ aliases (num 0) (num 1) A) = some E) := by
  have henc := encoder_len
  unfold run runWith at h
  rw [hfs] at h
  simp only at h
  cases haf : assembleFile fs encoder maxDepth Env.init St.init data main with
  | stop r => rw [haf] at h; cases r <;> cases h
  | ok pr =>
    obtain ⟨st, res⟩ := pr
    rw [haf] at h
    simp only at h
    have hmd : maxDepth = 63 + 1 := rfl
    rw [hmd] at hglob
    rw [hmd, assembleFile] at haf
    simp only [Env.init, List.length_cons, List.length_nil, Nat.zero_add, Nat.add_one_ne_zero, if_false,
      enterFile_false good_init, ne_eq, not_true_eq_false] at haf
    have hinc : IncOk (assembleFile fs encoder 63) := fun env st data path g => assembleFile_safe henc fs 63 true env st data path g
    cases hfb : fileBody fs encoder (assembleFile fs encoder 63) ⟨[main], main⟩ data st2 with
    | stop r => simp only [st2] at hfb; rw [hfb] at haf; cases haf
    | ok q =>
      obtain ⟨st4, res4⟩ := q
      have hfb0 := hfb
      simp only [st2] at hfb
      rw [hfb] at haf
      simp only [Out.ok.injEq, Prod.mk.injEq] at haf
      obtain ⟨hst, _⟩ := haf
      have hseg : st.seg = st4.seg := by rw [← hst]; rfl
      have herrs : st.errors = st4.errors := by rw [← hst]; rfl
      have hglob' : st.globalTasks = st4.globalTasks := by rw [← hst]; rfl
      cases hcl : Seg.closeSegment st.seg with
      | mk s' oc =>
        rw [hcl] at h
        cases oc with
        | diag e => simp only at h; cases h; simp [Outcome.success] at hs
        | panic => cases h
        | placed x =>
          exfalso
          have g4 := ((fileBody_safe henc hinc (env := ⟨[main], main⟩) rfl fs data good_st2).2 _ _ hfb0).1
          have := (Seg.close_spec (s := st.seg) (by rw [hseg]; exact g4.inv)).1
          rw [hcl] at this; cases this
        | ok =>
          simp only at h
          cases hfz : finalize encoder Env.init { st with seg := s' } with
          | stop r => rw [hfz] at h; cases r <;> cases h
          | ok z =>
            obtain ⟨st', fin⟩ := z
            rw [hfz] at h
            simp only [Result.done.injEq] at h
            subst h
            have hfin : fin = true := by simpa [Outcome.success] using hs
            have hfg := finalize_grew hfz
            have herr' : st'.errors = [] := hfg.2.mp hfin
            have herr0 : st.errors = [] := by
              have := hfg.1; rw [herr'] at this
              exact List.eq_nil_of_length_eq_zero (by simpa using this)
            have herr4 : st4.errors = [] := by rw [← herrs]; exact herr0
            -- the main file against the layout core
            obtain ⟨els, perr, tt, p, l3, l4, A, id', hparse, _, _, hm, hrt, g4, e1, _, e2, _, _, _, hwf, hAn, hAv, hal, hndt⟩ :=
              Xfer.fileBody_sim (num := num) hinj henc fs (assembleFile fs encoder 63) (XferProject fs 63)
                (Xfer.assembleFile_sim hinj henc fs 63) hinc (assembleFile_grew fs encoder 63) (assembleFile_rel fs encoder 63)
                ⟨[main], main⟩ main [] rfl data 0 1 (by omega) st2 st4 res4 {} [] hglob good_st2 ⟨fun _ => rfl, rfl⟩ rfl rfl rfl
                (fun _ _ _ => rfl) (fun n hh => by simp [st2, St.init, Table.find] at hh) (fun n => rfl)
                (fun x hx => by cases hx) hfb0 herr4
            obtain ⟨la, a1, a2, a3, a4, _, a6⟩ := hal []
            -- close
            obtain ⟨l5, c1, c2, _, _⟩ := close_sim g4.inv a3
            rw [← hseg, hcl] at c2
            simp only at c2
            -- finalize with an empty global queue
            have hgl : st.globalTasks = [] := by rw [hglob', e2]; rfl
            have hst' : st'.seg = s' := by
              unfold finalize at hfz
              simp only [hgl, rounds, globalLoop, List.isEmpty_nil, if_true] at hfz
              cases hfz
              rfl
            -- the reference
            have hwhole : MRun ({} : Layout.State) (p ++ aliases (num 0) (num 1) A) la := .file hm hrt a1
            have hwfall : ∀ s ∈ p ++ aliases (num 0) (num 1) A, s.wf = true := by
              intro s hs'
              rcases List.mem_append.mp hs' with hs' | hs'
              · exact hwf s hs'
              · exact aliases_wf _ _ _ s hs'
            have rel0 : Layout.Rel ({} : Layout.State) ([] ++ ({} : Layout.State).tasks) none [] := Layout.rel_init
            obtain ⟨im', p2, rel3, _, hpl⟩ := Layout.mrun_placed hwhole [] none [] rel0 hwfall
            obtain ⟨_, _, _, p1⟩ := Layout.mrun_rel hwhole [] none [] rel0 hwfall
            obtain ⟨l5', c1', _, _, _, _, hg, _⟩ := Layout.closeSeg_spec la rel3.core
            rw [c1] at c1'; cases c1'
            have himg : ∀ a, Map.abs st'.seg.map a = im'.get a := by
              intro a
              rw [hst', c2.1 a, hg a]
              exact rel3.agree a (fun _ ht => by rw [a2] at ht; cases ht)
            have hp2 : Layout.Ref.pass2 none [] (p ++ aliases (num 0) (num 1) A) = some im' := by
              have := p2 []
              simp only [List.append_nil, Layout.Ref.pass2] at this
              exact this
            obtain ⟨hE, hF⟩ := a6 la.env (fun _ _ _ _ => rfl)
            refine ⟨els, perr, p, la.env, tt, id', A, im', la, hparse, hE, hndt, hF, hwhole, rfl, hAn, hAv,
              fun m => by rw [a4 m, e1.val m]; rfl, hwfall, hp2, himg, hpl, fun hl => ?_⟩
            have := p1 hl []
            simp only [List.append_nil, Layout.Ref.pass1] at this
            exact this


/-- C05 (pipeline, program level, `.include` + `.global` + `.export` + `.import` of valued names) -/
theorem layout_refines_asm_scope_partial {num : Nat → Bytes → Nat} (hinj : NumInj num) (fs : Bytes → Option Bytes)
    (main data : Bytes) (hfs : fs main = some data) (hglob : XferProject fs maxDepth [] main data) (o : Outcome)
    (h : run fs main = .done o) (hs : o.success = true) :
    ∃ (els : List Element) (perr : Option ParseErr) (p : List Layout.Stmt) (E : Layout.Env) (t : Table) (n : Nat)
      (A : List (Bytes × Int)) (im' : Layout.Img),
      parseFile data = .ok (els, perr) ∧
      EnvRel (num 1) t E ∧ XFlat num fs encoder E 0 1 main t 2 none els p n ∧
      A.map Prod.fst = els.filterMap pubName ∧ (∀ xv ∈ A, t.val xv.1 = some xv.2) ∧
      EnvRel (num 0) (pub [] A) E ∧
      (∀ s ∈ p ++ aliases (num 0) (num 1) A, s.wf = true) ∧
      Layout.Ref.pass2 none [] (p ++ aliases (num 0) (num 1) A) = some im' ∧ (∀ a, Map.abs o.image a = im'.get a) ∧
      (∀ q s r, p ++ aliases (num 0) (num 1) A = q ++ s :: r → s.emits = true →
        ∃ x, Layout.Ref.cursorAfter none q = some x ∧
          ∀ i, i < (Layout.Ref.bytes x s).length → im'.get (x + i) = (Layout.Ref.bytes x s)[i]?) ∧
      (Layout.NoLabelAtTop (p ++ aliases (num 0) (num 1) A) →
        Layout.Ref.pass1 none [] (p ++ aliases (num 0) (num 1) A) = some E) := by
  obtain ⟨els, perr, p, E, t, n, A, im', la, h1, h2, _, h3, _, _, h4, h5, h6, h7, h8, h9, h10, h11⟩ :=
    layout_refines_asm_scope_strong hinj fs main data hfs hglob o h hs
  exact ⟨els, perr, p, E, t, n, A, im', h1, h2, h3.toXFlat, h4, h5, h6, h7, h8, h9, h10, h11⟩

/-- C05 (every statement's bytes at its address) and C08 (pipeline clause: above, below, or IN ANOTHER FILE) for projects with
`.include/.global/.export/.import`.  In the image of a successful run every emitting statement `s` of the flattened
program stands with its reference bytes at its reference address, and `s` is the abstraction `absStmt … t' c' el` of a
source statement of some file instance over that instance's FINAL table `t'` (= `E` at the instance).  A name of that file
may be defined in the file itself (above or below the statement), in a file it includes that publishes it (`.global` /
`.export`, the `.include` above or below the statement) or in its includer (`.import`): in every case the name's value in
`t'` is the value of the defining symbol (the alias statements), so the bytes are those of the statement evaluated with
the definitions wherever they stand. -/
theorem every_statement_placed_asm_scope_partial {num : Nat → Bytes → Nat} (hinj : NumInj num) (fs : Bytes → Option Bytes)
    (main data : Bytes) (hfs : fs main = some data) (hglob : XferProject fs maxDepth [] main data) (o : Outcome)
    (h : run fs main = .done o) (hs : o.success = true) :
    ∃ (els : List Element) (perr : Option ParseErr) (p : List Layout.Stmt) (E : Layout.Env) (t : Table) (n : Nat)
      (A : List (Bytes × Int)),
      parseFile data = .ok (els, perr) ∧ EnvRel (num 1) t E ∧ XFlat num fs encoder E 0 1 main t 2 none els p n ∧
      ∀ q s r, p ++ aliases (num 0) (num 1) A = q ++ s :: r → s.emits = true →
        (∃ c, Layout.Ref.cursorAfter none q = some c ∧
          ∀ i, i < (Layout.Ref.bytes c s).length → Map.abs o.image (c + i) = (Layout.Ref.bytes c s)[i]?) ∧
        ∃ id' path' t' c' el, EnvRel (num id') t' E ∧ isInclude el = false ∧
          s = absStmt (num id') fs encoder path' t' c' el := by
  obtain ⟨els, perr, p, E, t, n, A, im', h1, h2, h3, _, _, _, _, _, h9, h10, _⟩ :=
    layout_refines_asm_scope_partial hinj fs main data hfs hglob o h hs
  refine ⟨els, perr, p, E, t, n, A, h1, h2, h3, fun q s r hp hse => ⟨?_, ?_⟩⟩
  · obtain ⟨x, hx, hb⟩ := h10 q s r hp hse
    exact ⟨x, hx, fun i hi => by rw [h9]; exact hb i hi⟩
  · have hmem : s ∈ p ++ aliases (num 0) (num 1) A := by rw [hp]; simp
    rcases List.mem_append.mp hmem with hm | hm
    · rcases h3.source h2 s hm with hsrc | ⟨n', d, v, rfl⟩
      · exact hsrc
      · cases hse
    · simp only [aliases, List.mem_map] at hm
      obtain ⟨xv, _, rfl⟩ := hm
      cases hse

/-- what `encoder` accepts: the instruction has an ARMv6-M encoding `hws` (`Codec.encode`, C01) and the bytes are its
little-endian halfwords -/
theorem encoder_ok_encode {i : Instr} {b : Bytes} (h : encoder i = .ok b) :
    ∃ hws, Codec.encode i = .ok hws ∧ b = (Codec.toBytes hws).map (·.toUInt8) := by
  unfold encoder at h
  cases hi : Codec.encodeInto 4 i with
  | error e => rw [hi] at h; cases e <;> cases h
  | ok bs =>
    rw [hi] at h
    simp only [Except.ok.injEq] at h
    unfold Codec.encodeInto at hi
    cases he : Codec.encode i with
    | error e => rw [he] at hi; cases hi
    | ok hws =>
      rw [he] at hi
      simp only at hi
      split at hi
      · cases hi
      · cases hi
        exact ⟨hws, rfl, h.symm⟩

/-- … and, for a well-formed instruction, decoding the halfwords gives the instruction back (C01) -/
theorem encoder_ok_decode {i : Instr} {b : Bytes} (h : encoder i = .ok b) (wf : i.wf) :
    ∃ hws, Codec.encode i = .ok hws ∧ b = (Codec.toBytes hws).map (·.toUInt8) ∧ Arm.decode hws = some i := by
  obtain ⟨hws, h1, h2⟩ := encoder_ok_encode h
  exact ⟨hws, h1, h2, Codec.enc_sound i hws h1 wf⟩

/-- C05 ∘ C04 ∘ C01  What `InstrGen` means at SPECIFICATION level.  `InstrGen` itself is a statement about the MODEL: the
model's fresh assembly over the final table completes and the model's `encoder` accepts.  Composed with C04 (`build_wf`: an
instruction the front end completes is well-formed) and C01 (`enc_sound`: the encoding of a well-formed instruction decodes,
by the architecture's own decoder `Arm.decode`, to that instruction): the reference bytes `instrFinal` are the little-endian
halfwords `hws` of an ARMv6-M encoding that DECODES to the instruction the statement denotes over the final table. -/
theorem InstrGen.spec {t : Table} {addr : Nat} {name : Bytes} {tpl : Instr} {args : List Arg}
    (hm : Front.mnemonic name = some tpl) (h : InstrGen encoder t addr tpl args) :
    ∃ fs2 hws, Front.assemble ⟨addr, tpl, 0, args⟩ (frontEval t) true = (fs2, .completed) ∧
      Codec.encode fs2.instr = .ok hws ∧
      instrFinal encoder t addr tpl args = (Codec.toBytes hws).map (·.toUInt8) ∧ Arm.decode hws = some fs2.instr := by
  obtain ⟨fs2, b, h1, h2, h3⟩ := h.final
  have hb : Front.build addr name args (frontEval t) true = .completed fs2.instr := by
    simp only [Front.build, hm, h1]
  have wf := Front.build_wf addr name args (frontEval t) true fs2.instr hb
  obtain ⟨hws, e1, e2, e3⟩ := encoder_ok_decode h2 wf
  exact ⟨fs2, hws, h1, e1, by rw [h3, e2], e3⟩

/-- C05 (no placeholder survives; the bytes ARE the encodings — STRONG form of `every_statement_placed_asm_scope_partial`).
Every emitting statement `s` of the flattened program stands with its reference bytes at its reference address, `s` is the
abstraction of an ordinary source statement `el` of a file instance over that instance's final table `t'`, AND `el` is
genuine over `t'` (`ElGen`): the reference bytes are the encoder's output for the completed fresh assembly / the
little-endian value in range / the literal bytes — never the 0xBE fallback of `instrFinal` / `duFinal`. -/
theorem every_statement_placed_asm_scope_strong {num : Nat → Bytes → Nat} (hinj : NumInj num) (fs : Bytes → Option Bytes)
    (main data : Bytes) (hfs : fs main = some data) (hglob : XferProject fs maxDepth [] main data) (o : Outcome)
    (h : run fs main = .done o) (hs : o.success = true) :
    ∃ (els : List Element) (perr : Option ParseErr) (p : List Layout.Stmt) (E : Layout.Env) (t : Table) (n : Nat)
      (A : List (Bytes × Int)),
      parseFile data = .ok (els, perr) ∧ EnvRel (num 1) t E ∧ XFlatS num fs encoder E 0 1 main t 2 none els p n ∧
      ∀ q s r, p ++ aliases (num 0) (num 1) A = q ++ s :: r → s.emits = true →
        (∃ c, Layout.Ref.cursorAfter none q = some c ∧
          ∀ i, i < (Layout.Ref.bytes c s).length → Map.abs o.image (c + i) = (Layout.Ref.bytes c s)[i]?) ∧
        ∃ id' path' t' c' el, EnvRel (num id') t' E ∧ isInclude el = false ∧ ElGen fs encoder path' t' c' el ∧
          s = absStmt (num id') fs encoder path' t' c' el := by
  obtain ⟨els, perr, p, E, t, n, A, im', la, h1, h2, _, h3, _, _, _, _, _, _, _, h9, h10, _⟩ :=
    layout_refines_asm_scope_strong hinj fs main data hfs hglob o h hs
  refine ⟨els, perr, p, E, t, n, A, h1, h2, h3, fun q s r hp hse => ⟨?_, ?_⟩⟩
  · obtain ⟨x, hx, hb⟩ := h10 q s r hp hse
    exact ⟨x, hx, fun i hi => by rw [h9]; exact hb i hi⟩
  · have hmem : s ∈ p ++ aliases (num 0) (num 1) A := by rw [hp]; simp
    rcases List.mem_append.mp hmem with hm | hm
    · rcases h3.source h2 s hm with hsrc | ⟨n', d, v, rfl⟩
      · exact hsrc
      · cases hse
    · simp only [aliases, List.mem_map] at hm
      obtain ⟨xv, _, rfl⟩ := hm
      cases hse

/-- C05 (a label / constant has ONE value) at the pipeline level — a COROLLARY of `layout_refines_asm_scope_strong` and
`every_statement_placed_asm_scope_strong`, restated so that everything is tied to the run `o`:
* `E` is the symbol table of the layout core's own execution of the flattened program (`MRun {} prog la`, `la.env = E`) — a
  label's entry in `E` is the cursor that execution had at the label, a constant's its value — and `t` with
  `EnvRel (num 1) t E` is the main file's final table;
* the output image `o.image` is, address by address, `pass2` of the flattened program, and
* for EVERY emitting statement `s` of EVERY file instance, the bytes of `o.image` at its reference address are the bytes of
  the genuine (`ElGen`) fresh assembly of its source statement over a table `t'` with `t'.val x = E (num id' x)` for all `x`.
So within the one run every reference to a name — before or after its definition, before or after an `.include`, in any
file of the tree — is assembled over the one value `E` gives it, and those bytes are in the image.  (A table that gives `x`
another value is refuted by the `MRun`/`EnvRel` clauses: example below.)  The Layout-level theorems
`forward_equals_backward`, … of Props/C05.lean are about `Layout.Stmt`, where the final value is an INPUT. -/
theorem label_value_position_independent_asm {num : Nat → Bytes → Nat} (hinj : NumInj num) (fs : Bytes → Option Bytes)
    (main data : Bytes) (hfs : fs main = some data) (hglob : XferProject fs maxDepth [] main data) (o : Outcome)
    (h : run fs main = .done o) (hs : o.success = true) :
    ∃ (els : List Element) (perr : Option ParseErr) (p : List Layout.Stmt) (E : Layout.Env) (t : Table) (n : Nat)
      (A : List (Bytes × Int)) (im' : Layout.Img) (la : Layout.State),
      parseFile data = .ok (els, perr) ∧ EnvRel (num 1) t E ∧ Table.NoDef t ∧
      XFlatS num fs encoder E 0 1 main t 2 none els p n ∧
      MRun ({} : Layout.State) (p ++ aliases (num 0) (num 1) A) la ∧ la.env = E ∧
      Layout.Ref.pass2 none [] (p ++ aliases (num 0) (num 1) A) = some im' ∧ (∀ a, Map.abs o.image a = im'.get a) ∧
      (∀ q s r, p ++ aliases (num 0) (num 1) A = q ++ s :: r → s.emits = true →
        (∃ c, Layout.Ref.cursorAfter none q = some c ∧
          ∀ i, i < (Layout.Ref.bytes c s).length → Map.abs o.image (c + i) = (Layout.Ref.bytes c s)[i]?) ∧
        ∃ id' path' t' c' el, s = absStmt (num id') fs encoder path' t' c' el ∧ isInclude el = false ∧
          ElGen fs encoder path' t' c' el ∧ ∀ x, t'.val x = E.get (num id' x)) ∧
      (Layout.NoLabelAtTop (p ++ aliases (num 0) (num 1) A) →
        Layout.Ref.pass1 none [] (p ++ aliases (num 0) (num 1) A) = some E) := by
  obtain ⟨els, perr, p, E, t, n, A, im', la, h1, h2, hnd, h3, hrun, hla, _, _, _, _, h8, h9, h10, h11⟩ :=
    layout_refines_asm_scope_strong hinj fs main data hfs hglob o h hs
  refine ⟨els, perr, p, E, t, n, A, im', la, h1, h2, hnd, h3, hrun, hla, h8, h9, fun q s r hp hse => ⟨?_, ?_⟩, h11⟩
  · obtain ⟨x, hx, hb⟩ := h10 q s r hp hse
    exact ⟨x, hx, fun i hi => by rw [h9]; exact hb i hi⟩
  · have hmem : s ∈ p ++ aliases (num 0) (num 1) A := by rw [hp]; simp
    rcases List.mem_append.mp hmem with hm | hm
    · rcases h3.source h2 s hm with ⟨id', path', t', c', el, g1, g2, g3, g4⟩ | ⟨n', d, v, rfl⟩
      · exact ⟨id', path', t', c', el, g4, g2, g3, fun x => (g1 x).symm⟩
      · cases hse
    · simp only [aliases, List.mem_map] at hm
      obtain ⟨xv, _, rfl⟩ := hm
      cases hse

/-! ### the single-file theorems in strong form -/

/-- every statement of a single file is genuine over the table `t` (the reference cursor threaded as in `abstract`) -/
def AllGen (num : Bytes → Nat) (fs : Bytes → Option Bytes) (enc : Encoder) (path : Bytes) (t : Table) :
    Option Nat → List Element → Prop
  | _, [] => True
  | c, el :: els => ElGen fs enc path t c el ∧
      AllGen num fs enc path t (Layout.Ref.next c (absStmt num fs enc path t c el)) els

theorem okEl_not4 {el : Element} (h : okEl el = true) :
    isInclude el = false ∧ isGlobal el = false ∧ isExport el = false ∧ isImport el = false := by
  obtain ⟨line, col, val⟩ := el
  cases val with
  | label n => exact ⟨rfl, rfl, rfl, rfl⟩
  | instruction n a => exact ⟨rfl, rfl, rfl, rfl⟩
  | directive name args =>
    simp only [okEl, Bool.not_eq_true', Bool.or_eq_false_iff, decide_eq_false_iff_not] at h
    simp only [isInclude, isGlobal, isExport, isImport, decide_eq_false_iff_not]
    exact ⟨h.1.1.1, h.1.1.2, h.2, h.1.2⟩

theorem Xfer.XFlatS.single {num : Nat → Bytes → Nat} {fs : Bytes → Option Bytes} {enc : Encoder} {E : Layout.Env} {pid id : Nat}
    {path : Bytes} {t : Table} {nxt : Nat} {c : Option Nat} {els : List Element} {p : List Layout.Stmt} {nxt' : Nat}
    (h : XFlatS num fs enc E pid id path t nxt c els p nxt') (hok : ∀ el ∈ els, okEl el = true) :
    p = abstract (num id) fs enc path t c els ∧ AllGen (num id) fs enc path t c els := by
  induction h with
  | nil => exact ⟨rfl, trivial⟩
  | stmt _ _ _ _ hg _ ih =>
    obtain ⟨e1, e2⟩ := ih (fun x hx => hok x (List.mem_cons_of_mem _ hx))
    exact ⟨by simp only [abstract, e1], hg, e2⟩
  | @pubs _ _ _ _ _ _ el _ _ _ hp _ _ =>
    have := okEl_not4 (hok el List.mem_cons_self)
    rcases hp with hp | hp
    · rw [this.2.1] at hp; cases hp
    · rw [this.2.2.1] at hp; cases hp
  | @imp _ _ _ _ _ _ el _ _ _ _ _ hi _ _ _ =>
    have := okEl_not4 (hok el List.mem_cons_self)
    rw [importName_none this.2.2.2] at hi; cases hi
  | @inc _ _ _ _ _ _ el _ _ _ _ _ _ _ _ _ _ _ ht _ _ _ _ _ _ _ _ =>
    have := okEl_not4 (hok el List.mem_cons_self)
    rw [incTarget_none this.1] at ht; cases ht

theorem elsOk_of_okEl (fs : Bytes → Option Bytes) (path : Bytes) (proj : List Bytes → Bytes → Bytes → Prop) (avail : List Bytes) :
    ∀ (els : List Element) (seen : List Bytes), (∀ el ∈ els, okEl el = true) → ElsOk fs path proj avail seen els := by
  intro els
  induction els with
  | nil => intro _ _; trivial
  | cons el els ih =>
    intro seen hok
    have h4 := okEl_not4 (hok el List.mem_cons_self)
    refine ⟨fun hg => (by rw [h4.2.1] at hg; cases hg), fun hm => (by rw [h4.2.2.2] at hm; cases hm),
      fun p' d' ht => (by rw [incTarget_none h4.1] at ht; cases ht), ih _ (fun x hx => hok x (List.mem_cons_of_mem _ hx))⟩

theorem filterMap_pubName_nil : ∀ (els : List Element), (∀ el ∈ els, okEl el = true) → els.filterMap pubName = []
  | [], _ => rfl
  | el :: els, h => by
    have h4 := okEl_not4 (h el List.mem_cons_self)
    simp only [List.filterMap_cons, pubName, globalName_none h4.2.1, exportName_none h4.2.2.1]
    exact filterMap_pubName_nil els (fun x hx => h x (List.mem_cons_of_mem _ hx))

/-- C05 (pipeline, ONE file, STRONG form of `layout_refines_asm_full` / `every_statement_placed_asm_full`).  For a single-file
project (`SingleFileFull`) and any jointly injective numbering (`num 1` numbers the file's names): a successful run has a
final table `t₂` with no unvalued entry, `abstract (num 1) … t₂ none els` is executed by the layout core (`Layout.steps`)
into a state whose symbol table IS `t₂` (`EnvRel`, unconditionally — also when a label stands at the cursor 2^32, where
`Ref.pass1` is undefined), EVERY statement is genuine over `t₂` (`AllGen`: the fresh assembly completes and is encoded, every
`.du*` value is in range, …, so no reference byte is a fallback), the image is the `pass2` image with every emitting
statement's bytes at its address, and under `NoLabelAtTop` the reference's pass-1 table is that symbol table. -/
theorem layout_refines_asm_full_strong {num : Nat → Bytes → Nat} (hinj : NumInj num) (fs : Bytes → Option Bytes)
    (main data : Bytes) (hfs : fs main = some data) (els : List Element) (perr : Option ParseErr)
    (hparse : parseFile data = .ok (els, perr)) (hsf : SingleFileFull els) (o : Outcome) (h : run fs main = .done o)
    (hs : o.success = true) :
    ∃ (t₂ : Table) (E : Layout.Env) (la : Layout.State) (im' : Layout.Img),
      Table.NoDef t₂ ∧ EnvRel (num 1) t₂ E ∧ AllGen (num 1) fs encoder main t₂ none els ∧
      MRun ({} : Layout.State) (abstract (num 1) fs encoder main t₂ none els) la ∧ la.env = E ∧
      Layout.Ref.pass2 none [] (abstract (num 1) fs encoder main t₂ none els) = some im' ∧
      (∀ a, Map.abs o.image a = im'.get a) ∧
      (∀ q s r, abstract (num 1) fs encoder main t₂ none els = q ++ s :: r → s.emits = true →
        ∃ x, Layout.Ref.cursorAfter none q = some x ∧
          ∀ i, i < (Layout.Ref.bytes x s).length → Map.abs o.image (x + i) = (Layout.Ref.bytes x s)[i]?) ∧
      (Layout.NoLabelAtTop (abstract (num 1) fs encoder main t₂ none els) →
        Layout.Ref.pass1 none [] (abstract (num 1) fs encoder main t₂ none els) = some E) := by
  have hproj : XferProject fs maxDepth [] main data := by
    have hmd : maxDepth = 63 + 1 := rfl
    rw [hmd]
    intro els' perr' hp'
    rw [hparse] at hp'; cases hp'
    exact elsOk_of_okEl fs main _ [] els [] hsf
  obtain ⟨els', perr', p, E, t, n, A, im', la, h1, h2, hnd, h3, hrun, hla, h4, _, _, _, h8, h9, h10, h11⟩ :=
    layout_refines_asm_scope_strong hinj fs main data hfs hproj o h hs
  rw [hparse] at h1; cases h1
  have hA : A = [] := by
    have := h4; rw [filterMap_pubName_nil els hsf] at this
    exact List.map_eq_nil_iff.mp this
  subst hA
  obtain ⟨hp, hgen⟩ := h3.single hsf
  simp only [aliases, List.map_nil, List.append_nil] at hrun h8 h10 h11
  subst hp
  exact ⟨t, E, la, im', hnd, h2, hgen, hrun, hla, h8, h9,
    fun q s r hq hse => by
      obtain ⟨x, hx, hb⟩ := h10 q s r hq hse
      exact ⟨x, hx, fun i hi => by rw [h9]; exact hb i hi⟩, h11⟩

/-! ### stage 2 as an instance -/

theorem pubName_of_global {el : Element} {x : Bytes} (h : globalName el = some x) : pubName el = some x := by
  simp only [pubName, h]

theorem not_import_export_of_okGlob {el : Element} (h : okGlob el = true) : isImport el = false ∧ isExport el = false := by
  obtain ⟨line, col, val⟩ := el
  cases val with
  | label n => exact ⟨rfl, rfl⟩
  | instruction n a => exact ⟨rfl, rfl⟩
  | directive name args =>
    simp only [okGlob, Bool.not_eq_true', Bool.or_eq_false_iff, decide_eq_false_iff_not] at h
    simp only [isImport, isExport, decide_eq_false_iff_not]
    exact h

theorem pubName_eq_of_okGlob {el : Element} (h : okGlob el = true) : pubName el = globalName el := by
  unfold pubName
  cases hg : globalName el with
  | some x => rfl
  | none => simp only [exportName_none (not_import_export_of_okGlob h).2]

theorem filterMap_pubName_of_okGlob : ∀ (l : List Element), (∀ el ∈ l, okGlob el = true) →
    l.filterMap pubName = l.filterMap globalName
  | [], _ => rfl
  | el :: l, h => by
    simp only [List.filterMap_cons, pubName_eq_of_okGlob (h el List.mem_cons_self)]
    rw [filterMap_pubName_of_okGlob l (fun x hx => h x (List.mem_cons_of_mem _ hx))]

theorem newNames_sub_xNames (fs : Bytes → Option Bytes) (path : Bytes) (el : Element) :
    ∀ x ∈ newNames fs path el, x ∈ xNames fs path el := by
  intro x hx
  simp only [newNames, List.mem_append] at hx
  simp only [xNames, List.mem_append]
  rcases hx with hx | hx
  · refine .inl (.inl (.inl ?_))
    cases hd : definedName el with
    | none => rw [hd] at hx; cases hx
    | some y => rw [hd] at hx; simpa using hx
  · refine .inr ?_
    unfold incNames at hx
    unfold xincNames
    split
    · rename_i p' d' ht
      rw [ht] at hx
      simp only at hx ⊢
      split
      · rename_i els' pe hp
        rw [hp] at hx
        simp only [List.mem_filterMap] at hx ⊢
        obtain ⟨e, he, hg⟩ := hx
        exact ⟨e, he, pubName_of_global hg⟩
      · rename_i r hp
        rw [hp] at hx; cases hx
    · rename_i ht
      rw [ht] at hx; cases hx

theorem elsOk_of_declOk (fs : Bytes → Option Bytes) (path : Bytes) (proj : List Bytes → Bytes → Bytes → Prop)
    (avail : List Bytes) : ∀ (els : List Element) (seen seen' : List Bytes),
      (∀ el ∈ els, okGlob el = true ∧ ∀ p' d', incTarget fs path el = some (p', d') → ∀ a, proj a p' d') →
      declOk fs path seen els = true → (∀ x ∈ seen, x ∈ seen') → ElsOk fs path proj avail seen' els := by
  intro els
  induction els with
  | nil => intro _ _ _ _ _; trivial
  | cons el els ih =>
    intro seen seen' hok hd hsub
    simp only [declOk, Bool.and_eq_true] at hd
    obtain ⟨h1, h2⟩ := hd
    have hel := hok el List.mem_cons_self
    refine ⟨fun hg => ?_, fun hm => ?_, fun p' d' ht => hel.2 p' d' ht _, ih _ _ (fun x hx => hok x (List.mem_cons_of_mem _ hx)) h2 ?_⟩
    · rw [if_pos hg] at h1
      cases hgn : globalName el with
      | none => rw [hgn] at h1; cases h1
      | some x => rw [hgn] at h1; exact ⟨x, rfl, hsub x (by simpa using h1)⟩
    · rw [(not_import_export_of_okGlob hel.1).1] at hm; cases hm
    · intro x hx
      rcases List.mem_append.mp hx with hx | hx
      · exact List.mem_append_left _ (newNames_sub_xNames fs path el x hx)
      · exact List.mem_append_right _ (hsub x hx)

/-- the side condition of stage 2 is an instance of the side condition of stage 3 (whatever the includer holds) -/
theorem xferProject_of_global (fs : Bytes → Option Bytes) : ∀ (fuel : Nat) (avail : List Bytes) (path data : Bytes),
    GlobalProject fs fuel path data → XferProject fs fuel avail path data := by
  intro fuel
  induction fuel with
  | zero => intro _ _ _ _; trivial
  | succ fuel ih =>
    intro avail path data h els perr hp
    obtain ⟨hd, hels⟩ := h els perr hp
    exact elsOk_of_declOk fs path _ avail els [] [] (fun el hel => ⟨(hels el hel).1, fun p' d' ht a => ih a p' d' ((hels el hel).2 p' d' ht)⟩)
      hd (fun _ hx => hx)

/-- Stage 2 from stage 3: under the hypotheses of `layout_refines_asm_global_partial` (no `.import/.export`) the stage-3
theorem applies, and the published names are the operands of the main file's `.global` statements. -/
theorem layout_refines_asm_global_of_scope {num : Nat → Bytes → Nat} (hinj : NumInj num) (fs : Bytes → Option Bytes)
    (main data : Bytes) (hfs : fs main = some data) (hglob : GlobalProject fs maxDepth main data) (o : Outcome)
    (h : run fs main = .done o) (hs : o.success = true) :
    ∃ (els : List Element) (perr : Option ParseErr) (p : List Layout.Stmt) (E : Layout.Env) (t : Table) (n : Nat)
      (A : List (Bytes × Int)) (im' : Layout.Img),
      parseFile data = .ok (els, perr) ∧
      EnvRel (num 1) t E ∧ XFlat num fs encoder E 0 1 main t 2 none els p n ∧
      A.map Prod.fst = els.filterMap globalName ∧ (∀ xv ∈ A, t.val xv.1 = some xv.2) ∧
      EnvRel (num 0) (pub [] A) E ∧
      Layout.Ref.pass2 none [] (p ++ aliases (num 0) (num 1) A) = some im' ∧ (∀ a, Map.abs o.image a = im'.get a) ∧
      (Layout.NoLabelAtTop (p ++ aliases (num 0) (num 1) A) →
        Layout.Ref.pass1 none [] (p ++ aliases (num 0) (num 1) A) = some E) := by
  obtain ⟨els, perr, p, E, t, n, A, im', h1, h2, h3, h4, h5, h6, _, h8, h9, _, h11⟩ :=
    layout_refines_asm_scope_partial hinj fs main data hfs (xferProject_of_global fs _ [] main data hglob) o h hs
  refine ⟨els, perr, p, E, t, n, A, im', h1, h2, h3, ?_, h5, h6, h8, h9, h11⟩
  rw [h4]
  have hmd : maxDepth = 63 + 1 := rfl
  rw [hmd] at hglob
  obtain ⟨_, hels⟩ := hglob els perr h1
  exact filterMap_pubName_of_okGlob els (fun el hel => (hels el hel).1)

/-! ### visibility (C14, pipeline level): what the three scope directives do to the two tables -/

/-- C14 (pipeline)  A `.import x` that succeeds without a diagnostic in a file whose includer's table (`globals` while the
file is assembled) holds `x` valued: `x` was absent from the file's own table and now has the INCLUDER's value there;
nothing else changes.  (DOWN: the only way a name of the includer becomes visible in the included file.) -/
theorem import_binds_includer_value {fs : Bytes → Option Bytes} {enc : Encoder} {inc : Inc} {env : Env} {st st' : St}
    {el : Element} (hg : isImport el = true) (h : statement fs enc inc env st el = .ok (st', .ok)) {t : Table}
    (hl : st.locals = some t) (hnd : Table.NoDef t)
    (hav : ∀ x, importName el = some x → ∃ v, st.globals.find x = some (some v)) :
    ∃ x v, importName el = some x ∧ st.globals.find x = some (some v) ∧ t.find x = none ∧
      st' = { st with locals := some (t.set x (some v)) } := Xfer.import_inv hg h hl hnd hav

/-- C14 (pipeline)  A `.export x` that succeeds without a diagnostic: `x` is valued in the file's own table, was absent
from the includer's table, and now has the FILE's value there; nothing else changes.  (UP.) -/
theorem export_publishes_file_value {fs : Bytes → Option Bytes} {enc : Encoder} {inc : Inc} {env : Env} {st st' : St}
    {el : Element} (hg : isExport el = true) (h : statement fs enc inc env st el = .ok (st', .ok)) {t : Table}
    (hl : st.locals = some t) (hnd : Table.NoDef st.globals) :
    ∃ x v, exportName el = some x ∧ t.find x = some (some v) ∧ st.globals.find x = none ∧
      st' = { st with globals := st.globals.set x (some v) } := Xfer.export_inv hg h hl hnd

/-- C14 (pipeline)  A `.global x` below the definition of `x` that succeeds without a diagnostic does the same through
`defer_constant` + `insert_constant`. -/
theorem global_publishes_file_value {fs : Bytes → Option Bytes} {enc : Encoder} {inc : Inc} {env : Env} {st st' : St}
    {el : Element} (hg : isGlobal el = true) (h : statement fs enc inc env st el = .ok (st', .ok)) {t : Table}
    (hl : st.locals = some t) (hfound : ∀ x, globalName el = some x → ∃ v, t.find x = some (some v)) :
    ∃ x v, globalName el = some x ∧ t.find x = some (some v) ∧ st.globals.find x = none ∧
      st' = { st with globals := pub1 st.globals x v } := Glob.global_inv hg h hl hfound

/-! ### stage 1 as an instance -/

theorem okInc_not3 {el : Element} (h : okInc el = true) : isGlobal el = false ∧ isExport el = false ∧ isImport el = false := by
  obtain ⟨line, col, val⟩ := el
  cases val with
  | label n => exact ⟨rfl, rfl, rfl⟩
  | instruction n a => exact ⟨rfl, rfl, rfl⟩
  | directive name args =>
    simp only [okInc, Bool.not_eq_true', Bool.or_eq_false_iff, decide_eq_false_iff_not] at h
    simp only [isGlobal, isExport, isImport, decide_eq_false_iff_not]
    exact ⟨h.1.1, h.2, h.1.2⟩

theorem elsOk_of_okInc (fs : Bytes → Option Bytes) (path : Bytes) (proj : List Bytes → Bytes → Bytes → Prop) (avail : List Bytes) :
    ∀ (els : List Element) (seen : List Bytes),
      (∀ el ∈ els, okInc el = true ∧ ∀ p' d', incTarget fs path el = some (p', d') → ∀ a, proj a p' d') →
      ElsOk fs path proj avail seen els := by
  intro els
  induction els with
  | nil => intro _ _; trivial
  | cons el els ih =>
    intro seen hok
    have hel := hok el List.mem_cons_self
    have h3 := okInc_not3 hel.1
    exact ⟨fun hg => (by rw [h3.1] at hg; cases hg), fun hm => (by rw [h3.2.2] at hm; cases hm),
      fun p' d' ht => hel.2 p' d' ht _, ih _ (fun x hx => hok x (List.mem_cons_of_mem _ hx))⟩

/-- the side condition of stage 1 (`.include` with file-local names) is an instance of the side condition of stage 3: the
strong theorems apply to every project covered by `layout_refines_asm_includes_partial` -/
theorem xferProject_of_local (fs : Bytes → Option Bytes) : ∀ (fuel : Nat) (avail : List Bytes) (path data : Bytes),
    LocalProject fs fuel path data → XferProject fs fuel avail path data := by
  intro fuel
  induction fuel with
  | zero => intro _ _ _ _; trivial
  | succ fuel ih =>
    intro avail path data h els perr hp
    exact elsOk_of_okInc fs path _ avail els []
      (fun el hel => ⟨(h els perr hp el hel).1, fun p' d' ht a => ih a p' d' ((h els perr hp el hel).2 p' d' ht)⟩)

/-! ### non-vacuity -/

/-- a decidable form of `ElsOk` / `XferProject` -/
def elsOkB (fs : Bytes → Option Bytes) (path : Bytes) (projB : List Bytes → Bytes → Bytes → Bool) (avail : List Bytes) :
    List Bytes → List Element → Bool
  | _, [] => true
  | seen, el :: els =>
    (if isGlobal el then (match globalName el with | some x => seen.contains x | none => false) else true) &&
    (if isImport el then (match importName el with | some x => avail.contains x | none => false) else true) &&
    (match incTarget fs path el with | some (p', d') => projB seen p' d' | none => true) &&
    elsOkB fs path projB avail (xNames fs path el ++ seen) els

def xferProjectB (fs : Bytes → Option Bytes) : Nat → List Bytes → Bytes → Bytes → Bool
  | 0, _, _, _ => true
  | fuel + 1, avail, path, data =>
    match parseFile data with
    | .ok (els, _) => elsOkB fs path (xferProjectB fs fuel) avail [] els
    | .stop _ => true

theorem elsOk_of_B (fs : Bytes → Option Bytes) (path : Bytes) (projB : List Bytes → Bytes → Bytes → Bool)
    (proj : List Bytes → Bytes → Bytes → Prop) (hp : ∀ a p d, projB a p d = true → proj a p d) (avail : List Bytes) :
    ∀ (els : List Element) (seen : List Bytes), elsOkB fs path projB avail seen els = true → ElsOk fs path proj avail seen els := by
  intro els
  induction els with
  | nil => intro _ _; trivial
  | cons el els ih =>
    intro seen h
    simp only [elsOkB, Bool.and_eq_true] at h
    obtain ⟨⟨⟨h1, h2⟩, h3⟩, h4⟩ := h
    refine ⟨fun hg => ?_, fun hm => ?_, fun p' d' ht => ?_, ih _ h4⟩
    · rw [if_pos hg] at h1
      cases hgn : globalName el with
      | none => rw [hgn] at h1; cases h1
      | some x => rw [hgn] at h1; exact ⟨x, rfl, by simpa using h1⟩
    · rw [if_pos hm] at h2
      cases hgn : importName el with
      | none => rw [hgn] at h2; cases h2
      | some x => rw [hgn] at h2; exact ⟨x, rfl, by simpa using h2⟩
    · rw [ht] at h3; exact hp _ _ _ h3

theorem xferProject_of_B (fs : Bytes → Option Bytes) : ∀ (fuel : Nat) (avail : List Bytes) (path data : Bytes),
    xferProjectB fs fuel avail path data = true → XferProject fs fuel avail path data := by
  intro fuel
  induction fuel with
  | zero => intro _ _ _ _; trivial
  | succ fuel ih =>
    intro avail path data h els perr hp
    simp only [xferProjectB, hp] at h
    exact elsOk_of_B fs path _ _ (fun a p d => ih a p d) avail els [] h

/-- three files: `m` defines `k` and includes `i`; `i` imports `k` (DOWN), uses it, includes `j` and re-exports `j`'s `z` (UP);
`j` imports `k` from `i` (down a second level), defines `z` and exports it; `m` uses `z` ABOVE and BELOW its `.include` -/
def exXMain : Bytes := bytesOf ".addr 16;\n.const k, 5;\n.du16 z;\n.include \"i\";\n.du16 z;\n"
def exXMid : Bytes := bytesOf ".import k;\n.du8 k;\n.include \"j\";\n.export z;\n"
def exXLeaf : Bytes := bytesOf ".import k;\nz:\n.du8 k + 1;\n.export z;\n"
def exXFs : Bytes → Option Bytes := fun p =>
  if p = bytesOf "m" then some exXMain else if p = bytesOf "i" then some exXMid
  else if p = bytesOf "j" then some exXLeaf else none

set_option maxRecDepth 100000 in
theorem exXProject_ok : XferProject exXFs maxDepth [] (bytesOf "m") exXMain :=
  xferProject_of_B _ _ _ _ _ (by decide +kernel)

set_option maxRecDepth 100000 in
/-- `Asm.run` on the project: success, no diagnostic; `z` = 19 (the label in `j`) above and below the `.include` in `m`,
`k` = 5 in `i`, `k + 1` = 6 in `j` -/
theorem exXProject_run : (match run exXFs (bytesOf "m") with
    | .done o => o.success && o.diags.isEmpty && o.image == [(16, [0x13, 0x00, 0x05, 0x06, 0x13, 0x00])]
    | _ => false) = true := by decide +kernel

/-- the hypotheses of `layout_refines_asm_scope_partial` hold of the project, so its conclusion does -/
example : ∃ o, run exXFs (bytesOf "m") = .done o ∧ o.success = true ∧
    ∃ (els : List Element) (perr : Option ParseErr) (p : List Layout.Stmt) (E : Layout.Env) (t : Table) (n : Nat)
      (A : List (Bytes × Int)) (im' : Layout.Img),
      parseFile exXMain = .ok (els, perr) ∧ XFlat exNum2 exXFs encoder E 0 1 (bytesOf "m") t 2 none els p n ∧
      Layout.Ref.pass2 none [] (p ++ aliases (exNum2 0) (exNum2 1) A) = some im' ∧ ∀ a, Map.abs o.image a = im'.get a := by
  have hr := exXProject_run
  cases hrun : run exXFs (bytesOf "m") with
  | done o =>
    rw [hrun] at hr
    simp only [Bool.and_eq_true] at hr
    obtain ⟨els, perr, p, E, t, n, A, im', h1, _, h3, _, _, _, _, h8, h9, _⟩ :=
      layout_refines_asm_scope_partial exNum2_inj exXFs (bytesOf "m") exXMain rfl exXProject_ok o hrun hr.1.1
    exact ⟨o, rfl, hr.1.1, els, perr, p, E, t, n, A, im', h1, h3, h8, h9⟩
  | noMain => rw [hrun] at hr; cases hr
  | panic => rw [hrun] at hr; cases hr
  | fuel => rw [hrun] at hr; cases hr
  | loop => rw [hrun] at hr; cases hr

/-- the flattened program of the project (main: `k` = 10, `z` = 11; `i`: `k` = 20, `z` = 21; `j`: `k` = 30, `z` = 31) with the
import aliases (`20 := 10`, `30 := 20`) at the `.import` statements and the publication aliases (`21 := 31` behind `j`,
`11 := 21` behind `i`), and its reference layout: the image `Asm.run` produces -/
example : Layout.Ref.layout [.addr 16, .const 10 [] 5, .emit 2 [11] [0x13, 0x00], .const 20 [10] 5, .emit 1 [20] [0x05],
        .const 30 [20] 5, .label 31, .emit 1 [30] [0x06], .const 21 [31] 19, .const 11 [21] 19, .emit 2 [11] [0x13, 0x00]] =
      some [(20, 0x13), (21, 0x00), (19, 0x06), (18, 0x05), (16, 0x13), (17, 0x00)] := by rfl

/-- the strong theorem applies to the three-file project: every statement genuine, `E` the layout core's own table -/
example : ∃ o, run exXFs (bytesOf "m") = .done o ∧
    ∃ (els : List Element) (p : List Layout.Stmt) (E : Layout.Env) (t : Table) (n : Nat),
      XFlatS exNum2 exXFs encoder E 0 1 (bytesOf "m") t 2 none els p n ∧ Table.NoDef t := by
  have hr := exXProject_run
  cases hrun : run exXFs (bytesOf "m") with
  | done o =>
    rw [hrun] at hr
    simp only [Bool.and_eq_true] at hr
    obtain ⟨els, _, p, E, t, n, _, _, _, _, _, h3, h4, _⟩ :=
      layout_refines_asm_scope_strong exNum2_inj exXFs (bytesOf "m") exXMain rfl exXProject_ok o hrun hr.1.1
    exact ⟨o, rfl, els, p, E, t, n, h4, h3⟩
  | noMain => rw [hrun] at hr; cases hr
  | panic => rw [hrun] at hr; cases hr
  | fuel => rw [hrun] at hr; cases hr
  | loop => rw [hrun] at hr; cases hr

/-- the auditor's input: a label at the cursor 2^32 (`NoLabelAtTop` fails, `Ref.pass1` is undefined), referenced from another
region: the run succeeds (`x` = 0xFFFFFFFF, saturated) and the strong theorem still pins the symbol table -/
def exTopText : Bytes := bytesOf ".addr 0xFFFFFFFF;\n.du8 0;\nx:\n.addr 0;\n.du32 x;\n"
def exTopFs : Bytes → Option Bytes := fun p => if p = bytesOf "m" then some exTopText else none

set_option maxRecDepth 100000 in
example : XferProject exTopFs maxDepth [] (bytesOf "m") exTopText ∧
    (match run exTopFs (bytesOf "m") with
      | .done o => o.success && o.diags.isEmpty && o.image == [(0, [0xFF, 0xFF, 0xFF, 0xFF]), (0xFFFFFFFF, [0x00])]
      | _ => false) = true :=
  ⟨xferProject_of_B _ _ _ _ _ (by decide +kernel), by decide +kernel⟩

/-! ### the clauses of `label_value_position_independent_asm` pin the table -/

/-- the auditor's program `.addr 16; x: ; .du8 x`, parsed -/
def exPinEls : List Element :=
  [⟨1, 1, .directive (bytesOf "addr") (.cons (.const 16) .nil)⟩,
   ⟨2, 1, .label [120]⟩,
   ⟨3, 1, .directive (bytesOf "du8") (.cons (.ident [120]) .nil)⟩]

/-- the clauses `XFlatS`, `MRun {} p la`, `la.env = E`, `EnvRel (num 1) t E` PIN the table: for the program
`.addr 16; x: ; .du8 x` every `t` that satisfies them gives `x` the value 16 — -/
theorem exPin_value {num : Nat → Bytes → Nat} (fs : Bytes → Option Bytes) (E : Layout.Env) (t : Table)
    (p : List Layout.Stmt) (n : Nat) (la : Layout.State)
    (hf : XFlatS num fs encoder E 0 1 (bytesOf "m") t 2 none exPinEls p n) (hrun : MRun ({} : Layout.State) p la)
    (hla : la.env = E) (hE : EnvRel (num 1) t E) : t.val [120] = some 16 := by
  have hp : p = [.addr 16, .label (num 1 [120]), .emit 1 [num 1 [120]] (duFinal t .u8 (.ident [120]))] := by
    unfold exPinEls at hf
    cases hf with
    | stmt _ _ _ _ _ hf1 =>
      cases hf1 with
      | stmt _ _ _ _ _ hf2 =>
        cases hf2 with
        | stmt _ _ _ _ _ hf3 =>
          cases hf3
          rfl
        | pubs hg _ => rcases hg with hg | hg <;> cases hg
        | imp hi _ _ => cases hi
        | inc ht _ _ _ _ _ _ => cases ht
      | pubs hg _ => rcases hg with hg | hg <;> cases hg
      | imp hi _ _ => cases hi
      | inc ht _ _ _ _ _ _ => cases ht
    | pubs hg _ => rcases hg with hg | hg <;> cases hg
    | imp hi _ _ => cases hi
    | inc ht _ _ _ _ _ _ => cases ht
  subst hp
  have hwf : ∀ s ∈ [Layout.Stmt.addr 16, .label (num 1 [120]), .emit 1 [num 1 [120]] (duFinal t .u8 (.ident [120]))],
      s.wf = true := by
    intro s hs
    simp only [List.mem_cons, List.not_mem_nil, or_false] at hs
    rcases hs with rfl | rfl | rfl
    · rfl
    · rfl
    · simp [Layout.Stmt.wf, duFinal_length, DU.size]
  have rel0 : Layout.Rel ({} : Layout.State) ([] ++ ({} : Layout.State).tasks) none [] := Layout.rel_init
  obtain ⟨_, _, _, p1⟩ := Layout.mrun_rel hrun [] none [] rel0 hwf
  have hnt : Layout.NoTop none [Layout.Stmt.addr 16, .label (num 1 [120]),
      .emit 1 [num 1 [120]] (duFinal t .u8 (.ident [120]))] := by
    intro x m hx
    simp [Layout.Ref.trace, Layout.Ref.next] at hx
    obtain ⟨rfl, _⟩ := hx
    decide
  have := p1 hnt []
  simp [Layout.Ref.pass1, Layout.Env.get, Layout.Ref.cursorAfter, Layout.top] at this
  have hx := hE [120]
  rw [← hla, ← this] at hx
  simp [Layout.Env.get] at hx
  exact hx.symm

/-- — so the auditor's witness (`t.val x = some 7`) is refuted -/
example {num : Nat → Bytes → Nat} (fs : Bytes → Option Bytes) (E : Layout.Env) (t : Table)
    (p : List Layout.Stmt) (n : Nat) (la : Layout.State) :
    ¬ (XFlatS num fs encoder E 0 1 (bytesOf "m") t 2 none exPinEls p n ∧ MRun ({} : Layout.State) p la ∧
        la.env = E ∧ EnvRel (num 1) t E ∧ t.val [120] = some 7) := by
  rintro ⟨hf, hrun, hla, hE, h7⟩
  have := exPin_value fs E t p n la hf hrun hla hE
  rw [this] at h7
  cases h7

end Trion.Asm
