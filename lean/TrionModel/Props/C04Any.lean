import TrionModel.Lemmas.C04Frame
import TrionModel.Props.C04Text
/-!
# C04 closed on text — ANY spelling of the statement that is a sequence of white space and tokens

`Props/C04Text.lean` closes C04 on the canonical spelling `Show.render`.  Here the instruction statement is ANY list of
pieces `ps` (`Lex.Piece`: runs of white space — blanks, tabs, line feeds — and single tokens: punctuation, identifiers in
any letter case, numbers in any radix `0b… 0o… 0x…`) that is `Lex.Valid` and whose token values are
`name <operands> ;` where the operands are ANY way of writing trees with redundant parentheses (`as : PArgs`,
`Render.pargs`, C09): general expressions, `( … )` anywhere, `[ … ]`, `{ … }`.  The text is
`progTextP A defs ps` = `.addr A;⏎`, the definitions, then the bytes of the pieces.

Still outside (`_partial` w.r.t. the framing lemma asked for): statement texts with comments, character literals or
strings (they are not `Piece`s), and the formulation "whatever `Parse` reads as one instruction statement" (here: the
token values are a rendering of some parenthesised operand trees — which every parsed statement is, but that converse of
C09 is not proved).
-/
namespace Trion.C04
open Trion Trion.Front

/-- `.addr <A>;⏎.const <n>, <v>;⏎…` followed by the bytes of the statement's pieces -/
def progTextP (A : Nat) (defs : List (Bytes × Arg)) (ps : List Lex.Piece) : Bytes :=
  ((preStmts A defs).map fun p => bytesOf "." ++ Show.render p ++ [10]).flatten ++ Lex.pbytes ps

/-- C04a.a  **The tokenizer and parser read the program text as the program**, for any spelling of the statement by
pieces (see the header). -/
theorem parseFile_pieces (A : Nat) (hA : A < 4294967296) (defs : List (Bytes × Arg))
    (hdefs : ∀ d ∈ defs, Lex.identOk d.1 = true ∧ Show.Opnd d.2) (ps : List Lex.Piece) (hv : Lex.Valid ps none)
    (name : Bytes) (as : PArgs) (haswf : as.wf)
    (hvals : Lex.tokVals ps = .ident name :: Render.pargs as ++ [.term]) :
    ∃ els, Asm.parseFile (progTextP A defs ps) = .ok (els, none) ∧
      els.map (·.val) = progVals A defs name as.erase := by
  have hpre : ∀ p ∈ preStmts A defs, Lex.identOk p.1 = true ∧ ∀ x ∈ p.2, Show.Opnd x := by
    intro p hp
    simp only [preStmts, List.mem_cons, List.mem_map] at hp
    rcases hp with rfl | ⟨d, hd, rfl⟩
    · refine ⟨by dsimp only; decide, ?_⟩
      intro x hx; simp at hx; subst hx
      exact Show.opnd_const _ ⟨by omega, by simp [i64Max]; omega⟩
    · refine ⟨by dsimp only; decide, ?_⟩
      intro x hx; simp at hx
      rcases hx with rfl | rfl
      · exact Show.opnd_ident _ (hdefs d hd).1
      · exact (hdefs d hd).2
  let pieces : List Lex.Piece := ((preStmts A defs).map fun p => Show.dirPieces p ++ [Show.nl]).flatten ++ ps
  let evs : List ElemVal := (preStmts A defs).map (fun p => ElemVal.directive p.1 (Args.ofList p.2))
  have hvalid : Lex.Valid pieces none := Show.valid_flat _ hpre _ none hv
  have hb : Lex.pbytes pieces = progTextP A defs ps := by
    simp only [pieces, progTextP, Lex.pbytes_append, Show.pbytes_flat _ (fun p hp => (hpre p hp).2)]
  have hvs : (Lex.lexed (1, 1) pieces).map (·.val) =
      (evs.map Render.elemVal).flatten ++ (.ident name :: Render.pargs as ++ [.term]) := by
    rw [Lex.lexed_vals]
    simp only [pieces, evs, Lex.tokVals_append, Show.tokVals_flat _ (fun p hp => (hpre p hp).2), hvals]
  have hwf : ∀ ev ∈ evs, ev.wf := by
    intro ev hev
    simp only [evs, List.mem_map] at hev
    obtain ⟨p, hp, rfl⟩ := hev
    exact Show.dir_wf p (hpre p hp).1 (hpre p hp).2
  have hlex := Lex.tokens_pieces _ hvalid
  rw [hb] at hlex
  obtain ⟨els, last, hall, hels, hlast⟩ := Parse.all_of_vals_then evs hwf name as haswf _ hvs
    (Pos.adv (1, 1) (progTextP A defs ps)).1 (Pos.adv (1, 1) (progTextP A defs ps)).2
  refine ⟨els ++ [last], by simp [Asm.parseFile, hlex, hall], ?_⟩
  rw [List.map_append, hels]
  simp [evs, progVals, preStmts, constStmt, List.map_map, Function.comp_def, hlast]

/-- C04a.b  **Success, any spelling.** -/
theorem run_any (fs : Bytes → Option Bytes) (main : Bytes) (A : Nat) (defs : List (Bytes × Arg))
    (hdefsok : ∀ d ∈ defs, Lex.identOk d.1 = true ∧ Show.Opnd d.2) (ps : List Lex.Piece) (hv : Lex.Valid ps none)
    (name : Bytes) (as : PArgs) (haswf : as.wf)
    (hvals : Lex.tokVals ps = .ident name :: Render.pargs as ++ [.term])
    (hfs : fs main = some (progTextP A defs ps))
    (tbl : Asm.Table) (hdefs : defsTable defs [] = some tbl)
    (i : Instr) (hmeans : means (tabOf tbl) A name as.erase.toList = some i) (hwf : i.wf)
    (hws : List Nat) (he : Codec.encode i = .ok hws) (hfit : A + 2 * hws.length ≤ 4294967296) :
    Asm.run fs main = .done ⟨true, none, true, [], [(A, (Codec.toBytes hws).map (·.toUInt8))]⟩ ∧
    Arm.decode hws = some i := by
  have hlen := (Codec.enc_len i hws he hwf).1
  obtain ⟨els, hp, hels⟩ := parseFile_pieces A (by omega) defs hdefsok ps hv name as haswf hvals
  exact run_defs_stmt fs main _ hfs els hp A defs name as.erase hels tbl hdefs i hmeans hwf hws he hfit

/-- C04a.c  **Diagnosed, any spelling** (known or unknown mnemonic). -/
theorem run_any_diag (fs : Bytes → Option Bytes) (main : Bytes) (A : Nat) (hA : A < 4294967296) (defs : List (Bytes × Arg))
    (hdefsok : ∀ d ∈ defs, Lex.identOk d.1 = true ∧ Show.Opnd d.2) (ps : List Lex.Piece) (hv : Lex.Valid ps none)
    (name : Bytes) (as : PArgs) (haswf : as.wf)
    (hvals : Lex.tokVals ps = .ident name :: Render.pargs as ++ [.term])
    (hfs : fs main = some (progTextP A defs ps))
    (tbl : Asm.Table) (hdefs : defsTable defs [] = some tbl)
    (hw : ∀ t, mnemonic name = some t → wellFormed (tabOf tbl) (sig t) as.erase.toList ∧
      ∀ vs, denoteAll (tabOf tbl) (sig t) as.erase.toList = some vs → ¬ svQuirk t vs)
    (hno : ∀ i hws, ¬ (means (tabOf tbl) A name as.erase.toList = some i ∧ i.wf ∧ Codec.encode i = .ok hws)) :
    ∃ els el o, Asm.parseFile (progTextP A defs ps) = .ok (els, none) ∧ el ∈ els ∧
      el.val = .instruction name as.erase ∧ Asm.run fs main = .done o ∧ o.success = false ∧ o.diags ≠ [] ∧
      ∀ d ∈ o.diags, d.file = main ∧ d.line = el.line ∧ d.col = el.col := by
  obtain ⟨els, hp, hels⟩ := parseFile_pieces A hA defs hdefsok ps hv name as haswf hvals
  obtain ⟨el, o, h1, h2, h3⟩ := run_defs_stmt_diag_any fs main _ hfs els hp A hA defs name as.erase hels tbl hdefs hw hno
  exact ⟨els, el, o, hp, h1, h2, h3⟩

end Trion.C04
