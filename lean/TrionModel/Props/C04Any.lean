import TrionModel.Lemmas.C04Frame
import TrionModel.Props.C04Text
import TrionModel.Props.C04Mix
/-!
# C04 closed on text — ANY spelling of the statement that is a sequence of white space and tokens

`Props/C04Text.lean` closes C04 on the canonical spelling `Show.render`.  Here the instruction statement is ANY list of
pieces `ps` (`Lex.Piece`: runs of white space — blanks, tabs, line feeds — and single tokens: punctuation, identifiers in
any letter case, numbers in any radix `0b… 0o… 0x…`) that is `Lex.Valid` and whose token values are
`name <operands> ;` where the operands are ANY way of writing trees with redundant parentheses (`as : PArgs`,
`Render.pargs`, C09): general expressions, `( … )` anywhere, `[ … ]`, `{ … }`.  The text is
`progTextP A defs ps` = `.addr A;⏎`, the definitions, then the bytes of the pieces.

Still outside (`_partial` w.r.t. the framing lemma asked for): statement texts with comments, character literals or
strings (they are not `Piece`s), and the formulation "whatever `Parse` reads as one instruction statement" (here: the
token values are a rendering of some parenthesised operand trees — which every parsed statement is, but that converse of
C09 is not proved).
-/
namespace Trion.C04
open Trion Trion.Front

/-- `.addr <A>;⏎.const <n>, <v>;⏎…` followed by the bytes of the statement's pieces -/
def progTextP (A : Nat) (defs : List (Bytes × Arg)) (ps : List Lex.Piece) : Bytes :=
  ((preStmts A defs).map fun p => bytesOf "." ++ Show.render p ++ [10]).flatten ++ Lex.pbytes ps

/-- C04a.a  **The tokenizer and parser read the program text as the program**, for any spelling of the statement by
pieces (see the header). -/
theorem parseFile_pieces (A : Nat) (hA : A < 4294967296) (defs : List (Bytes × Arg))
    (hdefs : ∀ d ∈ defs, Lex.identOk d.1 = true ∧ Show.Opnd d.2) (ps : List Lex.Piece) (hv : Lex.Valid ps none)
    (name : Bytes) (as : PArgs) (haswf : as.wf)
    (hvals : Lex.tokVals ps = .ident name :: Render.pargs as ++ [.term]) :
    ∃ els, Asm.parseFile (progTextP A defs ps) = .ok (els, none) ∧
      els.map (·.val) = progVals A defs name as.erase := by
  have hpre : ∀ p ∈ preStmts A defs, Lex.identOk p.1 = true ∧ ∀ x ∈ p.2, Show.Opnd x := by
    intro p hp
    simp only [preStmts, List.mem_cons, List.mem_map] at hp
    rcases hp with rfl | ⟨d, hd, rfl⟩
    · refine ⟨by dsimp only; decide, ?_⟩
      intro x hx; simp at hx; subst hx
      exact Show.opnd_const _ ⟨by omega, by simp [i64Max]; omega⟩
    · refine ⟨by dsimp only; decide, ?_⟩
      intro x hx; simp at hx
      rcases hx with rfl | rfl
      · exact Show.opnd_ident _ (hdefs d hd).1
      · exact (hdefs d hd).2
  let pieces : List Lex.Piece := ((preStmts A defs).map fun p => Show.dirPieces p ++ [Show.nl]).flatten ++ ps
  let evs : List ElemVal := (preStmts A defs).map (fun p => ElemVal.directive p.1 (Args.ofList p.2))
  have hvalid : Lex.Valid pieces none := Show.valid_flat _ hpre _ none hv
  have hb : Lex.pbytes pieces = progTextP A defs ps := by
    simp only [pieces, progTextP, Lex.pbytes_append, Show.pbytes_flat _ (fun p hp => (hpre p hp).2)]
  have hvs : (Lex.lexed (1, 1) pieces).map (·.val) =
      (evs.map Render.elemVal).flatten ++ (.ident name :: Render.pargs as ++ [.term]) := by
    rw [Lex.lexed_vals]
    simp only [pieces, evs, Lex.tokVals_append, Show.tokVals_flat _ (fun p hp => (hpre p hp).2), hvals]
  have hwf : ∀ ev ∈ evs, ev.wf := by
    intro ev hev
    simp only [evs, List.mem_map] at hev
    obtain ⟨p, hp, rfl⟩ := hev
    exact Show.dir_wf p (hpre p hp).1 (hpre p hp).2
  have hlex := Lex.tokens_pieces _ hvalid
  rw [hb] at hlex
  obtain ⟨els, last, hall, hels, hlast⟩ := Parse.all_of_vals_then evs hwf name as haswf _ hvs
    (Pos.adv (1, 1) (progTextP A defs ps)).1 (Pos.adv (1, 1) (progTextP A defs ps)).2
  refine ⟨els ++ [last], by simp [Asm.parseFile, hlex, hall], ?_⟩
  rw [List.map_append, hels]
  simp [evs, progVals, preStmts, constStmt, List.map_map, Function.comp_def, hlast]

/-- C04a.b  **Success, any spelling.** -/
theorem run_any (fs : Bytes → Option Bytes) (main : Bytes) (A : Nat) (defs : List (Bytes × Arg))
    (hdefsok : ∀ d ∈ defs, Lex.identOk d.1 = true ∧ Show.Opnd d.2) (ps : List Lex.Piece) (hv : Lex.Valid ps none)
    (name : Bytes) (as : PArgs) (haswf : as.wf)
    (hvals : Lex.tokVals ps = .ident name :: Render.pargs as ++ [.term])
    (hfs : fs main = some (progTextP A defs ps))
    (tbl : Asm.Table) (hdefs : defsTable defs [] = some tbl)
    (i : Instr) (hmeans : means (tabOf tbl) A name as.erase.toList = some i) (hwf : i.wf)
    (hws : List Nat) (he : Codec.encode i = .ok hws) (hfit : A + 2 * hws.length ≤ 4294967296) :
    Asm.run fs main = .done ⟨true, none, true, [], [(A, (Codec.toBytes hws).map (·.toUInt8))]⟩ ∧
    Arm.decode hws = some i := by
  have hlen := (Codec.enc_len i hws he hwf).1
  obtain ⟨els, hp, hels⟩ := parseFile_pieces A (by omega) defs hdefsok ps hv name as haswf hvals
  exact run_defs_stmt fs main _ hfs els hp A defs name as.erase hels tbl hdefs i hmeans hwf hws he hfit

/-- C04a.c  **Diagnosed, any spelling** (known or unknown mnemonic). -/
theorem run_any_diag (fs : Bytes → Option Bytes) (main : Bytes) (A : Nat) (hA : A < 4294967296) (defs : List (Bytes × Arg))
    (hdefsok : ∀ d ∈ defs, Lex.identOk d.1 = true ∧ Show.Opnd d.2) (ps : List Lex.Piece) (hv : Lex.Valid ps none)
    (name : Bytes) (as : PArgs) (haswf : as.wf)
    (hvals : Lex.tokVals ps = .ident name :: Render.pargs as ++ [.term])
    (hfs : fs main = some (progTextP A defs ps))
    (tbl : Asm.Table) (hdefs : defsTable defs [] = some tbl)
    (hw : ∀ t, mnemonic name = some t → wellFormed (tabOf tbl) (sig t) as.erase.toList ∧
      ∀ vs, denoteAll (tabOf tbl) (sig t) as.erase.toList = some vs → ¬ svQuirk t vs)
    (hno : ∀ i hws, ¬ (means (tabOf tbl) A name as.erase.toList = some i ∧ i.wf ∧ Codec.encode i = .ok hws)) :
    ∃ els el o, Asm.parseFile (progTextP A defs ps) = .ok (els, none) ∧ el ∈ els ∧
      el.val = .instruction name as.erase ∧ Asm.run fs main = .done o ∧ o.success = false ∧ o.diags ≠ [] ∧
      ∀ d ∈ o.diags, d.file = main ∧ d.line = el.line ∧ d.col = el.col := by
  obtain ⟨els, hp, hels⟩ := parseFile_pieces A hA defs hdefsok ps hv name as haswf hvals
  obtain ⟨el, o, h1, h2, h3⟩ := run_defs_stmt_diag_any fs main _ hfs els hp A hA defs name as.erase hels tbl hdefs hw hno
  exact ⟨els, el, o, hp, h1, h2, h3⟩

/-! ## non-vacuity: `LDR\tr0 ,[(0x4) + sp]` then a line feed and `;` — tab, hex literal, redundant parentheses, odd spacing -/

def exPieces : List Lex.Piece :=
  [.tok (bytesOf "LDR") (.ident (bytesOf "LDR")), .ws [9], .tok (bytesOf "r0") (.ident (bytesOf "r0")), .ws [32],
   .tok [44] .sep, .tok [91] .lbrack, .tok [40] .lparen, .tok (bytesOf "0x4") (.num 4), .tok [41] .rparen, .ws [32],
   .tok [43] .plus, .ws [32], .tok (bytesOf "sp") (.ident (bytesOf "sp")), .tok [93] .rbrack, .ws [10], .tok [59] .term]

def exPArgs : PArgs :=
  .cons (.ident (bytesOf "r0")) (.cons (.addr (.bin .add (.paren (.const 4)) (.ident (bytesOf "sp")))) .nil)

example : Lex.pbytes exPieces = bytesOf "LDR\tr0 ,[(0x4) + sp]\n;" ∧
    Lex.tokVals exPieces = .ident (bytesOf "LDR") :: Render.pargs exPArgs ++ [.term] ∧
    exPArgs.erase = Args.ofList [.ident (bytesOf "r0"), .addr (.bin .add (.const 4) (.ident (bytesOf "sp")))] := by
  refine ⟨by decide, by decide, rfl⟩

theorem exPieces_valid : Lex.Valid exPieces none := by
  have F : ∀ (c : UInt8), Lex.isIdentByte c = false → Lex.Follow (some c) := fun c hc b hb => by cases hb; exact hc
  refine ⟨.ident _ _ (by decide) (F 9 (by decide)), by decide,
    .ident _ _ (by decide) (F 32 (by decide)), by decide,
    .punct 44 _ _ (by decide) (by decide), .punct 91 _ _ (by decide) (by decide), .punct 40 _ _ (by decide) (by decide),
    ?_, .punct 41 _ _ (by decide) (by decide), by decide, .punct 43 _ _ (by decide) (by decide), by decide,
    .ident _ _ (by decide) (F 93 (by decide)), .punct 93 _ _ (by decide) (by decide), by decide,
    .punct 59 _ _ (by decide) (by decide), trivial⟩
  exact Lex.TokOk.num 16 (bytesOf "4") 4 _ (by decide) (by decide) (by decide) (by decide) (F 41 (by decide))

theorem exPArgs_wf : exPArgs.wf := by
  refine ⟨?_, ⟨⟨?_, ?_⟩, ?_⟩, trivial⟩
  · show bytesOf "r0" ≠ []; decide
  · show (0 : Int) ≤ 4; decide
  · show (4 : Int) ≤ i64Max; decide
  · show bytesOf "sp" ≠ []; decide

/-- the file `.addr 0;⏎LDR⇥r0 ,[(0x4) + sp]⏎;` assembles to `01 98` at 0 -/
example : Asm.run (fun _ => some (bytesOf ".addr 0;\nLDR\tr0 ,[(0x4) + sp]\n;")) [] =
    .done ⟨true, none, true, [], [(0, (Codec.toBytes [0x9801]).map (·.toUInt8))]⟩ := by
  have ht : progTextP 0 [] exPieces = bytesOf ".addr 0;\nLDR\tr0 ,[(0x4) + sp]\n;" := by decide
  exact (run_any (fun _ => some (bytesOf ".addr 0;\nLDR\tr0 ,[(0x4) + sp]\n;")) [] 0 [] (by simp) exPieces exPieces_valid
    (bytesOf "LDR") exPArgs exPArgs_wf (by decide) (by rw [ht]) [] rfl
    (.ldr 0 13 (.imm 4)) (by decide) (by decide) [0x9801] rfl (by decide)).1

/-- C04a.d  **Any spelling, extended operands: assembled to the meaning or diagnosed at the statement** (`run_defs_stmt2`
on the program text `progTextP A defs ps`). -/
theorem run_any2 (fs : Bytes → Option Bytes) (main : Bytes) (A : Nat) (hA : A < 4294967296) (defs : List (Bytes × Arg))
    (hdefsok : ∀ d ∈ defs, Lex.identOk d.1 = true ∧ Show.Opnd d.2) (ps : List Lex.Piece) (hv : Lex.Valid ps none)
    (name : Bytes) (as : PArgs) (haswf : as.wf)
    (hvals : Lex.tokVals ps = .ident name :: Render.pargs as ++ [.term])
    (hfs : fs main = some (progTextP A defs ps))
    (tbl : Asm.Table) (hdefs : defsTable defs [] = some tbl)
    (t : Instr) (hm : mnemonic name = some t) (hw : wellFormed2 (tabOf tbl) (sig t) as.erase.toList)
    (hq : ∀ vs, denoteAll2 (tabOf tbl) (sig t) as.erase.toList = some vs → ¬ svQuirk t vs) :
    (∃ i hws, means2 (tabOf tbl) A name as.erase.toList = some i ∧ i.wf ∧ Codec.encode i = .ok hws ∧ Arm.decode hws = some i ∧
      (A + 2 * hws.length ≤ 4294967296 →
        Asm.run fs main = .done ⟨true, none, true, [], [(A, (Codec.toBytes hws).map (·.toUInt8))]⟩)) ∨
    (∃ els el o, Asm.parseFile (progTextP A defs ps) = .ok (els, none) ∧ el ∈ els ∧ el.val = .instruction name as.erase ∧
      Asm.run fs main = .done o ∧ o.success = false ∧ o.diags ≠ [] ∧
      ∀ d ∈ o.diags, d.file = main ∧ d.line = el.line ∧ d.col = el.col) := by
  obtain ⟨els, hp, hels⟩ := parseFile_pieces A hA defs hdefsok ps hv name as haswf hvals
  rcases run_defs_stmt2 fs main _ hfs els hp A hA defs name as.erase hels tbl hdefs t hm hw hq with h | ⟨el, o, h⟩
  · exact .inl h
  · exact .inr ⟨els, el, o, hp, h⟩

end Trion.C04