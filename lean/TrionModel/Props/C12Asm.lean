import TrionModel.Model.Asm
import TrionModel.Props.C12Parse
import TrionModel.Lemmas.AsmStmtPos
import TrionModel.Lemmas.AsmDiagSrc
/-!
# C12 (pipeline clause) — a diagnostic raised for a statement carries the statement's file, line and column

Model: `Trion.Asm` (Model/Asm.lean).  `Parse.stmt_pos` (Props/C12Parse.lean) says an element carries the line and
column of its first token; `Asm.statement` hands exactly `el.line`/`el.col` to every directive and to
`Arm6M::assemble`, and `push_error` adds the name of the file being read (`env.curName`).

`diag_pos` (full): whatever a statement other than `.include` adds to the context — diagnostics, and the tasks it
queues for a later retry — carries `⟨env.curName, el.line, el.col⟩`; `diag_pos_task`: whatever a task adds when it
runs (diagnostics, the re-queued task) carries the position the task was created with (`.global`'s closure stores
line and column and reports in the file whose loop runs it, which is the file that queued it); `diag_pos_include`:
`.include` adds the included file's own diagnostics (which carry that file's positions, by the same theorems one
level down) and at most the final `AssemblyFailed` diagnostic at its own position.  The older `diag_pos_partial`
(at most ONE diagnostic for the statements that neither defer nor include) is kept.
-/
namespace Trion.Asm
open Trion

/-- nothing new, or exactly one diagnostic at the given position -/
def AtMostOneAt (file : Bytes) (line col : Nat) (st st' : St) : Prop :=
  st'.errors = st.errors ∨ ∃ k, st'.errors = ⟨file, line, col, k⟩ :: st.errors

theorem evalStrict_pos {dir : String} {env : Env} {st st' : St} {line col : Nat} {a : Arg} {r : Res}
    (h : evalStrict dir env st line col a = .ok (.error (st', r))) : AtMostOneAt env.curName line col st st' := by
  unfold evalStrict at h
  repeat' split at h
  all_goals (first | (cases h; done) | (cases h; exact .inr ⟨_, rfl⟩))

/-- C12.diag_pos, `.addr` -/
theorem addr_diag_pos {env : Env} {st st' : St} {line col : Nat} {args : List Arg} {r : Res}
    (h : addrDirective env st line col args = .ok (st', r)) : AtMostOneAt env.curName line col st st' := by
  unfold addrDirective at h
  repeat' split at h
  all_goals (first | (cases h; done) | (cases h; exact .inr ⟨_, rfl⟩) | (cases h; exact .inl rfl) | (cases h; exact evalStrict_pos ‹evalStrict _ _ _ _ _ _ = _›))

/-- C12.diag_pos, `.const` -/
theorem const_diag_pos {env : Env} {st st' : St} {line col : Nat} {args : List Arg} {r : Res}
    (h : constDirective env st line col args = .ok (st', r)) : AtMostOneAt env.curName line col st st' := by
  unfold constDirective at h
  repeat' split at h
  all_goals (first | (cases h; done) | (cases h; exact .inr ⟨_, rfl⟩) | (cases h; exact .inl rfl) | (cases h; exact evalStrict_pos ‹evalStrict _ _ _ _ _ _ = _›) | (cases h; exact .inl (insertConstant_errs ‹insertConstant _ _ _ _ = _›)) | (cases h; exact .inr ⟨_, congrArg (List.cons _) (insertConstant_errs ‹insertConstant _ _ _ _ = _›)⟩))

theorem appendData_pos {dir : String} {env : Env} {st st' : St} {line col : Nat} {d : Bytes} {r : Res}
    (h : appendData dir env st line col d = .ok (st', r)) : AtMostOneAt env.curName line col st st' := by
  unfold appendData at h
  repeat' split at h
  all_goals (first | (cases h; done) | (cases h; exact .inr ⟨_, rfl⟩) | (cases h; exact .inl rfl))

/-- C12.diag_pos, `.dhex` / `.dstr` / `.dfile` -/
theorem string_diag_pos {fs : Bytes → Option Bytes} {dir : String} {env : Env} {st st' : St} {line col : Nat}
    {args : List Arg} {r : Res}
    (h : stringDirective fs dir env st line col args = .ok (st', r)) : AtMostOneAt env.curName line col st st' := by
  unfold stringDirective at h
  repeat' split at h
  all_goals (first | (cases h; done) | exact appendData_pos h | (cases h; exact .inr ⟨_, rfl⟩) | (cases h; exact .inl rfl))

/-- C12.diag_pos (partial), whole statements: a label, an instruction outside a region, an unknown directive and
the directives `.addr .const .dhex .dstr .dfile` raise at most one diagnostic, and it carries the name
of the file being read and the line and column of the element — which by `Parse.stmt_pos` are the line and
column of the statement's first token. -/
theorem diag_pos_partial {fs : Bytes → Option Bytes} {enc : Encoder} {inc : Inc} {env : Env} {st st' : St}
    {el : Element} {r : Res} (h : statement fs enc inc env st el = .ok (st', r))
    (hk : (∃ n, el.val = .label n) ∨ (∃ n as, el.val = .instruction n as ∧ st.seg.active.isNone = true) ∨
      ∃ n as, el.val = .directive n as ∧
        n ∉ [bytesOf "align", bytesOf "du8", bytesOf "du16", bytesOf "du32", bytesOf "global", bytesOf "import",
              bytesOf "export", bytesOf "include"]) :
    AtMostOneAt env.curName el.line el.col st st' := by
  unfold statement at h
  rcases hk with ⟨n, hn⟩ | ⟨n, as, hn, ha⟩ | ⟨n, as, hn, hnot⟩
  · rw [hn] at h
    simp only at h
    repeat' split at h
    all_goals (first | (cases h; done) | (cases h; exact .inr ⟨_, rfl⟩) | (cases h; exact .inl (insertConstant_errs ‹insertConstant _ _ _ _ = _›)) | (cases h; exact .inr ⟨_, congrArg (List.cons _) (insertConstant_errs ‹insertConstant _ _ _ _ = _›)⟩))
  · rw [hn] at h
    simp only [ha, if_true] at h
    cases h
    exact .inr ⟨_, rfl⟩
  · rw [hn] at h
    simp only at h
    simp only [List.mem_cons, List.not_mem_nil, or_false, not_or] at hnot
    obtain ⟨hal, h1, h2, h3, h4, h5, h6, h7⟩ := hnot
    delta directive at h
    by_cases c0 : n = bytesOf "addr"
    · rw [if_pos c0] at h; exact addr_diag_pos h
    rw [if_neg c0] at h
    rw [if_neg hal] at h
    by_cases c2 : n = bytesOf "const"
    · rw [if_pos c2] at h; exact const_diag_pos h
    rw [if_neg c2, if_neg h1, if_neg h2, if_neg h3] at h
    by_cases c3 : n = bytesOf "dhex"
    · rw [if_pos c3] at h; exact string_diag_pos h
    rw [if_neg c3] at h
    by_cases c4 : n = bytesOf "dstr"
    · rw [if_pos c4] at h; exact string_diag_pos h
    rw [if_neg c4] at h
    by_cases c5 : n = bytesOf "dfile"
    · rw [if_pos c5] at h; exact string_diag_pos h
    rw [if_neg c5, if_neg h4, if_neg h5, if_neg h6, if_neg h7] at h
    cases h
    exact .inr ⟨_, rfl⟩

/-- C12.diag_pos, the parser's error: `do_assemble` reports it at the position the parser gave it -/
theorem parse_error_pos {fs : Bytes → Option Bytes} {enc : Encoder} {inc : Inc} {env : Env} {st : St} (e : ParseErr) :
    doAssemble fs enc inc env [] (some e) st = .ok (st.push env e.line e.col (.parse e.kind), .err .fatal) := rfl

def DataExpr.samePos (d d' : DataExpr) : Prop := d'.file = d.file ∧ d'.line = d.line ∧ d'.col = d.col

theorem writeData_keeps_pos {d d' : DataExpr} {st st' : St} {bytes : Bytes} {r : Res}
    (h : d.writeData st bytes = .ok (d', st', r)) : d.samePos d' := by
  unfold DataExpr.writeData at h
  repeat' split at h
  all_goals (first | (cases h; done) | (cases h; exact ⟨rfl, rfl, rfl⟩))

theorem writer_keeps_pos {d d' : DataExpr} {st st' : St} {r : Res}
    (h : d.writer st = .ok (d', st', r)) : d.samePos d' := by
  unfold DataExpr.writer at h
  repeat' split at h
  all_goals (first | exact writeData_keeps_pos h | (cases h; exact ⟨rfl, rfl, rfl⟩))

/-- a retried statement keeps the position it was created with (`DataExpr`): `apply` changes `arg` and `placed` only -/
theorem data_keeps_pos {d d' : DataExpr} {env : Env} {st st' : St} {loc : Bool} {op : Op}
    (h : d.apply env st loc = .ok (d', st', op)) : d.samePos d' := by
  unfold DataExpr.apply at h
  repeat' split at h
  all_goals (first | (cases h; done) | (cases h; exact ⟨rfl, rfl, rfl⟩) | (cases h; rename_i hw; have k := writer_keeps_pos hw; exact k))


/-- C12.diag_pos  Every diagnostic that is recorded and every task that is queued while a statement other than
`.include` is processed carries the name of the file being read and the line and column of the element, which
(`Parse.stmt_pos`) are the line and column of the statement's first token.  (`Eff f l c st st'`: every diagnostic
of `st'` is one of `st` or is at `(f, l, c)`; likewise for both task queues.) -/
theorem diag_pos {fs : Bytes → Option Bytes} {enc : Encoder} {inc : Inc} {env : Env} {st st' : St} {el : Element} {r : Res}
    (hni : ∀ as, el.val ≠ .directive (bytesOf "include") as)
    (h : statement fs enc inc env st el = .ok (st', r)) : Eff env.curName el.line el.col st st' :=
  statement_eff hni _ _ h

/-- C12.diag_pos, deferred statements: when a queued task runs (end of the file, end of the includer, `finalize`),
every diagnostic it records and the task it re-queues carry the position stored in the task — by `diag_pos` the
position of the statement that queued it. -/
theorem diag_pos_task {enc : Encoder} {env : Env} {st st' : St} {t : Task} {f : Bytes} {l c : Nat} {r : Res}
    (ht : t.at f l c) (hf : ∀ n l' c', t = .globalCopy n l' c' → f = env.curName)
    (h : runTask enc env st t = .ok (st', r)) : Eff f l c st st' :=
  runTask_eff ht hf _ _ h

/-- C12.diag_pos, `.include`: apart from what the included file records itself, the statement adds at most the
final diagnostic at its own position. -/
theorem diag_pos_include {fs : Bytes → Option Bytes} {inc : Inc} {env : Env} {st st' : St} {line col : Nat}
    {args : List Arg} {r : Res} (h : includeDirective fs inc env st line col args = .ok (st', r)) :
    Eff env.curName line col st st' ∨
    ∃ data path st1 r1, fs path = some data ∧ inc env st data path = .ok (st1, r1) ∧ Eff env.curName line col st1 st' :=
  includeDirective_eff _ _ h

-- non-vacuity: a `.du8` with an unknown name queues a task at the statement's position
example : (Task.data ⟨.u8, [109], 3, 5, 0, .ident [120], true⟩ false).at [109] 3 5 := ⟨rfl, rfl, rfl⟩

-- non-vacuity: `.addr "x";` at 3:5 of file `m` raises exactly one diagnostic there
example : ∃ k, (addrDirective ⟨[[109]], [109]⟩ { St.init with locals := some [], localTasks := some [] } 3 5 [.str [120]]) =
    .ok (({ St.init with locals := some [], localTasks := some [] } : St).pushIn [109] 3 5 k, .err .trivial) := ⟨_, rfl⟩

/-- C12.diag_pos_run  The whole-run statement, aggregated from `diag_pos` (statements), `diag_pos_task` (retries and the
closures of `.global`, run by the loop of the file that queued them or — rescheduled — by the includer's loop or
`finalize`) and `diag_pos_include` (the recursion), over every include depth, both task loops and `finalize`
(Lemmas/AsmDiagSrc.lean, invariant `Psrc`):

for every project `fs`, every main file and every outcome of `run`, EVERY recorded diagnostic `d` names a file of the
project, `fs d.file = some text`, and — with `els`, `err` what that text parses into (`Parse.all (Lex.tokens text)`) —
either `(d.line, d.col)` is the position `(el.line, el.col)` of one of the statements `el ∈ els` (which by
`Parse.stmt_pos` is the position of the statement's first token), or `d` is the report of the tokenizer / parser error
`err = some e` that ended the file, at the error's own position `(e.line, e.col)` (`parse_error_pos`). -/
theorem diag_pos_run (fs : Bytes → Option Bytes) (main : Bytes) (o : Outcome) (h : run fs main = .done o) :
    ∀ d ∈ o.diags, ∃ text lo els err, fs d.file = some text ∧ Lex.tokens text = .ok lo ∧ Parse.all lo = .done els err ∧
      ((∃ el ∈ els, d.line = el.line ∧ d.col = el.col) ∨
       ∃ e, err = some e ∧ d.line = e.line ∧ d.col = e.col ∧ ∃ k, d.kind = .parse k) := by
  have hinit : Psrc fs none none St.init :=
    ⟨(fun _ hd => by simp [St.init] at hd), (fun _ ht => by simp [St.init] at ht), (fun _ hq => by simp [St.init] at hq)⟩
  unfold run runWith at h
  split at h
  · cases h
  · rename_i data hdata
    split at h
    · rename_i st res ha
      have w : Psrc fs none none st := assembleFile_src_main rfl rfl hdata hinit ha
      split at h
      · cases h
        intro d hd
        exact w.errs d (by simpa using hd)
      · cases h
      · split at h
        · rename_i st' fin hf
          cases h
          have key : ∀ (s : St) st' fin, finalize encoder Env.init s = .ok (st', fin) → s.errors = st.errors →
              s.globalTasks = st.globalTasks → s.localTasks = st.localTasks → Psrc fs none none st' :=
            fun s st' fin hf he hg hl => finalize_src (fs := fs) ⟨he ▸ w.errs, hg ▸ w.gt, hl ▸ w.lt⟩ hf
          have w2 := key _ _ _ hf rfl rfl rfl
          intro d hd
          exact w2.errs d (by simpa using hd)
        all_goals cases h
    all_goals cases h

-- non-vacuity of `diag_pos_run`: the parse error that ends a file is reported at its own position, with kind `parse`
example (fs : Bytes → Option Bytes) (enc : Encoder) (inc : Inc) (env : Env) (st : St) (e : ParseErr) :
    ∃ st', doAssemble fs enc inc env [] (some e) st = .ok (st', .err .fatal) ∧
      st'.errors = ⟨env.curName, e.line, e.col, .parse e.kind⟩ :: st.errors := ⟨_, rfl, rfl⟩

end Trion.Asm
