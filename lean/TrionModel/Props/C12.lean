import TrionModel.Lemmas.LexPos
/-!
# C12 — reported source positions point at the item (tokenizer half)

Specification `Trion.Pos.of` (`Spec/Pos.lean`): the position of the item that follows the text `pre` is
`(1 + number of line feeds in pre, 1 + number of non-continuation bytes after the last line feed)`.
-/
namespace Trion.Pos

/-- C12.a  `lastLine` is the text after the last line feed: it contains no line feed, and what precedes
it is empty or ends in a line feed. -/
theorem lastLine_spec (d : Bytes) :
    ∃ pre, d = pre ++ lastLine d ∧ countLF (lastLine d) = 0 ∧ (pre = [] ∨ ∃ p b, pre = p ++ [b] ∧ b.toNat = 10) := by
  induction d with
  | nil => exact ⟨[], rfl, rfl, Or.inl rfl⟩
  | cons b d ih =>
    obtain ⟨pre, hd, hc, hp⟩ := ih
    by_cases hd0 : countLF d > 0
    · refine ⟨b :: pre, ?_, ?_, ?_⟩
      · simp only [lastLine, hd0, if_true]; rw [List.cons_append, ← hd]
      · simpa [lastLine, hd0] using hc
      · right
        rcases hp with rfl | ⟨p, x, rfl, hx⟩
        · exfalso
          simp at hd; rw [← hd] at hc; omega
        · exact ⟨b :: p, x, by simp, hx⟩
    · have h0 : countLF d = 0 := by omega
      by_cases hb : b.toNat = 10
      · exact ⟨[b], by simp [lastLine, h0, hb], by simp [lastLine, h0, hb], Or.inr ⟨[], b, rfl, hb⟩⟩
      · refine ⟨[], by simp [lastLine, h0, hb], ?_, Or.inl rfl⟩
        simp only [lastLine, h0, hb]
        simp [countLF_cons, hb, h0]

/-- C12.b  The specification composes: the position after `a ++ b` is the position after `a` advanced
byte-wise over `b` (`Pos.step`: line feed → next line, column 1; continuation byte → unchanged;
any other byte → next column). -/
theorem of_compose (a b : Bytes) : Pos.of (a ++ b) = adv (Pos.of a) b := of_append a b

example : Pos.of (bytesOf "ab\n\tc") = (2, 3) := by decide
example : Pos.of [0x61, 0xC3, 0xA9, 0x0A, 0xE2, 0x82, 0xAC, 0x20] = (2, 3) := by decide

end Trion.Pos

namespace Trion.Lex
open Trion.Pos (adv)

/-- C12.c  `Tokenizer::update_pos` on any piece of well-formed UTF-8 never panics (its inner `str` slice
is on a boundary) and advances `(line, col)` exactly as the specification does. -/
theorem update_pos_spec (a m z : Bytes) (h : Utf8 (a ++ m ++ z)) (l c : Nat) :
    updatePos l c m = some (adv (l, c) m) := updatePos_eq (good_of_utf8_infix h) l c

example : updatePos 3 7 (bytesOf "x\n  ") = some (4, 3) := by decide

end Trion.Lex
