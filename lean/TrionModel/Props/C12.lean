import TrionModel.Lemmas.LexRun
/-!
# C12 — reported source positions point at the item (tokenizer half)

Specification `Trion.Pos.of` (`Spec/Pos.lean`): the position of the item that follows the text `pre` is
`(1 + number of line feeds in pre, 1 + number of non-continuation bytes after the last line feed)`;
a non-continuation byte is the first byte of a Unicode scalar value.

Element positions (parser) and diagnostic positions (assembler) are proved by the components that own
those models; they build on `tok_pos`.
-/
namespace Trion.Pos

/-- C12.a  `lastLine` is the text after the last line feed: it contains no line feed, and what precedes
it is empty or ends in a line feed. -/
theorem lastLine_spec (d : Bytes) :
    ∃ pre, d = pre ++ lastLine d ∧ countLF (lastLine d) = 0 ∧ (pre = [] ∨ ∃ p b, pre = p ++ [b] ∧ b.toNat = 10) := by
  induction d with
  | nil => exact ⟨[], rfl, rfl, Or.inl rfl⟩
  | cons b d ih =>
    obtain ⟨pre, hd, hc, hp⟩ := ih
    by_cases hd0 : countLF d > 0
    · refine ⟨b :: pre, ?_, ?_, ?_⟩
      · simp only [lastLine, hd0, if_true]; rw [List.cons_append, ← hd]
      · simpa [lastLine, hd0] using hc
      · right
        rcases hp with rfl | ⟨p, x, rfl, hx⟩
        · exfalso
          simp at hd; rw [← hd] at hc; omega
        · exact ⟨b :: p, x, by simp, hx⟩
    · have h0 : countLF d = 0 := by omega
      by_cases hb : b.toNat = 10
      · exact ⟨[b], by simp [lastLine, h0, hb], by simp [lastLine, h0, hb], Or.inr ⟨[], b, rfl, hb⟩⟩
      · refine ⟨[], by simp [lastLine, h0, hb], ?_, Or.inl rfl⟩
        simp only [lastLine, h0]
        simp [countLF_cons, hb, h0]

/-- C12.b  The specification composes: the position after `a ++ b` is the position after `a` advanced
byte-wise over `b` (`Pos.step`: line feed → next line, column 1; continuation byte → unchanged;
any other byte → next column). -/
theorem of_compose (a b : Bytes) : Pos.of (a ++ b) = adv (Pos.of a) b := of_append a b

example : Pos.of (bytesOf "ab\n\tc") = (2, 3) := by decide
example : Pos.of [0x61, 0xC3, 0xA9, 0x0A, 0xE2, 0x82, 0xAC, 0x20] = (2, 3) := by decide

end Trion.Pos

namespace Trion.Lex
open Trion.Pos (adv)

/-- C12.c  `Tokenizer::update_pos` on any piece of well-formed UTF-8 never panics (its inner `str` slice
is on a boundary) and advances `(line, col)` exactly as the specification does. -/
theorem update_pos_spec (a m z : Bytes) (h : Utf8 (a ++ m ++ z)) (l c : Nat) :
    updatePos l c m = some (adv (l, c) m) := updatePos_eq (good_of_utf8_infix h) l c

example : updatePos 3 7 (bytesOf "x\n  ") = some (4, 3) := by decide

theorem placed_take {bs : Bytes} {n start : Nat} {ts : List Token} (h : Placed (bs.take n) start ts) :
    Placed bs start ts := by
  induction h with
  | nil start => exact Placed.nil start
  | cons start o e t ts h1 h2 h3 h4 h5 _ ih =>
    have hlen : e ≤ n ∧ e ≤ bs.length := by simp at h3; omega
    refine Placed.cons start o e t ts h1 h2 hlen.2 ?_ ?_ ih
    · rw [h4, List.take_take]; congr 2; omega
    · obtain ⟨b, hb, hs⟩ := h5
      refine ⟨b, ?_, hs⟩
      rw [List.getElem?_take] at hb
      split at hb
      · exact hb
      · simp at hb

/-- C12.d `tok_pos`  For every byte string: the tokens produced by the tokenizer sit at strictly
increasing byte offsets `o` of the input (`Placed`, `Lemmas/LexRun.lean`: `start ≤ o < e ≤ length`, the
next token at `≥ e`), the byte at `o` is one a token of that kind begins with (`startsTok`), and the
token's `(line, col)` is `Pos.of (bs.take o)` — the specified position of offset `o`, whatever precedes
it (tabs, CR LF, multi-byte characters, line comments, nested block comments, strings). -/
theorem tok_pos (bs : Bytes) (o : LexOut) (h : tokens bs = .ok o) : Placed bs 0 o.toks := by
  obtain ⟨o', h', hpl, _⟩ := run_spec (State.new bs).data (bs.length + 2) (State.new bs) [] (utf8_new bs)
    (by simp) (by simp [State.pos, State.new, Pos.of, Pos.countLF, Pos.scalars, Pos.lastLine])
    (by simp [State.new]; omega)
  have : o' = o := by
    have := h'.symm.trans h
    simpa using this
  subst this
  exact placed_take (n := validUpTo bs) (by simpa [State.new] using hpl)

/-- C12.e  `tok_pos` token by token. -/
theorem tok_pos_mem (bs : Bytes) (o : LexOut) (h : tokens bs = .ok o) :
    ∀ t ∈ o.toks, ∃ off, off < bs.length ∧ (t.line, t.col) = Pos.of (bs.take off) ∧
      ∃ b, bs[off]? = some b ∧ startsTok t.val b = true := by
  have hp := tok_pos bs o h
  generalize o.toks = ts at hp
  generalize 0 = start at hp
  induction hp with
  | nil _ => simp
  | cons start off e t ts h1 h2 h3 h4 h5 _ ih =>
    intro t' ht'
    simp at ht'
    rcases ht' with rfl | ht'
    · exact ⟨off, by omega, h4, h5⟩
    · exact ih t' ht'

/-- C12.f  The position left in the tokenizer at the end (`get_line`, `get_column`, which the parser
reports for `<eof>`): after a stream without error it is the position of the end of the input; after an
error it is the error's position. -/
theorem end_pos (bs : Bytes) (o : LexOut) (h : tokens bs = .ok o) :
    (o.err = none → (o.endLine, o.endCol) = Pos.of bs) ∧
    (∀ e, o.err = some e → (o.endLine, o.endCol) = (e.line, e.col)) := by
  obtain ⟨o', h', _, hend, herr⟩ := run_spec (State.new bs).data (bs.length + 2) (State.new bs) [] (utf8_new bs)
    (by simp) (by simp [State.pos, State.new, Pos.of, Pos.countLF, Pos.scalars, Pos.lastLine])
    (by simp [State.new]; omega)
  have : o' = o := by
    have := h'.symm.trans h
    simpa using this
  subst this
  refine ⟨?_, herr⟩
  intro hn
  obtain ⟨h1, h2⟩ := hend hn
  have hv : validUpTo bs = bs.length := by simpa [State.new] using h2
  rw [h1]
  simp [State.new, hv]

-- non-vacuity
example : tokens (bytesOf "a /* x\n */\t'b' // c\n  \"s\" ;") =
    .ok ⟨[⟨1, 1, .ident (bytesOf "a")⟩, ⟨2, 5, .num 98⟩, ⟨3, 3, .str (bytesOf "s")⟩, ⟨3, 7, .term⟩], none, 3, 8⟩ := by
  decide
example : Pos.of ((bytesOf "a /* x\n */\t'b' // c\n  \"s\" ;").take 26) = (3, 7) := by decide

end Trion.Lex
