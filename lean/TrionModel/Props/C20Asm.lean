import TrionModel.Props.C20
import TrionModel.Lemmas.TridasRunFwd
/-!
# C20 (pipeline clause, forward branches) — the listing TEXT re-assembles to the file, in full

`Props/C20.lean` `listing_roundtrip_backward` covers files whose direct branches all go to an instruction at or before
the branch.  Here the restriction is dropped: an instruction line whose label is defined LATER takes the deferred path
of the assembler — 0xBE placeholder of the final length + queued task (`Asm.instr_deferred`, `Show.show_defers`,
`Show.encode_pre`), and at the end of the file the task re-runs `Front.assemble` over the complete table
(`Show.show_retry`) and `write_at` replaces the placeholder (`Asm.instr_task_active`); the statement-loop invariant is
`Tridas.entries_run_fwd` (buffer = file except at the placeholders of the queued tasks, table = the labels below the
cursor), the task round `Tridas.tasks_run`.
-/
namespace Trion.Tridas
open Trion Trion.Show

/-- C20.roundtrip on text, **in full** (backward and forward branches).  Under the property's hypothesis
(`WellFormed`, gap-free `Chain`), for a canonically encoded file (`EntryOk`: K3 excludes alias encodings, see
`alias_not_reproduced`) without PC-relative data references (`hpc`) in which every direct branch goes to an
instruction boundary inside the file (`hin`): the listing is produced, and `Asm.run` — the whole pipeline model —
on its text succeeds, records no diagnostic, and its image is exactly the input file at 0x20000000. -/
theorem listing_roundtrip {decode : Decoder} {b : List UInt8} {es : List Entry}
    (wf : WellFormed decode b es) (hc : Chain es BASE (BASE + b.length)) (hok : ∀ e ∈ es, EntryOk b e)
    (hpc : ∀ e ∈ es, Show.targetOf e.instr e.addr = getBranch e.instr e.addr)
    (hin : ∀ e ∈ es, ∀ d, getBranch e.instr e.addr = some d → inFile b.length d) :
    ∃ ls, listing decode b = .ok ls ∧
      ∀ (fs : Bytes → Option Bytes) (main : Bytes), fs main = some (listingText ls) →
        Asm.run fs main = .done ⟨true, none, true, [], [(BASE, b)]⟩ := by
  obtain ⟨st, hst, hes⟩ := traverse_covers_ok wf
  have hl : listing decode b = .ok (Line.header :: render st.branches st.instrs false BASE) := by
    unfold listing; rw [hst]
  rw [hes] at hl
  refine ⟨_, hl, fun fs main hfs => ?_⟩
  have hne : b ≠ [] := by
    obtain ⟨e, he, _⟩ := wf.first
    have := wf.size e he
    intro h; subst h; simp at this; omega
  have hsmall : BASE + b.length ≤ 4294967296 := by have := wf.small; unfold two32 at this; omega
  refine listing_run_fwd fs main b st.branches es hne hsmall hc hok ?_ hfs
  intro e he t ht
  rw [hpc e he] at ht
  have h2 := hin e he t ht
  have hbr := traverse_brInv hst e (by rw [hes]; exact he) t ht
  exact ⟨by simpa using hbr, wf.targets e he t ht h2⟩

end Trion.Tridas
