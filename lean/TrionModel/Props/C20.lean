import TrionModel.Lemmas.TridasAsm
import TrionModel.Lemmas.TridasRun
/-!
# C20 — the tridas listing re-assembles to the code it was produced from

Property theorems only (helper lemmas: `Lemmas/Tridas.lean`, `Lemmas/TridasFuel.lean`).  Model: `Trion.Tridas.listing` (`Model/Tridas.lean`),
the work-list traversal and the printing loop of `src/bin/disassembler.rs`, parametric in the decoder.
-/
namespace Trion.Tridas

/-- C20.labels (a)  In every listing, every label line is immediately followed by the instruction line of the address
the label names (no decoder hypothesis, any input file). -/
theorem labels_attached {decode : Decoder} {b : List UInt8} {ls : List Line} (h : listing decode b = .ok ls) :
    labelsAttached ls = true := by
  unfold listing at h
  split at h
  · cases h
  · cases h
    simp only [labelsAttached]
    exact labelsAttached_render _ _ _ _

/-- C20.labels (b)  `labels_unique`: an address gets exactly one label line if it is a recorded branch target and an
instruction was decoded at it, and none otherwise.  (`BTreeMap` keys are unique: `traverse_sorted`.) -/
theorem labels_unique {decode : Decoder} {b : List UInt8} {st : St} (h : traverse decode b = .ok st) (a : Nat) :
    labelCount a (Line.header :: render st.branches st.instrs false BASE) =
      if st.branches.contains a ∧ ∃ e ∈ st.instrs, e.addr = a then 1 else 0 := by
  have hc := count_label_render st.branches a st.instrs false BASE
  have hs := sorted_filter_length (traverse_sorted h) a
  unfold labelCount at hc ⊢
  rw [List.count_cons, hc]
  by_cases hb : a ∈ st.branches
  · simp [hb, hs]
  · simp [hb]

/-! ## under the property's hypothesis

`WellFormed decode b es` (`Lemmas/Tridas.lean`): `es` lists (address, instruction, address after it) with
`decode (b.drop (addr - BASE)) = some (after - addr, instr)` for every entry; the entries are strictly ascending, one
starts at `BASE`, each is non-empty and ends inside the file (`size`), each entry that falls through (`getReturns`) and
ends before the end of the file is followed by an entry (`next`); every in-file target of a direct branch is the address
of an entry (`targets`); every entry is reachable from the first by fall-through and direct branches (`reach`);
`BASE + b.length < 2^32`.  (For a gap-free segmentation `Chain es BASE (BASE + b.length)` of a non-empty file,
`sorted`/`first`/`size`/`next` follow: `WellFormed.of_chain`.) -/

/-- C20.covers  Under the hypothesis the listing is produced — the decoder `unwrap()` and the two address additions do not
panic, and the loops terminate within the model's bounds (outer `2·len + 2`, inner `len`; `Lemmas/TridasFuel.lean`: the
measure `|queries| + #{instructions not yet recorded}` drops with every popped query) — and its instruction lines are
exactly the instructions of the file, each once, in address order. -/
theorem covers_all {decode : Decoder} {b : List UInt8} {es : List Entry} (wf : WellFormed decode b es) :
    ∃ ls, listing decode b = .ok ls ∧ instrLines ls = es.map (fun e => (e.addr, e.instr)) := by
  obtain ⟨st, hst, hes⟩ := traverse_covers_ok wf
  refine ⟨Line.header :: render st.branches st.instrs false BASE, ?_, ?_⟩
  · unfold listing; rw [hst]
  · simp only [instrLines]
    rw [instrLines_render, hes]

/-- C20.covers, error-free form: no outcome of `listing` is an error (in particular not the model's `Panic.fuel`). -/
theorem listing_no_error {decode : Decoder} {b : List UInt8} {es : List Entry} (wf : WellFormed decode b es)
    (p : Panic) : listing decode b ≠ .error p := by
  obtain ⟨ls, hl, _⟩ := covers_all wf
  rw [hl]; intro h; cases h

/-- C20.labels (c)  `labels_unique` under the hypothesis: every direct branch target inside the file is introduced by
exactly one label line (which by `labels_attached` sits immediately before the instruction at that address). -/
theorem labels_unique_wellFormed {decode : Decoder} {b : List UInt8} {es : List Entry}
    (wf : WellFormed decode b es) {ls : List Line} (hl : listing decode b = .ok ls)
    {e : Entry} (he : e ∈ es) {d : Nat} (hb : getBranch e.instr e.addr = some d) (hin : inFile b.length d) :
    labelCount d ls = 1 := by
  unfold listing at hl
  split at hl
  · cases hl
  · rename_i st hst
    cases hl
    obtain ⟨st', hst', hcov⟩ := traverse_covers_ok wf
    rw [hst] at hst'
    cases hst'
    have hbr := traverse_brInv hst e (by rw [hcov]; exact he) d hb
    rw [labels_unique hst d]
    have hex : ∃ e' ∈ st.instrs, e'.addr = d := by rw [hcov]; exact wf.targets e he d hb hin
    simp [hbr, hex]

/-- C20.roundtrip (partial)  If additionally the entries are consecutive (`Chain es BASE (BASE + b.length)`: the
segmentation covers every byte) and `encode` inverts the decoder on them (`encode e.instr = the bytes of e in b`:
the file is CANONICALLY encoded — C03 `dec_canon` gives only "same length, decodes to the same instruction"; see
`alias_not_reproduced` below), then the listing is produced and its instruction lines, re-encoded in order,
concatenate to the input file.

Full statement `listing_roundtrip : wellFormedBinary b → Asm.run (text (listing b)) = .success {0x20000000 ↦ b}`.
Missing: the assembler model (`Asm.run` on the listing text: `.addr` header, label lines defining `l_XXXXXXXX` as
constants, C19's `show`/`build` round trip per instruction line placing each instruction at its address); here the
assembler is represented by `encode` applied to the instruction lines in order. -/
theorem listing_roundtrip_partial {decode : Decoder} {b : List UInt8} {es : List Entry}
    (wf : WellFormed decode b es) (hc : Chain es BASE (BASE + b.length))
    (encode : Instr → List UInt8) (henc : ∀ e ∈ es, encode e.instr = slice b e) :
    ∃ ls, listing decode b = .ok ls ∧ ((instrLines ls).map (fun x => encode x.2)).flatten = b := by
  obtain ⟨ls, hl, hi⟩ := covers_all wf
  refine ⟨ls, hl, ?_⟩
  rw [hi]
  have h1 : (es.map (fun e => (e.addr, e.instr))).map (fun x => encode x.2) = es.map (slice b) := by
    rw [List.map_map]
    apply List.map_congr_left
    intro e he
    exact henc e he
  rw [h1, chain_flatten b es BASE (BASE + b.length) hc (Nat.le_refl _)]
  simp

/-- C20.roundtrip at the level of the assembler's layout core (C05).  Read the listing as a program of
`Trion.Layout` (`lineStmts`: header = `.addr 0x20000000`, a label line defines the symbol numbered by its address,
an instruction line is a value-dependent statement with bytes `enc i` that needs the symbols `deps a i`). Under
the hypotheses of `listing_roundtrip_partial`:

1. pass 1 of the two-pass reference is defined, and its symbol table binds every in-file branch target to the
   address its label names — and binds no symbol to anything but its own address (so the operand values the
   instruction lines are assembled with are the ones they were printed from);
2. the reference layout of the program is exactly the input file at 0x20000000 — every byte, nothing else;
3. whenever the layout core (`Layout.run`: statement loop, placeholders for forward references, end-of-file
   task queue, `close_segment`) assembles the program, its image is exactly the input file at 0x20000000.

Still missing for `listing_roundtrip : Asm.run (text (listing b)) = success {0x20000000 ↦ b}`:
(a) that `Layout.run` does succeed on this program (no overflow: the file fits; no duplicate: `labels_unique`;
    no undefined symbol when `deps` only names in-file branch targets — needs a success theorem for `Layout.run`,
    C05 has only the conditional `layout_refines`);
(b) the refinement `Asm.run` (text → `Lex`/`Parse` → `Front.build` + `Codec` per statement, C06) ⊑ `Layout.run`,
    with `enc i` = `Codec` bytes of `Front.build a (Show.parts i a)` (C19 `show_assembles` for `EvalOK` given by item 1,
    C03 `dec_canon` for `enc (decode bytes) = bytes`) and `text_eq_render` + the parser round trip (C10/C11) for the
    concrete syntax. -/
theorem listing_roundtrip_layout {decode : Decoder} {b : List UInt8} {es : List Entry}
    (wf : WellFormed decode b es) (hc : Chain es BASE (BASE + b.length))
    (enc : Instr → List UInt8) (deps : Nat → Instr → List Nat) (henc : ∀ e ∈ es, enc e.instr = slice b e) :
    ∃ ls, listing decode b = .ok ls ∧
      (∃ env, Layout.Ref.pass1 none [] (lineStmts enc deps ls) = some env ∧
        (∀ e ∈ es, ∀ d, getBranch e.instr e.addr = some d → inFile b.length d → env.get d = some (d : Int)) ∧
        (∀ n v, env.get n = some v → v = (n : Int))) ∧
      (∃ img', Layout.Ref.layout (lineStmts enc deps ls) = some img' ∧
        ∀ k, img'.get k = if BASE ≤ k ∧ k < BASE + b.length then b[k - BASE]? else none) ∧
      (∀ img, Layout.run (lineStmts enc deps ls) = .ok img →
        ∀ k, img.get k = if BASE ≤ k ∧ k < BASE + b.length then b[k - BASE]? else none) := by
  obtain ⟨st, hst, hes⟩ := traverse_covers_ok wf
  have hl : listing decode b = .ok (Line.header :: render st.branches st.instrs false BASE) := by
    unfold listing; rw [hst]
  rw [hes] at hl
  obtain ⟨env, p1, p1e⟩ := pass1_render enc deps b st.branches es BASE (BASE + b.length) false BASE [] hc
    (Nat.le_refl _) (Nat.le_refl _) wf.small henc (fun n hn => by simp [Layout.Env.get] at hn)
  obtain ⟨img', p2, p2e⟩ := pass2_render enc deps b st.branches es BASE (BASE + b.length) false BASE [] hc
    (Nat.le_refl _) (Nat.le_refl _) henc
  have h1 : Layout.Ref.pass1 none [] (lineStmts enc deps (Line.header :: render st.branches es false BASE)) = some env := p1
  have h2 : Layout.Ref.pass2 none [] (lineStmts enc deps (Line.header :: render st.branches es false BASE)) = some img' := p2
  have himg : ∀ k, img'.get k = if BASE ≤ k ∧ k < BASE + b.length then b[k - BASE]? else none := by
    intro k; rw [p2e k]; rfl
  refine ⟨_, hl, ⟨env, h1, ?_, ?_⟩, ⟨img', ?_, himg⟩, ?_⟩
  · intro e he d hb hin
    have hbr := traverse_brInv hst e (by rw [hes]; exact he) d hb
    rw [p1e d, if_pos ⟨by simpa using hbr, wf.targets e he d hb hin⟩]
  · intro n v hv
    rw [p1e n] at hv
    split at hv
    · cases hv; rfl
    · simp [Layout.Env.get] at hv
  · unfold Layout.Ref.layout
    rw [h1]; exact h2
  · intro img hrun k
    obtain ⟨im, e1, hg⟩ := Layout.run_pass2 _ img hrun (lineStmts_wf enc deps _)
    rw [h2] at e1
    cases e1
    rw [hg k, himg k]


/-! ## on the text, through the whole pipeline model

`listingText ls` (`Lemmas/TridasText.lean`) is what the `println!`s write for the lines: `.addr 0x20000000;⏎`, empty lines,
`l_XXXXXXXX:⏎`, `⇥<instr.at(addr)>⏎`.  `EntryOk b e` (`Lemmas/TridasRun.lean`): the instruction of `e` is encodable and
well-formed, its PC-relative target lies inside the address space, and the bytes of `e` in `b` are its CANONICAL
encoding. -/

/-- C20.text  The tokenizer and parser models read the whole listing text back as exactly the statements of its lines
(the `.addr` directive, one label statement per label line, one instruction statement `Show.parts` per instruction
line), without error — for every listing whose instructions carry no negative literal (every decoded instruction). -/
theorem listing_parses (ls : List Line) (h : LinesOk ls) :
    ∃ els, Asm.parseFile (listingText ls) = .ok (els, none) ∧ els.map (·.val) = ls.flatMap lineVals :=
  parseFile_listing ls h

/-- C20.roundtrip on text, **labels defined before use**.  Under the property's hypothesis (`WellFormed`, gap-free
`Chain`), for a canonically encoded file (`EntryOk`, see `alias_not_reproduced`) without PC-relative data references
(`hpc`: the label an instruction line mentions is its direct-branch target — excludes ADR / literal LDR, whose labels
tridas never defines) in which every direct branch goes to an instruction boundary inside the file AT OR BEFORE the
branch itself (`hback`): the listing is produced, and `Asm.run` — the whole pipeline model: tokenizer, parser, `.addr`,
label definitions, every instruction statement through evaluator / front end / encoder, output region, task loops,
`close_segment`, `finalize` — on its text succeeds, records no diagnostic, and its image is exactly the input file at
0x20000000.

Full statement `listing_roundtrip`: the same without `hback … ≤ e.addr`, i.e. with FORWARD branches. Missing for it:
the deferred path of `Asm.instruction` on this program — an instruction line whose label is defined later is placed as
a 0xBE placeholder of the same length (`encoder_len`) and queued as a local task; at the end of the file the task
re-runs `Front.assemble` (for B/BL the deferral happens at operand 0, so the queued `ArmInstr` is the initial one and
the re-run is a fresh `Front.build` over the now complete table — `show_assembles_eval` applies) and rewrites the
placeholder through `write_at`. The statement-loop invariant of `entries_run` (buffer = file prefix, table binds exactly
the labels below the cursor) has to be extended by "…except at the placeholders of the queued tasks" and a lemma
for the task round is needed; lexing, parsing, label definitions, completed instructions, and `run`'s wrapper are done. -/
theorem listing_roundtrip_backward {decode : Decoder} {b : List UInt8} {es : List Entry}
    (wf : WellFormed decode b es) (hc : Chain es BASE (BASE + b.length)) (hok : ∀ e ∈ es, EntryOk b e)
    (hpc : ∀ e ∈ es, Show.targetOf e.instr e.addr = getBranch e.instr e.addr)
    (hback : ∀ e ∈ es, ∀ d, getBranch e.instr e.addr = some d → d ≤ e.addr ∧ inFile b.length d) :
    ∃ ls, listing decode b = .ok ls ∧
      ∀ (fs : Bytes → Option Bytes) (main : Bytes), fs main = some (listingText ls) →
        Asm.run fs main = .done ⟨true, none, true, [], [(BASE, b)]⟩ := by
  obtain ⟨st, hst, hes⟩ := traverse_covers_ok wf
  have hl : listing decode b = .ok (Line.header :: render st.branches st.instrs false BASE) := by
    unfold listing; rw [hst]
  rw [hes] at hl
  refine ⟨_, hl, fun fs main hfs => ?_⟩
  have hne : b ≠ [] := by
    obtain ⟨e, he, _⟩ := wf.first
    have := wf.size e he
    intro h; subst h; simp at this; omega
  have hsmall : BASE + b.length ≤ 4294967296 := by have := wf.small; unfold two32 at this; omega
  refine listing_run fs main b st.branches es hne hsmall hc hok ?_ hfs
  intro e he t ht
  rw [hpc e he] at ht
  obtain ⟨h1, h2⟩ := hback e he t ht
  have hbr := traverse_brInv hst e (by rw [hes]; exact he) t ht
  exact ⟨h1, by simpa using hbr, wf.targets e he t ht h2⟩

/-- C20.roundtrip, semantic form — **no canonical-encoding hypothesis** (alias encodings allowed). Under the other
hypotheses of `listing_roundtrip_backward`, with every instruction of the file merely encodable in its own length
(`henc`; what C03 `dec_canon` gives for decoded instructions): the re-assembled image is a file `b'` of the same
length whose segmentation is the same `es` — same addresses, same instructions, same lengths — each instruction now in
its canonical encoding (`EntryOk b' e`). So the image decodes to the same instruction sequence; it equals `b` byte for
byte iff `b` was canonically encoded. -/
theorem listing_roundtrip_semantic {decode : Decoder} {b : List UInt8} {es : List Entry}
    (wf : WellFormed decode b es) (hc : Chain es BASE (BASE + b.length))
    (henc : ∀ e ∈ es, ∃ hws, Codec.encode e.instr = .ok hws ∧ e.instr.wf ∧ Show.targetInRange e.instr e.addr ∧
      2 * hws.length = e.after - e.addr)
    (hpc : ∀ e ∈ es, Show.targetOf e.instr e.addr = getBranch e.instr e.addr)
    (hback : ∀ e ∈ es, ∀ d, getBranch e.instr e.addr = some d → d ≤ e.addr ∧ inFile b.length d) :
    ∃ ls b', listing decode b = .ok ls ∧ b'.length = b.length ∧ (∀ e ∈ es, EntryOk b' e) ∧
      ∀ (fs : Bytes → Option Bytes) (main : Bytes), fs main = some (listingText ls) →
        Asm.run fs main = .done ⟨true, none, true, [], [(BASE, b')]⟩ := by
  obtain ⟨st, hst, hes⟩ := traverse_covers_ok wf
  have hl : listing decode b = .ok (Line.header :: render st.branches st.instrs false BASE) := by
    unfold listing; rw [hst]
  rw [hes] at hl
  have hcl : ∀ e ∈ es, (canon e).length = e.after - e.addr := by
    intro e he
    obtain ⟨hws, h1, _, _, h4⟩ := henc e he
    simp [canon, h1, Asm.toBytes_length, h4]
  obtain ⟨hlen, hsl⟩ := canon_slices es BASE (BASE + b.length) [] hc (Nat.le_refl _) (by simp) hcl
  simp only [List.nil_append] at hlen hsl
  have hlen' : ((es.map canon).flatten).length = b.length := by omega
  have hok : ∀ e ∈ es, EntryOk ((es.map canon).flatten) e := by
    intro e he
    obtain ⟨hws, h1, h2, h3, _⟩ := henc e he
    exact ⟨hws, h1, h2, h3, by rw [hsl e he]; simp [canon, h1]⟩
  refine ⟨_, (es.map canon).flatten, hl, hlen', hok, fun fs main hfs => ?_⟩
  have hne : (es.map canon).flatten ≠ [] := by
    obtain ⟨e, he, _⟩ := wf.first
    have := wf.size e he
    intro h; rw [h] at hlen'; simp at hlen'; omega
  have hsmall : BASE + ((es.map canon).flatten).length ≤ 4294967296 := by
    have := wf.small; unfold two32 at this; omega
  refine listing_run fs main _ st.branches es hne hsmall (by rw [hlen']; exact hc) hok ?_ hfs
  intro e he t ht
  rw [hpc e he] at ht
  obtain ⟨h1, h2⟩ := hback e he t ht
  have hbr := traverse_brInv hst e (by rw [hes]; exact he) t ht
  exact ⟨h1, by simpa using hbr, wf.targets e he t ht h2⟩

/-- **The property's "reproduces every input byte" fails for alias encodings** (known finding K3). `40 1C` is
`ADDS R0, R0, #1` in the three-operand form (T1) with Rd = Rn; the decoder returns `add true 0 0 (imm 1)`, tridas prints
`ADDS R0, R0, 1;`, and the encoder emits the two-operand form `01 30` (T2): the same instruction in the ARMv6-M table
(C01 `enc_complete`'s alias clause), but not the same bytes. Hence `EntryOk` (canonical encoding) in the theorems. -/
theorem alias_not_reproduced :
    Codec.decode [0x40, 0x1C] = .ok (2, .add true 0 0 (.imm 1)) ∧
    Codec.encode (.add true 0 0 (.imm 1)) = .ok [0x3001] ∧ Codec.toBytes [0x3001] = [0x01, 0x30] ∧
    Show.text (.add true 0 0 (.imm 1)) 0x20000000 = bytesOf "ADDS R0, R0, 1;" := ⟨rfl, rfl, rfl, by decide⟩

/-- non-vacuity of `listing_run` / `listing_roundtrip_backward`: the file `FE D0 70 47` = `l: BEQ l; BX LR` -/
example : Chain [⟨0x20000000, .b 0 (-4), 0x20000002⟩, ⟨0x20000002, .bx 14, 0x20000004⟩] BASE (BASE + 4) ∧
    (∀ e ∈ [(⟨0x20000000, .b 0 (-4), 0x20000002⟩ : Entry), ⟨0x20000002, .bx 14, 0x20000004⟩],
      EntryOk [0xFE, 0xD0, 0x70, 0x47] e) ∧
    Show.targetOf (.b 0 (-4)) 0x20000000 = getBranch (.b 0 (-4)) 0x20000000 ∧
    getBranch (.b 0 (-4)) 0x20000000 = some 0x20000000 := by
  refine ⟨by simp [Chain, BASE], ?_, by decide, by decide⟩
  intro e he
  simp at he
  rcases he with rfl | rfl
  · exact ⟨[0xD0FE], rfl, by simp [Instr.wf, inI32], by simp [Show.targetInRange, Front.pcOf], by decide⟩
  · exact ⟨[0x4770], rfl, trivial, trivial, by decide⟩

/-- a hand-made decoder for a two-instruction file `BEQ l_20000002; BX LR` -/
private def exDecode : Decoder := fun bs =>
  if bs.length = 4 then some (2, .b 0 (-2)) else if bs.length = 2 then some (2, .bx 14) else none

/-- non-vacuity: one label, attached to the instruction at its address -/
example : listing exDecode [0, 0, 0, 0] =
    .ok [.header, .instr 0x20000000 (.b 0 (-2)), .label 0x20000002, .instr 0x20000002 (.bx 14)] := by rfl

/-- the hypothesis is satisfiable: the two-instruction file above -/
example : WellFormed exDecode [0, 0, 0, 0]
    [⟨0x20000000, .b 0 (-2), 0x20000002⟩, ⟨0x20000002, .bx 14, 0x20000004⟩] ∧
    Chain [⟨0x20000000, .b 0 (-2), 0x20000002⟩, ⟨0x20000002, .bx 14, 0x20000004⟩] BASE (BASE + 4) := by
  refine ⟨⟨by decide, by simp [Sorted], ⟨_, List.mem_cons_self, rfl⟩, ?_, ?_, ?_, ?_, ?_⟩, by simp [Chain, BASE]⟩
  · intro e he; simp at he; rcases he with rfl | rfl <;> simp [BASE]
  · intro e he _ h; simp at he; rcases he with rfl | rfl
    · exact ⟨_, List.mem_cons_of_mem _ List.mem_cons_self, rfl⟩
    · simp [BASE] at h
  · intro e he; simp at he; rcases he with rfl | rfl <;> rfl
  · intro e he d hd _; simp at he; rcases he with rfl | rfl
    · have : d = 0x20000002 := by
        have h' : getBranch (.b 0 (-2)) 0x20000000 = some 0x20000002 := by rfl
        rw [h'] at hd; exact (Option.some.inj hd).symm
      exact ⟨_, List.mem_cons_of_mem _ List.mem_cons_self, this.symm⟩
    · have h' : getBranch (.bx 14) 0x20000002 = none := by rfl
      rw [h'] at hd; cases hd
  · intro e he; simp at he; rcases he with rfl | rfl
    · exact Reach.base
    · exact Reach.fall (e := ⟨0x20000000, .b 0 (-2), 0x20000002⟩) List.mem_cons_self Reach.base rfl (by simp [BASE])

/-- the remaining hypotheses are satisfiable on that file: an encoder inverting the decoder on its two instructions
(`listing_roundtrip_partial`), and an in-file branch target (`labels_unique_wellFormed`) -/
example : (∀ e ∈ [(⟨0x20000000, .b 0 (-2), 0x20000002⟩ : Entry), ⟨0x20000002, .bx 14, 0x20000004⟩],
      (fun _ => [0, 0]) e.instr = slice [0, 0, 0, 0] e) ∧
    getBranch (.b 0 (-2)) 0x20000000 = some 0x20000002 ∧ inFile 4 0x20000002 := by
  refine ⟨?_, rfl, by simp [inFile, BASE]⟩
  intro e he; simp at he; rcases he with rfl | rfl <;> rfl

/-- non-vacuity of `listing_roundtrip_layout`, clause 3: on the two-instruction file the layout core does assemble the
listing (the first instruction refers forward to the label, so it is placed as a placeholder and rewritten by the
end-of-file task) and yields the four input bytes at 0x20000000 -/
example : Layout.run (lineStmts (fun _ => [0, 0]) (fun a i => (getBranch i a).toList)
      [.header, .instr 0x20000000 (.b 0 (-2)), .label 0x20000002, .instr 0x20000002 (.bx 14)]) =
    .ok [(0x20000000, 0), (0x20000001, 0), (0x20000002, 0), (0x20000003, 0)] := by rfl

end Trion.Tridas
