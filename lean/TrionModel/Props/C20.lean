import TrionModel.Lemmas.Tridas
/-!
# C20 — the tridas listing re-assembles to the code it was produced from

Property theorems only (helper lemmas: `Lemmas/Tridas.lean`).  Model: `Trion.Tridas.listing` (`Model/Tridas.lean`),
the work-list traversal and the printing loop of `src/bin/disassembler.rs`, parametric in the decoder.
-/
namespace Trion.Tridas

/-- C20.labels (a)  In every listing, every label line is immediately followed by the instruction line of the address
the label names (no decoder hypothesis, any input file). -/
theorem labels_attached {decode : Decoder} {b : List UInt8} {ls : List Line} (h : listing decode b = .ok ls) :
    labelsAttached ls = true := by
  unfold listing at h
  split at h
  · cases h
  · cases h
    simp only [labelsAttached]
    exact labelsAttached_render _ _ _ _

/-- C20.labels (b)  `labels_unique`: an address gets exactly one label line if it is a recorded branch target and an
instruction was decoded at it, and none otherwise.  (`BTreeMap` keys are unique: `traverse_sorted`.) -/
theorem labels_unique {decode : Decoder} {b : List UInt8} {st : St} (h : traverse decode b = .ok st) (a : Nat) :
    labelCount a (Line.header :: render st.branches st.instrs false BASE) =
      if st.branches.contains a ∧ ∃ e ∈ st.instrs, e.addr = a then 1 else 0 := by
  have hc := count_label_render st.branches a st.instrs false BASE
  have hs := sorted_filter_length (traverse_sorted h) a
  unfold labelCount at hc ⊢
  rw [List.count_cons, hc]
  by_cases hb : a ∈ st.branches
  · simp [hb, hs]
  · simp [hb]

/-- a hand-made decoder for a two-instruction file `BEQ l_20000002; BX LR` -/
private def exDecode : Decoder := fun bs =>
  if bs.length = 4 then some (2, .b 0 (-2)) else if bs.length = 2 then some (2, .bx 14) else none

/-- non-vacuity: one label, attached to the instruction at its address -/
example : listing exDecode [0, 0, 0, 0] =
    .ok [.header, .instr 0x20000000 (.b 0 (-2)), .label 0x20000002, .instr 0x20000002 (.bx 14)] := by rfl

end Trion.Tridas
