import TrionModel.Lemmas.C04Arith
import TrionModel.Props.C04Closed
/-!
# C04 — the name tables against an independent list, and `value` against the arithmetic specification

* `regTable_doc`, `sysTable_doc`, `mnemonicTable_doc`, `branches_doc`: the model's register / special-register / mnemonic
  tables (which `C04.means` reads through `Front.regl`, `Front.sysl`, `Front.mnemonic`) ARE the documented names written out
  in `Spec/C04.lean` (`docRegisters`, `docSysRegisters`, `docMnemonics`, `docBranches`), checked by evaluation in the kernel.
  What remains tied to the model: which instruction FORM (template) a mnemonic selects — `mnemonic_table_names` ties it to the
  name the disassembler prints (`getName`), and C19 ties that to the decoder.
* `value_is_arith`: `C04.value T e` is C07's arithmetic specification `Arith.eval` applied to `e` with the defined names
  replaced by their values (`subst`), for register-free expressions over defined names, away from the corners C07 leaves
  open (`Arith.inScope`).
-/
namespace Trion.C04
open Trion Trion.Front

theorem regTable_doc : regTable = docRegisters.map fun p => (bytesOf p.1, Fin.ofNat 16 p.2) := by decide

theorem sysTable_doc : (sysTable.map fun p => (p.1, p.2.toNat)) = docSysRegisters.map fun p => (bytesOf p.1, p.2) := by decide

theorem mnemonicTable_doc : mnemonicTable.map (·.1) = docMnemonics.map bytesOf := by decide

theorem branches_doc : ∀ p ∈ docBranches, mnemonic (bytesOf p.1) = some (.b (Fin.ofNat 15 p.2) 0) := by decide

/-- `value` is the arithmetic specification on the substituted expression -/
theorem value_is_arith (T : SymTable) (hT : ∀ s v, T s = some v → inI64 v = true) (e : Arg) (he : expr e = true)
    (hv : valued T e = true) (hl : lits e = true) (hs : Arith.inScope (subst T e) = true) :
    (∀ v, value T e = some v ↔ Arith.eval (subst T e) = .ok v) ∧
    (value T e = none ↔ ∃ err, Arith.eval (subst T e) = .error err) :=
  value_arith T e (closed_subst T hT e he hv hl) hs

/-- non-vacuity: `(label + 8) * 2` with `label = 0x20000100` -/
example : subst (tab exLk) (.bin .mul (.bin .add (.ident (bytesOf "label")) (.const 8)) (.const 2)) =
      .bin .mul (.bin .add (.const 0x20000100) (.const 8)) (.const 2) ∧
    Arith.eval (.bin .mul (.bin .add (.const 0x20000100) (.const 8)) (.const 2)) = .ok 0x40000210 ∧
    value (tab exLk) (.bin .mul (.bin .add (.ident (bytesOf "label")) (.const 8)) (.const 2)) = some 0x40000210 := by
  refine ⟨rfl, rfl, by decide⟩

end Trion.C04
