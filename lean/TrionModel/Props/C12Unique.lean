import TrionModel.Lemmas.PosMono
import TrionModel.Props.C12Layout
/-!
# C12 — distinct statements of one file have distinct (line, column)   (texts that have a layout)

`run_blames` identifies the blamed statement by its line and column.  `layout_positions_distinct`: for a text that has a
layout (`Lex.Exact text 0 ts`: separators and token spellings, Props/C12Layout.lean), the positions of the elements the
parser produces are pairwise different — each statement starts, at a strictly later offset than the previous one
(`stmt_pos_offsets`), with a `.` or the first byte of an identifier (a letter or `_`), i.e. with a character that is neither
a line feed nor a UTF-8 continuation byte, and `Pos.of` separates such offsets (`Pos.of_take_ne`).  So "THE element at
`(d.line, d.col)`" is well defined for such files.  Not proved: the same for every text the tokenizer accepts (layout
completeness is open, see C12 `partial`).
-/
namespace Trion.Lex
open Trion

theorem punct_ascii {n : Nat} {t : Tok} (h : punct n = some t) : n < 128 ∧ n ≠ 10 := by
  by_cases hn : n < 128
  · refine ⟨hn, ?_⟩
    rintro rfl
    have : punct 10 = none := by decide
    rw [this] at h; cases h
  · exfalso
    have : punct n = none := by
      unfold punct
      repeat (rw [if_neg (by simp; omega)])
    rw [this] at h; cases h

/-- the spelling of a statement's first token (`.` or an identifier) begins with a byte that is neither a line feed nor a
continuation byte -/
theorem spell_first {sp : Bytes} {tv : Tok} {nx : Option UInt8} (h : Spell sp tv nx)
    (hk : tv = .dirMark ∨ ∃ s, tv = .ident s) :
    ∃ b rest, sp = b :: rest ∧ (b.toNat == 10) = false ∧ Pos.isCont b = false := by
  cases h with
  | punct c t nx hp _ =>
    obtain ⟨h1, h2⟩ := punct_ascii hp
    exact ⟨c, [], rfl, by simpa using h2, by simp [Pos.isCont]; omega⟩
  | ident s nx hok _ =>
    revert hok hk
    cases sp with
    | nil => intro hok; simp [identOk] at hok
    | cons b0 tl =>
      intro hok _
      simp only [identOk, Bool.and_eq_true] at hok
      have hs := hok.1
      simp only [identStart, Bool.or_eq_true, Bool.and_eq_true, decide_eq_true_eq, beq_iff_eq] at hs
      refine ⟨b0, tl, rfl, ?_, ?_⟩
      · simp; omega
      · simp [Pos.isCont]; omega
  | div nx _ => rcases hk with h | ⟨s, h⟩ <;> cases h
  | shl nx => rcases hk with h | ⟨s, h⟩ <;> cases h
  | shr nx => rcases hk with h | ⟨s, h⟩ <;> cases h
  | num r ds v nx _ _ _ _ _ => rcases hk with h | ⟨s, h⟩ <;> cases h
  | chr c nx _ => rcases hk with h | ⟨s, h⟩ <;> cases h
  | chrEsc e v nx _ => rcases hk with h | ⟨s, h⟩ <;> cases h
  | str items nx _ => rcases hk with h | ⟨s, h⟩ <;> cases h

theorem stmtsAt_distinct {text : Bytes} {lo : LexOut} {start : Nat} {ts : List Token} {els : List Element}
    {left : List Token} (h : Parse.StmtsAt text lo start ts els left) :
    (els.map (fun e => (e.line, e.col))).Pairwise (· ≠ ·) := by
  induction h with
  | nil _ _ => exact List.Pairwise.nil
  | cons start o e stop t seg r' el els left h1 h2 h3 _ hsp hk hseg _ hpos hrest ih =>
    simp only [List.map_cons]
    refine List.Pairwise.cons ?_ ih
    intro p hp
    obtain ⟨offs, _, _, hb, hm⟩ := Parse.stmtsAt_offsets hrest
    rw [hm] at hp
    obtain ⟨x, hx, rfl⟩ := List.mem_map.mp hp
    obtain ⟨hx1, hx2⟩ := hb x hx
    have hle := Parse.exactTo_le hseg
    obtain ⟨b, rest, hsb, hlf, hc⟩ := spell_first hsp hk
    have hbo : text[o]? = some b := by
      have : ((text.take e).drop o)[0]? = some b := by rw [hsb]; rfl
      rw [List.getElem?_drop, List.getElem?_take] at this
      simpa [h2] using this
    rw [hpos]
    exact Pos.of_take_ne text o x (by omega) (by omega) b hbo hlf hc

/-- C12.layout_positions_distinct  for a text with a layout, the elements the parser produces have pairwise different
(line, column) -/
theorem layout_positions_distinct (text : Bytes) (ts : List Token) (h : Exact text 0 ts) (els : List Element)
    (err : Option ParseErr) (hp : Parse.all ⟨ts, none, (Pos.of text).1, (Pos.of text).2⟩ = .done els err) :
    (els.map (fun e => (e.line, e.col))).Pairwise (· ≠ ·) := by
  obtain ⟨left, hs, _⟩ := stmt_pos_segments text ts h els err hp
  exact stmtsAt_distinct hs

/-- … hence an element is determined by its position: THE element at `(line, col)` -/
theorem layout_element_unique (text : Bytes) (ts : List Token) (h : Exact text 0 ts) (els : List Element)
    (err : Option ParseErr) (hp : Parse.all ⟨ts, none, (Pos.of text).1, (Pos.of text).2⟩ = .done els err)
    (i j : Nat) (e1 e2 : Element) (h1 : els[i]? = some e1) (h2 : els[j]? = some e2)
    (hl : e1.line = e2.line) (hc : e1.col = e2.col) : i = j := by
  have hd := layout_positions_distinct text ts h els err hp
  rw [List.pairwise_iff_getElem] at hd
  have hi : i < els.length := by
    rcases Nat.lt_or_ge i els.length with h | h
    · exact h
    · rw [List.getElem?_eq_none h] at h1; cases h1
  have hj : j < els.length := by
    rcases Nat.lt_or_ge j els.length with h | h
    · exact h
    · rw [List.getElem?_eq_none h] at h2; cases h2
  rw [List.getElem?_eq_getElem hi] at h1
  rw [List.getElem?_eq_getElem hj] at h2
  cases h1; cases h2
  rcases Nat.lt_trichotomy i j with hlt | heq | hgt
  · exact absurd (by rw [List.getElem_map, List.getElem_map]; exact Prod.ext hl hc) (hd i j (by simpa using hi) (by simpa using hj) hlt)
  · exact heq
  · exact absurd (by rw [List.getElem_map, List.getElem_map]; exact Prod.ext hl.symm hc.symm) (hd j i (by simpa using hj) (by simpa using hi) hgt)

end Trion.Lex
