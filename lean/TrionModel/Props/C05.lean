import TrionModel.Lemmas.LayoutDef
/-!
# C05 — the program image equals the sequential layout of its statements (layout core)

Property theorems only. Model: `Trion.Layout` (Model/Layout.lean): `run` = the statement loop of
`Context::do_assemble`, `change_segment` / `close_segment`, `ActiveSegment::{write, write_at, curr_addr,
remaining}`, the placeholder / deferred-rewrite mechanics of `write_instr` / `write_data`, and the local task
queue of `Context::assemble`; `Ref.layout` = the two-pass reference layout. The model is tied to the real
`Context` pipeline on every run by harness/src/asm.rs (`layout run` / `layout ref`).
-/
namespace Trion.Layout

/-- C06 for the layout core (the three `assert_eq!` on put counts in `close_segment` and in the deferred
rewrite, the `remaining()` underflow of `ActiveSegment::write` / `write_at`, the `write_at` index check):
NONE of them can fire, for EVERY program whose value-dependent statements have a value-independent length
(`Stmt.wf`: `emit len deps final` has `final.length = len`; the real encoders guarantee this — C01/C04/C11). -/
theorem run_no_panic (p : List Stmt) (hwf : ∀ s ∈ p, s.wf) : run p ≠ .error .panic :=
  run_no_panic' p hwf

/-- non-vacuity: a well-formed program with a forward reference across a region switch, into a region that
ends exactly where the deferred statement begins, assembles. -/
example : (∀ s ∈ [Stmt.addr 260, .emit 2 [1] [7, 0], .addr 256, .raw [1, 2, 3, 4], .const 1 [] 7], s.wf) ∧
    run [Stmt.addr 260, .emit 2 [1] [7, 0], .addr 256, .raw [1, 2, 3, 4], .const 1 [] 7]
      = .ok [(256, 1), (257, 2), (258, 3), (259, 4), (260, 7), (261, 0), (260, 190), (261, 190)] :=
  ⟨by decide, rfl⟩

/-- `wf` cannot be dropped: a deferred statement whose final bytes are longer than its placeholder hits the
`assert_eq!(n, 0)` of the rewrite once its region is closed. -/
example : run [Stmt.addr 0, .emit 1 [1] [0, 0], .addr 16, .const 1 [] 0] = .error .panic := rfl


/-! ## The image of a successful run is the sequential layout

FULL-STRENGTH STATEMENT (FALSE as it stands — see the counterexample below):
  theorem layout_refines : run p = .ok img → (∀ s ∈ p, s.wf) → Ref.layout p = some img' → ∀ a, img.get a = img'.get a
It fails in exactly one corner: a padding `.align n` where the reference cursor is 2^32, i.e. directly after a
region has been filled through 0xFFFFFFFF. `Align::apply` computes the padding from `curr_addr()`, which
saturates at 0xFFFFFFFF; for every `n ≥ 2` dividing 2^32 − 1 (3, 5, 15, 17, 51, 85, 255, 257, …) it sees offset
0 and accepts the statement without padding and without diagnostic, whereas the reference would have to pad
from 2^32 up to the next multiple of `n` (addresses that do not exist). For the other `n ≥ 2` the
implementation reports an overflow diagnostic (C13 records this). The proved theorem carries the precise side
condition `NoAlignAtTop p` (Spec/Layout.lean): every `.align n` met at a reference cursor `c ≥ 2^32` has
`c % n = 0`. Nothing else is missing: any number of regions in any address order, any mix of forward and
backward references, labels, constants, zero-length statements, regions ending exactly at 2^32. -/

/-- the counterexample to the unrestricted statement: `.addr 0xFFFFFFFF; .du8 0; .align 3;` assembles
(real `trias`: "Assembled successfully"), the reference pads at 2^32 and 2^32 + 1. -/
example : run [Stmt.addr 4294967295, .raw [0], .align 3] = .ok [(4294967295, 0)] ∧
    Ref.layout [Stmt.addr 4294967295, .raw [0], .align 3]
      = some [(4294967296, 190), (4294967297, 190), (4294967295, 0)] ∧
    ¬ NoAlignAtTop [Stmt.addr 4294967295, .raw [0], .align 3] :=
  ⟨rfl, rfl, fun h => by
    have := h 4294967296 3 (by simp [Ref.trace, Ref.next])
    simp [top] at this⟩

/-- C05 (main theorem): on success the image is, address by address, the image of the two-pass reference:
every statement's bytes at its address in source order, nothing else, no placeholder left. -/
theorem layout_refines_partial (p : List Stmt) (img img' : Img) (h : run p = .ok img) (hwf : ∀ s ∈ p, s.wf)
    (hal : NoAlignAtTop p) (href : Ref.layout p = some img') : ∀ a, img.get a = img'.get a := by
  obtain ⟨im, e1, hg⟩ := run_pass2 p img h hwf hal
  rw [(layout_some p img' href).2] at e1
  cases e1
  exact hg

/-- the same without reference to pass 1: the image of a successful run is the `pass2` image (`pass2` is
defined on every program that assembles) -/
theorem run_is_pass2 (p : List Stmt) (img : Img) (h : run p = .ok img) (hwf : ∀ s ∈ p, s.wf)
    (hal : NoAlignAtTop p) : ∃ img', Ref.pass2 none [] p = some img' ∧ ∀ a, img.get a = img'.get a :=
  run_pass2 p img h hwf hal

/-- C05: success implies that the reference is defined, unless a label stands where the reference cursor is
2^32 (`Ref.pass1` is undefined there; the implementation gives such a label the value 0xFFFFFFFF). Together
with `layout_refines_partial`: success always means "equals the reference". -/
theorem ref_defined (p : List Stmt) (img : Img) (h : run p = .ok img) (hwf : ∀ s ∈ p, s.wf)
    (hl : NoLabelAtTop p) : Ref.layout p ≠ none :=
  run_ref_defined p img h hwf hl

/-- `NoLabelAtTop` cannot be dropped: a label directly after a region filled through 0xFFFFFFFF -/
example : run [Stmt.addr 4294967295, .raw [0], .label 1] = .ok [(4294967295, 0)] ∧
    Ref.layout [Stmt.addr 4294967295, .raw [0], .label 1] = none := ⟨rfl, rfl⟩

/-- non-vacuity of `layout_refines_partial` / `ref_defined`: forward reference, region switch downwards into a
region ending exactly at the deferred statement, label, padding `.align` -/
example : let p := [Stmt.addr 260, .emit 2 [1] [7, 0], .addr 255, .raw [1], .align 4, .label 2, .raw [2, 3, 4, 5],
      .const 1 [] 7]
    (∀ s ∈ p, s.wf) ∧ NoAlignAtTop p ∧ NoLabelAtTop p ∧ (∃ img, run p = .ok img) ∧ (∃ img', Ref.layout p = some img') := by
  refine ⟨by decide, ?_, ?_, ⟨_, rfl⟩, ⟨_, rfl⟩⟩
  · intro c n hc
    simp [Ref.trace, Ref.next] at hc
    rcases hc with ⟨rfl, rfl⟩
    left; decide
  · intro c n hc
    simp [Ref.trace, Ref.next, Ref.size] at hc
    rcases hc with ⟨rfl, rfl⟩
    decide

end Trion.Layout
