import TrionModel.Lemmas.LayoutCor
/-!
# C05 — the program image equals the sequential layout of its statements (layout core)

Property theorems only. Model: `Trion.Layout` (Model/Layout.lean): `run` = the statement loop of
`Context::do_assemble`, `change_segment` / `close_segment`, `ActiveSegment::{write, write_at, curr_addr,
remaining}`, the placeholder / deferred-rewrite mechanics of `write_instr` / `write_data`, and the local task
queue of `Context::assemble`; `Ref.layout` = the two-pass reference layout. The model is tied to the real
`Context` pipeline on every run by harness/src/asm.rs (`layout run` / `layout ref`).
-/
namespace Trion.Layout

/-- C06 for the layout core (the three `assert_eq!` on put counts in `close_segment` and in the deferred
rewrite, the `remaining()` underflow of `ActiveSegment::write` / `write_at`, the `write_at` index check):
NONE of them can fire, for EVERY program whose value-dependent statements have a value-independent length
(`Stmt.wf`: `emit len deps final` has `final.length = len`; the real encoders guarantee this — C01/C04/C11). -/
theorem run_no_panic (p : List Stmt) (hwf : ∀ s ∈ p, s.wf) : run p ≠ .error .panic :=
  run_no_panic' p hwf

/-- non-vacuity: a well-formed program with a forward reference across a region switch, into a region that
ends exactly where the deferred statement begins, assembles. -/
example : (∀ s ∈ [Stmt.addr 260, .emit 2 [1] [7, 0], .addr 256, .raw [1, 2, 3, 4], .const 1 [] 7], s.wf) ∧
    run [Stmt.addr 260, .emit 2 [1] [7, 0], .addr 256, .raw [1, 2, 3, 4], .const 1 [] 7]
      = .ok [(256, 1), (257, 2), (258, 3), (259, 4), (260, 7), (261, 0), (260, 190), (261, 190)] :=
  ⟨by decide, rfl⟩

/-- `wf` cannot be dropped: a deferred statement whose final bytes are longer than its placeholder hits the
`assert_eq!(n, 0)` of the rewrite once its region is closed. -/
example : run [Stmt.addr 0, .emit 1 [1] [0, 0], .addr 16, .const 1 [] 0] = .error .panic := rfl


/-! ## The image of a successful run is the sequential layout

History: with `.align` computing its padding from the saturated `curr_addr()` this statement was FALSE
(`.addr 0xFFFFFFFF; .du8 0; .align 3;` assembled without padding, found by this proof attempt). Fix F26 makes
`Align::apply` use the true cursor `base + len`; the model follows, and the theorem now holds without any side
condition. -/

/-- C05 (main theorem): for EVERY program — any number of regions in any address order, any mix of forward and
backward references, labels, constants, alignment, zero-length statements, regions ending exactly at 2^32 —
on success the image is, address by address, the image of the two-pass reference: every statement's bytes at
its address in source order, nothing else, no placeholder left. -/
theorem layout_refines (p : List Stmt) (img img' : Img) (h : run p = .ok img) (hwf : ∀ s ∈ p, s.wf)
    (href : Ref.layout p = some img') : ∀ a, img.get a = img'.get a := by
  obtain ⟨im, e1, hg⟩ := run_pass2 p img h hwf
  rw [(layout_some p img' href).2] at e1
  cases e1
  exact hg

/-- the former counterexample: after F26 the padding `.align 3` directly behind 0xFFFFFFFF is an overflow
diagnostic, `.align 2` there (2 divides 2^32, no padding needed) is accepted, and the reference agrees. -/
example : run [Stmt.addr 4294967295, .raw [0], .align 3] = .error .overflow ∧
    run [Stmt.addr 4294967295, .raw [0], .align 2] = .ok [(4294967295, 0)] ∧
    Ref.layout [Stmt.addr 4294967295, .raw [0], .align 2] = some [(4294967295, 0)] := ⟨rfl, rfl, rfl⟩

/-- the same without reference to pass 1: the image of a successful run is the `pass2` image (`pass2` is
defined on every program that assembles) -/
theorem run_is_pass2 (p : List Stmt) (img : Img) (h : run p = .ok img) (hwf : ∀ s ∈ p, s.wf) :
    ∃ img', Ref.pass2 none [] p = some img' ∧ ∀ a, img.get a = img'.get a :=
  run_pass2 p img h hwf

/-- C05 / C13: the image of a successful run lies inside the 32-bit address space (hence so does the reference
image of every program that assembles). -/
theorem image_in_address_space (p : List Stmt) (img : Img) (h : run p = .ok img) (hwf : ∀ s ∈ p, s.wf) :
    ∀ a, top ≤ a → img.get a = none :=
  run_lt_top p img h hwf

example : (∃ img, run [Stmt.addr 4294967295, .raw [9]] = .ok img) ∧
    (∀ s ∈ [Stmt.addr 4294967295, .raw [9]], s.wf) := ⟨⟨_, rfl⟩, by decide⟩

/-- C05: success implies that the reference is defined, unless a label stands where the reference cursor is
2^32 (`Ref.pass1` is undefined there; the implementation gives such a label the value 0xFFFFFFFF). Together
with `layout_refines`: success always means "equals the reference". -/
theorem ref_defined (p : List Stmt) (img : Img) (h : run p = .ok img) (hwf : ∀ s ∈ p, s.wf)
    (hl : NoLabelAtTop p) : Ref.layout p ≠ none :=
  run_ref_defined p img h hwf hl

/-- `NoLabelAtTop` cannot be dropped: a label directly after a region filled through 0xFFFFFFFF -/
example : run [Stmt.addr 4294967295, .raw [0], .label 1] = .ok [(4294967295, 0)] ∧
    Ref.layout [Stmt.addr 4294967295, .raw [0], .label 1] = none := ⟨rfl, rfl⟩

/-- non-vacuity of `layout_refines` / `ref_defined`: forward reference, region switch downwards into a
region ending exactly at the deferred statement, label, padding `.align` -/
example : let p := [Stmt.addr 260, .emit 2 [1] [7, 0], .addr 255, .raw [1], .align 4, .label 2, .raw [2, 3, 4, 5],
      .const 1 [] 7]
    (∀ s ∈ p, s.wf) ∧ NoLabelAtTop p ∧ (∃ img, run p = .ok img) ∧ (∃ img', Ref.layout p = some img') := by
  refine ⟨by decide, ?_, ⟨_, rfl⟩, ⟨_, rfl⟩⟩
  · intro c n hc
    simp [Ref.trace, Ref.next, Ref.size] at hc
    rcases hc with ⟨rfl, rfl⟩
    decide


/-! ## Corollaries in the property's own words -/

/-- C05 (no placeholder survives): for every value-dependent statement `emit len deps final` of a program
that assembles — whether its symbols were known when it was met or it was written as 0xBE… and rewritten
by the task queue, in the region still open or in one closed long before — the image holds `final` at the
statement's reference address. -/
theorem no_placeholder (p q r : List Stmt) (len : Nat) (deps : List Nat) (final : Bytes) (img : Img)
    (h : run p = .ok img) (hwf : ∀ s ∈ p, s.wf) (hp : p = q ++ .emit len deps final :: r) :
    ∃ c, Ref.cursorAfter none q = some c ∧ ∀ i, i < len → img.get (c + i) = final[i]? := by
  obtain ⟨c, h1, h2⟩ := stmt_in_image p q r _ img h hwf hp rfl
  have hw : final.length = len := by
    have := hwf (.emit len deps final) (by rw [hp]; exact List.mem_append_right _ List.mem_cons_self)
    simpa [Stmt.wf] using this
  exact ⟨c, h1, fun i hi => h2 i (by rw [← hw] at hi; exact hi)⟩

example : ∃ c, Ref.cursorAfter none [Stmt.addr 260] = some c ∧
    ∀ i, i < 2 → Img.get [(256, 1), (257, 2), (258, 3), (259, 4), (260, 7), (261, 0), (260, 190), (261, 190)] (c + i)
      = [(7 : UInt8), 0][i]? :=
  no_placeholder [Stmt.addr 260, .emit 2 [1] [7, 0], .addr 256, .raw [1, 2, 3, 4], .const 1 [] 7]
    [.addr 260] [.addr 256, .raw [1, 2, 3, 4], .const 1 [] 7] 2 [1] [7, 0] _ rfl (by decide) rfl

/-- C05 (every statement's bytes at its address): the same for every emitting statement (`raw`, `emit`,
padding): its reference bytes stand at its reference address in the image. -/
theorem every_statement_placed (p q r : List Stmt) (s : Stmt) (img : Img) (h : run p = .ok img)
    (hwf : ∀ s ∈ p, s.wf) (hp : p = q ++ s :: r) (hs : s.emits) :
    ∃ c, Ref.cursorAfter none q = some c ∧
      ∀ i, i < (Ref.bytes c s).length → img.get (c + i) = (Ref.bytes c s)[i]? :=
  stmt_in_image p q r s img h hwf hp hs

example : ∃ c, Ref.cursorAfter none [Stmt.addr 16] = some c ∧
    ∀ i, i < (Ref.bytes c (Stmt.raw [5, 6])).length → Img.get [(16, 5), (17, 6)] (c + i) = (Ref.bytes c (.raw [5, 6]))[i]? :=
  every_statement_placed [.addr 16, .raw [5, 6]] [.addr 16] [] _ _ rfl (by decide) rfl rfl

/-- C05 (a label is the address of the next emitted byte), reference level: the value `Ref.pass1` records
for a label is the reference cursor `c` at which the next statement after it (skipping further labels and
constants) is met — the address at which `Ref.pass2` puts that statement's first byte. -/
theorem label_is_next (p q mid r : List Stmt) (n : Nat) (s : Stmt) (e : Env)
    (h : Ref.pass1 none [] p = some e) (hp : p = q ++ .label n :: (mid ++ s :: r))
    (hmid : ∀ x ∈ mid, x.silent) :
    ∃ c, c < top ∧ e.get n = some (c : Int) ∧ Ref.cursorAfter none (q ++ .label n :: mid) = some c ∧
      (some c, s) ∈ Ref.trace none p := by
  subst hp
  obtain ⟨c, h1, h2, h3⟩ := pass1_label q _ none [] e n h
  have hcur : Ref.cursorAfter none (q ++ .label n :: mid) = some c := by
    rw [cursorAfter_append, h1]
    exact cursorAfter_silent mid _ hmid
  refine ⟨c, h2, h3, hcur, ?_⟩
  have : q ++ .label n :: (mid ++ s :: r) = (q ++ .label n :: mid) ++ s :: r := by simp
  rw [this, trace_append, hcur]
  exact List.mem_append_right _ List.mem_cons_self

example : ∃ c, c < top ∧ Env.get [(2, 256)] 2 = some (c : Int) ∧
    Ref.cursorAfter none ([Stmt.addr 255, .raw [1], .align 4] ++ .label 2 :: []) = some c ∧
    (some c, Stmt.raw [2, 3]) ∈ Ref.trace none [Stmt.addr 255, .raw [1], .align 4, .label 2, .raw [2, 3]] :=
  label_is_next [.addr 255, .raw [1], .align 4, .label 2, .raw [2, 3]] [.addr 255, .raw [1], .align 4] [] []
    2 (.raw [2, 3]) _ rfl rfl (fun _ hx => by cases hx)

/-- C05 (a label is the address of the next emitted byte), image level: in the image of a program that
assembles, the first byte of the next emitting statement stands at the label's value. -/
theorem label_is_next_image (p q mid r : List Stmt) (n : Nat) (s : Stmt) (e : Env) (img : Img)
    (hrun : run p = .ok img) (hwf : ∀ s ∈ p, s.wf)
    (h : Ref.pass1 none [] p = some e) (hp : p = q ++ .label n :: (mid ++ s :: r))
    (hmid : ∀ x ∈ mid, x.silent) (hs : s.emits) :
    ∃ c : Nat, e.get n = some (c : Int) ∧ ∀ b bs, Ref.bytes c s = b :: bs → img.get c = some b := by
  obtain ⟨c, _, h2, h3, _⟩ := label_is_next p q mid r n s e h hp hmid
  have hp' : p = (q ++ .label n :: mid) ++ s :: r := by rw [hp]; simp
  obtain ⟨c', g1, g2⟩ := stmt_in_image p _ r s img hrun hwf hp' hs
  rw [h3] at g1; cases g1
  refine ⟨c, h2, fun b bs hb => ?_⟩
  have := g2 0 (by rw [hb]; simp)
  rw [hb] at this
  simpa using this

example : ∃ c : Nat, Env.get [(2, 256)] 2 = some (c : Int) ∧
    ∀ b bs, Ref.bytes c (Stmt.raw [2, 3]) = b :: bs →
      Img.get [(255, 1), (256, 2), (257, 3)] c = some b :=
  label_is_next_image [.addr 255, .raw [1], .label 2, .raw [2, 3]] [.addr 255, .raw [1]] [] []
    2 (.raw [2, 3]) _ _ rfl (by decide) rfl rfl (fun _ hx => by cases hx) rfl

/-- C05 (position independence of constants, 1): `Ref.pass2` ignores `.const` statements -/
theorem const_ignored (q r : List Stmt) (c : Option Nat) (im : Img) (n : Nat) (d : List Nat) (v : Int) :
    Ref.pass2 c im (q ++ .const n d v :: r) = Ref.pass2 c im (q ++ r) :=
  pass2_const q r c im n d v

/-- C05 (position independence of constants, 2): moving a `.const` earlier or later — as long as pass 1
still succeeds (no duplicate definition) — does not change the reference layout. -/
theorem const_position_irrelevant (q r t : List Stmt) (n : Nat) (d : List Nat) (v : Int)
    (h1 : Ref.pass1 none [] (q ++ .const n d v :: (r ++ t)) ≠ none)
    (h2 : Ref.pass1 none [] (q ++ (r ++ .const n d v :: t)) ≠ none) :
    Ref.layout (q ++ .const n d v :: (r ++ t)) = Ref.layout (q ++ (r ++ .const n d v :: t)) := by
  have e2 : Ref.pass2 none [] (q ++ (r ++ .const n d v :: t)) = Ref.pass2 none [] (q ++ (r ++ t)) := by
    rw [← List.append_assoc, pass2_const, List.append_assoc]
  rw [layout_eq _ h1, layout_eq _ h2, pass2_const, e2]

example : Ref.layout ([Stmt.addr 0] ++ .const 1 [] 7 :: ([.emit 1 [1] [7]] ++ [.raw [9]]))
    = Ref.layout ([Stmt.addr 0] ++ ([.emit 1 [1] [7]] ++ .const 1 [] 7 :: [.raw [9]])) :=
  const_position_irrelevant _ _ _ _ _ _ (by decide) (by decide)

/-- C05 (forward = backward): two programs that differ only in whether a constant is defined before or
after its uses, and that both assemble, produce the same image. -/
theorem forward_equals_backward (q r t : List Stmt) (n : Nat) (d : List Nat) (v : Int) (i1 i2 : Img)
    (h1 : run (q ++ .const n d v :: (r ++ t)) = .ok i1) (h2 : run (q ++ (r ++ .const n d v :: t)) = .ok i2)
    (hwf : ∀ s ∈ q ++ (r ++ t), s.wf) : ∀ a, i1.get a = i2.get a := by
  have hwf1 : ∀ s ∈ q ++ .const n d v :: (r ++ t), s.wf = true := by
    intro s hs
    rcases List.mem_append.mp hs with h | h
    · exact hwf s (List.mem_append_left _ h)
    · rcases List.mem_cons.mp h with rfl | h
      · rfl
      · exact hwf s (List.mem_append_right _ h)
  have hwf2 : ∀ s ∈ q ++ (r ++ .const n d v :: t), s.wf = true := by
    intro s hs
    rcases List.mem_append.mp hs with h | h
    · exact hwf s (List.mem_append_left _ h)
    · rcases List.mem_append.mp h with h | h
      · exact hwf s (List.mem_append_right _ (List.mem_append_left _ h))
      · rcases List.mem_cons.mp h with rfl | h
        · rfl
        · exact hwf s (List.mem_append_right _ (List.mem_append_right _ h))
  obtain ⟨m1, e1, g1⟩ := run_pass2 _ i1 h1 hwf1
  obtain ⟨m2, e2, g2⟩ := run_pass2 _ i2 h2 hwf2
  rw [pass2_const] at e1
  rw [← List.append_assoc q r, pass2_const, List.append_assoc] at e2
  rw [e1] at e2; cases e2
  exact fun a => by rw [g1 a, g2 a]

example : ∀ a, Img.get [(8, 9), (0, 7)] a = Img.get [(8, 9), (0, 7), (0, 190)] a :=
  forward_equals_backward [.addr 0] [.emit 1 [1] [7], .addr 8] [.raw [9]] 1 [] 7 _ _ rfl rfl (by decide)

/-- C05 (forward = backward, general form): any two programs with the same reference layout that both
assemble produce the same image. -/
theorem same_reference_same_image (p1 p2 : List Stmt) (i1 i2 ref : Img)
    (h1 : run p1 = .ok i1) (h2 : run p2 = .ok i2) (hwf1 : ∀ s ∈ p1, s.wf) (hwf2 : ∀ s ∈ p2, s.wf)
    (hr1 : Ref.layout p1 = some ref) (hr2 : Ref.layout p2 = some ref) : ∀ a, i1.get a = i2.get a :=
  fun a => by
    rw [layout_refines p1 i1 ref h1 hwf1 hr1 a, layout_refines p2 i2 ref h2 hwf2 hr2 a]

example : ∀ a, Img.get [(0, 7)] a = Img.get [(0, 7)] a :=
  same_reference_same_image [.addr 0, .raw [7]] [.addr 0, .label 3, .raw [7]] _ _ _ rfl rfl (by decide) (by decide)
    rfl rfl

/-- C05 (symbol values): the symbol table the machine has built when the last statement has been processed
IS the table of `Ref.pass1` — every label has the reference address of the next byte, every constant its
value, and no value ever changes. -/
theorem symbols_agree (p : List Stmt) (st : State) (h : steps {} p = .ok st) (hwf : ∀ s ∈ p, s.wf)
    (hl : NoLabelAtTop p) : Ref.pass1 none [] p = some st.env :=
  steps_env p {} st none [] rel_init hwf hl h

example : Ref.pass1 none [] [Stmt.addr 8, .raw [1], .label 4, .const 5 [4] 9] = some [(5, 9), (4, 9)] :=
  symbols_agree [.addr 8, .raw [1], .label 4, .const 5 [4] 9]
    { closed := [], active := some { base := 8, buf := [1], maxLen := 4294967288 }, env := [(5, 9), (4, 9)], tasks := [] }
    rfl (by decide)
    (fun c n hc => by
      simp [Ref.trace, Ref.next] at hc
      rcases hc with ⟨rfl, rfl⟩
      decide)

end Trion.Layout
