import TrionModel.Lemmas.LayoutRun
/-!
# C05 — the program image equals the sequential layout of its statements (layout core)

Property theorems only. Model: `Trion.Layout` (Model/Layout.lean): `run` = the statement loop of
`Context::do_assemble`, `change_segment` / `close_segment`, `ActiveSegment::{write, write_at, curr_addr,
remaining}`, the placeholder / deferred-rewrite mechanics of `write_instr` / `write_data`, and the local task
queue of `Context::assemble`; `Ref.layout` = the two-pass reference layout. The model is tied to the real
`Context` pipeline on every run by harness/src/asm.rs (`layout run` / `layout ref`).
-/
namespace Trion.Layout

/-- C06 for the layout core (the three `assert_eq!` on put counts in `close_segment` and in the deferred
rewrite, the `remaining()` underflow of `ActiveSegment::write` / `write_at`, the `write_at` index check):
NONE of them can fire, for EVERY program whose value-dependent statements have a value-independent length
(`Stmt.wf`: `emit len deps final` has `final.length = len`; the real encoders guarantee this — C01/C04/C11). -/
theorem run_no_panic (p : List Stmt) (hwf : ∀ s ∈ p, s.wf) : run p ≠ .error .panic :=
  run_no_panic' p hwf

/-- non-vacuity: a well-formed program with a forward reference across a region switch, into a region that
ends exactly where the deferred statement begins, assembles. -/
example : (∀ s ∈ [Stmt.addr 260, .emit 2 [1] [7, 0], .addr 256, .raw [1, 2, 3, 4], .const 1 [] 7], s.wf) ∧
    run [Stmt.addr 260, .emit 2 [1] [7, 0], .addr 256, .raw [1, 2, 3, 4], .const 1 [] 7]
      = .ok [(256, 1), (257, 2), (258, 3), (259, 4), (260, 7), (261, 0), (260, 190), (261, 190)] :=
  ⟨by decide, rfl⟩

/-- `wf` cannot be dropped: a deferred statement whose final bytes are longer than its placeholder hits the
`assert_eq!(n, 0)` of the rewrite once its region is closed. -/
example : run [Stmt.addr 0, .emit 1 [1] [0, 0], .addr 16, .const 1 [] 0] = .error .panic := rfl

end Trion.Layout
