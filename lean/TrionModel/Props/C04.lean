import TrionModel.Model.Front
/-!
# C04 — an instruction statement assembles to the encoding of what was written
(first instalment; see below for the full list)
-/
namespace Trion.Front

/-- C04.a  `i32::try_from(i64)` succeeds exactly on the `i32` range and returns the value unchanged
(never a wrapped or truncated one). -/
theorem narrow_exact_i32 (v w : Int) : narrowI32 v = some w ↔ (-2147483648 ≤ v ∧ v ≤ 2147483647 ∧ w = v) := by
  unfold narrowI32; split <;> simp_all <;> omega
theorem narrow_exact_u32 (v w : Int) : narrowU32 v = some w ↔ (0 ≤ v ∧ v ≤ 4294967295 ∧ w = v) := by
  unfold narrowU32; split <;> simp_all <;> omega
theorem narrow_exact_u16 (v w : Int) : narrowU16 v = some w ↔ (0 ≤ v ∧ v ≤ 65535 ∧ w = v) := by
  unfold narrowU16; split <;> simp_all <;> omega
theorem narrow_exact_u8 (v w : Int) : narrowU8 v = some w ↔ (0 ≤ v ∧ v ≤ 255 ∧ w = v) := by
  unfold narrowU8; split <;> simp_all <;> omega

example : narrowU8 255 = some 255 ∧ narrowU8 256 = none ∧ narrowI32 (-2147483649) = none := by decide

/-- C04.g  `[R + k]` and `[k + R]` denote the same address operand. -/
theorem addr_order (idx : Nat) (r : Bytes) (k : Int) :
    addrOff idx (.bin .add (.ident r) (.const k)) = addrOff idx (.bin .add (.const k) (.ident r)) := by
  simp [addrOff]

end Trion.Front
