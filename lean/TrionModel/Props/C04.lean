import TrionModel.Lemmas.FrontTargets
import TrionModel.Lemmas.FrontReject
import TrionModel.Lemmas.ShowAsm
import TrionModel.Lemmas.FrontWf
import TrionModel.Props.C02
import TrionModel.Props.C01
/-!
# C04 — an instruction statement assembles to the encoding of what was written

Model: `Front.build` = `ArmInstr::new` + `ArmInstr::assemble` of `src/arm6m/mod.rs`, parametric in the
expression evaluator `eval` (C07/C08) and followed by `Instruction::encode` (C01/C02). Statements are
mnemonic + argument trees; text → trees is C09–C11.

What is proved here, for every address, every spelling and every evaluator:
* narrowing is exact (`narrow_exact_*`): a value is accepted iff it fits, and is stored unchanged;
* register names (`reg_names`) and letter case (`*_upper`): a name denotes register `r` iff its upper-case
  form is one of `R0…R15`, `SP`, `LR`, `PC` with the documented aliasing;
* PC-relative operands (`b_target`, `bl_target`, `adr_target`, `ldr_target`): the statement is accepted iff the
  target is a `u32`, `target − (addr + 4)` (word-aligned first for ADR / literal LDR; not wrapped) is in range and
  aligned — and then exactly that offset is stored;
* rejections (`arity_rejected`, `kind_rejected`, `build_wf`, the `↔` of the target theorems): wrong operand count and
  wrong operand kind give a diagnostic, never an instruction;
* `[R + k]` and `[k + R]` are the same operand (`addr_order`);
* `assemble` never panics (`assemble_no_panic`);
* composition with the codec (`front_then_enc`), stated against any encoder/decoder pair with the C01/C02
  soundness property, and `front_canonical`: the canonical spelling of every instruction assembles to it.
-/
namespace Trion.Front
open Trion.Show

/-- C04.a  `i32::try_from(i64)` succeeds exactly on the `i32` range and returns the value unchanged
(never a wrapped or truncated one); likewise `u32`, `u16`, `u8`. -/
theorem narrow_exact_i32 (v w : Int) : narrowI32 v = some w ↔ (-2147483648 ≤ v ∧ v ≤ 2147483647 ∧ w = v) := by
  unfold narrowI32; split <;> simp_all <;> omega
theorem narrow_exact_u32 (v w : Int) : narrowU32 v = some w ↔ (0 ≤ v ∧ v ≤ 4294967295 ∧ w = v) := by
  unfold narrowU32; split <;> simp_all <;> omega
theorem narrow_exact_u16 (v w : Int) : narrowU16 v = some w ↔ (0 ≤ v ∧ v ≤ 65535 ∧ w = v) := by
  unfold narrowU16; split <;> simp_all <;> omega
theorem narrow_exact_u8 (v w : Int) : narrowU8 v = some w ↔ (0 ≤ v ∧ v ≤ 255 ∧ w = v) := by
  unfold narrowU8; split <;> simp_all <;> omega

example : narrowU8 255 = some 255 ∧ narrowU8 256 = none ∧ narrowI32 (-2147483649) = none := by decide

/-- C04.b  A name denotes register `r` iff its ASCII-upper-case form is one of `r`'s documented names. -/
theorem reg_names (s : Bytes) (r : Reg) : regl s = some r ↔ upper s ∈ names r := reg_names_proof s r

example : names 13 = [bytesOf "R13", bytesOf "SP"] ∧ names 15 = [bytesOf "R15", bytesOf "PC"] ∧ names 3 = [bytesOf "R3"] := by decide
example : regl (bytesOf "lR") = some 14 ∧ regl (bytesOf "R16") = none := by decide

/-- C04.b'  Letter case is irrelevant for register, system-register and mnemonic lookup. -/
theorem names_any_case (s : Bytes) :
    regl (upper s) = regl s ∧ sysl (upper s) = sysl s ∧ mnemonic (upper s) = mnemonic s ∧ isRegister (upper s) = isRegister s :=
  ⟨regl_upper s, sysl_upper s, mnemonic_upper s, isRegister_upper s⟩

/-- C04.c  `B<c> target` at `a`: accepted iff the target is a `u32` and `target − (a + 4)` (`pcOf a`, not wrapped) is within
the range of the condition and even; the offset stored is exactly that difference. -/
theorem b_target (a : Nat) (name : Bytes) (c : Cond) (x : Arg) (tgt : Int) (eval : Arg → EvalOut) (loc : Bool) (off : Int)
    (hm : mnemonic name = some (.b c 0)) (he : eval x = .complete (.const tgt)) :
    build a name [x] eval loc = .completed (.b c off) ↔
      (0 ≤ tgt ∧ tgt ≤ 4294967295) ∧ off = tgt - (pcOf a : Nat) ∧ bLo c ≤ off ∧ off ≤ bHi c ∧ off % 2 = 0 :=
  b_target_proof a name c x tgt eval loc off hm he

/-- C04.c'  `BL target`. -/
theorem bl_target (a : Nat) (name : Bytes) (x : Arg) (tgt : Int) (eval : Arg → EvalOut) (loc : Bool) (off : Int)
    (hm : mnemonic name = some (.bl 0)) (he : eval x = .complete (.const tgt)) :
    build a name [x] eval loc = .completed (.bl off) ↔
      (0 ≤ tgt ∧ tgt ≤ 4294967295) ∧ off = tgt - (pcOf a : Nat) ∧ -16777216 ≤ off ∧ off ≤ 16777215 ∧ off % 2 = 0 :=
  bl_target_proof a name x tgt eval loc off hm he

/-- C04.d  `ADR Rd, target`: the offset stored is `target − ((a & ~3) + 4)` (`alPc a`, not wrapped), accepted iff it is in
`0 … 1020` and a multiple of 4. -/
theorem adr_target (a : Nat) (name s : Bytes) (d d' : Reg) (x : Arg) (tgt : Int) (eval : Arg → EvalOut) (loc : Bool) (off : Int)
    (hm : mnemonic name = some (.adr 0 0)) (hs : regl s = some d) (he : eval x = .complete (.const tgt)) :
    build a name [.ident s, x] eval loc = .completed (.adr d' off) ↔
      d' = d ∧ (0 ≤ tgt ∧ tgt ≤ 4294967295) ∧ off = tgt - (alPc a : Nat) ∧ 0 ≤ off ∧ off ≤ 1020 ∧ off % 4 = 0 :=
  adr_target_proof a name s d d' x tgt eval loc off hm hs he

/-- C04.d'  `LDR Rd, target` (literal): base register PC and the same offset rule. -/
theorem ldr_target (a : Nat) (name s : Bytes) (d d' ad : Reg) (x : Arg) (tgt : Int) (eval : Arg → EvalOut) (loc : Bool) (o : ImmReg)
    (hm : mnemonic name = some (.ldr 0 0 (.imm 0))) (hs : regl s = some d) (he : eval x = .complete (.const tgt)) :
    build a name [.ident s, x] eval loc = .completed (.ldr d' ad o) ↔
      d' = d ∧ ad = Reg.pc ∧ (0 ≤ tgt ∧ tgt ≤ 4294967295) ∧
        ∃ off, o = .imm off ∧ off = tgt - (alPc a : Nat) ∧ 0 ≤ off ∧ off ≤ 1020 ∧ off % 4 = 0 :=
  ldr_target_proof a name s d d' ad x tgt eval loc o hm hs he

/-- non-vacuity: the four templates exist, and `BEQ` at 0x20000000 to 0x1FFFFF04 stores −256 -/
example : mnemonic (bytesOf "beq") = some (.b 0 0) ∧ mnemonic (bytesOf "Adr") = some (.adr 0 0) ∧
    mnemonic (bytesOf "LDR") = some (.ldr 0 0 (.imm 0)) ∧ mnemonic (bytesOf "bl") = some (.bl 0) := by decide
example : build 0x20000000 (bytesOf "BEQ") [.const 0x1FFFFF04] (fun a => .complete a) true = .completed (.b 0 (-256)) := by
  have hm : mnemonic (bytesOf "BEQ") = some (.b 0 0) := by decide
  exact (b_target 0x20000000 _ 0 _ 0x1FFFFF04 _ true (-256) hm rfl).mpr (by simp [pcOf, bLo, bHi])

/-- at the top of the address space a backward branch is accepted (offset −16 from 0xFFFFFFFC + 4 = 2^32) and
`ADR R0, 8` is refused (8 is not "after" 2^32) -/
example : build 0xFFFFFFFC (bytesOf "B") [.const 0xFFFFFFF0] (fun a => .complete a) true = .completed (.b 14 (-16)) := by
  have hm : mnemonic (bytesOf "B") = some (.b 14 0) := by decide
  exact (b_target 0xFFFFFFFC _ 14 _ 0xFFFFFFF0 _ true (-16) hm rfl).mpr (by simp [pcOf, bLo, bHi]; decide)
example (d : Reg) (off : Int) :
    build 0xFFFFFFFC (bytesOf "ADR") [.ident (bytesOf "R0"), .const 8] (fun a => .complete a) true ≠ .completed (.adr d off) := by
  have hm : mnemonic (bytesOf "ADR") = some (.adr 0 0) := by decide
  have hs : regl (bytesOf "R0") = some 0 := by decide
  intro h
  have := (adr_target 0xFFFFFFFC _ _ 0 d _ 8 _ true off hm hs rfl).mp h
  simp [alPc] at this
  omega

/-- C04.e  A wrong operand count is a diagnostic (`TooManyArguments` / `NotEnoughArguments`), whatever the
operands are; the instruction is left at its template. -/
theorem arity_rejected (a : Nat) (name : Bytes) (args : List Arg) (eval : Arg → EvalOut) (loc : Bool) (t : Instr)
    (hm : mnemonic name = some t) (h : args.length ≠ (kinds t).length) :
    build a name args eval loc =
      .error (if args.length > (kinds t).length then .tooMany (kinds t).length args.length
              else .notEnough (kinds t).length args.length)
        { addr := a, instr := t, argsDone := 0, args := args } :=
  arity_rejected_proof a name args eval loc t hm h

/-- C04.e'  A getter yields a value only from an (evaluated) argument of a kind it accepts; any other kind ends
`assemble` with a diagnostic or a deferral — never with a value. -/
theorem kind_rejected {k : Kind} {eval : Arg → EvalOut} {loc : Bool} {pos done : Nat} {a a' : Arg} {d : Nat} {v : Val}
    (h : get k eval loc pos done a = .ok v a' d) : a'.ty ∈ accepts k := get_accepts h

example : get .register (fun a => .complete a) true 0 0 (.const 5) = .stop (.const 5) 0 (.error (.argType 0 [.ident] .const)) := by
  simp [get, Arg.ty]

/-- C04.e''  Whatever the operands and the evaluator: an instruction that `build` completes has every field
inside the range of its Rust type (`i32` immediates and offsets, `u16` ADR offset / UDF.W payload, `u8`
BKPT/SVC/UDF payload) — an operand outside its type's range has produced a diagnostic, never a wrapped or
truncated field. (Encodability of the in-type value is then the encoder's decision, C01.) -/
theorem build_wf (a : Nat) (name : Bytes) (args : List Arg) (eval : Arg → EvalOut) (loc : Bool) (i : Instr)
    (h : build a name args eval loc = .completed i) : i.wf :=
  build_wf_proof a name args eval loc i h

/-- C04.f  `assemble` never reaches the `self.args[arg_pos]` index panic (the only panic site of the function). -/
theorem assemble_no_panic (st : St) (eval : Arg → EvalOut) (loc : Bool) : (assemble st eval loc).2 ≠ .panic :=
  assemble_no_panic_proof st eval loc

/-- C04.g  `[R + k]` and `[k + R]` denote the same address operand. -/
theorem addr_order (idx : Nat) (r : Bytes) (k : Int) :
    addrOff idx (.bin .add (.ident r) (.const k)) = addrOff idx (.bin .add (.const k) (.ident r)) := by
  simp [addrOff]

/-- C04.h  The canonical spelling of every (printable) instruction assembles to that instruction. -/
theorem front_canonical (i : Instr) (a : Nat) (eval : Arg → EvalOut) (loc : Bool)
    (hp : Printable i a) (he : EvalOK eval i a) :
    build a (parts i a).1 (parts i a).2 eval loc = .completed i :=
  show_assembles_proof i a eval loc hp he

/-- C04.i  Composition with the codec, against ANY encoder/decoder pair that has the soundness property of
C01/C02 (`encode i = ok hws → decode hws = some i`): the bytes emitted for an accepted statement decode to
exactly the instruction the front end built (whose operands are characterised by the theorems above). -/
theorem front_then_enc {Hws Err : Type} (encode : Instr → Except Err Hws) (decode : Hws → Option Instr)
    (sound : ∀ i hws, encode i = .ok hws → decode hws = some i)
    (a : Nat) (name : Bytes) (args : List Arg) (eval : Arg → EvalOut) (loc : Bool) (i : Instr) (hws : Hws)
    (hb : build a name args eval loc = .completed i) (he : encode i = .ok hws) :
    decode hws = some i ∧ ∃ t, mnemonic name = some t ∧ args.length = (kinds t).length := by
  refine ⟨sound i hws he, ?_⟩
  cases hm : mnemonic name with
  | none => simp [build, hm] at hb
  | some t =>
    refine ⟨t, rfl, ?_⟩
    by_cases hl : args.length = (kinds t).length
    · exact hl
    · rw [arity_rejected_proof a name args eval loc t hm hl] at hb; cases hb

/-- C04.j  **Concrete end to end**: composition with the codec model of C01–C03 (`Codec.encode`, `Codec.toBytes`,
`Codec.decode`). Whenever the front end completes a statement and the encoder accepts the instruction, the
emitted bytes — followed by anything — decode to exactly the instruction the front end built, consuming exactly
the emitted bytes; the instruction's operands are the ones written (`b_target` … `ldr_target`, `reg_names`,
`narrow_exact_*`, `build_wf`), the mnemonic is in the table and the operand count is the mnemonic's.
(`front_then_arm` below states the same against the specification table `Arm.decode`.) -/
theorem front_then_codec (a : Nat) (name : Bytes) (args : List Arg) (eval : Arg → EvalOut) (loc : Bool) (i : Instr)
    (hws rest : List Nat) (hb : build a name args eval loc = .completed i) (he : Codec.encode i = .ok hws) :
    Codec.decode (Codec.toBytes hws ++ rest) = .ok (2 * hws.length, i) ∧ i.wf ∧
      ∃ t, mnemonic name = some t ∧ args.length = (kinds t).length := by
  have wf := build_wf a name args eval loc i hb
  refine ⟨Codec.dec_enc i hws rest he wf, wf, ?_⟩
  exact (front_then_enc (fun j => if j = i then (Except.ok hws : Except Unit (List Nat)) else .error ())
    (fun _ => some i) (by intro j w h; split at h <;> simp_all) a name args eval loc i hws hb (by simp)).2

/-- the canonical spelling of every decoded instruction goes through the whole chain: printed operands → front
end → encoder → decoder gives the instruction back -/
theorem canonical_then_codec (i : Instr) (a : Nat) (eval : Arg → EvalOut) (loc : Bool)
    (hp : Printable i a) (hev : EvalOK eval i a) (hws : List Nat) (he : Codec.encode i = .ok hws) :
    build a (parts i a).1 (parts i a).2 eval loc = .completed i ∧
      Codec.decode (Codec.toBytes hws) = .ok (2 * hws.length, i) := by
  have hb := front_canonical i a eval loc hp hev
  have := (front_then_codec a _ _ eval loc i hws [] hb he).1
  rw [List.append_nil] at this
  exact ⟨hb, this⟩

/-- C04.k  **Against the architecture table**: composition with C01 `enc_sound`. Whenever the front end completes
a statement to `i` and the encoder accepts `i`, the halfwords placed are — in the ARMv6-M encoding table
`Arm.table` / `Arm.decode` of `Spec/Arm.lean`, which shares no code with the encoder or decoder model — the
encoding of exactly `i`: that mnemonic with exactly those operand values (which `b_target` … `ldr_target`,
`reg_names`, `narrow_exact_*` tie to what was written). The emitted bytes are one or two little-endian halfwords
below 2^16, two exactly when the first halfword lies in the 32-bit space, and the decoder model reads them back. -/
theorem front_then_arm (a : Nat) (name : Bytes) (args : List Arg) (eval : Arg → EvalOut) (loc : Bool) (i : Instr)
    (hws : List Nat) (hb : build a name args eval loc = .completed i) (he : Codec.encode i = .ok hws) :
    Arm.decode hws = some i ∧ i.wf ∧ (hws.length = 1 ∨ hws.length = 2) ∧ (∀ w ∈ hws, w < 65536) ∧
      (∀ w0 ∈ hws.head?, (hws.length = 2 ↔ Arm.wide w0 = true)) ∧
      (∀ rest, Codec.decode (Codec.toBytes hws ++ rest) = .ok (2 * hws.length, i)) ∧
      ∃ t, mnemonic name = some t ∧ args.length = (kinds t).length := by
  have wf := build_wf a name args eval loc i hb
  have hl := Codec.enc_len i hws he wf
  exact ⟨Codec.enc_sound i hws he wf, wf, hl.1, hl.2.1, hl.2.2,
    fun rest => (front_then_codec a name args eval loc i hws rest hb he).1,
    (front_then_codec a name args eval loc i hws [] hb he).2.2⟩

/-- C04.k'  The canonical spelling (`Show.parts`, what the disassembler prints) of every printable instruction the
encoder accepts assembles to halfwords that the architecture table reads as that instruction. -/
theorem canonical_then_arm (i : Instr) (a : Nat) (eval : Arg → EvalOut) (loc : Bool)
    (hp : Printable i a) (hev : EvalOK eval i a) (hws : List Nat) (he : Codec.encode i = .ok hws) :
    build a (parts i a).1 (parts i a).2 eval loc = .completed i ∧ Arm.decode hws = some i :=
  ⟨front_canonical i a eval loc hp hev,
   (front_then_arm a _ _ eval loc i hws (front_canonical i a eval loc hp hev) he).1⟩

/-- C04.k''  Conversely nothing encodable is lost between front end and table: if the table has an encoding of the
instruction the front end built, the encoder accepts it and emits an encoding of it (C01 `enc_complete`). -/
theorem front_arm_complete (a : Nat) (name : Bytes) (args : List Arg) (eval : Arg → EvalOut) (loc : Bool) (i : Instr)
    (hws : List Nat) (_hb : build a name args eval loc = .completed i) (hd : Arm.decode hws = some i) :
    ∃ hws', Codec.encode i = .ok hws' ∧ Arm.decode hws' = some i := Codec.enc_complete i hws hd

/-- non-vacuity: `ADDS R1, R2, 5` at 0 with the identity evaluator -/
example : build 0 (bytesOf "ADDS") [.ident (bytesOf "R1"), .ident (bytesOf "R2"), .const 5] (fun x => .complete x) false =
      .completed (.add true 1 2 (.imm 5)) ∧
    Codec.encode (.add true 1 2 (.imm 5)) = .ok [0x1D51] ∧ Arm.decode [0x1D51] = some (.add true 1 2 (.imm 5)) :=
  ⟨rfl, rfl, (front_then_arm 0 (bytesOf "ADDS") [.ident (bytesOf "R1"), .ident (bytesOf "R2"), .const 5]
    (fun x => .complete x) false _ _ rfl rfl).1⟩

/-- non-vacuity: `ADDS R1, R2, 5` at 0 with the identity evaluator -/
example : build 0 (bytesOf "ADDS") [.ident (bytesOf "R1"), .ident (bytesOf "R2"), .const 5] (fun x => .complete x) false =
      .completed (.add true 1 2 (.imm 5)) ∧
    Codec.encode (.add true 1 2 (.imm 5)) = .ok [0x1D51] ∧ Codec.decode (Codec.toBytes [0x1D51]) = .ok (2, .add true 1 2 (.imm 5)) := by
  refine ⟨rfl, rfl, rfl⟩

end Trion.Front
