import TrionModel.Lemmas.Uf2
/-!
# C16 — UF2 writer output is well-formed and reproduces the data

Property theorems only (helper lemmas: `Lemmas/Uf2.lean`; model and reader: `Model/Uf2.lean`).

Setting of the history theorems: a writer created by `new` (fixed buffer of `cap` bytes) or `new_vec`
(vector already holding `pre` bytes) — `Start` — followed by any sequence `ops` of `write` /
`write_all` calls with 32-bit addresses. No such history panics (`no_panic`, `no_panic_history`): since
/repo 13f4488 `write` rejects with `BlockCount{need: 1, have: 0}` once 2^32 − 1 blocks have been written,
so the unchecked `self.count += 1` of `encode` cannot overflow any more.
`finish` is `Drop`. `read` is the independent reader: it returns `some` only for a whole number of
512-byte blocks that each carry the three magic numbers and a payload size ≤ 476.
-/
namespace Trion.Uf2

/-- C16.a  `new` / `new_vec` accept exactly: 1 ≤ payload size ≤ 476, alignment ≥ 1 dividing it. -/
theorem cfg_valid (fam : Option Nat) (ps al n : Nat) :
    ((∃ st, new fam ps al n = .ok st) ↔ (1 ≤ ps ∧ ps ≤ 476 ∧ 1 ≤ al ∧ ps % al = 0)) ∧
    ((∃ st, newVec fam ps al n = .ok st) ↔ (1 ≤ ps ∧ ps ≤ 476 ∧ 1 ≤ al ∧ ps % al = 0)) := by
  have key : checkCfg ps al = .ok () ↔ (1 ≤ ps ∧ ps ≤ 476 ∧ 1 ≤ al ∧ ps % al = 0) := by
    unfold checkCfg
    split
    · simp; omega
    · split
      · simp; omega
      · simp; omega
  unfold new newVec
  constructor <;> rw [← key] <;> cases checkCfg ps al <;> simp

/-- a freshly constructed writer: family id is a `u32`, buffer / vector length at most `isize::MAX` -/
def Start (st : St) : Prop :=
  ∃ fam ps al n, (∀ f, fam = some f → f < 4294967296) ∧ n ≤ 9223372036854775807 ∧
    (new fam ps al n = .ok st ∨ newVec fam ps al n = .ok st)

def NoPanic (st : St) (ops : List Op) : Prop := ∀ r ∈ (run st ops).2, ∀ s, r ≠ .panic s

def Addr32 (ops : List Op) : Prop := ∀ op ∈ ops, op.addr < 4294967296

theorem Start.inv {st : St} (h : Start st) : Inv st ∧ st.out = [] ∧ st.count = 0 := by
  obtain ⟨fam, ps, al, n, hf, hn, h⟩ := h
  have hv : ∀ st, (new fam ps al n = .ok st ∨ newVec fam ps al n = .ok st) → 1 ≤ ps ∧ ps ≤ 476 ∧ 1 ≤ al ∧ ps % al = 0 := by
    intro st h
    rcases h with h | h
    · exact ((cfg_valid fam ps al n).1).mp ⟨st, h⟩
    · exact ((cfg_valid fam ps al n).2).mp ⟨st, h⟩
  have hv := hv st h
  have hblocks : ∃ bl : List Blk, AllOk bl ∧ ([] : List UInt8) = encAll ⟨ps, al, fam⟩ 0 bl ∧ bl.length = 0 ∧
      ∀ k (h : k < bl.length), bl[k].no = k := ⟨[], by simp [AllOk], rfl, rfl, by simp⟩
  unfold new newVec at h
  rcases h with h | h <;> cases hc : checkCfg ps al <;> rw [hc] at h <;> simp at h <;> subst h
  · exact ⟨⟨hv, hf, Nat.zero_le _, hn, by simp, by simp, hblocks⟩, rfl, rfl⟩
  · exact ⟨⟨hv, hf, Nat.le_refl _, hn, by simp, by simp, hblocks⟩, rfl, rfl⟩

/-- C16.b  **Well-formed output.** After any accepted history and `Drop`, the output is a whole number of
512-byte blocks (one per appended block), the independent reader decodes it (so every block carries the
three magic numbers), block `k` is numbered `k` (from 0), carries the total block count, the family id (or
0) and exactly the flags "family id present" (0x2000, iff configured) and "not main flash" (1). -/
theorem wellformed (st0 : St) (h0 : Start st0) (ops : List Op) (ha : Addr32 ops) :
    ∃ out bs, finish (run st0 ops).1 = .ok out ∧ out.length = 512 * (run st0 ops).1.count ∧
      read out = some bs ∧ bs.length = (run st0 ops).1.count ∧
      ∀ k (hk : k < bs.length), bs[k].blockNo = k ∧ bs[k].numBlocks = bs.length ∧
        bs[k].fam = (match st0.cfg.fam with | none => 0 | some f => f) ∧
        (bs[k].flags = (if st0.cfg.fam.isSome then 8192 else 0) ∨
         bs[k].flags = 1 + (if st0.cfg.fam.isSome then 8192 else 0)) ∧
        bs[k].psize ≤ 476 := by
  obtain ⟨hI0, hout0, hcnt0⟩ := h0.inv
  obtain ⟨hI, hE, _⟩ := run_spec ops st0 hI0 ha
  have hout : (run st0 ops).1.out = encAll (run st0 ops).1.cfg 0 (runBlks st0 ops).flatten := by
    rw [hE.out, hout0, hE.cfg]; rfl
  have hlen : (runBlks st0 ops).flatten.length = (run st0 ops).1.count := by rw [hE.count, hcnt0]; omega
  obtain ⟨f1, f2, f3⟩ := finish_spec _ hI _ hE.ok hout hlen
  refine ⟨_, _, f1, f3, f2, by rw [List.length_map]; exact hlen, ?_⟩
  intro k hk
  simp only [List.length_map] at hk
  have hno := hE.no k hk
  simp only [List.getElem_map, toBlock, List.length_map, hE.cfg]
  refine ⟨by rw [hno, hcnt0]; omega, hlen.symm, rfl, ?_, (hE.ok _ (List.getElem_mem hk)).2.2.1⟩
  unfold flagsOf
  cases ((runBlks st0 ops).flatten[k]).nf <;> simp

/-- C16.c  **The data is reproduced.** After any accepted history and `Drop`, the reader decodes the output
into the concatenation of one block list per operation, and the image of the blocks of operation `i`
(payload-size bytes of each block at its target address) is exactly: for an accepted non-empty `write`,
the block followed by zeros up to the payload size, at its address; for an accepted `write_all`, the data
followed by zeros up to the next multiple of the alignment; no address at all for a rejected or empty
operation (`opImage`). -/
theorem reconstructs (st0 : St) (h0 : Start st0) (ops : List Op) (ha : Addr32 ops) :
    ∃ (out : List UInt8) (per : List (List Block)), finish (run st0 ops).1 = .ok out ∧ read out = some per.flatten ∧
      per.length = ops.length ∧
      ∀ i (h1 : i < per.length) (h2 : i < ops.length) (h3 : i < (run st0 ops).2.length) (x : Nat),
        image per[i] x = opImage st0.cfg ops[i] ((run st0 ops).2[i]) x := by
  obtain ⟨hI0, hout0, hcnt0⟩ := h0.inv
  obtain ⟨hI, hE, _⟩ := run_spec ops st0 hI0 ha
  have hout : (run st0 ops).1.out = encAll (run st0 ops).1.cfg 0 (runBlks st0 ops).flatten := by
    rw [hE.out, hout0, hE.cfg]; rfl
  have hlen : (runBlks st0 ops).flatten.length = (run st0 ops).1.count := by rw [hE.count, hcnt0]; omega
  obtain ⟨f1, f2, _⟩ := finish_spec _ hI _ hE.ok hout hlen
  refine ⟨_, (runBlks st0 ops).map (List.map (toBlock st0.cfg (run st0 ops).1.count)), f1, ?_, ?_, ?_⟩
  · rw [f2, hE.cfg, List.map_flatten]
  · simp [runBlks_length]
  · intro i h1 h2 h3 x
    simp only [List.getElem_map]
    exact runBlks_image ops st0 hI0 ha i (by simpa using h1) h2 h3 _ x

/-- C16.c'  **No address twice.** The address ranges `[target, target + payload size)` of the blocks that one
operation appends are pairwise disjoint (a `write` appends at most one block; the blocks of a `write_all`
are consecutive). -/
theorem no_dup_addr (st : St) (hI : Inv st) (op : Op) :
    List.Pairwise (fun b c : Blk => b.addr + b.blen ≤ c.addr) (stepBlks st op) := by
  cases op with
  | write a d nf =>
    simp only [stepBlks]
    split
    · unfold writeBlks; split <;> simp
    · simp
  | writeAll a d nf =>
    simp only [stepBlks]
    split
    · exact allBlks_disjoint st.cfg hI.valid nf _ _ _ _
    · simp

/-- C16.d  **Rejections of `write`.** From any reachable state (`Inv`), `write` returns an error exactly when
the block is non-empty and (its length is not a multiple of the alignment, or it is longer than the payload
size, or 2^32 − 1 blocks have already been written, or the destination has no room for 512 more bytes); then the state — in particular the output — is
unchanged, so no block is appended. -/
theorem rejects_write (st : St) (hI : Inv st) (addr : Nat) (ha : addr < 4294967296) (block : List UInt8) (nf : Bool) :
    WriteRejects st block ↔ ∃ e, write st addr block nf = (st, .err e) := by
  rcases write_spec st hI addr ha block nf with ⟨st', h, _, _, hnr⟩ | ⟨e, h, hr⟩
  · exact ⟨fun hr => absurd hr hnr, fun ⟨e, he⟩ => by rw [h] at he; cases he⟩
  · exact ⟨fun _ => ⟨e, h⟩, fun _ => hr⟩

/-- C16.d'  a single block longer than the payload size is rejected, not truncated (F20) -/
theorem rejects_long_block (st : St) (hI : Inv st) (addr : Nat) (ha : addr < 4294967296) (block : List UInt8)
    (nf : Bool) (h : block.length > st.cfg.ps) : ∃ e, write st addr block nf = (st, .err e) :=
  (rejects_write st hI addr ha block nf).mp
    ⟨by intro hb; subst hb; simp at h, .inr (.inl h)⟩

/-- C16.d''  the block counter is checked by `write` as well (/repo 13f4488): once 2^32 − 1 blocks have been
written a non-empty, aligned, not over-long block is rejected with `BlockCount{need: 1, have: 0}` (before the
capacity check), instead of overflowing `self.count += 1`. -/
theorem rejects_write_count (st : St) (addr : Nat) (block : List UInt8) (nf : Bool)
    (hb : block ≠ []) (hal : st.cfg.al ≠ 0) (h1 : block.length % st.cfg.al = 0) (h2 : block.length ≤ st.cfg.ps)
    (hc : st.count = 4294967295) : write st addr block nf = (st, .err (.blockCount 1 0)) := by
  unfold write
  have hemp : block.isEmpty = false := by simpa using hb
  rw [hemp]
  simp only [Bool.false_eq_true, if_false]
  rw [if_neg hal, if_neg (by omega), if_neg (by omega), if_pos hc]

/-- C16.e  **Rejections of `write_all`.** It returns an error exactly when the data is non-empty and
(rounding the length up to the alignment overflows `usize`, or the padded data does not fit below 2^32, or
the block counter would exceed `u32::MAX`, or the destination has no room for all blocks); then the state is
unchanged. Otherwise it succeeds and returns the number of appended blocks. -/
theorem rejects_writeAll (st : St) (hI : Inv st) (addr : Nat) (ha : addr < 4294967296) (data : List UInt8) (nf : Bool) :
    (WriteAllRejects st addr data ↔ ∃ e, writeAll st addr data nf = (st, .err e)) ∧
    (¬ WriteAllRejects st addr data → ∃ st', writeAll st addr data nf = (st', .ok (writeAllBlks st addr data nf).length)) := by
  rcases writeAll_spec st hI addr ha data nf with ⟨st', h, _, _, hnr⟩ | ⟨e, h, hr⟩
  · exact ⟨⟨fun hr => absurd hr hnr, fun ⟨e, he⟩ => by rw [h] at he; cases he⟩, fun _ => ⟨st', h⟩⟩
  · exact ⟨⟨fun _ => ⟨e, h⟩, fun _ => hr⟩, fun hn => absurd hr hn⟩

/-- C16.f  **No panic.** Neither `write` nor `write_all` panics from any reachable state (`Inv`; in
particular with the block counter at its maximum 2^32 − 1). -/
theorem no_panic (st : St) (hI : Inv st) (op : Op) (ha : op.addr < 4294967296) :
    ∀ s, (step st op).2 ≠ .panic s := by
  intro s
  rcases (step_spec st hI op ha).2.2 with ⟨n, h⟩ | ⟨⟨e, h⟩, _⟩ <;> rw [h] <;> simp

/-- C16.f'  **No panic, for every history**: no sequence of `write` / `write_all` calls (32-bit addresses) on
a freshly constructed writer panics, and neither does the final `Drop` (`wellformed`: `finish … = .ok _`). -/
theorem no_panic_history (st0 : St) (h0 : Start st0) (ops : List Op) (ha : Addr32 ops) : NoPanic st0 ops :=
  (run_spec ops st0 h0.inv.1 ha).2.2

/-- every state reached from `Start` satisfies the invariant used above -/
theorem reachable_inv (st0 : St) (h0 : Start st0) (ops : List Op) (ha : Addr32 ops) :
    Inv (run st0 ops).1 := (run_spec ops st0 h0.inv.1 ha).1

/-! ### the reader's result, block by block

The theorems above speak about the blocks an operation appends through the helper `stepBlks`
(`Lemmas/Uf2.lean`). The theorems of this section close the link to the **output**: what the independent
reader decodes from the bytes left after `Drop` is, operation by operation and block by block, exactly
`opBlocks` — and `opBlocks` is spelled out field by field (`opBlocks_rejected`, `opBlocks_write`,
`opBlocks_writeAll`), so nothing has to be taken from the definition of the helper. -/

/-- the blocks the reader must find for operation `op` issued in writer state `st` (its block counter is
`st.count`), when the finished file holds `t` blocks -/
def opBlocks (st : St) (t : Nat) (op : Op) : List Block := (stepBlks st op).map (toBlock st.cfg t)

/-- C16.g  **The output, block by block.** For every accepted configuration and every history, `Drop`
succeeds and the reader decodes the output into exactly the concatenation, over the operations in order, of
`opBlocks` of that operation in the state reached by the earlier operations (`run st0 (ops.take i)`), with
the final block count as total. -/
theorem output_blocks (st0 : St) (h0 : Start st0) (ops : List Op) (ha : Addr32 ops) :
    ∃ (out : List UInt8) (per : List (List Block)), finish (run st0 ops).1 = .ok out ∧
      read out = some per.flatten ∧ per.length = ops.length ∧
      ∀ i (h1 : i < per.length) (h2 : i < ops.length),
        per[i] = opBlocks (run st0 (ops.take i)).1 (run st0 ops).1.count ops[i] := by
  obtain ⟨hI0, hout0, hcnt0⟩ := h0.inv
  obtain ⟨hI, hE, _⟩ := run_spec ops st0 hI0 ha
  have hout : (run st0 ops).1.out = encAll (run st0 ops).1.cfg 0 (runBlks st0 ops).flatten := by
    rw [hE.out, hout0, hE.cfg]; rfl
  have hlen : (runBlks st0 ops).flatten.length = (run st0 ops).1.count := by rw [hE.count, hcnt0]; omega
  obtain ⟨f1, f2, _⟩ := finish_spec _ hI _ hE.ok hout hlen
  refine ⟨_, (runBlks st0 ops).map (List.map (toBlock st0.cfg (run st0 ops).1.count)), f1, ?_, ?_, ?_⟩
  · rw [f2, hE.cfg, List.map_flatten]
  · simp [runBlks_length]
  · intro i h1 h2
    have h1' : i < (runBlks st0 ops).length := by simpa using h1
    simp only [List.getElem_map, opBlocks]
    rw [runBlks_getElem ops st0 i h2 h1']
    -- the configuration never changes
    have hsub : Addr32 (ops.take i) := fun op hop => ha op (List.mem_of_mem_take hop)
    have hcfg := (run_spec (ops.take i) st0 hI0 hsub).2.1.cfg
    rw [hcfg]

/-- C16.g.1  a rejected operation contributes no block -/
theorem opBlocks_rejected (st : St) (t : Nat) (op : Op) (e : WriteErr) (h : (step st op).2 = .err e) :
    opBlocks st t op = [] := by
  cases op with
  | write a d nf =>
    simp only [step] at h
    simp only [opBlocks, stepBlks]
    rcases hw : write st a d nf with ⟨st', r⟩
    rw [hw] at h
    cases r <;> simp_all
  | writeAll a d nf =>
    simp only [step] at h
    simp only [opBlocks, stepBlks, h, List.map_nil]

/-- C16.g.2  an accepted `write` contributes nothing for an empty block and otherwise exactly one block:
the given target address, the configured payload size, the writer's current block number, the block's bytes
followed by zeros in the 476-byte data area; `flagsOf cfg nf = (1 if not-main-flash) + (0x2000 if a family id is
configured)`, `infoOf cfg` = the family id or 0 (`Model/Uf2.lean`) -/
theorem opBlocks_write (st : St) (t a : Nat) (d : List UInt8) (nf : Bool) (n : Nat)
    (h : (step st (.write a d nf)).2 = .ok n) :
    opBlocks st t (.write a d nf) =
      if d = [] then [] else
        [{ flags := flagsOf st.cfg nf, addr := a, psize := st.cfg.ps,
           blockNo := st.count, numBlocks := t, fam := infoOf st.cfg,
           data := d ++ zeros (476 - d.length) }] := by
  simp only [step] at h
  simp only [opBlocks, stepBlks]
  rcases hw : write st a d nf with ⟨st', r⟩
  rw [hw] at h
  cases r with
  | ok u =>
    simp only [writeBlks]
    by_cases hd : d = []
    · subst hd; simp
    · have hemp : d.isEmpty = false := by simpa using hd
      simp only [hemp, Bool.false_eq_true, if_false, if_neg hd, List.map_cons, List.map_nil, toBlock]
  | err e => simp at h
  | panic s => simp at h

/-- C16.g.3  an accepted `write_all` of `d` at `a` contributes block `k` for exactly the `k` with
`k·ps < d.length`; block `k` targets `a + k·ps`, carries the `k`-th chunk of `ps` bytes (zero-filled in the
data area), has payload size `ps` — except the last block, whose payload size is the remaining length
rounded up to the alignment — and block number `st.count + k`. -/
theorem opBlocks_writeAll (st : St) (hI : Inv st) (t a : Nat) (ha : a < 4294967296) (d : List UInt8) (nf : Bool)
    (n : Nat) (h : (step st (.writeAll a d nf)).2 = .ok n) :
    (∀ k, k < (opBlocks st t (.writeAll a d nf)).length ↔ k * st.cfg.ps < d.length) ∧
    n = (opBlocks st t (.writeAll a d nf)).length ∧
    ∀ k (hk : k < (opBlocks st t (.writeAll a d nf)).length),
      (opBlocks st t (.writeAll a d nf))[k] =
        { flags := flagsOf st.cfg nf, addr := a + k * st.cfg.ps,
          psize := (if st.cfg.ps < d.length - k * st.cfg.ps then st.cfg.ps
                    else roundUp (d.length - k * st.cfg.ps) st.cfg.al),
          blockNo := st.count + k, numBlocks := t, fam := infoOf st.cfg,
          data := (d.drop (k * st.cfg.ps)).take st.cfg.ps ++
                    zeros (476 - ((d.drop (k * st.cfg.ps)).take st.cfg.ps).length) } := by
  simp only [step] at h
  have hb : opBlocks st t (.writeAll a d nf) = (allBlks st.cfg nf d.length d a st.count).map (toBlock st.cfg t) := by
    simp only [opBlocks, stepBlks, h, writeAllBlks]
  rw [hb]
  refine ⟨?_, ?_, ?_⟩
  · intro k
    rw [List.length_map]
    exact allBlks_length_iff st.cfg hI.valid.1 nf d.length d a st.count (Nat.le_refl _) k
  · -- the returned count is the number of appended blocks
    rw [List.length_map]
    rcases writeAll_spec st hI a ha d nf with ⟨st', hw, _⟩ | ⟨e, hw, _⟩
    · rw [hw] at h; simp only [Res.ok.injEq] at h; rw [← h]; rfl
    · rw [hw] at h; cases h
  · intro k hk
    rw [List.length_map] at hk
    obtain ⟨i1, i2, i3, i4, i5⟩ := allBlks_getElem st.cfg nf d.length d a st.count k hk
    simp only [List.getElem_map, toBlock, i1, i2, i3, i4, i5]

/-- the blocks one operation contributes have positive payload sizes and pairwise disjoint, ascending target
ranges (stated on reader-level blocks) -/
theorem opBlocks_disjoint (st : St) (hI : Inv st) (t : Nat) (op : Op) :
    (opBlocks st t op).Pairwise (fun b c : Block => b.addr + b.psize ≤ c.addr ∧ b.addr ≠ c.addr) := by
  have hpos : ∀ b ∈ stepBlks st op, 1 ≤ b.blen := by
    intro b hb
    cases op with
    | write a d nf =>
      simp only [stepBlks] at hb
      split at hb
      · unfold writeBlks at hb
        split at hb
        · simp at hb
        · simp at hb; subst hb; exact hI.valid.1
      · simp at hb
    | writeAll a d nf =>
      simp only [stepBlks] at hb
      split at hb
      · exact allBlks_blen_pos st.cfg hI.valid nf _ _ _ _ b hb
      · simp at hb
  unfold opBlocks
  rw [List.pairwise_map]
  refine List.Pairwise.imp_of_mem ?_ (no_dup_addr st hI op)
  intro b c hb _ hbc
  have := hpos b hb
  simp only [toBlock]
  exact ⟨hbc, by omega⟩

/-- C16.h  **No address twice, on the output.** In the block list the reader decodes from the finished
output, the blocks contributed by any one operation (`per[i]`, identified block by block in `output_blocks`)
have pairwise disjoint target ranges `[addr, addr + payload size)`, in ascending order; in particular no
target address occurs twice among them. -/
theorem no_dup_addr_output (st0 : St) (h0 : Start st0) (ops : List Op) (ha : Addr32 ops) :
    ∃ (out : List UInt8) (per : List (List Block)), finish (run st0 ops).1 = .ok out ∧
      read out = some per.flatten ∧ per.length = ops.length ∧
      (∀ i (h1 : i < per.length) (h2 : i < ops.length),
        per[i] = opBlocks (run st0 (ops.take i)).1 (run st0 ops).1.count ops[i]) ∧
      ∀ l ∈ per, l.Pairwise (fun b c : Block => b.addr + b.psize ≤ c.addr ∧ b.addr ≠ c.addr) := by
  obtain ⟨out, per, f1, f2, f3, f4⟩ := output_blocks st0 h0 ops ha
  refine ⟨out, per, f1, f2, f3, f4, ?_⟩
  intro l hl
  obtain ⟨i, hi, rfl⟩ := List.getElem_of_mem hl
  rw [f4 i hi (by omega)]
  have hsub : Addr32 (ops.take i) := fun op hop => ha op (List.mem_of_mem_take hop)
  exact opBlocks_disjoint _ (reachable_inv st0 h0 (ops.take i) hsub) _ _

/-- C16.i  **A rejected write appends no block, on the output**: if operation `i` of a history returns an
error, the reader finds no block for it (`per[i] = []`), and the writer state — hence everything decoded for
the other operations — is what it would be without that operation (`rejects_write`, `rejects_writeAll`:
state unchanged). A rejected *configuration* yields no writer at all (`new`/`new_vec` return `Err` and no
state, `cfg_valid`), so there is no output to speak of; that the destination stays untouched is observed
by the correspondence run. -/
theorem rejected_appends_nothing (st0 : St) (h0 : Start st0) (ops : List Op) (ha : Addr32 ops) :
    ∃ (out : List UInt8) (per : List (List Block)), finish (run st0 ops).1 = .ok out ∧
      read out = some per.flatten ∧ per.length = ops.length ∧
      ∀ i (h1 : i < per.length) (h2 : i < ops.length) (e : WriteErr),
        (step (run st0 (ops.take i)).1 ops[i]).2 = .err e → per[i] = [] := by
  obtain ⟨out, per, f1, f2, f3, f4⟩ := output_blocks st0 h0 ops ha
  refine ⟨out, per, f1, f2, f3, ?_⟩
  intro i h1 h2 e he
  rw [f4 i h1 h2]
  exact opBlocks_rejected _ _ _ e he

/-- C16.j  **Address space.** Every block of an accepted `write_all` lies inside the 32-bit address space
(`addr + payload size ≤ 2^32`): the padded data is checked against the space left above `addr`. -/
theorem writeAll_in_address_space (st : St) (hI : Inv st) (t a : Nat) (ha : a < 4294967296) (d : List UInt8)
    (nf : Bool) (n : Nat) (h : (step st (.writeAll a d nf)).2 = .ok n) :
    ∀ b ∈ opBlocks st t (.writeAll a d nf), b.addr + b.psize ≤ 4294967296 := by
  simp only [step] at h
  intro b hb
  simp only [opBlocks, stepBlks, h, writeAllBlks, List.mem_map] at hb
  obtain ⟨c, hc, rfl⟩ := hb
  have hr := allBlks_range st.cfg hI.valid nf d.length d a st.count c hc
  rcases writeAll_spec st hI a ha d nf with ⟨st', hw, _, _, hnr⟩ | ⟨e, hw, _⟩
  · have hd : d ≠ [] := by intro hd; subst hd; simp [allBlks] at hc
    have : ¬ 4294967296 < a + roundUp d.length st.cfg.al := fun h' => hnr ⟨hd, .inr (.inl h')⟩
    simp only [toBlock]
    omega
  · rw [hw] at h; cases h

/-- C16.j'  **`write` has no such check** (observation, see props/C16.json): a single-block `write` declares
the full payload size whatever the block's length and is accepted at any 32-bit address, so near the top of
the address space its target range runs past 2^32 — here payload size 8, four bytes at 0xFFFFFFFF: accepted,
one block with `addr + psize = 2^32 + 7` — whereas `write_all` of the same bytes at the same address is
rejected with `Address{need: 4, have: 1}`. `reconstructs`, `output_blocks` and `no_dup_addr_output` cover
such writes with natural-number addresses (no wrap-around, no hypothesis excluding them). -/
theorem write_not_address_checked :
    let st : St := ⟨⟨8, 4, none⟩, [], 0, 0, 1024, false⟩
    (step st (.write 0xFFFFFFFF [1, 2, 3, 4] false)).2 = .ok 0 ∧
    (opBlocks st 1 (.write 0xFFFFFFFF [1, 2, 3, 4] false)).map (fun b => (b.addr, b.psize)) = [(0xFFFFFFFF, 8)] ∧
    (step st (.writeAll 0xFFFFFFFF [1, 2, 3, 4] false)).2 = .err (.address 4 1) := by
  refine ⟨rfl, rfl, rfl⟩

/-! ### non-vacuity -/

/-- a concrete accepted history: RP2040 configuration, a 5-byte `write_all` and a full single block -/
example : ∃ st0, new (some 0xE48BFF56) 8 4 2048 = .ok st0 ∧
    (run st0 [.writeAll 0x10000000 [1, 2, 3, 4, 5] false, .write 0x20 [9, 9, 9, 9] true]).2 = [.ok 1, .ok 0] := by
  exact ⟨_, rfl, rfl⟩
example : WriteRejects ⟨⟨8, 4, none⟩, [], 0, 0, 1024, false⟩ [1, 2, 3] := by
  refine ⟨by simp, .inl (by decide)⟩
/-- a state satisfying `Inv` whose counter is at the maximum exists as far as `no_panic` is concerned: the
hypothesis `Inv` does not bound the counter below 2^32 − 1, and `write` then answers `BlockCount` -/
example : write ⟨⟨8, 4, none⟩, [], 0, 4294967295, 1024, false⟩ 0 [1, 2, 3, 4] false =
    (⟨⟨8, 4, none⟩, [], 0, 4294967295, 1024, false⟩, .err (.blockCount 1 0)) := by
  exact rejects_write_count _ _ _ _ (by simp) (by decide) (by decide) (by decide) rfl
/-- `opBlocks` is not trivially empty: a 9-byte `write_all` with payload 8, alignment 4 gives two blocks, the
second with payload size 4 (one byte rounded up to the alignment) -/
example : (opBlocks ⟨⟨8, 4, none⟩, [], 0, 0, 2048, false⟩ 2 (.writeAll 0x100 [1, 2, 3, 4, 5, 6, 7, 8, 9] false)).map
    (fun b => (b.addr, b.psize, b.blockNo, b.numBlocks)) = [(0x100, 8, 0, 2), (0x108, 4, 1, 2)] := rfl
example : checkCfg 256 256 = .ok () ∧ checkCfg 0 1 = .error (.blockSize 0) ∧ checkCfg 8 3 = .error (.alignment 3 8) :=
  ⟨rfl, rfl, rfl⟩

end Trion.Uf2
