import TrionModel.Model.Uf2
/-! # C16 — UF2 writer output is well-formed and reproduces the data (first theorems) -/
namespace Trion.Uf2

/-- C16.a  a configuration is accepted exactly when 1 ≤ payload ≤ 476, alignment ≥ 1 divides it -/
theorem cfg_valid (ps al : Nat) :
    checkCfg ps al = .ok () ↔ (1 ≤ ps ∧ ps ≤ 476 ∧ 1 ≤ al ∧ ps % al = 0) := by
  unfold checkCfg
  split
  · simp; omega
  · split
    · simp; omega
    · simp; omega

end Trion.Uf2
