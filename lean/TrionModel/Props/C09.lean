import TrionModel.Lemmas.ParseAll
import TrionModel.Spec.Render
/-!
# C09 — parsing respects precedence, associativity and grouping

Model: `Trion.Parse` (`Model/Parse.lean`), mirroring `parse_unary / parse_binary / parse_args / do_next`.
Specification: `Trion.Render` (`Spec/Render.lean`), the documented syntax as a printer with minimal
parentheses.
-/
namespace Trion.Parse

/-- C09.climb_no_panic  The precedence-climbing invariant: whatever the tokens, `parse_binary(g)` never
meets an operator of a higher group than `g` in its loop (an inner call has consumed it), i.e. the
`panic!("encountered operator … in group …")` is unreachable — for every fuel, every group, every
token list, every tokenizer ending. -/
theorem climb_no_panic (lo : LexOut) (g : BinOpGroup) (st : Nat × Nat) (ts : List Token) :
    binary lo g st ts ≠ .panic := binary_ne_panic lo g st ts

theorem climb_no_panic_fuel (lo : LexOut) (n : Nat) (g : BinOpGroup) (st : Nat × Nat) (ts : List Token) :
    binaryF lo n g st ts ≠ .panic := ((noPanicAt lo n).binary g st ts).1

/-- the loop alone does panic when it is entered in front of a higher operator — the invariant is what
excludes this, not the shape of the function -/
example : binLoopF ⟨[], none, 1, 1⟩ 3 .bitOr (1, 1) (.const 1) [⟨1, 1, .mul⟩, ⟨1, 2, .num 2⟩] = .panic := rfl

end Trion.Parse
