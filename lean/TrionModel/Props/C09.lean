import TrionModel.Lemmas.ParseStmt
/-!
# C09 — parsing respects precedence, associativity and grouping

Model: `Trion.Parse` (`Model/Parse.lean`), mirroring `parse_unary / parse_binary / parse_args / do_next`
of `src/text/parse/mod.rs` with `src/text/operator.rs`.
Specification: `Trion.Render` (`Spec/Render.lean`): the documented syntax as a printer that writes only
the parentheses which precedence and left associativity require; `PArg`/`Render.parg` add explicit
redundant parentheses.

All statements are about token lists `ts : List Token` with **arbitrary positions** whose values are the
rendered tokens (`ts.map (·.val) = Render.…`); `lo` is the tokenizer's ending (error / final position),
`st` the `expr_start` argument — both arbitrary, they only matter for error reports.
(That a text with arbitrary spacing and comments lexes to such a token list is C10/C11/C12's lexer part.)
-/
namespace Trion.Parse

/-- C09.parse_render  Every well-formed argument tree, written with only the parentheses the
precedence table and left associativity require, followed by a token that ends an expression
(`,` `;` `)` `]` `}`), is read back by `parse_binary(BitOr)` — the entry point for a whole
expression — as exactly that tree, leaving the rest of the input untouched. -/
theorem parse_render (lo : LexOut) (st : Nat × Nat) (t : Arg) (hwf : t.wf) (ts : List Token)
    (hts : ts.map (·.val) = Render.arg 0 t) (stop : Token) (hstop : stop.val.isStop = true) (rest : List Token) :
    binary lo .bitOr st (ts ++ stop :: rest) = .ok (t, stop :: rest) := by
  have h := fits_parg lo (PArg.ofArg t) (wf_ofArg t hwf) 0 ts (by rw [parg_ofArg]; exact hts)
  rw [erase_ofArg] at h
  exact fits_inner h st stop rest hstop

/-- C09.parens_redundant  Redundant parentheses do not change the tree: for every way `p` of adding
parentheses around sub-expressions (any number, anywhere, nested), the text is read back as the tree
without them (`p.erase`). -/
theorem parens_redundant (lo : LexOut) (st : Nat × Nat) (p : PArg) (hwf : p.wf) (ts : List Token)
    (hts : ts.map (·.val) = Render.parg 0 p) (stop : Token) (hstop : stop.val.isStop = true) (rest : List Token) :
    binary lo .bitOr st (ts ++ stop :: rest) = .ok (p.erase, stop :: rest) :=
  fits_inner (fits_parg lo p hwf 0 ts hts) st stop rest hstop

/-- … in particular a parenthesised variant of `t` and the minimal rendering of `t` parse to the same tree -/
theorem parens_same_tree (lo : LexOut) (st : Nat × Nat) (t : Arg) (hwf : t.wf) (p : PArg) (hp : p.wf) (he : p.erase = t)
    (ts ts' : List Token) (hts : ts.map (·.val) = Render.arg 0 t) (hts' : ts'.map (·.val) = Render.parg 0 p)
    (stop : Token) (hstop : stop.val.isStop = true) (rest : List Token) :
    binary lo .bitOr st (ts' ++ stop :: rest) = binary lo .bitOr st (ts ++ stop :: rest) := by
  rw [parse_render lo st t hwf ts hts stop hstop rest, parens_redundant lo st p hp ts' hts' stop hstop rest, he]

/-- the same for a sub-expression context of any binding strength `m` and any level `k ≤ m` at which
the parser may be when it meets the text (e.g. the right operand of `*` is parsed at level 6). -/
theorem parse_render_level (lo : LexOut) (p : PArg) (hwf : p.wf) (m : Nat) (ts : List Token)
    (hts : ts.map (·.val) = Render.parg m p) : Fits lo p.erase m ts := fits_parg lo p hwf m ts hts

/-- C09.stmt_roundtrip  Statement kind, name and arguments (in order) are preserved: a rendered label,
directive or instruction — with `more` tokens following — is read back by `do_next` as exactly that
statement, positioned at its first token, leaving `more`. -/
theorem stmt_roundtrip (lo : LexOut) (ev : ElemVal) (hwf : ev.wf) (first : Token) (body more : List Token)
    (hts : (first :: body).map (·.val) = Render.elemVal ev) :
    element lo first (body ++ more) = .ok (⟨first.line, first.col, ev⟩, more) :=
  element_render lo ev hwf first body more hts

/-- C09.program_roundtrip  A whole file: the statements of a rendered program (any number of labels,
directives and instructions, each given by its kind/name/arguments, its first token and its remaining
tokens) are read back by the `Parser` iterator as exactly those statements, in order, each positioned
at its first token, with no error. -/
theorem program_roundtrip (prog : List (ElemVal × Token × List Token))
    (h : ∀ x ∈ prog, x.1.wf ∧ (x.2.1 :: x.2.2).map (·.val) = Render.elemVal x.1) (endLine endCol : Nat) :
    all ⟨progToks prog, none, endLine, endCol⟩ = .done (progElems prog) none :=
  allLoop_render _ rfl prog h _ (Nat.lt_succ_self _)

/-- … and with redundant parentheses anywhere in the arguments -/
theorem stmt_roundtrip_parens (lo : LexOut) (name : Bytes) (as : PArgs) (hwf : as.wf) (first tt : Token)
    (ta more : List Token) (hf : first.val = .ident name) (hta : ta.map (·.val) = Render.pargs as) (htt : tt.val = .term) :
    element lo first (ta ++ tt :: more) = .ok (⟨first.line, first.col, .instruction name as.erase⟩, more) :=
  instruction_ok lo name as hwf first tt ta more hf hta htt

/-- C09.climb_no_panic  The precedence-climbing invariant: whatever the tokens, `parse_binary(g)` never
meets an operator of a higher group than `g` in its loop (an inner call has consumed it), i.e. the
`panic!("encountered operator … in group …")` is unreachable — for every group, every token list,
every tokenizer ending (and every fuel, `climb_no_panic_fuel`). -/
theorem climb_no_panic (lo : LexOut) (g : BinOpGroup) (st : Nat × Nat) (ts : List Token) :
    binary lo g st ts ≠ .panic := binary_ne_panic lo g st ts

theorem climb_no_panic_fuel (lo : LexOut) (n : Nat) (g : BinOpGroup) (st : Nat × Nat) (ts : List Token) :
    binaryF lo n g st ts ≠ .panic := ((noPanicAt lo n).binary g st ts).1

/-- the fuel of the model is an artefact: it never runs out -/
theorem fuel_enough (lo : LexOut) (g : BinOpGroup) (st : Nat × Nat) (ts : List Token) :
    binary lo g st ts ≠ .fuel ∧ unary lo ts ≠ .fuel ∧ args lo ts ≠ .fuel :=
  ⟨binary_ne_fuel lo g st ts, unary_ne_fuel lo ts, args_ne_fuel lo ts⟩

/-! ### non-vacuity -/

/-- the loop alone does panic when it is entered in front of a higher operator — the invariant is what
excludes this, not the shape of the function -/
example : binLoopF ⟨[], none, 1, 1⟩ 3 .bitOr (1, 1) (.const 1) [⟨1, 1, .mul⟩, ⟨1, 2, .num 2⟩] = .panic := rfl

/-- `1 - (2 - 3) * 4` : the hypotheses of `parse_render` are satisfiable by a tree that needs parentheses -/
example : (Arg.bin .sub (.const 1) (.bin .mul (.bin .sub (.const 2) (.const 3)) (.const 4))).wf ∧
    Render.arg 0 (Arg.bin .sub (.const 1) (.bin .mul (.bin .sub (.const 2) (.const 3)) (.const 4))) =
      [.num 1, .minus, .lparen, .num 2, .minus, .num 3, .rparen, .mul, .num 4] := by
  refine ⟨?_, rfl⟩
  simp [Arg.wf, i64Max]

/-- left associativity is visible: `1 - 2 - 3` is `(1 - 2) - 3`, and `1 - (2 - 3)` keeps its parentheses -/
example : Render.arg 0 (Arg.bin .sub (.bin .sub (.const 1) (.const 2)) (.const 3)) = [.num 1, .minus, .num 2, .minus, .num 3] ∧
    Render.arg 0 (Arg.bin .sub (.const 1) (.bin .sub (.const 2) (.const 3))) =
      [.num 1, .minus, .lparen, .num 2, .minus, .num 3, .rparen] := ⟨rfl, rfl⟩

/-- redundant parentheses: `((1) - 2) - (3)` is a parenthesisation of `1 - 2 - 3` -/
example : (PArg.bin .sub (.paren (.bin .sub (.paren (.const 1)) (.const 2))) (.paren (.const 3))).erase =
      Arg.bin .sub (.bin .sub (.const 1) (.const 2)) (.const 3) ∧
    Render.parg 0 (PArg.bin .sub (.paren (.bin .sub (.paren (.const 1)) (.const 2))) (.paren (.const 3))) =
      [.lparen, .lparen, .num 1, .rparen, .minus, .num 2, .rparen, .minus, .lparen, .num 3, .rparen] := ⟨rfl, rfl⟩

/-- a program of a label, a directive and an instruction satisfies the hypotheses of `program_roundtrip` -/
example : ∀ x ∈ [((ElemVal.label [108]), (⟨1, 1, .ident [108]⟩ : Token), [(⟨1, 2, .labelMark⟩ : Token)]),
      (.directive [100] (.cons (.const 1) (.cons (.const 2) .nil)), ⟨2, 1, .dirMark⟩,
        [⟨2, 2, .ident [100]⟩, ⟨2, 4, .num 1⟩, ⟨2, 5, .sep⟩, ⟨2, 6, .num 2⟩, ⟨2, 7, .term⟩]),
      (.instruction [78] .nil, ⟨3, 1, .ident [78]⟩, [⟨3, 2, .term⟩])],
    x.1.wf ∧ (x.2.1 :: x.2.2).map (·.val) = Render.elemVal x.1 := by
  simp [ElemVal.wf, Args.wf, Arg.wf, i64Max, Render.elemVal, Render.args, Render.arg]

/-- the model really computes: `1 - 2 * 3 ;` -/
example : binary ⟨[], none, 1, 1⟩ .bitOr (1, 1)
      [⟨1, 1, .num 1⟩, ⟨1, 2, .minus⟩, ⟨1, 3, .num 2⟩, ⟨1, 4, .mul⟩, ⟨1, 5, .num 3⟩, ⟨1, 6, .term⟩] =
    .ok (.bin .sub (.const 1) (.bin .mul (.const 2) (.const 3)), [⟨1, 6, .term⟩]) := by
  simp [binary_eq, operand, BinOpGroup.higher, unary_cons, binLoop_cons, Tok.isStop, Tok.binOp, BinOp.group,
    BinOpGroup.toNat]

end Trion.Parse
