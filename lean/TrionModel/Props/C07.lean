import TrionModel.Lemmas.SimpClosed
/-!
# C07 — constant expressions follow checked signed 64-bit arithmetic

Property theorems only (helper lemmas: `Lemmas/SimpClosed.lean`, `Lemmas/SimpArith.lean`).

* Specification `Trion.Arith.eval` (`Spec/Arith.lean`): exact integer arithmetic, an error exactly when
  a `+ - * neg /` result leaves `[-2^63, 2^63)`, a divisor is zero or a shift count is outside `0..63`.
* Model `Trion.Simp.evaluate` / `simplify` (`Model/Simp.lean`) mirroring eval.rs / simplify/mod.rs.
* `closed t`: only literals (each an `i64`), the ten binary operators, unary `-` and `!`.
  `inScope t`: no node sits at a corner the property leaves open (shift of a negative operand, shift
  result reaching bit 63, `MIN % -1`).

The constant table and the register predicate are arbitrary: a closed tree has no identifiers.
-/
namespace Trion.Simp
open Trion

/-- C07.a  On an in-scope expression over literals `evaluate` delivers the constant `v` exactly when
the specification's value is `v`, and reports an overflow error exactly when the specification errs. -/
theorem closed_eval (lk : Bytes → Lookup) (isReg : Bytes → Bool) (t : Arg)
    (hc : Arith.closed t = true) (hs : Arith.inScope t = true) (v : Int) :
    ((∃ ch, evaluate lk isReg t = .ok (⟨ch, none⟩, .const v)) ↔ Arith.eval t = .ok v) ∧
    ((∃ k, evaluate lk isReg t = .err (.simp (.overflow k))) ↔ ∃ e, Arith.eval t = .error e) := by
  have hag := valM_agree t hc hs
  rcases closedRes_cases (evaluate_closed lk isReg t hc) with ⟨ev, w, h1, hc1, hv⟩ | ⟨k, h1, hv⟩
  · obtain ⟨ch, cause⟩ := ev
    simp only at hc1; subst hc1
    rw [hv] at hag
    cases he : Arith.eval t with
    | error e => simp [he, agree] at hag
    | ok w' =>
      have : w = w' := by simpa [he, agree] using hag
      subst this
      simp [h1]
  · rw [hv] at hag
    cases he : Arith.eval t with
    | ok w => simp [he, agree] at hag
    | error e => simp [h1]

/-- C07.b  The same for `simplify` (the entry point used for instruction operands). -/
theorem closed_simplify (t : Arg) (hc : Arith.closed t = true) (hs : Arith.inScope t = true) (v : Int) :
    ((∃ ch, simplify t = .ok (ch, .const v)) ↔ Arith.eval t = .ok v) ∧
    ((∃ k, simplify t = .err (.overflow k)) ↔ ∃ e, Arith.eval t = .error e) := by
  have hag := valM_agree t hc hs
  rcases closedResS_cases (simplify_closed t hc) with ⟨c, w, h1, hv⟩ | ⟨k, h1, hv⟩
  · rw [hv] at hag
    cases he : Arith.eval t with
    | error e => simp [he, agree] at hag
    | ok w' =>
      have : w = w' := by simpa [he, agree] using hag
      subst this
      simp [h1]
  · rw [hv] at hag
    cases he : Arith.eval t with
    | ok w => simp [he, agree] at hag
    | error e => simp [h1]

/-- C07.c  Totality: on every expression over literals (in scope or not) `evaluate` either delivers a
constant or reports an overflow error — never a panic, a type error, a missing-name error, a deferral
or a partly folded tree; and a delivered constant is an `i64`. -/
theorem closed_eval_total (lk : Bytes → Lookup) (isReg : Bytes → Bool) (t : Arg) (hc : Arith.closed t = true) :
    (∃ ch v, evaluate lk isReg t = .ok (⟨ch, none⟩, .const v) ∧ inI64 v = true) ∨
    (∃ k, evaluate lk isReg t = .err (.simp (.overflow k))) := by
  rcases closedRes_cases (evaluate_closed lk isReg t hc) with ⟨ev, w, h1, hc1, hv⟩ | ⟨k, h1, _⟩
  · obtain ⟨ch, cause⟩ := ev
    simp only at hc1; subst hc1
    exact .inl ⟨ch, w, h1, valM_range t hc hv⟩
  · exact .inr ⟨k, h1⟩

/-- C07.d  The error is never a wrapped value: whenever the specification errs, no constant comes out. -/
theorem closed_eval_no_wrap (lk : Bytes → Lookup) (isReg : Bytes → Bool) (t : Arg)
    (hc : Arith.closed t = true) (hs : Arith.inScope t = true) (e : Arith.Err) (he : Arith.eval t = .error e)
    (ev : Ev) (a : Arg) : evaluate lk isReg t ≠ .ok (ev, a) := by
  obtain ⟨k, hk⟩ := ((closed_eval lk isReg t hc hs 0).2).2 ⟨e, he⟩
  simp [hk]

/-! ### non-vacuity: the hypotheses are satisfiable and the conclusions are exercised -/

/-- `(3 + 4) * -(2 << 3)` -/
def exTree : Arg := .bin .mul (.bin .add (.const 3) (.const 4)) (.neg (.bin .shl (.const 2) (.const 3)))

/-- it is closed, in scope, and evaluates to −112 in model and specification -/
example :
    Arith.closed exTree = true ∧ Arith.inScope exTree = true ∧ Arith.eval exTree = .ok (-112) ∧
      evaluate (fun _ => .notFound) (fun _ => false) exTree = .ok (⟨true, none⟩, .const (-112)) :=
  ⟨rfl, rfl, rfl, rfl⟩

/-- `MAX + 1`, `MIN / -1`, `1 / 0`, `1 << 64` are in scope and are errors in model and specification -/
example :
    (Arith.eval (.bin .add (.const i64Max) (.const 1)) = .error .overflow ∧
     simplify (.bin .add (.const i64Max) (.const 1)) = .err (.overflow .add)) ∧
    (Arith.eval (.bin .div (.const i64Min) (.const (-1))) = .error .overflow ∧
     simplify (.bin .div (.const i64Min) (.const (-1))) = .err (.overflow .div)) ∧
    (Arith.eval (.bin .div (.const 1) (.const 0)) = .error .divZero ∧
     simplify (.bin .div (.const 1) (.const 0)) = .err (.overflow .divZero)) ∧
    (Arith.eval (.bin .shl (.const 1) (.const 64)) = .error .shiftCount ∧
     simplify (.bin .shl (.const 1) (.const 64)) = .err (.overflow .shl)) :=
  ⟨⟨rfl, rfl⟩, ⟨rfl, rfl⟩, ⟨rfl, rfl⟩, ⟨rfl, rfl⟩⟩

/-- the open corners are really outside `inScope`, and there model and ideal arithmetic differ:
`1 << 63` wraps to `MIN` in the code, `MIN % -1` is an error in the code -/
example :
    Arith.inScope (.bin .shl (.const 1) (.const 63)) = false ∧
    simplify (.bin .shl (.const 1) (.const 63)) = .ok (true, .const i64Min) ∧
    Arith.inScope (.bin .mod (.const i64Min) (.const (-1))) = false ∧
    simplify (.bin .mod (.const i64Min) (.const (-1))) = .err (.overflow .mod) :=
  ⟨rfl, rfl, rfl, rfl⟩

end Trion.Simp
