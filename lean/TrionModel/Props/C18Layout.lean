import TrionModel.Props.C18Main
import TrionModel.Props.C05Asm
import TrionModel.Props.C05Multi
/-!
# C18 composed with C05 — the file `trias` writes holds the sequential layout of the program

`layout_refines_asm` (C05) says that the image of a successful run is the two-pass reference layout of the program's
statements; `main_written` (C18) says that the file `trias` writes reproduces the image of the run. Composed, for a
single-file program: whenever `trias` writes a file, the independent UF2 reader decodes it, and every byte the
two-pass reference places at an address is the byte the decoded memory image holds at that address.
-/
namespace Trion.Trias
open Trion Trion.Asm Trion.Uf2 Trion.Asm.Multi

/-- C18∘C05 `trias_file_is_layout` -/
theorem trias_file_is_layout {num : Bytes → Nat} (hinj : Function.Injective num) (fs : Bytes → Option Bytes)
    (main data : Bytes) (hfs : fs main = some data) (els : List Element) (perr : Option ParseErr)
    (hparse : parseFile data = .ok (els, perr)) (hsf : SingleFile els)
    (f : List UInt8) (hm : mainOut fs main = .written f) :
    ∃ t₂ : Table, ∃ img', Layout.Ref.pass2 none [] (abstract num fs encoder main t₂ none els) = some img' ∧
      ∃ bs, read f = some bs ∧ ∀ a v, img'.get a = some v → image bs a = some v := by
  obtain ⟨o, hr, hd, hc, hp⟩ := (main_written_iff fs main f).mp hm
  have hs : o.success = true := (success_iff fs main o hr).mpr ⟨hd, hc⟩
  obtain ⟨t₂, _, _, ⟨img', hp2, himg⟩, _⟩ := layout_refines_asm hinj fs main data hfs els perr hparse hsf o hr hs
  obtain ⟨⟨bs, hread, hb⟩, _⟩ := trias_of_run fs main o hr f hp
  refine ⟨t₂, img', hp2, bs, hread, fun a v hv => hb a v ?_⟩
  rw [lookup_is_map_abs, himg a]
  exact hv

/-- C18∘C05 `trias_file_is_layout_includes`  The same for projects of any number of files (`LocalProject`: every file uses
its own names only — the hypothesis of `layout_refines_asm_includes_partial`): the flattened statement list `p` of the
whole project exists, and every byte its two-pass reference layout places is the byte of the decoded file. -/
theorem trias_file_is_layout_includes {num : Nat → Bytes → Nat} (hinj : NumInj num) (fs : Bytes → Option Bytes)
    (main data : Bytes) (hfs : fs main = some data) (hloc : LocalProject fs maxDepth main data)
    (f : List UInt8) (hm : mainOut fs main = .written f) :
    ∃ (els : List Element) (perr : Option ParseErr) (p : List Layout.Stmt) (E : Layout.Env) (t : Table) (n : Nat) (img' : Layout.Img),
      parseFile data = .ok (els, perr) ∧ FlatEls num fs encoder E 0 main t 1 none els p n ∧
      Layout.Ref.pass2 none [] p = some img' ∧
      ∃ bs, read f = some bs ∧ ∀ a v, img'.get a = some v → image bs a = some v := by
  obtain ⟨o, hr, hd, hc, hp⟩ := (main_written_iff fs main f).mp hm
  have hs : o.success = true := (success_iff fs main o hr).mpr ⟨hd, hc⟩
  obtain ⟨els, perr, p, E, t, n, hparse, _, hflat, _, ⟨img', hp2, himg⟩, _⟩ :=
    layout_refines_asm_includes_partial hinj fs main data hfs hloc o hr hs
  obtain ⟨⟨bs, hread, hb⟩, _⟩ := trias_of_run fs main o hr f hp
  refine ⟨els, perr, p, E, t, n, img', hparse, hflat, hp2, bs, hread, fun a v hv => hb a v ?_⟩
  rw [lookup_is_map_abs, himg a]
  exact hv

end Trion.Trias
