import TrionModel.Lemmas.Crc
/-!
# C17 — the checksum is CRC-32/MPEG-2

Property theorems only (helper lemmas live in `Lemmas/Crc.lean`).

Specification (`Trion.Crc.Spec`): MSB-first 32-bit shift register, polynomial 0x04C11DB7,
initial value 0xFFFFFFFF, no reflection, no final XOR.  Model: `buildTable`/`update`/
`updateSlice`/`crc`, mirroring `Crc::TABLE`, `Crc::update`, `Crc::update_slice`.
-/
namespace Trion.Crc
open Spec

/-- C17.a  All 256 entries of `Crc::TABLE` are the bit-serial register run on the index byte. -/
theorem table_spec (i : Nat) (h : i < 256) : table[i]! = stepN 8 (BitVec.ofNat 32 i <<< 24) :=
  table_entries ⟨i, h⟩

/-- C17.b  For **every** 32-bit state and next byte, the table-driven `Crc::update` equals the
bit-serial CRC-32/MPEG-2 step. (The property's "equivalently for every (state, byte) pair".) -/
theorem update_eq_spec (s : W) (b : BitVec 8) : update s b = Spec.byte s b := by
  unfold update Spec.byte
  rw [stepN8_eq, shl8, top_byte]

/-- C17.c  For every byte string and every start state, `update_slice` equals the specification run. -/
theorem updateSlice_eq_spec (s : W) (bs : List (BitVec 8)) : updateSlice s bs = Spec.run s bs := by
  unfold updateSlice Spec.run
  induction bs generalizing s with
  | nil => rfl
  | cons b bs ih => simp [List.foldl, update_eq_spec, ih]

/-- C17.d  The checksum of every byte string is its CRC-32/MPEG-2 value. -/
theorem crc_eq_spec (bs : List (BitVec 8)) : crc bs = Spec.crc bs :=
  updateSlice_eq_spec init bs

/-- C17.e  Feeding a string in pieces gives the same result as feeding it whole. -/
theorem crc_append (s : W) (xs ys : List (BitVec 8)) :
    updateSlice s (xs ++ ys) = updateSlice (updateSlice s xs) ys := by
  simp [updateSlice, List.foldl_append]

/-- C17.e'  … for any number of pieces. -/
theorem crc_pieces (s : W) (pieces : List (List (BitVec 8))) :
    updateSlice s pieces.flatten = pieces.foldl updateSlice s := by
  induction pieces generalizing s with
  | nil => rfl
  | cons p ps ih => simp [List.flatten_cons, crc_append, ih]

/-- C17.f  Standard check value: CRC-32/MPEG-2("123456789") = 0x0376E6E7, for model and spec. -/
theorem check_value :
    crc ("123456789".toUTF8.toList.map fun b => BitVec.ofNat 8 b.toNat) = 0x0376E6E7#32 ∧
    Spec.crc ("123456789".toUTF8.toList.map fun b => BitVec.ofNat 8 b.toNat) = 0x0376E6E7#32 := by
  decide +kernel

/-- non-vacuity: the update step is not constant and the table is not trivially zero -/
example : update init 0x31#8 ≠ init ∧ table[1]! = poly ∧ table[255]! ≠ 0 := by decide +kernel

end Trion.Crc
