import TrionModel.Lemmas.C04DiagK
import TrionModel.Props.C04Layout
import TrionModel.Props.C12Blame
/-!
# C04 — the diagnosed case with KIND, exclusivity and (where proved) the IMAGE clause

The third disjunct of `run_defs_stmt3` / `run_any3` / `run_layout3` said only "not a success, some diagnostic, every
diagnostic at the statement".  `Diagnosed` (below) adds:

* KIND: every diagnostic `d` satisfies `Asm.Pushes el d.kind` for the instruction statement `el` — `d.kind` is one of
  `inactive`, `instrNotFound`, `instrTooMany`, `instrNotEnough`, `instrArgType`, `instrAssemble _` (never a directive,
  label or parse kind); invariant `PAtK` (Lemmas/C04DiagK.lean) through the first attempt, the queued retry, both task
  loops and `finalize`;
* EXCLUSIVITY: the front end does not complete the statement to an instruction the encoder accepts
  (`∀ i hws, ¬ (build … = completed i ∧ encode i = ok hws)`), whereas in the first two cases it does — the three cases are
  mutually exclusive.  (Stated on `build`, not on `means2`: for one-register sums `means2` uses exact integers while the
  simplifier's checked i64 folding can overflow, so "diagnosed although `means2` is `some`" is possible; for operands
  `wellFormed` in the sense of Spec/C04.lean `stmt_iff` turns this into `means`.)
* IMAGE, first sub-case: if the front end completes (`build … = completed i`) and the ENCODER refuses, the run has exactly
  one diagnostic `instrAssemble (asmEncode e')` at the statement and the image is EMPTY — no byte is placed.

NOT proved (`_partial` in the names below refers to this): the image clause of the second sub-case, a front-end error at the
first attempt (`build … = error d st`, e.g. `.addr 0; B 5000;`).  There the model (like the code) writes the placeholder
(0xBE × the length of the partially filled instruction) at `A`, queues the retry, and the retry reports again; that the
final image is nothing but that placeholder needs a retry theorem for ERROR outcomes (C08 `assemble_retry` covers `Deferred`
first attempts only) and error-idempotence of `Simp.evaluateE` on the tree it leaves.

`run_defs_stmt_unknown_exact`: an unknown mnemonic — exactly one `instrNotFound` diagnostic, empty image.
-/
namespace Trion.C04
open Trion Trion.Front Trion.Asm

/-- the instruction statement when `build` completes but the encoder refuses: one `asmEncode` diagnostic, Fatal, nothing
written, nothing queued -/
theorem instr_encfail (fs : Bytes → Option Bytes) (inc : Asm.Inc) (env : Asm.Env) (st : Asm.St) (tbl : Asm.Table)
    (henv : env.paths ≠ []) (hl : st.locals = some tbl) (l c : Nat) (name : Bytes) (args : Args)
    (map : Map.Segs) (seg : Seg.Active) (pending : List (Nat × Nat)) (hs : st.seg = ⟨map, some seg, pending⟩)
    (i : Instr) (hb : Front.build seg.cur name args.toList (Asm.frontEval tbl) true = .completed i)
    (e : Codec.EncErr) (he : Codec.encode i = .error e) :
    ∃ e', Asm.statement fs Asm.encoder inc env st ⟨l, c, .instruction name args⟩ =
      .ok (st.push env l c (.instrAssemble (.asmEncode e')), .err .fatal) := by
  obtain ⟨e', he'⟩ := encoder_err he
  refine ⟨e', ?_⟩
  have hpaths : env.paths.isEmpty = false := by cases h : env.paths with | nil => exact absurd h henv | cons => rfl
  unfold Front.build at hb
  cases hm : Front.mnemonic name with
  | none => simp [hm] at hb
  | some t =>
    simp only [hm] at hb
    cases ha : Front.assemble { addr := seg.cur, instr := t, argsDone := 0, args := args.toList } (Asm.frontEval tbl) true with
    | mk fst out =>
      rw [ha] at hb
      cases out with
      | completed =>
        simp only at hb
        have hi : fst.instr = i := by injection hb
        cases st with
        | mk sseg g lo gt lt er =>
          simp only at hs hl
          subst hs hl
          simp only [Asm.statement, Asm.instruction, Asm.currAddr, Option.map_some, hm, Asm.ArmInstr.assemble, Asm.evalTable,
            hpaths, Asm.evalPanics_false, ha, Asm.ArmInstr.writeInstr, hi, he', Asm.St.push, Asm.St.pushIn,
            Option.isNone_some, Bool.false_eq_true, if_false]
      | deferred c => simp at hb
      | error d => simp at hb
      | panic => simp at hb

theorem run_defs_stmt_diag_ofK (fs : Bytes → Option Bytes) (main data : Bytes) (hfs : fs main = some data)
    (els : List Element) (hp : Asm.parseFile data = .ok (els, none)) (A : Nat) (hA : A < 4294967296)
    (defs : List (Bytes × Arg)) (name : Bytes) (args : Args) (hels : els.map (·.val) = progVals A defs name args)
    (tbl : Asm.Table) (hdefs : defsTable defs [] = some tbl)
    (hK : ∀ (l c : Nat) (st' : Asm.St) (r : Asm.Res), Asm.Table.NoDef tbl → tblI64 tbl →
      Asm.instruction Asm.encoder ⟨[main], main⟩
        ⟨⟨[], some ⟨A, [], Map.u32Max - A + 1⟩, []⟩, [], some tbl, [], some [], []⟩ l c name args.toList = .ok (st', r) →
      1 ≤ st'.errors.length) :
    ∃ el o, el ∈ els ∧ el.val = .instruction name args ∧ Asm.run fs main = .done o ∧ o.success = false ∧ o.diags ≠ [] ∧
      ∀ d ∈ o.diags, (d.file = main ∧ d.line = el.line ∧ d.col = el.col) ∧ Asm.pushesC .ins d.kind = true := by
  simp only [progVals] at hels
  obtain ⟨e1, r1, rfl, h1, hr1⟩ := List.map_eq_cons_iff.mp hels
  obtain ⟨mid, last, rfl, hmid, hlast⟩ := List.map_eq_append_iff.mp hr1
  obtain ⟨e2, r2, rfl, h2, hr2⟩ := List.map_eq_cons_iff.mp hlast
  have : r2 = [] := by simpa using hr2
  subst this
  obtain ⟨l1, c1, v1⟩ := e1
  obtain ⟨l2, c2, v2⟩ := e2
  simp only at h1 h2
  subst h1 h2
  refine ⟨⟨l2, c2, .instruction name args⟩, ?_⟩
  let inc := Asm.assembleFile fs Asm.encoder (Asm.maxDepth - 1)
  let env : Asm.Env := ⟨[main], main⟩
  let S0 : Asm.St := ⟨⟨[], some ⟨A, [], Map.u32Max - A + 1⟩, []⟩, [], some tbl, [], some [], []⟩
  have haddr : Asm.statement fs Asm.encoder inc env init2 ⟨l1, c1, .directive (bytesOf "addr") (Args.ofList [.const A])⟩ =
      .ok (⟨⟨[], some ⟨A, [], Map.u32Max - A + 1⟩, []⟩, [], some [], [], some [], []⟩, .ok) := by
    have := Asm.addr_ok fs inc env init2 [] (by simp [env]) rfl rfl l1 c1 (A : Int) (by omega) (by omega)
    simp only [Asm.statement, Show.toList_ofList, this]
    simp [init2]
  obtain ⟨hdefsrun, hnd⟩ := doAssemble_defs fs Asm.encoder inc env (by simp [env]) defs mid
    [⟨l2, c2, .instruction name args⟩] none
    ⟨⟨[], some ⟨A, [], Map.u32Max - A + 1⟩, []⟩, [], some [], [], some [], []⟩ [] tbl hmid rfl
    (by intro n; simp [Asm.Table.find]) hdefs
  have hi64 : tblI64 tbl := defsTable_i64 defs [] tbl (by intro n v h; simp [Asm.Table.find] at h) hdefs
  have hstmt : Asm.statement fs Asm.encoder inc env S0 ⟨l2, c2, .instruction name args⟩ =
      Asm.instruction Asm.encoder env S0 l2 c2 name args.toList := by simp [Asm.statement, S0]
  have hdo : Asm.doAssemble fs Asm.encoder inc env
      (⟨l1, c1, .directive (bytesOf "addr") (Args.ofList [.const A])⟩ :: (mid ++ [⟨l2, c2, .instruction name args⟩])) none init2 =
      match Asm.instruction Asm.encoder env S0 l2 c2 name args.toList with
      | .ok (st', .ok) => .ok (st', .ok)
      | .ok (st', .err lv) => .ok (st', .err lv)
      | .stop s => .stop s := by
    simp only [Asm.doAssemble]
    rw [haddr]
    simp only
    rw [hdefsrun]
    simp only [Asm.doAssemble]
    rw [hstmt]
    cases Asm.instruction Asm.encoder env S0 l2 c2 name args.toList with
    | ok p => obtain ⟨st', r⟩ := p; cases r <;> rfl
    | stop s => rfl
  have hfb := fileBody_eq fs inc env data init2 _ hp
  rw [hdo] at hfb
  have hcur : S0.seg.active.map Seg.Active.cur = some A := by simp [S0, Show.cur_empty A _ hA]
  have hp0 : PAtK main l2 c2 S0 := ⟨fun d hd => by simp [S0] at hd, fun t ht => by simp [S0] at ht,
    fun q hq t ht => by simp [S0] at hq; subst hq; simp at ht⟩
  cases hX : Asm.instruction Asm.encoder env S0 l2 c2 name args.toList with
  | stop s =>
    rw [hX] at hfb
    simp only at hfb
    have := body_stop_fuel fs main data hfs s hfb
    subst this
    exact absurd hX (Asm.instruction_nf _ _ _ _ _ _ _)
  | ok p =>
    obtain ⟨st1, r1⟩ := p
    have herr1 : 1 ≤ st1.errors.length := hK l2 c2 st1 r1 hnd hi64 hX
    have hp1 : PAtK main l2 c2 st1 :=
      patK_of_effK hp0 (Asm.instruction_effK (env := env) _ _ hX)
    rw [hX] at hfb
    have hfin : ∀ (st4 : Asm.St) (r : Asm.Res), Asm.fileBody fs Asm.encoder inc env data init2 = .ok (st4, r) →
        1 ≤ st4.errors.length → PAtK main l2 c2 st4 → _ := fun st4 r hb he hpt =>
      run_of_bodyK fs main data hfs l2 c2 st4 r hb he hpt
    have hgoal : ∃ o, Asm.run fs main = .done o ∧ o.success = false ∧ o.diags ≠ [] ∧ ∀ d ∈ o.diags, d.at main l2 c2 ∧ Asm.pushesC .ins d.kind = true := by
      by_cases hfat : r1 = .err .fatal
      · subst hfat
        simp only [if_true] at hfb
        exact hfin st1 _ hfb herr1 hp1
      · have hr1 : (if r1 = Asm.Res.err Asm.Level.fatal then (Asm.Out.ok (st1, r1) : Asm.Out (Asm.St × Asm.Res)) else
              match st1.localTasks with
              | none => .stop .panic
              | some tasks => Asm.localLoop Asm.encoder env Asm.rounds tasks { st1 with localTasks := some [] } r1) =
            (match st1.localTasks with
              | none => .stop .panic
              | some tasks => Asm.localLoop Asm.encoder env Asm.rounds tasks { st1 with localTasks := some [] } r1) := if_neg hfat
        have hfb1 : Asm.fileBody fs Asm.encoder inc env data init2 =
            (match st1.localTasks with
              | none => .stop .panic
              | some tasks => Asm.localLoop Asm.encoder env Asm.rounds tasks { st1 with localTasks := some [] } r1) := by
          rw [hfb, ← hr1]; cases r1 <;> rfl
        cases hlt : st1.localTasks with
        | none =>
          rw [hlt] at hfb1
          have := body_stop_fuel fs main data hfs _ hfb1
          cases this
        | some tasks =>
          rw [hlt] at hfb1
          simp only at hfb1
          cases hY : Asm.localLoop Asm.encoder env Asm.rounds tasks { st1 with localTasks := some [] } r1 with
          | stop s =>
            rw [hY] at hfb1
            have := body_stop_fuel fs main data hfs s hfb1
            subst this
            exact absurd hY (Asm.localLoop_nf _ _ _ _ _ _)
          | ok q =>
            obtain ⟨st2, r2⟩ := q
            rw [hY] at hfb1
            have hg := (Asm.localLoop_grew _ _ _ _ _ _ hY).1
            have hp2 : PAtK main l2 c2 st2 := localLoop_patK Asm.rounds tasks _ r1 (hp1.lt tasks hlt)
              (show PAtK main l2 c2 ({ st1 with localTasks := some [] } : Asm.St) from ⟨hp1.errs, hp1.gt, fun q hq t ht => by
                have hq' : (some ([] : List Asm.Task)) = some q := hq
                cases hq'; cases ht⟩) _ _ hY
            exact hfin st2 r2 hfb1 (by simp only at hg; omega) hp2
    obtain ⟨o, h1, h2, h3, h4⟩ := hgoal
    exact ⟨o, by simp, rfl, h1, h2, h3, fun d hd => h4 d hd⟩


/-- the first case: assembled to the (extended) meaning, success, exactly those bytes -/
def Assembled (fs : Bytes → Option Bytes) (main : Bytes) (tbl : Asm.Table) (A : Nat) (name : Bytes) (args : Args) : Prop :=
  ∃ i hws, build A name args.toList (Asm.frontEval tbl) true = .completed i ∧
    means2 (tabOf tbl) A name args.toList = some i ∧ i.wf ∧ Codec.encode i = .ok hws ∧ Arm.decode hws = some i ∧
    A + 2 * hws.length ≤ 4294967296 ∧
    Asm.run fs main = .done ⟨true, none, true, [], [(A, (Codec.toBytes hws).map (·.toUInt8))]⟩

/-- the second case: encodable but no room below 2^32 — one `Overflow` diagnostic at the statement, empty image -/
def NoRoom (fs : Bytes → Option Bytes) (main : Bytes) (els : List Element) (tbl : Asm.Table) (A : Nat) (name : Bytes)
    (args : Args) : Prop :=
  ∃ i hws el o, build A name args.toList (Asm.frontEval tbl) true = .completed i ∧
    means2 (tabOf tbl) A name args.toList = some i ∧ i.wf ∧ Codec.encode i = .ok hws ∧
    ¬ (A + 2 * hws.length ≤ 4294967296) ∧ el ∈ els ∧ el.val = .instruction name args ∧
    Asm.run fs main = .done o ∧ o.success = false ∧
    o.diags = [⟨main, el.line, el.col, .instrAssemble (.asmWrite (.overflow (2 * hws.length) (4294967296 - A)))⟩] ∧
    o.image = []

/-- the third case: diagnosed — at the statement, with an instruction kind, the front end not completing to an encodable
instruction; and, when the refusal is the encoder's, exactly one diagnostic and an empty image -/
def Diagnosed (fs : Bytes → Option Bytes) (main : Bytes) (els : List Element) (tbl : Asm.Table) (A : Nat) (name : Bytes)
    (args : Args) : Prop :=
  ∃ el o, el ∈ els ∧ el.val = .instruction name args ∧ Asm.run fs main = .done o ∧ o.success = false ∧ o.diags ≠ [] ∧
    (∀ d ∈ o.diags, (d.file = main ∧ d.line = el.line ∧ d.col = el.col) ∧ Asm.Pushes el d.kind) ∧
    (∀ i hws, ¬ (build A name args.toList (Asm.frontEval tbl) true = .completed i ∧ Codec.encode i = .ok hws)) ∧
    (∀ i, build A name args.toList (Asm.frontEval tbl) true = .completed i →
      o.image = [] ∧ ∃ e', o.diags = [⟨main, el.line, el.col, .instrAssemble (.asmEncode e')⟩])

/-- the old third disjunct follows -/
theorem Diagnosed.old {fs : Bytes → Option Bytes} {main : Bytes} {els : List Element} {tbl : Asm.Table} {A : Nat}
    {name : Bytes} {args : Args} (h : Diagnosed fs main els tbl A name args) :
    ∃ el o, el ∈ els ∧ el.val = .instruction name args ∧ Asm.run fs main = .done o ∧ o.success = false ∧ o.diags ≠ [] ∧
      ∀ d ∈ o.diags, d.file = main ∧ d.line = el.line ∧ d.col = el.col := by
  obtain ⟨el, o, h1, h2, h3, h4, h5, h6, _⟩ := h
  exact ⟨el, o, h1, h2, h3, h4, h5, fun d hd => (h6 d hd).1⟩

/-- the three cases exclude each other: in the first two the front end completes to an encodable instruction -/
theorem Diagnosed.exclusive {fs : Bytes → Option Bytes} {main : Bytes} {els : List Element} {tbl : Asm.Table} {A : Nat}
    {name : Bytes} {args : Args} (h : Diagnosed fs main els tbl A name args) :
    ¬ Assembled fs main tbl A name args ∧ ¬ NoRoom fs main els tbl A name args := by
  obtain ⟨el, o, _, _, _, _, _, _, hno, _⟩ := h
  constructor
  · rintro ⟨i, hws, hb, _, _, he, _⟩
    exact hno i hws ⟨hb, he⟩
  · rintro ⟨i, hws, el', o', hb, _, _, he, _⟩
    exact hno i hws ⟨hb, he⟩

/-- C04k.a  **Completed by the front end, refused by the encoder** (out of range, misaligned, high register …): anywhere in
the main file after `.addr A;` and definitions (followed by anything) — exactly one diagnostic `instrAssemble (asmEncode _)`
at the statement and an EMPTY image -/
theorem run_stmt_encfail (fs : Bytes → Option Bytes) (main data : Bytes) (hfs : fs main = some data)
    (els : List Element) (perr : Option ParseErr) (hp : Asm.parseFile data = .ok (els, perr)) (A : Nat) (hA : A < 4294967296)
    (defs : List (Bytes × Arg)) (tbl : Asm.Table) (hdefs : defsTable defs [] = some tbl)
    (pre post : List Element) (l c : Nat) (name : Bytes) (args : Args)
    (hels : els = pre ++ ⟨l, c, .instruction name args⟩ :: post)
    (hpre : pre.map (·.val) = .directive (bytesOf "addr") (Args.ofList [.const A]) :: defs.map constStmt)
    (i : Instr) (hb : build A name args.toList (Asm.frontEval tbl) true = .completed i)
    (e : Codec.EncErr) (he : Codec.encode i = .error e) :
    ∃ o e', Asm.run fs main = .done o ∧ o.success = false ∧
      o.diags = [⟨main, l, c, .instrAssemble (.asmEncode e')⟩] ∧ o.image = [] := by
  obtain ⟨hpo, hnd, _⟩ := C06.prefixOk_addr_defs fs main A hA defs tbl hdefs hpre
  have hcur : (⟨A, [], Map.u32Max - A + 1⟩ : Seg.Active).cur = A := Show.cur_empty A _ hA
  obtain ⟨e', hst⟩ := instr_encfail fs (C06.incOf fs) (C06.envOf main) (C06.stateAt A tbl) tbl (by simp) rfl l c name args []
    ⟨A, [], Map.u32Max - A + 1⟩ [] rfl i (by rw [hcur]; exact hb) e he
  obtain ⟨o, h1, h2, h3, h4⟩ := run_single_diag_image fs main data hfs els perr hp pre post _ hels (C06.stateAt A tbl) hpo
    ⟨rfl, rfl, rfl⟩ _ _ hst
  refine ⟨o, e', h1, h2, h3, ?_⟩
  rw [h4]
  simp [C06.stateAt, Seg.closeSegment, Map.put]

/-- C04k.b  **Unknown mnemonic**: exactly one `instrNotFound` diagnostic (with the case-folded name) at the statement, empty
image -/
theorem run_stmt_unknown_exact (fs : Bytes → Option Bytes) (main data : Bytes) (hfs : fs main = some data)
    (els : List Element) (perr : Option ParseErr) (hp : Asm.parseFile data = .ok (els, perr)) (A : Nat) (hA : A < 4294967296)
    (defs : List (Bytes × Arg)) (tbl : Asm.Table) (hdefs : defsTable defs [] = some tbl)
    (pre post : List Element) (l c : Nat) (name : Bytes) (args : Args)
    (hels : els = pre ++ ⟨l, c, .instruction name args⟩ :: post)
    (hpre : pre.map (·.val) = .directive (bytesOf "addr") (Args.ofList [.const A]) :: defs.map constStmt)
    (hm : mnemonic name = none) :
    ∃ o, Asm.run fs main = .done o ∧ o.success = false ∧
      o.diags = [⟨main, l, c, .instrNotFound (foldName name)⟩] ∧ o.image = [] := by
  obtain ⟨hpo, _, _⟩ := C06.prefixOk_addr_defs fs main A hA defs tbl hdefs hpre
  have hst : Asm.statement fs Asm.encoder (C06.incOf fs) (C06.envOf main) (C06.stateAt A tbl) ⟨l, c, .instruction name args⟩ =
      .ok ((C06.stateAt A tbl).push (C06.envOf main) l c (.instrNotFound (foldName name)), .err .fatal) := by
    simp [Asm.statement, C06.stateAt, Asm.instruction, Asm.currAddr, hm]
  obtain ⟨o, h1, h2, h3, h4⟩ := run_single_diag_image fs main data hfs els perr hp pre post _ hels (C06.stateAt A tbl) hpo
    ⟨rfl, rfl, rfl⟩ _ _ hst
  refine ⟨o, h1, h2, h3, ?_⟩
  rw [h4]
  simp [C06.stateAt, Seg.closeSegment, Map.put]

/-- C04k.c  **Trichotomy through the whole pipeline model, third case with kind / exclusivity / image** (`run_defs_stmt3`
strengthened; `_partial`: no image clause when the FIRST ATTEMPT ends in a front-end error, see the header) -/
theorem run_defs_stmt4_partial (fs : Bytes → Option Bytes) (main data : Bytes) (hfs : fs main = some data)
    (els : List Element) (hp : Asm.parseFile data = .ok (els, none)) (A : Nat) (hA : A < 4294967296)
    (defs : List (Bytes × Arg)) (name : Bytes) (args : Args) (hels : els.map (·.val) = progVals A defs name args)
    (tbl : Asm.Table) (hdefs : defsTable defs [] = some tbl)
    (t : Instr) (hm : mnemonic name = some t) (hw : wellFormed2 (tabOf tbl) (sig t) args.toList)
    (hq : ∀ vs, denoteAll2 (tabOf tbl) (sig t) args.toList = some vs → ¬ svQuirk t vs) :
    Assembled fs main tbl A name args ∨ NoRoom fs main els tbl A name args ∨ Diagnosed fs main els tbl A name args := by
  have hnd : Asm.Table.NoDef tbl := defsTable_nodef defs [] tbl (by intro n; simp [Asm.Table.find]) hdefs
  have hi64 : tblI64 tbl := defsTable_i64 defs [] tbl (by intro n v h; simp [Asm.Table.find] at h) hdefs
  have hn := Asm.Table.nodef_get hnd
  have hTk := tableOk_of_tblI64 hi64
  have hE := evalSimp_frontEval tbl
  obtain ⟨pre, l, c, hel, hpre⟩ := progVals_split hels
  rcases build_total2 hn hTk hE true A name args.toList t hm hw with ⟨i, hb⟩ | ⟨d, st, hb⟩
  · cases he : Codec.encode i with
    | ok hws =>
      obtain ⟨h1, h2, h3, _⟩ := stmt_sound2 hn hTk hE true A name args.toList t hm hw hq i hb hws he
      by_cases hfit : A + 2 * hws.length ≤ 4294967296
      · exact .inl ⟨i, hws, hb, h1, h2, he, h3, hfit,
          (run_defs_stmt_of_build fs main data hfs els hp A defs name args hels tbl hdefs i hb hws he hfit).1⟩
      · right; left
        obtain ⟨o, ho1, ho2, ho3, ho4⟩ := run_stmt_nofit fs main data hfs els none hp A hA defs tbl hdefs pre [] l c name args
          hel hpre i hb hws he hfit
        exact ⟨i, hws, ⟨l, c, .instruction name args⟩, o, hb, h1, h2, he, hfit, by simp [hel], rfl, ho1, ho2, ho3, ho4⟩
    | error e =>
      right; right
      obtain ⟨o, e', ho1, ho2, ho3, ho4⟩ := run_stmt_encfail fs main data hfs els none hp A hA defs tbl hdefs pre [] l c name args
        hel hpre i hb e he
      refine ⟨⟨l, c, .instruction name args⟩, o, by simp [hel], rfl, ho1, ho2, by rw [ho3]; simp, ?_, ?_, ?_⟩
      · intro d hd
        rw [ho3] at hd
        rw [List.mem_singleton.mp hd]
        exact ⟨⟨rfl, rfl, rfl⟩, rfl⟩
      · rintro i' hws ⟨hb', he'⟩
        rw [hb] at hb'; cases hb'
        rw [he] at he'; cases he'
      · intro i' _
        exact ⟨ho4, e', ho3⟩
  · right; right
    obtain ⟨el, o, h1, h2, h3, h4, h5, h6⟩ := run_defs_stmt_diag_ofK fs main data hfs els hp A hA defs name args hels tbl hdefs
      (by
        intro l' c' st' r hnd' hi64' hX
        have := instr_diag_of ⟨[main], main⟩ ⟨⟨[], some ⟨A, [], Map.u32Max - A + 1⟩, []⟩, [], some tbl, [], some [], []⟩ tbl
          hnd' hi64' (by simp) rfl [] ⟨A, [], Map.u32Max - A + 1⟩ [] rfl l' c' name args.toList t hm
          (by rw [Show.cur_empty A _ hA]; exact .inr ⟨d, st, hb⟩)
          (by rw [Show.cur_empty A _ hA]; intro i' hws hb'; rw [hb] at hb'; cases hb') st' r hX
        simpa using this)
    refine ⟨el, o, h1, h2, h3, h4, h5, ?_, ?_, ?_⟩
    · intro d' hd'
      obtain ⟨hat, hk⟩ := h6 d' hd'
      refine ⟨hat, ?_⟩
      unfold Asm.Pushes
      rw [h2]
      exact hk
    · rintro i' hws ⟨hb', _⟩
      rw [hb] at hb'; cases hb'
    · intro i' hb'
      rw [hb] at hb'; cases hb'

/-- C04k.d  the same on text, any piece spelling of the statement (`run_any3` strengthened) -/
theorem run_any4_partial (fs : Bytes → Option Bytes) (main : Bytes) (A : Nat) (hA : A < 4294967296) (defs : List (Bytes × Arg))
    (hdefsok : ∀ d ∈ defs, Lex.identOk d.1 = true ∧ Show.Opnd d.2) (ps : List Lex.Piece) (hv : Lex.Valid ps none)
    (name : Bytes) (as : PArgs) (haswf : as.wf)
    (hvals : Lex.tokVals ps = .ident name :: Render.pargs as ++ [.term])
    (hfs : fs main = some (progTextP A defs ps))
    (tbl : Asm.Table) (hdefs : defsTable defs [] = some tbl)
    (t : Instr) (hm : mnemonic name = some t) (hw : wellFormed2 (tabOf tbl) (sig t) as.erase.toList)
    (hq : ∀ vs, denoteAll2 (tabOf tbl) (sig t) as.erase.toList = some vs → ¬ svQuirk t vs) :
    ∃ els, Asm.parseFile (progTextP A defs ps) = .ok (els, none) ∧
      (Assembled fs main tbl A name as.erase ∨ NoRoom fs main els tbl A name as.erase ∨
        Diagnosed fs main els tbl A name as.erase) := by
  obtain ⟨els, hp, hels⟩ := parseFile_pieces A hA defs hdefsok ps hv name as haswf hvals
  exact ⟨els, hp, run_defs_stmt4_partial fs main _ hfs els hp A hA defs name as.erase hels tbl hdefs t hm hw hq⟩

/-- C04k.e  the same on text, ANY lexer layout of the statement (`run_layout3` strengthened) -/
theorem run_layout4_partial (fs : Bytes → Option Bytes) (main : Bytes) (A : Nat) (hA : A < 4294967296)
    (defs : List (Bytes × Arg))
    (hdefsok : ∀ d ∈ defs, Lex.identOk d.1 = true ∧ Show.Opnd d.2) (x : Lex.LTok) (r : List Lex.LTok) (trail : Bytes)
    (hL : Lex.LOk (x :: r) trail) (name : Bytes) (as : PArgs) (haswf : as.wf)
    (hvals : (x :: r).map (·.tok) = .ident name :: Render.pargs as ++ [.term])
    (hfs : fs main = some (progTextL A defs x r trail))
    (tbl : Asm.Table) (hdefs : defsTable defs [] = some tbl)
    (t : Instr) (hm : mnemonic name = some t) (hw : wellFormed2 (tabOf tbl) (sig t) as.erase.toList)
    (hq : ∀ vs, denoteAll2 (tabOf tbl) (sig t) as.erase.toList = some vs → ¬ svQuirk t vs) :
    ∃ els, Asm.parseFile (progTextL A defs x r trail) = .ok (els, none) ∧
      (Assembled fs main tbl A name as.erase ∨ NoRoom fs main els tbl A name as.erase ∨
        Diagnosed fs main els tbl A name as.erase) := by
  obtain ⟨els, hp, hels⟩ := parseFile_layout A hA defs hdefsok x r trail hL name as haswf hvals
  exact ⟨els, hp, run_defs_stmt4_partial fs main _ hfs els hp A hA defs name as.erase hels tbl hdefs t hm hw hq⟩

/-- C04k.f  unknown mnemonic, any layout: exactly one `instrNotFound` diagnostic at the statement, empty image
(`run_layout_unknown` strengthened) -/
theorem run_layout_unknown_exact (fs : Bytes → Option Bytes) (main : Bytes) (A : Nat) (hA : A < 4294967296)
    (defs : List (Bytes × Arg))
    (hdefsok : ∀ d ∈ defs, Lex.identOk d.1 = true ∧ Show.Opnd d.2) (x : Lex.LTok) (r : List Lex.LTok) (trail : Bytes)
    (hL : Lex.LOk (x :: r) trail) (name : Bytes) (as : PArgs) (haswf : as.wf)
    (hvals : (x :: r).map (·.tok) = .ident name :: Render.pargs as ++ [.term])
    (hfs : fs main = some (progTextL A defs x r trail))
    (tbl : Asm.Table) (hdefs : defsTable defs [] = some tbl) (hm : mnemonic name = none) :
    ∃ els el o, Asm.parseFile (progTextL A defs x r trail) = .ok (els, none) ∧ el ∈ els ∧
      el.val = .instruction name as.erase ∧ Asm.run fs main = .done o ∧ o.success = false ∧
      o.diags = [⟨main, el.line, el.col, .instrNotFound (foldName name)⟩] ∧ o.image = [] := by
  obtain ⟨els, hp, hels⟩ := parseFile_layout A hA defs hdefsok x r trail hL name as haswf hvals
  obtain ⟨pre, l, c, hel, hpre⟩ := progVals_split hels
  obtain ⟨o, h1, h2, h3, h4⟩ := run_stmt_unknown_exact fs main _ hfs els none hp A hA defs tbl hdefs pre [] l c name as.erase
    hel hpre hm
  exact ⟨els, ⟨l, c, .instruction name as.erase⟩, o, hp, by simp [hel], rfl, h1, h2, h3, h4⟩

-- non-vacuity of the encoder-refusal sub-case: `ADDS R1, R1, 300` has the meaning `add true 1 1 (imm 300)` (C04Text) and the
-- encoder refuses it
example : means (tabOf []) 0 (bytesOf "ADDS") [.ident (bytesOf "R1"), .ident (bytesOf "R1"), .const 300] =
      some (.add true 1 1 (.imm 300)) ∧ Codec.encode (.add true 1 1 (.imm 300)) = .error .unrepresentable :=
  ⟨by decide, rfl⟩

end Trion.C04
