import TrionModel.Lemmas.AsmMultiRun
import TrionModel.Props.C05Asm
/-!
# C05 (pipeline clause, projects with `.include`) — the image is the two-pass reference layout of the flattened project

Models: `Trion.Asm.run` (the whole `Context` pipeline with its `.include` recursion, Model/Asm.lean) and the two-pass
reference `Layout.Ref` of C05 (Model/Layout.lean).  Props/C05Asm.lean proves `layout_refines_asm` for ONE file; here the
project may consist of any number of files joined by `.include`, nested to any depth the model follows (`maxDepth`).

The flattened program (`Multi.FlatEls`, Lemmas/AsmMultiRun.lean).  `FlatEls num fs enc E id path t nxt c els p nxt'`:
`p` is the program of the layout core obtained from the statements `els` of the file instance `id` (path `path`) with the
reference cursor `c` in front of them by
* abstracting every statement other than `.include` exactly as in the single-file theorem (`absStmt`, names numbered
  `num id name`, values and final bytes taken from the instance's own table `t`), and
* splicing, in place of every `.include "f"` statement, the flattened program of the file `sibling path f` — a NEW
  instance (numbered in preorder: `nxt`), abstracted over a table `t'` of its own with `EnvRel (num nxt) t' E`, started
  with the cursor the includer has reached; the includer continues with the cursor the included file has reached
  (`Ref.cursorAfter`): the region and the cursor carry across the boundary in both directions, as
  `Context::assemble` leaves `active` alone (src/asm/mod.rs; `Include::apply` in src/asm/directive/include.rs).
Every file instance has its own scope (`num id` is injective jointly in `id` and the name, `NumInj`), so a name
defined in two files denotes two symbols of the flattened program; `E` is the ONE final symbol table of the flattened
program and every instance's table is `E` restricted to that instance.

Proved: `layout_refines_asm_includes_partial` — for a project whose include tree is free of `.global/.import/.export`
(operand trees arbitrary — the side condition `plain` is gone since `evaluate` is idempotent, Props/C08Full.lean) (`Multi.LocalProject`, the side condition of `layout_refines_asm` for every file
of the tree): if `Asm.run` succeeds, there are a flattened program `p` and a table `E` such that `p` is a flattening over
`E` (every instance's table IS `E` at that instance), `p` is well formed, the output image is address by address the
`pass2` image of the reference on `p`, and — if no label stands at the cursor 2^32 — `Ref.layout p` is defined, equals
the image, and `E` is the symbol table of the reference's pass 1 (so every label's final value is the address of the
byte that follows it in the flattened program, whichever file it stands in, and every statement's bytes are the bytes
in the reference's own final table of its file).
PARTIAL with respect to the full multi-file statement: `.global`, `.import`, `.export` are not covered (names crossing a
file boundary; the global task queue of `finalize`).  What the proof would need beyond this file: the task relation
`TaskRel` for tasks handed to the includer (`global = true`, evaluated in the includer's final table on the tree the
included file left), tables with deferred entries (`Table.NoDef` fails), and a flattening in which a name of an
instance may denote a symbol of its includer.

Facts of the model (and of the implementation: replayed on `trias`) that the reference of the missing stages has to
respect — each is a point where "a name resolves to its definition wherever that stands" is FALSE as stated:
* inside an included file `globals` IS the includer's local table (`enterFile`): `.global/.export` of a file at depth ≥ 2
  publish to its includer only, `.import` reads the includer's table only; the real global table is visible to the
  main file alone.  Witness `m: .addr 16; .include "i"; .du32 x;`  `i: .include "j"; .du32 x;`  `j: .global x; .const x, 9;`
  — `i` sees 9, `m` gets "no such local constant x".
* a name imported while still deferred in the includer can be DEFINED again by the importing file, silently, and then
  has two values: `m: .addr 16; .global x; .include "i"; .const x, 7; .du32 x;`  `i: .import x; .du32 x; .const x, 9;`
  assembles to `09 00 00 00 07 00 00 00`; with `.const x, 7` moved above `.global x` the same project is rejected
  (duplicate constant).
* a statement handed to the includer (`global = true`) is not handed on: `m: .addr 16; .global x; .include "i"; .const x, 7;`
  `i: .import x; .include "j";`  `j: .import x; .du32 x;` is rejected ("no such global constant x", placeholder left in
  the failed image) although the same `.du32 x` one level up (in `i`) assembles, and although it assembles in `j` when
  `x` is defined above the `.include` in `m`.  None of these produces wrong bytes in a run that SUCCEEDS with a name
  denoting one definition; they restrict which projects succeed.
-/
namespace Trion.Asm
open Trion Trion.SegLayout Trion.Asm.Multi
open Trion.Layout (MRun withTasks)

/-- C05 (pipeline, program level, projects with `.include` and file-local names)  -/
theorem layout_refines_asm_includes_partial {num : Nat → Bytes → Nat} (hinj : NumInj num) (fs : Bytes → Option Bytes)
    (main data : Bytes) (hfs : fs main = some data) (hloc : LocalProject fs maxDepth main data) (o : Outcome)
    (h : run fs main = .done o) (hs : o.success = true) :
    ∃ (els : List Element) (perr : Option ParseErr) (p : List Layout.Stmt) (E : Layout.Env) (t : Table) (n : Nat),
      parseFile data = .ok (els, perr) ∧
      EnvRel (num 0) t E ∧ FlatEls num fs encoder E 0 main t 1 none els p n ∧
      (∀ s ∈ p, s.wf = true) ∧
      (∃ img', Layout.Ref.pass2 none [] p = some img' ∧ ∀ a, Map.abs o.image a = img'.get a) ∧
      (Layout.NoLabelAtTop p →
        ∃ img'', Layout.Ref.layout p = some img'' ∧ (∀ a, Map.abs o.image a = img''.get a) ∧
          Layout.Ref.pass1 none [] p = some E) := by
  have henc := encoder_len
  unfold run runWith at h
  rw [hfs] at h
  simp only at h
  cases haf : assembleFile fs encoder maxDepth Env.init St.init data main with
  | stop r => rw [haf] at h; cases r <;> cases h
  | ok pr =>
    obtain ⟨st, res⟩ := pr
    rw [haf] at h
    simp only at h
    have hmd : maxDepth = 63 + 1 := rfl
    rw [hmd] at hloc
    rw [hmd, assembleFile] at haf
    simp only [Env.init, List.length_cons, List.length_nil, Nat.zero_add, Nat.add_one_ne_zero, if_false,
      enterFile_false good_init, ne_eq, not_true_eq_false] at haf
    have hinc : IncOk (assembleFile fs encoder 63) := fun env st data path g => assembleFile_safe henc fs 63 true env st data path g
    cases hfb : fileBody fs encoder (assembleFile fs encoder 63) ⟨[main], main⟩ data st2 with
    | stop r => simp only [st2] at hfb; rw [hfb] at haf; cases haf
    | ok q =>
      obtain ⟨st4, res4⟩ := q
      have hfb0 := hfb
      simp only [st2] at hfb
      rw [hfb] at haf
      simp only [Out.ok.injEq, Prod.mk.injEq] at haf
      obtain ⟨hst, _⟩ := haf
      have hseg : st.seg = st4.seg := by rw [← hst]; rfl
      have herrs : st.errors = st4.errors := by rw [← hst]; rfl
      have hglob : st.globalTasks = st4.globalTasks := by rw [← hst]; rfl
      cases hcl : Seg.closeSegment st.seg with
      | mk s' oc =>
        rw [hcl] at h
        cases oc with
        | diag e => simp only at h; cases h; simp [Outcome.success] at hs
        | panic => cases h
        | placed x =>
          exfalso
          have g4 := ((fileBody_safe henc hinc (env := ⟨[main], main⟩) rfl fs data good_st2).2 _ _ hfb0).1
          have := (Seg.close_spec (s := st.seg) (by rw [hseg]; exact g4.inv)).1
          rw [hcl] at this; cases this
        | ok =>
          simp only at h
          cases hfz : finalize encoder Env.init { st with seg := s' } with
          | stop r => rw [hfz] at h; cases r <;> cases h
          | ok z =>
            obtain ⟨st', fin⟩ := z
            rw [hfz] at h
            simp only [Result.done.injEq] at h
            subst h
            have hfin : fin = true := by simpa [Outcome.success] using hs
            have hfg := finalize_grew hfz
            have herr' : st'.errors = [] := hfg.2.mp hfin
            have herr0 : st.errors = [] := by
              have := hfg.1; rw [herr'] at this
              exact List.eq_nil_of_length_eq_zero (by simpa using this)
            have herr4 : st4.errors = [] := by rw [← herrs]; exact herr0
            -- the main file against the layout core
            obtain ⟨els, perr, tt, p, l3, l4, id', hparse, _, _, hm, hrt, g4, r4, _, e2, _, _, _, hwf, _, hflat⟩ :=
              fileBody_sim (num := num) hinj henc fs (assembleFile fs encoder 63) (LocalProject fs 63)
                (assembleFile_sim hinj henc fs 63) hinc (assembleFile_grew fs encoder 63) (assembleFile_rel fs encoder 63)
                ⟨[main], main⟩ main [] rfl data 0 st2 st4 res4 {} hloc good_st2 ⟨fun _ => rfl, rfl⟩ rfl rfl rfl
                (fun _ _ _ => rfl) hfb0 herr4
            -- close
            obtain ⟨l5, c1, c2, _, _⟩ := close_sim g4.inv r4
            rw [← hseg, hcl] at c2
            simp only at c2
            -- finalize with an empty global queue
            have hgl : st.globalTasks = [] := by rw [hglob, e2]; rfl
            have hst' : st'.seg = s' := by
              unfold finalize at hfz
              simp only [hgl, rounds, globalLoop, List.isEmpty_nil, if_true] at hfz
              cases hfz
              rfl
            -- the reference
            have rel0 : Layout.Rel ({} : Layout.State) ([] ++ ({} : Layout.State).tasks) none [] := Layout.rel_init
            obtain ⟨im', p2, rel3, p1⟩ := Layout.mrun_rel hm [] none [] rel0 hwf
            have rel3' : Layout.Rel (withTasks [] l3) ([] ++ l3.tasks) (Layout.Ref.cursorAfter none p) im' := rel3.congr rfl rfl
            obtain ⟨rel4, he4, _⟩ := Layout.runTasks_rel_frame [] l3.tasks _ l4 _ im' rel3' hrt
            obtain ⟨l5', c1', _, _, _, _, hg, _⟩ := Layout.closeSeg_spec l4 rel4.core
            rw [c1] at c1'; cases c1'
            have himg : ∀ a, Map.abs st'.seg.map a = im'.get a := by
              intro a
              rw [hst', c2.1 a, hg a]
              exact rel4.agree a (fun _ ht => by cases ht)
            have hp2 : Layout.Ref.pass2 none [] p = some im' := by
              have := p2 []
              simp only [List.append_nil, Layout.Ref.pass2] at this
              exact this
            obtain ⟨hE, hF⟩ := hflat l4.env (fun _ _ _ _ => rfl)
            refine ⟨els, perr, p, l4.env, tt, id', hparse, hE, hF, hwf, ⟨im', hp2, himg⟩, fun hl => ?_⟩
            have hp1 : Layout.Ref.pass1 none [] p = some l4.env := by
              have := p1 hl []
              simp only [List.append_nil, Layout.Ref.pass1] at this
              rw [this]
              show some l3.env = some l4.env
              rw [he4]; rfl
            refine ⟨im', ?_, himg, hp1⟩
            rw [Layout.layout_eq p (by rw [hp1]; simp)]
            exact hp2

/-- the run of a project with `.include` (file-local names) against the reference, with the placement of every
statement (the common core of the theorems below) -/
theorem run_sim_includes {num : Nat → Bytes → Nat} (hinj : NumInj num) (fs : Bytes → Option Bytes)
    (main data : Bytes) (hfs : fs main = some data) (hloc : LocalProject fs maxDepth main data) (o : Outcome)
    (h : run fs main = .done o) (hs : o.success = true) :
    ∃ (els : List Element) (perr : Option ParseErr) (p : List Layout.Stmt) (E : Layout.Env) (t : Table) (n : Nat)
      (im' : Layout.Img),
      parseFile data = .ok (els, perr) ∧
      EnvRel (num 0) t E ∧ FlatEls num fs encoder E 0 main t 1 none els p n ∧
      (∀ s ∈ p, s.wf = true) ∧ Layout.Ref.pass2 none [] p = some im' ∧ (∀ a, Map.abs o.image a = im'.get a) ∧
      (∀ q s r, p = q ++ s :: r → s.emits = true →
        ∃ x, Layout.Ref.cursorAfter none q = some x ∧
          ∀ i, i < (Layout.Ref.bytes x s).length → im'.get (x + i) = (Layout.Ref.bytes x s)[i]?) := by
  have henc := encoder_len
  unfold run runWith at h
  rw [hfs] at h
  simp only at h
  cases haf : assembleFile fs encoder maxDepth Env.init St.init data main with
  | stop r => rw [haf] at h; cases r <;> cases h
  | ok pr =>
    obtain ⟨st, res⟩ := pr
    rw [haf] at h
    simp only at h
    have hmd : maxDepth = 63 + 1 := rfl
    rw [hmd] at hloc
    rw [hmd, assembleFile] at haf
    simp only [Env.init, List.length_cons, List.length_nil, Nat.zero_add, Nat.add_one_ne_zero, if_false,
      enterFile_false good_init, ne_eq, not_true_eq_false] at haf
    have hinc : IncOk (assembleFile fs encoder 63) := fun env st data path g => assembleFile_safe henc fs 63 true env st data path g
    cases hfb : fileBody fs encoder (assembleFile fs encoder 63) ⟨[main], main⟩ data st2 with
    | stop r => simp only [st2] at hfb; rw [hfb] at haf; cases haf
    | ok q =>
      obtain ⟨st4, res4⟩ := q
      have hfb0 := hfb
      simp only [st2] at hfb
      rw [hfb] at haf
      simp only [Out.ok.injEq, Prod.mk.injEq] at haf
      obtain ⟨hst, _⟩ := haf
      have hseg : st.seg = st4.seg := by rw [← hst]; rfl
      have herrs : st.errors = st4.errors := by rw [← hst]; rfl
      have hglob : st.globalTasks = st4.globalTasks := by rw [← hst]; rfl
      cases hcl : Seg.closeSegment st.seg with
      | mk s' oc =>
        rw [hcl] at h
        cases oc with
        | diag e => simp only at h; cases h; simp [Outcome.success] at hs
        | panic => cases h
        | placed x =>
          exfalso
          have g4 := ((fileBody_safe henc hinc (env := ⟨[main], main⟩) rfl fs data good_st2).2 _ _ hfb0).1
          have := (Seg.close_spec (s := st.seg) (by rw [hseg]; exact g4.inv)).1
          rw [hcl] at this; cases this
        | ok =>
          simp only at h
          cases hfz : finalize encoder Env.init { st with seg := s' } with
          | stop r => rw [hfz] at h; cases r <;> cases h
          | ok z =>
            obtain ⟨st', fin⟩ := z
            rw [hfz] at h
            simp only [Result.done.injEq] at h
            subst h
            have hfin : fin = true := by simpa [Outcome.success] using hs
            have hfg := finalize_grew hfz
            have herr' : st'.errors = [] := hfg.2.mp hfin
            have herr0 : st.errors = [] := by
              have := hfg.1; rw [herr'] at this
              exact List.eq_nil_of_length_eq_zero (by simpa using this)
            have herr4 : st4.errors = [] := by rw [← herrs]; exact herr0
            -- the main file against the layout core
            obtain ⟨els, perr, tt, p, l3, l4, id', hparse, _, _, hm, hrt, g4, r4, _, e2, _, _, _, hwf, _, hflat⟩ :=
              fileBody_sim (num := num) hinj henc fs (assembleFile fs encoder 63) (LocalProject fs 63)
                (assembleFile_sim hinj henc fs 63) hinc (assembleFile_grew fs encoder 63) (assembleFile_rel fs encoder 63)
                ⟨[main], main⟩ main [] rfl data 0 st2 st4 res4 {} hloc good_st2 ⟨fun _ => rfl, rfl⟩ rfl rfl rfl
                (fun _ _ _ => rfl) hfb0 herr4
            -- close
            obtain ⟨l5, c1, c2, _, _⟩ := close_sim g4.inv r4
            rw [← hseg, hcl] at c2
            simp only at c2
            -- finalize with an empty global queue
            have hgl : st.globalTasks = [] := by rw [hglob, e2]; rfl
            have hst' : st'.seg = s' := by
              unfold finalize at hfz
              simp only [hgl, rounds, globalLoop, List.isEmpty_nil, if_true] at hfz
              cases hfz
              rfl
            -- the reference
            have rel0 : Layout.Rel ({} : Layout.State) ([] ++ ({} : Layout.State).tasks) none [] := Layout.rel_init
            obtain ⟨im', p2, rel3, _, hpl⟩ := Layout.mrun_placed hm [] none [] rel0 hwf
            have rel3' : Layout.Rel (withTasks [] l3) ([] ++ l3.tasks) (Layout.Ref.cursorAfter none p) im' := rel3.congr rfl rfl
            obtain ⟨rel4, he4, _⟩ := Layout.runTasks_rel_frame [] l3.tasks _ l4 _ im' rel3' hrt
            obtain ⟨l5', c1', _, _, _, _, hg, _⟩ := Layout.closeSeg_spec l4 rel4.core
            rw [c1] at c1'; cases c1'
            have himg : ∀ a, Map.abs st'.seg.map a = im'.get a := by
              intro a
              rw [hst', c2.1 a, hg a]
              exact rel4.agree a (fun _ ht => by cases ht)
            have hp2 : Layout.Ref.pass2 none [] p = some im' := by
              have := p2 []
              simp only [List.append_nil, Layout.Ref.pass2] at this
              exact this
            obtain ⟨hE, hF⟩ := hflat l4.env (fun _ _ _ _ => rfl)
            exact ⟨els, perr, p, l4.env, tt, id', im', hparse, hE, hF, hwf, hp2, himg, hpl⟩

/-- C05 (no placeholder survives; every statement's bytes at its address — projects with `.include`, file-local names) and
C08 (pipeline clause across include boundaries).  In the image of a successful run EVERY emitting statement `s` of the
flattened program (an instruction, `.du*`, `.dstr/.dhex/.dfile`, the padding of `.align`, of whichever file) stands with
its reference bytes at its reference address — in particular every statement that was written as 0xBE… when it was met
and rewritten when ITS file ended.  Moreover `s` is the abstraction `absStmt … t' c' el` of a source statement `el` of
some file instance over that instance's FINAL table `t'` (= the reference's final table `E` at that instance): its bytes
`Ref.bytes c s` are a function of the statement, its address and its file's final table only.  Hence a statement emits
the same bytes whether the constants it uses are defined above it or below it in its file, before or after an
`.include` statement of that file, with any amount of code of other files in between (the address, which `Ref.pass1`
computes from sizes alone, is the same).  PARTIAL: file-local names only (`LocalProject`); "defined in another file"
needs `.global/.import/.export` (stage 2/3). -/
theorem every_statement_placed_asm_includes_partial {num : Nat → Bytes → Nat} (hinj : NumInj num) (fs : Bytes → Option Bytes)
    (main data : Bytes) (hfs : fs main = some data) (hloc : LocalProject fs maxDepth main data) (o : Outcome)
    (h : run fs main = .done o) (hs : o.success = true) :
    ∃ (els : List Element) (perr : Option ParseErr) (p : List Layout.Stmt) (E : Layout.Env) (t : Table) (n : Nat),
      parseFile data = .ok (els, perr) ∧ EnvRel (num 0) t E ∧ FlatEls num fs encoder E 0 main t 1 none els p n ∧
      ∀ q s r, p = q ++ s :: r → s.emits = true →
        (∃ c, Layout.Ref.cursorAfter none q = some c ∧
          ∀ i, i < (Layout.Ref.bytes c s).length → Map.abs o.image (c + i) = (Layout.Ref.bytes c s)[i]?) ∧
        ∃ id' path' t' c' el, EnvRel (num id') t' E ∧ isInclude el = false ∧
          s = absStmt (num id') fs encoder path' t' c' el := by
  obtain ⟨els, perr, p, E, t, n, im', h1, h2, h3, _, _, h6, h7⟩ := run_sim_includes hinj fs main data hfs hloc o h hs
  refine ⟨els, perr, p, E, t, n, h1, h2, h3, fun q s r hp hse => ⟨?_, ?_⟩⟩
  · obtain ⟨x, hx, hb⟩ := h7 q s r hp hse
    exact ⟨x, hx, fun i hi => by rw [h6]; exact hb i hi⟩
  · exact h3.source h2 s (by rw [hp]; simp)

/-! ### non-vacuity -/

/-- a decidable form of `LocalProject` -/
def localProjectB (fs : Bytes → Option Bytes) : Nat → Bytes → Bytes → Bool
  | 0, _, _ => true
  | fuel + 1, path, data =>
    match parseFile data with
    | .ok (els, _) => els.all fun el => okInc el &&
        match incTarget fs path el with
        | some (p', d') => localProjectB fs fuel p' d'
        | none => true
    | .stop _ => true

theorem localProject_of_B (fs : Bytes → Option Bytes) : ∀ (fuel : Nat) (path data : Bytes),
    localProjectB fs fuel path data = true → LocalProject fs fuel path data := by
  intro fuel
  induction fuel with
  | zero => intro _ _ _; trivial
  | succ fuel ih =>
    intro path data h els perr hp el hel
    simp only [localProjectB, hp, List.all_eq_true, Bool.and_eq_true] at h
    obtain ⟨h1, h3⟩ := h el hel
    refine ⟨h1, fun p' d' ht => ih p' d' ?_⟩
    rw [ht] at h3
    exact h3

/-- a numbering of (file instance, name): the instance in unary in front of the name, the byte string read in
bijective base 256 -/
def exCode : Bytes → Nat
  | [] => 0
  | x :: r => x.toNat + 1 + 256 * exCode r

theorem exCode_inj : ∀ a b : Bytes, exCode a = exCode b → a = b
  | [], [], _ => rfl
  | [], y :: s, h => by simp only [exCode] at h; omega
  | x :: r, [], h => by simp only [exCode] at h; omega
  | x :: r, y :: s, h => by
    simp only [exCode] at h
    have hx := x.toNat_lt
    have hy := y.toNat_lt
    have h1 : x.toNat = y.toNat := by omega
    have h2 : exCode r = exCode s := by omega
    rw [exCode_inj r s h2, UInt8.toNat_inj.mp h1]

def exNum2 : Nat → Bytes → Nat := fun i b => exCode (List.replicate i 1 ++ 0 :: b)

theorem exNum2_inj : NumInj exNum2 := by
  intro i j a b h
  have h' := exCode_inj _ _ h
  clear h
  induction i generalizing j with
  | zero =>
    cases j with
    | zero => simp only [List.replicate_zero, List.nil_append, List.cons.injEq, true_and] at h'; exact ⟨rfl, h'⟩
    | succ j => simp [List.replicate_succ] at h'
  | succ i ih =>
    cases j with
    | zero => simp [List.replicate_succ] at h'
    | succ j =>
      simp only [List.replicate_succ, List.cons_append, List.cons.injEq, true_and] at h'
      obtain ⟨e1, e2⟩ := ih j h'
      exact ⟨by rw [e1], e2⟩

/-- the project: `m` = `.addr 16; B x; .include "i"; x:` and `i` = `.du16 y + 1; y:` — the branch in the main file
refers forward across the included file (whose two bytes move the label), the included file has a forward reference
of its own -/
def exMainText : Bytes := bytesOf ".addr 16;\nB x;\n.include \"i\";\nx:\n"
def exIncText : Bytes := bytesOf ".du16 y + 1;\ny:\n"
def exFs : Bytes → Option Bytes := fun p =>
  if p = bytesOf "m" then some exMainText else if p = bytesOf "i" then some exIncText else none

set_option maxRecDepth 100000 in
theorem exProject_local : LocalProject exFs maxDepth (bytesOf "m") exMainText :=
  localProject_of_B _ _ _ _ (by decide +kernel)

set_option maxRecDepth 100000 in
/-- `Asm.run` on the project: success, no diagnostic, image `00 E0` (`B` to 20) `15 00` (`y + 1` = 21) at 16 -/
theorem exProject_run : (match run exFs (bytesOf "m") with
    | .done o => o.success && o.diags.isEmpty && o.image == [(16, [0x00, 0xE0, 0x15, 0x00])]
    | _ => false) = true := by decide +kernel

/-- the hypotheses of `layout_refines_asm_includes_partial` hold of the project, so its conclusion does -/
example : ∃ o, run exFs (bytesOf "m") = .done o ∧ o.success = true ∧
    ∃ (els : List Element) (perr : Option ParseErr) (p : List Layout.Stmt) (E : Layout.Env) (t : Table) (n : Nat),
      parseFile exMainText = .ok (els, perr) ∧ EnvRel (exNum2 0) t E ∧
      FlatEls exNum2 exFs encoder E 0 (bytesOf "m") t 1 none els p n ∧ (∀ s ∈ p, s.wf = true) ∧
      (∃ img', Layout.Ref.pass2 none [] p = some img' ∧ ∀ a, Map.abs o.image a = img'.get a) := by
  have hr := exProject_run
  cases hrun : run exFs (bytesOf "m") with
  | done o =>
    rw [hrun] at hr
    simp only [Bool.and_eq_true] at hr
    obtain ⟨els, perr, p, E, t, n, h1, h2, h3, h4, h5, _⟩ :=
      layout_refines_asm_includes_partial exNum2_inj exFs (bytesOf "m") exMainText rfl exProject_local o hrun hr.1.1
    exact ⟨o, rfl, hr.1.1, els, perr, p, E, t, n, h1, h2, h3, h4, h5⟩
  | noMain => rw [hrun] at hr; cases hr
  | panic => rw [hrun] at hr; cases hr
  | fuel => rw [hrun] at hr; cases hr
  | loop => rw [hrun] at hr; cases hr

/-- the flattened program of the project (`x` of the main file = symbol 1, `y` of the included file = symbol 2) and
its reference layout: the image `Asm.run` produces -/
example : Layout.Ref.layout [.addr 16, .emit 2 [1] [0x00, 0xE0], .emit 2 [2] [0x15, 0x00], .label 2, .label 1] =
      some [(18, 0x15), (19, 0x00), (16, 0x00), (17, 0xE0)] ∧
    Layout.Ref.pass1 none [] [.addr 16, .emit 2 [1] [0x00, 0xE0], .emit 2 [2] [0x15, 0x00], .label 2, .label 1] =
      some [(1, 20), (2, 20)] := ⟨by rfl, by rfl⟩

/-- `every_statement_placed_asm_includes_partial` applies to the project as well -/
example : ∃ o, run exFs (bytesOf "m") = .done o ∧
    ∃ (p : List Layout.Stmt), ∀ q s r, p = q ++ s :: r → s.emits = true →
      ∃ c, Layout.Ref.cursorAfter none q = some c ∧
        ∀ i, i < (Layout.Ref.bytes c s).length → Map.abs o.image (c + i) = (Layout.Ref.bytes c s)[i]? := by
  have hr := exProject_run
  cases hrun : run exFs (bytesOf "m") with
  | done o =>
    rw [hrun] at hr
    simp only [Bool.and_eq_true] at hr
    obtain ⟨_, _, p, _, _, _, _, _, _, h4⟩ :=
      every_statement_placed_asm_includes_partial exNum2_inj exFs (bytesOf "m") exMainText rfl exProject_local o hrun hr.1.1
    exact ⟨o, rfl, p, fun q s r hp hs => (h4 q s r hp hs).1⟩
  | noMain => rw [hrun] at hr; cases hr
  | panic => rw [hrun] at hr; cases hr
  | fuel => rw [hrun] at hr; cases hr
  | loop => rw [hrun] at hr; cases hr

end Trion.Asm
