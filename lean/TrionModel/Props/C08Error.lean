import TrionModel.Lemmas.AsmRetryError
import TrionModel.Lemmas.SimpErrorAgain
import TrionModel.Props.C08Deferred
import TrionModel.Lemmas.AsmDefer
/-!
# C08 — the retry of a statement whose first attempt ended with a DIAGNOSTIC

An instruction or `.du*` statement whose first attempt fails with a trivial error records the diagnostic, writes the 0xBE
placeholder, queues itself with the tree left behind, and is run again at the end of the file.

* Front-end diagnostics (argument count, operand type / range / register / address form, branch and literal range and
  alignment — `B 5000` at address 0): the re-run does not evaluate anything and reports the SAME diagnostic, whatever the
  table is by then (`stmt_error_again`, first alternative of `Front.assemble_retry_error`).
* Evaluation errors (`EvalError::BadType` / `Overflow` — `.du8 1/0`): the re-run evaluates the tree left behind.  For an
  operand with `Simp.ErrAgain` (proved for arithmetic all of whose names have a value, `Simp.errAgain_closed`) it fails with
  exactly the same error over every table.
* So the task of such a statement pushes the same kind of diagnostic at the statement's position again, returns a trivial
  error, and leaves the regions — in particular the placeholder — untouched (`instr_task_error_again`, `du_task_error_again`).

NOT true without a condition on the operand (finding K7): with a `.global`-declared (Deferred) name in the operand the
first attempt can fail with an overflow raised by the simplifier's constant merge around that name, and the re-run, with
the name's value known, can succeed and overwrite the placeholder: `.global x; .du32 (x - MAX - 1) + MAX; .const x, 2`
(`error_then_success`); the run is a failure all the same (one diagnostic).
-/
namespace Trion.Asm
open Trion

/-- closed arithmetic over the table: every name has a value, no register -/
def ClosedArith (t : Table) (a : Arg) : Prop :=
  Simp.arith (Simp.unknown (fun n => t.get n) Front.isRegister) a = true

abbrev ErrAgainT (t : Table) (a : Arg) : Prop := Simp.ErrAgain (fun n => t.get n) Front.isRegister a

theorem errAgainT_closed {t : Table} {a : Arg} (h : ClosedArith t a) : ErrAgainT t a := Simp.errAgain_closed h

theorem frontEval_error_again {t₁ : Table} {a aL : Arg} {er : Front.EvalErr} (hE : ErrAgainT t₁ a)
    (h : frontEval t₁ a = .error er aL) (t₂ : Table) : frontEval t₂ aL = .error er aL := by
  unfold frontEval evalIn at h
  cases he : Simp.evaluateE (fun n => t₁.get n) Front.isRegister a with
  | ok ev y => rw [he] at h; cases hc : ev.cause <;> simp [hc] at h
  | nosuch n y => rw [he] at h; cases h
  | panic => exact absurd he (evaluateE_ne_panic _ _ _)
  | err e y =>
    rw [he] at h
    have h2 := hE e y he (fun n => t₂.get n)
    cases e with
    | badType k o =>
      simp only [evalE, Front.EvalOut.error.injEq] at h
      obtain ⟨rfl, rfl⟩ := h
      unfold frontEval evalIn
      rw [h2]; rfl
    | overflow k =>
      simp only [evalE, Front.EvalOut.error.injEq] at h
      obtain ⟨rfl, rfl⟩ := h
      unfold frontEval evalIn
      rw [h2]; rfl

/-- C08 (instruction statement, first attempt DIAGNOSED)  The first `assemble` over `t₁` ended with the diagnostic `d`
(state `fs1` queued).  If every operand satisfies `ErrAgainT t₁` (needed only when `d` is an evaluation error), the re-run
over ANY table `t₂`, with either `local` flag, ends with the same diagnostic `d` and leaves the state as it is: it never
completes, and the instruction it holds is never encoded in place of the placeholder. -/
theorem stmt_error_again {t₁ : Table} (addr : Nat) (name : Bytes) (args : List Arg)
    (hE : ∀ a ∈ args, ErrAgainT t₁ a) (d : Front.Diag) (fs1 : Front.St)
    (h1 : Front.build addr name args (frontEval t₁) true = .error d fs1) (t₂ : Table) (loc : Bool) :
    Front.assemble fs1 (frontEval t₂) loc = (fs1, .error d) := by
  unfold Front.build at h1
  cases hm : Front.mnemonic name with
  | none => rw [hm] at h1; cases h1
  | some t =>
    rw [hm] at h1
    simp only at h1
    cases ha : Front.assemble ⟨addr, t, 0, args⟩ (frontEval t₁) true with
    | mk st r =>
      rw [ha] at h1
      cases r with
      | completed => cases h1
      | deferred c => cases h1
      | panic => cases h1
      | error d' =>
        simp only [Front.BuildOut.error.injEq] at h1
        obtain ⟨rfl, rfl⟩ := h1
        rcases Front.assemble_retry_error (frontEval t₁) true addr t args st d' ha with hfront | ⟨p, a, aL, preL, restL, hmem, hev, hA, hre⟩
        · exact hfront (frontEval t₂) loc
        · -- the diagnostic came out of the evaluation of `a`
          have hdone := Front.evalArg_error_done hev
          unfold Front.evalArg at hev
          rw [if_pos hdone] at hev
          cases hfe : frontEval t₁ a with
          | complete x => rw [hfe] at hev; cases hev
          | deferred c x => rw [hfe] at hev; cases hev
          | noSuchVariable n x => rw [hfe] at hev; simp only [if_true] at hev; cases hev
          | error er x =>
            rw [hfe] at hev
            simp only [Except.error.injEq, Prod.mk.injEq, Front.Res.error.injEq] at hev
            obtain ⟨rfl, rfl⟩ := hev
            have h2 := frontEval_error_again (hE a hmem) hfe t₂
            have h3 : Front.evalArg (frontEval t₂) loc p st.argsDone x = .error (x, .error (.evalErr er)) := by
              unfold Front.evalArg
              rw [if_pos hdone, h2]
            rw [hre (frontEval t₂) loc x _ h3, ← hA]

/-! ## the statement and its task on the pipeline model -/

/-- what the statement does when its first `assemble` is diagnosed: the diagnostic is recorded at the statement's position,
the 0xBE placeholder of the instruction's length is written, the instruction is queued with the state `assemble` left, and
the statement returns `Ok` -/
theorem instr_diagnosed (fs : Bytes → Option Bytes) (enc : Encoder) (inc : Inc) (env : Env) (st : St) (tbl : Table)
    (q : List Task) (henv : env.paths ≠ []) (hl : st.locals = some tbl) (hq : st.localTasks = some q)
    (l c : Nat) (name : Bytes) (args : Args) (map : Map.Segs) (seg : Seg.Active) (pending : List (Nat × Nat))
    (hs : st.seg = ⟨map, some seg, pending⟩) (t : Instr) (hm : Front.mnemonic name = some t)
    (fs1 : Front.St) (d : Front.Diag)
    (ha : Front.assemble ⟨seg.cur, t, 0, args.toList⟩ (frontEval tbl) true = (fs1, .error d))
    (ph : Bytes) (he : enc fs1.instr = .ok ph) (hfit : seg.buf.length + ph.length ≤ seg.maxLen) :
    statement fs enc inc env st ⟨l, c, .instruction name args⟩ =
      .ok ({ st with
              errors := ⟨env.curName, l, c, frontKind d⟩ :: st.errors,
              seg := ⟨map, some { seg with buf := seg.buf ++ List.replicate ph.length 0xBE }, (seg.cur, ph.length) :: pending⟩,
              localTasks := some (q ++ [.instr ⟨env.curName, l, c, fs1, true⟩ false]) }, .ok) := by
  have hpaths := paths_nonempty henv
  have hrem : seg.remaining = some (seg.maxLen - seg.buf.length) := by
    simp [Seg.Active.remaining]; omega
  have hle : ph.length ≤ seg.maxLen - seg.buf.length := by omega
  simp only [statement, hs, Option.isNone_some, Bool.false_eq_true, if_false, instruction, currAddr, Option.map_some,
    hm, ArmInstr.assemble, evalTable, hpaths, hl, evalPanics_false, ha, ArmInstr.writeInstr, he, writeStmt, St.pushIn,
    Bool.not_false, Option.isSome_some, Bool.and_self, if_true, segStep, Seg.step, Seg.Active.write, hrem,
    List.length_replicate, hle, ArmInstr.schedule, addTask, hq]

/-- the task of a queued instruction whose `assemble` is diagnosed again: the diagnostic is recorded at the statement's
position, the task returns a trivial error, nothing else changes -/
theorem instr_task_diagnosed (enc : Encoder) (env : Env) (st : St) (t₂ : Table) (hT : evalTable env st = .ok t₂)
    (j : ArmInstr) (g : Bool) (fs2 : Front.St) (d : Front.Diag)
    (h : Front.assemble j.st (frontEval t₂) false = (fs2, .error d)) :
    runTask enc env st (.instr j g) = .ok (st.pushIn j.file j.line j.col (frontKind d), .err .trivial) := by
  simp only [runTask, runInstrTask, ArmInstr.assemble, hT, evalPanics_false, Bool.false_eq_true, if_false, h]

/-- C08 (pipeline, instruction DIAGNOSED at its first attempt)  The statement's first `assemble` over `t₁` ended with the
diagnostic `d` and queued `fs1`; every operand has `ErrAgainT t₁`.  Whatever the state and table are when the task runs
(end of the file, or the global round), the task records the diagnostic of the SAME kind `frontKind d` at the statement's
position, returns a trivial error, and leaves the regions — hence the 0xBE placeholder at the statement's address — and
the tables as they are. -/
theorem instr_task_error_again {t₁ : Table} (addr : Nat) (name : Bytes) (args : List Arg)
    (hE : ∀ a ∈ args, ErrAgainT t₁ a) (d : Front.Diag) (fs1 : Front.St)
    (h1 : Front.build addr name args (frontEval t₁) true = .error d fs1)
    (enc : Encoder) (env : Env) (st : St) (t₂ : Table) (hT : evalTable env st = .ok t₂)
    (file : Bytes) (l c : Nat) (placed g : Bool) :
    ∃ st', runTask enc env st (.instr ⟨file, l, c, fs1, placed⟩ g) = .ok (st', .err .trivial) ∧
      st'.errors = ⟨file, l, c, frontKind d⟩ :: st.errors ∧ st'.seg = st.seg ∧
      st'.globals = st.globals ∧ st'.locals = st.locals ∧ st'.localTasks = st.localTasks ∧ st'.globalTasks = st.globalTasks := by
  have h2 := stmt_error_again addr name args hE d fs1 h1 t₂ false
  exact ⟨_, instr_task_diagnosed enc env st t₂ hT ⟨file, l, c, fs1, placed⟩ g fs1 d h2, rfl, rfl, rfl, rfl, rfl, rfl⟩

/-! ## `.du8` / `.du16` / `.du32` -/

theorem evalIn_complete_again {t₁ : Table} {a a' : Arg} (h : evalIn t₁ a = .ok (.complete a')) (t₂ : Table) :
    evalIn t₂ a' = .ok (.complete a') := by
  unfold evalIn at h
  cases he : Simp.evaluateE (fun n => t₁.get n) Front.isRegister a with
  | ok ev x =>
    rw [he] at h
    cases hc : ev.cause with
    | some c => simp [hc] at h
    | none =>
      simp only [hc, Out.ok.injEq, Ev.complete.injEq] at h
      subst h
      unfold evalIn
      rw [Simp.evaluateE_idempotent he hc (fun n => t₂.get n)]
  | nosuch n x => rw [he] at h; cases h
  | err e x => rw [he] at h; cases h
  | panic => rw [he] at h; cases h

theorem evalIn_error_again {t₁ : Table} {a aL : Arg} {e : EvalE} (hE : ErrAgainT t₁ a)
    (h : evalIn t₁ a = .ok (.err e aL)) (t₂ : Table) : evalIn t₂ aL = .ok (.err e aL) := by
  unfold evalIn at h
  cases he : Simp.evaluateE (fun n => t₁.get n) Front.isRegister a with
  | ok ev x => rw [he] at h; cases hc : ev.cause <;> simp [hc] at h
  | nosuch n x => rw [he] at h; cases h
  | panic => rw [he] at h; cases h
  | err e' x =>
    rw [he] at h
    simp only [Out.ok.injEq, Ev.err.injEq] at h
    obtain ⟨rfl, rfl⟩ := h
    unfold evalIn
    rw [hE e' x he (fun n => t₂.get n)]

/-- C08 (`.du*`, first attempt DIAGNOSED with a trivial error)  The first `apply` (over the table `t₁`) recorded a
diagnostic of kind `k` at the statement's position and left `d'`.  If the operand has `ErrAgainT t₁`, the re-run of `d'`
(with whatever `placed` flag the placeholder write left) over ANY state and table records a diagnostic of the same kind
`k` at the same position, returns a trivial error, and changes nothing else: the value is never written. -/
theorem du_error_again (d : DataExpr) (env₁ : Env) (st₁ : St) (t₁ : Table) (hT₁ : evalTable env₁ st₁ = .ok t₁)
    (hE : ErrAgainT t₁ d.arg) (d' : DataExpr) (st₁' : St)
    (h : d.apply env₁ st₁ true = .ok (d', st₁', .err .trivial)) :
    ∃ k, st₁' = st₁.pushIn d.file d.line d.col k ∧
      ∀ (env₂ : Env) (st₂ : St) (t₂ : Table) (b : Bool), evalTable env₂ st₂ = .ok t₂ →
        ({ d' with placed := b } : DataExpr).apply env₂ st₂ false =
          .ok ({ d' with placed := b }, st₂.pushIn d.file d.line d.col k, .err .trivial) := by
  unfold DataExpr.apply evalArg at h
  rw [hT₁] at h
  simp only at h
  obtain ⟨ev, hev⟩ := evalIn_ok t₁ d.arg
  rw [hev] at h
  cases ev with
  | deferred c a => cases h
  | noSuch n a => simp only [if_true] at h; cases h
  | err e a =>
    simp only [Out.ok.injEq, Prod.mk.injEq] at h
    obtain ⟨rfl, rfl, _⟩ := h
    refine ⟨_, rfl, fun env₂ st₂ t₂ b hT₂ => ?_⟩
    unfold DataExpr.apply evalArg
    rw [hT₂]
    simp only
    rw [evalIn_error_again hE hev t₂]
    rfl
  | complete a =>
    simp only at h
    have hag := evalIn_complete_again hev
    cases a with
    | const v =>
      simp only [DataExpr.writer] at h
      by_cases hr : 0 ≤ v ∧ v ≤ d.du.max
      · rw [if_pos hr] at h
        unfold DataExpr.writeData at h
        simp only at h
        cases hw : writeStmt st₁.seg d.placed d.addr (leBytes d.du.size v.toNat) with
        | stop r => rw [hw] at h; cases h
        | ok p =>
          obtain ⟨s', pl, oe⟩ := p
          rw [hw] at h
          cases oe <;> simp at h
      · rw [if_neg hr] at h
        simp only [Out.ok.injEq, Prod.mk.injEq] at h
        obtain ⟨rfl, rfl, _⟩ := h
        refine ⟨_, rfl, fun env₂ st₂ t₂ b hT₂ => ?_⟩
        unfold DataExpr.apply evalArg
        rw [hT₂]
        simp only
        rw [hag t₂]
        simp only [DataExpr.writer, hr, if_false]
        rfl
    | _ =>
      simp only [DataExpr.writer, Out.ok.injEq, Prod.mk.injEq] at h
      obtain ⟨rfl, rfl, _⟩ := h
      refine ⟨_, rfl, fun env₂ st₂ t₂ b hT₂ => ?_⟩
      unfold DataExpr.apply evalArg
      rw [hT₂]
      simp only
      rw [hag t₂]
      simp only [DataExpr.writer]

/-- the task of a queued `.du*` whose `apply` is diagnosed again -/
theorem du_task_error_again (d : DataExpr) (env₁ : Env) (st₁ : St) (t₁ : Table) (hT₁ : evalTable env₁ st₁ = .ok t₁)
    (hE : ErrAgainT t₁ d.arg) (d' : DataExpr) (st₁' : St)
    (h : d.apply env₁ st₁ true = .ok (d', st₁', .err .trivial)) :
    ∃ k, st₁'.errors = ⟨d.file, d.line, d.col, k⟩ :: st₁.errors ∧
      ∀ (enc : Encoder) (env₂ : Env) (st₂ : St) (t₂ : Table) (b g : Bool), evalTable env₂ st₂ = .ok t₂ →
        ∃ st', runTask enc env₂ st₂ (.data { d' with placed := b } g) = .ok (st', .err .trivial) ∧
          st'.errors = ⟨d.file, d.line, d.col, k⟩ :: st₂.errors ∧ st'.seg = st₂.seg ∧
          st'.globals = st₂.globals ∧ st'.locals = st₂.locals ∧ st'.localTasks = st₂.localTasks ∧
          st'.globalTasks = st₂.globalTasks := by
  obtain ⟨k, h1, h2⟩ := du_error_again d env₁ st₁ t₁ hT₁ hE d' st₁' h
  refine ⟨k, by rw [h1]; rfl, fun enc env₂ st₂ t₂ b g hT₂ => ?_⟩
  refine ⟨st₂.pushIn d.file d.line d.col k, ?_, rfl, rfl, rfl, rfl, rfl, rfl⟩
  simp only [runTask, runDataTask, h2 env₂ st₂ t₂ b hT₂]

/-! ## tables without Deferred names (up to `MergeNeut`) -/

/-- over a table without Deferred names every operand has `ErrAgainT`, unless its evaluation fails inside the deep
`neutralize` that follows a constant merge (`Simp.MergeNeut`; no such failure changes on re-evaluation in 12.6M searched
cases, but it is not proved) -/
theorem errAgainT_nodef_partial {t : Table} (hn : Table.NoDef t) (a : Arg) :
    ErrAgainT t a ∨
    ∃ e t', Simp.evaluateE (fun n => t.get n) Front.isRegister a = .err e t' ∧ Simp.MergeNeut Front.isRegister e := by
  cases h : Simp.evaluateE (fun n => t.get n) Front.isRegister a with
  | err e t' =>
    rcases Simp.evaluateE_error_again_partial (Table.nodef_get hn) h with ok | mn
    · left; intro e2 t2 h2 lk₂
      rw [h] at h2
      simp only [Simp.EvE.err.injEq] at h2
      obtain ⟨rfl, rfl⟩ := h2
      exact ok lk₂
    · exact .inr ⟨e, t', rfl, mn⟩
  | ok ev x => left; intro e2 t2 h2; rw [h] at h2; cases h2
  | nosuch n x => left; intro e2 t2 h2; rw [h] at h2; cases h2
  | panic => left; intro e2 t2 h2; rw [h] at h2; cases h2

/-- C08 (instruction statement DIAGNOSED at its first attempt, table without Deferred names, `_partial`)  The re-run over
ANY table ends with the same diagnostic and the same state — never completes — unless the evaluation of one operand failed
inside the deep `neutralize` after a constant merge. -/
theorem stmt_error_again_nodef_partial {t₁ : Table} (hn : Table.NoDef t₁) (addr : Nat) (name : Bytes) (args : List Arg)
    (d : Front.Diag) (fs1 : Front.St)
    (h1 : Front.build addr name args (frontEval t₁) true = .error d fs1) (t₂ : Table) (loc : Bool) :
    Front.assemble fs1 (frontEval t₂) loc = (fs1, .error d) ∨
    ∃ a ∈ args, ∃ e t', Simp.evaluateE (fun n => t₁.get n) Front.isRegister a = .err e t' ∧
      Simp.MergeNeut Front.isRegister e := by
  by_cases hall : ∀ a ∈ args, ErrAgainT t₁ a
  · exact .inl (stmt_error_again addr name args hall d fs1 h1 t₂ loc)
  · right
    have : ∃ a, a ∈ args ∧ ¬ ErrAgainT t₁ a := by
      apply Classical.byContradiction
      intro hne
      exact hall fun a ha => Classical.byContradiction fun hna => hne ⟨a, ha, hna⟩
    obtain ⟨a, ha, hna⟩ := this
    rcases errAgainT_nodef_partial hn a with h | h
    · exact absurd h hna
    · exact ⟨a, ha, h⟩

/-! ## on the whole pipeline -/

def exDiv : Bytes := bytesOf ".addr 0x20000000;\n.du8 1/0;\n"
def exFar : Bytes := bytesOf ".addr 0x20000000;\nB 5000;\n"
def exMix : Bytes := bytesOf ".addr 0x20000000;\nLDR r0, [r1 + 1/0];\n"

/-- `.du8 1/0`: diagnosed at the statement and again by its task; the placeholder stays -/
theorem du_div_zero_twice : exSummary (run (exOrdFs exDiv) [109]) = some (false, 2, [(536870912, [190])]) := by
  decide +kernel

/-- `B 5000` at 0x20000000 (front-end range diagnostic): twice, the placeholder stays -/
theorem branch_far_twice : exSummary (run (exOrdFs exFar) [109]) = some (false, 2, [(536870912, [190, 190])]) := by
  decide +kernel

/-- an evaluation error inside a register-mixed operand: twice, the placeholder stays -/
theorem mixed_div_zero_twice : exSummary (run (exOrdFs exMix) [109]) = some (false, 2, [(536870912, [190, 190])]) := by
  decide +kernel

def exK7 : Bytes :=
  bytesOf ".global x;\n.addr 0x20000000;\n.du32 (x - 9223372036854775807 - 1) + 9223372036854775807;\n.const x, 2;\n"
def exK7above : Bytes :=
  bytesOf ".global x;\n.addr 0x20000000;\n.const x, 2;\n.du32 (x - 9223372036854775807 - 1) + 9223372036854775807;\n"

/-- FINDING K7: with a `.global`-declared name in the operand the first attempt fails (the simplifier merges `MAX` and `1`
around the deferred `x`: overflow), the diagnostic is recorded — ONE diagnostic —, and the re-run with `x = 2` known
succeeds and writes `01 00 00 00` over the placeholder.  The run is a failure.  (`trias` prints the error once and writes no
UF2.) -/
theorem error_then_success : exSummary (run (exOrdFs exK7) [109]) = some (false, 1, [(536870912, [1, 0, 0, 0])]) := by
  decide +kernel

/-- the same statement with the definition above it assembles -/
theorem error_then_success_above : exSummary (run (exOrdFs exK7above) [109]) = some (true, 0, [(536870912, [1, 0, 0, 0])]) := by
  decide +kernel

end Trion.Asm
