import TrionModel.Lemmas.AsmRetryError
import TrionModel.Lemmas.SimpErrorAgain
import TrionModel.Props.C08Deferred
/-!
# C08 — the retry of a statement whose first attempt ended with a DIAGNOSTIC

An instruction or `.du*` statement whose first attempt fails with a trivial error records the diagnostic, writes the 0xBE
placeholder, queues itself with the tree left behind, and is run again at the end of the file.

* Front-end diagnostics (argument count, operand type / range / register / address form, branch and literal range and
  alignment — `B 5000` at address 0): the re-run does not evaluate anything and reports the SAME diagnostic, whatever the
  table is by then (`stmt_error_again`, first alternative of `Front.assemble_retry_error`).
* Evaluation errors (`EvalError::BadType` / `Overflow` — `.du8 1/0`): the re-run evaluates the tree left behind.  For an
  operand with `Simp.ErrAgain` (proved for arithmetic all of whose names have a value, `Simp.errAgain_closed`) it fails with
  exactly the same error over every table.
* So the task of such a statement pushes the same kind of diagnostic at the statement's position again, returns a trivial
  error, and leaves the regions — in particular the placeholder — untouched (`instr_task_error_again`, `du_task_error_again`).

NOT true without a condition on the operand (finding K7): with a `.global`-declared (Deferred) name in the operand the
first attempt can fail with an overflow raised by the simplifier's constant merge around that name, and the re-run, with
the name's value known, can succeed and overwrite the placeholder: `.global x; .du32 (x - MAX - 1) + MAX; .const x, 2`
(`error_then_success`); the run is a failure all the same (one diagnostic).
-/
namespace Trion.Asm
open Trion

/-- closed arithmetic over the table: every name has a value, no register -/
def ClosedArith (t : Table) (a : Arg) : Prop :=
  Simp.arith (Simp.unknown (fun n => t.get n) Front.isRegister) a = true

abbrev ErrAgainT (t : Table) (a : Arg) : Prop := Simp.ErrAgain (fun n => t.get n) Front.isRegister a

theorem errAgainT_closed {t : Table} {a : Arg} (h : ClosedArith t a) : ErrAgainT t a := Simp.errAgain_closed h

theorem frontEval_error_again {t₁ : Table} {a aL : Arg} {er : Front.EvalErr} (hE : ErrAgainT t₁ a)
    (h : frontEval t₁ a = .error er aL) (t₂ : Table) : frontEval t₂ aL = .error er aL := by
  unfold frontEval evalIn at h
  cases he : Simp.evaluateE (fun n => t₁.get n) Front.isRegister a with
  | ok ev y => rw [he] at h; cases hc : ev.cause <;> simp [hc] at h
  | nosuch n y => rw [he] at h; cases h
  | panic => exact absurd he (evaluateE_ne_panic _ _ _)
  | err e y =>
    rw [he] at h
    have h2 := hE e y he (fun n => t₂.get n)
    cases e with
    | badType k o =>
      simp only [evalE, Front.EvalOut.error.injEq] at h
      obtain ⟨rfl, rfl⟩ := h
      unfold frontEval evalIn
      rw [h2]; rfl
    | overflow k =>
      simp only [evalE, Front.EvalOut.error.injEq] at h
      obtain ⟨rfl, rfl⟩ := h
      unfold frontEval evalIn
      rw [h2]; rfl

/-- C08 (instruction statement, first attempt DIAGNOSED)  The first `assemble` over `t₁` ended with the diagnostic `d`
(state `fs1` queued).  If every operand satisfies `ErrAgainT t₁` (needed only when `d` is an evaluation error), the re-run
over ANY table `t₂`, with either `local` flag, ends with the same diagnostic `d` and leaves the state as it is: it never
completes, and the instruction it holds is never encoded in place of the placeholder. -/
theorem stmt_error_again {t₁ : Table} (addr : Nat) (name : Bytes) (args : List Arg)
    (hE : ∀ a ∈ args, ErrAgainT t₁ a) (d : Front.Diag) (fs1 : Front.St)
    (h1 : Front.build addr name args (frontEval t₁) true = .error d fs1) (t₂ : Table) (loc : Bool) :
    Front.assemble fs1 (frontEval t₂) loc = (fs1, .error d) := by
  unfold Front.build at h1
  cases hm : Front.mnemonic name with
  | none => rw [hm] at h1; cases h1
  | some t =>
    rw [hm] at h1
    simp only at h1
    cases ha : Front.assemble ⟨addr, t, 0, args⟩ (frontEval t₁) true with
    | mk st r =>
      rw [ha] at h1
      cases r with
      | completed => cases h1
      | deferred c => cases h1
      | panic => cases h1
      | error d' =>
        simp only [Front.BuildOut.error.injEq] at h1
        obtain ⟨rfl, rfl⟩ := h1
        rcases Front.assemble_retry_error (frontEval t₁) true addr t args st d' ha with hfront | ⟨p, a, aL, preL, restL, hmem, hev, hA, hre⟩
        · exact hfront (frontEval t₂) loc
        · -- the diagnostic came out of the evaluation of `a`
          have hdone := Front.evalArg_error_done hev
          unfold Front.evalArg at hev
          rw [if_pos hdone] at hev
          cases hfe : frontEval t₁ a with
          | complete x => rw [hfe] at hev; cases hev
          | deferred c x => rw [hfe] at hev; cases hev
          | noSuchVariable n x => rw [hfe] at hev; simp only [if_true] at hev; cases hev
          | error er x =>
            rw [hfe] at hev
            simp only [Except.error.injEq, Prod.mk.injEq, Front.Res.error.injEq] at hev
            obtain ⟨rfl, rfl⟩ := hev
            have h2 := frontEval_error_again (hE a hmem) hfe t₂
            have h3 : Front.evalArg (frontEval t₂) loc p st.argsDone x = .error (x, .error (.evalErr er)) := by
              unfold Front.evalArg
              rw [if_pos hdone, h2]
            rw [hre (frontEval t₂) loc x _ h3, ← hA]

end Trion.Asm
