import TrionModel.Props.C02
import TrionModel.Spec.Arm
/-!
# C01 — emitted machine code is the ARMv6-M encoding of the instruction

Specification: `Trion.Arm.table` / `Trion.Arm.decode` (`Spec/Arm.lean`), the ARMv6-M encoding diagrams as
bit-pattern rows; it shares no code with the model `Trion.Codec.encode`.

Full-strength statements of the design (kept visible; **not yet proved** in Lean — see `props/C01.json`):
```
theorem enc_sound    : encode i = .ok hws → i.wf → Arm.decode hws = some i
theorem enc_complete : Arm.decode hws = some i → ∃ hws', encode i = .ok hws' ∧ Arm.decode hws' = some i
theorem enc_reject   : encode i = .error e → ∀ hws, Arm.decode hws ≠ some i
```
What is missing: the link "`Arm.decode` and `Codec.decode` read every pattern alike"
(`∀ h, Arm.decode [h] = toOpt (decode16 h)`, `∀ h0 h1, Arm.decode [h0,h1] = toOpt (decode32 h0 h1)`), from which
the three statements follow with C02 `dec_enc` and C03 `dec_canon`.  Kernel evaluation of the string-pattern
table costs ≈ 90 ms per halfword (measured), i.e. hours for the 16-bit half; it needs a compiled form of the
table plus an equivalence lemma.  Until then these three clauses rest on the exhaustive run of the harness,
which evaluates exactly them on the real encoder against this table (all 2^16 halfwords; all 6144 × 65536 wide
patterns in the thorough tier; the whole structured operand domain).

Proved here: length/shape of every encoding (`enc_len`), little-endian byte order (`bytes_le`), and soundness
for the operand-free instructions (`enc_sound_nullary_partial`).
-/
namespace Trion.Codec
open Trion

/-- is the encoding of `i` two halfwords wide? (MSR, MRS, barriers, UDF.W, BL) -/
def wideInstr : Instr → Bool
  | .bl _ | .dmb | .dsb | .isb | .mrs _ _ | .msr _ _ | .udfw _ => true
  | _ => false

/-- C01.d  Every accepted instruction is emitted as one or two halfwords, each below 2^16; two halfwords
exactly when the first one lies in the architecture's 32-bit space (`Arm.wide`). -/
theorem enc_len (i : Instr) (hws : List Nat) (h : encode i = .ok hws) (wf : i.wf) :
    (hws.length = 1 ∨ hws.length = 2) ∧ (∀ w ∈ hws, w < 65536) ∧
    (∀ w0 ∈ hws.head?, (hws.length = 2 ↔ Arm.wide w0 = true)) := by
  rcases enc_shape i hws h wf with ⟨w, rfl, a, b⟩ | ⟨w0, w1, rfl, a, b, c⟩
  · refine ⟨.inl rfl, ?_, ?_⟩
    · intro x hx; simp at hx; omega
    · intro x hx; simp at hx; subst hx
      simp [Arm.wide]; omega
  · refine ⟨.inr rfl, ?_, ?_⟩
    · intro x hx; simp at hx; rcases hx with rfl | rfl <;> omega
    · intro x hx; simp at hx; subst hx
      simp [Arm.wide]; omega

/-- C01.e  Serialisation is little-endian, first halfword first. -/
theorem bytes_le (h0 h1 : Nat) : toBytes [h0, h1] = [h0 % 256, h0 / 256, h1 % 256, h1 / 256] := rfl

/-- C01.a restricted to the operand-free instructions: the emitted halfwords are, in the ARMv6-M table,
the encoding of exactly that instruction. -/
theorem enc_sound_nullary_partial (i : Instr)
    (hi : i = .nop ∨ i = .yield ∨ i = .wfe ∨ i = .wfi ∨ i = .sev ∨ i = .dmb ∨ i = .dsb ∨ i = .isb)
    (hws : List Nat) (h : encode i = .ok hws) : Arm.decode hws = some i := by
  rcases hi with rfl | rfl | rfl | rfl | rfl | rfl | rfl | rfl <;>
    (simp only [encode] at h; cases h; decide +kernel)

/-! witnesses: the table reads concrete emitted encodings as the instruction, including the CPS polarity
(im = 0 enables) and an UNPREDICTABLE pattern -/
example : encode (.cps true) = .ok [0xB662] ∧ Arm.decode [0xB662] = some (.cps true) := ⟨rfl, by decide +kernel⟩
example : encode (.add false 8 13 (.reg 8)) = .error .unrepresentable := rfl
example : Arm.decode [0x4487] = some (.add false 15 15 (.reg 0)) := by decide +kernel
example : Arm.decode [0x44FF] = none := by decide +kernel
example : encode (.bl (-4)) = .ok [0xF7FF, 0xFFFE] ∧ Arm.decode [0xF7FF, 0xFFFE] = some (.bl (-4)) :=
  ⟨rfl, by decide +kernel⟩

end Trion.Codec
