import TrionModel.Model.Codec
import TrionModel.Spec.Arm
/-! # C01 — emitted machine code is the ARMv6-M encoding (first increment; deepened below) -/
namespace Trion.Codec

theorem bytes_le (h0 h1 : Nat) : toBytes [h0, h1] = [h0 % 256, h0 / 256, h1 % 256, h1 / 256] := rfl

end Trion.Codec
