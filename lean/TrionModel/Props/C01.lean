import TrionModel.Props.C02
import TrionModel.Lemmas.CodecDec
import TrionModel.Lemmas.ArmAgree
/-!
# C01 — emitted machine code is the ARMv6-M encoding of the instruction

Specification: `Trion.Arm.table` / `Trion.Arm.decode` (`Spec/Arm.lean`), the ARMv6-M encoding diagrams as
bit-pattern rows with their UNPREDICTABLE side conditions; `Arm.decode hws` = the first row (in table order)
of the right width whose fixed bits agree.  The table shares no code with the model `Trion.Codec.encode`.

Proof route: the table and the decoder model read **every** bit pattern alike
(`Lemmas/ArmAgree*.lean`: `spec16`, `spec16_wide`, `spec32'`, `spec_len` — per group of leading bits the
decoder is split into its branches and the rows of the group are walked with linear arithmetic);
`enc_sound` is then C02 `dec_enc` read through that agreement, `enc_complete` is C03's canonicity
(`decode16_out`, `decode32_out`) read through it, and `enc_reject` is the contrapositive of `enc_complete`.

"Operand tuple" always means an instruction value in the crate's canonical operand order; the one place where the
manual prints a second, commuted spelling for the same bits is stated explicitly in `add_sp_commuted_alias`
(see also the header of `Spec/Arm.lean`).
-/
namespace Trion.Codec
open Trion

/-- The diagram strings of the table are not just documentation: every row's arithmetic reading
(`n`, `fixed`, `fields`, which is what `Arm.decode` evaluates) is `Arm.compile` of its diagram. -/
theorem table_reads_diagrams : ∀ rw ∈ Arm.table, Arm.readsDiagram rw = true := by decide +kernel

/-- C01.a  Soundness: whatever the encoder emits is, in the ARMv6-M table, the encoding of exactly that
instruction (mnemonic and every operand). -/
theorem enc_sound (i : Instr) (hws : List Nat) (h : encode i = .ok hws) (wf : i.wf) : Arm.decode hws = some i := by
  rcases rt_all i hws h wf with ⟨w, rfl, _, ht, hd⟩ | ⟨w0, w1, rfl, b0, b1, ht, _, hd⟩
  · rw [spec16 w ht, hd]; rfl
  · rw [spec32' w0 w1 b0 b1, if_pos ht, hd]; rfl

/-- C01.b  Completeness: every operand tuple that some bit pattern encodes in the table is accepted by the
encoder, and what the encoder emits for it is again an encoding of that tuple (possibly the alias row:
`ADDS Rd,Rd,#imm3` is emitted in the two-operand form). -/
theorem enc_complete (i : Instr) (hws : List Nat) (h : Arm.decode hws = some i) :
    ∃ hws', encode i = .ok hws' ∧ Arm.decode hws' = some i := by
  match hws, h with
  | [], h => rw [spec_len [] (by simp) (by simp)] at h; cases h
  | [w], h =>
    have hlt : w < 65536 := by
      unfold Arm.decode at h
      split at h
      · rename_i a; simpa using a
      · cases h
    by_cases ht : w / 2048 < 29
    · rw [spec16 w ht] at h
      obtain ⟨n, hd⟩ := toOpt_some h
      have o := decode16_out w ht
      rw [hd] at o
      cases o with
      | ok _ h' he t' _ hd' => exact ⟨[h'], he, by rw [spec16 h' t', hd']; rfl⟩
    · rw [spec16_wide w hlt (by omega)] at h; cases h
  | [w0, w1], h =>
    have hb : w0 < 65536 ∧ w1 < 65536 := by
      unfold Arm.decode at h
      split at h
      · rename_i a; simpa using a
      · cases h
    rw [spec32' w0 w1 hb.1 hb.2] at h
    split at h
    · obtain ⟨n, hd⟩ := toOpt_some h
      have o := decode32_out w0 w1
      rw [hd] at o
      cases o with
      | ok _ he wf =>
        obtain ⟨v0, v1, he⟩ := he
        exact ⟨[v0, v1], he, enc_sound i _ he wf⟩
    · cases h
  | a :: b :: c :: rest, h => rw [spec_len _ (by simp) (by simp)] at h; cases h

/-- C01.c  Rejection is justified: an operand tuple the encoder rejects has no encoding in the table at all —
nothing is emitted as the encoding of some other instruction, and nothing encodable is refused. -/
theorem enc_reject (i : Instr) (e : EncErr) (h : encode i = .error e) : ∀ hws, Arm.decode hws ≠ some i := by
  intro hws hd
  obtain ⟨hws', he, _⟩ := enc_complete i hws hd
  rw [h] at he
  cases he

/-- C01.d  Every accepted instruction is emitted as one or two halfwords, each below 2^16; two halfwords
exactly when the first one lies in the architecture's 32-bit space (`Arm.wide`). -/
theorem enc_len (i : Instr) (hws : List Nat) (h : encode i = .ok hws) (wf : i.wf) :
    (hws.length = 1 ∨ hws.length = 2) ∧ (∀ w ∈ hws, w < 65536) ∧
    (∀ w0 ∈ hws.head?, (hws.length = 2 ↔ Arm.wide w0 = true)) := by
  rcases enc_shape i hws h wf with ⟨w, rfl, a, b⟩ | ⟨w0, w1, rfl, a, b, c⟩
  · refine ⟨.inl rfl, ?_, ?_⟩
    · intro x hx; simp at hx; omega
    · intro x hx; simp at hx; subst hx
      simp [Arm.wide]; omega
  · refine ⟨.inr rfl, ?_, ?_⟩
    · intro x hx; simp at hx; rcases hx with rfl | rfl <;> omega
    · intro x hx; simp at hx; subst hx
      simp [Arm.wide]; omega

/-- C01.e  Serialisation is little-endian, first halfword first — for any number of halfwords, in
particular the one or two that `enc_len` says the encoder emits. -/
theorem bytes_le (hws : List Nat) : toBytes hws = hws.flatMap fun h => [h % 256, h / 256] := by
  induction hws with
  | nil => rfl
  | cons h t ih => simp [toBytes, ih]

example (h0 : Nat) : toBytes [h0] = [h0 % 256, h0 / 256] := rfl
example (h0 h1 : Nat) : toBytes [h0, h1] = [h0 % 256, h0 / 256, h1 % 256, h1 / 256] := rfl

/-- C01.f  The commuted spelling `ADD <Rdm>, SP, <Rdm>` (ADD (SP plus register) T1, `01000100 DM 1101 Rdm`).
For every register `d` these bits — `0x4468 + DM·128 + Rdm` with `DM:Rdm = d` — are what the encoder emits for
the instruction value in canonical operand order, `add dst=d lhs=d rhs=SP`; the table and the decoder read them
back as that value.  The commuted value `add dst=d lhs=SP rhs=d` (d ≠ SP), which the manual prints for the same
bits, is *not* a value of the table: the encoder rejects it and `enc_reject` applies to it.  So "has no
encoding" in `enc_reject` is relative to operand tuples in the crate's canonical order (`dst = lhs` for the
two-register ADD); accepting the commuted value as well would give two instruction values one encoding, which
C02 (`enc_inj`) forbids. -/
theorem add_sp_commuted_alias (d : Reg) :
    encode (.add false d d (.reg Reg.sp)) = .ok [0x4468 + d.val / 8 * 128 + d.val % 8] ∧
    Arm.decode [0x4468 + d.val / 8 * 128 + d.val % 8] = some (.add false d d (.reg Reg.sp)) ∧
    decode (toBytes [0x4468 + d.val / 8 * 128 + d.val % 8]) = .ok (2, .add false d d (.reg Reg.sp)) ∧
    (d ≠ Reg.sp → encode (.add false d Reg.sp (.reg d)) = .error .unrepresentable ∧
      ∀ hws, Arm.decode hws ≠ some (.add false d Reg.sp (.reg d))) := by
  have hd := d.isLt
  have hsp : (Reg.sp : Reg).val = 13 := rfl
  have he : encode (.add false d d (.reg Reg.sp)) = .ok [0x4468 + d.val / 8 * 128 + d.val % 8] := by
    rw [encode, if_pos (Or.inl rfl), if_neg (by simp [hsp]), hsp]
    congr 2; omega
  have wf : (Instr.add false d d (.reg Reg.sp)).wf := by simp [Instr.wf, ImmReg.wf]
  refine ⟨he, enc_sound _ _ he wf, ?_, ?_⟩
  · have := dec_enc _ _ [] he wf
    rw [List.append_nil] at this
    exact this
  · intro hne
    have hr : encode (.add false d Reg.sp (.reg d)) = .error .unrepresentable := by
      have h13 : d.val ≠ 13 := fun h => hne (Fin.ext h)
      rw [encode, if_pos (Or.inl rfl), if_pos (Or.inr (Or.inl (by rw [hsp]; omega)))]
      rfl
    exact ⟨hr, enc_reject _ _ hr⟩

/-- the table and the decoder agree on every pattern (the alias clause of C03: what the decoder returns is
the architectural reading of the bytes) -/
theorem dec_alias (hws : List Nat) (i : Instr) :
    Arm.decode hws = some i ↔ ∃ n, decode (toBytes hws) = .ok (n, i) ∧ (hws.length = 1 ∨ hws.length = 2) ∧
      (∀ w ∈ hws, w < 65536) ∧ 2 * hws.length = n := by
  constructor
  · intro h
    obtain ⟨hws', he, hs⟩ := enc_complete i hws h
    match hws, h with
    | [], h => rw [spec_len [] (by simp) (by simp)] at h; cases h
    | [w], h =>
      have hlt : w < 65536 := by
        unfold Arm.decode at h
        split at h
        · rename_i a; simpa using a
        · cases h
      by_cases ht : w / 2048 < 29
      · rw [spec16 w ht] at h
        obtain ⟨n, hd⟩ := toOpt_some h
        have o := decode16_out w ht
        rw [hd] at o
        have hn : n = 2 := by cases o; rfl
        subst hn
        refine ⟨2, ?_, .inl rfl, by intro x hx; simp at hx; omega, rfl⟩
        have := decode_single w [] ht
        rw [List.append_nil] at this
        rw [this, hd]
      · rw [spec16_wide w hlt (by omega)] at h; cases h
    | [w0, w1], h =>
      have hb : w0 < 65536 ∧ w1 < 65536 := by
        unfold Arm.decode at h
        split at h
        · rename_i a; simpa using a
        · cases h
      rw [spec32' w0 w1 hb.1 hb.2] at h
      split at h
      · rename_i t
        obtain ⟨n, hd⟩ := toOpt_some h
        have o := decode32_out w0 w1
        rw [hd] at o
        have hn : n = 4 := by cases o; rfl
        subst hn
        refine ⟨4, ?_, .inr rfl, by intro x hx; simp at hx; rcases hx with rfl | rfl <;> omega, rfl⟩
        have := decode_double w0 w1 [] t (by omega)
        rw [List.append_nil] at this
        rw [this, hd]
      · cases h
    | a :: b :: c :: rest, h => rw [spec_len _ (by simp) (by simp)] at h; cases h
  · rintro ⟨n, hd, hl, hb, hn⟩
    match hws, hl with
    | [w], _ =>
      have hlt : w < 65536 := hb w (by simp)
      by_cases ht : w / 2048 < 29
      · have := decode_single w [] ht
        rw [List.append_nil] at this
        rw [this] at hd
        rw [spec16 w ht, hd]; rfl
      · exfalso
        simp only [toBytes, decode] at hd
        rw [le16, if_neg ht, if_pos (by omega)] at hd
        cases hd
    | [w0, w1], _ =>
      have b0 : w0 < 65536 := hb w0 (by simp)
      have b1 : w1 < 65536 := hb w1 (by simp)
      by_cases ht : 29 ≤ w0 / 2048
      · have := decode_double w0 w1 [] ht (by omega)
        rw [List.append_nil] at this
        rw [this] at hd
        rw [spec32' w0 w1 b0 b1, if_pos ht, hd]; rfl
      · exfalso
        have o := decode16_out w0 (by omega)
        have := decode_single w0 (toBytes [w1]) (by omega)
        have e : toBytes [w0] ++ toBytes [w1] = toBytes [w0, w1] := rfl
        rw [e] at this
        rw [this] at hd
        rw [hd] at o
        have : n = 2 := by cases o; rfl
        simp at hn; omega

/-! witnesses -/
example : encode (.cps true) = .ok [0xB662] ∧ Arm.decode [0xB662] = some (.cps true) := ⟨rfl, by decide +kernel⟩
example : encode (.add false 8 13 (.reg 8)) = .error .unrepresentable := rfl
example : Arm.decode [0x4487] = some (.add false 15 15 (.reg 0)) := by decide +kernel
example : Arm.decode [0x44FF] = none := by decide +kernel
-- LDM/STM of nothing: DDI 0419 says UNPREDICTABLE (BitCount(registers) < 1); the crate accepts it in both directions and its
-- own test suite pins that (test_default_instruction encodes Ldm/Stm with the default, empty set), so the table reads the
-- pattern as the instruction (the reading is recorded in props/C01.json; PUSH/POP of nothing ARE rejected)
example : encode (.ldm 0 0) = .ok [0xC800] ∧ Arm.decode [0xC800] = some (.ldm 0 0) := ⟨rfl, by decide +kernel⟩
example : encode (.ldm 0 1) = .ok [0xC801] ∧ Arm.decode [0xC801] = some (.ldm 0 1) := ⟨rfl, by decide +kernel⟩
example : encode (.bl (-4)) = .ok [0xF7FF, 0xFFFE] ∧ Arm.decode [0xF7FF, 0xFFFE] = some (.bl (-4)) :=
  ⟨rfl, by decide +kernel⟩
-- the alias allowed by `enc_complete`: the three-operand diagram with Rd = Rn is read as the same tuple
example : Arm.decode [0x1C40] = some (.add true 0 0 (.imm 1)) ∧ encode (.add true 0 0 (.imm 1)) = .ok [0x3001] :=
  ⟨by decide +kernel, rfl⟩

end Trion.Codec
