import TrionModel.Props.C07
import TrionModel.Props.C09Text
/-!
# C07 at TEXT level — "according to the documented precedence"

`Props/C07.lean` is about argument TREES; `Props/C09Text.lean` is about texts and trees. This file closes the
remaining clause of C07 — *an expression over integer literals evaluates … according to the documented
precedence* — by composing the two, and by tying the printer's precedence table to an INDEPENDENT transcription
of the list in `/repo/README.md` ("in order of highest precedence first": unary `-` `!`; `* / %`; `+ -`; `<< >>`;
`&`; `^`; `|`):

* `Doc.level` is that list, written out operator by operator (it mentions neither `BinOp.group` nor the parser);
  `doc_level_is_group` proves that the parser model's / printer's table `BinOp.group` IS that list, and
  `doc_render_eq` that the printer `Render.arg` is the printer `Doc.render` defined from `Doc.level` alone.
* `text_value`: for every expression tree `t` over literals (closed, in scope, literals non-negative as a text
  can only write them), EVERY text that is a layout (any spacing, comments, any accepted spelling of each number)
  of `t` written with exactly the parentheses the documented table requires — followed by a token that ends an
  expression — is tokenized and parsed into a tree whose `evaluate` is the constant `v` iff exact integer
  arithmetic on `t` gives `v`, and is an overflow error iff exact arithmetic leaves the signed 64-bit range
  (or divides by zero / shifts by a count outside 0..63).
* `text_value_parens`: the same for every way `p` of adding REDUNDANT parentheses (`p.erase = t`).
-/
namespace Trion.Doc

/-- the README's list, highest precedence first, as binding strengths: `* / %` 5, `+ -` 4, `<< >>` 3, `&` 2,
`^` 1, `|` 0 (unary operators, literals and bracketed forms bind tighter than any binary operator: 6) -/
def level : BinOp → Nat
  | .mul => 5 | .div => 5 | .mod => 5
  | .add => 4 | .sub => 4
  | .shl => 3 | .shr => 3
  | .band => 2
  | .bxor => 1
  | .bor => 0

/-- the table used by the parser model and by `Render` is the documented one -/
theorem doc_level_is_group (op : BinOp) : op.group.toNat = level op := by
  cases op <;> rfl

/-- the documented table is strictly ordered as the README lists it -/
example : level .mul = level .div ∧ level .div = level .mod ∧ level .mod > level .add ∧ level .add = level .sub ∧
    level .sub > level .shl ∧ level .shl = level .shr ∧ level .shr > level .band ∧ level .band > level .bxor ∧
    level .bxor > level .bor := by decide

mutual
/-- the minimal-parentheses printer of an expression, from `level` alone: a binary node of level `g` is put in
parentheses iff the context requires more than `g`; it requires `g` of its left and `g + 1` of its right operand
(left associativity); unary operators require 6 -/
def render (m : Nat) : Arg → List Tok
  | .const v => [.num v]
  | .ident s => [.ident s]
  | .str s => [.str s]
  | .bin op l r =>
    Render.paren (decide (level op < m)) (render (level op) l ++ op.tok :: render (level op + 1) r)
  | .neg a => .minus :: render 6 a
  | .not a => .not :: render 6 a
  | .addr a => .lbrack :: render 0 a ++ [.rbrack]
  | .seq as => .lbrace :: renders as ++ [.rbrace]
  | .func name as => .ident name :: .lparen :: renders as ++ [.rparen]
def renders : Args → List Tok
  | .nil => []
  | .cons a .nil => render 0 a
  | .cons a (.cons b bs) => render 0 a ++ .sep :: renders (.cons b bs)
end

mutual
theorem doc_render_eq (m : Nat) (t : Arg) : render m t = Render.arg m t := by
  cases t with
  | const v => simp [render, Render.arg]
  | ident s => simp [render, Render.arg]
  | str s => simp [render, Render.arg]
  | bin op l r =>
    simp only [render, Render.arg, doc_level_is_group]
    rw [doc_render_eq (level op) l, doc_render_eq (level op + 1) r]
  | neg a => simp only [render, Render.arg]; rw [doc_render_eq 6 a]
  | not a => simp only [render, Render.arg]; rw [doc_render_eq 6 a]
  | addr a => simp only [render, Render.arg]; rw [doc_render_eq 0 a]
  | seq as => simp only [render, Render.arg]; rw [doc_renders_eq as]
  | func name as => simp only [render, Render.arg]; rw [doc_renders_eq as]
theorem doc_renders_eq (as : Args) : renders as = Render.args as := by
  match as with
  | .nil => simp [renders, Render.args]
  | .cons a .nil => simp only [renders, Render.args]; exact doc_render_eq 0 a
  | .cons a (.cons b bs) =>
    simp only [renders, Render.args]
    rw [doc_render_eq 0 a, doc_renders_eq (.cons b bs)]
end

end Trion.Doc

namespace Trion.Arith
/-- every literal of the tree is non-negative: what a text can write (`-5` is the tree `neg (const 5)`) -/
def nonnegLits : Arg → Bool
  | .const v => decide (0 ≤ v)
  | .bin _ l r => nonnegLits l && nonnegLits r
  | .neg a => nonnegLits a
  | .not a => nonnegLits a
  | _ => true
end Trion.Arith

namespace Trion.Simp
open Trion
open Trion.Lex (LTok LOk ltext)

/-- a closed tree whose literals are non-negative is well formed in the sense of `Arg.wf` -/
theorem wf_of_closed_nonneg : ∀ (t : Arg), Arith.closed t = true → Arith.nonnegLits t = true → t.wf
  | .const v, hc, hn => by
    simp only [Arith.closed, Arith.fits, Bool.and_eq_true, decide_eq_true_eq] at hc
    simp only [Arith.nonnegLits, decide_eq_true_eq] at hn
    simp only [Arg.wf, i64Max]; omega
  | .bin _ l r, hc, hn => by
    simp only [Arith.closed, Bool.and_eq_true] at hc
    simp only [Arith.nonnegLits, Bool.and_eq_true] at hn
    exact ⟨wf_of_closed_nonneg l hc.1 hn.1, wf_of_closed_nonneg r hc.2 hn.2⟩
  | .neg a, hc, hn => by
    simp only [Arith.closed] at hc; simp only [Arith.nonnegLits] at hn
    exact wf_of_closed_nonneg a hc hn
  | .not a, hc, hn => by
    simp only [Arith.closed] at hc; simp only [Arith.nonnegLits] at hn
    exact wf_of_closed_nonneg a hc hn
  | .ident _, hc, _ => by simp [Arith.closed] at hc
  | .str _, hc, _ => by simp [Arith.closed] at hc
  | .addr _, hc, _ => by simp [Arith.closed] at hc
  | .seq _, hc, _ => by simp [Arith.closed] at hc
  | .func _ _, hc, _ => by simp [Arith.closed] at hc

/-- C07.T1 `text_value`  **Documented precedence.** Every text that writes the literal expression `t` with exactly
the parentheses the documented precedence table (`Doc.level`, left associative) requires — in any layout — is read
and evaluated to `t`'s exact value, or to an overflow error exactly when exact arithmetic errs. -/
theorem text_value (lk : Bytes → Lookup) (isReg : Bytes → Bool) (t : Arg)
    (hc : Arith.closed t = true) (hn : Arith.nonnegLits t = true) (hs : Arith.inScope t = true)
    (stopv : Tok) (hstop : stopv.isStop = true) (restv : List Tok)
    (L : List LTok) (trail : Bytes) (hL : LOk L trail) (hv : L.map (·.tok) = Doc.render 0 t ++ stopv :: restv)
    (st : Nat × Nat) (v : Int) :
    ∃ out a rest, Lex.tokens (ltext L trail) = .ok out ∧ Parse.binary out .bitOr st out.toks = .ok (a, rest) ∧
      ((∃ ch, evaluate lk isReg a = .ok (⟨ch, none⟩, .const v)) ↔ Arith.eval t = .ok v) ∧
      ((∃ k, evaluate lk isReg a = .err (.simp (.overflow k))) ↔ ∃ e, Arith.eval t = .error e) := by
  rw [Doc.doc_render_eq] at hv
  obtain ⟨out, ts, stop, rest, hlex, _, hbin⟩ :=
    Parse.expr_text t (wf_of_closed_nonneg t hc hn) stopv hstop restv L trail hL hv st
  exact ⟨out, t, stop :: rest, hlex, hbin, closed_eval lk isReg t hc hs v⟩

/-- C07.T2 `text_value_parens`  The same for every way `p` of adding redundant parentheses to `t`. -/
theorem text_value_parens (lk : Bytes → Lookup) (isReg : Bytes → Bool) (p : PArg) (hwf : p.wf)
    (hc : Arith.closed p.erase = true) (hs : Arith.inScope p.erase = true)
    (stopv : Tok) (hstop : stopv.isStop = true) (restv : List Tok)
    (L : List LTok) (trail : Bytes) (hL : LOk L trail) (hv : L.map (·.tok) = Render.parg 0 p ++ stopv :: restv)
    (st : Nat × Nat) (v : Int) :
    ∃ out a rest, Lex.tokens (ltext L trail) = .ok out ∧ Parse.binary out .bitOr st out.toks = .ok (a, rest) ∧
      ((∃ ch, evaluate lk isReg a = .ok (⟨ch, none⟩, .const v)) ↔ Arith.eval p.erase = .ok v) ∧
      ((∃ k, evaluate lk isReg a = .err (.simp (.overflow k))) ↔ ∃ e, Arith.eval p.erase = .error e) := by
  obtain ⟨out, ts, stop, rest, hlex, _, _, _, _, hbin⟩ :=
    Parse.parens_text p hwf stopv hstop restv L trail hL hv st
  exact ⟨out, p.erase, stop :: rest, hlex, hbin, closed_eval lk isReg p.erase hc hs v⟩

/-! ### non-vacuity: the text `1+ 0x2*3;` (no parentheses needed: `*` binds tighter than `+`) -/

def exL : List LTok :=
  [⟨[], Lex.radixPrefix 10 ++ bytesOf "1", .num 1⟩,
   ⟨[], bytesOf "+", .plus⟩,
   ⟨[32], Lex.radixPrefix 16 ++ bytesOf "2", .num 2⟩,
   ⟨[], bytesOf "*", .mul⟩,
   ⟨[], Lex.radixPrefix 10 ++ bytesOf "3", .num 3⟩,
   ⟨[], bytesOf ";", .term⟩]

def exT : Arg := .bin .add (.const 1) (.bin .mul (.const 2) (.const 3))

example : exL.map (·.tok) = Doc.render 0 exT ++ [.term] := by decide

theorem exL_ok : LOk exL [] := by
  open Trion.Lex in
  exact ⟨IsSep.nil, Spell.num 10 _ 1 _ (by omega) (by decide) (by decide) (by decide) (by intro b hb; cases hb; decide),
    IsSep.nil, Spell.punct 43 _ _ (by decide) (by decide), isSep_ws [32] (by decide),
    Spell.num 16 _ 2 _ (by omega) (by decide) (by decide) (by decide) (by intro b hb; cases hb; decide),
    IsSep.nil, Spell.punct 42 _ _ (by decide) (by decide), IsSep.nil,
    Spell.num 10 _ 3 _ (by omega) (by decide) (by decide) (by decide) (by intro b hb; cases hb; decide),
    IsSep.nil, Spell.punct 59 _ _ (by decide) (by decide), Or.inl IsSep.nil⟩

/-- `1+ 0x2*3;` is read and evaluated to 7 = 1 + (2 * 3), not (1 + 2) * 3 = 9 -/
example : ∃ out a rest, Lex.tokens (ltext exL []) = .ok out ∧ Parse.binary out .bitOr (1, 1) out.toks = .ok (a, rest) ∧
    ∃ ch, evaluate (fun _ => .notFound) (fun _ => false) a = .ok (⟨ch, none⟩, .const 7) := by
  obtain ⟨out, a, rest, h1, h2, h3, _⟩ := text_value (fun _ => .notFound) (fun _ => false) exT rfl rfl rfl
    .term rfl [] exL [] exL_ok (by decide) (1, 1) 7
  exact ⟨out, a, rest, h1, h2, h3.mpr rfl⟩

end Trion.Simp
