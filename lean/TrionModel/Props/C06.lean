import TrionModel.Props.C10
import TrionModel.Props.C10Parse
import TrionModel.Props.C08
import TrionModel.Props.C04
import TrionModel.Props.C13
/-!
# C06 — every input yields success or diagnostics, never a crash

The pipeline is `bytes → Lex.tokens → Parse.all → (per statement) Simp.evaluate → Front.assemble →
Layout/Seg region machine → task queues → close`.  Every logic-level panic site of the Rust code is an
explicit `panic` outcome of the corresponding model; this file states, for every stage, that the outcome
is unreachable, and composes the first two stages (any byte string → elements or one terminal error).

Full-strength statement (kept visible):

    theorem run_no_panic (fs : Path → Option Bytes) (main : Bytes) (h : NoIncludeCycle fs main) :
        Asm.run fs main ≠ .panic

for a model `Asm.run` of the WHOLE `Context` (directive dispatch, arity/kind checks, scopes, includes).
What is proved instead is the list below (`run_no_panic_partial` = all stages individually, plus the
composition text → elements, plus — in `Props/C05.lean` — the region/task machine of one file).  Missing:
the glue of `DirectiveList::process` / `Directive::apply` (argument count and kind checks, which contain no
panic site other than the ones modelled in `Front`, `Scope` and `Layout`) is tied by correspondence only
(`harness/src/asm.rs`: ill-formed statement catalogue, byte-level mutations, design-time corpus), and the
known finding K2 (cyclic `.include` exhausts the native stack) is outside every model.
-/
namespace Trion.C06
open Trion

/-- C06.a  Text to statements never panics: for EVERY byte string (valid UTF-8 or not) the tokenizer model
returns a token stream and the parser model, run on it, returns statements followed by at most one
terminal error — neither stage panics or runs out of fuel. -/
theorem text_to_elements_total (bs : Bytes) :
    ∃ lo els err, Lex.tokens bs = .ok lo ∧ Parse.all lo = .done els err := by
  obtain ⟨lo, hlo⟩ := Lex.lex_total bs
  obtain ⟨els, err, h⟩ := Parse.parse_shape lo
  exact ⟨lo, els, err, hlo, h⟩

/-- C06.b  A text the tokenizer rejects is never reported as success by the parser. -/
theorem lex_error_is_reported (bs : Bytes) (lo : LexOut) (e : LexErr)
    (h : Lex.tokens bs = .ok lo) (he : lo.err = some e) :
    ∃ els pe, Parse.all lo = .done els (some pe) :=
  Parse.parse_sees_lex_error lo e he

/-- C06.c  Expression evaluation never panics (the `assert!`s of `search`, the merge arms), for any tree,
any constant table and any register predicate. -/
theorem evaluate_total (lk : Bytes → Simp.Lookup) (isReg : Bytes → Bool) (a : Arg) :
    Simp.evaluate lk isReg a ≠ .panic ∧ Simp.simplify a ≠ .panic :=
  ⟨Simp.eval_no_panic lk isReg a, Simp.simp_no_panic a⟩

/-- C06.d  The instruction front end never panics (the `self.args[arg_pos]` index), for any mnemonic,
any argument list and any behaviour of the evaluator. -/
theorem front_total (st : Front.St) (eval : Arg → Front.EvalOut) (loc : Bool) :
    (Front.assemble st eval loc).2 ≠ .panic :=
  Front.assemble_no_panic st eval loc

/-- C06.e  The region machine never panics on a non-rewrite operation in any state satisfying the region
invariant (the three `assert_eq!` on put counts, `remaining()` underflow). Rewrites: `Seg.step_no_panic`, `Seg.history_no_panic`
and `Layout.run_no_panic` (Props/C05.lean). -/
theorem region_step_total (s : Seg.State) (op : Seg.Op) (inv : Seg.Inv s) (wf : Seg.Op.wf s op)
    (nr : ∀ a d, op ≠ .rewrite a d) : (Seg.step s op).2 ≠ .panic :=
  Seg.step_no_panic_nonrewrite s op inv wf nr

example : ∃ lo els err, Lex.tokens (bytesOf "NOP;") = .ok lo ∧ Parse.all lo = .done els err :=
  text_to_elements_total _

end Trion.C06
