import TrionModel.Lemmas.AsmScopeRel
import TrionModel.Lemmas.AsmScopeProv
import TrionModel.Lemmas.AsmScopeSim
/-!
# C14 on the whole-pipeline model — constant visibility follows file scope

Model: `Trion.Asm` (Model/Asm.lean), the model of the WHOLE assembler (`Asm.run`: tokenizer, parser, every directive,
instructions, regions, `.include` recursion, both task loops, `finalize`), tied to the real code by exact
correspondence (`model.asm.run`).  Props/C14.lean proves the property on the dedicated scope machine `Trion.Scope`;
here the same statements are proved directly about `Asm`'s own tables (`St.globals`, `St.locals`), its own `.include`
recursion (`assembleFile`, `enterFile`/`leaveFile` = the `mem::replace` swaps of `Context::assemble` / `PathFrame`) and
its own statements with REAL operands (`.const n, <any expression>`, labels at the region cursor, `.du*`/instructions
with any expression, retried at the end of the file and in the includer).

`Table.le`, `Upd`, `Rel`, `Quiet`: Lemmas/AsmScope.lean, Lemmas/AsmScopeRel.lean.  `Rel N st st'` relates two states of
ONE activation of `Context::assemble` (one file): its own table only grew, its includer's table changed only at the
names `N` with the file's own values.  `inc` is the recursive call of `.include`; every theorem with the hypothesis
`IncRel inc` holds for `inc = assembleFile fs enc fuel` at every depth (`assembleFile_rel`).
-/
namespace Trion.Asm
open Trion

/-- both visible tables of an activation only grew: valued entries keep their value -/
def TabLe (a b : St) : Prop :=
  a.globals.le b.globals ∧ ∃ Ca Cb, a.locals = some Ca ∧ b.locals = some Cb ∧ Ca.le Cb

theorem Rel.tabLe {N : List Bytes} {a b : St} (h : Rel N a b) : TabLe a b := by
  obtain ⟨C, C', hC, hC', le, u⟩ := h.tabs
  exact ⟨u.le, C, C', hC, hC', le⟩

/-! ## siblings -/

/-- C14.siblings_asm  `Context::assemble` — the main file and every `.include`d file alike, at every depth, whatever
its includer or its siblings defined before — runs the file (`fileBody`: `do_assemble` and the local task loop) from
the EMPTY table and an empty task list of its own; what it sees as `globals` is its includer's table (the real global
table for the main file); afterwards `leaveFile` undoes the swap.  Nothing reaches an included file sideways or
downwards except through `.import`. -/
theorem siblings_asm (fs : Bytes → Option Bytes) (enc : Encoder) (fuel : Nat) (env : Env) (st : St) (data path : Bytes) :
    ∃ savedC savedT st2, enterFile st = (savedC, savedT, st2) ∧
      st2.locals = some [] ∧ st2.localTasks = some [] ∧
      st2.globals = (match st.locals with | some l => l | none => st.globals) ∧
      assembleFile fs enc (fuel + 1) env st data path =
        match fileBody fs enc (assembleFile fs enc fuel) ⟨path :: env.paths, path⟩ data st2 with
        | .ok (st4, res) => .ok (leaveFile savedC savedT st4, res)
        | .stop r => .stop r := by
  refine ⟨(enterFile st).1, (enterFile st).2.1, (enterFile st).2.2, rfl, ?_, ?_, ?_, ?_⟩
  · unfold enterFile; cases st.locals <;> cases st.localTasks <;> rfl
  · unfold enterFile; cases st.locals <;> cases st.localTasks <;> rfl
  · unfold enterFile; cases st.locals <;> cases st.localTasks <;> rfl
  · simp only [assembleFile, List.length_cons, Nat.add_one_ne_zero, if_false, ne_eq, not_true_eq_false]
    rfl

/-! ## monotone — a constant's value never changes once defined -/

/-- C14.monotone_asm (one statement)  Whatever a statement of a file does — a definition, `.global/.import/.export`,
a `.du*` or an instruction with its padding and its queued retry, or a complete `.include` with everything the
included tree does — every valued entry of the file's own table and of its includer's table keeps its value. -/
theorem monotone_asm_statement {fs : Bytes → Option Bytes} {enc : Encoder} {fuel : Nat} {env : Env} {st st' : St}
    {C : Table} {el : Element} {r : Res} (hC : st.locals = some C)
    (h : statement fs enc (assembleFile fs enc fuel) env st el = .ok (st', r)) : TabLe st st' :=
  (statement_rel (assembleFile_rel fs enc fuel) hC _ _ h).tabLe

/-- the states a file passes through between its statements (`do_assemble`'s loop; the last entry is the state in
which the loop ended — normally, or with the error of a statement) -/
def bodyStates (fs : Bytes → Option Bytes) (enc : Encoder) (inc : Inc) (env : Env) : List Element → St → List St
  | [], st => [st]
  | el :: els, st =>
    st :: match statement fs enc inc env st el with
      | .ok (st', .ok) => bodyStates fs enc inc env els st'
      | .ok (st', .err _) => [st']
      | .stop _ => []

theorem bodyStates_from {fs : Bytes → Option Bytes} {enc : Encoder} {inc : Inc} (hinc : IncRel inc) {env : Env} :
    ∀ (els : List Element) (st : St) (C : Table), st.locals = some C →
      ∀ b ∈ bodyStates fs enc inc env els st, Rel (fileNames els) st b := by
  intro els
  induction els with
  | nil => intro st C hC b hb; simp only [bodyStates, List.mem_singleton] at hb; subst hb; exact .refl _ hC
  | cons el els ih =>
    intro st C hC b hb
    simp only [bodyStates, List.mem_cons] at hb
    rcases hb with rfl | hb
    · exact .refl _ hC
    · rw [fileNames_cons]
      split at hb
      · rename_i st1 hs
        have w1 := (statement_rel hinc hC _ _ hs).mono (N' := upNames el ++ fileNames els) (fun _ hm => by simp [hm])
        obtain ⟨C1, hC1⟩ := w1.locals_some
        exact w1.trans ((ih st1 C1 hC1 b hb).mono (fun _ hm => by simp [hm]))
      · rename_i st1 l hs
        simp only [List.mem_singleton] at hb
        subst hb
        exact (statement_rel hinc hC _ _ hs).mono (fun _ hm => by simp [hm])
      · cases hb

/-- C14.monotone_asm  THE monotonicity statement on the whole-pipeline model.  Take any activation of
`Context::assemble` — any file at any include depth, `inc` the recursive call — and any two of the states it passes
through between its statements, the earlier `a` and the later `b`, with arbitrarily many statements, complete nested
`.include`s (each with its own task loop and the tasks it reschedules) and failed files in between: every valued
entry of the file's own table in `a` has the same value in `b`, and likewise for the includer's table.
(Instantiated below for `inc = assembleFile fs enc fuel`; by `assembleFile_rel` the hypothesis holds at every depth,
so the statement applies recursively to every file of the include tree.) -/
theorem monotone_asm_general {fs : Bytes → Option Bytes} {enc : Encoder} {inc : Inc} (hinc : IncRel inc) {env : Env} :
    ∀ (els : List Element) (st : St) (C : Table), st.locals = some C →
      List.Pairwise TabLe (bodyStates fs enc inc env els st) := by
  intro els
  induction els with
  | nil => intro st C _; simp [bodyStates]
  | cons el els ih =>
    intro st C hC
    have hfrom := bodyStates_from (fs := fs) (enc := enc) hinc (env := env) (el :: els) st C hC
    simp only [bodyStates] at hfrom ⊢
    refine List.Pairwise.cons (fun b hb => (hfrom b (List.mem_cons_of_mem _ hb)).tabLe) ?_
    split
    · rename_i st1 hs
      obtain ⟨C1, hC1⟩ := (statement_rel hinc hC _ _ hs).locals_some
      exact ih st1 C1 hC1
    · simp
    · simp

theorem monotone_asm (fs : Bytes → Option Bytes) (enc : Encoder) (fuel : Nat) (env : Env) (els : List Element) (st : St)
    (C : Table) (hC : st.locals = some C) :
    List.Pairwise TabLe (bodyStates fs enc (assembleFile fs enc fuel) env els st) :=
  monotone_asm_general (assembleFile_rel fs enc fuel) els st C hC

/-- C14.monotone_asm (the end of a file)  … and through the rest of the activation: `do_assemble` as a whole followed
by the file's local task loop (the closures of `.global`, the retries of `.du*` and instructions). -/
theorem monotone_asm_file {fs : Bytes → Option Bytes} {enc : Encoder} {fuel : Nat} {env : Env} {data : Bytes}
    {st st' : St} {C : Table} {r : Res} (hC : st.locals = some C) (hq : st.localTasks = some [])
    (h : fileBody fs enc (assembleFile fs enc fuel) env data st = .ok (st', r)) : TabLe st st' := by
  obtain ⟨_, _, _, w⟩ := fileBody_rel (assembleFile_rel fs enc fuel) hC hq _ _ h
  exact w.tabLe

/-- C14.monotone_asm (across `.include`, seen from the includer)  A complete `Context::assemble` call from inside a
file leaves the includer's `globals` literally as it was, and every valued entry of the includer's own table keeps
its value. -/
theorem monotone_asm_include {fs : Bytes → Option Bytes} {enc : Encoder} {fuel : Nat} {env : Env} {st st' : St}
    {data path : Bytes} {r : Res} {L : Table} (hL : st.locals = some L)
    (h : assembleFile fs enc fuel env st data path = .ok (st', r)) :
    st'.globals = st.globals ∧ ∃ L', st'.locals = some L' ∧ L.le L' := by
  obtain ⟨w, hg⟩ := assembleFile_rel fs enc fuel _ _ _ _ _ _ _ hL h
  obtain ⟨C, C', hC, hC', le, _⟩ := w.tabs
  rw [hL] at hC; cases hC
  exact ⟨hg, C', hC', le⟩

/-- C14.monotone_asm (the main file and `finalize`)  Outside any file: assembling the main file only adds to the
real global table (valued entries keep their value), and `finalize` — whose task list holds retries of statements
only (`Good false`, Lemmas/AsmBase.lean) — changes no table at all. -/
theorem monotone_asm_main {fs : Bytes → Option Bytes} {enc : Encoder} {fuel : Nat} {env : Env} {st st' : St}
    {data path : Bytes} {r : Res} (hl : st.locals = none) (hlt : st.localTasks = none)
    (h : assembleFile fs enc fuel env st data path = .ok (st', r)) :
    st.globals.le st'.globals ∧ st'.locals = none := by
  cases fuel with
  | zero => simp [assembleFile] at h
  | succ fuel =>
    obtain ⟨_, _, _, _, _, _, _, _, h5, _, _, u, _⟩ := assembleFile_outside hl hlt h
    exact ⟨u.le, h5⟩

theorem monotone_asm_finalize {enc : Encoder} {env : Env} {st st' : St} {ok : Bool}
    (hg : ∀ t ∈ st.globalTasks, t.notCopy = true) (h : finalize enc env st = .ok (st', ok)) :
    st'.globals = st.globals ∧ st'.locals = st.locals := by
  unfold finalize at h
  split at h
  · rename_i st2 ab hl
    cases h
    exact globalLoop_quiet rounds st.globalTasks { st with globalTasks := [] } hg (fun t ht => by cases ht) _ _ hl
  · cases h

/-! ## dup_reserved — the five collision classes: a diagnostic is recorded and no table changes

Each theorem gives the EXACT outcome of the statement: the old context with one more diagnostic (`St.push` touches
`errors` only), and the level of the error (`fatal`: `do_assemble` stops, the includer reports `AssemblyFailed`). -/

/-- C14.dup_reserved_asm (1a)  second definition in one scope, `.const n, e` (`e` any expression with a value) -/
theorem dup_const_asm {fs : Bytes → Option Bytes} {enc : Encoder} {inc : Inc} {env : Env} {st : St} {el : Element}
    {args : Args} {n : Bytes} {e : Arg} {v w : Int} {l : Table}
    (hv : el.val = .directive (bytesOf "const") args) (ha : args.toList = [.ident n, e])
    (he : evalStrict "const" env st el.line el.col e = .ok (.ok (.const v)))
    (hl : st.locals = some l) (hdef : l.find n = some (some w)) (hr : Front.isRegister n = false) :
    statement fs enc inc env st el =
      .ok (st.push env el.line el.col (.dirApply "const" (.constDirDuplicate n)), .err .fatal) := by
  simp [statement, hv, directive_const, constDirective, arity, ha, he, insertConstant, hr, hl, hdef]

/-- C14.dup_reserved_asm (1b)  second definition in one scope, a label -/
theorem dup_label_asm {fs : Bytes → Option Bytes} {enc : Encoder} {inc : Inc} {env : Env} {st : St} {el : Element}
    {n : Bytes} {a : Nat} {w : Int} {l : Table} (hv : el.val = .label n) (hc : currAddr st = some a)
    (hl : st.locals = some l) (hdef : l.find n = some (some w)) (hr : Front.isRegister n = false) :
    statement fs enc inc env st el =
      .ok (st.push env el.line el.col (.label (.constDuplicate n .loc)), .err .fatal) := by
  simp [statement, hv, hc, insertConstant, hr, hl, hdef, CErr.inner]

/-- C14.dup_reserved_asm (1c)  second definition in one scope, `.import` of a name the file already has -/
theorem dup_import_asm {fs : Bytes → Option Bytes} {enc : Encoder} {inc : Inc} {env : Env} {st : St} {el : Element}
    {args : Args} {n : Bytes} {v w : Int} {l : Table}
    (hv : el.val = .directive (bytesOf "import") args) (ha : args.toList = [.ident n])
    (hg : st.globals.find n = some (some v)) (hl : st.locals = some l) (hdef : l.find n = some (some w))
    (hr : Front.isRegister n = false) :
    statement fs enc inc env st el =
      .ok (st.push env el.line el.col (.dirApply "import" (.globalDuplicate n .loc)), .err .fatal) := by
  simp [statement, hv, directive_import, globalDirective, arity, ha, getConstant, Table.get, hg, insertConstant, hr, hl,
    hdef, GDir.name]

/-- C14.dup_reserved_asm (2a)  `.export` over a name the includer already has with a value -/
theorem dup_export_existing_asm {fs : Bytes → Option Bytes} {enc : Encoder} {inc : Inc} {env : Env} {st : St}
    {el : Element} {args : Args} {n : Bytes} {v w : Int} {l : Table}
    (hv : el.val = .directive (bytesOf "export") args) (ha : args.toList = [.ident n])
    (hl : st.locals = some l) (hdef : l.find n = some (some v)) (hg : st.globals.find n = some (some w))
    (hr : Front.isRegister n = false) :
    statement fs enc inc env st el =
      .ok (st.push env el.line el.col (.dirApply "export" (.globalDuplicate n .global)), .err .fatal) := by
  simp [statement, hv, directive_export, globalDirective, arity, ha, getConstant, Table.get, hg, insertConstant, hr, hl,
    hdef, GDir.name]

/-- C14.export_fills_announced_asm  … whereas `.export` over an includer entry that is only ANNOUNCED (present, no value)
is accepted on the whole-pipeline model too: no diagnostic, the includer's entry receives the file's value.  (The reading
of "exporting a name the includer already has" that `dup_export_existing_asm` proves is "has with a value".) -/
theorem export_fills_announced_asm {fs : Bytes → Option Bytes} {enc : Encoder} {inc : Inc} {env : Env} {st : St}
    {el : Element} {args : Args} {n : Bytes} {v : Int} {l : Table}
    (hv : el.val = .directive (bytesOf "export") args) (ha : args.toList = [.ident n])
    (hl : st.locals = some l) (hdef : l.find n = some (some v)) (hg : st.globals.find n = some none)
    (hr : Front.isRegister n = false) :
    statement fs enc inc env st el = .ok ({ st with globals := st.globals.set n (some v) }, .ok) := by
  simp [statement, hv, directive_export, globalDirective, arity, ha, getConstant, Table.get, hg, insertConstant, hr, hl,
    hdef, GDir.name]

/-- C14.dup_reserved_asm (2b)  `.global` of a name the includer already has (valued or announced) -/
theorem dup_global_existing_asm {fs : Bytes → Option Bytes} {enc : Encoder} {inc : Inc} {env : Env} {st : St}
    {el : Element} {args : Args} {n : Bytes} {e : Option Int}
    (hv : el.val = .directive (bytesOf "global") args) (ha : args.toList = [.ident n])
    (hg : st.globals.find n = some e) (hr : Front.isRegister n = false) :
    statement fs enc inc env st el =
      .ok (st.push env el.line el.col (.dirApply "global" (.globalDuplicate n .global)), .err .fatal) := by
  simp [statement, hv, directive_global, globalDirective, arity, ha, deferConstant, hr, hg, GDir.name]

/-- C14.dup_reserved_asm (3)  `.import` of a name the includer lacks -/
theorem dup_import_missing_asm {fs : Bytes → Option Bytes} {enc : Encoder} {inc : Inc} {env : Env} {st : St}
    {el : Element} {args : Args} {n : Bytes}
    (hv : el.val = .directive (bytesOf "import") args) (ha : args.toList = [.ident n])
    (hg : st.globals.find n = none) :
    statement fs enc inc env st el =
      .ok (st.push env el.line el.col (.dirApply "import" (.globalNotFound n .global)), .err .fatal) := by
  simp [statement, hv, directive_import, globalDirective, arity, ha, getConstant, Table.get, hg, GDir.name]

/-- C14.dup_reserved_asm (4a)  `.export` of a name the file does not have -/
theorem dup_export_missing_asm {fs : Bytes → Option Bytes} {enc : Encoder} {inc : Inc} {env : Env} {st : St}
    {el : Element} {args : Args} {n : Bytes} {l : Table}
    (hv : el.val = .directive (bytesOf "export") args) (ha : args.toList = [.ident n])
    (hl : st.locals = some l) (hdef : l.find n = none) :
    statement fs enc inc env st el =
      .ok (st.push env el.line el.col (.dirApply "export" (.globalNotFound n .loc)), .err .fatal) := by
  simp [statement, hv, directive_export, globalDirective, arity, ha, getConstant, Table.get, hl, hdef, GDir.name]

/-- C14.dup_reserved_asm (4b)  `.export` of an unvalued (announced) name -/
theorem dup_export_unvalued_asm {fs : Bytes → Option Bytes} {enc : Encoder} {inc : Inc} {env : Env} {st : St}
    {el : Element} {args : Args} {n : Bytes} {l : Table}
    (hv : el.val = .directive (bytesOf "export") args) (ha : args.toList = [.ident n])
    (hl : st.locals = some l) (hdef : l.find n = some none) :
    statement fs enc inc env st el =
      .ok (st.push env el.line el.col (.dirApply "export" (.globalDeferred n .loc)), .err .fatal) := by
  simp [statement, hv, directive_export, globalDirective, arity, ha, getConstant, Table.get, hl, hdef, GDir.name]

/-- C14.dup_reserved_asm (4c)  `.global` of a name that never receives a value in the file: the closure it queued
records the diagnostic when the file ends and changes no table -/
theorem dup_global_unvalued_asm {enc : Encoder} {env : Env} {st : St} {n : Bytes} {line col : Nat} {l : Table}
    (hl : st.locals = some l) (hdef : l.find n = some none) :
    runTask enc env st (.globalCopy n line col) =
      .ok (st.push env line col (.dirApply "global" (.globalDeferred n .loc)), .err .trivial) := by
  simp [runTask, runGlobalCopy, getConstant, Table.get, hl, hdef]

/-- C14.dup_reserved_asm (5)  a register name is refused by `.const`, by a label and by `.global` -/
theorem dup_reserved_asm {fs : Bytes → Option Bytes} {enc : Encoder} {inc : Inc} {env : Env} {st : St} {n : Bytes}
    (hr : Front.isRegister n = true) :
    (∀ {el : Element} {args : Args} {e : Arg} {v : Int}, el.val = .directive (bytesOf "const") args →
      args.toList = [.ident n, e] → evalStrict "const" env st el.line el.col e = .ok (.ok (.const v)) →
      statement fs enc inc env st el =
        .ok (st.push env el.line el.col (.dirApply "const" (.constReserved n)), .err .fatal)) ∧
    (∀ {el : Element} {a : Nat}, el.val = .label n → currAddr st = some a →
      statement fs enc inc env st el = .ok (st.push env el.line el.col (.label (.constReserved n)), .err .fatal)) ∧
    (∀ {el : Element} {args : Args}, el.val = .directive (bytesOf "global") args → args.toList = [.ident n] →
      statement fs enc inc env st el =
        .ok (st.push env el.line el.col (.dirApply "global" (.constReserved n)), .err .fatal)) := by
  refine ⟨fun hv ha he => ?_, fun hv hc => ?_, fun hv ha => ?_⟩
  · simp [statement, hv, directive_const, constDirective, arity, ha, he, insertConstant, hr]
  · simp [statement, hv, hc, insertConstant, hr, CErr.inner]
  · simp [statement, hv, directive_global, globalDirective, arity, ha, deferConstant, hr, GDir.name]

/-- a diagnostic touches no table (what `St.push` leaves alone) -/
theorem push_tables (st : St) (env : Env) (line col : Nat) (k : Kind) :
    (st.push env line col k).globals = st.globals ∧ (st.push env line col k).locals = st.locals ∧
    (st.push env line col k).errors = ⟨env.curName, line, col, k⟩ :: st.errors := ⟨rfl, rfl, rfl⟩

/-! ## frame — what a complete `.include` does to the includer's table -/

/-- C14.frame_asm  A complete `.include` statement processed inside a file whose table is `L` (`inc` = the real
recursive call at any remaining depth).  The includer's includer's table (`globals`) is literally unchanged.  Either
no file was assembled (arity / operand type / no such file: one diagnostic, `L` unchanged) — or the file at `path`
with text `data`, parsed into the statements `els`, was assembled from the empty table `st2.locals = some []` with `L`
as its `globals`, ended (after its own task loop) in `st4` with its own table `C`, and the includer's table is now

  `L' = L ∪ {names the child itself exports or declares global, with the child's values}`:

every entry of `L'` is the entry of `L`, except at a name `m ∈ fileNames els` (an operand of a `.export`/`.global`
statement of the child's own text) where an absent or unvalued entry of `L` received the child's value `C[m]` — or an
absent entry became "announced" (a `.global` whose value never arrived). -/
theorem frame_asm {fs : Bytes → Option Bytes} {enc : Encoder} {fuel : Nat} {env : Env} {st st' : St} {line col : Nat}
    {args : List Arg} {r : Res} {L : Table} (hL : st.locals = some L)
    (h : includeDirective fs (assembleFile fs enc fuel) env st line col args = .ok (st', r)) :
    st'.globals = st.globals ∧
    ((st'.locals = some L ∧ ∃ k, st' = st.push env line col k) ∨
     ∃ fuel' path data els perr st2 st4 r4 C L', fuel = fuel' + 1 ∧ fs path = some data ∧
       parseFile data = .ok (els, perr) ∧
       st2.locals = some [] ∧ st2.globals = L ∧ st2.localTasks = some [] ∧
       fileBody fs enc (assembleFile fs enc fuel') ⟨path :: env.paths, path⟩ data st2 = .ok (st4, r4) ∧
       st4.locals = some C ∧ st'.locals = some L' ∧ Upd (fileNames els) L L' C) :=
  frame_aux hL h

/-- C14.frame_asm (the main file)  The same for the main file, assembled from outside any file: the "includer's table"
is the real global table. -/
theorem frame_asm_main {fs : Bytes → Option Bytes} {enc : Encoder} {fuel : Nat} {env : Env} {st st' : St}
    {data path : Bytes} {r : Res} (hl : st.locals = none) (hlt : st.localTasks = none)
    (h : assembleFile fs enc (fuel + 1) env st data path = .ok (st', r)) :
    ∃ els perr st4 C, parseFile data = .ok (els, perr) ∧
      fileBody fs enc (assembleFile fs enc fuel) ⟨path :: env.paths, path⟩ data
        { st with locals := some [], localTasks := some [] } = .ok (st4, r) ∧
      st4.locals = some C ∧ st'.locals = none ∧ Upd (fileNames els) st.globals st'.globals C := by
  obtain ⟨st4, els, perr, C, h1, h2, _, h4, h5, _, _, u, _⟩ := assembleFile_outside hl hlt h
  exact ⟨els, perr, st4, C, h2, h1, h4, h5, u⟩

/-- C14.frame_asm (a file's body, from inside)  While a file is assembled — statements, complete nested includes, its
task loop — its own table only grows and its includer's table changes only at names the file itself exports or
declares global, with the file's own (final) values; new in its task list are only retries of statements and the
closures of its own `.global`s; new in its includer's list only retries of statements. -/
theorem frame_asm_body {fs : Bytes → Option Bytes} {enc : Encoder} {fuel : Nat} {env : Env} {data : Bytes} {st st' : St}
    {C : Table} {r : Res} (hC : st.locals = some C) (hq : st.localTasks = some [])
    (h : fileBody fs enc (assembleFile fs enc fuel) env data st = .ok (st', r)) :
    ∃ els perr, parseFile data = .ok (els, perr) ∧ Rel (fileNames els) st st' :=
  fileBody_rel (assembleFile_rel fs enc fuel) hC hq _ _ h

/-! ## isolation -/

/-- C14.isolation_asm (what an expression can see)  While a file is open (`has_curr_file`), the evaluation of ANY
operand — of `.const`, `.addr`, `.align`, `.du*`, of an instruction, immediately or in a retry — reads the current file's
own table and nothing else: not the includer's table, not a sibling's. -/
theorem isolation_asm_eval {env : Env} {st : St} {l : Table} (hp : env.paths.isEmpty = false) (hl : st.locals = some l)
    (a : Arg) : evalArg env st a = evalIn l a ∧ evalTable env st = .ok l := by
  simp [evalArg, evalTable, hp, hl]

/-- … and outside any file (`finalize`) the real global table. -/
theorem isolation_asm_eval_top {env : Env} {st : St} (hp : env.paths.isEmpty = true) (a : Arg) :
    evalArg env st a = evalIn st.globals a := by
  simp [evalArg, evalTable, hp]

/-- C14.isolation_asm (own definitions)  A label or `.const n, e` changes nothing but the entry `n` of the file's own
table, which becomes the value; the includer's table is literally untouched: a definition is visible only in the file
that makes it. -/
theorem isolation_asm_define {st st' : St} {l : Table} {n : Bytes} {v : Int} {x : Except CErr Bool}
    (hl : st.locals = some l) (h : insertConstant st n v .loc = .ok (st', x)) :
    st'.globals = st.globals ∧
    ∃ l', st'.locals = some l' ∧ ∀ m, l'.find m = l.find m ∨ (m = n ∧ l'.find m = some (some v)) :=
  define_char hl h

/-- the statements that define: `n:` at the region cursor, `.const n, e` with the value of `e` -/
theorem isolation_asm_define_stmt {fs : Bytes → Option Bytes} {enc : Encoder} {inc : Inc} {env : Env} {st st' : St}
    {el : Element} {r : Res} {l : Table} (hl : st.locals = some l)
    (hk : (∃ n, el.val = .label n) ∨ ∃ args, el.val = .directive (bytesOf "const") args)
    (h : statement fs enc inc env st el = .ok (st', r)) :
    st'.globals = st.globals ∧
    ∃ l', st'.locals = some l' ∧ ∀ m, l'.find m = l.find m ∨
      (∃ v, l'.find m = some (some v) ∧
        ((el.val = .label m) ∨ ∃ args e, el.val = .directive (bytesOf "const") args ∧ args.toList = [.ident m, e])) :=
  isolation_define_aux hl hk h

/-- C14.isolation_asm (downwards only by `.import`)  `.import n` changes nothing but the entry `n` of the file's own
table, which becomes the includer's entry for `n` (same value, or still unvalued); the includer's table is literally
untouched. -/
theorem isolation_asm_import {env : Env} {st st' : St} {l : Table} {line col : Nat} {args : List Arg} {r : Res}
    (hl : st.locals = some l) (h : globalDirective .import_ env st line col args = .ok (st', r)) :
    st'.globals = st.globals ∧
    ∃ l', st'.locals = some l' ∧ ∀ m, l'.find m = l.find m ∨ (args = [.ident m] ∧ l'.find m = st.globals.find m) :=
  import_aux hl h

/-- C14.isolation_asm (uses never write)  `.du8/.du16/.du32`, `.addr`, `.align`, `.dhex/.dstr/.dfile`, every instruction
— with any operands, deferred or not — and the retries they queue change no table. -/
theorem isolation_asm_use {enc : Encoder} {env : Env} {st st' : St} {line col : Nat} {args : List Arg} {r : Res}
    {du : DU} {name : Bytes} :
    (duDirective du env st line col args = .ok (st', r) → st'.globals = st.globals ∧ st'.locals = st.locals) ∧
    (instruction enc env st line col name args = .ok (st', r) → st'.globals = st.globals ∧ st'.locals = st.locals) ∧
    (∀ d g, runDataTask d g env st = .ok (st', r) → st'.globals = st.globals ∧ st'.locals = st.locals) ∧
    (∀ i g, runInstrTask enc i g env st = .ok (st', r) → st'.globals = st.globals ∧ st'.locals = st.locals) :=
  ⟨fun h => ⟨(duDirective_quiet _ _ h).globals, (duDirective_quiet _ _ h).locals⟩,
   fun h => ⟨(instruction_quiet _ _ h).globals, (instruction_quiet _ _ h).locals⟩,
   fun _ _ h => ⟨(runDataTask_quiet _ _ h).globals, (runDataTask_quiet _ _ h).locals⟩,
   fun _ _ h => ⟨(runInstrTask_quiet _ _ h).globals, (runInstrTask_quiet _ _ h).locals⟩⟩

/-- C14.isolation_asm (upwards only by `.export` / `.global`, whole include)  After a complete `.include` every valued
entry `(m, v)` of the includer's table was there before, or `m` is an operand of a `.export`/`.global` statement of the
included file's own text and `v` is the value `m` has in the included file's own final table. -/
theorem isolation_asm_include {fs : Bytes → Option Bytes} {enc : Encoder} {fuel : Nat} {env : Env} {st st' : St}
    {line col : Nat} {args : List Arg} {r : Res} {L : Table} (hL : st.locals = some L)
    (h : includeDirective fs (assembleFile fs enc fuel) env st line col args = .ok (st', r)) :
    ∃ L', st'.locals = some L' ∧ ∀ m v, L'.find m = some (some v) → L.find m = some (some v) ∨
      ∃ fuel' path data els perr st2 st4 r4 C, fuel = fuel' + 1 ∧ fs path = some data ∧
        parseFile data = .ok (els, perr) ∧ st2.locals = some [] ∧ st2.globals = L ∧
        fileBody fs enc (assembleFile fs enc fuel') ⟨path :: env.paths, path⟩ data st2 = .ok (st4, r4) ∧
        st4.locals = some C ∧ m ∈ fileNames els ∧ C.find m = some (some v) := by
  obtain ⟨L', hL', hm⟩ := include_aux hL h
  exact ⟨L', hL', fun m v hv => (hm m v hv).imp id (fun ⟨a, b, c, d, e, f, g, r4, i, h1, h2, h3, h4, h5, _, h6, h7, h8, h9⟩ =>
    ⟨a, b, c, d, e, f, g, r4, i, h1, h2, h3, h4, h5, h6, h7, h8, h9⟩)⟩

/-- C14.isolation_asm (a file's own table, whole file)  Take any file of the include tree — the main file or an
included one at any depth — assembled by `fileBody` from the empty table, with all its statements, complete nested
includes and its task loop, and let `C'` be its own table at the end.  Then every valued entry `m = v` of `C'` has an
origin in a statement of the file's OWN text `els` (what `data` parses into):

* a definition `m:` / `.const m, e`; or
* an `.import m` — and the includer's table (the file's `globals`) has `m = v`; or
* an `.include` statement whose file sent `m` up (`SentUp`): that file was itself assembled from the empty table, its own
  text has `.export m` / `.global m`, and its own final table has `m = v` — to which this theorem applies again.

So a file sees only what it defines, what it imports from its includer, and what the files it includes export or declare
global; following `SentUp` downwards and `.import` upwards yields the chain that ends at a definition `m = v`. -/
theorem isolation_asm_file {fs : Bytes → Option Bytes} {enc : Encoder} {fuel : Nat} {env : Env} {data : Bytes}
    {st st' : St} {r : Res} {C' : Table} (hC : st.locals = some []) (hq : st.localTasks = some [])
    (h : fileBody fs enc (assembleFile fs enc fuel) env data st = .ok (st', r)) (hC' : st'.locals = some C') :
    ∃ els perr, parseFile data = .ok (els, perr) ∧ ∀ m v, C'.find m = some (some v) →
      (∃ el ∈ els, defines m el) ∨ ((∃ el ∈ els, imports m el) ∧ st'.globals.find m = some (some v)) ∨
      (∃ el ∈ els, isInclude el ∧ ∃ L, SentUp fs enc fuel env L m v) :=
  fileBody_origin hC hq h hC'

/-- C14.isolation_asm (one statement)  The same classification for a single statement at any position of a file: an entry
valued afterwards was valued before, or the statement defines it, or imports it (the includer has it, with this value), or
is an `.include` whose file sent it up.  `.global`, `.export`, `.du*`, instructions, `.addr/.align/.dhex/.dstr/.dfile`
create no valued entry. -/
theorem isolation_asm_statement {fs : Bytes → Option Bytes} {enc : Encoder} {fuel : Nat} {env : Env} {st st' : St}
    {C C' : Table} {el : Element} {r : Res} (hC : st.locals = some C) (hC' : st'.locals = some C')
    (h : statement fs enc (assembleFile fs enc fuel) env st el = .ok (st', r)) :
    ∀ m v, C'.find m = some (some v) → C.find m = some (some v) ∨ defines m el ∨
      (imports m el ∧ st.globals.find m = some (some v)) ∨ (isInclude el ∧ SentUp fs enc fuel env C m v) :=
  statement_origin hC hC' h

/-- … and the end-of-file tasks (closures of `.global`, retries) never touch the file's own table. -/
theorem isolation_asm_tasks {enc : Encoder} {env : Env} {n : Nat} {ts : List Task} {st st' : St} {res r : Res}
    (h : localLoop enc env n ts st res = .ok (st', r)) : st'.locals = st.locals :=
  localLoop_locals n ts st res _ _ h

/-- C14.isolation_asm (whole tree: the chain ends at a definition)  If NO file of the project has a label `m:` or a
`.const m, …` (`NoDef fs m`), then `m` never has a value anywhere: for every file of the include tree, at every depth
(`fuel` = remaining include depth), assembled from the empty table by an includer whose table has no value for `m` —
the file's own final table has no value for `m`, and neither has the includer's table afterwards.  (Induction on the
include depth over `isolation_asm_statement`: `.import` needs the includer's value, `.include` needs the child's, and
`.export`/`.global` copy only the file's own value.)  Contrapositive: wherever a name resolves, a chain of
`.import` / `.export` / `.global` edges leads to a file that defines it. -/
theorem isolation_asm_undefined {fs : Bytes → Option Bytes} {enc : Encoder} {m : Bytes} (hnd : NoDef fs m) (fuel : Nat)
    {env : Env} {data path : Bytes} {st st' : St} {r : Res} (hfs : fs path = some data) (hC : st.locals = some [])
    (hq : st.localTasks = some []) (hg : ∀ w, st.globals.find m ≠ some (some w))
    (h : fileBody fs enc (assembleFile fs enc fuel) env data st = .ok (st', r)) :
    (∀ C', st'.locals = some C' → ∀ w, C'.find m ≠ some (some w)) ∧ ∀ w, st'.globals.find m ≠ some (some w) :=
  nodef_file hnd fuel env data path st st' r hfs hC hq hg h

/-- … in particular after the main file of a project the real global table has no value for such a name -/
theorem isolation_asm_undefined_main {fs : Bytes → Option Bytes} {enc : Encoder} {m : Bytes} (hnd : NoDef fs m)
    {fuel : Nat} {data main : Bytes} {st' : St} {r : Res} (hfs : fs main = some data)
    (h : assembleFile fs enc fuel Env.init St.init data main = .ok (st', r)) :
    ∀ w, st'.globals.find m ≠ some (some w) := by
  cases fuel with
  | zero => simp [assembleFile] at h
  | succ fuel =>
    obtain ⟨st4, _, _, _, hb, _, _, _, _, _, hg4, _, _⟩ := assembleFile_outside (st := St.init) rfl rfl h
    rw [hg4]
    exact (nodef_file hnd fuel _ data main _ st4 r hfs rfl rfl (fun w hw => by simp [St.init, Table.find] at hw) hb).2

/-! ## simulation — the scope machine of Props/C14.lean is the scope-relevant projection of `Asm`

`scopeOf st env : Scope.State` (Lemmas/AsmScopeSim.lean) keeps both tables, both task queues (closures of `.global` as
themselves, retried statements as opaque retries), the depth of the path stack and the scope-class diagnostics of a
context of the whole-pipeline model.  `outOf` / `exOf` forget which panic site was hit (a panic of one model is a panic
of the other).  The frame stack of `Scope` corresponds to the activations of `assembleFile` and is not part of `St`:
the squares below are those of ONE activation; entering and leaving a file are the last theorem. -/

/-- C14.simulation_asm (primitives)  `Arm6M::is_register`, `get_constant`, `insert_constant`, `defer_constant` and
`add_task` of the two models commute with `scopeOf`: same table effect, same `ConstantError`, same panic condition. -/
theorem simulation_asm_primitives (st : St) (env : Env) (n : Bytes) (v : Int) (r : Realm) (t : Task) :
    Scope.isReg n = Front.isRegister n ∧
    (Scope.getConstant (scopeOf st env) n (realmOf r) =
      match getConstant st n r with
      | .ok lk => .ok (lookupOf lk)
      | .stop _ => .error .noLocalScope) ∧
    (Scope.insertConstant (scopeOf st env) n v (realmOf r) =
      match insertConstant st n v r with
      | .ok (st', x) => .ok (scopeOf st' env, exceptOf x)
      | .stop _ => .error .noLocalScope) ∧
    (Scope.deferConstant (scopeOf st env) n (realmOf r) =
      match deferConstant st n r with
      | .ok (st', x) => .ok (scopeOf st' env, exceptOf x)
      | .stop _ => .error .noLocalScope) ∧
    (Scope.addTask (scopeOf st env) (taskOf t) (realmOf r) =
      match addTask st t r with
      | .ok st' => .ok (scopeOf st' env)
      | .stop _ => .error .noLocalScope) :=
  ⟨isReg_eq n, sim_getConstant st env n r, sim_insertConstant st env n v r, sim_deferConstant st env n r,
   sim_addTask st env t r⟩

/-- C14.simulation_asm (statements)  Each scope-relevant statement of `Asm` — a label at the region cursor, `.const n, e`
with the value of `e`, `.global n`, `.import n`, `.export n` — and the closure `.global` queues, run on a context `st`,
does to `scopeOf st` exactly what the corresponding op of the scope machine does: the same new tables and queues, the
same result level (`Ok` / trivial / fatal), the same diagnostic class recorded (or none), and a panic exactly when the
scope machine panics. -/
theorem simulation_asm_statements {fs : Bytes → Option Bytes} {enc : Encoder} {inc : Inc} (st : St) (env : Env)
    (line col : Nat) (n : Bytes) :
    (∀ (el : Element) (a : Nat), el.val = .label n → currAddr st = some a →
      exOf (Scope.doLabel (scopeOf st env) n a 0) = outOf env (statement fs enc inc env st el)) ∧
    (∀ (e : Arg) (v : Int), evalStrict "const" env st line col e = .ok (.ok (.const v)) →
      exOf (Scope.doConst (scopeOf st env) n v 0) = outOf env (constDirective env st line col [.ident n, e])) ∧
    exOf (Scope.doGlobal (scopeOf st env) n 0) = outOf env (globalDirective .global env st line col [.ident n]) ∧
    exOf (Scope.doImport (scopeOf st env) n 0) = outOf env (globalDirective .import_ env st line col [.ident n]) ∧
    exOf (Scope.doExport (scopeOf st env) n 0) = outOf env (globalDirective .export_ env st line col [.ident n]) ∧
    exOf (Scope.runGlobalCopy (scopeOf st env) n 0) = outOf env (runGlobalCopy n line col env st) :=
  ⟨fun el a hv hc => sim_label st env el n a hv hc, fun e v he => sim_const st env line col n e v he,
   sim_global st env line col n, sim_import st env line col n, sim_export st env line col n,
   sim_globalCopy st env line col n⟩

/-- C14.simulation_asm (entering and leaving a file)  The `mem::replace` swaps: `Scope.enterFile` on `scopeOf st` yields the
tables and queues of `Asm.enterFile st` and a `PathFrame` holding what `Asm.enterFile` returns for `leaveFile`; and
`Scope.intoInner` on such a frame restores what `Asm.leaveFile` restores. -/
theorem simulation_asm_swap (st st4 : St) (env : Env) (tag : Nat) (path : Bytes) (fs : List Scope.Saved) :
    (let s' := Scope.enterFile (scopeOf st env) tag
     let st2 := (enterFile st).2.2
     s'.globals = st2.globals ∧ s'.locals = st2.locals ∧ s'.globalTasks = st2.globalTasks.map taskOf ∧
     s'.localTasks = st2.localTasks.map (·.map taskOf) ∧
     s'.depth = (⟨path :: env.paths, path⟩ : Env).paths.length ∧
     (s'.frames.head?.map (·.constants)) = some (enterFile st).1 ∧
     (s'.frames.head?.map (·.tasks)) = some ((enterFile st).2.1.map (·.map taskOf))) ∧
    ∃ s', Scope.intoInner { scopeOf st4 ⟨path :: env.paths, path⟩ with
        frames := ⟨env.paths.length + 1, (enterFile st).1, (enterFile st).2.1.map (·.map taskOf), tag⟩ :: fs }
        ⟨env.paths.length + 1, (enterFile st).1, (enterFile st).2.1.map (·.map taskOf), tag⟩ fs = .ok s' ∧
      s'.globals = (leaveFile (enterFile st).1 (enterFile st).2.1 st4).globals ∧
      s'.locals = (leaveFile (enterFile st).1 (enterFile st).2.1 st4).locals ∧
      s'.globalTasks = (leaveFile (enterFile st).1 (enterFile st).2.1 st4).globalTasks.map taskOf ∧
      s'.localTasks = (leaveFile (enterFile st).1 (enterFile st).2.1 st4).localTasks.map (·.map taskOf) ∧
      s'.depth = env.paths.length ∧ s'.frames = fs :=
  ⟨sim_enterFile st env tag path, sim_leaveFile st4 path env.paths _ _ fs tag⟩

/-! ## non-vacuity -/

private def x : Bytes := bytesOf "x"

/-- the hypotheses of the `dup_*_asm` theorems are satisfiable: inside a file whose table has `x = 1` -/
example : ∃ (st : St) (l : Table), st.locals = some l ∧ l.find x = some (some 1) ∧ Front.isRegister x = false ∧
    st.globals.find x = none :=
  ⟨{ St.init with locals := some [(x, some 1)], localTasks := some [] }, [(x, some 1)], rfl, by decide, by decide,
   by decide⟩

/-- `.const x, 2` in that state: exactly the duplicate diagnostic -/
example : statement (fun _ => none) encoder (fun _ _ _ _ => .stop .fuel) ⟨[[109]], [109]⟩
      { St.init with locals := some [(x, some 1)], localTasks := some [] }
      ⟨3, 5, .directive (bytesOf "const") (.cons (.ident x) (.cons (.const 2) .nil))⟩ =
    .ok (({ St.init with locals := some [(x, some 1)], localTasks := some [] } : St).push ⟨[[109]], [109]⟩ 3 5
      (.dirApply "const" (.constDirDuplicate x)), .err .fatal) :=
  dup_const_asm (v := 2) (w := 1) rfl rfl (by rfl) rfl (by decide) (by decide)

/-- the hypotheses of `frame_asm` / `monotone_asm_include` / `isolation_asm_include` are satisfiable in their interesting
branch: a file whose table has `x = 1` includes an (empty) file; the `.include` runs the recursion and returns -/
example : ∃ st' r, includeDirective (fun _ => some []) (assembleFile (fun _ => some []) encoder 1) ⟨[[109]], [109]⟩
      { St.init with locals := some [(x, some 1)], localTasks := some [] } 1 1 [.str [120]] = .ok (st', r) ∧
    st'.locals = some [(x, some 1)] := ⟨_, _, rfl, rfl⟩

/-- register names are reserved, ordinary names are not -/
example : Front.isRegister (bytesOf "r0") = true ∧ Front.isRegister (bytesOf "SP") = true ∧
    Front.isRegister x = false := by decide

end Trion.Asm
