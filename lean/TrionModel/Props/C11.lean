import TrionModel.Lemmas.LexPos
/-!
# C11 — literals denote exactly the written value
-/
namespace Trion.Lex

example : tokens (bytesOf "0x1F") = .ok ⟨[⟨1, 1, .num 31⟩], none, 1, 5⟩ := by decide

end Trion.Lex
