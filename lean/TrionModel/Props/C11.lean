import TrionModel.Lemmas.LexLit
/-!
# C11 — literals denote exactly the written value

`radixPrefix r` is what selects radix `r` (nothing, `0b`, `0o`, `0x` — lower case only, as in the code);
`isDigit r b` is `char::is_digit(r)` of the byte (decimal digits and letters of either case below `r`);
`valueFrom r ds 0` is positional notation: `ds.foldl (fun a b => a * r + digit b) 0`.
Quantifying over all digit strings `ds` covers every digit case and any number of leading zeros.
-/
namespace Trion.Lex

/-- what the tokenizer yields for a digit string after a radix prefix: one number token when
`i64::from_str_radix` accepts the digits, otherwise the single error `BadNumber` at 1:1 -/
theorem number_tokens (r : Nat) (hr : r = 2 ∨ r = 8 ∨ r = 10 ∨ r = 16) (ds : Bytes)
    (hds : ∀ b ∈ ds, isDigit r b = true) (hne : r = 10 → ds ≠ []) :
    tokens (radixPrefix r ++ ds) = match i64FromStrRadix ds r with
      | some v => .ok ⟨[⟨1, 1, .num v⟩], none, 1, 1 + (radixPrefix r ++ ds).length⟩
      | none => .ok ⟨[], some ⟨1, 1, .badNumber⟩, 1, 1⟩ := by
  have hpfx : ∀ b ∈ radixPrefix r, b.toNat < 128 := by
    intro b hb
    rcases hr with rfl | rfl | rfl | rfl <;> simp [radixPrefix] at hb
    all_goals (rcases hb with rfl | rfl <;> decide)
  have hascii : ∀ b ∈ radixPrefix r ++ ds, b.toNat < 128 := by
    intro b hb
    simp at hb
    rcases hb with hb | hb
    · exact hpfx b hb
    · exact (isDigit_ascii (hds b hb)).1
  -- the text starts with a decimal digit
  obtain ⟨b0, tl, hd, h0⟩ : ∃ b0 tl, radixPrefix r ++ ds = b0 :: tl ∧ 48 ≤ b0.toNat ∧ b0.toNat ≤ 57 := by
    rcases hr with rfl | rfl | rfl | rfl
    · exact ⟨48, 98 :: ds, by simp [radixPrefix], by decide⟩
    · exact ⟨48, 111 :: ds, by simp [radixPrefix], by decide⟩
    · cases ds with
      | nil => exact absurd rfl (hne rfl)
      | cons a ds' => exact ⟨a, ds', by simp [radixPrefix], isDigit10_range (hds a (by simp))⟩
    · exact ⟨48, 120 :: ds, by simp [radixPrefix], by decide⟩
  have hdet := prefix_detect r hr ds [] hds hne (by intro _ b hb; simp at hb)
  simp only [List.append_nil] at hdet
  unfold tokens
  rw [new_ascii _ hascii]
  have hlex := lexNumber_exact ⟨radixPrefix r ++ ds, false, 1, 1⟩ (radixPrefix r) ds [] r (by simp)
    (by simpa using hdet.1) (by simpa using hdet.2) hds
    (by intro b hb
        cases ds with
        | nil => simp at hb
        | cons a ds' => simp at hb; subst hb; exact isDigit_noncont (hds _ (by simp)))
    (Or.inl ⟨rfl, rfl⟩)
  have hnext := nextToken_number ⟨radixPrefix r ++ ds, false, 1, 1⟩ b0 tl hd h0
  rw [hlex] at hnext
  rw [show (radixPrefix r ++ ds).length + 2 = ((radixPrefix r ++ ds).length + 1) + 1 by omega, run, hnext]
  cases i64FromStrRadix ds r with
  | none => simp [fail, State.clear]
  | some v =>
    simp only
    rw [run, nextToken_ended]
    simp [Out.push]

theorem i64FromStrRadix_eq (r : Nat) (hr : 1 ≤ r) (ds : Bytes) (hne : ds ≠ []) (hds : ∀ b ∈ ds, isDigit r b = true) :
    i64FromStrRadix ds r =
      if valueFrom r ds 0 < 2 ^ 63 then some (Int.ofNat (valueFrom r ds 0)) else none := by
  cases ds with
  | nil => exact absurd rfl hne
  | cons a ds' =>
    simp only [i64FromStrRadix]
    rw [parseDigits_eq r _ hr _ 0 hds (by omega)]
    by_cases h : valueFrom r (a :: ds') 0 < 2 ^ 63
    · have : valueFrom r (a :: ds') 0 ≤ 9223372036854775807 := by omega
      simp [h, this]
    · have : ¬ valueFrom r (a :: ds') 0 ≤ 9223372036854775807 := by omega
      simp [h, this]

/-- C11.a `int_lit`  Every integer literal below 2^63 — radix 2, 8, 10 or 16, digits in either letter
case, any number of leading zeros — yields exactly one number token carrying the value written, at 1:1,
and the stream ends without error at the column after the literal. -/
theorem int_lit (r : Nat) (hr : r = 2 ∨ r = 8 ∨ r = 10 ∨ r = 16) (ds : Bytes) (hne : ds ≠ [])
    (hds : ∀ b ∈ ds, isDigit r b = true) (hv : valueFrom r ds 0 < 2 ^ 63) :
    tokens (radixPrefix r ++ ds) =
      .ok ⟨[⟨1, 1, .num (Int.ofNat (valueFrom r ds 0))⟩], none, 1, 1 + (radixPrefix r ++ ds).length⟩ := by
  rw [number_tokens r hr ds hds (fun _ => hne), i64FromStrRadix_eq r (by omega) ds hne hds]
  simp [hv]

/-- C11.b `int_big`  A literal of 2^63 or more is rejected with `BadNumber`, never wrapped. -/
theorem int_big (r : Nat) (hr : r = 2 ∨ r = 8 ∨ r = 10 ∨ r = 16) (ds : Bytes) (hne : ds ≠ [])
    (hds : ∀ b ∈ ds, isDigit r b = true) (hv : 2 ^ 63 ≤ valueFrom r ds 0) :
    tokens (radixPrefix r ++ ds) = .ok ⟨[], some ⟨1, 1, .badNumber⟩, 1, 1⟩ := by
  rw [number_tokens r hr ds hds (fun _ => hne), i64FromStrRadix_eq r (by omega) ds hne hds]
  have : ¬ valueFrom r ds 0 < 2 ^ 63 := by omega
  simp [this]

/-- C11.c `lit_reject` (prefix without digits)  `0b`, `0o`, `0x` alone are rejected with `BadNumber`. -/
theorem bare_prefix_reject (r : Nat) (hr : r = 2 ∨ r = 8 ∨ r = 16) :
    tokens (radixPrefix r) = .ok ⟨[], some ⟨1, 1, .badNumber⟩, 1, 1⟩ := by
  have := number_tokens r (by omega) [] (by simp) (by omega)
  simpa [i64FromStrRadix] using this

-- non-vacuity: digit strings with these properties exist in every radix, both cases, leading zeros
example : isDigit 16 70 = true ∧ isDigit 16 102 = true ∧ isDigit 8 56 = false ∧ isDigit 2 49 = true := by decide
example : valueFrom 16 (bytesOf "00fF") 0 = 255 := by decide
example : tokens (bytesOf "0x00fF") = .ok ⟨[⟨1, 1, .num 255⟩], none, 1, 7⟩ := by decide
example : tokens (bytesOf "9223372036854775807") = .ok ⟨[⟨1, 1, .num 9223372036854775807⟩], none, 1, 20⟩ := by decide
example : tokens (bytesOf "9223372036854775808") = .ok ⟨[], some ⟨1, 1, .badNumber⟩, 1, 1⟩ := by decide
example : tokens (bytesOf "0x") = .ok ⟨[], some ⟨1, 1, .badNumber⟩, 1, 1⟩ := by decide

end Trion.Lex
