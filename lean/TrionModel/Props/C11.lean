import TrionModel.Lemmas.LexStrAll
/-!
# C11 — literals denote exactly the written value

`radixPrefix r` is what selects radix `r` (nothing, `0b`, `0o`, `0x` — lower case only, as in the code);
`isDigit r b` is `char::is_digit(r)` of the byte (decimal digits and letters of either case below `r`);
`valueFrom r ds 0` is positional notation: `ds.foldl (fun a b => a * r + digit b) 0`.
Quantifying over all digit strings `ds` covers every digit case and any number of leading zeros.
-/
namespace Trion.Lex

/-- what the tokenizer yields for a digit string after a radix prefix: one number token when
`i64::from_str_radix` accepts the digits, otherwise the single error `BadNumber` at 1:1 -/
theorem number_tokens (r : Nat) (hr : r = 2 ∨ r = 8 ∨ r = 10 ∨ r = 16) (ds : Bytes)
    (hds : ∀ b ∈ ds, isDigit r b = true) (hne : r = 10 → ds ≠ []) :
    tokens (radixPrefix r ++ ds) = match i64FromStrRadix ds r with
      | some v => .ok ⟨[⟨1, 1, .num v⟩], none, 1, 1 + (radixPrefix r ++ ds).length⟩
      | none => .ok ⟨[], some ⟨1, 1, .badNumber⟩, 1, 1⟩ := by
  have hpfx : ∀ b ∈ radixPrefix r, b.toNat < 128 := by
    intro b hb
    rcases hr with rfl | rfl | rfl | rfl <;> simp [radixPrefix] at hb
    all_goals (rcases hb with rfl | rfl <;> decide)
  have hascii : ∀ b ∈ radixPrefix r ++ ds, b.toNat < 128 := by
    intro b hb
    simp at hb
    rcases hb with hb | hb
    · exact hpfx b hb
    · exact (isDigit_ascii (hds b hb)).1
  -- the text starts with a decimal digit
  obtain ⟨b0, tl, hd, h0⟩ : ∃ b0 tl, radixPrefix r ++ ds = b0 :: tl ∧ 48 ≤ b0.toNat ∧ b0.toNat ≤ 57 := by
    rcases hr with rfl | rfl | rfl | rfl
    · exact ⟨48, 98 :: ds, by simp [radixPrefix], by decide⟩
    · exact ⟨48, 111 :: ds, by simp [radixPrefix], by decide⟩
    · cases ds with
      | nil => exact absurd rfl (hne rfl)
      | cons a ds' => exact ⟨a, ds', by simp [radixPrefix], isDigit10_range (hds a (by simp))⟩
    · exact ⟨48, 120 :: ds, by simp [radixPrefix], by decide⟩
  have hdet := prefix_detect r hr ds [] hds hne (by intro _ b hb; simp at hb)
  simp only [List.append_nil] at hdet
  unfold tokens
  rw [new_ascii _ hascii]
  have hlex := lexNumber_exact ⟨radixPrefix r ++ ds, false, 1, 1⟩ (radixPrefix r) ds [] r (by simp)
    (by simpa using hdet.1) (by simpa using hdet.2) hds
    (by intro b hb
        cases ds with
        | nil => simp at hb
        | cons a ds' => simp at hb; subst hb; exact isDigit_noncont (hds _ (by simp)))
    (Or.inl ⟨rfl, rfl⟩)
  have hnext := nextToken_number ⟨radixPrefix r ++ ds, false, 1, 1⟩ b0 tl hd h0
  rw [hlex] at hnext
  rw [show (radixPrefix r ++ ds).length + 2 = ((radixPrefix r ++ ds).length + 1) + 1 by omega, run, hnext]
  cases i64FromStrRadix ds r with
  | none => simp [fail, State.clear]
  | some v =>
    simp only
    rw [run, nextToken_ended]
    simp [Out.push]

theorem i64FromStrRadix_eq (r : Nat) (hr : 1 ≤ r) (ds : Bytes) (hne : ds ≠ []) (hds : ∀ b ∈ ds, isDigit r b = true) :
    i64FromStrRadix ds r =
      if valueFrom r ds 0 < 2 ^ 63 then some (Int.ofNat (valueFrom r ds 0)) else none := by
  cases ds with
  | nil => exact absurd rfl hne
  | cons a ds' =>
    simp only [i64FromStrRadix]
    rw [parseDigits_eq r _ hr _ 0 hds (by omega)]
    by_cases h : valueFrom r (a :: ds') 0 < 2 ^ 63
    · have : valueFrom r (a :: ds') 0 ≤ 9223372036854775807 := by omega
      simp [h, this]
    · have : ¬ valueFrom r (a :: ds') 0 ≤ 9223372036854775807 := by omega
      simp [h, this]

/-- C11.a `int_lit`  Every integer literal below 2^63 — radix 2, 8, 10 or 16, digits in either letter
case, any number of leading zeros — yields exactly one number token carrying the value written, at 1:1,
and the stream ends without error at the column after the literal. -/
theorem int_lit (r : Nat) (hr : r = 2 ∨ r = 8 ∨ r = 10 ∨ r = 16) (ds : Bytes) (hne : ds ≠ [])
    (hds : ∀ b ∈ ds, isDigit r b = true) (hv : valueFrom r ds 0 < 2 ^ 63) :
    tokens (radixPrefix r ++ ds) =
      .ok ⟨[⟨1, 1, .num (Int.ofNat (valueFrom r ds 0))⟩], none, 1, 1 + (radixPrefix r ++ ds).length⟩ := by
  rw [number_tokens r hr ds hds (fun _ => hne), i64FromStrRadix_eq r (by omega) ds hne hds]
  simp [hv]

/-- C11.b `int_big`  A literal of 2^63 or more is rejected with `BadNumber`, never wrapped. -/
theorem int_big (r : Nat) (hr : r = 2 ∨ r = 8 ∨ r = 10 ∨ r = 16) (ds : Bytes) (hne : ds ≠ [])
    (hds : ∀ b ∈ ds, isDigit r b = true) (hv : 2 ^ 63 ≤ valueFrom r ds 0) :
    tokens (radixPrefix r ++ ds) = .ok ⟨[], some ⟨1, 1, .badNumber⟩, 1, 1⟩ := by
  rw [number_tokens r hr ds hds (fun _ => hne), i64FromStrRadix_eq r (by omega) ds hne hds]
  have : ¬ valueFrom r ds 0 < 2 ^ 63 := by omega
  simp [this]

/-- C11.c `lit_reject` (prefix without digits)  `0b`, `0o`, `0x` alone are rejected with `BadNumber`. -/
theorem bare_prefix_reject (r : Nat) (hr : r = 2 ∨ r = 8 ∨ r = 16) :
    tokens (radixPrefix r) = .ok ⟨[], some ⟨1, 1, .badNumber⟩, 1, 1⟩ := by
  have := number_tokens r (by omega) [] (by simp) (by omega)
  simpa [i64FromStrRadix] using this

-- non-vacuity: digit strings with these properties exist in every radix, both cases, leading zeros
example : isDigit 16 70 = true ∧ isDigit 16 102 = true ∧ isDigit 8 56 = false ∧ isDigit 2 49 = true := by decide
example : valueFrom 16 (bytesOf "00fF") 0 = 255 := by decide
example : tokens (bytesOf "0x00fF") = .ok ⟨[⟨1, 1, .num 255⟩], none, 1, 7⟩ := by decide
example : tokens (bytesOf "9223372036854775807") = .ok ⟨[⟨1, 1, .num 9223372036854775807⟩], none, 1, 20⟩ := by decide
example : tokens (bytesOf "9223372036854775808") = .ok ⟨[], some ⟨1, 1, .badNumber⟩, 1, 1⟩ := by decide
example : tokens (bytesOf "0x") = .ok ⟨[], some ⟨1, 1, .badNumber⟩, 1, 1⟩ := by decide

end Trion.Lex

namespace Trion.Lex

/-- C11.d `char_lit` (one-byte characters)  `'c'` for every ASCII character that may be written raw —
TAB and the printable characters other than the backslash (the apostrophe included: `'''`) — yields the
number `c`. -/
theorem char_lit_ascii : ∀ n, n < 256 → (n = 9 ∨ (32 ≤ n ∧ n ≤ 126 ∧ n ≠ 92)) →
    tokens [39, n.toUInt8, 39] = .ok ⟨[⟨1, 1, .num (Int.ofNat n)⟩], none, 1, 4⟩ := by
  decide +kernel

/-- C11.e `char_lit` (escapes)  `'\t' '\n' '\r' '\"' '\'' '\\'` yield 9, 10, 13, 34, 39, 92. -/
theorem char_lit_escape :
    ∀ p ∈ [(116, 9), (110, 10), (114, 13), (34, 34), (39, 39), (92, 92)],
      tokens [39, 92, (p.1 : Nat).toUInt8, 39] = .ok ⟨[⟨1, 1, .num (Int.ofNat p.2)⟩], none, 1, 5⟩ := by
  decide +kernel

/-- C11.f `lit_reject` (characters)  Any other single ASCII byte between apostrophes — control
characters, DEL, the lone backslash — and any escape letter other than the six above is rejected with
`BadCharacter` and no token. -/
theorem char_reject_ascii : ∀ n, n < 128 → ¬ (n = 9 ∨ (32 ≤ n ∧ n ≤ 126 ∧ n ≠ 92)) →
    tokens [39, n.toUInt8, 39] = .ok ⟨[], some ⟨1, 1, .badCharacter⟩, 1, 1⟩ := by
  decide +kernel

theorem char_reject_escape : ∀ n, n < 128 → n ∉ [116, 110, 114, 34, 39, 92] →
    tokens [39, 92, n.toUInt8, 39] = .ok ⟨[], some ⟨1, 1, .badCharacter⟩, 1, 1⟩ := by
  decide +kernel

/-- C11.g `str_lit` (each escape)  `"\0" "\t" "\n" "\r" "\"" "\'" "\\"` yield the one-character strings
NUL, TAB, LF, CR, `"`, `'`, `\`. -/
theorem str_lit_escape :
    ∀ p ∈ [(48, 0), (116, 9), (110, 10), (114, 13), (34, 34), (39, 39), (92, 92)],
      tokens [34, 92, (p.1 : Nat).toUInt8, 34] = .ok ⟨[⟨1, 1, .str [(p.2 : Nat).toUInt8]⟩], none, 1, 5⟩ := by
  decide +kernel

/-- C11.h `lit_reject` (strings)  An unknown escape letter, and a raw control character or DEL inside a
string, are rejected with `BadString` and no token. -/
theorem str_reject_escape : ∀ n, n < 128 → n ∉ [48, 116, 110, 114, 34, 39, 92, 117] →
    tokens [34, 92, n.toUInt8, 34] = .ok ⟨[], some ⟨1, 1, .badString⟩, 1, 1⟩ := by
  decide +kernel

theorem str_reject_control : ∀ n, n < 128 → (n < 32 ∧ n ≠ 9) ∨ n = 127 →
    tokens [34, 97, n.toUInt8, 98, 34] = .ok ⟨[], some ⟨1, 1, .badString⟩, 1, 1⟩ := by
  decide +kernel

/-- C11.i `lit_reject` (witnesses for the remaining classes)  missing closing quote; surrogate,
out-of-range, non-hex, empty, signed and over-long `\u{…}`; `\u` without brace; and one accepted
`\u{…}` in each digit case for contrast. -/
theorem lit_reject_witnesses :
    tokens (bytesOf "\"abc") = .ok ⟨[], some ⟨1, 1, .badString⟩, 1, 1⟩ ∧
    tokens (bytesOf "'a") = .ok ⟨[], some ⟨1, 1, .badCharacter⟩, 1, 1⟩ ∧
    tokens (bytesOf "\"\\u{D800}\"") = .ok ⟨[], some ⟨1, 1, .badString⟩, 1, 1⟩ ∧
    tokens (bytesOf "\"\\u{dfff}\"") = .ok ⟨[], some ⟨1, 1, .badString⟩, 1, 1⟩ ∧
    tokens (bytesOf "\"\\u{110000}\"") = .ok ⟨[], some ⟨1, 1, .badString⟩, 1, 1⟩ ∧
    tokens (bytesOf "\"\\u{4G}\"") = .ok ⟨[], some ⟨1, 1, .badString⟩, 1, 1⟩ ∧
    tokens (bytesOf "\"\\u{}\"") = .ok ⟨[], some ⟨1, 1, .badString⟩, 1, 1⟩ ∧
    tokens (bytesOf "\"\\u{+41}\"") = .ok ⟨[], some ⟨1, 1, .badString⟩, 1, 1⟩ ∧
    tokens (bytesOf "\"\\u{-41}\"") = .ok ⟨[], some ⟨1, 1, .badString⟩, 1, 1⟩ ∧
    tokens (bytesOf "\"\\u{0000041}\"") = .ok ⟨[], some ⟨1, 1, .badString⟩, 1, 1⟩ ∧
    tokens (bytesOf "\"\\u41\"") = .ok ⟨[], some ⟨1, 1, .badString⟩, 1, 1⟩ ∧
    tokens (bytesOf "\"\\u{e9}\\u{20AC}\"") = .ok ⟨[⟨1, 1, .str [0xC3, 0xA9, 0xE2, 0x82, 0xAC]⟩], none, 1, 17⟩ := by
  decide +kernel

end Trion.Lex

namespace Trion.Lex

/-- C11.j `utf8_roundtrip`  `chars().next()` undoes `String::push`: for every Unicode scalar value `c` (one to
four bytes) and any following text, decoding the encoding gives back `c` and the encoded length. -/
theorem utf8_roundtrip (c : Nat) (hs : isScalar c = true) (rest : Bytes) :
    decodeChar (encodeChar c ++ rest) = some (c, (encodeChar c).length) :=
  decodeChar_encodeChar c hs rest

/-- C11.k `char_lit`  For EVERY Unicode scalar value `c` that may be written raw — TAB, the printable ASCII
characters other than the backslash, and everything from U+0080 on — the literal `'c'` (UTF-8 encoded) yields
exactly one number token with value `c` at 1:1, and the stream ends at column 4. -/
theorem char_lit (c : Nat) (hc : RawChar c) :
    tokens (39 :: encodeChar c ++ [39]) = .ok ⟨[⟨1, 1, .num (Int.ofNat c)⟩], none, 1, 4⟩ := by
  have hu : Utf8 ((39 : UInt8) :: encodeChar c ++ [39]) :=
    utf8_ascii_cons 39 (by decide) (utf8_encodeChar c hc.1 (utf8_ascii_cons 39 (by decide) Utf8.nil))
  apply tokens_single _ hu
  rw [nextToken_doNext _ 39 (encodeChar c ++ [39]) (by simp) (by decide) (by decide),
    doNext_char _ 39 (encodeChar c ++ [39]) (by simp) (by decide), lexChar_raw c hc]

/-- C11.l `lit_reject` (characters, every scalar value)  A scalar value that may not be written raw — a control
character other than TAB, DEL, the lone backslash — between apostrophes is rejected with `BadCharacter`. -/
theorem char_reject (c : Nat) (hs : isScalar c = true) (hc : ¬ RawChar c) :
    tokens (39 :: encodeChar c ++ [39]) = .ok ⟨[], some ⟨1, 1, .badCharacter⟩, 1, 1⟩ := by
  have hlt : c < 128 := by
    rcases Nat.lt_or_ge c 128 with h | h
    · exact h
    · exact absurd ⟨hs, .inr (.inr h)⟩ hc
  rw [encodeChar_ascii c hlt]
  exact char_reject_ascii c hlt (fun h => hc ⟨hs, by omega⟩)

/-- C11.l'  `lit_reject` (characters): a character literal whose closing apostrophe is missing — the text ends
after the character — is rejected with `BadCharacter`, for every scalar value that may be written raw. -/
theorem char_unclosed (c : Nat) (hc : RawChar c) :
    tokens (39 :: encodeChar c) = .ok ⟨[], some ⟨1, 1, .badCharacter⟩, 1, 1⟩ := by
  obtain ⟨hs, hadm⟩ := hc
  have hrest : Utf8 (encodeChar c) := by simpa using utf8_encodeChar c hs Utf8.nil
  have hu : Utf8 ((39 : UInt8) :: encodeChar c) := utf8_ascii_cons 39 (by decide) hrest
  have hnext : nextToken ⟨39 :: encodeChar c, false, 1, 1⟩ = .err ⟨1, 1, .badCharacter⟩ ⟨[], false, 1, 1⟩ := by
    rw [nextToken_doNext _ 39 (encodeChar c) rfl (by decide) (by decide), doNext_char _ 39 (encodeChar c) rfl (by decide)]
    unfold lexChar
    have hsl : sliceFrom ((39 : UInt8) :: encodeChar c) 1 = some (encodeChar c) := by
      have := sliceFrom_split [(39 : UInt8)] (encodeChar c) (utf8_head? hrest)
      simpa using this
    simp only [hsl]
    have hbody : lexCharBody false (encodeChar c) = .err false := by
      unfold lexCharBody lexCharFirst
      have hd := decodeChar_encodeChar c hs []
      rw [List.append_nil] at hd
      rw [hd]
      simp only
      have h92 : (c == 92) = false := by simp; omega
      have hok : (c == 9 || (decide (32 ≤ c) && decide (c ≤ 126)) || decide (128 ≤ c)) = true := by
        simp; omega
      simp only [h92, Bool.false_eq_true, if_false, hok, if_true]
      simp [decodeChar]
    rw [hbody]
    simp [fail, State.clear]
  exact tokens_error _ hu _ _ hnext

/-- C11.m `str_lit`  **Every string literal.** A body is any list of items, each either a scalar value written
raw (`RawStrChar`: TAB, printable ASCII other than `"` and `\`, anything from U+0080 on; UTF-8 encoded), or one
of the escapes `\0 \t \n \r \" \' \\`, or `\u{hex}` with 1–6 hexadecimal digits of either case that denote
a scalar value (`HexOk`). The literal yields exactly one string token whose payload is the concatenated UTF-8
encoding of the characters the items denote — whether the tokenizer borrows the payload from the source (no
escape) or builds it in its `escaped` buffer — and the stream ends without error at the position after the
literal. -/
theorem str_lit (items : List StrItem) (hok : ∀ it ∈ items, it.Ok) :
    tokens (34 :: renderAll items ++ [34]) =
      .ok ⟨[⟨1, 1, .str (denoteAll items)⟩], none,
        (Pos.of (34 :: renderAll items ++ [34])).1, (Pos.of (34 :: renderAll items ++ [34])).2⟩ := by
  have hu : Utf8 ((34 : UInt8) :: renderAll items ++ [34]) :=
    utf8_ascii_cons 34 (by decide) (utf8_renderAll items hok utf8_quote)
  apply tokens_single _ hu
  rw [nextToken_doNext _ 34 (renderAll items ++ [34]) (by simp) (by decide) (by decide),
    doNext_string _ 34 (renderAll items ++ [34]) (by simp) (by decide),
    lexString_items items hok [] Utf8.nil, Pos.of_eq_adv]

/-- the old partial statement is now a corollary: an escape-free body over TAB and printable ASCII -/
theorem str_lit_raw (cs : List Nat) (h : ∀ c ∈ cs, RawStrChar c) :
    tokens (34 :: renderAll (cs.map .raw) ++ [34]) =
      .ok ⟨[⟨1, 1, .str (renderAll (cs.map .raw))⟩], none,
        (Pos.of (34 :: renderAll (cs.map .raw) ++ [34])).1, (Pos.of (34 :: renderAll (cs.map .raw) ++ [34])).2⟩ := by
  have hraw : (cs.map StrItem.raw).all StrItem.isRaw = true := by simp [StrItem.isRaw]
  rw [str_lit _ (by intro it hit; simp at hit; obtain ⟨c, hc, rfl⟩ := hit; exact h c hc), renderAll_raw _ hraw]

/-- C11.n `lit_reject` (strings, general form)  After ANY well-formed beginning of a body, a tail at which the
scanner gives up (`BadTail`, instances below) makes the whole literal the single error `BadString` at 1:1 with
no token. Since the first offending place of a body is always preceded by a well-formed beginning, the
instances cover the offence *anywhere* in the body. -/
theorem str_reject (items : List StrItem) (hok : ∀ it ∈ items, it.Ok) (tail : Bytes) (hut : Utf8 tail)
    (hroom : endsWithEsc items = true → tail ≠ []) (hbad : BadTail tail) :
    tokens (34 :: renderAll items ++ tail) = .ok ⟨[], some ⟨1, 1, .badString⟩, 1, 1⟩ := by
  have hu : Utf8 ((34 : UInt8) :: renderAll items ++ tail) :=
    utf8_ascii_cons 34 (by decide) (utf8_renderAll items hok hut)
  have hnext : nextToken ⟨34 :: renderAll items ++ tail, false, 1, 1⟩ = .err ⟨1, 1, .badString⟩ ⟨[], false, 1, 1⟩ := by
    rw [nextToken_doNext _ 34 (renderAll items ++ tail) (by simp) (by decide) (by decide),
      doNext_string _ 34 (renderAll items ++ tail) (by simp) (by decide),
      lexString_reject items hok tail hut hroom hbad]
    rfl
  exact tokens_error _ hu _ _ hnext

/-- C11.o  missing closing quote: a well-formed body that simply ends (a body that ends in a one-letter escape
is the next theorem's case `rest = [e]`) -/
theorem str_unclosed (items : List StrItem) (hok : ∀ it ∈ items, it.Ok) (hend : endsWithEsc items = false) :
    tokens (34 :: renderAll items) = .ok ⟨[], some ⟨1, 1, .badString⟩, 1, 1⟩ := by
  have := str_reject items hok [] Utf8.nil (by simp [hend]) badTail_nil
  simpa using this

/-- C11.p  a backslash with fewer than two bytes after it (the text ends inside the escape, or right after a
one-letter escape: the closing quote is missing) -/
theorem str_unclosed_escape (items : List StrItem) (hok : ∀ it ∈ items, it.Ok)
    (rest : Bytes) (hr : Utf8 rest) (hlen : rest.length < 2) :
    tokens (34 :: renderAll items ++ 92 :: rest) = .ok ⟨[], some ⟨1, 1, .badString⟩, 1, 1⟩ :=
  str_reject items hok _ (utf8_ascii_cons 92 (by decide) hr) (by simp) (badTail_short rest hlen)

theorem endsWithEsc_split : ∀ (items : List StrItem), endsWithEsc items = true →
    ∃ init e, items = init ++ [.esc e] := by
  intro items
  induction items with
  | nil => intro h; simp [endsWithEsc] at h
  | cons it r ih =>
    intro h
    cases r with
    | nil =>
      cases it with
      | esc e => exact ⟨[], e, rfl⟩
      | raw c => simp [endsWithEsc, StrItem.isEsc] at h
      | uni x => simp [endsWithEsc, StrItem.isEsc] at h
    | cons a b =>
      obtain ⟨init, e, he⟩ := ih (by simpa [endsWithEsc] using h)
      exact ⟨it :: init, e, by rw [he]; rfl⟩

theorem renderAll_append (xs ys : List StrItem) : renderAll (xs ++ ys) = renderAll xs ++ renderAll ys := by
  induction xs with
  | nil => rfl
  | cons x r ih => simp [renderAll, ih]

/-- C11.p'  **Missing closing quote, every well-formed body**: the opening quote followed by any list of items
and then the end of the text is the single error `BadString`. -/
theorem str_unclosed_any (items : List StrItem) (hok : ∀ it ∈ items, it.Ok) :
    tokens (34 :: renderAll items) = .ok ⟨[], some ⟨1, 1, .badString⟩, 1, 1⟩ := by
  cases hend : endsWithEsc items with
  | false => exact str_unclosed items hok hend
  | true =>
    obtain ⟨init, e, rfl⟩ := endsWithEsc_split items hend
    have he : (escValue e.toNat).isSome = true := hok (.esc e) (by simp)
    obtain ⟨v, hv⟩ := Option.isSome_iff_exists.mp he
    have := str_unclosed_escape init (fun it hit => hok it (by simp [hit])) [e]
      (utf8_ascii_cons e (escValue_ascii hv).1 Utf8.nil) (by simp)
    rw [renderAll_append]
    simpa [renderAll, StrItem.render] using this

/-- C11.q  a raw control character other than TAB, or DEL, anywhere in the body, whatever follows -/
theorem str_reject_control_any (items : List StrItem) (hok : ∀ it ∈ items, it.Ok) (b : UInt8) (rest : Bytes)
    (hr : Utf8 rest) (hb : (b.toNat < 32 ∧ b.toNat ≠ 9) ∨ b.toNat = 127) :
    tokens (34 :: renderAll items ++ b :: rest) = .ok ⟨[], some ⟨1, 1, .badString⟩, 1, 1⟩ :=
  str_reject items hok _ (utf8_ascii_cons b (by omega) hr) (by simp) (badTail_control b rest hb)

/-- C11.r  an unknown escape letter (anything but `0 t n r " ' \ u`), anywhere, whatever follows -/
theorem str_reject_unknown_escape (items : List StrItem) (hok : ∀ it ∈ items, it.Ok) (e : UInt8) (rest : Bytes)
    (hr : Utf8 (e :: rest)) (hv : escValue e.toNat = none) (hu : e.toNat ≠ 117) :
    tokens (34 :: renderAll items ++ 92 :: e :: rest) = .ok ⟨[], some ⟨1, 1, .badString⟩, 1, 1⟩ :=
  str_reject items hok _ (utf8_ascii_cons 92 (by decide) hr) (by simp) (badTail_unknown e rest hv hu)

/-- C11.s  `\u` not followed by an opening brace -/
theorem str_reject_u_nobrace (items : List StrItem) (hok : ∀ it ∈ items, it.Ok) (g : UInt8) (rest : Bytes)
    (hr : Utf8 (g :: rest)) (hg : g.toNat ≠ 123) :
    tokens (34 :: renderAll items ++ 92 :: 117 :: g :: rest) = .ok ⟨[], some ⟨1, 1, .badString⟩, 1, 1⟩ :=
  str_reject items hok _ (utf8_ascii_cons 92 (by decide) (utf8_ascii_cons 117 (by decide) hr)) (by simp)
    (badTail_nobrace g rest hg)

/-- C11.t  `\u{` without a closing brace among the next seven bytes: more than six digits, or unterminated -/
theorem str_reject_uni_long (items : List StrItem) (hok : ∀ it ∈ items, it.Ok) (r3 : Bytes) (hr : Utf8 r3)
    (hno : ∀ b ∈ r3.take 7, b.toNat ≠ 125) :
    tokens (34 :: renderAll items ++ 92 :: 117 :: 123 :: r3) = .ok ⟨[], some ⟨1, 1, .badString⟩, 1, 1⟩ :=
  str_reject items hok _
    (utf8_ascii_cons 92 (by decide) (utf8_ascii_cons 117 (by decide) (utf8_ascii_cons 123 (by decide) hr))) (by simp)
    (badTail_uni_open r3 hr hno)

/-- C11.u  `\u{text}` (closing brace within seven bytes) is rejected whenever `text` is NOT 1–6 hexadecimal
digits denoting a scalar value: empty, signed (`+`/`-`), any non-hex byte, a surrogate D800–DFFF, a value above
10FFFF. Together with `str_lit` (which accepts every `HexOk` text): accepted iff `HexOk`. -/
theorem str_reject_uni (items : List StrItem) (hok : ∀ it ∈ items, it.Ok) (text more : Bytes)
    (hr : Utf8 (text ++ 125 :: more)) (hno : ∀ b ∈ text, b.toNat ≠ 125) (hlen : text.length ≤ 6) (hbad : ¬ HexOk text) :
    tokens (34 :: renderAll items ++ 92 :: 117 :: 123 :: (text ++ 125 :: more)) =
      .ok ⟨[], some ⟨1, 1, .badString⟩, 1, 1⟩ :=
  str_reject items hok _
    (utf8_ascii_cons 92 (by decide) (utf8_ascii_cons 117 (by decide) (utf8_ascii_cons 123 (by decide) hr))) (by simp)
    (badTail_uni_bad text more hr hno hlen hbad)

/-- C11.v  the converse of `utf8_roundtrip`: whatever `chars().next()` returns is a scalar value and the bytes
consumed are its encoding -/
theorem utf8_roundtrip_inv (d : Bytes) (c n : Nat) (h : decodeChar d = some (c, n)) :
    isScalar c = true ∧ d = encodeChar c ++ d.drop n := decodeChar_inv h

/-- C11.w  a well-formed string literal followed by ANY text: the first call of `next()` yields the string
token with the denoted text and leaves exactly the rest -/
theorem str_lit_then (items : List StrItem) (hok : ∀ it ∈ items, it.Ok) (rest : Bytes) (hrest : Utf8 rest) :
    nextToken ⟨34 :: renderAll items ++ 34 :: rest, false, 1, 1⟩ =
      .tok ⟨1, 1, .str (denoteAll items)⟩
        ⟨rest, false, (Pos.of (34 :: renderAll items ++ [34])).1, (Pos.of (34 :: renderAll items ++ [34])).2⟩ := by
  rw [nextToken_doNext _ 34 (renderAll items ++ 34 :: rest) (by simp) (by decide) (by decide),
    doNext_string _ 34 (renderAll items ++ 34 :: rest) (by simp) (by decide),
    lexString_items items hok rest hrest, Pos.of_eq_adv]

/-- C11.x  **Dichotomy: the reject classes are exhaustive.** For EVERY well-formed UTF-8 text after an opening
quote: either it begins with a well-formed body and its closing quote (then `str_lit_then` gives the token), or
the whole input is the single error `BadString` at 1:1 with no token. In particular every body without an
unescaped closing quote is rejected. -/
theorem str_dichotomy (body : Bytes) (hu : Utf8 body) :
    (∃ items rest, (∀ it ∈ items, StrItem.Ok it) ∧ Utf8 rest ∧ body = renderAll items ++ 34 :: rest) ∨
    tokens (34 :: body) = .ok ⟨[], some ⟨1, 1, .badString⟩, 1, 1⟩ := by
  rcases bodyCases_all body.length body (Nat.le_refl _) hu with h | ⟨items, tail, h1, h2, h3, h4, rfl⟩
  · exact .inl h
  · exact .inr (str_reject items h1 tail h2 h3 h4)

/-! non-vacuity: items of every kind, multi-byte characters, both payload routes, each reject class -/
example : RawChar 0x20AC ∧ RawChar 0x1F600 ∧ RawChar 9 ∧ ¬ RawChar 92 ∧ ¬ RawChar 127 := by
  refine ⟨⟨rfl, by omega⟩, ⟨rfl, by omega⟩, ⟨rfl, by omega⟩, ?_, ?_⟩ <;> (intro ⟨_, h⟩; omega)
example : encodeChar 0x20AC = [0xE2, 0x82, 0xAC] ∧ encodeChar 0x1F600 = [0xF0, 0x9F, 0x98, 0x80] := by decide
example : tokens [39, 0xE2, 0x82, 0xAC, 39] = .ok ⟨[⟨1, 1, .num 0x20AC⟩], none, 1, 4⟩ := by decide +kernel
example : (StrItem.uni (bytesOf "1F600")).Ok ∧ (StrItem.uni (bytesOf "e9")).Ok ∧ (StrItem.esc 110).Ok ∧ (StrItem.raw 0xE9).Ok := by
  refine ⟨⟨by decide, by decide, by decide, by decide⟩, ⟨by decide, by decide, by decide, by decide⟩, ?_, ⟨rfl, by omega⟩⟩
  show (escValue 110).isSome = true
  decide
example : renderAll [.raw 97, .esc 110, .raw 0xE9, .uni (bytesOf "20AC")] =
    bytesOf "a\\n" ++ [0xC3, 0xA9] ++ bytesOf "\\u{20AC}" := by decide
example : denoteAll [.raw 97, .esc 110, .raw 0xE9, .uni (bytesOf "20AC")] =
    [97, 10, 0xC3, 0xA9, 0xE2, 0x82, 0xAC] := by decide
example : ¬ HexOk (bytesOf "D800") ∧ ¬ HexOk (bytesOf "110000") ∧ ¬ HexOk (bytesOf "+41") ∧ ¬ HexOk [] ∧ ¬ HexOk (bytesOf "4G") := by
  refine ⟨?_, ?_, ?_, ?_, ?_⟩ <;> intro ⟨h1, h2, h3, h4⟩
  · revert h4; decide
  · revert h4; decide
  · exact absurd (h3 43 (by decide)) (by decide)
  · exact h1 rfl
  · exact absurd (h3 71 (by decide)) (by decide)
example : isRawStrByte 9 = true ∧ isRawStrByte 126 = true ∧ isRawStrByte 34 = false ∧ isRawStrByte 10 = false := by
  decide
example : tokens (bytesOf "\"a\tb c\"") = .ok ⟨[⟨1, 1, .str (bytesOf "a\tb c")⟩], none, 1, 8⟩ := by decide

end Trion.Lex
