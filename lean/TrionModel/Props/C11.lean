import TrionModel.Lemmas.LexLit
/-!
# C11 — literals denote exactly the written value

`radixPrefix r` is what selects radix `r` (nothing, `0b`, `0o`, `0x` — lower case only, as in the code);
`isDigit r b` is `char::is_digit(r)` of the byte (decimal digits and letters of either case below `r`);
`valueFrom r ds 0` is positional notation: `ds.foldl (fun a b => a * r + digit b) 0`.
Quantifying over all digit strings `ds` covers every digit case and any number of leading zeros.
-/
namespace Trion.Lex

/-- what the tokenizer yields for a digit string after a radix prefix: one number token when
`i64::from_str_radix` accepts the digits, otherwise the single error `BadNumber` at 1:1 -/
theorem number_tokens (r : Nat) (hr : r = 2 ∨ r = 8 ∨ r = 10 ∨ r = 16) (ds : Bytes)
    (hds : ∀ b ∈ ds, isDigit r b = true) (hne : r = 10 → ds ≠ []) :
    tokens (radixPrefix r ++ ds) = match i64FromStrRadix ds r with
      | some v => .ok ⟨[⟨1, 1, .num v⟩], none, 1, 1 + (radixPrefix r ++ ds).length⟩
      | none => .ok ⟨[], some ⟨1, 1, .badNumber⟩, 1, 1⟩ := by
  have hpfx : ∀ b ∈ radixPrefix r, b.toNat < 128 := by
    intro b hb
    rcases hr with rfl | rfl | rfl | rfl <;> simp [radixPrefix] at hb
    all_goals (rcases hb with rfl | rfl <;> decide)
  have hascii : ∀ b ∈ radixPrefix r ++ ds, b.toNat < 128 := by
    intro b hb
    simp at hb
    rcases hb with hb | hb
    · exact hpfx b hb
    · exact (isDigit_ascii (hds b hb)).1
  -- the text starts with a decimal digit
  obtain ⟨b0, tl, hd, h0⟩ : ∃ b0 tl, radixPrefix r ++ ds = b0 :: tl ∧ 48 ≤ b0.toNat ∧ b0.toNat ≤ 57 := by
    rcases hr with rfl | rfl | rfl | rfl
    · exact ⟨48, 98 :: ds, by simp [radixPrefix], by decide⟩
    · exact ⟨48, 111 :: ds, by simp [radixPrefix], by decide⟩
    · cases ds with
      | nil => exact absurd rfl (hne rfl)
      | cons a ds' => exact ⟨a, ds', by simp [radixPrefix], isDigit10_range (hds a (by simp))⟩
    · exact ⟨48, 120 :: ds, by simp [radixPrefix], by decide⟩
  have hdet := prefix_detect r hr ds [] hds hne (by intro _ b hb; simp at hb)
  simp only [List.append_nil] at hdet
  unfold tokens
  rw [new_ascii _ hascii]
  have hlex := lexNumber_exact ⟨radixPrefix r ++ ds, false, 1, 1⟩ (radixPrefix r) ds [] r (by simp)
    (by simpa using hdet.1) (by simpa using hdet.2) hds
    (by intro b hb
        cases ds with
        | nil => simp at hb
        | cons a ds' => simp at hb; subst hb; exact isDigit_noncont (hds _ (by simp)))
    (Or.inl ⟨rfl, rfl⟩)
  have hnext := nextToken_number ⟨radixPrefix r ++ ds, false, 1, 1⟩ b0 tl hd h0
  rw [hlex] at hnext
  rw [show (radixPrefix r ++ ds).length + 2 = ((radixPrefix r ++ ds).length + 1) + 1 by omega, run, hnext]
  cases i64FromStrRadix ds r with
  | none => simp [fail, State.clear]
  | some v =>
    simp only
    rw [run, nextToken_ended]
    simp [Out.push]

theorem i64FromStrRadix_eq (r : Nat) (hr : 1 ≤ r) (ds : Bytes) (hne : ds ≠ []) (hds : ∀ b ∈ ds, isDigit r b = true) :
    i64FromStrRadix ds r =
      if valueFrom r ds 0 < 2 ^ 63 then some (Int.ofNat (valueFrom r ds 0)) else none := by
  cases ds with
  | nil => exact absurd rfl hne
  | cons a ds' =>
    simp only [i64FromStrRadix]
    rw [parseDigits_eq r _ hr _ 0 hds (by omega)]
    by_cases h : valueFrom r (a :: ds') 0 < 2 ^ 63
    · have : valueFrom r (a :: ds') 0 ≤ 9223372036854775807 := by omega
      simp [h, this]
    · have : ¬ valueFrom r (a :: ds') 0 ≤ 9223372036854775807 := by omega
      simp [h, this]

/-- C11.a `int_lit`  Every integer literal below 2^63 — radix 2, 8, 10 or 16, digits in either letter
case, any number of leading zeros — yields exactly one number token carrying the value written, at 1:1,
and the stream ends without error at the column after the literal. -/
theorem int_lit (r : Nat) (hr : r = 2 ∨ r = 8 ∨ r = 10 ∨ r = 16) (ds : Bytes) (hne : ds ≠ [])
    (hds : ∀ b ∈ ds, isDigit r b = true) (hv : valueFrom r ds 0 < 2 ^ 63) :
    tokens (radixPrefix r ++ ds) =
      .ok ⟨[⟨1, 1, .num (Int.ofNat (valueFrom r ds 0))⟩], none, 1, 1 + (radixPrefix r ++ ds).length⟩ := by
  rw [number_tokens r hr ds hds (fun _ => hne), i64FromStrRadix_eq r (by omega) ds hne hds]
  simp [hv]

/-- C11.b `int_big`  A literal of 2^63 or more is rejected with `BadNumber`, never wrapped. -/
theorem int_big (r : Nat) (hr : r = 2 ∨ r = 8 ∨ r = 10 ∨ r = 16) (ds : Bytes) (hne : ds ≠ [])
    (hds : ∀ b ∈ ds, isDigit r b = true) (hv : 2 ^ 63 ≤ valueFrom r ds 0) :
    tokens (radixPrefix r ++ ds) = .ok ⟨[], some ⟨1, 1, .badNumber⟩, 1, 1⟩ := by
  rw [number_tokens r hr ds hds (fun _ => hne), i64FromStrRadix_eq r (by omega) ds hne hds]
  have : ¬ valueFrom r ds 0 < 2 ^ 63 := by omega
  simp [this]

/-- C11.c `lit_reject` (prefix without digits)  `0b`, `0o`, `0x` alone are rejected with `BadNumber`. -/
theorem bare_prefix_reject (r : Nat) (hr : r = 2 ∨ r = 8 ∨ r = 16) :
    tokens (radixPrefix r) = .ok ⟨[], some ⟨1, 1, .badNumber⟩, 1, 1⟩ := by
  have := number_tokens r (by omega) [] (by simp) (by omega)
  simpa [i64FromStrRadix] using this

-- non-vacuity: digit strings with these properties exist in every radix, both cases, leading zeros
example : isDigit 16 70 = true ∧ isDigit 16 102 = true ∧ isDigit 8 56 = false ∧ isDigit 2 49 = true := by decide
example : valueFrom 16 (bytesOf "00fF") 0 = 255 := by decide
example : tokens (bytesOf "0x00fF") = .ok ⟨[⟨1, 1, .num 255⟩], none, 1, 7⟩ := by decide
example : tokens (bytesOf "9223372036854775807") = .ok ⟨[⟨1, 1, .num 9223372036854775807⟩], none, 1, 20⟩ := by decide
example : tokens (bytesOf "9223372036854775808") = .ok ⟨[], some ⟨1, 1, .badNumber⟩, 1, 1⟩ := by decide
example : tokens (bytesOf "0x") = .ok ⟨[], some ⟨1, 1, .badNumber⟩, 1, 1⟩ := by decide

end Trion.Lex

namespace Trion.Lex

/-- C11.d `char_lit` (one-byte characters)  `'c'` for every ASCII character that may be written raw —
TAB and the printable characters other than the backslash (the apostrophe included: `'''`) — yields the
number `c`. -/
theorem char_lit_ascii : ∀ n, n < 256 → (n = 9 ∨ (32 ≤ n ∧ n ≤ 126 ∧ n ≠ 92)) →
    tokens [39, n.toUInt8, 39] = .ok ⟨[⟨1, 1, .num (Int.ofNat n)⟩], none, 1, 4⟩ := by
  decide +kernel

/-- C11.e `char_lit` (escapes)  `'\t' '\n' '\r' '\"' '\'' '\\'` yield 9, 10, 13, 34, 39, 92. -/
theorem char_lit_escape :
    ∀ p ∈ [(116, 9), (110, 10), (114, 13), (34, 34), (39, 39), (92, 92)],
      tokens [39, 92, (p.1 : Nat).toUInt8, 39] = .ok ⟨[⟨1, 1, .num (Int.ofNat p.2)⟩], none, 1, 5⟩ := by
  decide +kernel

/-- C11.f `lit_reject` (characters)  Any other single ASCII byte between apostrophes — control
characters, DEL, the lone backslash — and any escape letter other than the six above is rejected with
`BadCharacter` and no token. -/
theorem char_reject_ascii : ∀ n, n < 128 → ¬ (n = 9 ∨ (32 ≤ n ∧ n ≤ 126 ∧ n ≠ 92)) →
    tokens [39, n.toUInt8, 39] = .ok ⟨[], some ⟨1, 1, .badCharacter⟩, 1, 1⟩ := by
  decide +kernel

theorem char_reject_escape : ∀ n, n < 128 → n ∉ [116, 110, 114, 34, 39, 92] →
    tokens [39, 92, n.toUInt8, 39] = .ok ⟨[], some ⟨1, 1, .badCharacter⟩, 1, 1⟩ := by
  decide +kernel

/-- C11.g `str_lit` (each escape)  `"\0" "\t" "\n" "\r" "\"" "\'" "\\"` yield the one-character strings
NUL, TAB, LF, CR, `"`, `'`, `\`. -/
theorem str_lit_escape :
    ∀ p ∈ [(48, 0), (116, 9), (110, 10), (114, 13), (34, 34), (39, 39), (92, 92)],
      tokens [34, 92, (p.1 : Nat).toUInt8, 34] = .ok ⟨[⟨1, 1, .str [(p.2 : Nat).toUInt8]⟩], none, 1, 5⟩ := by
  decide +kernel

/-- C11.h `lit_reject` (strings)  An unknown escape letter, and a raw control character or DEL inside a
string, are rejected with `BadString` and no token. -/
theorem str_reject_escape : ∀ n, n < 128 → n ∉ [48, 116, 110, 114, 34, 39, 92, 117] →
    tokens [34, 92, n.toUInt8, 34] = .ok ⟨[], some ⟨1, 1, .badString⟩, 1, 1⟩ := by
  decide +kernel

theorem str_reject_control : ∀ n, n < 128 → (n < 32 ∧ n ≠ 9) ∨ n = 127 →
    tokens [34, 97, n.toUInt8, 98, 34] = .ok ⟨[], some ⟨1, 1, .badString⟩, 1, 1⟩ := by
  decide +kernel

/-- C11.i `lit_reject` (witnesses for the remaining classes)  missing closing quote; surrogate,
out-of-range, non-hex, empty, signed and over-long `\u{…}`; `\u` without brace; and one accepted
`\u{…}` in each digit case for contrast. -/
theorem lit_reject_witnesses :
    tokens (bytesOf "\"abc") = .ok ⟨[], some ⟨1, 1, .badString⟩, 1, 1⟩ ∧
    tokens (bytesOf "'a") = .ok ⟨[], some ⟨1, 1, .badCharacter⟩, 1, 1⟩ ∧
    tokens (bytesOf "\"\\u{D800}\"") = .ok ⟨[], some ⟨1, 1, .badString⟩, 1, 1⟩ ∧
    tokens (bytesOf "\"\\u{dfff}\"") = .ok ⟨[], some ⟨1, 1, .badString⟩, 1, 1⟩ ∧
    tokens (bytesOf "\"\\u{110000}\"") = .ok ⟨[], some ⟨1, 1, .badString⟩, 1, 1⟩ ∧
    tokens (bytesOf "\"\\u{4G}\"") = .ok ⟨[], some ⟨1, 1, .badString⟩, 1, 1⟩ ∧
    tokens (bytesOf "\"\\u{}\"") = .ok ⟨[], some ⟨1, 1, .badString⟩, 1, 1⟩ ∧
    tokens (bytesOf "\"\\u{+41}\"") = .ok ⟨[], some ⟨1, 1, .badString⟩, 1, 1⟩ ∧
    tokens (bytesOf "\"\\u{-41}\"") = .ok ⟨[], some ⟨1, 1, .badString⟩, 1, 1⟩ ∧
    tokens (bytesOf "\"\\u{0000041}\"") = .ok ⟨[], some ⟨1, 1, .badString⟩, 1, 1⟩ ∧
    tokens (bytesOf "\"\\u41\"") = .ok ⟨[], some ⟨1, 1, .badString⟩, 1, 1⟩ ∧
    tokens (bytesOf "\"\\u{e9}\\u{20AC}\"") = .ok ⟨[⟨1, 1, .str [0xC3, 0xA9, 0xE2, 0x82, 0xAC]⟩], none, 1, 17⟩ := by
  decide +kernel

end Trion.Lex

namespace Trion.Lex

/-- C11.j `str_lit_partial`  A string literal without escapes over TAB and the printable ASCII characters
(other than `"` and `\`), of any length, yields exactly the text between the quotes.

Full statement (`str_lit`), NOT proved in Lean: for every list of Unicode scalar values, rendered with any
mixture of raw UTF-8 (for characters that may be written raw) and the escapes `\0 \t \n \r \" \' \\
\u{hex}`, `tokens ("\"" ++ rendering ++ "\"") = [str (UTF-8 of the scalars)]`. Missing: the induction
over the `strLoop` iterations with the accumulated `escaped` buffer, and `decodeChar (encodeChar c) = c`
for multi-byte `c` (needed for raw multi-byte characters and for `\u{…}`); likewise `char_lit` for
multi-byte characters. These cases are covered by the correspondence run (every scalar value, raw and as
`\u{hex}`, in character and string literals) and by the byte-table theorems above. -/
theorem str_lit_raw_partial (body : Bytes) (hb : ∀ b ∈ body, isRawStrByte b = true) :
    tokens (34 :: body ++ [34]) = .ok ⟨[⟨1, 1, .str body⟩], none, 1, 1 + (body.length + 2)⟩ := by
  have hascii : ∀ b ∈ (34 : UInt8) :: body ++ [34], b.toNat < 128 := by
    intro b hx
    simp at hx
    rcases hx with rfl | hx | rfl
    · decide
    · have := hb b hx
      simp [isRawStrByte] at this
      omega
    · decide
  unfold tokens
  rw [new_ascii _ hascii]
  have hnext : nextToken ⟨34 :: body ++ [34], false, 1, 1⟩ =
      .tok ⟨1, 1, .str body⟩ ⟨[], false, 1, 1 + (body.length + 2)⟩ := by
    unfold nextToken
    rw [skipLoop_none _ ⟨34 :: body ++ [34], false, 1, 1⟩ 34 (body ++ [34]) (by simp) (by decide) (by decide)]
    simp only
    have : (!((34 : UInt8) :: body ++ [34]).isEmpty) = true := by simp
    simp only [this, if_true]
    rw [doNext_string _ 34 (body ++ [34]) (by simp) (by decide), lexString_raw body hb]
  have hrun : ∀ n, run (n + 2) ⟨34 :: body ++ [34], false, 1, 1⟩ =
      .ok ⟨[⟨1, 1, .str body⟩], none, 1, 1 + (body.length + 2)⟩ := by
    intro n
    rw [run, hnext]
    simp only
    rw [run, nextToken_ended]
    simp [Out.push]
  exact hrun _

example : isRawStrByte 9 = true ∧ isRawStrByte 126 = true ∧ isRawStrByte 34 = false ∧ isRawStrByte 10 = false := by
  decide
example : tokens (bytesOf "\"a\tb c\"") = .ok ⟨[⟨1, 1, .str (bytesOf "a\tb c")⟩], none, 1, 8⟩ := by decide

end Trion.Lex
