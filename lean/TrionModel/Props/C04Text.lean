import TrionModel.Lemmas.C04Prog
import TrionModel.Lemmas.C04DiagRun
import TrionModel.Props.C04Closed
/-!
# C04 closed, program level — `.addr A; .const n₁, e₁; …; .const n_k, e_k; <statement>` through `Asm.run`

`progVals A defs name args`: the statements of such a program as element values.  The hypotheses speak about what the
program text parses into (`Asm.parseFile`); C09–C12 tie text, tokens, trees and positions.
-/
namespace Trion.C04
open Trion Trion.Front Trion.Simp

/-- the statements of `.addr A; <defs>; name args` -/
def progVals (A : Nat) (defs : List (Bytes × Arg)) (name : Bytes) (args : Args) : List ElemVal :=
  .directive (bytesOf "addr") (Args.ofList [.const A]) :: (defs.map constStmt ++ [.instruction name args])

/-- C04t.a  **Success direction with definitions.**  For every program text that the tokenizer and parser models read as
`.addr A;`, then `.const` definitions `defs` (each expression may use the earlier names), then ONE instruction statement
`name args`: if the definitions build the table `tbl` (`defsTable defs [] = some tbl`: fresh non-register names,
expressions with a value), the statement MEANS `i` over that table, `i` fits its field types, the encoder accepts it and
the bytes fit below 2^32, then `Asm.run` succeeds, records NO diagnostic, and the image is exactly the encoding of `i`
at `A` — which the ARMv6-M table reads as `i`. -/
theorem run_defs_stmt (fs : Bytes → Option Bytes) (main data : Bytes) (hfs : fs main = some data)
    (els : List Element) (hp : Asm.parseFile data = .ok (els, none)) (A : Nat) (defs : List (Bytes × Arg))
    (name : Bytes) (args : Args) (hels : els.map (·.val) = progVals A defs name args)
    (tbl : Asm.Table) (hdefs : defsTable defs [] = some tbl)
    (i : Instr) (hmeans : means (tabOf tbl) A name args.toList = some i) (hwf : i.wf)
    (hws : List Nat) (he : Codec.encode i = .ok hws) (hfit : A + 2 * hws.length ≤ 4294967296) :
    Asm.run fs main = .done ⟨true, none, true, [], [(A, (Codec.toBytes hws).map (·.toUInt8))]⟩ ∧
    Arm.decode hws = some i := by
  have hlen := (Codec.enc_len i hws he hwf).1
  have ha : A < 4294967296 := by omega
  have hblen : ((Codec.toBytes hws).map (·.toUInt8)).length = 2 * hws.length := by simp [Asm.toBytes_length]
  simp only [progVals] at hels
  obtain ⟨e1, r1, rfl, h1, hr1⟩ := List.map_eq_cons_iff.mp hels
  obtain ⟨mid, last, rfl, hmid, hlast⟩ := List.map_eq_append_iff.mp hr1
  obtain ⟨e2, r2, rfl, h2, hr2⟩ := List.map_eq_cons_iff.mp hlast
  have : r2 = [] := by simpa using hr2
  subst this
  obtain ⟨l1, c1, v1⟩ := e1
  obtain ⟨l2, c2, v2⟩ := e2
  simp only at h1 h2
  subst h1 h2
  let inc := Asm.assembleFile fs Asm.encoder (Asm.maxDepth - 1)
  let env : Asm.Env := ⟨[main], main⟩
  let seg : Seg.Active := ⟨A, [] ++ (Codec.toBytes hws).map (·.toUInt8), Map.u32Max - A + 1⟩
  have haddr : Asm.statement fs Asm.encoder inc env
        ⟨Seg.init, [], some [], [], some [], []⟩ ⟨l1, c1, .directive (bytesOf "addr") (Args.ofList [.const A])⟩ =
      .ok (⟨⟨[], some ⟨A, [], Map.u32Max - A + 1⟩, []⟩, [], some [], [], some [], []⟩, .ok) := by
    have := Asm.addr_ok fs inc env
      ⟨Seg.init, [], some [], [], some [], []⟩ [] (by simp [env]) rfl rfl l1 c1 (A : Int) (by omega) (by omega)
    simp only [Asm.statement, Show.toList_ofList, this]
    simp
  obtain ⟨hdefsrun, hnd⟩ := doAssemble_defs fs Asm.encoder inc env (by simp [env]) defs mid
    [⟨l2, c2, .instruction name args⟩] none
    ⟨⟨[], some ⟨A, [], Map.u32Max - A + 1⟩, []⟩, [], some [], [], some [], []⟩ [] tbl hmid rfl
    (by intro n; simp [Asm.Table.find]) hdefs
  have hinstr := (stmt_placed fs inc env
      ⟨⟨[], some ⟨A, [], Map.u32Max - A + 1⟩, []⟩, [], some tbl, [], some [], []⟩ tbl
      hnd (by simp [env]) rfl l2 c2 name args [] ⟨A, [], Map.u32Max - A + 1⟩ [] rfl i
      (by rw [Show.cur_empty A _ ha]; exact hmeans) hwf hws he (by simp only [List.length_nil, Map.u32Max]; omega))
  have key : Asm.doAssemble fs Asm.encoder inc env
      (⟨l1, c1, .directive (bytesOf "addr") (Args.ofList [.const A])⟩ :: (mid ++ [⟨l2, c2, .instruction name args⟩])) none
      ⟨Seg.init, [], some [], [], some [], []⟩ =
      .ok (⟨⟨[], some seg, [(A, ((Codec.toBytes hws).map (·.toUInt8)).length)]⟩, [], some tbl, [], some [], []⟩, .ok) := by
    simp only [Asm.doAssemble]
    rw [haddr]
    simp only
    rw [hdefsrun]
    simp only [Asm.doAssemble]
    rw [hinstr.1, Show.cur_empty A _ ha, hblen]
  have hrun := Asm.run_of_statements fs main data hfs _ hp tbl seg
    [(A, ((Codec.toBytes hws).map (·.toUInt8)).length)] key
    (by
      intro e
      have e' : (([] : Bytes) ++ (Codec.toBytes hws).map (·.toUInt8)) = [] := e
      have := congrArg List.length e'
      simp only [List.nil_append, hblen, List.length_nil] at this
      omega)
    (by show A + (([] : Bytes) ++ (Codec.toBytes hws).map (·.toUInt8)).length ≤ 4294967296
        simp only [List.nil_append, hblen]; exact hfit)
  exact ⟨by simpa [seg] using hrun, hinstr.2⟩

/-- non-vacuity: `.addr 0x20000200; .const base, 0x20000000; .const label, base + 0x100; B label;` -/
def exDefs : List (Bytes × Arg) :=
  [(bytesOf "base", .const 0x20000000), (bytesOf "label", .bin .add (.ident (bytesOf "base")) (.const 0x100))]
example : defsTable exDefs [] = some [(bytesOf "base", some 0x20000000), (bytesOf "label", some 0x20000100)] ∧
    means (tabOf [(bytesOf "base", some 0x20000000), (bytesOf "label", some 0x20000100)]) 0x20000200 (bytesOf "B")
      (Args.ofList [.ident (bytesOf "label")]).toList = some (.b 14 (-260)) ∧
    Codec.encode (.b 14 (-260)) = .ok [0xE77E] := by
  refine ⟨by decide, by decide, rfl⟩

/-- the diagnosed direction for any statement of which the pipeline's instruction statement is known to record a
diagnostic (`hK`); instantiated below for statements without an encodable meaning and for unknown mnemonics -/
theorem run_defs_stmt_diag_of (fs : Bytes → Option Bytes) (main data : Bytes) (hfs : fs main = some data)
    (els : List Element) (hp : Asm.parseFile data = .ok (els, none)) (A : Nat) (hA : A < 4294967296)
    (defs : List (Bytes × Arg)) (name : Bytes) (args : Args) (hels : els.map (·.val) = progVals A defs name args)
    (tbl : Asm.Table) (hdefs : defsTable defs [] = some tbl)
    (hK : ∀ (l c : Nat) (st' : Asm.St) (r : Asm.Res), Asm.Table.NoDef tbl → tblI64 tbl →
      Asm.instruction Asm.encoder ⟨[main], main⟩
        ⟨⟨[], some ⟨A, [], Map.u32Max - A + 1⟩, []⟩, [], some tbl, [], some [], []⟩ l c name args.toList = .ok (st', r) →
      1 ≤ st'.errors.length) :
    ∃ el o, el ∈ els ∧ el.val = .instruction name args ∧ Asm.run fs main = .done o ∧ o.success = false ∧ o.diags ≠ [] ∧
      ∀ d ∈ o.diags, d.file = main ∧ d.line = el.line ∧ d.col = el.col := by
  simp only [progVals] at hels
  obtain ⟨e1, r1, rfl, h1, hr1⟩ := List.map_eq_cons_iff.mp hels
  obtain ⟨mid, last, rfl, hmid, hlast⟩ := List.map_eq_append_iff.mp hr1
  obtain ⟨e2, r2, rfl, h2, hr2⟩ := List.map_eq_cons_iff.mp hlast
  have : r2 = [] := by simpa using hr2
  subst this
  obtain ⟨l1, c1, v1⟩ := e1
  obtain ⟨l2, c2, v2⟩ := e2
  simp only at h1 h2
  subst h1 h2
  refine ⟨⟨l2, c2, .instruction name args⟩, ?_⟩
  let inc := Asm.assembleFile fs Asm.encoder (Asm.maxDepth - 1)
  let env : Asm.Env := ⟨[main], main⟩
  let S0 : Asm.St := ⟨⟨[], some ⟨A, [], Map.u32Max - A + 1⟩, []⟩, [], some tbl, [], some [], []⟩
  have haddr : Asm.statement fs Asm.encoder inc env init2 ⟨l1, c1, .directive (bytesOf "addr") (Args.ofList [.const A])⟩ =
      .ok (⟨⟨[], some ⟨A, [], Map.u32Max - A + 1⟩, []⟩, [], some [], [], some [], []⟩, .ok) := by
    have := Asm.addr_ok fs inc env init2 [] (by simp [env]) rfl rfl l1 c1 (A : Int) (by omega) (by omega)
    simp only [Asm.statement, Show.toList_ofList, this]
    simp [init2]
  obtain ⟨hdefsrun, hnd⟩ := doAssemble_defs fs Asm.encoder inc env (by simp [env]) defs mid
    [⟨l2, c2, .instruction name args⟩] none
    ⟨⟨[], some ⟨A, [], Map.u32Max - A + 1⟩, []⟩, [], some [], [], some [], []⟩ [] tbl hmid rfl
    (by intro n; simp [Asm.Table.find]) hdefs
  have hi64 : tblI64 tbl := defsTable_i64 defs [] tbl (by intro n v h; simp [Asm.Table.find] at h) hdefs
  have hstmt : Asm.statement fs Asm.encoder inc env S0 ⟨l2, c2, .instruction name args⟩ =
      Asm.instruction Asm.encoder env S0 l2 c2 name args.toList := by simp [Asm.statement, S0]
  have hdo : Asm.doAssemble fs Asm.encoder inc env
      (⟨l1, c1, .directive (bytesOf "addr") (Args.ofList [.const A])⟩ :: (mid ++ [⟨l2, c2, .instruction name args⟩])) none init2 =
      match Asm.instruction Asm.encoder env S0 l2 c2 name args.toList with
      | .ok (st', .ok) => .ok (st', .ok)
      | .ok (st', .err lv) => .ok (st', .err lv)
      | .stop s => .stop s := by
    simp only [Asm.doAssemble]
    rw [haddr]
    simp only
    rw [hdefsrun]
    simp only [Asm.doAssemble]
    rw [hstmt]
    cases Asm.instruction Asm.encoder env S0 l2 c2 name args.toList with
    | ok p => obtain ⟨st', r⟩ := p; cases r <;> rfl
    | stop s => rfl
  have hfb := fileBody_eq fs inc env data init2 _ hp
  rw [hdo] at hfb
  have hcur : S0.seg.active.map Seg.Active.cur = some A := by simp [S0, Show.cur_empty A _ hA]
  have hp0 : PAt main l2 c2 S0 := ⟨fun d hd => by simp [S0] at hd, fun t ht => by simp [S0] at ht,
    fun q hq t ht => by simp [S0] at hq; subst hq; simp at ht⟩
  cases hX : Asm.instruction Asm.encoder env S0 l2 c2 name args.toList with
  | stop s =>
    rw [hX] at hfb
    simp only at hfb
    have := body_stop_fuel fs main data hfs s hfb
    subst this
    exact absurd hX (Asm.instruction_nf _ _ _ _ _ _ _)
  | ok p =>
    obtain ⟨st1, r1⟩ := p
    have herr1 : 1 ≤ st1.errors.length := hK l2 c2 st1 r1 hnd hi64 hX
    have hp1 : PAt main l2 c2 st1 :=
      pat_of_eff hp0 (Asm.instruction_eff (env := env) _ _ hX) (Asm.instruction_quiet _ _ hX)
    rw [hX] at hfb
    have hfin : ∀ (st4 : Asm.St) (r : Asm.Res), Asm.fileBody fs Asm.encoder inc env data init2 = .ok (st4, r) →
        1 ≤ st4.errors.length → PAt main l2 c2 st4 → _ := fun st4 r hb he hpt =>
      run_of_body fs main data hfs l2 c2 st4 r hb he hpt
    have hgoal : ∃ o, Asm.run fs main = .done o ∧ o.success = false ∧ o.diags ≠ [] ∧ ∀ d ∈ o.diags, d.at main l2 c2 := by
      by_cases hfat : r1 = .err .fatal
      · subst hfat
        simp only [if_true] at hfb
        exact hfin st1 _ hfb herr1 hp1
      · have hr1 : (if r1 = Asm.Res.err Asm.Level.fatal then (Asm.Out.ok (st1, r1) : Asm.Out (Asm.St × Asm.Res)) else
              match st1.localTasks with
              | none => .stop .panic
              | some tasks => Asm.localLoop Asm.encoder env Asm.rounds tasks { st1 with localTasks := some [] } r1) =
            (match st1.localTasks with
              | none => .stop .panic
              | some tasks => Asm.localLoop Asm.encoder env Asm.rounds tasks { st1 with localTasks := some [] } r1) := if_neg hfat
        have hfb1 : Asm.fileBody fs Asm.encoder inc env data init2 =
            (match st1.localTasks with
              | none => .stop .panic
              | some tasks => Asm.localLoop Asm.encoder env Asm.rounds tasks { st1 with localTasks := some [] } r1) := by
          rw [hfb, ← hr1]; cases r1 <;> rfl
        cases hlt : st1.localTasks with
        | none =>
          rw [hlt] at hfb1
          have := body_stop_fuel fs main data hfs _ hfb1
          cases this
        | some tasks =>
          rw [hlt] at hfb1
          simp only at hfb1
          cases hY : Asm.localLoop Asm.encoder env Asm.rounds tasks { st1 with localTasks := some [] } r1 with
          | stop s =>
            rw [hY] at hfb1
            have := body_stop_fuel fs main data hfs s hfb1
            subst this
            exact absurd hY (Asm.localLoop_nf _ _ _ _ _ _)
          | ok q =>
            obtain ⟨st2, r2⟩ := q
            rw [hY] at hfb1
            have hg := (Asm.localLoop_grew _ _ _ _ _ _ hY).1
            have hp2 : PAt main l2 c2 st2 := localLoop_pat Asm.rounds tasks _ r1 (hp1.lt tasks hlt)
              (show PAt main l2 c2 ({ st1 with localTasks := some [] } : Asm.St) from ⟨hp1.errs, hp1.gt, fun q hq t ht => by
                have hq' : (some ([] : List Asm.Task)) = some q := hq
                cases hq'; cases ht⟩) _ _ hY
            exact hfin st2 r2 hfb1 (by simp only at hg; omega) hp2
    obtain ⟨o, h1, h2, h3, h4⟩ := hgoal
    exact ⟨o, by simp, rfl, h1, h2, h3, fun d hd => h4 d hd⟩

/-- C04t.b  **Diagnosed direction through the whole pipeline model.**  Same programs as `run_defs_stmt`
(`.addr A;`, definitions building `tbl`, ONE instruction statement `name args` with a known mnemonic and operands of the
documented forms over defined names): if the statement has NO encodable meaning — `means` is `none` (wrong operand count
or kind, overflow, target not an address, …), or the instruction does not fit its field types, or the encoder refuses it
(out of range, misaligned, high register, …) — then `Asm.run` ends in an outcome that is NOT a success, records at least
one diagnostic, and EVERY recorded diagnostic is positioned at the statement: file `main`, line and column of the
statement's element (by C12 `Parse.stmt_pos` the position of its first token).  This covers the first attempt, the
placeholder, the queued retry (`local_tasks`, then `finalize`): whatever they do, nothing is reported elsewhere and the
run does not succeed. -/
theorem run_defs_stmt_diag (fs : Bytes → Option Bytes) (main data : Bytes) (hfs : fs main = some data)
    (els : List Element) (hp : Asm.parseFile data = .ok (els, none)) (A : Nat) (hA : A < 4294967296)
    (defs : List (Bytes × Arg)) (name : Bytes) (args : Args) (hels : els.map (·.val) = progVals A defs name args)
    (tbl : Asm.Table) (hdefs : defsTable defs [] = some tbl)
    (t : Instr) (hm : mnemonic name = some t) (hw : wellFormed (tabOf tbl) (sig t) args.toList)
    (hq : ∀ vs, denoteAll (tabOf tbl) (sig t) args.toList = some vs → ¬ svQuirk t vs)
    (hno : ∀ i hws, ¬ (means (tabOf tbl) A name args.toList = some i ∧ i.wf ∧ Codec.encode i = .ok hws)) :
    ∃ el o, el ∈ els ∧ el.val = .instruction name args ∧ Asm.run fs main = .done o ∧ o.success = false ∧ o.diags ≠ [] ∧
      ∀ d ∈ o.diags, d.file = main ∧ d.line = el.line ∧ d.col = el.col := by
  refine run_defs_stmt_diag_of fs main data hfs els hp A hA defs name args hels tbl hdefs ?_
  intro l c st' r hnd hi64 hX
  have := instr_diag ⟨[main], main⟩ ⟨⟨[], some ⟨A, [], Map.u32Max - A + 1⟩, []⟩, [], some tbl, [], some [], []⟩ tbl hnd hi64
    (by simp) rfl [] ⟨A, [], Map.u32Max - A + 1⟩ [] rfl l c name args.toList t hm hw hq
    (by rw [Show.cur_empty A _ hA]; exact hno) st' r hX
  simpa using this

/-- C04t.b'  **Unknown mnemonic.**  Same programs with a statement whose mnemonic is not in the table (in any letter case,
`Front.mnemonic name = none`): `Asm.run` does not succeed, records at least one diagnostic (`InstrErrorKind::NotFound`),
and every diagnostic is at the statement. -/
theorem run_defs_stmt_unknown (fs : Bytes → Option Bytes) (main data : Bytes) (hfs : fs main = some data)
    (els : List Element) (hp : Asm.parseFile data = .ok (els, none)) (A : Nat) (hA : A < 4294967296)
    (defs : List (Bytes × Arg)) (name : Bytes) (args : Args) (hels : els.map (·.val) = progVals A defs name args)
    (tbl : Asm.Table) (hdefs : defsTable defs [] = some tbl) (hm : mnemonic name = none) :
    ∃ el o, el ∈ els ∧ el.val = .instruction name args ∧ Asm.run fs main = .done o ∧ o.success = false ∧ o.diags ≠ [] ∧
      ∀ d ∈ o.diags, d.file = main ∧ d.line = el.line ∧ d.col = el.col := by
  refine run_defs_stmt_diag_of fs main data hfs els hp A hA defs name args hels tbl hdefs ?_
  intro l c st' r _ _ hX
  simp only [Asm.instruction, Asm.currAddr, Option.map_some, hm] at hX
  cases hX
  simp [Asm.St.push, Asm.St.pushIn]

/-- C04t.b''  **Every statement that is not assembled is diagnosed at its own position**: `run_defs_stmt_diag` and
`run_defs_stmt_unknown` together — the hypothesis is only that the statement has no encodable meaning (`means` is `none`
also for an unknown mnemonic), and, IF the mnemonic is known, that the operands are of the documented forms. -/
theorem run_defs_stmt_diag_any (fs : Bytes → Option Bytes) (main data : Bytes) (hfs : fs main = some data)
    (els : List Element) (hp : Asm.parseFile data = .ok (els, none)) (A : Nat) (hA : A < 4294967296)
    (defs : List (Bytes × Arg)) (name : Bytes) (args : Args) (hels : els.map (·.val) = progVals A defs name args)
    (tbl : Asm.Table) (hdefs : defsTable defs [] = some tbl)
    (hw : ∀ t, mnemonic name = some t → wellFormed (tabOf tbl) (sig t) args.toList ∧
      ∀ vs, denoteAll (tabOf tbl) (sig t) args.toList = some vs → ¬ svQuirk t vs)
    (hno : ∀ i hws, ¬ (means (tabOf tbl) A name args.toList = some i ∧ i.wf ∧ Codec.encode i = .ok hws)) :
    ∃ el o, el ∈ els ∧ el.val = .instruction name args ∧ Asm.run fs main = .done o ∧ o.success = false ∧ o.diags ≠ [] ∧
      ∀ d ∈ o.diags, d.file = main ∧ d.line = el.line ∧ d.col = el.col := by
  cases hm : mnemonic name with
  | none => exact run_defs_stmt_unknown fs main data hfs els hp A hA defs name args hels tbl hdefs hm
  | some t =>
    exact run_defs_stmt_diag fs main data hfs els hp A hA defs name args hels tbl hdefs t hm (hw t hm).1 (hw t hm).2 hno

/-- non-vacuity of `run_defs_stmt_diag`: `ADDS R1, R1, 300` and `ADDS R1, 300` have no encodable meaning, with known
mnemonic and well-formed operands -/
example : mnemonic (bytesOf "ADDS") = some (.add true 0 0 (.imm 0)) ∧
    wellFormed (tabOf []) (sig (.add true 0 0 (.imm 0))) [.ident (bytesOf "R1"), .ident (bytesOf "R1"), .const 300] ∧
    means (tabOf []) 0 (bytesOf "ADDS") [.ident (bytesOf "R1"), .ident (bytesOf "R1"), .const 300] = some (.add true 1 1 (.imm 300)) ∧
    Codec.encode (.add true 1 1 (.imm 300)) = .error .unrepresentable ∧
    means (tabOf []) 0 (bytesOf "ADDS") [.ident (bytesOf "R1"), .const 300] = none := by
  refine ⟨by decide, ⟨fun h => by simp [evaluated] at h, fun h => by simp [evaluated] at h,
    fun _ => ⟨by decide, by decide, by decide⟩, trivial⟩, by decide, rfl, by decide⟩

/-! ## program TEXT (canonical spelling of the statement) -/

/-- the statements in front of the instruction, as (directive name, operands) -/
def preStmts (A : Nat) (defs : List (Bytes × Arg)) : List (Bytes × List Arg) :=
  (bytesOf "addr", [.const A]) :: defs.map fun d => (bytesOf "const", [.ident d.1, d.2])

/-- the program text `.addr <A>;⏎ .const <n>, <v>;⏎ … <NAME a, b, c;>` with every statement in the concrete syntax
`Show.render` (mnemonic and names as given — any letter case, any alias —, decimal integers, `[x + y]`, `{a, b}`) -/
def progText (A : Nat) (defs : List (Bytes × Arg)) (name : Bytes) (args : List Arg) : Bytes :=
  ((preStmts A defs).map fun p => bytesOf "." ++ Show.render p ++ [10]).flatten ++ Show.render (name, args)

/-- C04t.c  **The tokenizer and the parser read the program text as the program** (`_partial` for the framing lemma, see
the header: only statements whose operands are names, non-negative decimal integers, `[x + y]` and `{…}` of those
(`Show.Opnd`), in the spacing of `Show.render`; `Lex.tokens_pieces`, C09 `Parse.all_of_vals`). -/
theorem parseFile_progText_partial (A : Nat) (hA : A < 4294967296) (defs : List (Bytes × Arg))
    (hdefs : ∀ d ∈ defs, Lex.identOk d.1 = true ∧ Show.Opnd d.2) (name : Bytes) (hn : Lex.identOk name = true)
    (args : List Arg) (hargs : ∀ x ∈ args, Show.Opnd x) :
    ∃ els, Asm.parseFile (progText A defs name args) = .ok (els, none) ∧
      els.map (·.val) = progVals A defs name (Args.ofList args) := by
  have hpre : ∀ p ∈ preStmts A defs, Lex.identOk p.1 = true ∧ ∀ x ∈ p.2, Show.Opnd x := by
    intro p hp
    simp only [preStmts, List.mem_cons, List.mem_map] at hp
    rcases hp with rfl | ⟨d, hd, rfl⟩
    · refine ⟨by dsimp only; decide, ?_⟩
      intro x hx; simp at hx; subst hx
      exact Show.opnd_const _ ⟨by omega, by simp [i64Max]; omega⟩
    · refine ⟨by dsimp only; decide, ?_⟩
      intro x hx; simp at hx
      rcases hx with rfl | rfl
      · exact Show.opnd_ident _ (hdefs d hd).1
      · exact (hdefs d hd).2
  let pieces : List Lex.Piece := ((preStmts A defs).map fun p => Show.dirPieces p ++ [Show.nl]).flatten ++ Show.stmtPieces (name, args)
  let vals : List ElemVal := (preStmts A defs).map (fun p => ElemVal.directive p.1 (Args.ofList p.2)) ++
    [.instruction name (Args.ofList args)]
  have hv : Lex.Valid pieces none := Show.valid_flat _ hpre _ none (Show.valid_stmt (name, args) hn hargs none)
  have hb : Lex.pbytes pieces = progText A defs name args := by
    simp only [pieces, progText, Lex.pbytes_append, Show.pbytes_flat _ (fun p hp => (hpre p hp).2), Show.pbytes_stmt (name, args) hargs]
  have hvals : (Lex.lexed (1, 1) pieces).map (·.val) = (vals.map Render.elemVal).flatten := by
    rw [Lex.lexed_vals]
    simp only [pieces, vals, Lex.tokVals_append, Show.tokVals_flat _ (fun p hp => (hpre p hp).2), Show.tokVals_stmt (name, args) hargs,
      List.map_append, List.flatten_append]
    simp
  have hwf : ∀ ev ∈ vals, ev.wf := by
    intro ev hev
    simp only [vals, List.mem_append, List.mem_map, List.mem_singleton] at hev
    rcases hev with ⟨p, hp, rfl⟩ | rfl
    · exact Show.dir_wf p (hpre p hp).1 (hpre p hp).2
    · exact Show.stmt_wf (name, args) hn hargs
  have hlex := Lex.tokens_pieces _ hv
  rw [hb] at hlex
  obtain ⟨els, hall, hels⟩ := Parse.all_of_vals vals hwf _ hvals
    (Pos.adv (1, 1) (progText A defs name args)).1 (Pos.adv (1, 1) (progText A defs name args)).2
  refine ⟨els, by simp [Asm.parseFile, hlex, hall], ?_⟩
  rw [hels]
  simp [vals, progVals, preStmts, constStmt, List.map_map, Function.comp_def]

/-- C04t.d  **Closed on text, success**: for every statement in the canonical concrete syntax — mnemonic in any letter
case, operands names / decimal integers / `[x + y]` / `{…}` —, in the program TEXT `progText A defs name args`: if the
definitions build `tbl`, the statement means `i`, `i` fits and is encodable and fits below 2^32, then `Asm.run` on that
text succeeds without a diagnostic and places exactly the encoding of `i` at `A`. -/
theorem run_text (fs : Bytes → Option Bytes) (main : Bytes) (A : Nat) (defs : List (Bytes × Arg))
    (hdefsok : ∀ d ∈ defs, Lex.identOk d.1 = true ∧ Show.Opnd d.2) (name : Bytes) (hn : Lex.identOk name = true)
    (args : List Arg) (hargs : ∀ x ∈ args, Show.Opnd x) (hfs : fs main = some (progText A defs name args))
    (tbl : Asm.Table) (hdefs : defsTable defs [] = some tbl)
    (i : Instr) (hmeans : means (tabOf tbl) A name args = some i) (hwf : i.wf)
    (hws : List Nat) (he : Codec.encode i = .ok hws) (hfit : A + 2 * hws.length ≤ 4294967296) :
    Asm.run fs main = .done ⟨true, none, true, [], [(A, (Codec.toBytes hws).map (·.toUInt8))]⟩ ∧
    Arm.decode hws = some i := by
  have hlen := (Codec.enc_len i hws he hwf).1
  obtain ⟨els, hp, hels⟩ := parseFile_progText_partial A (by omega) defs hdefsok name hn args hargs
  exact run_defs_stmt fs main _ hfs els hp A defs name (Args.ofList args) hels tbl hdefs i
    (by rw [Show.toList_ofList]; exact hmeans) hwf hws he hfit

/-- C04t.e  **Closed on text, diagnosed**: the same program text with a statement that has no encodable meaning: `Asm.run`
does not succeed, records at least one diagnostic, and every diagnostic is in file `main` at the line and column of one
and the same statement element — the instruction statement (whose position, by C12, is that of its first token). -/
theorem run_text_diag (fs : Bytes → Option Bytes) (main : Bytes) (A : Nat) (hA : A < 4294967296) (defs : List (Bytes × Arg))
    (hdefsok : ∀ d ∈ defs, Lex.identOk d.1 = true ∧ Show.Opnd d.2) (name : Bytes) (hn : Lex.identOk name = true)
    (args : List Arg) (hargs : ∀ x ∈ args, Show.Opnd x) (hfs : fs main = some (progText A defs name args))
    (tbl : Asm.Table) (hdefs : defsTable defs [] = some tbl)
    (t : Instr) (hm : mnemonic name = some t) (hw : wellFormed (tabOf tbl) (sig t) args)
    (hq : ∀ vs, denoteAll (tabOf tbl) (sig t) args = some vs → ¬ svQuirk t vs)
    (hno : ∀ i hws, ¬ (means (tabOf tbl) A name args = some i ∧ i.wf ∧ Codec.encode i = .ok hws)) :
    ∃ els el o, Asm.parseFile (progText A defs name args) = .ok (els, none) ∧ el ∈ els ∧
      el.val = .instruction name (Args.ofList args) ∧ Asm.run fs main = .done o ∧ o.success = false ∧ o.diags ≠ [] ∧
      ∀ d ∈ o.diags, d.file = main ∧ d.line = el.line ∧ d.col = el.col := by
  obtain ⟨els, hp, hels⟩ := parseFile_progText_partial A hA defs hdefsok name hn args hargs
  obtain ⟨el, o, h1, h2, h3⟩ := run_defs_stmt_diag fs main _ hfs els hp A hA defs name (Args.ofList args) hels tbl hdefs t hm
    (by rw [Show.toList_ofList]; exact hw) (by rw [Show.toList_ofList]; exact hq) (by rw [Show.toList_ofList]; exact hno)
  exact ⟨els, el, o, hp, h1, h2, h3⟩

/-- non-vacuity on TEXT: the program text of `ldr r0, [4 + sp];` at 0 and of `.const label, 536871168;` + `B label;` -/
example : progText 0 [] (bytesOf "ldr") [.ident (bytesOf "r0"), .addr (.bin .add (.const 4) (.ident (bytesOf "sp")))] =
    bytesOf ".addr 0;\nldr r0, [4 + sp];" := by decide
example : progText 536871424 [(bytesOf "label", .const 536871168)] (bytesOf "B") [.ident (bytesOf "label")] =
    bytesOf ".addr 536871424;\n.const label, 536871168;\nB label;" := by decide
example : Show.Opnd (.addr (.bin .add (.const 4) (.ident (bytesOf "sp")))) ∧ Lex.identOk (bytesOf "ldr") = true :=
  ⟨.mem (.const 4 (by decide) (by decide)) (.ident _ (by decide)), by decide⟩

/-- non-vacuity, end to end on TEXT: the file `.addr 0;⏎ldr r0, [4 + sp];` assembles to `01 98` at 0 (lower-case mnemonic,
alias `sp`, offset written first), and `.addr 0;⏎ADDS R1, R1, 300;` does not succeed and is diagnosed -/
example : Asm.run (fun _ => some (bytesOf ".addr 0;\nldr r0, [4 + sp];")) [] =
    .done ⟨true, none, true, [], [(0, (Codec.toBytes [0x9801]).map (·.toUInt8))]⟩ := by
  have ht : progText 0 [] (bytesOf "ldr") [.ident (bytesOf "r0"), .addr (.bin .add (.const 4) (.ident (bytesOf "sp")))] =
      bytesOf ".addr 0;\nldr r0, [4 + sp];" := by decide
  refine (run_text (fun _ => some (bytesOf ".addr 0;\nldr r0, [4 + sp];")) [] 0 [] (by simp) (bytesOf "ldr") (by decide)
    [.ident (bytesOf "r0"), .addr (.bin .add (.const 4) (.ident (bytesOf "sp")))] ?_ (by rw [ht]) [] rfl
    (.ldr 0 13 (.imm 4)) (by decide) (by decide) [0x9801] rfl (by decide)).1
  intro x hx
  simp only [List.mem_cons, List.not_mem_nil, or_false] at hx
  rcases hx with rfl | rfl
  · exact .atom (.ident _ (by decide))
  · exact .mem (.const 4 (by decide) (by decide)) (.ident _ (by decide))

example : ∃ o, Asm.run (fun _ => some (bytesOf ".addr 0;\nADDS R1, R1, 300;")) [] = .done o ∧ o.success = false ∧ o.diags ≠ [] := by
  have ht : progText 0 [] (bytesOf "ADDS") [.ident (bytesOf "R1"), .ident (bytesOf "R1"), .const 300] =
      bytesOf ".addr 0;\nADDS R1, R1, 300;" := by decide
  have hargs : ∀ x ∈ [Arg.ident (bytesOf "R1"), .ident (bytesOf "R1"), .const 300], Show.Opnd x := by
    intro x hx
    simp only [List.mem_cons, List.not_mem_nil, or_false] at hx
    rcases hx with rfl | rfl | rfl
    · exact .atom (.ident _ (by decide))
    · exact .atom (.ident _ (by decide))
    · exact .atom (.const 300 (by decide) (by decide))
  obtain ⟨els, el, o, _, _, _, h1, h2, h3, _⟩ := run_text_diag (fun _ => some (bytesOf ".addr 0;\nADDS R1, R1, 300;")) [] 0 (by decide) []
    (by simp) (bytesOf "ADDS") (by decide) _ hargs (by rw [ht]) [] rfl (.add true 0 0 (.imm 0)) (by decide)
    ⟨fun h => by simp [evaluated] at h, fun h => by simp [evaluated] at h, fun _ => ⟨by decide, by decide, by decide⟩, trivial⟩
    (by intro vs hvs hq; obtain ⟨hh, _⟩ := hq; rcases hh with h | h | h <;> cases h)
    (by
      intro i hws ⟨hmn, _, he⟩
      have : means (tabOf []) 0 (bytesOf "ADDS") [.ident (bytesOf "R1"), .ident (bytesOf "R1"), .const 300] = some (.add true 1 1 (.imm 300)) := by decide
      rw [this] at hmn; cases hmn; cases he)
  exact ⟨o, h1, h2, h3⟩

/-- C04t.e'  `run_text_diag` without the known-mnemonic hypothesis (unknown mnemonics are diagnosed at the statement too) -/
theorem run_text_diag_any (fs : Bytes → Option Bytes) (main : Bytes) (A : Nat) (hA : A < 4294967296) (defs : List (Bytes × Arg))
    (hdefsok : ∀ d ∈ defs, Lex.identOk d.1 = true ∧ Show.Opnd d.2) (name : Bytes) (hn : Lex.identOk name = true)
    (args : List Arg) (hargs : ∀ x ∈ args, Show.Opnd x) (hfs : fs main = some (progText A defs name args))
    (tbl : Asm.Table) (hdefs : defsTable defs [] = some tbl)
    (hw : ∀ t, mnemonic name = some t → wellFormed (tabOf tbl) (sig t) args ∧
      ∀ vs, denoteAll (tabOf tbl) (sig t) args = some vs → ¬ svQuirk t vs)
    (hno : ∀ i hws, ¬ (means (tabOf tbl) A name args = some i ∧ i.wf ∧ Codec.encode i = .ok hws)) :
    ∃ els el o, Asm.parseFile (progText A defs name args) = .ok (els, none) ∧ el ∈ els ∧
      el.val = .instruction name (Args.ofList args) ∧ Asm.run fs main = .done o ∧ o.success = false ∧ o.diags ≠ [] ∧
      ∀ d ∈ o.diags, d.file = main ∧ d.line = el.line ∧ d.col = el.col := by
  obtain ⟨els, hp, hels⟩ := parseFile_progText_partial A hA defs hdefsok name hn args hargs
  obtain ⟨el, o, h1, h2, h3⟩ := run_defs_stmt_diag_any fs main _ hfs els hp A hA defs name (Args.ofList args) hels tbl hdefs
    (by rw [Show.toList_ofList]; exact hw) (by rw [Show.toList_ofList]; exact hno)
  exact ⟨els, el, o, hp, h1, h2, h3⟩

/-- non-vacuity: `.addr 0;⏎FOO R1;` — unknown mnemonic -/
example : ∃ o, Asm.run (fun _ => some (bytesOf ".addr 0;\nFOO R1;")) [] = .done o ∧ o.success = false ∧ o.diags ≠ [] := by
  have ht : progText 0 [] (bytesOf "FOO") [.ident (bytesOf "R1")] = bytesOf ".addr 0;\nFOO R1;" := by decide
  obtain ⟨els, el, o, _, _, _, h1, h2, h3, _⟩ := run_text_diag_any (fun _ => some (bytesOf ".addr 0;\nFOO R1;")) [] 0 (by decide) []
    (by simp) (bytesOf "FOO") (by decide) [.ident (bytesOf "R1")]
    (by intro x hx; simp at hx; subst hx; exact .atom (.ident _ (by decide))) (by rw [ht]) [] rfl
    (by intro t ht; have h0 : mnemonic (bytesOf "FOO") = none := by decide
        rw [h0] at ht; cases ht)
    (by intro i hws ⟨hmn, _⟩; have : means (tabOf []) 0 (bytesOf "FOO") [.ident (bytesOf "R1")] = none := by decide
        rw [this] at hmn; cases hmn)
  exact ⟨o, h1, h2, h3⟩

end Trion.C04
