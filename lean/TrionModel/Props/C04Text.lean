import TrionModel.Lemmas.C04Prog
import TrionModel.Lemmas.C04DiagRun
import TrionModel.Props.C04Closed
/-!
# C04 closed, program level — `.addr A; .const n₁, e₁; …; .const n_k, e_k; <statement>` through `Asm.run`

`progVals A defs name args`: the statements of such a program as element values.  The hypotheses speak about what the
program text parses into (`Asm.parseFile`); C09–C12 tie text, tokens, trees and positions.
-/
namespace Trion.C04
open Trion Trion.Front Trion.Simp

/-- the statements of `.addr A; <defs>; name args` -/
def progVals (A : Nat) (defs : List (Bytes × Arg)) (name : Bytes) (args : Args) : List ElemVal :=
  .directive (bytesOf "addr") (Args.ofList [.const A]) :: (defs.map constStmt ++ [.instruction name args])

/-- C04t.a  **Success direction with definitions.**  For every program text that the tokenizer and parser models read as
`.addr A;`, then `.const` definitions `defs` (each expression may use the earlier names), then ONE instruction statement
`name args`: if the definitions build the table `tbl` (`defsTable defs [] = some tbl`: fresh non-register names,
expressions with a value), the statement MEANS `i` over that table, `i` fits its field types, the encoder accepts it and
the bytes fit below 2^32, then `Asm.run` succeeds, records NO diagnostic, and the image is exactly the encoding of `i`
at `A` — which the ARMv6-M table reads as `i`. -/
theorem run_defs_stmt (fs : Bytes → Option Bytes) (main data : Bytes) (hfs : fs main = some data)
    (els : List Element) (hp : Asm.parseFile data = .ok (els, none)) (A : Nat) (defs : List (Bytes × Arg))
    (name : Bytes) (args : Args) (hels : els.map (·.val) = progVals A defs name args)
    (tbl : Asm.Table) (hdefs : defsTable defs [] = some tbl)
    (i : Instr) (hmeans : means (tabOf tbl) A name args.toList = some i) (hwf : i.wf)
    (hws : List Nat) (he : Codec.encode i = .ok hws) (hfit : A + 2 * hws.length ≤ 4294967296) :
    Asm.run fs main = .done ⟨true, none, true, [], [(A, (Codec.toBytes hws).map (·.toUInt8))]⟩ ∧
    Arm.decode hws = some i := by
  have hlen := (Codec.enc_len i hws he hwf).1
  have ha : A < 4294967296 := by omega
  have hblen : ((Codec.toBytes hws).map (·.toUInt8)).length = 2 * hws.length := by simp [Asm.toBytes_length]
  simp only [progVals] at hels
  obtain ⟨e1, r1, rfl, h1, hr1⟩ := List.map_eq_cons_iff.mp hels
  obtain ⟨mid, last, rfl, hmid, hlast⟩ := List.map_eq_append_iff.mp hr1
  obtain ⟨e2, r2, rfl, h2, hr2⟩ := List.map_eq_cons_iff.mp hlast
  have : r2 = [] := by simpa using hr2
  subst this
  obtain ⟨l1, c1, v1⟩ := e1
  obtain ⟨l2, c2, v2⟩ := e2
  simp only at h1 h2
  subst h1 h2
  let inc := Asm.assembleFile fs Asm.encoder (Asm.maxDepth - 1)
  let env : Asm.Env := ⟨[main], main⟩
  let seg : Seg.Active := ⟨A, [] ++ (Codec.toBytes hws).map (·.toUInt8), Map.u32Max - A + 1⟩
  have haddr : Asm.statement fs Asm.encoder inc env
        ⟨Seg.init, [], some [], [], some [], []⟩ ⟨l1, c1, .directive (bytesOf "addr") (Args.ofList [.const A])⟩ =
      .ok (⟨⟨[], some ⟨A, [], Map.u32Max - A + 1⟩, []⟩, [], some [], [], some [], []⟩, .ok) := by
    have := Asm.addr_ok fs inc env
      ⟨Seg.init, [], some [], [], some [], []⟩ [] (by simp [env]) rfl rfl l1 c1 (A : Int) (by omega) (by omega)
    simp only [Asm.statement, Show.toList_ofList, this]
    simp
  obtain ⟨hdefsrun, hnd⟩ := doAssemble_defs fs Asm.encoder inc env (by simp [env]) defs mid
    [⟨l2, c2, .instruction name args⟩] none
    ⟨⟨[], some ⟨A, [], Map.u32Max - A + 1⟩, []⟩, [], some [], [], some [], []⟩ [] tbl hmid rfl
    (by intro n; simp [Asm.Table.find]) hdefs
  have hinstr := (stmt_placed fs inc env
      ⟨⟨[], some ⟨A, [], Map.u32Max - A + 1⟩, []⟩, [], some tbl, [], some [], []⟩ tbl
      hnd (by simp [env]) rfl l2 c2 name args [] ⟨A, [], Map.u32Max - A + 1⟩ [] rfl i
      (by rw [Show.cur_empty A _ ha]; exact hmeans) hwf hws he (by simp only [List.length_nil, Map.u32Max]; omega))
  have key : Asm.doAssemble fs Asm.encoder inc env
      (⟨l1, c1, .directive (bytesOf "addr") (Args.ofList [.const A])⟩ :: (mid ++ [⟨l2, c2, .instruction name args⟩])) none
      ⟨Seg.init, [], some [], [], some [], []⟩ =
      .ok (⟨⟨[], some seg, [(A, ((Codec.toBytes hws).map (·.toUInt8)).length)]⟩, [], some tbl, [], some [], []⟩, .ok) := by
    simp only [Asm.doAssemble]
    rw [haddr]
    simp only
    rw [hdefsrun]
    simp only [Asm.doAssemble]
    rw [hinstr.1, Show.cur_empty A _ ha, hblen]
  have hrun := Asm.run_of_statements fs main data hfs _ hp tbl seg
    [(A, ((Codec.toBytes hws).map (·.toUInt8)).length)] key
    (by
      intro e
      have e' : (([] : Bytes) ++ (Codec.toBytes hws).map (·.toUInt8)) = [] := e
      have := congrArg List.length e'
      simp only [List.nil_append, hblen, List.length_nil] at this
      omega)
    (by show A + (([] : Bytes) ++ (Codec.toBytes hws).map (·.toUInt8)).length ≤ 4294967296
        simp only [List.nil_append, hblen]; exact hfit)
  exact ⟨by simpa [seg] using hrun, hinstr.2⟩

/-- non-vacuity: `.addr 0x20000200; .const base, 0x20000000; .const label, base + 0x100; B label;` -/
def exDefs : List (Bytes × Arg) :=
  [(bytesOf "base", .const 0x20000000), (bytesOf "label", .bin .add (.ident (bytesOf "base")) (.const 0x100))]
example : defsTable exDefs [] = some [(bytesOf "base", some 0x20000000), (bytesOf "label", some 0x20000100)] ∧
    means (tabOf [(bytesOf "base", some 0x20000000), (bytesOf "label", some 0x20000100)]) 0x20000200 (bytesOf "B")
      (Args.ofList [.ident (bytesOf "label")]).toList = some (.b 14 (-260)) ∧
    Codec.encode (.b 14 (-260)) = .ok [0xE77E] := by
  refine ⟨by decide, by decide, rfl⟩

/-- C04t.b  **Diagnosed direction through the whole pipeline model.**  Same programs as `run_defs_stmt`
(`.addr A;`, definitions building `tbl`, ONE instruction statement `name args` with a known mnemonic and operands of the
documented forms over defined names): if the statement has NO encodable meaning — `means` is `none` (wrong operand count
or kind, overflow, target not an address, …), or the instruction does not fit its field types, or the encoder refuses it
(out of range, misaligned, high register, …) — then `Asm.run` ends in an outcome that is NOT a success, records at least
one diagnostic, and EVERY recorded diagnostic is positioned at the statement: file `main`, line and column of the
statement's element (by C12 `Parse.stmt_pos` the position of its first token).  This covers the first attempt, the
placeholder, the queued retry (`local_tasks`, then `finalize`): whatever they do, nothing is reported elsewhere and the
run does not succeed. -/
theorem run_defs_stmt_diag (fs : Bytes → Option Bytes) (main data : Bytes) (hfs : fs main = some data)
    (els : List Element) (hp : Asm.parseFile data = .ok (els, none)) (A : Nat) (hA : A < 4294967296)
    (defs : List (Bytes × Arg)) (name : Bytes) (args : Args) (hels : els.map (·.val) = progVals A defs name args)
    (tbl : Asm.Table) (hdefs : defsTable defs [] = some tbl)
    (t : Instr) (hm : mnemonic name = some t) (hw : wellFormed (tabOf tbl) (sig t) args.toList)
    (hq : ∀ vs, denoteAll (tabOf tbl) (sig t) args.toList = some vs → ¬ svQuirk t vs)
    (hno : ∀ i hws, ¬ (means (tabOf tbl) A name args.toList = some i ∧ i.wf ∧ Codec.encode i = .ok hws)) :
    ∃ el o, el ∈ els ∧ el.val = .instruction name args ∧ Asm.run fs main = .done o ∧ o.success = false ∧ o.diags ≠ [] ∧
      ∀ d ∈ o.diags, d.file = main ∧ d.line = el.line ∧ d.col = el.col := by
  simp only [progVals] at hels
  obtain ⟨e1, r1, rfl, h1, hr1⟩ := List.map_eq_cons_iff.mp hels
  obtain ⟨mid, last, rfl, hmid, hlast⟩ := List.map_eq_append_iff.mp hr1
  obtain ⟨e2, r2, rfl, h2, hr2⟩ := List.map_eq_cons_iff.mp hlast
  have : r2 = [] := by simpa using hr2
  subst this
  obtain ⟨l1, c1, v1⟩ := e1
  obtain ⟨l2, c2, v2⟩ := e2
  simp only at h1 h2
  subst h1 h2
  refine ⟨⟨l2, c2, .instruction name args⟩, ?_⟩
  let inc := Asm.assembleFile fs Asm.encoder (Asm.maxDepth - 1)
  let env : Asm.Env := ⟨[main], main⟩
  let S0 : Asm.St := ⟨⟨[], some ⟨A, [], Map.u32Max - A + 1⟩, []⟩, [], some tbl, [], some [], []⟩
  have haddr : Asm.statement fs Asm.encoder inc env init2 ⟨l1, c1, .directive (bytesOf "addr") (Args.ofList [.const A])⟩ =
      .ok (⟨⟨[], some ⟨A, [], Map.u32Max - A + 1⟩, []⟩, [], some [], [], some [], []⟩, .ok) := by
    have := Asm.addr_ok fs inc env init2 [] (by simp [env]) rfl rfl l1 c1 (A : Int) (by omega) (by omega)
    simp only [Asm.statement, Show.toList_ofList, this]
    simp [init2]
  obtain ⟨hdefsrun, hnd⟩ := doAssemble_defs fs Asm.encoder inc env (by simp [env]) defs mid
    [⟨l2, c2, .instruction name args⟩] none
    ⟨⟨[], some ⟨A, [], Map.u32Max - A + 1⟩, []⟩, [], some [], [], some [], []⟩ [] tbl hmid rfl
    (by intro n; simp [Asm.Table.find]) hdefs
  have hi64 : tblI64 tbl := defsTable_i64 defs [] tbl (by intro n v h; simp [Asm.Table.find] at h) hdefs
  have hstmt : Asm.statement fs Asm.encoder inc env S0 ⟨l2, c2, .instruction name args⟩ =
      Asm.instruction Asm.encoder env S0 l2 c2 name args.toList := by simp [Asm.statement, S0]
  have hdo : Asm.doAssemble fs Asm.encoder inc env
      (⟨l1, c1, .directive (bytesOf "addr") (Args.ofList [.const A])⟩ :: (mid ++ [⟨l2, c2, .instruction name args⟩])) none init2 =
      match Asm.instruction Asm.encoder env S0 l2 c2 name args.toList with
      | .ok (st', .ok) => .ok (st', .ok)
      | .ok (st', .err lv) => .ok (st', .err lv)
      | .stop s => .stop s := by
    simp only [Asm.doAssemble]
    rw [haddr]
    simp only
    rw [hdefsrun]
    simp only [Asm.doAssemble]
    rw [hstmt]
    cases Asm.instruction Asm.encoder env S0 l2 c2 name args.toList with
    | ok p => obtain ⟨st', r⟩ := p; cases r <;> rfl
    | stop s => rfl
  have hfb := fileBody_eq fs inc env data init2 _ hp
  rw [hdo] at hfb
  have hcur : S0.seg.active.map Seg.Active.cur = some A := by simp [S0, Show.cur_empty A _ hA]
  have hp0 : PAt main l2 c2 S0 := ⟨fun d hd => by simp [S0] at hd, fun t ht => by simp [S0] at ht,
    fun q hq t ht => by simp [S0] at hq; subst hq; simp at ht⟩
  cases hX : Asm.instruction Asm.encoder env S0 l2 c2 name args.toList with
  | stop s =>
    rw [hX] at hfb
    simp only at hfb
    have := body_stop_fuel fs main data hfs s hfb
    subst this
    exact absurd hX (Asm.instruction_nf _ _ _ _ _ _ _)
  | ok p =>
    obtain ⟨st1, r1⟩ := p
    have herr1 : 1 ≤ st1.errors.length := by
      have := instr_diag env S0 tbl hnd hi64 (by simp [env]) rfl [] ⟨A, [], Map.u32Max - A + 1⟩ [] rfl l2 c2 name args.toList t hm hw hq
        (by rw [Show.cur_empty A _ hA]; exact hno) st1 r1 hX
      simpa [S0] using this
    have hp1 : PAt main l2 c2 st1 :=
      pat_of_eff hp0 (Asm.instruction_eff (env := env) _ _ hX) (Asm.instruction_quiet _ _ hX)
    rw [hX] at hfb
    have hfin : ∀ (st4 : Asm.St) (r : Asm.Res), Asm.fileBody fs Asm.encoder inc env data init2 = .ok (st4, r) →
        1 ≤ st4.errors.length → PAt main l2 c2 st4 → _ := fun st4 r hb he hpt =>
      run_of_body fs main data hfs l2 c2 st4 r hb he hpt
    have hgoal : ∃ o, Asm.run fs main = .done o ∧ o.success = false ∧ o.diags ≠ [] ∧ ∀ d ∈ o.diags, d.at main l2 c2 := by
      by_cases hfat : r1 = .err .fatal
      · subst hfat
        simp only [if_true] at hfb
        exact hfin st1 _ hfb herr1 hp1
      · have hr1 : (if r1 = Asm.Res.err Asm.Level.fatal then (Asm.Out.ok (st1, r1) : Asm.Out (Asm.St × Asm.Res)) else
              match st1.localTasks with
              | none => .stop .panic
              | some tasks => Asm.localLoop Asm.encoder env Asm.rounds tasks { st1 with localTasks := some [] } r1) =
            (match st1.localTasks with
              | none => .stop .panic
              | some tasks => Asm.localLoop Asm.encoder env Asm.rounds tasks { st1 with localTasks := some [] } r1) := if_neg hfat
        have hfb1 : Asm.fileBody fs Asm.encoder inc env data init2 =
            (match st1.localTasks with
              | none => .stop .panic
              | some tasks => Asm.localLoop Asm.encoder env Asm.rounds tasks { st1 with localTasks := some [] } r1) := by
          rw [hfb, ← hr1]; cases r1 <;> rfl
        cases hlt : st1.localTasks with
        | none =>
          rw [hlt] at hfb1
          have := body_stop_fuel fs main data hfs _ hfb1
          cases this
        | some tasks =>
          rw [hlt] at hfb1
          simp only at hfb1
          cases hY : Asm.localLoop Asm.encoder env Asm.rounds tasks { st1 with localTasks := some [] } r1 with
          | stop s =>
            rw [hY] at hfb1
            have := body_stop_fuel fs main data hfs s hfb1
            subst this
            exact absurd hY (Asm.localLoop_nf _ _ _ _ _ _)
          | ok q =>
            obtain ⟨st2, r2⟩ := q
            rw [hY] at hfb1
            have hg := (Asm.localLoop_grew _ _ _ _ _ _ hY).1
            have hp2 : PAt main l2 c2 st2 := localLoop_pat Asm.rounds tasks _ r1 (hp1.lt tasks hlt)
              (show PAt main l2 c2 ({ st1 with localTasks := some [] } : Asm.St) from ⟨hp1.errs, hp1.gt, fun q hq t ht => by
                have hq' : (some ([] : List Asm.Task)) = some q := hq
                cases hq'; cases ht⟩) _ _ hY
            exact hfin st2 r2 hfb1 (by simp only at hg; omega) hp2
    obtain ⟨o, h1, h2, h3, h4⟩ := hgoal
    exact ⟨o, by simp, rfl, h1, h2, h3, fun d hd => h4 d hd⟩

/-- non-vacuity of `run_defs_stmt_diag`: `ADDS R1, R1, 300` and `ADDS R1, 300` have no encodable meaning, with known
mnemonic and well-formed operands -/
example : mnemonic (bytesOf "ADDS") = some (.add true 0 0 (.imm 0)) ∧
    wellFormed (tabOf []) (sig (.add true 0 0 (.imm 0))) [.ident (bytesOf "R1"), .ident (bytesOf "R1"), .const 300] ∧
    means (tabOf []) 0 (bytesOf "ADDS") [.ident (bytesOf "R1"), .ident (bytesOf "R1"), .const 300] = some (.add true 1 1 (.imm 300)) ∧
    Codec.encode (.add true 1 1 (.imm 300)) = .error .unrepresentable ∧
    means (tabOf []) 0 (bytesOf "ADDS") [.ident (bytesOf "R1"), .const 300] = none := by
  refine ⟨by decide, ⟨fun h => by simp [evaluated] at h, fun h => by simp [evaluated] at h,
    fun _ => ⟨by decide, by decide, by decide⟩, trivial⟩, by decide, rfl, by decide⟩

end Trion.C04
