import TrionModel.Lemmas.C04Prog
import TrionModel.Props.C04Closed
/-!
# C04 closed, program level — `.addr A; .const n₁, e₁; …; .const n_k, e_k; <statement>` through `Asm.run`

`progVals A defs name args`: the statements of such a program as element values.  The hypotheses speak about what the
program text parses into (`Asm.parseFile`); C09–C12 tie text, tokens, trees and positions.
-/
namespace Trion.C04
open Trion Trion.Front Trion.Simp

/-- the statements of `.addr A; <defs>; name args` -/
def progVals (A : Nat) (defs : List (Bytes × Arg)) (name : Bytes) (args : Args) : List ElemVal :=
  .directive (bytesOf "addr") (Args.ofList [.const A]) :: (defs.map constStmt ++ [.instruction name args])

/-- C04t.a  **Success direction with definitions.**  For every program text that the tokenizer and parser models read as
`.addr A;`, then `.const` definitions `defs` (each expression may use the earlier names), then ONE instruction statement
`name args`: if the definitions build the table `tbl` (`defsTable defs [] = some tbl`: fresh non-register names,
expressions with a value), the statement MEANS `i` over that table, `i` fits its field types, the encoder accepts it and
the bytes fit below 2^32, then `Asm.run` succeeds, records NO diagnostic, and the image is exactly the encoding of `i`
at `A` — which the ARMv6-M table reads as `i`. -/
theorem run_defs_stmt (fs : Bytes → Option Bytes) (main data : Bytes) (hfs : fs main = some data)
    (els : List Element) (hp : Asm.parseFile data = .ok (els, none)) (A : Nat) (defs : List (Bytes × Arg))
    (name : Bytes) (args : Args) (hels : els.map (·.val) = progVals A defs name args)
    (tbl : Asm.Table) (hdefs : defsTable defs [] = some tbl)
    (i : Instr) (hmeans : means (tabOf tbl) A name args.toList = some i) (hwf : i.wf)
    (hws : List Nat) (he : Codec.encode i = .ok hws) (hfit : A + 2 * hws.length ≤ 4294967296) :
    Asm.run fs main = .done ⟨true, none, true, [], [(A, (Codec.toBytes hws).map (·.toUInt8))]⟩ ∧
    Arm.decode hws = some i := by
  have hlen := (Codec.enc_len i hws he hwf).1
  have ha : A < 4294967296 := by omega
  have hblen : ((Codec.toBytes hws).map (·.toUInt8)).length = 2 * hws.length := by simp [Asm.toBytes_length]
  simp only [progVals] at hels
  obtain ⟨e1, r1, rfl, h1, hr1⟩ := List.map_eq_cons_iff.mp hels
  obtain ⟨mid, last, rfl, hmid, hlast⟩ := List.map_eq_append_iff.mp hr1
  obtain ⟨e2, r2, rfl, h2, hr2⟩ := List.map_eq_cons_iff.mp hlast
  have : r2 = [] := by simpa using hr2
  subst this
  obtain ⟨l1, c1, v1⟩ := e1
  obtain ⟨l2, c2, v2⟩ := e2
  simp only at h1 h2
  subst h1 h2
  let inc := Asm.assembleFile fs Asm.encoder (Asm.maxDepth - 1)
  let env : Asm.Env := ⟨[main], main⟩
  let seg : Seg.Active := ⟨A, [] ++ (Codec.toBytes hws).map (·.toUInt8), Map.u32Max - A + 1⟩
  have haddr : Asm.statement fs Asm.encoder inc env
        ⟨Seg.init, [], some [], [], some [], []⟩ ⟨l1, c1, .directive (bytesOf "addr") (Args.ofList [.const A])⟩ =
      .ok (⟨⟨[], some ⟨A, [], Map.u32Max - A + 1⟩, []⟩, [], some [], [], some [], []⟩, .ok) := by
    have := Asm.addr_ok fs inc env
      ⟨Seg.init, [], some [], [], some [], []⟩ [] (by simp [env]) rfl rfl l1 c1 (A : Int) (by omega) (by omega)
    simp only [Asm.statement, Show.toList_ofList, this]
    simp
  obtain ⟨hdefsrun, hnd⟩ := doAssemble_defs fs Asm.encoder inc env (by simp [env]) defs mid
    [⟨l2, c2, .instruction name args⟩] none
    ⟨⟨[], some ⟨A, [], Map.u32Max - A + 1⟩, []⟩, [], some [], [], some [], []⟩ [] tbl hmid rfl
    (by intro n; simp [Asm.Table.find]) hdefs
  have hinstr := (stmt_placed fs inc env
      ⟨⟨[], some ⟨A, [], Map.u32Max - A + 1⟩, []⟩, [], some tbl, [], some [], []⟩ tbl
      hnd (by simp [env]) rfl l2 c2 name args [] ⟨A, [], Map.u32Max - A + 1⟩ [] rfl i
      (by rw [Show.cur_empty A _ ha]; exact hmeans) hwf hws he (by simp only [List.length_nil, Map.u32Max]; omega))
  have key : Asm.doAssemble fs Asm.encoder inc env
      (⟨l1, c1, .directive (bytesOf "addr") (Args.ofList [.const A])⟩ :: (mid ++ [⟨l2, c2, .instruction name args⟩])) none
      ⟨Seg.init, [], some [], [], some [], []⟩ =
      .ok (⟨⟨[], some seg, [(A, ((Codec.toBytes hws).map (·.toUInt8)).length)]⟩, [], some tbl, [], some [], []⟩, .ok) := by
    simp only [Asm.doAssemble]
    rw [haddr]
    simp only
    rw [hdefsrun]
    simp only [Asm.doAssemble]
    rw [hinstr.1, Show.cur_empty A _ ha, hblen]
  have hrun := Asm.run_of_statements fs main data hfs _ hp tbl seg
    [(A, ((Codec.toBytes hws).map (·.toUInt8)).length)] key
    (by
      intro e
      have e' : (([] : Bytes) ++ (Codec.toBytes hws).map (·.toUInt8)) = [] := e
      have := congrArg List.length e'
      simp only [List.nil_append, hblen, List.length_nil] at this
      omega)
    (by show A + (([] : Bytes) ++ (Codec.toBytes hws).map (·.toUInt8)).length ≤ 4294967296
        simp only [List.nil_append, hblen]; exact hfit)
  exact ⟨by simpa [seg] using hrun, hinstr.2⟩

/-- non-vacuity: `.addr 0x20000200; .const base, 0x20000000; .const label, base + 0x100; B label;` -/
def exDefs : List (Bytes × Arg) :=
  [(bytesOf "base", .const 0x20000000), (bytesOf "label", .bin .add (.ident (bytesOf "base")) (.const 0x100))]
example : defsTable exDefs [] = some [(bytesOf "base", some 0x20000000), (bytesOf "label", some 0x20000100)] ∧
    means (tabOf [(bytesOf "base", some 0x20000000), (bytesOf "label", some 0x20000100)]) 0x20000200 (bytesOf "B")
      (Args.ofList [.ident (bytesOf "label")]).toList = some (.b 14 (-260)) ∧
    Codec.encode (.b 14 (-260)) = .ok [0xE77E] := by
  refine ⟨by decide, by decide, rfl⟩

end Trion.C04
