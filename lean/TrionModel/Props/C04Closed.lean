import TrionModel.Lemmas.C04Inst
import TrionModel.Lemmas.ShowProg
import TrionModel.Props.C04
/-!
# C04 closed — an instruction statement assembles to the encoding of what was written, with the REAL evaluator

`Props/C04.lean` is parametric in the evaluator.  Here the evaluator is `Simp.evaluate` (C07/C08) — as the pipeline
model hands it to the front end (`Asm.frontEval tbl`) or as the plain `Show.simpEval lk` — and the statement is compared
with a specification of what it MEANS, `C04.means T A name args` (`Spec/C04.lean`): mnemonic lookup, operand count,
operand meanings (`denote`: constant expressions by exact arithmetic with the i64 overflow rule, registers by name in any
case with aliases, `[Rn]`/`[Rn + Rm]`/`[Rn + e]`/`[e + Rn]`, `{…}`, option names), PC-relative operands as
`target − (A + 4)` resp. `target − (align4 A + 4)`.

Hypotheses of the tree-level theorems (all about the statement, none about the evaluator):
* `NoDef lk`, `Simp.tableOk lk`: the table has no `.import`-deferred entry and holds `i64` values;
* `wellFormed T (sig t) args`: every operand in an *evaluated* slot mentions only defined names, has `i64` literals, and
  is an operand form of the documented syntax (`doc`: not an arithmetic mixture of register names and numbers such as
  `R1 + 0`, which the simplifier would rewrite to `R1`);
* `¬ svQuirk`: not `DMB/DSB/ISB SV` (finding: accepted like `SY`, see the `example` below).
-/
namespace Trion.C04
open Trion Trion.Front Trion.Simp

/-- C04c.a  **Soundness (never a wrapped / truncated / neighbouring encoding).**  Whenever the front end completes the
statement and the encoder accepts the instruction, the instruction IS the statement's meaning `means T A name args`, it
fits its field types, and the emitted halfwords are — in the ARMv6-M table `Arm.decode` — the encoding of exactly that
instruction; the decoder model reads the emitted bytes back as it. -/
theorem stmt_sound {lk : Bytes → Lookup} (hn : NoDef lk) (hT : Simp.tableOk lk) {eval : Arg → EvalOut} (hE : EvalSimp eval lk)
    (loc : Bool) (A : Nat) (name : Bytes) (args : List Arg) (t : Instr) (hm : mnemonic name = some t)
    (hw : wellFormed (tab lk) (sig t) args)
    (hq : ∀ vs, denoteAll (tab lk) (sig t) args = some vs → ¬ svQuirk t vs)
    (i : Instr) (hb : build A name args eval loc = .completed i) (hws : List Nat) (he : Codec.encode i = .ok hws) :
    means (tab lk) A name args = some i ∧ i.wf ∧ Arm.decode hws = some i ∧
      ∀ rest, Codec.decode (Codec.toBytes hws ++ rest) = .ok (2 * hws.length, i) := by
  obtain ⟨h1, h2⟩ := build_sound hn hT hE loc A name args t hm hw i hb hq
  exact ⟨h1, h2, Codec.enc_sound i hws he h2, fun rest => Codec.dec_enc i hws rest he h2⟩

/-- C04c.b  **Completeness.**  If the statement means the instruction `i`, `i` fits its field types and the encoder
accepts it (equivalently, by C01 `enc_complete`/`enc_sound`, the ARMv6-M table has an encoding of `i`: every operand
is in range and aligned for the instruction), then the front end completes the statement to exactly `i`. -/
theorem stmt_complete {lk : Bytes → Lookup} (hn : NoDef lk) {eval : Arg → EvalOut} (hE : EvalSimp eval lk)
    (loc : Bool) (A : Nat) (name : Bytes) (args : List Arg) (i : Instr)
    (hmeans : means (tab lk) A name args = some i) (hwf : i.wf) (hws : List Nat) (he : Codec.encode i = .ok hws) :
    build A name args eval loc = .completed i ∧ Arm.decode hws = some i :=
  ⟨build_complete hn hE loc A name args i hmeans hwf hws he, Codec.enc_sound i hws he hwf⟩

/-- C04c.c  **Totality.**  With every name defined, the first `assemble` either completes or reports a diagnostic
(never a deferral, never a panic); an unknown mnemonic is `notFound`. -/
theorem stmt_total {lk : Bytes → Lookup} (hn : NoDef lk) (hT : Simp.tableOk lk) {eval : Arg → EvalOut} (hE : EvalSimp eval lk)
    (loc : Bool) (A : Nat) (name : Bytes) (args : List Arg) (t : Instr) (hm : mnemonic name = some t)
    (hw : wellFormed (tab lk) (sig t) args) :
    (∃ i, build A name args eval loc = .completed i) ∨ (∃ d st, build A name args eval loc = .error d st) :=
  build_total hn hT hE loc A name args t hm hw

/-- C04c.d  **The closed form of C04 on trees.**  Bytes are emitted (front end completes AND encoder accepts) exactly
when the statement has a meaning that fits the field types and is encodable — and then they are the encoding of that
meaning; in every other case the statement is diagnosed (by the front end, or by the encoder: `Unrepresentable`). -/
theorem stmt_iff {lk : Bytes → Lookup} (hn : NoDef lk) (hT : Simp.tableOk lk) {eval : Arg → EvalOut} (hE : EvalSimp eval lk)
    (loc : Bool) (A : Nat) (name : Bytes) (args : List Arg) (t : Instr) (hm : mnemonic name = some t)
    (hw : wellFormed (tab lk) (sig t) args)
    (hq : ∀ vs, denoteAll (tab lk) (sig t) args = some vs → ¬ svQuirk t vs) (i : Instr) (hws : List Nat) :
    (build A name args eval loc = .completed i ∧ Codec.encode i = .ok hws) ↔
      (means (tab lk) A name args = some i ∧ i.wf ∧ Codec.encode i = .ok hws) := by
  constructor
  · rintro ⟨hb, he⟩
    obtain ⟨h1, h2, _⟩ := stmt_sound hn hT hE loc A name args t hm hw hq i hb hws he
    exact ⟨h1, h2, he⟩
  · rintro ⟨h1, h2, he⟩
    exact ⟨(stmt_complete hn hE loc A name args i h1 h2 hws he).1, he⟩

/-- C04c.d'  … and otherwise a diagnostic: if the statement has no encodable meaning, then the front end reports a
diagnostic, or it completes to an instruction the encoder refuses (`EncodeError::Unrepresentable`, reported by
`write_instr` at the statement). -/
theorem stmt_diagnosed {lk : Bytes → Lookup} (hn : NoDef lk) (hT : Simp.tableOk lk) {eval : Arg → EvalOut} (hE : EvalSimp eval lk)
    (loc : Bool) (A : Nat) (name : Bytes) (args : List Arg) (t : Instr) (hm : mnemonic name = some t)
    (hw : wellFormed (tab lk) (sig t) args)
    (hq : ∀ vs, denoteAll (tab lk) (sig t) args = some vs → ¬ svQuirk t vs)
    (hno : ∀ i hws, ¬ (means (tab lk) A name args = some i ∧ i.wf ∧ Codec.encode i = .ok hws)) :
    (∃ d st, build A name args eval loc = .error d st) ∨
    (∃ i e, build A name args eval loc = .completed i ∧ Codec.encode i = .error e) := by
  rcases stmt_total hn hT hE loc A name args t hm hw with ⟨i, hb⟩ | h
  · right
    cases he : Codec.encode i with
    | error e => exact ⟨i, e, hb, he⟩
    | ok hws => exact absurd ((stmt_iff hn hT hE loc A name args t hm hw hq i hws).1 ⟨hb, he⟩) (hno i hws)
  · exact .inl h

/-- the two concrete evaluators are instances: the pipeline's `Asm.frontEval tbl` and the plain `Show.simpEval lk` -/
theorem evaluators_are_simp (tbl : Asm.Table) (lk : Bytes → Lookup) :
    EvalSimp (Asm.frontEval tbl) (fun n => tbl.get n) ∧ EvalSimp (Show.simpEval lk) lk :=
  ⟨evalSimp_frontEval tbl, evalSimp_simpEval lk⟩

/-! ## names: letter case and aliases -/

/-- C04c.e  Register, system-register and mnemonic lookup ignore letter case; a name denotes register `r` iff its
upper-case form is one of the documented names of `r` (`R13`/`SP`, `R14`/`LR`, `R15`/`PC`); the specification's `denote`
inherits both. -/
theorem names_case_alias (s : Bytes) (r : Reg) (T : SymTable) :
    (regl s = some r ↔ upper s ∈ names r) ∧ regl (upper s) = regl s ∧ sysl (upper s) = sysl s ∧
    mnemonic (upper s) = mnemonic s ∧ denote T .register (.ident (upper s)) = denote T .register (.ident s) :=
  ⟨reg_names s r, regl_upper s, sysl_upper s, mnemonic_upper s, by simp [denote, regl_upper]⟩

/-- C04c.e'  The mnemonic table is complete w.r.t. the names the disassembler prints (`getName`), plus exactly three
alias spellings: every entry is the canonical name of its own template (with the flags bit of `MOV`/`MOVS` from the
name), or one of `BCS`=`BHS`, `BCC`=`BLO`, `BICS`=`BIC`. -/
theorem mnemonic_table_names : ∀ p ∈ mnemonicTable,
    (mnemonic p.1).isSome = true ∧
    ((mnemonic p.1).map fun t => bytesOf (getName t)) ∈
      [some p.1, (if p.1 = bytesOf "BCS" then some (bytesOf "BHS") else none),
       (if p.1 = bytesOf "BCC" then some (bytesOf "BLO") else none),
       (if p.1 = bytesOf "BICS" then some (bytesOf "BIC") else none)] := by decide

/-! ## non-vacuity -/

def exLk : Bytes → Lookup := fun s => if s = bytesOf "label" then .found 0x20000100 else .notFound
theorem exLk_nodef : NoDef exLk := by intro s; unfold exLk; split <;> simp
theorem exLk_ok : Simp.tableOk exLk := by
  intro s v h; unfold exLk at h; split at h <;> simp at h; subst h; decide

/-- `ldr r0, [4 + sp]` — lower case, alias, offset first -/
example : means (tab exLk) 0 (bytesOf "ldr") [.ident (bytesOf "r0"), .addr (.bin .add (.const 4) (.ident (bytesOf "sp")))]
    = some (.ldr 0 13 (.imm 4)) ∧ Codec.encode (.ldr 0 13 (.imm 4)) = .ok [0x9801] ∧
    build 0 (bytesOf "ldr") [.ident (bytesOf "r0"), .addr (.bin .add (.const 4) (.ident (bytesOf "sp")))]
      (Show.simpEval exLk) true = .completed (.ldr 0 13 (.imm 4)) := by
  refine ⟨by decide, rfl, ?_⟩
  exact (stmt_complete exLk_nodef (evalSimp_simpEval exLk) true 0 _ _ _ (by decide) (by decide) [0x9801] rfl).1

/-- `ADDS R1, 300` (wrong operand count) and `ADDS R1, R1, 300` (out of range) have no encodable meaning -/
example : means (tab exLk) 0 (bytesOf "ADDS") [.ident (bytesOf "R1"), .const 300] = none ∧
    means (tab exLk) 0 (bytesOf "ADDS") [.ident (bytesOf "R1"), .ident (bytesOf "R1"), .const 300] = some (.add true 1 1 (.imm 300)) ∧
    Codec.encode (.add true 1 1 (.imm 300)) = .error .unrepresentable := by
  refine ⟨by decide, by decide, rfl⟩

/-- `B label` backward and forward, `ADR`: offsets from the statement's own address -/
example : means (tab exLk) 0x20000200 (bytesOf "B") [.ident (bytesOf "label")] = some (.b 14 (-260)) ∧
    means (tab exLk) 0x20000000 (bytesOf "b") [.ident (bytesOf "label")] = some (.b 14 252) ∧
    means (tab exLk) 0x200000F2 (bytesOf "ADR") [.ident (bytesOf "R2"), .bin .add (.ident (bytesOf "label")) (.const 8)]
      = some (.adr 2 20) := by
  refine ⟨by decide, by decide, by decide⟩

/-- the hypotheses are satisfiable: `LDRB R1, [R2 + label - label + 3]` is not `doc`, `[R2 + 3]` is -/
example : wellFormed (tab exLk) (sig (.ldrb 0 0 (.imm 0))) [.ident (bytesOf "R1"), .addr (.bin .add (.ident (bytesOf "R2")) (.const 3))] := by
  refine ⟨fun h => by simp [evaluated] at h, fun _ => ⟨by decide, by decide, by decide⟩, trivial⟩

/-- **finding (barrier option)**: `DMB SV` — `SV` is no barrier option — is accepted by the front end like `DMB SY`
(`src/arm6m/mod.rs`: `eq_ignore_ascii_case("SY") && …("SV")`), the specification gives it no meaning -/
example : build 0 (bytesOf "DMB") [.ident (bytesOf "SV")] (Show.simpEval exLk) true = .completed .dmb ∧
    means (tab exLk) 0 (bytesOf "DMB") [.ident (bytesOf "SV")] = none := by
  refine ⟨rfl, by decide⟩

/-! ## the whole-pipeline model (`Asm`) -/

/-- C04c.f  **Pipeline, statement level (any symbol table).**  In the pipeline model, an instruction statement
`name args` met while the constant table of the file is `tbl` (whatever `.const`/label statements built it; no
`.import`-deferred entry) and the open region's cursor is at `A = seg.cur`: if the statement MEANS `i`
(`means (tabOf tbl) A name args = some i`), `i` fits its field types and the encoder accepts it (`hws`), and the bytes
fit the region, then `Asm.statement` appends exactly the little-endian bytes of `hws` at `A`, records the statement as
placed, and reports no diagnostic. -/
theorem stmt_placed (fs : Bytes → Option Bytes) (inc : Asm.Inc) (env : Asm.Env) (st : Asm.St) (tbl : Asm.Table)
    (hnd : Asm.Table.NoDef tbl) (henv : env.paths ≠ []) (hl : st.locals = some tbl) (l c : Nat) (name : Bytes) (args : Args)
    (map : Map.Segs) (seg : Seg.Active) (pending : List (Nat × Nat)) (hs : st.seg = ⟨map, some seg, pending⟩)
    (i : Instr) (hmeans : means (tabOf tbl) seg.cur name args.toList = some i) (hwf : i.wf)
    (hws : List Nat) (he : Codec.encode i = .ok hws)
    (hfit : seg.buf.length + 2 * hws.length ≤ seg.maxLen) :
    Asm.statement fs Asm.encoder inc env st ⟨l, c, .instruction name args⟩ =
      .ok ({ st with seg := ⟨map, some { seg with buf := seg.buf ++ (Codec.toBytes hws).map (·.toUInt8) },
                              (seg.cur, 2 * hws.length) :: pending⟩ }, .ok) ∧
    Arm.decode hws = some i := by
  have hb := (stmt_complete (Asm.Table.nodef_get hnd) (evalSimp_frontEval tbl) true seg.cur name args.toList i hmeans hwf hws he)
  have hlen := (Codec.enc_len i hws he hwf).1
  have henc := Asm.encoder_ok i hws he (by omega)
  have hbl : ((Codec.toBytes hws).map (·.toUInt8)).length = 2 * hws.length := by simp [Asm.toBytes_length]
  have := Asm.instr_ok fs Asm.encoder inc env st tbl henv hl l c name args map seg pending hs i hb.1 _ henc (by rw [hbl]; exact hfit)
  rw [hbl] at this
  exact ⟨this, hb.2⟩

/-- non-vacuity of `stmt_placed`: a table defining `label`, `B label` at 0x20000200 -/
example : Asm.Table.NoDef [(bytesOf "label", some 0x20000100)] ∧
    means (tabOf [(bytesOf "label", some 0x20000100)]) 0x20000200 (bytesOf "B") [.ident (bytesOf "label")] = some (.b 14 (-260)) := by
  refine ⟨?_, by decide⟩
  intro n; simp only [Asm.Table.find]; split <;> simp

/-- C04c.g  **Text level, through the whole pipeline model** (`_partial`: symbol-free statements; see the header).
For every program text that the tokenizer and parser models read as the two statements `.addr A;` and ONE instruction
statement `name args` (any spelling, spacing, radix, comments — whatever `Lex`/`Parse` accept; C09–C12 tie text, tokens,
trees and positions): if the statement means `i` over the empty symbol table, `i` fits its field types, the encoder
accepts it and the bytes fit below 2^32, then `Asm.run` succeeds, records NO diagnostic, and the image is exactly the
encoding of `i` at `A` — which the ARMv6-M table reads as `i`. -/
theorem run_addr_stmt_partial (fs : Bytes → Option Bytes) (main data : Bytes) (hfs : fs main = some data)
    (els : List Element) (hp : Asm.parseFile data = .ok (els, none)) (A : Nat) (name : Bytes) (args : Args)
    (hels : els.map (·.val) = [.directive (bytesOf "addr") (Args.ofList [.const A]), .instruction name args])
    (i : Instr) (hmeans : means (tabOf []) A name args.toList = some i) (hwf : i.wf)
    (hws : List Nat) (he : Codec.encode i = .ok hws) (hfit : A + 2 * hws.length ≤ 4294967296) :
    Asm.run fs main = .done ⟨true, none, true, [], [(A, (Codec.toBytes hws).map (·.toUInt8))]⟩ ∧
    Arm.decode hws = some i := by
  have hlen := (Codec.enc_len i hws he hwf).1
  have ha : A < 4294967296 := by omega
  have hblen : ((Codec.toBytes hws).map (·.toUInt8)).length = 2 * hws.length := by simp [Asm.toBytes_length]
  obtain ⟨e1, r1, rfl, h1, hr1⟩ := List.map_eq_cons_iff.mp hels
  obtain ⟨e2, r2, rfl, h2, hr2⟩ := List.map_eq_cons_iff.mp hr1
  have : r2 = [] := by simpa using hr2
  subst this
  obtain ⟨l1, c1, v1⟩ := e1
  obtain ⟨l2, c2, v2⟩ := e2
  simp only at h1 h2
  subst h1 h2
  let seg : Seg.Active := ⟨A, [] ++ (Codec.toBytes hws).map (·.toUInt8), Map.u32Max - A + 1⟩
  have haddr : Asm.statement fs Asm.encoder (Asm.assembleFile fs Asm.encoder (Asm.maxDepth - 1)) ⟨[main], main⟩
        ⟨Seg.init, [], some [], [], some [], []⟩ ⟨l1, c1, .directive (bytesOf "addr") (Args.ofList [.const A])⟩ =
      .ok (⟨⟨[], some ⟨A, [], Map.u32Max - A + 1⟩, []⟩, [], some [], [], some [], []⟩, .ok) := by
    have := Asm.addr_ok fs (Asm.assembleFile fs Asm.encoder (Asm.maxDepth - 1)) ⟨[main], main⟩
      ⟨Seg.init, [], some [], [], some [], []⟩ [] (by simp) rfl rfl l1 c1 (A : Int) (by omega) (by omega)
    simp only [Asm.statement, Show.toList_ofList, this]
    simp
  have hinstr := (stmt_placed fs (Asm.assembleFile fs Asm.encoder (Asm.maxDepth - 1)) ⟨[main], main⟩
      ⟨⟨[], some ⟨A, [], Map.u32Max - A + 1⟩, []⟩, [], some [], [], some [], []⟩ []
      (by intro n; simp [Asm.Table.find]) (by simp) rfl l2 c2 name args [] ⟨A, [], Map.u32Max - A + 1⟩ [] rfl i
      (by rw [Show.cur_empty A _ ha]; exact hmeans) hwf hws he (by simp only [List.length_nil, Map.u32Max]; omega))
  have key : Asm.doAssemble fs Asm.encoder (Asm.assembleFile fs Asm.encoder (Asm.maxDepth - 1)) ⟨[main], main⟩
      [⟨l1, c1, .directive (bytesOf "addr") (Args.ofList [.const A])⟩, ⟨l2, c2, .instruction name args⟩] none
      ⟨Seg.init, [], some [], [], some [], []⟩ =
      .ok (⟨⟨[], some seg, [(A, ((Codec.toBytes hws).map (·.toUInt8)).length)]⟩, [], some [], [], some [], []⟩, .ok) := by
    simp only [Asm.doAssemble]
    rw [haddr]
    simp only
    rw [hinstr.1, Show.cur_empty A _ ha, hblen]
  have hrun := Asm.run_of_statements fs main data hfs _ hp [] seg
    [(A, ((Codec.toBytes hws).map (·.toUInt8)).length)] key
    (by
      intro e
      have e' : (([] : Bytes) ++ (Codec.toBytes hws).map (·.toUInt8)) = [] := e
      have := congrArg List.length e'
      simp only [List.nil_append, hblen, List.length_nil] at this
      omega)
    (by show A + (([] : Bytes) ++ (Codec.toBytes hws).map (·.toUInt8)).length ≤ 4294967296
        simp only [List.nil_append, hblen]; exact hfit)
  exact ⟨by simpa [seg] using hrun, hinstr.2⟩

end Trion.C04
