import TrionModel.Lemmas.AsmHist
import TrionModel.Lemmas.AsmEnc
import TrionModel.Props.C05
/-!
# C05 (pipeline clause) — the image of the whole pipeline is an image of the layout core

Models: `Trion.Asm.run` (the whole `Context` pipeline, Model/Asm.lean), `Trion.Seg` (the region machine over the
`MemoryMap` model that `Asm.run` drives, C13) and `Trion.Layout` (the layout core of C05, whose `run` is proved
to refine the two-pass reference `Ref.layout` — `Layout.layout_refines`).

Proved here:
* `Trion.SegLayout.step_sim` (Lemmas/AsmLayout.lean): under the region invariant every region operation of `Seg`
  that does not end in a diagnostic (`.addr`, an append, the padding of `.align`, the first write of a
  statement, the rewrite of a placed statement, `close_segment`) is matched by the operation of the layout core,
  which succeeds too and leaves the same closed image and the same active region (relation `R`);
* `Trion.Asm.run_history` (Lemmas/AsmHist.lean): the regions of a successful run — ANY project: includes,
  `.global`, forward references — are reached from the empty regions by a history of legal region operations
  none of which ended in a diagnostic (the history is carried through every statement, task, loop and file by
  the invariant proofs of C06);
* `image_is_layout_core`: hence the image a successful run outputs is, address by address, the closed image the
  layout core of C05 computes for the same sequence of region operations.

FULL-STRENGTH STATEMENT (kept visible; not proved):
    theorem layout_refines_asm : run fs main = .done o → o.success → SingleFile fs main →
      ∃ p : List Layout.Stmt, IsAbstraction fs main p ∧ Layout.run p = .ok img ∧ ∀ a, img.get a = abs o.image a
  (so that `Layout.layout_refines` gives `abs o.image = Ref.layout p`).  What exists towards it:
  * the deferred path as exact equations (Lemmas/AsmDefer.lean): `instr_deferred` (placeholder of the final length +
    queued task carrying the front-end state), `instr_task_active` / `task_rewrites_range` (the task rewrites exactly
    the placeholder range with the final bytes, nothing else changes), `localLoop_chain`, `run_of_statements_tasks`;
    used end to end for printed programs in C19 `show_run_forward` and C20 `listing_roundtrip`;
  * the region-level theorem below, for every project.
  Still missing for the program-level statement on ARBITRARY single-file sources: (i) the history of a single-file run
  has the shape statements ++ rewrites ++ [close] — the history carried by `Ext` is existential and does not record
  that statements only `place` and tasks only `rewrite`; (ii) the queue of `Asm` lists exactly the deferred first writes
  in order, so that the rewrites are the `runTasks` of `Layout.run` for the program whose `emit` statements carry the
  bytes the tasks write; (iii) that these bytes are the statement's bytes in the final symbol table for arbitrary
  operand expressions — the general retry theorem for `Front.assemble` over a growing table (C08 `retry_commutes` /
  `eval_commutes` per operand, plus the stability of already evaluated operands); for the printed instructions of
  C19/C20 this is `Show.show_retry`.  The correspondence run compares `Asm.run`, `Layout.run` of the harness's
  abstraction and the reference on every generated program (`model.asm.run`, `model.layout.run`, `model.layout.ref`).
-/
namespace Trion.Asm
open Trion Trion.SegLayout

/-- C05 (pipeline, region level)  The image of every successful run of the whole pipeline is the closed image the
layout core computes by replaying the run's region operations: there is a history `tr` of legal region
operations from the empty regions, none ending in a diagnostic, whose replay on `Layout` (`lfold`) succeeds and
yields, address by address, the output image. -/
theorem image_is_layout_core (fs : Bytes → Option Bytes) (main : Bytes) (o : Outcome) (h : run fs main = .done o)
    (hs : o.success = true) :
    ∃ (tr : List (Seg.Op × Seg.Out)) (l : Layout.State), diags tr = 0 ∧ lfold {} tr = .ok l ∧
      ∀ a, l.closed.get a = Map.abs o.image a := by
  obtain ⟨tr, s', hp, hd, hm⟩ := run_history encoder_len fs main o h hs
  have r0 : R Seg.init ({} : Layout.State) := ⟨fun _ => rfl, rfl⟩
  obtain ⟨l, hl, r, _, _⟩ := path_sim hp hd r0
  exact ⟨tr, l, hd, hl, fun a => by rw [← hm]; exact (r.1 a).symm⟩

/-- the region operations of a program of the layout core are the ones `lfold` replays: for the statement kinds
that only touch the regions, `Layout.step` IS `lstep` of the matching operation -/
theorem lstep_is_step (l : Layout.State) :
    (∀ a, lstep l (.select a) = Layout.step l (.addr a)) ∧ (∀ d, lstep l (.append d) = Layout.step l (.raw d)) ∧
    (∀ d, lstep l (.place d) = Layout.step l (.raw d)) := ⟨fun _ => rfl, fun _ => rfl, fun _ => rfl⟩

-- non-vacuity: a history with a region switch replays on the layout core
example : lfold {} [(.select 4, .ok), (.append [1, 2], .ok), (.select 0, .ok), (.append [9], .ok), (.close, .ok)] =
    .ok { closed := [(0, 9), (4, 1), (5, 2)], active := none } := rfl

end Trion.Asm
