import TrionModel.Lemmas.AsmHist
import TrionModel.Lemmas.AsmEnc
import TrionModel.Props.C05
import TrionModel.Lemmas.AsmRefineRun
/-!
# C05 (pipeline clause) — the image of the whole pipeline is an image of the layout core

Models: `Trion.Asm.run` (the whole `Context` pipeline, Model/Asm.lean), `Trion.Seg` (the region machine over the
`MemoryMap` model that `Asm.run` drives, C13) and `Trion.Layout` (the layout core of C05, whose `run` is proved
to refine the two-pass reference `Ref.layout` — `Layout.layout_refines`).

Proved here:
* `Trion.SegLayout.step_sim` (Lemmas/AsmLayout.lean): under the region invariant every region operation of `Seg`
  that does not end in a diagnostic (`.addr`, an append, the padding of `.align`, the first write of a
  statement, the rewrite of a placed statement, `close_segment`) is matched by the operation of the layout core,
  which succeeds too and leaves the same closed image and the same active region (relation `R`);
* `Trion.Asm.run_history` (Lemmas/AsmHist.lean): the regions of a successful run — ANY project: includes,
  `.global`, forward references — are reached from the empty regions by a history of legal region operations
  none of which ended in a diagnostic (the history is carried through every statement, task, loop and file by
  the invariant proofs of C06);
* `image_is_layout_core`: hence the image a successful run outputs is, address by address, the closed image the
  layout core of C05 computes for the same sequence of region operations.

PROGRAM-LEVEL STATEMENT (proved below, `layout_refines_asm`): for a project consisting of ONE file without
`.include / .global / .import / .export` whose operand trees are `plain` (`SingleFile`, a predicate on the parsed
elements), a successful run's image IS the two-pass reference layout of the program:
    run fs main = .done o → o.success →
      ∃ t₂, with p := abstract num fs encoder main t₂ none els:
        (∀ s ∈ p, s.wf) ∧ Layout.run p = .ok img ∧ (∀ a, abs o.image a = img.get a) ∧
        Ref.pass2 none [] p = some img' ∧ (∀ a, abs o.image a = img'.get a) ∧
        (NoLabelAtTop p → Ref.layout p = some img'' ∧ (∀ a, abs o.image a = img''.get a) ∧
                          Ref.pass1 none [] p = some env ∧ EnvRel num t₂ env)
  `abstract` (Lemmas/AsmAbs.lean) turns the parsed statements into `Layout.Stmt`s given the file's FINAL symbol table
  `t₂` and the reference cursor: `.addr a`, `.align n`, `label`, `const` with its value and the names it needs, `raw` for
  `.dstr/.dhex/.dfile` and for instructions / `.du*` whose evaluated operands contain no identifier, `emit len deps final`
  otherwise (`final` = the statement's bytes with every name taken from `t₂`).  The last clause closes the loop: `t₂`
  is, name by name, the symbol table `Ref.pass1` computes for that very program.
  The three gaps of the previous round are closed by: (i)+(ii) the statement-by-statement simulation `statement_sim`
  (Lemmas/AsmRefineStmt.lean: one statement of `Asm` = one `Layout.step` on its abstraction, the local queue of `Asm` and
  the task list of the layout core related entry by entry — `TasksRel`), `doAssemble_sim`, `runTask_sim`,
  `localLoop_sim`, `run_sim` (Lemmas/AsmRefineRun.lean); (iii) the general retry theorem `Front.assemble_retry` /
  `Asm.data_retry` (Lemmas/AsmRetry.lean, property level: Props/C08Asm.lean).
  Hypothesis `plain` (every sub-tree an interrupted evaluation has completed is a leaf, register-free arithmetic or
  `Rn + c`):
  was needed as long as `evaluate` was not idempotent on its own output (K4, K5; see Props/C05AsmFull.lean for the
  statement without it); it covers `imm`,
  `label ± expr`, `[Rn + expr]`, `[expr + Rn]`, `[Rn + sym + 4]`, `[Rn + 4 + sym]`, register lists, every `.du*`
  arithmetic.
  `NoLabelAtTop` is needed for `Ref.layout` (pass 1) only, exactly as in `Layout.ref_defined`.
-/
namespace Trion.Asm
open Trion Trion.SegLayout

/-- C05 (pipeline, region level)  The image of every successful run of the whole pipeline is the closed image the
layout core computes by replaying the run's region operations: there is a history `tr` of legal region
operations from the empty regions, none ending in a diagnostic, whose replay on `Layout` (`lfold`) succeeds and
yields, address by address, the output image. -/
theorem image_is_layout_core (fs : Bytes → Option Bytes) (main : Bytes) (o : Outcome) (h : run fs main = .done o)
    (hs : o.success = true) :
    ∃ (tr : List (Seg.Op × Seg.Out)) (l : Layout.State), diags tr = 0 ∧ lfold {} tr = .ok l ∧
      ∀ a, l.closed.get a = Map.abs o.image a := by
  obtain ⟨tr, s', hp, hd, hm⟩ := run_history encoder_len fs main o h hs
  have r0 : R Seg.init ({} : Layout.State) := ⟨fun _ => rfl, rfl⟩
  obtain ⟨l, hl, r, _, _⟩ := path_sim hp hd r0
  exact ⟨tr, l, hd, hl, fun a => by rw [← hm]; exact (r.1 a).symm⟩

/-- the region operations of a program of the layout core are the ones `lfold` replays: for the statement kinds
that only touch the regions, `Layout.step` IS `lstep` of the matching operation -/
theorem lstep_is_step (l : Layout.State) :
    (∀ a, lstep l (.select a) = Layout.step l (.addr a)) ∧ (∀ d, lstep l (.append d) = Layout.step l (.raw d)) ∧
    (∀ d, lstep l (.place d) = Layout.step l (.raw d)) := ⟨fun _ => rfl, fun _ => rfl, fun _ => rfl⟩

-- non-vacuity: a history with a region switch replays on the layout core
example : lfold {} [(.select 4, .ok), (.append [1, 2], .ok), (.select 0, .ok), (.append [9], .ok), (.close, .ok)] =
    .ok { closed := [(0, 9), (4, 1), (5, 2)], active := none } := rfl


/-! ## the program-level theorem -/

/-- a single-file project: no `.include / .global / .import / .export`, every operand tree `plain` -/
def SingleFile (els : List Element) : Prop := ∀ el ∈ els, okEl el = true ∧ plainEl el = true

theorem valueStmt_wf (num : Bytes → Nat) {len : Nat} (deps : List Bytes) {final : Bytes} (h : final.length = len) :
    (valueStmt num len deps final).wf = true := by
  unfold valueStmt
  split <;> simp [Layout.Stmt.wf, h]

theorem absStmt_wf (num : Bytes → Nat) (fs : Bytes → Option Bytes) (path : Bytes) (t : Table) (c : Option Nat) (el : Element) :
    (absStmt num fs encoder path t c el).wf = true := by
  unfold absStmt
  repeat' split
  all_goals first
    | rfl
    | exact valueStmt_wf num _ (instrFinal_length encoder_len _ _ _ _)
    | exact valueStmt_wf num _ (duFinal_length _ _ _)

/-- the abstraction is a well-formed program of the layout core: every `emit` has bytes of the declared length -/
theorem abstract_wf (num : Bytes → Nat) (fs : Bytes → Option Bytes) (path : Bytes) (t : Table) :
    ∀ (els : List Element) (c : Option Nat), ∀ s ∈ abstract num fs encoder path t c els, s.wf = true := by
  intro els
  induction els with
  | nil => intro c s hs; simp [abstract] at hs
  | cons el els ih =>
    intro c s hs
    simp only [abstract, List.mem_cons] at hs
    rcases hs with rfl | hs
    · exact absStmt_wf ..
    · exact ih _ s hs

/-- C05 (pipeline, program level)  **`layout_refines_asm`**.  A single-file project (`SingleFile` on the parsed
elements of the main file), any numbering `num` of the symbol names: if the whole pipeline `Asm.run` succeeds, then
there is a symbol table `t₂` — the file's final table — such that for the program `p = abstract … t₂ none els`
(every value-dependent statement carrying the bytes it has when all names are taken from `t₂`):
* `p` is well formed and `Layout.run p` succeeds with, address by address, the output image;
* the image is the `pass2` image of the two-pass reference (every statement's bytes at its address, in source order);
* if no label stands at the cursor 2^32, `Ref.layout p` is defined and equals the image, and `t₂` is the symbol
  table of the reference's pass 1 (so the bytes of `p` are the bytes in the reference's own final table). -/
theorem layout_refines_asm {num : Bytes → Nat} (hinj : Function.Injective num) (fs : Bytes → Option Bytes) (main data : Bytes)
    (hfs : fs main = some data) (els : List Element) (perr : Option ParseErr) (hparse : parseFile data = .ok (els, perr))
    (hsf : SingleFile els) (o : Outcome) (h : run fs main = .done o) (hs : o.success = true) :
    ∃ t₂ : Table,
      (∀ s ∈ abstract num fs encoder main t₂ none els, s.wf = true) ∧
      (∃ img, Layout.run (abstract num fs encoder main t₂ none els) = .ok img ∧ ∀ a, Map.abs o.image a = img.get a) ∧
      (∃ img', Layout.Ref.pass2 none [] (abstract num fs encoder main t₂ none els) = some img' ∧
        ∀ a, Map.abs o.image a = img'.get a) ∧
      (Layout.NoLabelAtTop (abstract num fs encoder main t₂ none els) →
        ∃ img'' env, Layout.Ref.layout (abstract num fs encoder main t₂ none els) = some img'' ∧
          (∀ a, Map.abs o.image a = img''.get a) ∧
          Layout.Ref.pass1 none [] (abstract num fs encoder main t₂ none els) = some env ∧ EnvRel num t₂ env) := by
  obtain ⟨t₂, img, lst, _, hsteps, henvr, hrun, himg⟩ := run_sim hinj fs main data hfs els perr hparse (fun el hel => (hsf el hel).1) o h hs
  have hwf := abstract_wf num fs main t₂ els none
  refine ⟨t₂, hwf, ⟨img, hrun, himg⟩, ?_, fun hl => ?_⟩
  · obtain ⟨img', p1, p2⟩ := Layout.run_is_pass2 _ img hrun hwf
    exact ⟨img', p1, fun a => by rw [himg a, p2 a]⟩
  · have hdef := Layout.ref_defined _ img hrun hwf hl
    cases hr : Layout.Ref.layout (abstract num fs encoder main t₂ none els) with
    | none => exact absurd hr hdef
    | some img'' =>
      have heq := Layout.layout_refines _ img img'' hrun hwf hr
      exact ⟨img'', lst.env, rfl, fun a => by rw [himg a, heq a], Layout.symbols_agree _ lst hsteps hwf hl, henvr⟩

/-- C05 (no placeholder survives, program level): in the image of a successful single-file run every statement of the
abstraction stands with its final bytes at its reference address — in particular every instruction / `.du*` that was
written as 0xBE… when it was met and rewritten by the task queue. -/
theorem every_statement_placed_asm {num : Bytes → Nat} (hinj : Function.Injective num) (fs : Bytes → Option Bytes)
    (main data : Bytes) (hfs : fs main = some data) (els : List Element) (perr : Option ParseErr)
    (hparse : parseFile data = .ok (els, perr)) (hsf : SingleFile els) (o : Outcome) (h : run fs main = .done o)
    (hs : o.success = true) :
    ∃ t₂ : Table, ∀ q r s, abstract num fs encoder main t₂ none els = q ++ s :: r → s.emits = true →
      ∃ c, Layout.Ref.cursorAfter none q = some c ∧
        ∀ i, i < (Layout.Ref.bytes c s).length → Map.abs o.image (c + i) = (Layout.Ref.bytes c s)[i]? := by
  obtain ⟨t₂, img, lst, _, _, _, hrun, himg⟩ := run_sim hinj fs main data hfs els perr hparse (fun el hel => (hsf el hel).1) o h hs
  refine ⟨t₂, fun q r s hp hs' => ?_⟩
  obtain ⟨c, h1, h2⟩ := Layout.every_statement_placed _ q r s img hrun (abstract_wf num fs main t₂ els none) hp hs'
  exact ⟨c, h1, fun i hi => by rw [himg]; exact h2 i hi⟩

/-! ### non-vacuity

The statements `.addr 16; B x; .du16 y + 1; x: ; .const y, 6` (forward references in an instruction and in a data
directive): the predicate `SingleFile` holds, the abstraction over the final table `{x ↦ 20, y ↦ 6}` is the expected
program of the layout core, and `Layout.run` and the reference agree on it.  (That `Asm.run` succeeds on sources like
this one — forward branches, labels, data — is C19 `show_run_forward` / C20 `listing_roundtrip`; the correspondence run
evaluates `Asm.run`, `Layout.run` of this abstraction and the reference on every generated program.) -/

def exEls : List Element :=
  [⟨1, 1, .directive (bytesOf "addr") (.cons (.const 16) .nil)⟩,
   ⟨2, 1, .instruction [66] (.cons (.ident [120]) .nil)⟩,
   ⟨3, 1, .directive (bytesOf "du16") (.cons (.bin .add (.ident [121]) (.const 1)) .nil)⟩,
   ⟨4, 1, .label [120]⟩,
   ⟨5, 1, .directive (bytesOf "const") (.cons (.ident [121]) (.cons (.const 6) .nil))⟩]

def exNum : Bytes → Nat := fun b => b.foldl (fun n x => n * 257 + x.toNat + 1) 0

example : SingleFile exEls := by
  intro el hel
  simp only [exEls, List.mem_cons, List.not_mem_nil, or_false] at hel
  rcases hel with rfl | rfl | rfl | rfl | rfl <;> exact ⟨by decide, by rfl⟩

example : abstract exNum (fun _ => none) encoder [109] [([120], some 20), ([121], some 6)] none exEls =
      [.addr 16, .emit 2 [121] [0, 224], .emit 2 [122] [7, 0], .label 121, .const 122 [] 6] ∧
    Layout.run [.addr 16, .emit 2 [121] [0, 224], .emit 2 [122] [7, 0], .label 121, .const 122 [] 6] =
      .ok [(16, 0), (17, 224), (18, 7), (19, 0)] ∧
    Layout.Ref.layout [.addr 16, .emit 2 [121] [0, 224], .emit 2 [122] [7, 0], .label 121, .const 122 [] 6] =
      some [(18, 7), (19, 0), (16, 0), (17, 224)] := ⟨by rfl, by rfl, by rfl⟩

end Trion.Asm
