import TrionModel.Model.TriasMain
import TrionModel.Props.C18Run
import TrionModel.Props.C06Asm
/-!
# C18, file-level clause — `trias` from its arguments to the output file

`Model/TriasMain.lean` models `main` + `assemble` of `src/bin/assembler.rs` in front of the post-processing:
`Trias.mainOut fs main` is what `trias <main> <out>` does to the output file. The theorems:

* `main_failure_keeps_file` — **"when assembly fails no output file is created or modified"**: whenever the run
  recorded a diagnostic or `close_segment` failed, the output file afterwards is what it was before (absent stays
  absent, an existing file keeps its content), whatever it was.
* `main_refused_keeps_file` — the same for every other way of not succeeding: empty output, a program occupying the
  boot-sector checksum word, a missing source file.
* `main_written_iff` — a file is written exactly when the run finished without any diagnostic and the
  post-processing of its image delivered the bytes; `main_written` — and then every conclusion of C18 holds of the
  written bytes (composition with `trias_of_run`).
* `post_no_panic` — the post-processing never panics on an image inside the address space;
  `main_cases` — totality: written, refused, or aborted for a missing source / an include depth beyond the model's
  bound (K2); never a panic of the assembler or of the post-processing, never a diverging task loop.
Tie: `trias main <project>` of the driver is compared with the real executable (output file absent / unchanged /
bytes) on every generated C18 project.
-/
namespace Trion.Trias
open Trion Trion.Asm Trion.Uf2

/-- no `write_all` of the post-processing panics -/
theorem writeSegs_no_panic (segs : List Seg) : ∀ (st : Uf2.St), Inv st → Trias.Addr32 segs →
    ∀ s, writeSegs st segs ≠ .error (.panic s) := by
  induction segs with
  | nil => intro st _ _ s h; simp [writeSegs] at h
  | cons fd r ih =>
    intro st hI ha s
    obtain ⟨f, d⟩ := fd
    have hf : f < 4294967296 := ha (f, d) (by simp)
    rcases writeAll_spec st hI f hf d false with ⟨st1, h1, hI1, _, _⟩ | ⟨e, h1, _⟩
    · simp only [writeSegs, h1]
      exact ih st1 hI1 (fun x hx => ha x (by simp [hx])) s
    · simp [writeSegs, h1]

/-- C18.F0 `post_no_panic`  The post-processing of `assemble()` (checksum insertion, page padding, UF2 writer, the
writer's `Drop`) never panics on an image inside the 32-bit address space: no `assert_eq!` of the padding loop,
no slice bound of the writer, no `unwrap`. -/
theorem post_no_panic (m : List Seg) (ha : Trias.Addr32 m) (s : String) : post m ≠ .error (.panic s) := by
  unfold post
  split
  · simp
  · cases hb : bootCrc m with
    | error e =>
      simp only
      unfold bootCrc at hb
      split at hb
      · split at hb
        · cases hb; simp
        · cases hb
      · cases hb
    | ok m1 =>
      have hn : newVec (some 0xE48BFF56) 256 256 0 = .ok st0 := rfl
      simp only [hn]
      have ha1 := bootCrc_addr32 m m1 ha hb
      have hps := padAll_starts m1 ha1
      have ha2 : Trias.Addr32 (padAll m1) := fun x hx => (hps x hx).2
      cases hw : writeSegs st0 (padAll m1) with
      | error e =>
        simp only
        intro he
        cases he
        exact writeSegs_no_panic _ st0 st0_inv ha2 s hw
      | ok st' =>
        simp only
        obtain ⟨hI, hE⟩ := writeSegs_spec (padAll m1) st0 st' st0_inv ha2 hw
        have hout : st'.out = encAll st'.cfg 0 (segsBlks st0 (padAll m1)) := by rw [hE.out, hE.cfg]; rfl
        have hlen : (segsBlks st0 (padAll m1)).length = st'.count := by rw [hE.count]; simp [st0]
        obtain ⟨f1, _, _⟩ := finish_spec st' hI _ hE.ok hout hlen
        rw [f1]
        simp

/-- the image of a finished run lies inside the address space -/
theorem run_image_addr32 (fs : Bytes → Option Bytes) (main : Bytes) (o : Outcome) (h : run fs main = .done o) :
    Trias.Addr32 o.image := by
  have hn := run_image_norm fs main o h
  exact Norm.addr32 o.image hn

/-- success of a finished run is exactly: no diagnostic, no close error -/
theorem success_iff (fs : Bytes → Option Bytes) (main : Bytes) (o : Outcome) (h : run fs main = .done o) :
    o.success = true ↔ o.diags = [] ∧ o.closeErr = none := by
  have ro := run_outcome fs main o h
  have rp := run_outcome_partial fs main o h
  constructor
  · intro hs; exact rp.1 hs
  · intro ⟨hd, hc⟩
    cases hs : o.success with
    | true => rfl
    | false => rcases ro.2 hs with h1 | h1 <;> contradiction

/-- C18.F1 `main_failure_keeps_file`  When assembly fails — a diagnostic was recorded or the final region could not be
closed — no output file is created or modified. -/
theorem main_failure_keeps_file (fs : Bytes → Option Bytes) (main : Bytes) (o : Outcome) (h : run fs main = .done o)
    (hfail : o.diags ≠ [] ∨ o.closeErr ≠ none) (before : Option (List UInt8)) :
    mainOut fs main = .refused .asmFailed ∧ fileAfter before (mainOut fs main) = before := by
  have hs : o.success = false := by
    cases hs : o.success with
    | false => rfl
    | true =>
      have := (success_iff fs main o h).mp hs
      rcases hfail with h1 | h1
      · exact absurd this.1 h1
      · exact absurd this.2 h1
  have : mainOut fs main = .refused .asmFailed := by
    simp [mainOut, h, ofOutcome, hs]
  exact ⟨this, by rw [this]; rfl⟩

/-- C18.F2 `main_refused_keeps_file`  Every outcome other than `written` leaves the output file as it was. -/
theorem main_refused_keeps_file (fs : Bytes → Option Bytes) (main : Bytes) (before : Option (List UInt8))
    (h : ∀ f, mainOut fs main ≠ .written f) : fileAfter before (mainOut fs main) = before := by
  cases hm : mainOut fs main with
  | written f => exact absurd hm (h f)
  | refused r => rfl
  | aborted a => rfl

/-- C18.F3 `main_written_iff`  A file is written exactly when the run finished without a diagnostic and the
post-processing of its image delivered these bytes. -/
theorem main_written_iff (fs : Bytes → Option Bytes) (main : Bytes) (f : List UInt8) :
    mainOut fs main = .written f ↔
      ∃ o, run fs main = .done o ∧ o.diags = [] ∧ o.closeErr = none ∧ post o.image = .ok f := by
  constructor
  · intro hm
    unfold mainOut at hm
    cases hr : run fs main with
    | done o =>
      rw [hr] at hm
      simp only [ofOutcome] at hm
      cases hs : o.success with
      | false => simp [hs] at hm
      | true =>
        simp only [hs, if_true] at hm
        have hd := (success_iff fs main o hr).mp hs
        cases hp : post o.image with
        | ok g =>
          rw [hp] at hm
          cases hm
          exact ⟨o, rfl, hd.1, hd.2, hp⟩
        | error e =>
          rw [hp] at hm
          cases e <;> cases hm
    | noMain => rw [hr] at hm; cases hm
    | panic => rw [hr] at hm; cases hm
    | fuel => rw [hr] at hm; cases hm
    | loop => rw [hr] at hm; cases hm
  · intro ⟨o, hr, hd, hc, hp⟩
    have hs := (success_iff fs main o hr).mpr ⟨hd, hc⟩
    simp [mainOut, hr, ofOutcome, hs, hp]

/-- C18.F4 `main_written`  The written file reproduces the assembled image: every conclusion of `trias_of_run` — program
bytes read back at their addresses, touched pages padded with zeros and untouched pages absent, 256-byte page blocks
numbered consecutively with the RP2040 family id at ascending distinct addresses, and the boot-sector checksum word =
CRC-32/MPEG-2 of the 252 boot bytes when 0x10000000 is occupied — holds of the bytes `trias` wrote. -/
theorem main_written (fs : Bytes → Option Bytes) (main : Bytes) (f : List UInt8) (hm : mainOut fs main = .written f) :
    ∃ o, run fs main = .done o ∧ o.diags = [] ∧
    (∃ bs, read f = some bs ∧ ∀ x v, Trias.lookup o.image x = some v → image bs x = some v) ∧
    (∃ bs, read f = some bs ∧ ∀ x,
      (TouchedF (Trias.lookup o.image) x → image bs x = some ((withCrc o.image x).getD 0)) ∧
      (¬ TouchedF (Trias.lookup o.image) x → image bs x = none)) ∧
    (∃ bs, read f = some bs ∧ f.length = 512 * bs.length ∧
      (∀ k (hk : k < bs.length), bs[k].psize = 256 ∧ bs[k].addr % 256 = 0 ∧ bs[k].blockNo = k ∧
        bs[k].numBlocks = bs.length ∧ bs[k].fam = 0xE48BFF56 ∧ bs[k].flags = 0x2000) ∧
      (∀ j k (hj : j < bs.length) (hk : k < bs.length), j < k → bs[j].addr + 256 ≤ bs[k].addr) ∧
      (∀ j k (hj : j < bs.length) (hk : k < bs.length), j ≠ k → bs[j].addr ≠ bs[k].addr)) ∧
    ((Trias.lookup o.image 0x10000000).isSome →
      ∃ bs b0 b1 b2 b3, read f = some bs ∧
        image bs 0x100000FC = some b0 ∧ image bs 0x100000FD = some b1 ∧
        image bs 0x100000FE = some b2 ∧ image bs 0x100000FF = some b3 ∧
        b0.toNat + 256 * b1.toNat + 65536 * b2.toNat + 16777216 * b3.toNat =
          (Trion.Crc.Spec.crc ((bootBytes o.image).map UInt8.toBitVec)).toNat) := by
  obtain ⟨o, hr, hd, _, hp⟩ := (main_written_iff fs main f).mp hm
  exact ⟨o, hr, hd, trias_of_run fs main o hr f hp⟩

/-- C18.F5 `main_cases`  Totality of the part in front of the post-processing: the assembler never panics and its
task loop ends, so `trias` writes the file, refuses, or stops for a missing source file / an include nesting beyond
the model's bound (K2); the post-processing does not panic either (`post_no_panic` on the normalised image of the
run, `run_image_norm`). -/
theorem main_cases (fs : Bytes → Option Bytes) (main : Bytes) :
    (∃ f, mainOut fs main = .written f) ∨ (∃ r, mainOut fs main = .refused r) ∨
    mainOut fs main = .aborted .noMain ∨ mainOut fs main = .aborted .fuel := by
  unfold mainOut
  rcases run_cases fs main with ⟨o, hr⟩ | hr | hr
  · rw [hr]
    simp only [ofOutcome]
    cases hs : o.success with
    | false => exact .inr (.inl ⟨.asmFailed, by simp⟩)
    | true =>
      simp only [if_true]
      cases hp : post o.image with
      | ok g => exact .inl ⟨g, rfl⟩
      | error e =>
        cases e with
        | panic s => exact absurd hp (post_no_panic o.image (run_image_addr32 fs main o hr) s)
        | empty => exact .inr (.inl ⟨_, rfl⟩)
        | crcOverwrite => exact .inr (.inl ⟨_, rfl⟩)
        | uf2 e => exact .inr (.inl ⟨_, rfl⟩)
  · rw [hr]; exact .inr (.inr (.inl rfl))
  · rw [hr]; exact .inr (.inr (.inr rfl))

/-- C18.F6 / C06 `main_no_crash`  The executable as a whole — assembler, checksum insertion, page padding, UF2 writer and
its `Drop` — never panics and never diverges in its task loop, whatever the project: `trias` ends by writing the file,
by refusing, or (outside the model) for a missing source file / an include nesting deeper than 64 (K2). -/
theorem main_no_crash (fs : Bytes → Option Bytes) (main : Bytes) :
    mainOut fs main ≠ .aborted .panic ∧ mainOut fs main ≠ .aborted .loop := by
  rcases main_cases fs main with ⟨f, h⟩ | ⟨r, h⟩ | h | h <;> rw [h] <;> exact ⟨by simp, by simp⟩

/-! ### non-vacuity -/

/-- `NOP;` before any `.addr` is a failing program: nothing is written, an existing file keeps its bytes -/
def exFs : Bytes → Option Bytes := fun p => if p = bytesOf "m" then some (bytesOf "NOP;") else none

example : (∃ o, run exFs (bytesOf "m") = .done o ∧ o.diags ≠ []) ∧
    fileAfter (some [1, 2, 3]) (mainOut exFs (bytesOf "m")) = some [1, 2, 3] := by
  have h : ∃ o, run exFs (bytesOf "m") = .done o ∧ o.diags ≠ [] := by
    cases hr : run exFs (bytesOf "m") with
    | done o => exact ⟨o, rfl, by have : (match run exFs (bytesOf "m") with | .done o => o.diags.length | _ => 0) = 1 := by decide
                                  rw [hr] at this; intro he; simp [he] at this⟩
    | _ => have : (match run exFs (bytesOf "m") with | .done _ => true | _ => false) = true := by decide
           rw [hr] at this; cases this
  obtain ⟨o, hr, hd⟩ := h
  exact ⟨⟨o, hr, hd⟩, (main_failure_keeps_file exFs (bytesOf "m") o hr (.inl hd) _).2⟩

end Trion.Trias
