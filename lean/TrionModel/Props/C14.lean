import TrionModel.Lemmas.Scope
import TrionModel.Lemmas.ScopePanic
import TrionModel.Lemmas.ScopeFrame
import TrionModel.Lemmas.ScopeRun
import TrionModel.Lemmas.ScopeRetry
import TrionModel.Lemmas.ScopeHandUp
/-!
# C14 — constant visibility follows file scope

Property theorems only (helper lemmas: `Lemmas/Scope.lean`).  Model: `Trion.Scope` (`Model/Scope.lean`), a literal
mirror of `Context::{assemble, get_constant, insert_constant, defer_constant, add_task, finalize}`, `PathFrame`,
`.global/.import/.export/.const`, labels, `.du32 <name>` and `.include`.

`tables s` is the list of constant tables from the innermost open file outwards, read off the literal state
(`locals`, `globals`, the `constants` saved in the live `PathFrame`s); `Table.le t t'` says every valued entry of `t`
is in `t'` with the same value; `stackLe` is `Table.le` level by level.
-/
namespace Trion.Scope

/-! ## swap_balanced — the `mem::replace` swaps implement a stack of tables -/

/-- C14.swap (a)  Entering a file pushes one empty table (and one empty task list) onto the stack; nothing else
moves.  No hypothesis on the state: this is what the two `mem::replace`s of `Context::assemble` do. -/
theorem swap_balanced_enter (s : State) (tag : Nat) :
    tables (enterFile s tag) = [] :: tables s ∧ taskStack (enterFile s tag) = [] :: taskStack s ∧
    (enterFile s tag).depth = s.depth + 1 :=
  ⟨tables_enterFile s tag, taskStack_enterFile s tag, rfl⟩

/-- C14.swap (b)  `enter` immediately followed by `exit` restores the state exactly: depth, both tables, both task
lists and the frame stack are those from before (identity of `locals`/`globals` restored). -/
theorem swap_balanced_roundtrip {s s1 : State} {tag : Nat} (hm : s.mode = .running)
    (h : step s (.enter tag) = .ok s1) : step s1 .exit = .ok s := by
  simp only [step, hm] at h
  cases h
  obtain ⟨depth, globals, locals, globalTasks, localTasks, frames, mode, log⟩ := s
  simp only at hm
  subst hm
  cases locals <;> cases localTasks <;>
    simp [step, enterFile, exitFile, localLoop, intoInner]

/-- C14.swap (c)  Every `exit` of an open file — after a clean file (`running`), after a trivial or a fatal failure
(`stopped l 0`) — first lets the file's pending tasks act on the two visible tables (`Eff`: entries are only added or
given a value), then pops exactly the innermost table and one frame; the depth goes down by one.  Together with (a):
stack depth and table identity are restored on every exit, also on failure. -/
theorem swap_balanced_exit {s s' : State} {f : Saved} {fs : List Saved}
    (hl : s.locals.isSome) (hf : s.frames = f :: fs)
    (hm : s.mode = .running ∨ ∃ l, s.mode = .stopped l 0) (h : step s .exit = .ok s') :
    ∃ mid, Eff s mid ∧ tables s' = (tables mid).tail ∧ s'.depth + 1 = s.depth ∧ s'.frames = fs := by
  rcases hm with hm | ⟨l, hm⟩
  · simp only [step, hm] at h; exact exitFile_stack hl hf h
  · simp only [step, hm] at h; exact exitFile_stack hl hf h

/-- C14.swap (c')  … and after a FATAL failure no task runs: the tables below the popped one are untouched. -/
theorem swap_balanced_exit_fatal {s s' : State} {f : Saved} {fs : List Saved} {t : Table}
    (hl : s.locals = some t) (hf : s.frames = f :: fs) (hm : s.mode = .stopped .fatal 0)
    (h : step s .exit = .ok s') : tables s' = (tables s).tail ∧ s'.depth + 1 = s.depth := by
  simp only [step, hm] at h
  unfold exitFile at h
  rw [hf] at h
  simp only [if_true] at h
  split at h
  · cases h
  · rename_i s2 hin
    have hs : ({ s with frames := f :: fs } : State) = s := by rw [← hf]
    have hin' : intoInner s f fs = .ok s2 := hin
    have ht := tables_intoInner hf (by simp [hl]) hin'
    have hd := intoInner_depth hin'
    split at h <;> cases h
    · exact ⟨by rw [← ht]; rfl, hd.1⟩
    · exact ⟨by rw [← ht]; rfl, hd.1⟩

/-- skipped ops (after `do_assemble` of the current file returned) never touch a table -/
theorem skipped_untouched {s s' : State} {l : Level} {k : Nat} {op : Op} (hm : s.mode = .stopped l k)
    (hop : op ≠ .exit ∨ k ≠ 0) (h : step s op = .ok s') : tables s' = tables s ∧ s'.depth = s.depth := by
  cases op <;> cases k <;> simp_all [step] <;> (cases h; exact ⟨rfl, rfl⟩)

/-! ## siblings -/

/-- C14.siblings  Every included file starts from the empty table (and an empty task list), whatever its siblings or
its includer defined before: nothing leaks sideways or downwards without `.import`. -/
theorem siblings {s s' : State} {tag : Nat} (hm : s.mode = .running) (h : step s (.enter tag) = .ok s') :
    s'.locals = some [] ∧ s'.localTasks = some [] ∧ tables s' = [] :: tables s := by
  simp only [step, hm] at h
  cases h
  exact ⟨rfl, rfl, tables_enterFile s tag⟩

/-! ## monotone — a constant's value never changes once defined -/

/-- C14.stack  How one step acts on the stack of tables: statements (and `finalize`) keep the height and are
monotone level by level; `enter` pushes an empty table; `exit` pops the innermost one after a monotone change. -/
theorem step_stack {s s' : State} {op : Op} (hl : s.frames ≠ [] → s.locals.isSome) (h : step s op = .ok s') :
    stackLe (tables s) (tables s') ∨ tables s' = [] :: tables s ∨
    ∃ mid, stackLe (tables s) mid ∧ tables s' = mid.tail := by
  cases hm : s.mode with
  | stopped l k =>
    by_cases hop : op = .exit ∧ k = 0
    · obtain ⟨rfl, rfl⟩ := hop
      simp only [step, hm] at h
      cases hf : s.frames with
      | nil => unfold exitFile at h; rw [hf] at h; cases h; exact .inl (stackLe_refl _)
      | cons f fs =>
        obtain ⟨mid, e, ht, _⟩ := exitFile_stack (hl (by simp [hf])) hf h
        exact .inr (.inr ⟨tables mid, stackLe_of_eff e, ht⟩)
    · have := skipped_untouched hm (by
        by_cases ho : op = .exit
        · exact .inr (fun hk => hop ⟨ho, hk⟩)
        · exact .inl ho) h
      rw [this.1]; exact .inl (stackLe_refl _)
  | running =>
    cases op with
    | enter tag => simp only [step, hm] at h; cases h; exact .inr (.inl (tables_enterFile s tag))
    | exit =>
      simp only [step, hm] at h
      cases hf : s.frames with
      | nil => unfold exitFile at h; rw [hf] at h; cases h; exact .inl (stackLe_refl _)
      | cons f fs =>
        obtain ⟨mid, e, ht, _⟩ := exitFile_stack (hl (by simp [hf])) hf h
        exact .inr (.inr ⟨tables mid, stackLe_of_eff e, ht⟩)
    | finalize =>
      simp only [step, hm] at h
      exact .inl (stackLe_of_eff (eff_finalize h))
    | label n v tag => exact .inl (stackLe_step_stmt hm (by simp) (by simp) (by simp) h).1
    | const n v tag => exact .inl (stackLe_step_stmt hm (by simp) (by simp) (by simp) h).1
    | global n tag => exact .inl (stackLe_step_stmt hm (by simp) (by simp) (by simp) h).1
    | «import» n tag => exact .inl (stackLe_step_stmt hm (by simp) (by simp) (by simp) h).1
    | «export» n tag => exact .inl (stackLe_step_stmt hm (by simp) (by simp) (by simp) h).1
    | use n tag => exact .inl (stackLe_step_stmt hm (by simp) (by simp) (by simp) h).1

/-- C14.monotone  One step never changes a valued entry of any table that is on the stack before and after the step
(tables are indexed from the outermost = global table, so index `i` denotes the same scope in both states):
`table[n] = some v` stays `some v`. -/
theorem monotone {s s' : State} {op : Op} (hl : s.frames ≠ [] → s.locals.isSome) (h : step s op = .ok s')
    (i : Nat) (t t' : Table) (hi : (tables s).reverse[i]? = some t) (hi' : (tables s').reverse[i]? = some t')
    (n : Bytes) (v : Int) (hv : t.find n = some (some v)) : t'.find n = some (some v) := by
  rcases step_stack hl h with hle | hpush | ⟨mid, hle, hpop⟩
  · exact stackLe_get_rev hle i t t' hi hi' n v hv
  · rw [hpush] at hi'
    have : t' = t := by
      have hlt : i < (tables s).reverse.length := by
        rcases Nat.lt_or_ge i (tables s).reverse.length with h1 | h1
        · exact h1
        · rw [List.getElem?_eq_none h1] at hi; cases hi
      rw [List.reverse_cons, List.getElem?_append_left hlt, hi] at hi'
      cases hi'; rfl
    rw [this]; exact hv
  · cases mid with
    | nil => rw [hpop] at hi'; simp at hi'
    | cons m ms =>
      rw [hpop] at hi'
      simp only [List.tail_cons] at hi'
      have hlt : i < ms.reverse.length := by
        rcases Nat.lt_or_ge i ms.reverse.length with h1 | h1
        · exact h1
        · rw [List.getElem?_eq_none h1] at hi'; cases hi'
      have hi'' : (m :: ms).reverse[i]? = some t' := by
        rw [List.reverse_cons, List.getElem?_append_left hlt]; exact hi'
      exact stackLe_get_rev hle i t t' hi hi'' n v hv

/-- the scope with index `i` (counted from the global table) stays open during `ops` -/
def alive (i : Nat) (s : State) : List Op → Prop
  | [] => True
  | op :: ops =>
    match step s op with
    | .ok s1 => i < (tables s1).length ∧ alive i s1 ops
    | .error _ => True

/-- C14.reachable  In every state reachable from `Context::new()`, `locals` is `Some` exactly while an `assemble` call is
active, and each `PathFrame` saved a table exactly when it has an outer frame — the side conditions of
`swap_balanced_exit`, `step_stack` and `monotone` hold in every reachable state. -/
theorem reachable_open {ops : List Op} {s : State} (h : run init ops = .ok s) : Open s :=
  open_run ops open_init h

/-- C14.monotone (runs)  From any reachable state, along any op sequence during which a scope stays open, every valued
entry of that scope's table keeps its value: a constant's value never changes once defined. -/
theorem monotone_run (i : Nat) : ∀ (ops : List Op) {s s' : State}, Open s → run s ops = .ok s' → alive i s ops →
    ∀ (t t' : Table), (tables s).reverse[i]? = some t → (tables s').reverse[i]? = some t' →
    ∀ (n : Bytes) (v : Int), t.find n = some (some v) → t'.find n = some (some v)
  | [], s, s', _, hr, _, t, t', ht, ht', n, v, hv => by
    simp only [run] at hr
    cases hr
    rw [ht] at ht'; cases ht'; exact hv
  | op :: ops, s, s', ho, hr, ha, t, t', ht, ht', n, v, hv => by
    simp only [run] at hr
    split at hr
    · cases hr
    · rename_i s1 hs
      simp only [alive, hs] at ha
      have hlen : i < (tables s1).reverse.length := by simpa using ha.1
      have ht1 : (tables s1).reverse[i]? = some ((tables s1).reverse[i]'hlen) := List.getElem?_eq_getElem hlen
      have hv1 := monotone (fun hf => ho.locals.2 hf) hs i t _ ht ht1 n v hv
      exact monotone_run i ops (open_step ho hs) hr ha.2 _ t' ht1 ht' n v hv1

/-! ## panic freedom — no `no local scope`, `unwrap`, `assert!`, `unreachable!` from `Context::new()`

`Inv s` (`Lemmas/ScopePanic.lean`) is the reachable-state invariant: `Open s`; `local_tasks` is `Some` exactly while a
file is open and each `PathFrame` saved a task list exactly when it has an outer frame; `path_stack.len()` is the number
of live frames and frame number `k` carries `count = k`; no table on the stack has a register name as key; every
`.global` closure in any task list captured a non-register name; and the real global task list (the bottom of the stack
of task lists) holds only `.du32`s rescheduled with `Realm::Global`. -/

/-- C14.panic_free (invariant)  Every state reachable from `Context::new()` over any op history satisfies `Inv`. -/
theorem reachable_inv {ops : List Op} {s : State} (h : run init ops = .ok s) : Inv s := by
  obtain ⟨s', h', i'⟩ := run_ok ops inv_init
  rw [h] at h'; cases h'; exact i'

/-- C14.panic_free (one step)  From a state satisfying the invariant no op reaches a panic site: `step` never returns
`no local scope` / `unwrap` / `assert!` / `unreachable!` nor the model's own loop bound, and the invariant holds again. -/
theorem panic_free_step {s : State} (hi : Inv s) (op : Op) : ∃ s', step s op = .ok s' ∧ Inv s' :=
  step_ok op hi

/-- C14.panic_free  Over ANY operation history from `Context::new()` — well bracketed or not, with `finalize` anywhere,
with failed files, with tasks rescheduled through several includers — the model never takes one of its panic outcomes:
not `panic!("no local scope")` of `get_constant`/`insert_constant`/`defer_constant`/`add_task`, not an `unwrap`
(`.global`'s `insert_constant(..).unwrap()` / `defer_constant(..).unwrap()`, `local_tasks.replace(..).unwrap()`,
`local_tasks.as_mut().unwrap()`, `path_stack.pop().unwrap()`), not an `assert!` (`.global`'s `assert!(!inserted)`,
`assert_eq!(path_stack.len(), count)` of `into_inner`), not an `unreachable!` (the `Reserved` arms of `.import`, `.export`
and the `.global` closure), and not the loop bound `Panic.fuel` of the model's `while !tasks.is_empty()` loops (2 rounds
for `assemble`, 3 for `finalize`). -/
theorem panic_free (ops : List Op) : ∃ s, run init ops = .ok s :=
  let ⟨s, h, _⟩ := run_ok ops inv_init
  ⟨s, h⟩

theorem panic_free_ne (ops : List Op) (p : Panic) : run init ops ≠ .error p := by
  obtain ⟨s, h⟩ := panic_free ops
  rw [h]; intro e; cases e

/-- the guards of the individual panic sites, read off `Inv`: inside a file both `locals` and `local_tasks` are there;
`into_inner` finds `path_stack.len() == count ≥ 1`; a name found in a visible table is not a register name -/
theorem panic_guards {ops : List Op} {s : State} (h : run init ops = .ok s) :
    (s.frames ≠ [] → s.locals.isSome ∧ s.localTasks.isSome) ∧
    (∀ f fs, s.frames = f :: fs → s.depth = f.count ∧ s.depth ≠ 0) ∧
    (∀ n e, s.globals.find n = some e → isReg n = false) ∧
    (∀ l n e, s.locals = some l → l.find n = some e → isReg n = false) ∧
    (s.depth = 0 → ∀ t ∈ s.globalTasks, ∃ n c tag, t = .use n c tag true) := by
  have i := reachable_inv h
  refine ⟨fun hf => ⟨(i.inFile hf).locals, (i.inFile hf).ltasks⟩, ?_, ?_, ?_, ?_⟩
  · intro f fs hf
    have hfr := i.fr
    rw [hf] at hfr
    have hd : s.depth = fs.length + 1 := by rw [i.depth, hf]; rfl
    exact ⟨by rw [hd, hfr.1], by omega⟩
  · exact fun n e hf => Table.keysOk_found i.vis.kg hf
  · exact fun l n e hl hf => Table.keysOk_found (i.vis.kl l hl) hf
  · intro hd t ht
    have := i.vis.bot (by rw [← i.depth, hd]; exact Nat.zero_le _) t ht
    cases t with
    | globalCopy n tag => exact this.elim
    | use n c tag g =>
      cases g with
      | true => exact ⟨n, c, tag, rfl⟩
      | false => exact this.elim

/-! ## dup_reserved — the five collision classes are diagnosed and leave every table unchanged -/

/-- the state after a fatal diagnostic of statement `tag`: the log grows by one entry, `do_assemble` stops, and
nothing else (in particular no table) changes -/
def diagnosed (s : State) (tag : Nat) (k : Kind) : State := { (s.err tag k) with mode := .stopped .fatal 0 }

theorem diagnosed_tables (s : State) (tag : Nat) (k : Kind) : tables (diagnosed s tag k) = tables s := rfl

/-- C14.dup (1a)  second definition in one scope, `.const` -/
theorem dup_const {s : State} {f : Saved} {fs : List Saved} {l : Table} {n : Bytes} {v w : Int} {tag : Nat}
    (hm : s.mode = .running) (hf : s.frames = f :: fs) (hl : s.locals = some l)
    (hdef : l.find n = some (some w)) (hr : isReg n = false) :
    step s (.const n v tag) = .ok (diagnosed s tag .dupConst) := by
  simp [step, hm, hf, stmt, doConst, insertConstant, hr, hl, hdef, diagnosed]

/-- C14.dup (1b)  second definition in one scope, label -/
theorem dup_label {s : State} {f : Saved} {fs : List Saved} {l : Table} {n : Bytes} {v w : Int} {tag : Nat}
    (hm : s.mode = .running) (hf : s.frames = f :: fs) (hl : s.locals = some l)
    (hdef : l.find n = some (some w)) (hr : isReg n = false) :
    step s (.label n v tag) = .ok (diagnosed s tag .dupLocal) := by
  simp [step, hm, hf, stmt, doLabel, insertConstant, hr, hl, hdef, diagnosed, dupKind]

/-- C14.dup (1c)  second definition in one scope, `.import` of a name the file already has with a value -/
theorem dup_import {s : State} {f : Saved} {fs : List Saved} {l : Table} {n : Bytes} {v w : Int} {tag : Nat}
    (hm : s.mode = .running) (hf : s.frames = f :: fs) (hl : s.locals = some l)
    (hg : s.globals.find n = some (some v)) (hdef : l.find n = some (some w)) (hr : isReg n = false) :
    step s (.import n tag) = .ok (diagnosed s tag .dupLocal) := by
  simp [step, hm, hf, stmt, doImport, getConstant, Table.get, hg, insertConstant, hr, hl, hdef, diagnosed, dupKind]

/-- C14.dup (2a)  `.export` over a name the includer already has with a value -/
theorem dup_export_existing {s : State} {f : Saved} {fs : List Saved} {l : Table} {n : Bytes} {v w : Int}
    {tag : Nat} (hm : s.mode = .running) (hf : s.frames = f :: fs) (hl : s.locals = some l)
    (hdef : l.find n = some (some v)) (hg : s.globals.find n = some (some w)) (hr : isReg n = false) :
    step s (.export n tag) = .ok (diagnosed s tag .dupGlobal) := by
  simp [step, hm, hf, stmt, doExport, getConstant, Table.get, hl, hdef, insertConstant, hr, hg, diagnosed, dupKind]

/-- C14.dup (2b)  `.global` of a name the includer already has (valued or announced) -/
theorem dup_global_existing {s : State} {f : Saved} {fs : List Saved} {n : Bytes} {e : Option Int} {tag : Nat}
    (hm : s.mode = .running) (hf : s.frames = f :: fs)
    (hg : s.globals.find n = some e) (hr : isReg n = false) :
    step s (.global n tag) = .ok (diagnosed s tag .dupGlobal) := by
  simp [step, hm, hf, stmt, doGlobal, deferConstant, hr, hg, diagnosed, dupKind]

/-- C14.dup (3)  `.import` of a name the includer lacks -/
theorem dup_import_missing {s : State} {f : Saved} {fs : List Saved} {n : Bytes} {tag : Nat}
    (hm : s.mode = .running) (hf : s.frames = f :: fs) (hg : s.globals.find n = none) :
    step s (.import n tag) = .ok (diagnosed s tag .nfGlobal) := by
  simp [step, hm, hf, stmt, doImport, getConstant, Table.get, hg, diagnosed]

/-- C14.dup (4a)  `.export` of a name the file does not have -/
theorem dup_export_missing {s : State} {f : Saved} {fs : List Saved} {l : Table} {n : Bytes} {tag : Nat}
    (hm : s.mode = .running) (hf : s.frames = f :: fs) (hl : s.locals = some l) (hdef : l.find n = none) :
    step s (.export n tag) = .ok (diagnosed s tag .nfLocal) := by
  simp [step, hm, hf, stmt, doExport, getConstant, Table.get, hl, hdef, diagnosed]

/-- C14.dup (4b)  `.export` of an unvalued (announced, deferred) name -/
theorem dup_export_unvalued {s : State} {f : Saved} {fs : List Saved} {l : Table} {n : Bytes} {tag : Nat}
    (hm : s.mode = .running) (hf : s.frames = f :: fs) (hl : s.locals = some l) (hdef : l.find n = some none) :
    step s (.export n tag) = .ok (diagnosed s tag .defLocal) := by
  simp [step, hm, hf, stmt, doExport, getConstant, Table.get, hl, hdef, diagnosed]

/-- C14.dup (4c)  `.global` of a name that never receives a value in the file: the closure it scheduled pushes the
diagnostic at the end of the file and changes no table -/
theorem dup_global_unvalued {s : State} {l : Table} {n : Bytes} {tag : Nat}
    (hl : s.locals = some l) (hdef : l.find n = some none) :
    runTask s (.globalCopy n tag) = .ok (s.err tag .defLocal, some .trivial) := by
  simp [runTask, runGlobalCopy, getConstant, Table.get, hl, hdef]

/-- C14.dup (5)  a register name is refused by `.const`, a label and `.global` -/
theorem dup_reserved {s : State} {f : Saved} {fs : List Saved} {n : Bytes} {v : Int} {tag : Nat}
    (hm : s.mode = .running) (hf : s.frames = f :: fs) (hr : isReg n = true) :
    step s (.const n v tag) = .ok (diagnosed s tag .reserved) ∧
    step s (.label n v tag) = .ok (diagnosed s tag .reserved) ∧
    step s (.global n tag) = .ok (diagnosed s tag .reserved) := by
  refine ⟨?_, ?_, ?_⟩
  · simp [step, hm, hf, stmt, doConst, insertConstant, hr, diagnosed]
  · simp [step, hm, hf, stmt, doLabel, insertConstant, hr, diagnosed]
  · simp [step, hm, hf, stmt, doGlobal, deferConstant, hr, diagnosed]

/-! ## isolation and frame — what one statement (or end-of-file task) can do to the two visible tables

`stmt s op = .ok (s', r)` is the statement itself; `step` only adds the mode change (`do_assemble` stops on `r = some _`),
which touches no table.  `l` is the current file's table, `s.globals` its includer's table (the real global table for
the root file). -/

/-- C14.isolation (own definitions)  `.const n, v` / `n:` change nothing but the entry `n` of the file's own table, which
becomes `v`; the includer's table is untouched: a definition is visible only in the file that makes it. -/
theorem isolation_define {s s' : State} {l : Table} {n : Bytes} {v : Int} {tag : Nat} {r : Option Level}
    (hl : s.locals = some l) (h : stmt s (.const n v tag) = .ok (s', r) ∨ stmt s (.label n v tag) = .ok (s', r)) :
    s'.globals = s.globals ∧
    ∃ l', s'.locals = some l' ∧ ∀ m, l'.find m = l.find m ∨ (m = n ∧ l'.find m = some (some v)) :=
  isolation_define_lem hl h

/-- C14.isolation (downwards only by `.import`)  `.import n` changes nothing but the entry `n` of the file's own table,
which becomes the includer's entry for `n` (same value, or still unvalued); the includer's table is untouched. -/
theorem isolation_import {s s' : State} {l : Table} {n : Bytes} {tag : Nat} {r : Option Level}
    (hl : s.locals = some l) (h : stmt s (.import n tag) = .ok (s', r)) :
    s'.globals = s.globals ∧
    ∃ l', s'.locals = some l' ∧ ∀ m, l'.find m = l.find m ∨ (m = n ∧ l'.find m = s.globals.find n) :=
  isolation_import_lem hl h

/-- C14.isolation (uses read the file's own table)  `.du32 n` never changes a table; and while a file is open its
immediate evaluation looks `n` up in that file's table only: a valued entry in range is written at once. -/
theorem isolation_use {s s' : State} {n : Bytes} {tag : Nat} {r : Option Level}
    (h : stmt s (.use n tag) = .ok (s', r)) : s'.locals = s.locals ∧ s'.globals = s.globals := by
  simp only [stmt] at h
  exact doUse_tables h

theorem isolation_use_local {s : State} {l : Table} {n : Bytes} {v : Int} {tag : Nat}
    (hd : s.depth ≠ 0) (hl : s.locals = some l) (hr : isReg n = false) (hv : l.find n = some (some v))
    (h0 : 0 ≤ v) (h1 : v < 4294967296) :
    stmt s (.use n tag) = .ok ({ s with log := .value tag v 0 :: s.log }, none) := by
  simp [stmt, doUse, applyUse, hr, State.hasCurrFile, hd, getConstant, hl, Table.get, hv, writeVal, h0, h1]

/-- C14.frame (upwards only by `.export`)  `.export n` leaves the file's own table alone and changes the includer's
table at most at `n`, where a previously unvalued or absent entry receives the file's own value of `n`. -/
theorem frame_export {s s' : State} {l : Table} {n : Bytes} {tag : Nat} {r : Option Level}
    (hl : s.locals = some l) (h : stmt s (.export n tag) = .ok (s', r)) :
    s'.locals = s.locals ∧ ∀ m, s'.globals.find m = s.globals.find m ∨
      (m = n ∧ (∀ w, s.globals.find n ≠ some (some w)) ∧
        ∃ v, l.find n = some (some v) ∧ s'.globals.find m = some (some v)) :=
  frame_export_lem hl h

/-- C14.frame (upwards by `.global`, end of file)  the closure scheduled by `.global n` leaves the file's own table
alone and changes the includer's table at most at `n`, where an unvalued entry receives the file's own value. -/
theorem frame_global_task {s s' : State} {l : Table} {n : Bytes} {tag : Nat} {r : Option Level}
    (hl : s.locals = some l) (h : runTask s (.globalCopy n tag) = .ok (s', r)) :
    s'.locals = s.locals ∧ ∀ m, s'.globals.find m = s.globals.find m ∨
      (m = n ∧ (∀ w, s.globals.find n ≠ some (some w)) ∧
        ∃ v, l.find n = some (some v) ∧ s'.globals.find m = some (some v)) :=
  frame_global_task_lem hl h

/-- C14.frame (upwards by `.global`, the statement)  `.global n` changes the file's own table at most at `n` (an absent
entry becomes "announced") and the includer's table at most at `n`, and only if the includer had no entry: it becomes
"announced", or at once the file's own value if the file already has one. -/
theorem frame_global {s s' : State} {l : Table} {n : Bytes} {tag : Nat} {r : Option Level}
    (hl : s.locals = some l) (h : stmt s (.global n tag) = .ok (s', r)) :
    (∃ l', s'.locals = some l' ∧ ∀ m, l'.find m = l.find m ∨ (m = n ∧ l.find n = none ∧ l'.find m = some none)) ∧
    (∀ m, s'.globals.find m = s.globals.find m ∨ (m = n ∧ s.globals.find n = none ∧
      (s'.globals.find m = some none ∨ ∃ v, l.find n = some (some v) ∧ s'.globals.find m = some (some v)))) :=
  frame_global_lem hl h

/-- C14.frame (the other end-of-file task)  a rescheduled `.du32` never changes a table. -/
theorem frame_use_task {s s' : State} {n : Bytes} {c : Option Int} {tag : Nat} {g : Bool} {r : Option Level}
    (h : runTask s (.use n c tag g) = .ok (s', r)) : s'.locals = s.locals ∧ s'.globals = s.globals := by
  simp only [runTask] at h
  exact runUse_tables h

/-- C14.frame (deep tables)  no statement and no task reaches below the two visible tables: the tables of the
includer's includer and further out are literally unchanged (`Eff.frames`), so after `enter … exit` only the includer's
own table can differ. -/
theorem frame_deep {s s' : State} {op : Op} {r : Option Level} (h : stmt s op = .ok (s', r)) :
    s'.frames = s.frames ∧ s'.depth = s.depth :=
  ⟨(eff_stmt h).frames, (eff_stmt h).depth⟩

/-! ## frame — a whole `enter … exit` run with nested includes

`Body` (`Lemmas/ScopeRun.lean`) is an include tree: the body of one file is a sequence of statements and complete
`.include`s, each with the body of the included file; `Body.flatten` is the op sequence the harness feeds to the model,
well bracketed by construction; `Body.wf` says the leaves are statements (no stray `enter`/`exit`/`finalize`);
`Body.names` lists the names the file ITSELF — not the files it includes — exports or declares global. -/

/-- C14.frame (whole include)  A complete `.include` — `enter`, the included file's whole body with arbitrarily nested
includes, failed files and skipped statements, `exit` with the end-of-file tasks — from a running state of an open file
whose table is `L`.  With `C` the included file's own table when it is left, the includer's table afterwards is
`L ∪ {exported/global names with the child's values}`: every entry of `L'` is the entry of `L`, except at names the child
itself exports or declares global, where an absent or unvalued entry of `L` received the child's value `C[m]` (or an
absent entry became "announced": a `.global` whose value never arrived).  Nothing below moves: the includer's includer's
table, the frame stack, the depth and `global_tasks` are exactly as before (`tables s' = L' :: (tables s).tail`), and
`local_tasks` only received `.du32`s rescheduled by the child. -/
theorem frame_include {b : Body} (hw : b.wf) {s mid s' : State} {tag : Nat} {L : Table}
    (hi : Inv s) (hm : s.mode = .running) (hf : s.frames ≠ []) (hL : s.locals = some L)
    (h1 : run s (.enter tag :: b.flatten) = .ok mid) (h2 : step mid .exit = .ok s') :
    ∃ C L', mid.locals = some C ∧ s'.locals = some L' ∧
      (∀ m, L'.find m = L.find m ∨ (m ∈ b.names ∧ (∀ w, L.find m ≠ some (some w)) ∧
        ((∃ v, C.find m = some (some v) ∧ L'.find m = some (some v)) ∨ (L.find m = none ∧ L'.find m = some none)))) ∧
      s'.globals = s.globals ∧ s'.frames = s.frames ∧ s'.depth = s.depth ∧ tables s' = L' :: (tables s).tail ∧
      s'.globalTasks = s.globalTasks ∧
      (∃ add, s'.localTasks = s.localTasks.map (· ++ add) ∧ ∀ x ∈ add, ∃ n c t, x = .use n c t true) ∧
      (s'.mode = .running ∨ s'.mode = .stopped .fatal 0) := by
  obtain ⟨C, hC, ir⟩ := include_nested b (fun i' f' m' h' => body_rel b hw i' f' m' h') hi hf hm h1 h2
  obtain ⟨L0, L', hL0, hL', hu⟩ := ir.tabs
  rw [hL] at hL0; cases hL0
  obtain ⟨lt, add, hlt, hadd, hgu⟩ := ir.ltasks
  refine ⟨C, L', hC, hL', hu, ir.globals, ir.frames, ir.depth, ?_, ir.gtasks, ⟨add, by rw [hadd, hlt]; rfl, ?_⟩, ir.mode⟩
  · unfold tables; rw [hL', hL, ir.globals, ir.frames]; rfl
  · intro x hx
    have := hgu x hx
    cases x with
    | globalCopy n t => exact this.elim
    | use n c t g =>
      cases g with
      | true => exact ⟨n, c, t, rfl⟩
      | false => exact this.elim

/-- C14.frame (the root file)  The same for a file assembled from outside any file: the "includer's table" is the global
table, `locals` is `None` again afterwards. -/
theorem frame_include_root {b : Body} (hw : b.wf) {s mid s' : State} {tag : Nat}
    (hi : Inv s) (hm : s.mode = .running) (hf : s.frames = [])
    (h1 : run s (.enter tag :: b.flatten) = .ok mid) (h2 : step mid .exit = .ok s') :
    ∃ C, mid.locals = some C ∧ s'.locals = none ∧ s'.frames = [] ∧ s'.depth = s.depth ∧ s'.mode = .running ∧
      (∀ m, s'.globals.find m = s.globals.find m ∨ (m ∈ b.names ∧ (∀ w, s.globals.find m ≠ some (some w)) ∧
        ((∃ v, C.find m = some (some v) ∧ s'.globals.find m = some (some v)) ∨
          (s.globals.find m = none ∧ s'.globals.find m = some none)))) ∧
      ∃ add, s'.globalTasks = s.globalTasks ++ add ∧ ∀ x ∈ add, ∃ n c t, x = .use n c t true := by
  obtain ⟨C, hC, h3, h4, h5, h6, hu, add, hadd, hgu⟩ := include_root b hw hi hf hm h1 h2
  refine ⟨C, hC, h5, h3, h4, h6, hu, add, hadd, ?_⟩
  intro x hx
  have := hgu x hx
  cases x with
  | globalCopy n t => exact this.elim
  | use n c t g =>
    cases g with
    | true => exact ⟨n, c, t, rfl⟩
    | false => exact this.elim

/-- C14.frame (a file's body, from inside)  Running the body of the current file (or the rest of it) — statements and
complete nested includes — keeps the frame stack, the depth and `global_tasks`; the file's own table only grows; the
includer's table (`globals`) changes only at names this file itself exports or declares global, as in `frame_include`. -/
theorem frame_body {b : Body} (hw : b.wf) {t t' : State} {C G : Table} (hi : Inv t) (hf : t.frames ≠ [])
    (hm : t.mode = .running ∨ ∃ l, t.mode = .stopped l 0) (hC : t.locals = some C) (hG : t.globals = G)
    (h : run t b.flatten = .ok t') :
    ∃ C', t'.locals = some C' ∧ C.le C' ∧
      (∀ m, t'.globals.find m = G.find m ∨ (m ∈ b.names ∧ (∀ w, G.find m ≠ some (some w)) ∧
        ((∃ v, C'.find m = some (some v) ∧ t'.globals.find m = some (some v)) ∨
          (G.find m = none ∧ t'.globals.find m = some none)))) ∧
      t'.frames = t.frames ∧ t'.depth = t.depth ∧ t'.globalTasks = t.globalTasks := by
  have br := body_rel b hw hi hf hm h
  obtain ⟨C0, C', hC0, hC', hle, hu⟩ := br.tabs
  rw [hC] at hC0; cases hC0
  subst hG
  exact ⟨C', hC', hle, hu, br.frames, br.depth, br.gtasks⟩

/-! ## isolation — whole runs: where a value in a file's table can come from

`Up n v b` (`Lemmas/ScopeRun.lean`): a chain of `.export n`/`.global n` edges leads from the file with body `b` down through
files it includes to a file whose own body defines `n = v` (`.const`/label) — length 0 if `b` defines it itself.
`Body.imports n b`: the file itself has an `.import n`.  `visible s`: the table an included file sees as its includer's.
`Reach s0 ctx s`: the files of `ctx` (innermost first, each with the part of its body run so far) are open, entered one
inside the other from `s0`.  `Lic n v G0 ctx`: the chain condition, by recursion on `ctx`: an `Up` chain starts in the
innermost file's body so far, or that file has `.import n` and `Lic` holds for its includer (at the time of entry);
outside any file: the global table had `n = v` at the start. -/

/-- C14.isolation (upwards, whole include)  After a complete `.include` every valued entry `(m, v)` of the includer's
table was there before, or the included file itself exports / declares global `m` and an `Up` chain of export/global
edges leads from it down to a file that defines `m = v`: values travel upwards only along such chains. -/
theorem isolation_include {b : Body} (hw : b.wf) {s mid s' : State} {tag : Nat} {L : Table}
    (hi : Inv s) (hm : s.mode = .running) (hf : s.frames ≠ []) (hL : s.locals = some L)
    (h1 : run s (.enter tag :: b.flatten) = .ok mid) (h2 : step mid .exit = .ok s') :
    ∃ L', s'.locals = some L' ∧ ∀ m v, L'.find m = some (some v) →
      L.find m = some (some v) ∨ (m ∈ b.names ∧ Up m v b) := by
  obtain ⟨C, L', hC, hL', hu, _⟩ := frame_include hw hi hm hf hL h1 h2
  refine ⟨L', hL', fun m v hv => ?_⟩
  rcases hu m with e | ⟨hn, hun, hc⟩
  · rw [e] at hv; exact .inl hv
  · rcases hc with ⟨v', hc1, hc2⟩ | ⟨_, hc2⟩
    · rw [hc2] at hv; cases hv
      rcases file_prov b hw hi hm h1 hC m v hc1 with ⟨_, hg⟩ | hup
      · have : visible s = L := by simp [visible, hL]
        rw [this] at hg; exact absurd hg (hun v)
      · exact .inr ⟨hn, hup⟩
    · rw [hc2] at hv; cases hv

/-- C14.isolation (upwards, the root file)  The same for the global table after a root file. -/
theorem isolation_include_root {b : Body} (hw : b.wf) {s mid s' : State} {tag : Nat}
    (hi : Inv s) (hm : s.mode = .running) (hf : s.frames = [])
    (h1 : run s (.enter tag :: b.flatten) = .ok mid) (h2 : step mid .exit = .ok s') :
    ∀ m v, s'.globals.find m = some (some v) →
      s.globals.find m = some (some v) ∨ (m ∈ b.names ∧ Up m v b) := by
  obtain ⟨C, hC, hl', _, _, _, hu, _⟩ := frame_include_root hw hi hm hf h1 h2
  intro m v hv
  have hl : s.locals = none := by
    cases hl : s.locals with
    | none => rfl
    | some l => have := hi.opn.locals.1 (by simp [hl]); exact absurd hf this
  rcases hu m with e | ⟨hn, hun, hc⟩
  · rw [e] at hv; exact .inl hv
  · rcases hc with ⟨v', hc1, hc2⟩ | ⟨_, hc2⟩
    · rw [hc2] at hv; cases hv
      rcases file_prov b hw hi hm h1 hC m v hc1 with ⟨_, hg⟩ | hup
      · have : visible s = s.globals := by simp [visible, hl]
        rw [this] at hg; exact absurd hg (hun v)
      · exact .inr ⟨hn, hup⟩
    · rw [hc2] at hv; cases hv

/-- C14.isolation (a file's own table, whole body)  At any point of a file (after the part `b` of its body, with nested
includes), every valued entry `(m, v)` of its table is imported — the file has `.import m` and its includer had `m = v`
when the file was entered — or is the end of an `Up` chain starting in the file: a file sees only what it defines, what it
imports, and what the files it includes send up. -/
theorem isolation_file {b : Body} (hw : b.wf) {s mid : State} {tag : Nat} {C : Table} (hi : Inv s)
    (hm : s.mode = .running) (h1 : run s (.enter tag :: b.flatten) = .ok mid) (hC : mid.locals = some C)
    (m : Bytes) (v : Int) (hv : C.find m = some (some v)) :
    (b.imports m ∧ (visible s).find m = some (some v)) ∨ Up m v b :=
  file_prov b hw hi hm h1 hC m v hv

/-- C14.isolation (provenance, whole run)  At any position of a project — files `ctx` open one inside the other, each
with the part of its body run so far, started from a state `s0` outside any file — a name has a value in the current
file's table only via a chain of `.import` edges (upwards through the open includers, each at the time its file was
entered) followed by a chain of `.export`/`.global` edges (downwards through completed includes) ending at a definition
of that name with that value, or via `.import` edges all the way up to an entry of the initial global table.  So a name
defined only in file `F` resolves in a file `G ≠ F` only via such a chain from `G` to `F`. -/
theorem isolation_chain {s0 s : State} {ctx : List (Nat × Body)} (h0 : Inv s0) (hf0 : s0.frames = [])
    (hw : ∀ p ∈ ctx, p.2.wf) (hr : Reach s0 ctx s) (n : Bytes) (v : Int)
    (hv : (visible s).find n = some (some v)) : Lic n v s0.globals ctx :=
  (reach_lic h0 hf0 n v ctx hw hr).2 hv

/-- … from `Context::new()` the global table is empty: the chain always ends at a definition -/
theorem isolation_chain_init {s : State} {ctx : List (Nat × Body)} (hw : ∀ p ∈ ctx, p.2.wf)
    (hr : Reach init ctx s) (n : Bytes) (v : Int) (hv : (visible s).find n = some (some v)) :
    Lic n v [] ctx :=
  isolation_chain inv_init rfl hw hr n v hv

/-- C14.isolation (uses, converse of `isolation_use_local`)  Inside a file a `.du32 n` statement leaves the log alone,
pushes one diagnostic, or writes at once exactly the current file's valued entry for `n` — nothing else is read. -/
theorem isolation_use_resolves {s s' : State} {l : Table} {n : Bytes} {tag : Nat} {r : Option Level}
    (hd : s.depth ≠ 0) (hl : s.locals = some l) (h : stmt s (.use n tag) = .ok (s', r)) :
    s'.log = s.log ∨ (∃ k, s'.log = .diag tag k :: s.log) ∨
      (∃ v, l.find n = some (some v) ∧ s'.log = .value tag v 0 :: s.log) :=
  use_resolves hd hl h

/-- C14.isolation (resolution, whole run)  If at some position of a project started from `Context::new()` a `.du32 n`
statement of the current file writes the value `v` at once, then the chain condition `Lic n v [] ctx` holds: `n`
resolves only via `.import` edges upwards and `.export`/`.global` edges downwards to a definition `n = v`. -/
theorem isolation_resolve {s s' : State} {ctx : List (Nat × Body)} (hw : ∀ p ∈ ctx, p.2.wf) (hne : ctx ≠ [])
    (hr : Reach init ctx s) {n : Bytes} {tag : Nat} {r : Option Level} {v : Int}
    (h : stmt s (.use n tag) = .ok (s', r)) (hlog : s'.log = .value tag v 0 :: s.log) : Lic n v [] ctx := by
  have hi := reach_inv inv_init ctx hr
  have hf : s.frames ≠ [] := by
    rcases (reach_lic inv_init rfl n v ctx hw hr).1 with h1 | h1
    · exact absurd h1 hne
    · exact h1
  have hd : s.depth ≠ 0 := by
    rw [hi.depth]; intro h0; exact hf (List.eq_nil_of_length_eq_zero h0)
  obtain ⟨l, hl⟩ := Option.isSome_iff_exists.1 (hi.inFile hf).locals
  have hvis : visible s = l := by simp [visible, hl]
  rcases use_resolves hd hl h with h1 | ⟨k, h1⟩ | ⟨v', hv', h1⟩
  · rw [h1] at hlog
    have := congrArg List.length hlog
    simp at this
  · rw [h1] at hlog; cases hlog
  · rw [h1] at hlog; cases hlog
    exact isolation_chain_init hw hr n v (by rw [hvis]; exact hv')

/-! ## isolation — the RETRIES of a `.du32` (stage 1: the end of its file; stage 2: the includer's end / `finalize`)

`isolation_resolve` covers the value a `.du32 n` writes at once (stage 0).  A `.du32 n` whose name is not yet valued is
queued as a local task and retried when its file ends (stage 1); still unvalued, it is rescheduled into the includer's
list and retried once more when the INCLUDER's file ends — or, from the root file, by `finalize` (stage 2).
`Lemmas/ScopeRetry.lean`: a task never touches the table it reads; a cached value is one `u32::try_from` refused, in
every reachable state (`CInv`), so a retry that writes a value has just read it from the table. -/

/-- C14.reachable (cached values)  In every state reachable from `Context::new()` every queued `.du32` that carries a
cached value — in `global_tasks`, `local_tasks` or a list saved in a live `PathFrame` — caches a value out of `u32` range. -/
theorem reachable_cinv {ops : List Op} {s : State} (h : run init ops = .ok s) : CInv s :=
  run_cinv ops cinv_init h

/-- C14.isolation (retries, the end of a file)  At any position of a project started from `Context::new()` — files `ctx`
open one inside the other — let the current file end (`exit`: after a clean body, or after a trivial or fatal failure).
Everything this adds to the log is a diagnostic, or a value `v` written by the retry of a `.du32 n` statement `tag` of the
file's task list: at stage 1 if it was queued by the file itself, at stage 2 if an included file rescheduled it.  In both
cases the chain condition `Lic n v [] ctx` holds FOR THE FILE BEING LEFT: the retry resolves `n` in that file's own table,
so `n = v` reached it only via `.import` edges upwards and `.export`/`.global` edges downwards to a definition `n = v`. -/
theorem isolation_retry_exit {s s' : State} {ctx : List (Nat × Body)} (hw : ∀ p ∈ ctx, p.2.wf) (hne : ctx ≠ [])
    (hr : Reach init ctx s) (hm : s.mode = .running ∨ ∃ l, s.mode = .stopped l 0) (h : step s .exit = .ok s') :
    ∃ ts add, s.localTasks = some ts ∧ s'.log = add ++ s.log ∧ ∀ e ∈ add, (∃ tag k, e = .diag tag k) ∨
      ∃ n tag g v, Task.use n none tag g ∈ ts ∧ e = .value tag v (if g then 2 else 1) ∧ Lic n v [] ctx := by
  have hi := reach_inv inv_init ctx hr
  have hc := reach_cinv cinv_init ctx hr
  have hf : s.frames ≠ [] := by
    rcases (reach_lic inv_init rfl [] 0 ctx hw hr).1 with h1 | h1
    · exact absurd h1 hne
    · exact h1
  have hd : s.depth ≠ 0 := by
    rw [hi.depth]; intro h0; exact hf (List.eq_nil_of_length_eq_zero h0)
  obtain ⟨l, hl⟩ := Option.isSome_iff_exists.1 (hi.inFile hf).locals
  obtain ⟨ts, hts⟩ := Option.isSome_iff_exists.1 (hi.inFile hf).ltasks
  have hvis : visible s = l := by simp [visible, hl]
  have hex : ∃ res, exitFile s res = .ok s' := by
    rcases hm with hm | ⟨lv, hm⟩
    · exact ⟨none, by simpa only [step, hm] using h⟩
    · exact ⟨some lv, by simpa only [step, hm] using h⟩
  obtain ⟨res, hex⟩ := hex
  obtain ⟨add, hadd, hev⟩ := exit_retried hd hl hts hex
  refine ⟨ts, add, hts, hadd, fun e he => ?_⟩
  rcases (hev e he).resolved (hc.l ts hts) with hdg | ⟨n, tag, g, v, hmem, hval, hfind⟩
  · exact .inl hdg
  · exact .inr ⟨n, tag, g, v, hmem, hval, isolation_chain_init hw hr n v (by rw [hvis]; exact hfind)⟩

/-- C14.isolation (retries, `finalize`)  Outside any file, in a state reached from `Context::new()`: before its verdict
`finalize` adds to the log only diagnostics and the values of `.du32 n` statements rescheduled into the real global list,
each resolved in the GLOBAL table — whose valued entries come from `.export`/`.global` chains of the root files
(`isolation_include_root`). -/
theorem isolation_retry_finalize {ops : List Op} {s s' : State} (hrun : run init ops = .ok s) (hd : s.depth = 0)
    (hm : s.mode = .running) (h : step s .finalize = .ok s') :
    ∃ add b, s'.log = .done b :: (add ++ s.log) ∧ ∀ e ∈ add, (∃ tag k, e = .diag tag k) ∨
      ∃ n tag v, Task.use n none tag true ∈ s.globalTasks ∧ e = .value tag v 2 ∧
        s.globals.find n = some (some v) := by
  have hi := reachable_inv hrun
  have hc := reachable_cinv hrun
  have hfin : finalize s = .ok s' := by simpa only [step, hm] using h
  obtain ⟨add, b, hlog, hev⟩ := finalize_retried hi hd hfin
  refine ⟨add, b, hlog, fun e he => ?_⟩
  rcases (hev e he).resolved hc.g with hdg | ⟨n, tag, g, v, hmem, hval, hfind⟩
  · exact .inl hdg
  · have hgu := hi.vis.bot (by rw [← hi.depth, hd]; exact Nat.zero_le _) _ hmem
    cases g with
    | false => exact hgu.elim
    | true => exact .inr ⟨n, tag, v, hmem, hval, hfind⟩

/-! ## isolation — what a file may hand UP to its includer

`isolation_retry_exit` says that a stage-2 retry resolves in the table of the file being left — which for a task handed
up by an included file is the INCLUDER of the file that contains the `.du32`.  The theorems below close the gap from the
other side: a file hands a `.du32 n` to its includer only if its OWN table has `n` announced (an entry without a value),
an entry arises announced only from the file's own `.import n` (of a name the includer has announced) or `.global n`
(or from a `.global` of a file it includes, `frame_global`), and a name the file has no entry for is `no such local
constant` at the end of the file — never looked up in the includer.  So the licence chain of a handed-up use starts at
the using file. -/

/-- C14.isolation (retries: unknown names stay in the file)  The retry of `.du32 n` at the end of its file (or in the
includer), for a name the table it reads has NO entry for, is the diagnostic `no such local constant`; nothing is handed
up, no table is read further out. -/
theorem isolation_retry_unannounced {s : State} {l : Table} {n : Bytes} {tag : Nat} {g : Bool}
    (hd : s.depth ≠ 0) (hl : s.locals = some l) (hr : isReg n = false) (hn : l.find n = none) :
    runTask s (.use n none tag g) = .ok (s.err tag .nfLocal, some .trivial) := by
  simp [runTask, runUse, applyUse, hr, State.hasCurrFile, hd, getConstant, hl, Table.get, hn]

/-- C14.isolation (retries: what is handed up)  At any position of a project started from `Context::new()`, let the
current file — table `l`, task list `ts` — end.  The list that receives what the file hands up (its includer's
`local_tasks`; the real global list for a root file) afterwards holds what it held before (`s.globalTasks`: while the
file is open the includer's list sits there) plus only tasks `use n _ tag true` that are the stage-2 form of one of the
file's OWN `.du32 n` retries, for names the file's own table has ANNOUNCED (`l.find n = some none`).  Together with
`isolation_retry_exit` (the value such a task later writes is licensed for the includer): a use handed up to the includer
resolves only to a name the using file had announced — imported or declared global — itself. -/
theorem isolation_retry_handed_up {s s' : State} {ctx : List (Nat × Body)} (hw : ∀ p ∈ ctx, p.2.wf) (hne : ctx ≠ [])
    (hr : Reach init ctx s) (hm : s.mode = .running ∨ ∃ l, s.mode = .stopped l 0) (h : step s .exit = .ok s') :
    ∃ l ts, s.locals = some l ∧ s.localTasks = some ts ∧
      ∀ t ∈ outTasks s', t ∈ s.globalTasks ∨
        ∃ n c c0 tag, t = .use n c tag true ∧ Task.use n c0 tag false ∈ ts ∧ l.find n = some none := by
  have hi := reach_inv inv_init ctx hr
  have hf : s.frames ≠ [] := by
    rcases (reach_lic inv_init rfl [] 0 ctx hw hr).1 with h1 | h1
    · exact absurd h1 hne
    · exact h1
  have hd : s.depth ≠ 0 := by
    rw [hi.depth]; intro h0; exact hf (List.eq_nil_of_length_eq_zero h0)
  obtain ⟨l, hl⟩ := Option.isSome_iff_exists.1 (hi.inFile hf).locals
  obtain ⟨ts, hts⟩ := Option.isSome_iff_exists.1 (hi.inFile hf).ltasks
  have hex : ∃ res, exitFile s res = .ok s' := by
    rcases hm with hm | ⟨lv, hm⟩
    · exact ⟨none, by simpa only [step, hm] using h⟩
    · exact ⟨some lv, by simpa only [step, hm] using h⟩
  obtain ⟨res, hex⟩ := hex
  exact ⟨l, ts, hl, hts, exit_handUp hd hl hts hf hex⟩

/-- C14.isolation (where an announced entry comes from)  A statement of the file makes an entry of the file's own table
"announced" (present, no value) only if it is `.import m` of a name the includer has announced, or `.global m`. -/
theorem announce_origin {s s' : State} {l l' : Table} {op : Op} {r : Option Level} {m : Bytes}
    (hl : s.locals = some l) (h : stmt s op = .ok (s', r)) (hl' : s'.locals = some l') (hm : l'.find m = some none) :
    l.find m = some none ∨ (∃ tag, op = .import m tag ∧ s.globals.find m = some none) ∨ (∃ tag, op = .global m tag) := by
  have same : s'.locals = s.locals → l.find m = some none := by
    intro e; rw [hl', hl] at e; cases e; exact hm
  cases op with
  | enter tag => simp only [stmt] at h; cases h; exact .inl (same rfl)
  | exit => simp only [stmt] at h; cases h; exact .inl (same rfl)
  | finalize => simp only [stmt] at h; cases h; exact .inl (same rfl)
  | label n v tag =>
    obtain ⟨_, l'', e, hall⟩ := isolation_define hl (.inr h)
    rw [hl'] at e; cases e
    rcases hall m with h1 | ⟨_, h1⟩
    · exact .inl (h1 ▸ hm)
    · rw [h1] at hm; cases hm
  | const n v tag =>
    obtain ⟨_, l'', e, hall⟩ := isolation_define hl (.inl h)
    rw [hl'] at e; cases e
    rcases hall m with h1 | ⟨_, h1⟩
    · exact .inl (h1 ▸ hm)
    · rw [h1] at hm; cases hm
  | global n tag =>
    obtain ⟨⟨l'', e, hall⟩, _⟩ := frame_global hl h
    rw [hl'] at e; cases e
    rcases hall m with h1 | ⟨h1, _, _⟩
    · exact .inl (h1 ▸ hm)
    · exact .inr (.inr ⟨tag, by rw [h1]⟩)
  | «import» n tag =>
    obtain ⟨_, l'', e, hall⟩ := isolation_import hl h
    rw [hl'] at e; cases e
    rcases hall m with h1 | ⟨h1, h2⟩
    · exact .inl (h1 ▸ hm)
    · subst h1
      exact .inr (.inl ⟨tag, rfl, by rw [← h2]; exact hm⟩)
  | «export» n tag => exact .inl (same (frame_export hl h).1)
  | use n tag => exact .inl (same (isolation_use h).1)

/-! ## export over an ANNOUNCED includer entry succeeds

`dup_export_existing` is the diagnostic for exporting over a VALUED entry of the includer.  If the includer's entry is
only announced (declared by `.global`, or imported while unvalued: present, no value) the export is accepted and fills
it — the README's "deferred constant receives its value".  Reading of the property's "exporting a name the includer
already has … always a diagnostic" that is proved: "already has WITH A VALUE". -/

/-- C14.export_fills_announced  `.export n` of a valued name over an includer entry that is announced but unvalued
succeeds without diagnostic: the includer's entry receives the file's value, the file continues, nothing else changes. -/
theorem export_fills_announced {s : State} {f : Saved} {fs : List Saved} {l : Table} {n : Bytes} {v : Int} {tag : Nat}
    (hm : s.mode = .running) (hf : s.frames = f :: fs) (hl : s.locals = some l)
    (hdef : l.find n = some (some v)) (hg : s.globals.find n = some none) (hr : isReg n = false) :
    step s (.export n tag) = .ok { s with globals := s.globals.set n (some v) } := by
  simp [step, hm, hf, stmt, doExport, getConstant, Table.get, hl, hdef, insertConstant, hr, hg]

/-! ## non-vacuity -/

/-- the names of the register file are reserved, case-insensitively; ordinary names are not -/
example : isReg (bytesOf "R0") = true ∧ isReg (bytesOf "sp") = true ∧ isReg (bytesOf "Control") = true ∧
    isReg (bytesOf "x") = false ∧ isReg (bytesOf "R16") = false := by decide

private def x : Bytes := bytesOf "x"

/-- a child exports `x`; the includer sees it with the child's value; a sibling starts empty and imports it -/
example : (run init [.enter 0, .enter 1, .const x 7 2, .export x 3, .exit, .use x 4, .enter 5, .use x 6, .exit,
      .exit, .finalize]).toOption.map (·.log.reverse) =
    some [.value 4 7 0, .diag 6 .nfLocal, .diag 5 .asmFailed, .done false] := by decide

example : (run init [.enter 0, .enter 1, .const x 7 2, .global x 3, .exit, .enter 5, .import x 6, .use x 7,
      .exit, .use x 8, .exit, .finalize]).toOption.map (·.log.reverse) =
    some [.value 7 7 0, .value 8 7 0, .done true] := by decide

/-- the hypotheses of the `dup_*` theorems are satisfiable (state after `enter; const x 1`) -/
example : ∃ s f fs l, run init [.enter 0, .const x 1 1] = .ok s ∧ s.mode = .running ∧ s.frames = f :: fs ∧
    s.locals = some l ∧ l.find x = some (some 1) ∧ isReg x = false :=
  ⟨{ depth := 1, globals := [], locals := some [(x, some 1)], globalTasks := [], localTasks := some [],
     frames := [{ count := 1, constants := none, tasks := none, tag := 0 }], mode := .running, log := [] },
   { count := 1, constants := none, tasks := none, tag := 0 }, [], [(x, some 1)],
   by rfl, rfl, rfl, rfl, by decide, by decide⟩

/-- panic freedom is not vacuous: histories that do reach the guarded sites run through — `.global` before and after
the value (the `unwrap`/`assert!` pair), a `.global` closure at the end of a file, a failed child, a `.du32` rescheduled
twice by a `finalize` inside an open file (the loop takes its second round), an unbalanced `exit` -/
example : (run init [.enter 0, .enter 1, .global x 2, .use x 3, .const x 7 4, .global (bytesOf "y") 5, .exit,
      .use x 6, .exit, .finalize]).toOption.map (·.log.reverse) =
    some [.value 3 7 1, .diag 5 .defLocal, .diag 1 .asmFailed, .done false] := by decide

example : (run init [.enter 0, .global x 1, .use x 2, .enter 3, .import x 4, .finalize, .exit, .exit, .exit,
      .finalize]).toOption.map (·.log.reverse) =
    some [.diag 1 .defLocal, .diag 2 .nfGlobal, .done false, .done false] := by decide

example : ∃ s, run init [.enter 0, .enter 1, .global x 2, .use x 3, .const x 7 4, .exit, .exit, .exit, .finalize] = .ok s :=
  panic_free _

/-- the hypotheses of `frame_include` / `frame_include_root` are satisfiable for EVERY include tree from every reachable
running state (panic freedom gives the two runs) … -/
example (b : Body) (tag : Nat) {s : State} (hi : Inv s) :
    ∃ mid s', run s (.enter tag :: b.flatten) = .ok mid ∧ step mid .exit = .ok s' := by
  obtain ⟨mid, h1, i1⟩ := run_ok (.enter tag :: b.flatten) hi
  obtain ⟨s', h2, _⟩ := step_ok .exit i1
  exact ⟨mid, s', h1, h2⟩

private def y : Bytes := bytesOf "y"
private def z : Bytes := bytesOf "z"

/-- … and a concrete tree: the child defines `x`, includes a grandchild that exports `y` to the child (not to the
includer), exports `x`, declares `z` global without ever defining it, and re-exports nothing else: the includer, which had
announced `x`, ends with `x = 7` from the child, `z` announced, and no `y` -/
private def child : Body :=
  .stmt (.const x 7 2) (.incl 10 (.stmt (.const y 5 11) (.stmt (.export y 12) .nil))
    (.stmt (.export x 3) (.stmt (.global z 4) (.stmt (.use y 5) .nil))))

example : child.wf ∧ child.names = [x, z] := by simp [child, Body.wf, Body.names, Op.isStmt, Op.names]

example : (run init ([.enter 0, .global x 1, .enter 1] ++ child.flatten ++ [.exit])).toOption.map (·.locals) =
      some (some [(x, some 7), (z, none)]) ∧
    (run init ([.enter 0, .global x 1, .enter 1] ++ child.flatten ++ [.exit])).toOption.map (·.globals) =
      some [(x, none)] := by decide

/-- provenance is not vacuous: the root defines `x`, includes a file that defines and exports `y`; a second included
file (still open) imports `y`: its table has `y = 5`, licensed by the chain import ↑ root ↓ export ↓ definition -/
private def rootPre : Body :=
  .stmt (.const x 7 1) (.incl 2 (.stmt (.const y 5 3) (.stmt (.export y 4) .nil)) .nil)
private def childPre : Body := .stmt (.import y 6) .nil
private def st (ops : List Op) : State :=
  match run init ops with
  | .ok s => s
  | .error _ => init

example : Reach init [(5, childPre), (0, rootPre)]
      (st (.enter 0 :: rootPre.flatten ++ .enter 5 :: childPre.flatten)) ∧
    (visible (st (.enter 0 :: rootPre.flatten ++ .enter 5 :: childPre.flatten))).find y = some (some 5) ∧
    Lic y 5 [] [(5, childPre), (0, rootPre)] ∧ ¬ Lic x 7 [] [(5, childPre), (0, rootPre)] ∧
    (∃ s' r, stmt (st (.enter 0 :: rootPre.flatten ++ .enter 5 :: childPre.flatten)) (.use y 9) = .ok (s', r) ∧
      s'.log = .value 9 5 0 :: (st (.enter 0 :: rootPre.flatten ++ .enter 5 :: childPre.flatten)).log) := by
  refine ⟨⟨st (.enter 0 :: rootPre.flatten), ⟨init, rfl, rfl, by rfl⟩, by rfl, by rfl⟩, by decide, ?_, ?_,
    ⟨_, _, by rfl, by rfl⟩⟩
  · exact .inr ⟨.inl rfl, .inl (.later (.child (by simp [Body.names, Op.names]) (.here ⟨rfl, rfl⟩)))⟩
  · intro h
    rcases h with h | ⟨h, _⟩
    · cases h with
      | here h => exact h
      | later h => cases h
    · rcases h with h | h
      · have h : y = x := h
        exact absurd h (by decide)
      · exact h

/-- the retries are not vacuous: the child's `.du32 x` is written at stage 1 once the child defined `x` later in the same
file; the child's `.du32 y` (with `y` imported while the includer has only announced it) at stage 2, by the includer's
task loop, after the includer defined `y` below the `.include` -/
example : (run init [.enter 0, .global y 9, .enter 1, .use x 2, .import y 8, .use y 3, .const x 7 4, .exit,
      .const y 5 5, .exit, .finalize]).toOption.map (·.log.reverse) =
    some [.value 2 7 1, .value 3 5 2, .done true] := by decide

private def q : Bytes := bytesOf "q"

/-- the auditor's case: `q` is only a local of the includer; the included file's `.du32 q` is `no such local constant`
at the end of that file (stage 1), it is never handed up -/
example : (run init [.enter 0, .const q 5 1, .enter 2, .use q 3, .exit, .use q 4, .exit, .finalize]).toOption.map
      (·.log.reverse) = some [.diag 3 .nfLocal, .diag 2 .asmFailed, .done false] := by decide

/-- handing up needs an announced entry: the includer announces `q` (`.global`), the included file imports it while
unvalued and uses it, the includer defines it afterwards — the use is written at stage 2 -/
example : (run init [.enter 0, .global q 1, .enter 2, .import q 3, .use q 4, .exit, .const q 9 5, .exit,
      .finalize]).toOption.map (·.log.reverse) = some [.value 4 9 2, .done true] := by decide

/-- `export_fills_announced` on a run: the includer announces `q`, the included file defines and exports it: accepted,
the includer sees the child's value -/
example : (run init [.enter 0, .global q 1, .enter 2, .const q 7 3, .export q 4, .exit, .use q 5, .exit,
      .finalize]).toOption.map (·.log.reverse) = some [.value 5 7 0, .done true] := by decide

end Trion.Scope
