import TrionModel.Lemmas.Scope
/-!
# C14 — constant visibility follows file scope

Property theorems only (helper lemmas: `Lemmas/Scope.lean`).  Model: `Trion.Scope` (`Model/Scope.lean`), a literal
mirror of `Context::{assemble, get_constant, insert_constant, defer_constant, add_task, finalize}`, `PathFrame`,
`.global/.import/.export/.const`, labels, `.du32 <name>` and `.include`.

`tables s` is the list of constant tables from the innermost open file outwards, read off the literal state
(`locals`, `globals`, the `constants` saved in the live `PathFrame`s); `Table.le t t'` says every valued entry of `t`
is in `t'` with the same value; `stackLe` is `Table.le` level by level.
-/
namespace Trion.Scope

/-! ## swap_balanced — the `mem::replace` swaps implement a stack of tables -/

/-- C14.swap (a)  Entering a file pushes one empty table (and one empty task list) onto the stack; nothing else
moves.  No hypothesis on the state: this is what the two `mem::replace`s of `Context::assemble` do. -/
theorem swap_balanced_enter (s : State) (tag : Nat) :
    tables (enterFile s tag) = [] :: tables s ∧ taskStack (enterFile s tag) = [] :: taskStack s ∧
    (enterFile s tag).depth = s.depth + 1 :=
  ⟨tables_enterFile s tag, taskStack_enterFile s tag, rfl⟩

/-- C14.swap (b)  `enter` immediately followed by `exit` restores the state exactly: depth, both tables, both task
lists and the frame stack are those from before (identity of `locals`/`globals` restored). -/
theorem swap_balanced_roundtrip {s s1 : State} {tag : Nat} (hm : s.mode = .running)
    (h : step s (.enter tag) = .ok s1) : step s1 .exit = .ok s := by
  simp only [step, hm] at h
  cases h
  obtain ⟨depth, globals, locals, globalTasks, localTasks, frames, mode, log⟩ := s
  simp only at hm
  subst hm
  cases locals <;> cases localTasks <;>
    simp [step, enterFile, exitFile, localLoop, intoInner]

/-- C14.swap (c)  Every `exit` of an open file — after a clean file (`running`), after a trivial or a fatal failure
(`stopped l 0`) — first lets the file's pending tasks act on the two visible tables (`Eff`: entries are only added or
given a value), then pops exactly the innermost table and one frame; the depth goes down by one.  Together with (a):
stack depth and table identity are restored on every exit, also on failure. -/
theorem swap_balanced_exit {s s' : State} {f : Saved} {fs : List Saved}
    (hl : s.locals.isSome) (hf : s.frames = f :: fs)
    (hm : s.mode = .running ∨ ∃ l, s.mode = .stopped l 0) (h : step s .exit = .ok s') :
    ∃ mid, Eff s mid ∧ tables s' = (tables mid).tail ∧ s'.depth + 1 = s.depth ∧ s'.frames = fs := by
  rcases hm with hm | ⟨l, hm⟩
  · simp only [step, hm] at h; exact exitFile_stack hl hf h
  · simp only [step, hm] at h; exact exitFile_stack hl hf h

/-- C14.swap (c')  … and after a FATAL failure no task runs: the tables below the popped one are untouched. -/
theorem swap_balanced_exit_fatal {s s' : State} {f : Saved} {fs : List Saved} {t : Table}
    (hl : s.locals = some t) (hf : s.frames = f :: fs) (hm : s.mode = .stopped .fatal 0)
    (h : step s .exit = .ok s') : tables s' = (tables s).tail ∧ s'.depth + 1 = s.depth := by
  simp only [step, hm] at h
  unfold exitFile at h
  rw [hf] at h
  simp only [if_true] at h
  split at h
  · cases h
  · rename_i s2 hin
    have hs : ({ s with frames := f :: fs } : State) = s := by rw [← hf]
    have hin' : intoInner s f fs = .ok s2 := hin
    have ht := tables_intoInner hf (by simp [hl]) hin'
    have hd := intoInner_depth hin'
    split at h <;> cases h
    · exact ⟨by rw [← ht]; rfl, hd.1⟩
    · exact ⟨by rw [← ht]; rfl, hd.1⟩

/-- skipped ops (after `do_assemble` of the current file returned) never touch a table -/
theorem skipped_untouched {s s' : State} {l : Level} {k : Nat} {op : Op} (hm : s.mode = .stopped l k)
    (hop : op ≠ .exit ∨ k ≠ 0) (h : step s op = .ok s') : tables s' = tables s ∧ s'.depth = s.depth := by
  cases op <;> cases k <;> simp_all [step] <;> (cases h; exact ⟨rfl, rfl⟩)

/-! ## siblings -/

/-- C14.siblings  Every included file starts from the empty table (and an empty task list), whatever its siblings or
its includer defined before: nothing leaks sideways or downwards without `.import`. -/
theorem siblings {s s' : State} {tag : Nat} (hm : s.mode = .running) (h : step s (.enter tag) = .ok s') :
    s'.locals = some [] ∧ s'.localTasks = some [] ∧ tables s' = [] :: tables s := by
  simp only [step, hm] at h
  cases h
  exact ⟨rfl, rfl, tables_enterFile s tag⟩

/-! ## monotone — a constant's value never changes once defined -/

/-- C14.stack  How one step acts on the stack of tables: statements (and `finalize`) keep the height and are
monotone level by level; `enter` pushes an empty table; `exit` pops the innermost one after a monotone change. -/
theorem step_stack {s s' : State} {op : Op} (hl : s.frames ≠ [] → s.locals.isSome) (h : step s op = .ok s') :
    stackLe (tables s) (tables s') ∨ tables s' = [] :: tables s ∨
    ∃ mid, stackLe (tables s) mid ∧ tables s' = mid.tail := by
  cases hm : s.mode with
  | stopped l k =>
    by_cases hop : op = .exit ∧ k = 0
    · obtain ⟨rfl, rfl⟩ := hop
      simp only [step, hm] at h
      cases hf : s.frames with
      | nil => unfold exitFile at h; rw [hf] at h; cases h; exact .inl (stackLe_refl _)
      | cons f fs =>
        obtain ⟨mid, e, ht, _⟩ := exitFile_stack (hl (by simp [hf])) hf h
        exact .inr (.inr ⟨tables mid, stackLe_of_eff e, ht⟩)
    · have := skipped_untouched hm (by
        by_cases ho : op = .exit
        · exact .inr (fun hk => hop ⟨ho, hk⟩)
        · exact .inl ho) h
      rw [this.1]; exact .inl (stackLe_refl _)
  | running =>
    cases op with
    | enter tag => simp only [step, hm] at h; cases h; exact .inr (.inl (tables_enterFile s tag))
    | exit =>
      simp only [step, hm] at h
      cases hf : s.frames with
      | nil => unfold exitFile at h; rw [hf] at h; cases h; exact .inl (stackLe_refl _)
      | cons f fs =>
        obtain ⟨mid, e, ht, _⟩ := exitFile_stack (hl (by simp [hf])) hf h
        exact .inr (.inr ⟨tables mid, stackLe_of_eff e, ht⟩)
    | finalize =>
      simp only [step, hm] at h
      exact .inl (stackLe_of_eff (eff_finalize h))
    | label n v tag => exact .inl (stackLe_step_stmt hm (by simp) (by simp) (by simp) h).1
    | const n v tag => exact .inl (stackLe_step_stmt hm (by simp) (by simp) (by simp) h).1
    | global n tag => exact .inl (stackLe_step_stmt hm (by simp) (by simp) (by simp) h).1
    | «import» n tag => exact .inl (stackLe_step_stmt hm (by simp) (by simp) (by simp) h).1
    | «export» n tag => exact .inl (stackLe_step_stmt hm (by simp) (by simp) (by simp) h).1
    | use n tag => exact .inl (stackLe_step_stmt hm (by simp) (by simp) (by simp) h).1

/-- C14.monotone  One step never changes a valued entry of any table that is on the stack before and after the step
(tables are indexed from the outermost = global table, so index `i` denotes the same scope in both states):
`table[n] = some v` stays `some v`. -/
theorem monotone {s s' : State} {op : Op} (hl : s.frames ≠ [] → s.locals.isSome) (h : step s op = .ok s')
    (i : Nat) (t t' : Table) (hi : (tables s).reverse[i]? = some t) (hi' : (tables s').reverse[i]? = some t')
    (n : Bytes) (v : Int) (hv : t.find n = some (some v)) : t'.find n = some (some v) := by
  rcases step_stack hl h with hle | hpush | ⟨mid, hle, hpop⟩
  · exact stackLe_get_rev hle i t t' hi hi' n v hv
  · rw [hpush] at hi'
    have : t' = t := by
      have hlt : i < (tables s).reverse.length := by
        rcases Nat.lt_or_ge i (tables s).reverse.length with h1 | h1
        · exact h1
        · rw [List.getElem?_eq_none h1] at hi; cases hi
      rw [List.reverse_cons, List.getElem?_append_left hlt, hi] at hi'
      cases hi'; rfl
    rw [this]; exact hv
  · cases mid with
    | nil => rw [hpop] at hi'; simp at hi'
    | cons m ms =>
      rw [hpop] at hi'
      simp only [List.tail_cons] at hi'
      have hlt : i < ms.reverse.length := by
        rcases Nat.lt_or_ge i ms.reverse.length with h1 | h1
        · exact h1
        · rw [List.getElem?_eq_none h1] at hi'; cases hi'
      have hi'' : (m :: ms).reverse[i]? = some t' := by
        rw [List.reverse_cons, List.getElem?_append_left hlt]; exact hi'
      exact stackLe_get_rev hle i t t' hi hi'' n v hv

/-! ## dup_reserved — the five collision classes are diagnosed and leave every table unchanged -/

/-- the state after a fatal diagnostic of statement `tag`: the log grows by one entry, `do_assemble` stops, and
nothing else (in particular no table) changes -/
def diagnosed (s : State) (tag : Nat) (k : Kind) : State := { (s.err tag k) with mode := .stopped .fatal 0 }

theorem diagnosed_tables (s : State) (tag : Nat) (k : Kind) : tables (diagnosed s tag k) = tables s := rfl

/-- C14.dup (1a)  second definition in one scope, `.const` -/
theorem dup_const {s : State} {f : Saved} {fs : List Saved} {l : Table} {n : Bytes} {v w : Int} {tag : Nat}
    (hm : s.mode = .running) (hf : s.frames = f :: fs) (hl : s.locals = some l)
    (hdef : l.find n = some (some w)) (hr : isReg n = false) :
    step s (.const n v tag) = .ok (diagnosed s tag .dupConst) := by
  simp [step, hm, hf, stmt, doConst, insertConstant, hr, hl, hdef, diagnosed]

/-- C14.dup (1b)  second definition in one scope, label -/
theorem dup_label {s : State} {f : Saved} {fs : List Saved} {l : Table} {n : Bytes} {v w : Int} {tag : Nat}
    (hm : s.mode = .running) (hf : s.frames = f :: fs) (hl : s.locals = some l)
    (hdef : l.find n = some (some w)) (hr : isReg n = false) :
    step s (.label n v tag) = .ok (diagnosed s tag .dupLocal) := by
  simp [step, hm, hf, stmt, doLabel, insertConstant, hr, hl, hdef, diagnosed, dupKind]

/-- C14.dup (1c)  second definition in one scope, `.import` of a name the file already has with a value -/
theorem dup_import {s : State} {f : Saved} {fs : List Saved} {l : Table} {n : Bytes} {v w : Int} {tag : Nat}
    (hm : s.mode = .running) (hf : s.frames = f :: fs) (hl : s.locals = some l)
    (hg : s.globals.find n = some (some v)) (hdef : l.find n = some (some w)) (hr : isReg n = false) :
    step s (.import n tag) = .ok (diagnosed s tag .dupLocal) := by
  simp [step, hm, hf, stmt, doImport, getConstant, Table.get, hg, insertConstant, hr, hl, hdef, diagnosed, dupKind]

/-- C14.dup (2a)  `.export` over a name the includer already has with a value -/
theorem dup_export_existing {s : State} {f : Saved} {fs : List Saved} {l : Table} {n : Bytes} {v w : Int}
    {tag : Nat} (hm : s.mode = .running) (hf : s.frames = f :: fs) (hl : s.locals = some l)
    (hdef : l.find n = some (some v)) (hg : s.globals.find n = some (some w)) (hr : isReg n = false) :
    step s (.export n tag) = .ok (diagnosed s tag .dupGlobal) := by
  simp [step, hm, hf, stmt, doExport, getConstant, Table.get, hl, hdef, insertConstant, hr, hg, diagnosed, dupKind]

/-- C14.dup (2b)  `.global` of a name the includer already has (valued or announced) -/
theorem dup_global_existing {s : State} {f : Saved} {fs : List Saved} {n : Bytes} {e : Option Int} {tag : Nat}
    (hm : s.mode = .running) (hf : s.frames = f :: fs)
    (hg : s.globals.find n = some e) (hr : isReg n = false) :
    step s (.global n tag) = .ok (diagnosed s tag .dupGlobal) := by
  simp [step, hm, hf, stmt, doGlobal, deferConstant, hr, hg, diagnosed, dupKind]

/-- C14.dup (3)  `.import` of a name the includer lacks -/
theorem dup_import_missing {s : State} {f : Saved} {fs : List Saved} {n : Bytes} {tag : Nat}
    (hm : s.mode = .running) (hf : s.frames = f :: fs) (hg : s.globals.find n = none) :
    step s (.import n tag) = .ok (diagnosed s tag .nfGlobal) := by
  simp [step, hm, hf, stmt, doImport, getConstant, Table.get, hg, diagnosed]

/-- C14.dup (4a)  `.export` of a name the file does not have -/
theorem dup_export_missing {s : State} {f : Saved} {fs : List Saved} {l : Table} {n : Bytes} {tag : Nat}
    (hm : s.mode = .running) (hf : s.frames = f :: fs) (hl : s.locals = some l) (hdef : l.find n = none) :
    step s (.export n tag) = .ok (diagnosed s tag .nfLocal) := by
  simp [step, hm, hf, stmt, doExport, getConstant, Table.get, hl, hdef, diagnosed]

/-- C14.dup (4b)  `.export` of an unvalued (announced, deferred) name -/
theorem dup_export_unvalued {s : State} {f : Saved} {fs : List Saved} {l : Table} {n : Bytes} {tag : Nat}
    (hm : s.mode = .running) (hf : s.frames = f :: fs) (hl : s.locals = some l) (hdef : l.find n = some none) :
    step s (.export n tag) = .ok (diagnosed s tag .defLocal) := by
  simp [step, hm, hf, stmt, doExport, getConstant, Table.get, hl, hdef, diagnosed]

/-- C14.dup (4c)  `.global` of a name that never receives a value in the file: the closure it scheduled pushes the
diagnostic at the end of the file and changes no table -/
theorem dup_global_unvalued {s : State} {l : Table} {n : Bytes} {tag : Nat}
    (hl : s.locals = some l) (hdef : l.find n = some none) :
    runTask s (.globalCopy n tag) = .ok (s.err tag .defLocal, some .trivial) := by
  simp [runTask, runGlobalCopy, getConstant, Table.get, hl, hdef]

/-- C14.dup (5)  a register name is refused by `.const`, a label and `.global` -/
theorem dup_reserved {s : State} {f : Saved} {fs : List Saved} {n : Bytes} {v : Int} {tag : Nat}
    (hm : s.mode = .running) (hf : s.frames = f :: fs) (hr : isReg n = true) :
    step s (.const n v tag) = .ok (diagnosed s tag .reserved) ∧
    step s (.label n v tag) = .ok (diagnosed s tag .reserved) ∧
    step s (.global n tag) = .ok (diagnosed s tag .reserved) := by
  refine ⟨?_, ?_, ?_⟩
  · simp [step, hm, hf, stmt, doConst, insertConstant, hr, diagnosed]
  · simp [step, hm, hf, stmt, doLabel, insertConstant, hr, diagnosed]
  · simp [step, hm, hf, stmt, doGlobal, deferConstant, hr, diagnosed]

/-! ## non-vacuity -/

/-- the names of the register file are reserved, case-insensitively; ordinary names are not -/
example : isReg (bytesOf "R0") = true ∧ isReg (bytesOf "sp") = true ∧ isReg (bytesOf "Control") = true ∧
    isReg (bytesOf "x") = false ∧ isReg (bytesOf "R16") = false := by decide

private def x : Bytes := bytesOf "x"

/-- a child exports `x`; the includer sees it with the child's value; a sibling starts empty and imports it -/
example : (run init [.enter 0, .enter 1, .const x 7 2, .export x 3, .exit, .use x 4, .enter 5, .use x 6, .exit,
      .exit, .finalize]).toOption.map (·.log.reverse) =
    some [.value 4 7 0, .diag 6 .nfLocal, .diag 5 .asmFailed, .done false] := by decide

example : (run init [.enter 0, .enter 1, .const x 7 2, .global x 3, .exit, .enter 5, .import x 6, .use x 7,
      .exit, .use x 8, .exit, .finalize]).toOption.map (·.log.reverse) =
    some [.value 7 7 0, .value 8 7 0, .done true] := by decide

/-- the hypotheses of the `dup_*` theorems are satisfiable (state after `enter; const x 1`) -/
example : ∃ s f fs l, run init [.enter 0, .const x 1 1] = .ok s ∧ s.mode = .running ∧ s.frames = f :: fs ∧
    s.locals = some l ∧ l.find x = some (some 1) ∧ isReg x = false :=
  ⟨{ depth := 1, globals := [], locals := some [(x, some 1)], globalTasks := [], localTasks := some [],
     frames := [{ count := 1, constants := none, tasks := none, tag := 0 }], mode := .running, log := [] },
   { count := 1, constants := none, tasks := none, tag := 0 }, [], [(x, some 1)],
   by rfl, rfl, rfl, rfl, by decide, by decide⟩

end Trion.Scope
