import TrionModel.Lemmas.SegRun
/-!
# C13 — output regions never overlap or overflow silently

Property theorems only. Model: `Trion.Seg` (Model/Seg.lean) on top of `Trion.Map`, mirroring
`change_segment`, `close_segment`, `ActiveSegment::{write, write_at, curr_addr, remaining}`, the target
choice of `write_instr`/`write_data`, `.addr` and `.align` as the code is after the fixes F10, F11, F12, F22.

`image s` (Lemmas/Seg.lean) is the address → byte dictionary of everything emitted so far: the closed map
overlaid with the active buffer. `Inv s` = map invariant (C15) ∧ the active region satisfies
`buf.length ≤ maxLen`, `0 < maxLen`, `base + maxLen ≤ 2^32` and no closed byte lies in
`[base, base + maxLen)` (i.e. `base + maxLen ≤` next occupied address) ∧ every placed statement lies
entirely in the closed map or entirely in the active buffer. `Op.wf s op`: selected addresses are `u32`,
alignments positive, and a rewrite only targets a statement that was placed.

The step theorems `inv_step`, `step_no_panic`, `rewrite_in_place` hold for EVERY operation in EVERY state
satisfying `Inv`, with no further guard. (Before /repo 46d02de `curr_addr` computed `buffer.len() as u32`, which is 0
for the 4 GiB buffer of a region based at 0, and the rewrite of a placed statement in that state hit
`assert_eq!(n, 0)`; the regression theorem `wrapped_rewrite_ok` replays the former witness history.)
Whole histories (`Legal`, with rewrites licensed by the ghost list `pending`): `reachable_inv`,
`history_no_panic`, `history_never_replaces`.
-/
namespace Trion.Seg
open Trion.Map Trion.Dict

/-- the initial state satisfies the invariant -/
theorem inv_init : Inv init := ⟨trivial, fun _ h => by simp [init] at h, fun _ h => by simp [init] at h⟩

/-- C13 (invariant), all operations except `rewrite`. -/
theorem inv_step_nonrewrite (s : State) (op : Op) (inv : Inv s) (wf : Op.wf s op)
    (hop : ∀ a d, op ≠ .rewrite a d) : Inv (step s op).1 :=
  (step_nonrewrite inv op wf hop).2.1

/-- C13 (no panic), all operations except `rewrite`: none of the `assert_eq!` on put counts, the
`remaining()` underflow, or an index panic of the map can fire. -/
theorem step_no_panic_nonrewrite (s : State) (op : Op) (inv : Inv s) (wf : Op.wf s op)
    (hop : ∀ a d, op ≠ .rewrite a d) : (step s op).2 ≠ .panic :=
  (step_nonrewrite inv op wf hop).1

/-- C13 (size of the active buffer): under `Inv` the active buffer ends inside the address space, hence holds at
most 2^32 bytes, and exactly 2^32 only in the state `Wrapped` (base 0, completely filled 4 GiB buffer). -/
theorem small_invariant (s : State) (inv : Inv s) :
    (∀ seg, s.active = some seg → seg.base + seg.buf.length ≤ 4294967296) ∧
    (∀ seg, s.active = some seg → seg.buf.length = 4294967296 → Wrapped s) :=
  ⟨fun _ ha => buf_le_of_inv inv ha,
    fun seg ha hl => ⟨seg, ha, by have := buf_le_of_inv inv ha; omega, hl⟩⟩

/-- C13 (a value resolved later is written at the address its statement occupied): wherever the placed
statement now lives — in the still active region, or in the closed map because other regions have been
opened since, including a region that ends exactly where the statement begins — the rewrite succeeds,
changes the image exactly on `[addr, addr + len)`, puts the resolved bytes there, keeps the invariant. -/
theorem rewrite_in_place (s : State) (addr : Nat) (d : List UInt8) (inv : Inv s)
    (hp : (addr, d.length) ∈ s.pending) :
    (step s (.rewrite addr d)).2 = .ok ∧ Inv (step s (.rewrite addr d)).1 ∧
    (∀ k, ¬ (addr ≤ k ∧ k < addr + d.length) → image (step s (.rewrite addr d)).1 k = image s k) ∧
    (∀ i, i < d.length → image (step s (.rewrite addr d)).1 (addr + i) = d[i]?) :=
  let h := rewrite_spec inv addr d hp
  ⟨h.1, h.2.1, h.2.2.1, h.2.2.2.1⟩

/-- C13 (invariant), every operation. -/
theorem inv_step (s : State) (op : Op) (inv : Inv s) (wf : Op.wf s op) : Inv (step s op).1 :=
  (legal_step inv op wf).2

/-- C13 (no panic), every operation: under the invariant, and with rewrites only of placed statements, no
`assert!`/`assert_eq!`, `remaining()` underflow or map index panic can fire. -/
theorem step_no_panic (s : State) (op : Op) (inv : Inv s) (wf : Op.wf s op) : (step s op).2 ≠ .panic :=
  (legal_step inv op wf).1

/-- Regression for the former finding (`curr_addr` wrapped to 0 for a 4 GiB buffer, fixed by /repo 46d02de): the
witness history `.addr 0`, 2^32−2 bytes of data, one two-byte statement (placed at 0xFFFFFFFE) is legal and reaches
the `Wrapped` state, where the cursor is now 0xFFFFFFFF, and the rewrite of that statement succeeds in place. -/
theorem wrapped_rewrite_ok (big : List UInt8) (hb : big.length = 4294967294) (x y x' y' : UInt8) :
    let ops : List Op := [.select 0, .append big, .place [x, y]]
    Legal init ops ∧ Wrapped (run init ops) ∧ (4294967294, 2) ∈ (run init ops).pending ∧
    (∀ seg, (run init ops).active = some seg → seg.cur = 4294967295) ∧
    (step (run init ops) (.rewrite 4294967294 [x', y'])).2 = .ok ∧
    image (step (run init ops) (.rewrite 4294967294 [x', y'])).1 4294967294 = some x' ∧
    image (step (run init ops) (.rewrite 4294967294 [x', y'])).1 4294967295 = some y' := by
  intro ops
  have h1 : step init (.select 0) = (⟨[], some ⟨0, [], 4294967296⟩, []⟩, .ok) := by rfl
  have h2 : step ⟨[], some ⟨0, [], 4294967296⟩, []⟩ (.append big) = (⟨[], some ⟨0, big, 4294967296⟩, []⟩, .ok) := by
    simp [step, Active.write, Active.remaining, hb]
  have h3 : step ⟨[], some ⟨0, big, 4294967296⟩, []⟩ (.place [x, y]) =
      (⟨[], some ⟨0, big ++ [x, y], 4294967296⟩, [(4294967294, 2)]⟩, .placed 4294967294) := by
    simp [step, Active.write, Active.remaining, Active.cur, hb, u32Max]
  have hrun : run init ops = ⟨[], some ⟨0, big ++ [x, y], 4294967296⟩, [(4294967294, 2)]⟩ := by
    simp only [ops, run, List.foldl, h1, h2, h3]
  have hlegal : Legal init ops := by
    refine ⟨by show (0 : Nat) ≤ u32Max; decide, ?_⟩
    rw [h1]
    refine ⟨trivial, ?_⟩
    rw [h2]
    exact ⟨trivial, trivial⟩
  have hinv := (run_inv ops init inv_init hlegal).1
  have hp : (4294967294, [x', y'].length) ∈ (run init ops).pending := by rw [hrun]; simp
  obtain ⟨r1, _, _, r4⟩ := rewrite_in_place _ 4294967294 [x', y'] hinv hp
  refine ⟨hlegal, ?_, ?_, ?_, r1, ?_, ?_⟩
  · rw [hrun]; exact ⟨_, rfl, rfl, by simp [hb]⟩
  · rw [hrun]; simp
  · intro seg hs
    rw [hrun] at hs
    cases hs
    simp [Active.cur, hb, u32Max]
  · exact r4 0 (by simp)
  · exact r4 1 (by simp)

/-- C13 (bytes are never replaced): no operation other than the rewrite of a placed statement changes a
byte already present in the image — whether the operation succeeds or is refused. -/
theorem never_replaces (s : State) (op : Op) (inv : Inv s) (wf : Op.wf s op)
    (hop : ∀ a d, op ≠ .rewrite a d) (k : Nat) (hk : (image s k).isSome = true) :
    image (step s op).1 k = image s k :=
  (step_nonrewrite inv op wf hop).2.2 k hk

/-- C13 (selecting an occupied address is refused): whether the address holds output of a closed region or
of the region being written, `.addr a` is the diagnostic `occupied a` and the image is unchanged. -/
theorem select_occupied (s : State) (a : Nat) (inv : Inv s) (ha : a ≤ u32Max)
    (occ : (image s a).isSome = true) :
    (step s (.select a)).2 = .diag (.occupied a) ∧ image (step s (.select a)).1 = image s := by
  obtain ⟨_, h2, _, h4⟩ := select_spec inv a ha
  refine ⟨?_, h2⟩
  rcases h4 with ⟨_, h⟩ | ⟨h, _⟩
  · exact h
  · rw [h] at occ; simp at occ

/-- C13 (a free address is accepted, and the cursor is exactly that address): the new region has base `a`,
an empty buffer, cursor `a`, and the image is unchanged. -/
theorem select_next (s : State) (a : Nat) (inv : Inv s) (ha : a ≤ u32Max) (free : image s a = none) :
    (step s (.select a)).2 = .ok ∧ image (step s (.select a)).1 = image s ∧
    ∃ seg, (step s (.select a)).1.active = some seg ∧ seg.base = a ∧ seg.buf = [] ∧ seg.cur = a := by
  obtain ⟨_, h2, _, h4⟩ := select_spec inv a ha
  rcases h4 with ⟨h, _⟩ | ⟨_, h, seg, h5, h6, h7⟩
  · rw [free] at h; simp at h
  · refine ⟨h, h2, seg, h5, h6, h7, ?_⟩
    unfold Active.cur; rw [h6, h7]; unfold u32Max at ha ⊢; simp; omega

/-- C13 (the next byte goes to exactly the cursor address): a successful write of `d` (immediate statement;
likewise the first write of an instruction / `.du*`, which uses the same `ActiveSegment::write`) puts `d[i]`
at `base + |buf| + i` and changes no other address. -/
theorem write_lands_at_cursor (s : State) (seg : Active) (d : List UInt8) (inv : Inv s)
    (ha : s.active = some seg) (fits : seg.buf.length + d.length ≤ seg.maxLen) :
    (step s (.append d)).2 = .ok ∧
    (∀ i, i < d.length → image (step s (.append d)).1 (seg.base + seg.buf.length + i) = d[i]?) ∧
    (∀ k, ¬ (seg.base + seg.buf.length ≤ k ∧ k < seg.base + seg.buf.length + d.length) →
      image (step s (.append d)).1 k = image s k) := by
  have ok := inv.2.1 seg ha
  rcases write_spec ok d with ⟨_, f2⟩ | ⟨f1, _⟩
  · obtain ⟨_, _, g3, g4⟩ := grow_spec inv ha d fits [] (fun p hp => by simp at hp)
    simp only [step, ha, f2]
    exact ⟨trivial, g4, g3⟩
  · omega

/-- C13 (overflow is a diagnostic): a statement that would extend the region past its capacity — which by
`Inv` ends at the next occupied address or at 2^32 — is the diagnostic `overflow` and NOTHING changes
(neither the active region nor the closed map). Immediate statements and first writes alike. -/
theorem overflow_is_diag (s : State) (seg : Active) (d : List UInt8) (inv : Inv s)
    (ha : s.active = some seg) (h : seg.buf.length + d.length > seg.maxLen) :
    step s (.append d) = (s, .diag (.overflow d.length (seg.maxLen - seg.buf.length))) ∧
    step s (.place d) = (s, .diag (.overflow d.length (seg.maxLen - seg.buf.length))) := by
  have ok := inv.2.1 seg ha
  rcases write_spec ok d with ⟨f1, _⟩ | ⟨_, f2⟩
  · omega
  · simp only [step, ha, f2, eta_active ha, and_self]

/-- C13 (`.align n`, after /repo 9bfedb8): the padding is computed from the TRUE cursor `base + |buf|` (not the
saturated `curr_addr`): nothing happens when it is a multiple of `n`; otherwise `n - cursor % n` bytes 0xBE are
appended when they fit — and the new cursor is a multiple of `n` — and else the statement is the diagnostic
`overflow` and the whole state is unchanged. -/
theorem align_spec (s : State) (seg : Active) (n : Nat) (inv : Inv s) (ha : s.active = some seg) (hn : 0 < n) :
    ((seg.base + seg.buf.length) % n = 0 → step s (.align n) = (s, .ok)) ∧
    ((seg.base + seg.buf.length) % n ≠ 0 → n - (seg.base + seg.buf.length) % n ≤ seg.maxLen - seg.buf.length →
      step s (.align n) = ({ s with active := some { seg with
        buf := seg.buf ++ List.replicate (n - (seg.base + seg.buf.length) % n) 0xBE } }, .ok) ∧
      (seg.base + (seg.buf ++ List.replicate (n - (seg.base + seg.buf.length) % n) 0xBE).length) % n = 0) ∧
    ((seg.base + seg.buf.length) % n ≠ 0 → ¬ (n - (seg.base + seg.buf.length) % n ≤ seg.maxLen - seg.buf.length) →
      step s (.align n) =
        (s, .diag (.overflow (n - (seg.base + seg.buf.length) % n) (seg.maxLen - seg.buf.length)))) := by
  have ok := inv.2.1 seg ha
  have hr : seg.remaining = some (seg.maxLen - seg.buf.length) := by
    unfold Active.remaining; rw [if_pos ok.1]
  refine ⟨fun h0 => ?_, fun h0 h1 => ⟨?_, ?_⟩, fun h0 h1 => ?_⟩
  · simp only [step, ha, h0, if_true]
  · simp only [step, ha, h0, if_false, hr, h1, if_true]
    rcases write_spec ok (List.replicate (n - (seg.base + seg.buf.length) % n) 0xBE) with ⟨_, f2⟩ | ⟨f1, _⟩
    · rw [f2]
    · simp only [List.length_replicate] at f1; have := ok.1; omega
  · rw [List.length_append, List.length_replicate]
    have h := Nat.div_add_mod (seg.base + seg.buf.length) n
    have hlt := Nat.mod_lt (seg.base + seg.buf.length) hn
    have e : seg.base + (seg.buf.length + (n - (seg.base + seg.buf.length) % n)) =
        n * ((seg.base + seg.buf.length) / n + 1) := by
      rw [Nat.mul_add, Nat.mul_one]; omega
    rw [e, Nat.mul_mod_right]
  · simp only [step, ha, h0, if_false, hr, h1]

/-- the capacity of the active region really is the room up to the next occupied address / 2^32 -/
theorem capacity_meaning (s : State) (seg : Active) (inv : Inv s) (ha : s.active = some seg) :
    seg.base + seg.maxLen ≤ 4294967296 ∧ ∀ k, seg.base ≤ k → k < seg.base + seg.maxLen → abs s.map k = none :=
  ⟨(inv.2.1 seg ha).2.1, (inv.2.1 seg ha).2.2.2⟩

/-- C13 (whole histories, WITH rewrites of placed statements). `Legal s ops`: every operation is well-formed
in the state it is issued in — a rewrite must target an entry `(addr, len)` of the ghost list `pending`, i.e. a
statement that an earlier `place` of this very history put at `addr` with `len` bytes. Every state reached from `init` by a legal history satisfies the invariant. -/
theorem reachable_inv (ops : List Op) (lg : Legal init ops) : Inv (run init ops) :=
  (run_inv ops init inv_init lg).1

/-- C13 (no panic over whole histories): no operation of a legal history panics. -/
theorem history_no_panic (ops : List Op) (lg : Legal init ops) : ∀ o ∈ outs init ops, o ≠ .panic :=
  (run_inv ops init inv_init lg).2

/-- C13 (bytes are never replaced, whole histories): along a legal history continued from any reachable state,
a byte present in the image keeps its value until the end unless the history contains the rewrite of a placed
statement covering its address. -/
theorem history_never_replaces (pre ops : List Op) (lg : Legal init (pre ++ ops)) (k : Nat)
    (hk : (image (run init pre) k).isSome = true)
    (hno : ∀ a d, Op.rewrite a d ∈ ops → ¬ (a ≤ k ∧ k < a + d.length)) :
    image (run init (pre ++ ops)) k = image (run init pre) k := by
  have split : ∀ (pre : List Op) (s : State), Legal s (pre ++ ops) → Legal s pre ∧ Legal (run s pre) ops := by
    intro pre
    induction pre with
    | nil => intro s h; exact ⟨trivial, h⟩
    | cons op r ih =>
      intro s h
      obtain ⟨i1, i2⟩ := ih _ h.2
      exact ⟨⟨h.1, i1⟩, i2⟩
  obtain ⟨l1, l2⟩ := split pre init lg
  have hrun : run init (pre ++ ops) = run (run init pre) ops := by simp [run, List.foldl_append]
  rw [hrun]
  exact run_keeps ops _ (run_inv pre init inv_init l1).1 l2 k hk hno

/-- a legal history with a rewrite: place a two-byte statement, open another region, resolve the statement -/
example : Legal init [.select 0x100, .place [0, 0xBE], .select 0x200, .rewrite 0x100 [1, 2]] ∧
    outs init [.select 0x100, .place [0, 0xBE], .select 0x200, .rewrite 0x100 [1, 2]] =
      [.ok, .placed 0x100, .ok, .ok] ∧
    (run init [.select 0x100, .place [0, 0xBE], .select 0x200, .rewrite 0x100 [1, 2]]).map = [(0x100, [1, 2])] := by
  refine ⟨⟨by show (0x100 : Nat) ≤ u32Max; decide, trivial, by show (0x200 : Nat) ≤ u32Max; decide, ?_, trivial⟩,
    by rfl, by rfl⟩
  show ((0x100 : Nat), 2) ∈ [((0x100 : Nat), 2)]
  simp

-- non-vacuity: the F10 / F12 / F22 witnesses on the model (capacity 4 before 0x104; re-selecting a non-empty
-- region; a region filled through 0xFFFFFFFF)
example : (step ⟨[(0x104, [1, 0, 0, 0])], some ⟨0x100, [0, 0xBF, 0, 0xBF], 4⟩, []⟩ (.place [0, 0xBF])).2 =
    .diag (.overflow 2 0) := by rfl
example : (step ⟨[], some ⟨0x100, [1], 4294967040⟩, []⟩ (.select 0x100)).2 = .diag (.occupied 0x100) := by rfl
example : (step ⟨[], some ⟨0xFFFFFFFF, [1], 1⟩, []⟩ (.place [2])).2 = .diag (.overflow 1 0) := by rfl
-- /repo 9bfedb8: after a region was filled through 0xFFFFFFFF the true cursor is 2^32: `.align 2` needs no padding,
-- `.align 3` has no room
example : step ⟨[], some ⟨0xFFFFFFFF, [1], 1⟩, []⟩ (.align 2) = (⟨[], some ⟨0xFFFFFFFF, [1], 1⟩, []⟩, .ok) := by rfl
example : (step ⟨[], some ⟨0xFFFFFFFF, [1], 1⟩, []⟩ (.align 3)).2 = .diag (.overflow 2 0) := by rfl
example : Inv ⟨[(0x104, [1, 0, 0, 0])], some ⟨0x100, [0, 0xBF], 4⟩, [(0x100, 2)]⟩ := by
  refine ⟨⟨by omega, by simp, by simp, trivial⟩, fun seg h => ?_, fun p hp => ?_⟩
  · simp only [Option.some.injEq] at h; subst h
    refine ⟨by simp, by simp, by simp, fun k k1 k2 => ?_⟩
    simp only [abs]; simp only at k1 k2; rw [if_neg (by omega)]
  · simp only [List.mem_singleton] at hp; subst hp
    exact Or.inr ⟨_, rfl, by simp, by simp⟩

end Trion.Seg
