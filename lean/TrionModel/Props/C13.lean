import TrionModel.Lemmas.SegRewrite
/-!
# C13 — output regions never overlap or overflow silently

Property theorems only. Model: `Trion.Seg` (Model/Seg.lean) on top of `Trion.Map`, mirroring
`change_segment`, `close_segment`, `ActiveSegment::{write, write_at, curr_addr, remaining}`, the target
choice of `write_instr`/`write_data`, `.addr` and `.align` as the code is after the fixes F10, F11, F12, F22.

`image s` (Lemmas/Seg.lean) is the address → byte dictionary of everything emitted so far: the closed map
overlaid with the active buffer. `Inv s` = map invariant (C15) ∧ the active region satisfies
`buf.length ≤ maxLen`, `0 < maxLen`, `base + maxLen ≤ 2^32` and no closed byte lies in
`[base, base + maxLen)` (i.e. `base + maxLen ≤` next occupied address) ∧ every placed statement lies
entirely in the closed map or entirely in the active buffer. `Op.wf s op`: selected addresses are `u32`,
alignments positive, and a rewrite only targets a statement that was placed.

FULL-STRENGTH STATEMENTS (proved below under one extra guard, hence named `…_partial`):
  theorem inv_step         : Inv s → Op.wf s op → Inv (step s op).1
  theorem step_no_panic    : Inv s → Op.wf s op → (step s op).2 ≠ .panic
  theorem rewrite_in_place : Inv s → (addr, d.length) ∈ s.pending → step s (.rewrite addr d) is `.ok`, changes
                             `image` exactly on [addr, addr + d.length) and puts `d` there
The guard is `Small s`: the active buffer holds fewer than 2^32 bytes. It is needed only for `rewrite`
(`ActiveSegment::curr_addr` computes `buffer.len() as u32`, which wraps for a 4 GiB buffer in a region based
at 0 with nothing above it); for all other operations the theorems hold without it
(`inv_step_nonrewrite`, `step_no_panic_nonrewrite`).
-/
namespace Trion.Seg
open Trion.Map Trion.Dict

/-- the initial state satisfies the invariant -/
theorem inv_init : Inv init := ⟨trivial, fun _ h => by simp [init] at h, fun _ h => by simp [init] at h⟩

/-- C13 (invariant), all operations except `rewrite`. -/
theorem inv_step_nonrewrite (s : State) (op : Op) (inv : Inv s) (wf : Op.wf s op)
    (hop : ∀ a d, op ≠ .rewrite a d) : Inv (step s op).1 :=
  (step_nonrewrite inv op wf hop).2.1

/-- C13 (no panic), all operations except `rewrite`: none of the `assert_eq!` on put counts, the
`remaining()` underflow, or an index panic of the map can fire. -/
theorem step_no_panic_nonrewrite (s : State) (op : Op) (inv : Inv s) (wf : Op.wf s op)
    (hop : ∀ a d, op ≠ .rewrite a d) : (step s op).2 ≠ .panic :=
  (step_nonrewrite inv op wf hop).1

/-- the active buffer holds fewer than 2^32 bytes -/
def Small (s : State) : Prop := ∀ seg, s.active = some seg → seg.buf.length < 4294967296

/-- C13 (a value resolved later is written at the address its statement occupied): wherever the placed
statement now lives — in the still active region, or in the closed map because other regions have been
opened since, including a region that ends exactly where the statement begins — the rewrite succeeds,
changes the image exactly on `[addr, addr + len)`, puts the resolved bytes there, keeps the invariant. -/
theorem rewrite_in_place_partial (s : State) (addr : Nat) (d : List UInt8) (inv : Inv s) (sm : Small s)
    (hp : (addr, d.length) ∈ s.pending) :
    (step s (.rewrite addr d)).2 = .ok ∧ Inv (step s (.rewrite addr d)).1 ∧
    (∀ k, ¬ (addr ≤ k ∧ k < addr + d.length) → image (step s (.rewrite addr d)).1 k = image s k) ∧
    (∀ i, i < d.length → image (step s (.rewrite addr d)).1 (addr + i) = d[i]?) :=
  let h := rewrite_spec inv addr d hp sm
  ⟨h.1, h.2.1, h.2.2.1, h.2.2.2.1⟩

/-- C13 (invariant), every operation. -/
theorem inv_step_partial (s : State) (op : Op) (inv : Inv s) (sm : Small s) (wf : Op.wf s op) :
    Inv (step s op).1 := by
  cases op with
  | rewrite a d => exact (rewrite_spec inv a d wf sm).2.1
  | select a => exact inv_step_nonrewrite s _ inv wf (fun _ _ h => by cases h)
  | append d => exact inv_step_nonrewrite s _ inv wf (fun _ _ h => by cases h)
  | align n => exact inv_step_nonrewrite s _ inv wf (fun _ _ h => by cases h)
  | place d => exact inv_step_nonrewrite s _ inv wf (fun _ _ h => by cases h)
  | close => exact inv_step_nonrewrite s _ inv wf (fun _ _ h => by cases h)

/-- C13 (no panic), every operation: under the invariant, and with rewrites only of placed statements,
no `assert!`/`assert_eq!`, `remaining()` underflow or map index panic can fire. -/
theorem step_no_panic_partial (s : State) (op : Op) (inv : Inv s) (sm : Small s) (wf : Op.wf s op) :
    (step s op).2 ≠ .panic := by
  cases op with
  | rewrite a d =>
    have h := (rewrite_spec inv a d wf sm).1
    show (rewrite s a d).2 ≠ .panic
    rw [h]; simp
  | select a => exact step_no_panic_nonrewrite s _ inv wf (fun _ _ h => by cases h)
  | append d => exact step_no_panic_nonrewrite s _ inv wf (fun _ _ h => by cases h)
  | align n => exact step_no_panic_nonrewrite s _ inv wf (fun _ _ h => by cases h)
  | place d => exact step_no_panic_nonrewrite s _ inv wf (fun _ _ h => by cases h)
  | close => exact step_no_panic_nonrewrite s _ inv wf (fun _ _ h => by cases h)

/-- C13 (bytes are never replaced): no operation other than the rewrite of a placed statement changes a
byte already present in the image — whether the operation succeeds or is refused. -/
theorem never_replaces (s : State) (op : Op) (inv : Inv s) (wf : Op.wf s op)
    (hop : ∀ a d, op ≠ .rewrite a d) (k : Nat) (hk : (image s k).isSome = true) :
    image (step s op).1 k = image s k :=
  (step_nonrewrite inv op wf hop).2.2 k hk

/-- C13 (selecting an occupied address is refused): whether the address holds output of a closed region or
of the region being written, `.addr a` is the diagnostic `occupied a` and the image is unchanged. -/
theorem select_occupied (s : State) (a : Nat) (inv : Inv s) (ha : a ≤ u32Max)
    (occ : (image s a).isSome = true) :
    (step s (.select a)).2 = .diag (.occupied a) ∧ image (step s (.select a)).1 = image s := by
  obtain ⟨_, h2, _, h4⟩ := select_spec inv a ha
  refine ⟨?_, h2⟩
  rcases h4 with ⟨_, h⟩ | ⟨h, _⟩
  · exact h
  · rw [h] at occ; simp at occ

/-- C13 (a free address is accepted, and the cursor is exactly that address): the new region has base `a`,
an empty buffer, cursor `a`, and the image is unchanged. -/
theorem select_next (s : State) (a : Nat) (inv : Inv s) (ha : a ≤ u32Max) (free : image s a = none) :
    (step s (.select a)).2 = .ok ∧ image (step s (.select a)).1 = image s ∧
    ∃ seg, (step s (.select a)).1.active = some seg ∧ seg.base = a ∧ seg.buf = [] ∧ seg.cur = a := by
  obtain ⟨_, h2, _, h4⟩ := select_spec inv a ha
  rcases h4 with ⟨h, _⟩ | ⟨_, h, seg, h5, h6, h7⟩
  · rw [free] at h; simp at h
  · refine ⟨h, h2, seg, h5, h6, h7, ?_⟩
    unfold Active.cur; rw [h6, h7]; unfold u32Max at ha ⊢; simp; omega

/-- C13 (the next byte goes to exactly the cursor address): a successful write of `d` (immediate statement;
likewise the first write of an instruction / `.du*`, which uses the same `ActiveSegment::write`) puts `d[i]`
at `base + |buf| + i` and changes no other address. -/
theorem write_lands_at_cursor (s : State) (seg : Active) (d : List UInt8) (inv : Inv s)
    (ha : s.active = some seg) (fits : seg.buf.length + d.length ≤ seg.maxLen) :
    (step s (.append d)).2 = .ok ∧
    (∀ i, i < d.length → image (step s (.append d)).1 (seg.base + seg.buf.length + i) = d[i]?) ∧
    (∀ k, ¬ (seg.base + seg.buf.length ≤ k ∧ k < seg.base + seg.buf.length + d.length) →
      image (step s (.append d)).1 k = image s k) := by
  have ok := inv.2.1 seg ha
  rcases write_spec ok d with ⟨_, f2⟩ | ⟨f1, _⟩
  · obtain ⟨_, _, g3, g4⟩ := grow_spec inv ha d fits [] (fun p hp => by simp at hp)
    simp only [step, ha, f2]
    exact ⟨trivial, g4, g3⟩
  · omega

/-- C13 (overflow is a diagnostic): a statement that would extend the region past its capacity — which by
`Inv` ends at the next occupied address or at 2^32 — is the diagnostic `overflow` and NOTHING changes
(neither the active region nor the closed map). Immediate statements and first writes alike. -/
theorem overflow_is_diag (s : State) (seg : Active) (d : List UInt8) (inv : Inv s)
    (ha : s.active = some seg) (h : seg.buf.length + d.length > seg.maxLen) :
    step s (.append d) = (s, .diag (.overflow d.length (seg.maxLen - seg.buf.length))) ∧
    step s (.place d) = (s, .diag (.overflow d.length (seg.maxLen - seg.buf.length))) := by
  have ok := inv.2.1 seg ha
  rcases write_spec ok d with ⟨f1, _⟩ | ⟨_, f2⟩
  · omega
  · simp only [step, ha, f2, eta_active ha, and_self]

/-- the capacity of the active region really is the room up to the next occupied address / 2^32 -/
theorem capacity_meaning (s : State) (seg : Active) (inv : Inv s) (ha : s.active = some seg) :
    seg.base + seg.maxLen ≤ 4294967296 ∧ ∀ k, seg.base ≤ k → k < seg.base + seg.maxLen → abs s.map k = none :=
  ⟨(inv.2.1 seg ha).2.1, (inv.2.1 seg ha).2.2.2⟩

/-- every state reached from the initial one by operations other than `rewrite` satisfies the invariant -/
theorem reachable_inv_partial (ops : List Op) (hops : ∀ op ∈ ops, (∀ a d, op ≠ .rewrite a d) ∧
      (∀ a, op = .select a → a ≤ u32Max) ∧ (∀ n, op = .align n → 0 < n)) :
    Inv (ops.foldl (fun s op => (step s op).1) init) := by
  have gen : ∀ (ops : List Op) (s : State), Inv s → (∀ op ∈ ops, (∀ a d, op ≠ .rewrite a d) ∧
      (∀ a, op = .select a → a ≤ u32Max) ∧ (∀ n, op = .align n → 0 < n)) →
      Inv (ops.foldl (fun s op => (step s op).1) s) := by
    intro ops
    induction ops with
    | nil => intro s inv _; exact inv
    | cons op r ih =>
      intro s inv h
      obtain ⟨h1, h2, h3⟩ := h op (List.mem_cons_self ..)
      have wf : Op.wf s op := by
        cases op with
        | select a => exact h2 a rfl
        | align n => exact h3 n rfl
        | rewrite a d => exact absurd rfl (h1 a d)
        | _ => trivial
      exact ih _ (inv_step_nonrewrite s op inv wf h1) (fun o ho => h o (List.mem_cons_of_mem _ ho))
  exact gen ops init inv_init hops

-- non-vacuity: the F10 / F12 / F22 witnesses on the model (capacity 4 before 0x104; re-selecting a non-empty
-- region; a region filled through 0xFFFFFFFF)
example : (step ⟨[(0x104, [1, 0, 0, 0])], some ⟨0x100, [0, 0xBF, 0, 0xBF], 4⟩, []⟩ (.place [0, 0xBF])).2 =
    .diag (.overflow 2 0) := by rfl
example : (step ⟨[], some ⟨0x100, [1], 4294967040⟩, []⟩ (.select 0x100)).2 = .diag (.occupied 0x100) := by rfl
example : (step ⟨[], some ⟨0xFFFFFFFF, [1], 1⟩, []⟩ (.place [2])).2 = .diag (.overflow 1 0) := by rfl
example : Inv ⟨[(0x104, [1, 0, 0, 0])], some ⟨0x100, [0, 0xBF], 4⟩, [(0x100, 2)]⟩ := by
  refine ⟨⟨by omega, by simp, by simp, trivial⟩, fun seg h => ?_, fun p hp => ?_⟩
  · simp only [Option.some.injEq] at h; subst h
    refine ⟨by simp, by simp, by simp, fun k k1 k2 => ?_⟩
    simp only [abs]; simp only at k1 k2; rw [if_neg (by omega)]
  · simp only [List.mem_singleton] at hp; subst hp
    exact Or.inr ⟨_, rfl, by simp, by simp⟩

end Trion.Seg
