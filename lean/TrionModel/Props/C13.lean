import TrionModel.Lemmas.Seg
/-!
# C13 — output regions never overlap or overflow silently

Property theorems only. Model: `Trion.Seg` (Model/Seg.lean) on top of `Trion.Map`; `image s` is the
address → byte dictionary of everything emitted so far (closed map overlaid with the active buffer).
-/
namespace Trion.Seg
open Trion.Map Trion.Dict

/-- C13 (overflow is a diagnostic, append path): an immediate statement that does not fit into the room left
before the next occupied address / the end of the address space is a diagnostic and changes nothing. -/
theorem overflow_is_diag_append (s : State) (seg : Active) (d : List UInt8)
    (ha : s.active = some seg) (hb : seg.buf.length ≤ seg.maxLen)
    (h : seg.buf.length + d.length > seg.maxLen) :
    step s (.append d) = (s, .diag (.overflow d.length (seg.maxLen - seg.buf.length))) := by
  simp only [step, ha, Active.write, Active.remaining, hb, if_true]
  rw [if_neg (by omega)]
  cases s; simp_all

example : step ⟨[], some ⟨0xFFFFFFFE, [1], 2⟩, []⟩ (.append [2, 3]) =
    (⟨[], some ⟨0xFFFFFFFE, [1], 2⟩, []⟩, .diag (.overflow 2 1)) := by rfl

end Trion.Seg
